(* Executable model of share/dkg/pedersen (dkg.go, status.go, structs.go):
   NewDistKeyHandler, Deals, ProcessDeals, ProcessResponses,
   ProcessJustifications, computeDKGResult, computeResharingResult,
   checkIfEvicted.  Definitions only.

   Representation.  Groups are modelled by discrete logarithms (Algebra/Grp.v):
   a commitment IS the scalar it commits to, [s*G] is [smul s pbase].  Public
   keys of the participants are only compared, so a key is an identifier.  A
   node is (index, key id).  ECIES is an oracle: a deal carries what the
   addressed holder obtains when it decrypts ([None] = does not decrypt or
   does not decode).  The session identifier of a bundle is abstracted to "equal
   to the configured nonce or not"; signatures are checked by the Protocol
   driver before a bundle reaches these functions (DKG/PacketSet.v).

   Go maps keyed by dealer / holder index (statuses, validShares, allPublics)
   and the append-only lists used through slices.Contains only (evicted,
   evictedHolders, validAuthors) are data-refined into vectors with a fixed key
   skeleton: one record per old node (its row of the status matrix, the valid
   share and the public polynomial received from it, evicted / seen flags) and
   one record per new node (evicted-holder / author flags).  [upd] on a key
   that is not in the skeleton does nothing (the code checks isIndexIncluded
   before every write).  Statuses are integers: 0 = Success, 1 = Complaint,
   anything else is what a faulty response may carry. *)
From Coq Require Import ZArith List Bool Lia.
From Kyber Require Import Algebra.Zq Algebra.Grp.
Import ListNotations.
Local Open Scope Z_scope.

Section Model.
  Variable q : Z.
  Notation F := (zq q).

  (* ---------------------------------------------------------------- polynomials *)
  (* share index i is evaluated at x = i + 1 *)
  Definition xof (i : Z) : F := of_Z q (i + 1).

  (* PriPoly.Eval / PubPoly.Eval (Horner), coefficients lowest first *)
  Fixpoint peval (cs : list F) (x : F) : F :=
    match cs with
    | [] => zzero
    | c :: r => zadd c (zmul x (peval r x))
    end.

  Definition commit (s : F) : F := smul s pbase.           (* s*G *)
  Definition commit_poly (cs : list F) : list F := map commit cs.

  Fixpoint poly_add (a b : list F) : list F :=
    match a, b with
    | x :: a', y :: b' => padd x y :: poly_add a' b'
    | _, _ => []
    end.

  (* Lagrange interpolation at 0 of the points (index, value): what
     share.RecoverPriPoly(...).Secret() and share.RecoverCommit compute *)
  Definition lagrange0 (pts : list (Z * F)) : F :=
    fold_right (fun p acc =>
      let xi := xof (fst p) in
      let num := fold_right (fun p' a => if fst p' =? fst p then a else zmul a (xof (fst p'))) zone pts in
      let den := fold_right (fun p' a => if fst p' =? fst p then a else zmul a (zsub (xof (fst p')) xi)) zone pts in
      zadd (zmul (zdiv num den) (snd p)) acc) zzero pts.

  (* ---------------------------------------------------------------- keyed vectors *)
  Definition upd {A} (k : Z) (f : A -> A) (m : list (Z * A)) : list (Z * A) :=
    map (fun e => if fst e =? k then (fst e, f (snd e)) else e) m.

  Fixpoint look {A} (k : Z) (m : list (Z * A)) : option A :=
    match m with
    | [] => None
    | (k', v) :: r => if k' =? k then Some v else look k r
    end.

  Definition included {A} (m : list (Z * A)) (k : Z) : bool :=
    existsb (fun e => fst e =? k) m.

  (* findPub: index of the first node with the given key *)
  Fixpoint find_pub (l : list (Z * Z)) (key : Z) : option Z :=
    match l with
    | [] => None
    | (i, k) :: r => if k =? key then Some i else find_pub r key
    end.

  (* ---------------------------------------------------------------- messages *)
  Record deal := mkdeal { dl_idx : Z; dl_share : option F }.
  Record deal_bundle := mkdb { db_dealer : Z; db_deals : list deal; db_pub : list F; db_sid : bool }.
  Record response := mkresp { r_dealer : Z; r_status : Z }.
  Record resp_bundle := mkrb { rb_holder : Z; rb_resps : list response; rb_sid : bool }.
  Record justif := mkjust { j_idx : Z; j_share : F }.
  Record just_bundle := mkjb { jb_dealer : Z; jb_justifs : list justif; jb_sid : bool }.
  Record result := mkres { res_qual : list Z; res_commits : list F; res_idx : Z; res_share : F }.

  (* ---------------------------------------------------------------- configuration *)
  Record cfg := mkcfg {
    c_old : list (Z * Z);      (* OldNodes (= NewNodes in a fresh DKG) *)
    c_new : list (Z * Z);
    c_thr : Z;                 (* c.Threshold *)
    c_oldthr : Z;              (* c.OldThreshold *)
    c_fast : bool;
    c_reshare : bool;
    c_oidx : Z; c_nidx : Z;
    c_old_present : bool; c_new_present : bool;
    c_can_issue : bool; c_can_receive : bool;
    c_oldT : Z;                (* d.oldT = len(PublicCoeffs) *)
    c_newT : Z;                (* d.newT *)
    c_priv : list F;           (* coefficients of dpriv *)
    c_oldpub : list F          (* olddpub *)
  }.

  (* NewDistKeyHandler: [old] is empty for a fresh DKG; [has_share]: c.Share
     given; [has_coeffs]: c.PublicCoeffs given; [priv]: the polynomial
     share.NewPriPoly drew (its randomness is external); [oldpub]: the
     coefficients of the previous public polynomial (Share.Commits or
     PublicCoeffs).  Configurations the constructor refuses are not modelled. *)
  Definition new_handler (old new : list (Z * Z)) (key thr oldthr : Z) (fast has_share has_coeffs : bool)
             (priv oldpub : list F) : cfg :=
    let reshare := has_share || has_coeffs in
    let new_present := match find_pub new key with Some _ => true | None => false end in
    let nidx := match find_pub new key with Some i => i | None => 0 end in
    let fresh_present := negb reshare && new_present in
    let old' := if fresh_present then new else old in
    let old_present := match find_pub old' key with Some _ => true | None => false end in
    let oidx := match find_pub old' key with Some i => i | None => 0 end in
    let can_issue := fresh_present || has_share in
    let newT := if thr =? 0 then Z.shiftr (Z.of_nat (length new)) 1 + 1 else thr in
    let oldT := if reshare && new_present then Z.of_nat (length oldpub) else 0 in
    mkcfg old' new thr oldthr fast reshare oidx nidx old_present new_present can_issue new_present
          oldT newT priv (if reshare && new_present then oldpub else []).

  (* ---------------------------------------------------------------- state *)
  Record dstate := mkd {
    d_row : list (Z * Z);       (* statuses[dealer] : holder -> status *)
    d_share : option F;         (* validShares[dealer] *)
    d_pub : option (list F);    (* allPublics[dealer] *)
    d_ev : bool;                (* dealer in d.evicted *)
    d_seen : bool               (* seenIndex / seen of the running Process call *)
  }.
  Record hstate := mkh {
    h_ev : bool;                (* holder in d.evictedHolders *)
    h_auth : bool               (* holder in validAuthors of the running call *)
  }.
  Record st := mkst {
    s_d : list (Z * dstate);
    s_h : list (Z * hstate);
    s_found : bool;             (* foundComplaint of the running call *)
    s_phase : Z                 (* 0 Init, 1 Deal, 2 Response, 3 Justif, 4 Finish *)
  }.

  Definition on_d (f : list (Z * dstate) -> list (Z * dstate)) (s : st) : st :=
    mkst (f (s_d s)) (s_h s) (s_found s) (s_phase s).
  Definition on_h (f : list (Z * hstate) -> list (Z * hstate)) (s : st) : st :=
    mkst (s_d s) (f (s_h s)) (s_found s) (s_phase s).
  Definition set_found (b : bool) (s : st) : st := mkst (s_d s) (s_h s) b (s_phase s).
  Definition set_phase (p : Z) (s : st) : st := mkst (s_d s) (s_h s) (s_found s) p.

  Definition set_ev (d : dstate) : dstate := mkd (d_row d) (d_share d) (d_pub d) true (d_seen d).
  Definition set_seen (b : bool) (d : dstate) : dstate := mkd (d_row d) (d_share d) (d_pub d) (d_ev d) b.
  Definition set_pub (p : list F) (d : dstate) : dstate := mkd (d_row d) (d_share d) (Some p) (d_ev d) (d_seen d).
  Definition set_share (v : F) (d : dstate) : dstate := mkd (d_row d) (Some v) (d_pub d) (d_ev d) (d_seen d).
  Definition set_cell (h : Z) (v : Z) (d : dstate) : dstate :=
    mkd (upd h (fun _ => v) (d_row d)) (d_share d) (d_pub d) (d_ev d) (d_seen d).
  Definition set_row_all (v : Z) (d : dstate) : dstate :=
    mkd (map (fun e => (fst e, v)) (d_row d)) (d_share d) (d_pub d) (d_ev d) (d_seen d).
  Definition set_hev (h : hstate) : hstate := mkh true (h_auth h).
  Definition set_hauth (h : hstate) : hstate := mkh (h_ev h) true.

  (* statuses.Get *)
  Definition cell (row : list (Z * Z)) (h : Z) : Z := match look h row with Some v => v | None => 0 end.
  (* AllTrue / LengthComplaints *)
  Definition all_true (row : list (Z * Z)) : bool := forallb (fun e => negb (snd e =? 1)) row.
  Definition complaints (row : list (Z * Z)) : Z := Z.of_nat (length (filter (fun e => snd e =? 1) row)).
  (* DistKeyGenerator.completeSuccess: no complaint is left in the row of any
     dealer that is not evicted.  The row of an evicted dealer is not looked
     at: my_responses says nothing about such a dealer, so the node's own cell
     in that row is known to nobody else (StatusMatrix.CompleteSuccess, which
     looked at every row, is no longer used by ProcessResponses). *)
  Definition complete_success (s : st) : bool :=
    forallb (fun e => d_ev (snd e) || all_true (d_row (snd e))) (s_d s).

  (* NewStatusMatrix + the complaints a receiving node pre-sets in its own column *)
  Definition init_st (c : cfg) : st :=
    let row := map (fun n => (fst n, if c_fast c then 1
                                     else if c_can_receive c && (fst n =? c_nidx c) then 1 else 0)) (c_new c) in
    mkst (map (fun n => (fst n, mkd row None None false false)) (c_old c))
         (map (fun n => (fst n, mkh false false)) (c_new c)) false 0.

  (* ---------------------------------------------------------------- Deals *)
  Definition deals (c : cfg) (s : st) : option (st * deal_bundle) :=
    if negb (c_can_issue c) then None
    else if negb (s_phase s =? 0) then None
    else
      let own := fun n : Z * Z => c_can_receive c && (c_nidx c =? fst n) in
      let ds := flat_map (fun n => if own n then []
                                   else [mkdeal (fst n) (Some (peval (c_priv c) (xof (fst n))))]) (c_new c) in
      let s1 := if existsb own (c_new c)
                then on_d (upd (c_oidx c) (fun d =>
                       set_cell (c_nidx c) 0 (set_pub (commit_poly (c_priv c))
                         (set_share (peval (c_priv c) (xof (c_nidx c))) d)))) s
                else s in
      Some (set_phase 1 s1, mkdb (c_oidx c) ds (commit_poly (c_priv c)) true).

  (* ---------------------------------------------------------------- ProcessDeals *)
  (* the inner loop over bundle.Deals (with its break) *)
  Fixpoint deal_loop (c : cfg) (dealer : Z) (pub : list F) (ds : list deal) (d : dstate) : dstate :=
    match ds with
    | [] => d
    | dl :: r =>
        if negb (included (c_new c) (dl_idx dl)) then set_ev d
        else if negb (dl_idx dl =? c_nidx c) then deal_loop c dealer pub r d
        else match dl_share dl with
             | None => deal_loop c dealer pub r d
             | Some sh =>
                 if negb (zeqb (peval pub (xof (c_nidx c))) (commit sh)) then deal_loop c dealer pub r d
                 else if c_reshare c && negb (zeqb (peval (c_oldpub c) (xof dealer)) (hd zzero pub))
                      then deal_loop c dealer pub r d
                 else deal_loop c dealer pub r (set_share sh (set_cell (dl_idx dl) 0 d))
             end
    end.

  (* one bundle, on the record of its dealer *)
  Definition deal_step (c : cfg) (b : deal_bundle) (d : dstate) : dstate :=
    if c_can_issue c && (db_dealer b =? c_oidx c) then d
    else if negb (db_sid b) then set_ev d
    else if negb (Z.of_nat (length (db_pub b)) =? c_thr c) then set_ev d
    else if d_seen d then set_ev d
    else deal_loop c (db_dealer b) (db_pub b) (db_deals b) (set_pub (db_pub b) (set_seen true d)).

  Definition deal_fold (c : cfg) (s : st) (b : deal_bundle) : st :=
    on_d (upd (db_dealer b) (deal_step c b)) s.

  Definition clear_seen (m : list (Z * dstate)) : list (Z * dstate) :=
    map (fun e => (fst e, set_seen false (snd e))) m.

  (* dealers that are holders too trust the share they made for themselves *)
  Definition self_success (c : cfg) (s : st) : st :=
    fold_left (fun s n => match find_pub (c_new c) (snd n) with
                          | Some ni => on_d (upd (fst n) (set_cell ni 0)) s
                          | None => s
                          end) (c_old c) s.

  Definition my_responses (c : cfg) (s : st) : list response :=
    flat_map (fun n => match look (fst n) (s_d s) with
                       | Some d =>
                           if d_ev d then []
                           else if cell (d_row d) (c_nidx c) =? 0
                                then (if c_fast c then [mkresp (fst n) 0] else [])
                                else [mkresp (fst n) 1]
                       | None => []
                       end) (c_old c).

  Definition process_deals (c : cfg) (s : st) (bs : list deal_bundle) : option (st * option resp_bundle) :=
    if c_can_issue c && negb (s_phase s =? 1) then None
    else if c_can_receive c && negb (c_can_issue c) && negb (s_phase s =? 0) then None
    else if negb (c_can_receive c) then Some (set_phase 2 s, None)
    else
      let s1 := fold_left (deal_fold c) bs (on_d clear_seen s) in
      let s2 := self_success c s1 in
      let rs := my_responses c s2 in
      Some (set_phase 2 s2, match rs with [] => None | _ => Some (mkrb (c_nidx c) rs true) end).

  (* ---------------------------------------------------------------- results *)
  Inductive err := ENone | EPhase | EEvicted | EOther.

  (* computeResult: evicted dealers get a full complaint row *)
  Definition mark_evicted (s : st) : st :=
    on_d (map (fun e => if d_ev (snd e) then (fst e, set_row_all 1 (snd e)) else e)) s.

  Definition holder_evicted (s : st) (i : Z) : bool :=
    match look i (s_h s) with Some h => h_ev h | None => false end.

  (* computeDKGResult; [None] = one of its BUG errors *)
  Definition dkg_fold (s : st) (acc : option (list Z * option (list F) * F)) (e : Z * dstate)
    : option (list Z * option (list F) * F) :=
    match acc with
    | None => None
    | Some (qual, pub, sh) =>
        let d := snd e in
        if negb (all_true (d_row d)) then acc
        else if holder_evicted s (fst e) then acc
        else match d_share d, d_pub d with
             | Some v, Some p =>
                 match pub with
                 | None => Some (qual ++ [fst e], Some p, zadd sh v)
                 | Some p0 =>
                     if Nat.eqb (length p0) (length p)
                     then Some (qual ++ [fst e], Some (poly_add p0 p), zadd sh v)
                     else None
                 end
             | _, _ => None
             end
    end.

  Definition compute_dkg_result (c : cfg) (s : st) : option result :=
    match fold_left (dkg_fold s) (s_d s) (Some ([], None, zzero)) with
    | Some (qual, Some p, sh) => Some (mkres qual p (c_nidx c) sh)
    | _ => None
    end.

  (* computeResharingResult.  share.RecoverPriPoly (xyScalar) and
     share.RecoverCommit (xyCommit) sort what they are given by index and keep
     the first oldT entries: the dealers used are the oldT qualified dealers
     with the LOWEST indices, whatever the order of Config.OldNodes - the same
     subset for the private share and for every public coefficient. *)
  Definition nth_coeff (i : nat) (p : list F) : F := nth i p zzero.

  Fixpoint insert_by_index {A} (e : Z * A) (l : list (Z * A)) : list (Z * A) :=
    match l with
    | [] => [e]
    | x :: r => if fst e <? fst x then e :: l else x :: insert_by_index e r
    end.
  (* stable insertion sort by index *)
  Definition sort_by_index {A} (l : list (Z * A)) : list (Z * A) := fold_right insert_by_index [] l.

  Definition compute_reshare_result (c : cfg) (s : st) : option result :=
    let good := filter (fun e => all_true (d_row (snd e))) (s_d s) in
    if negb (forallb (fun e => match d_pub (snd e), d_share (snd e) with Some _, Some _ => true | _, _ => false end) good)
    then None
    else
      let t := Z.to_nat (c_oldT c) in
      if Nat.ltb (length good) t then None
      else
        let used := firstn t (sort_by_index good) in
        let shares := map (fun e => (fst e, match d_share (snd e) with Some v => v | None => zzero end)) used in
        let sh := lagrange0 shares in
        let coeffs := map (fun i => lagrange0 (map (fun e => (fst e, nth_coeff i (match d_pub (snd e) with Some p => p | None => [] end))) used))
                          (seq 0 (Z.to_nat (c_newT c))) in
        if negb (zeqb (peval coeffs (xof (c_nidx c))) (commit sh)) then None
        else
          let qual := filter (fun n =>
                         negb (existsb (fun o => negb (match look (fst o) (s_d s) with
                                                       | Some d => all_true (d_row d) | None => true end)
                                                 && (snd o =? snd n)) (c_old c))
                         && negb (holder_evicted s (fst n))) (c_new c) in
          if Z.of_nat (length qual) <? c_thr c then None
          else Some (mkres (map fst qual) coeffs (c_nidx c) sh).

  Definition compute_result (c : cfg) (s : st) : st * option result :=
    let s1 := mark_evicted (set_phase 4 s) in
    (s1, if c_reshare c then compute_reshare_result c s1 else compute_dkg_result c s1).

  (* checkIfEvicted; [resp_phase]: called for the response phase *)
  Definition check_evicted (c : cfg) (s : st) (resp_phase : bool) : bool :=
    if c_reshare c && resp_phase then
      if negb (c_can_receive c) then false else holder_evicted s (c_nidx c)
    else
      if negb (c_can_issue c) then false
      else match look (c_oidx c) (s_d s) with Some d => d_ev d | None => false end.

  (* ---------------------------------------------------------------- ProcessResponses *)
  Definition resp_one (c : cfg) (holder : Z) (s : st) (r : response) : st :=
    if negb (included (c_old c) (r_dealer r)) then on_h (upd holder set_hev) s
    else if negb (c_fast c) && (r_status r =? 0) then on_h (upd holder set_hev) s
    else
      let s1 := on_d (upd (r_dealer r) (set_cell holder (r_status r))) s in
      let s2 := if r_status r =? 1 then set_found true s1 else s1 in
      on_h (upd holder set_hauth) s2.

  Definition resp_step (c : cfg) (s : st) (b : resp_bundle) : st :=
    if c_can_issue c && c_new_present c && (rb_holder b =? c_nidx c) then s
    else if negb (included (c_new c) (rb_holder b)) then s
    else if negb (rb_sid b) then on_h (upd (rb_holder b) set_hev) s
    else fold_left (resp_one c (rb_holder b)) (rb_resps b) s.

  (* fast sync: holders that sent nothing valid are evicted *)
  Definition evict_silent (c : cfg) (s : st) : st :=
    if c_fast c then
      on_h (map (fun e => if c_can_receive c && (c_nidx c =? fst e) then e
                          else if h_auth (snd e) || h_ev (snd e) then e
                          else (fst e, set_hev (snd e)))) s
    else s.

  (* dealers with at least Threshold complaints are evicted *)
  Definition evict_complained (c : cfg) (s : st) : st :=
    on_d (map (fun e => if complaints (d_row (snd e)) >=? c_thr c then (fst e, set_ev (snd e)) else e)) s.

  Definition my_justifs (c : cfg) (s : st) : list justif :=
    match look (c_oidx c) (s_d s) with
    | Some d => flat_map (fun e => if snd e =? 1 then [mkjust (fst e) (peval (c_priv c) (xof (fst e)))] else []) (d_row d)
    | None => []
    end.

  Definition clear_own_complaints (c : cfg) (s : st) : st :=
    on_d (upd (c_oidx c) (fun d => mkd (map (fun e => if snd e =? 1 then (fst e, 0) else e) (d_row d))
                                       (d_share d) (d_pub d) (d_ev d) (d_seen d))) s.

  Definition reset_resp_locals (s : st) : st :=
    set_found false (on_h (map (fun e => (fst e, mkh (h_ev (snd e)) false))) s).

  Record resp_out := mkro { ro_st : st; ro_err : err; ro_res : option result; ro_just : option just_bundle }.

  (* the deferred checkIfEvicted(ResponsePhase) *)
  Definition with_evict_check (c : cfg) (o : resp_out) : resp_out :=
    match ro_err o with
    | ENone => if check_evicted c (ro_st o) true then mkro (ro_st o) EEvicted (ro_res o) (ro_just o) else o
    | _ => o
    end.

  Definition result_out (c : cfg) (s : st) : resp_out :=
    let '(s1, r) := compute_result c s in
    match r with
    | Some _ => mkro s1 ENone r None
    | None => mkro s1 EOther None None
    end.

  Definition process_responses (c : cfg) (s : st) (bs : list resp_bundle) : resp_out :=
    if (if negb (c_can_receive c)
        then negb (s_phase s =? 1) && negb (s_phase s =? 2)
        else negb (s_phase s =? 2))
    then mkro s EPhase None None
    else with_evict_check c (
      if negb (c_fast c) && (match bs with [] => true | _ => false end) && c_can_receive c && complete_success s
      then result_out c s
      else
        let s1 := fold_left (resp_step c) bs (reset_resp_locals s) in
        let s2 := evict_silent c s1 in
        if negb (s_found s2) && complete_success s2 then
          if c_can_receive c then result_out c s2
          else mkro (set_phase 4 s2) ENone None None
        else
          let s3 := set_phase 3 (evict_complained c s2) in
          if negb (c_can_issue c) then mkro s3 ENone None None
          else match my_justifs c s3 with
               | [] => mkro s3 ENone None None
               | js => mkro (clear_own_complaints c s3) ENone None (Some (mkjb (c_oidx c) js true))
               end).

  (* ---------------------------------------------------------------- ProcessJustifications *)
  (* the loop over bundle.Justifications (with its break) *)
  Fixpoint just_loop (c : cfg) (dealer : Z) (js : list justif) (d : dstate) : dstate :=
    match js with
    | [] => d
    | j :: r =>
        if negb (included (c_new c) (j_idx j)) then just_loop c dealer r (set_ev d)
        else match d_pub d with
             | None => set_ev d
             | Some pub =>
                 if negb (zeqb (commit (j_share j)) (peval pub (xof (j_idx j)))) then just_loop c dealer r (set_ev d)
                 else if c_reshare c && negb (zeqb (peval (c_oldpub c) (xof dealer)) (hd zzero pub))
                      then just_loop c dealer r (set_ev d)
                 else
                   let d1 := set_cell (j_idx j) 0 d in
                   just_loop c dealer r (if j_idx j =? c_nidx c then set_share (j_share j) d1 else d1)
             end
    end.

  Definition just_step (c : cfg) (b : just_bundle) (d : dstate) : dstate :=
    if d_seen d then set_ev d
    else if c_can_issue c && (jb_dealer b =? c_oidx c) then d
    else if d_ev d then d
    else if negb (jb_sid b) then set_ev d
    else just_loop c (jb_dealer b) (jb_justifs b) (set_seen true d).

  Definition just_fold (c : cfg) (s : st) (b : just_bundle) : st :=
    on_d (upd (jb_dealer b) (just_step c b)) s.

  Definition all_good (s : st) : Z :=
    Z.of_nat (length (filter (fun e => negb (d_ev (snd e)) && all_true (d_row (snd e))) (s_d s))).

  Record just_out := mkjo { jo_st : st; jo_err : err; jo_res : option result }.

  Definition process_justifs (c : cfg) (s : st) (bs : list just_bundle) : just_out :=
    if negb (c_can_receive c) then mkjo s ENone None
    else if negb (s_phase s =? 3) then mkjo s EOther None
    else
      let s1 := fold_left (just_fold c) bs (on_d clear_seen s) in
      if check_evicted c s1 false then mkjo s1 EEvicted None
      else
        let target := if c_reshare c then c_oldthr c else c_thr c in
        if all_good s1 <? target then mkjo (set_phase 4 s1) EOther None
        else
          let '(s2, r) := compute_result c s1 in
          match r with
          | Some _ => mkjo s2 ENone r
          | None => mkjo s2 EOther None
          end.
End Model.

Arguments mkdeal {q}. Arguments mkdb {q}. Arguments mkjust {q}. Arguments mkjb {q}. Arguments mkres {q}.
Arguments dl_idx {q}. Arguments dl_share {q}. Arguments db_dealer {q}. Arguments db_deals {q}.
Arguments db_pub {q}. Arguments db_sid {q}. Arguments j_idx {q}. Arguments j_share {q}.
Arguments jb_dealer {q}. Arguments jb_justifs {q}. Arguments jb_sid {q}.
Arguments res_qual {q}. Arguments res_commits {q}. Arguments res_idx {q}. Arguments res_share {q}.
Arguments mkcfg {q}. Arguments mkd {q}. Arguments mkst {q}.
Arguments d_row {q}. Arguments d_share {q}. Arguments d_pub {q}. Arguments d_ev {q}. Arguments d_seen {q}.
Arguments s_d {q}. Arguments s_h {q}. Arguments s_found {q}. Arguments s_phase {q}.
Arguments ro_st {q}. Arguments ro_err {q}. Arguments ro_res {q}. Arguments ro_just {q}.
Arguments jo_st {q}. Arguments jo_err {q}. Arguments jo_res {q}.
Arguments c_old {q}. Arguments c_new {q}. Arguments c_thr {q}. Arguments c_oldthr {q}. Arguments c_fast {q}.
Arguments c_reshare {q}. Arguments c_oidx {q}. Arguments c_nidx {q}. Arguments c_old_present {q}.
Arguments c_new_present {q}. Arguments c_can_issue {q}. Arguments c_can_receive {q}. Arguments c_oldT {q}.
Arguments c_newT {q}. Arguments c_priv {q}. Arguments c_oldpub {q}.
