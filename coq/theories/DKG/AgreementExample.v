(* Non-vacuity of the system semantics (DKG/Agreement.v).  First example
   (regular mode): a concrete fresh DKG over Z_251 with 4 participants,
   threshold 3, in which
   - participant 3 is faulty: its deal for holder 1 is invalid, and in the
     response phase it publishes a false complaint against the honest dealer 0;
   - holder 1 complains about dealer 3; dealer 3 answers with a valid
     justification; dealer 0 answers the false complaint with its share;
   - participants 0, 1, 2 are HONEST in the sense of [honest] on these boards,
     all three complete (in the justification phase) with QUAL = [0;1;2;3].
   The hypotheses of pedersen_agreement, output_share_and_key,
   honest_dealer_stays, qualified_dealer_served are thereby satisfiable
   together on a run with faults, complaints and justifications. *)
From Coq Require Import ZArith List Bool Lia.
From Kyber Require Import Algebra.Zq Algebra.Grp DKG.PedersenDKG DKG.PedersenProofs
  DKG.Agreement DKG.AgreementDeal DKG.AgreementResp DKG.AgreementJust DKG.AgreementProofs DKG.AgreementResult
  DKG.AgreementQual.
Import ListNotations.
Local Open Scope Z_scope.

Definition eq_ : Z := 251.
Definition ef (v : Z) : zq eq_ := of_Z eq_ v.
Definition enodes : list (Z * Z) := [(0, 100); (1, 101); (2, 102); (3, 103)].
Definition ethr : Z := 3.
Definition epriv (i : Z) : list (zq eq_) := map ef [5 + i; 7 * i + 1; 3 + 2 * i].
Definition ecfg (i : Z) : cfg eq_ := new_handler eq_ [] enodes (100 + i) ethr 0 false false false (epriv i) [].

(* the faulty dealer 3: an honest bundle whose deal for holder 1 is spoilt *)
Definition ebad3 : deal_bundle eq_ :=
  let b := dbun eq_ (ecfg 3) in
  mkdb 3 (map (fun d => if dl_idx d =? 1 then mkdeal 1 (Some (ef 1)) else d) (db_deals b)) (db_pub b) true.
Definition eD : list (deal_bundle eq_) := [dbun eq_ (ecfg 0); dbun eq_ (ecfg 1); dbun eq_ (ecfg 2); ebad3].
Definition eB0 : boards eq_ := mkboards eD [] [].
(* response board: the complaint of holder 1, and a false complaint of 3 against dealer 0 *)
Definition eR : list resp_bundle :=
  match rbun eq_ (ecfg 1) eB0 with Some rb => [rb] | None => [] end ++ [mkrb 3 [mkresp 0 1] true].
Definition eB1 : boards eq_ := mkboards eD eR [].
(* justification board: dealer 0 (honest) answers, dealer 3 justifies validly *)
Definition eJ : list (just_bundle eq_) :=
  match jbun eq_ (ecfg 0) eB1 with Some jb => [jb] | None => [] end ++
  [mkjb 3 [mkjust 1 (peval eq_ (epriv 3) (xof eq_ 1))] true].
Definition eB : boards eq_ := mkboards eD eR eJ.

Lemma enodes_fst : NoDup (map fst enodes).
Proof. cbn. repeat constructor; cbn; intuition discriminate. Qed.
Lemma enodes_snd : NoDup (map snd enodes).
Proof. cbn. repeat constructor; cbn; intuition discriminate. Qed.

Lemma ecfg_fresh i : In i [0; 1; 2; 3] -> fresh_cfg eq_ enodes ethr false i (ecfg i).
Proof.
  intros I. apply fresh_cfg_new_handler; [exact enodes_fst|exact enodes_snd| |].
  - cbn in I. destruct I as [<-|[<-|[<-|[<-|[]]]]]; cbn; auto.
  - reflexivity.
Qed.

Example example_boards_ok : boards_ok eq_ eB.
Proof. unfold boards_ok. vm_compute. repeat split; repeat constructor; cbn; intuition discriminate. Qed.

Lemma example_honest i : In i [0; 1; 2] -> honest eq_ enodes ethr false eB i (ecfg i).
Proof.
  intros I. constructor.
  - apply ecfg_fresh. cbn in *. intuition.
  - cbn in I. destruct I as [<-|[<-|[<-|[]]]]; vm_compute; auto.
  - cbn in I. destruct I as [<-|[<-|[<-|[]]]]; vm_compute; intuition discriminate.
  - cbn in I. destruct I as [<-|[<-|[<-|[]]]]; vm_compute; intuition discriminate.
Qed.

Definition eres (i : Z) : result eq_ :=
  match jo_res (jout eq_ (ecfg i) eB) with Some r => r | None => mkres [] [] 0 (ef 0) end.

Lemma example_output i : In i [0; 1; 2] -> out_just eq_ (ecfg i) eB (eres i).
Proof.
  intros I. cbn in I. destruct I as [<-|[<-|[<-|[]]]]; unfold out_just, eres; vm_compute; repeat split.
Qed.

Example example_qual :
  res_qual (eres 0) = [0; 1; 2; 3] /\ res_qual (eres 1) = [0; 1; 2; 3] /\ res_qual (eres 2) = [0; 1; 2; 3].
Proof. vm_compute. repeat split. Qed.

(* the general theorems, instantiated *)
Example example_agreement :
  res_qual (eres 0) = res_qual (eres 1) /\ res_commits (eres 0) = res_commits (eres 1).
Proof.
  apply (pedersen_agreement eq_ enodes ethr false eB 0 (ecfg 0) 1 (ecfg 1)).
  - exact example_boards_ok.
  - apply example_honest. cbn. auto.
  - apply example_honest. cbn. auto.
  - discriminate.
  - right. apply example_output. cbn. auto.
  - right. apply example_output. cbn. auto.
Qed.

Example example_share_on_polynomial :
  commit eq_ (res_share (eres 1)) = peval eq_ (res_commits (eres 1)) (xof eq_ 1).
Proof.
  apply (output_share_and_key eq_ enodes ethr false eB 1 (ecfg 1) (eres 1)).
  - exact example_boards_ok.
  - apply example_honest. cbn. auto.
  - right. apply example_output. cbn. auto.
Qed.

(* ------------------------------------------------------------------ *)
(* Second example (fast-sync mode): participant 3 deals correctly but stays
   silent in the response phase.  The honest participants 0, 1, 2 all report
   success about every dealer and evict 3 as a share holder (no response
   seen); the pre-set complaints of the silent holder 3 remain in the matrix,
   every honest dealer answers them with a justification, and all three
   complete in the justification phase with QUAL = [0;1;2]. *)
Definition fcfg (i : Z) : cfg eq_ := new_handler eq_ [] enodes (100 + i) ethr 0 true false false (epriv i) [].
Definition fD : list (deal_bundle eq_) := [dbun eq_ (fcfg 0); dbun eq_ (fcfg 1); dbun eq_ (fcfg 2); dbun eq_ (fcfg 3)].
Definition fB0 : boards eq_ := mkboards fD [] [].
Definition fR : list resp_bundle :=
  flat_map (fun i => match rbun eq_ (fcfg i) fB0 with Some rb => [rb] | None => [] end) [0; 1; 2].
Definition fB1 : boards eq_ := mkboards fD fR [].
Definition fJ : list (just_bundle eq_) :=
  flat_map (fun i => match jbun eq_ (fcfg i) fB1 with Some jb => [jb] | None => [] end) [0; 1; 2].
Definition fB : boards eq_ := mkboards fD fR fJ.

Lemma fcfg_fresh i : In i [0; 1; 2; 3] -> fresh_cfg eq_ enodes ethr true i (fcfg i).
Proof.
  intros I. apply fresh_cfg_new_handler; [exact enodes_fst|exact enodes_snd| |].
  - cbn in I. destruct I as [<-|[<-|[<-|[<-|[]]]]]; cbn; auto.
  - reflexivity.
Qed.

Example fast_boards_ok : boards_ok eq_ fB.
Proof. unfold boards_ok. vm_compute. repeat split; repeat constructor; cbn; intuition discriminate. Qed.

Lemma fast_honest i : In i [0; 1; 2] -> honest eq_ enodes ethr true fB i (fcfg i).
Proof.
  intros I. constructor.
  - apply fcfg_fresh. cbn in *. intuition.
  - cbn in I. destruct I as [<-|[<-|[<-|[]]]]; vm_compute; auto.
  - cbn in I. destruct I as [<-|[<-|[<-|[]]]]; vm_compute; intuition discriminate.
  - cbn in I. destruct I as [<-|[<-|[<-|[]]]]; vm_compute; intuition discriminate.
Qed.

Definition fres (i : Z) : result eq_ :=
  match jo_res (jout eq_ (fcfg i) fB) with Some r => r | None => mkres [] [] 0 (ef 0) end.

Lemma fast_output i : In i [0; 1; 2] -> out_just eq_ (fcfg i) fB (fres i).
Proof.
  intros I. cbn in I. destruct I as [<-|[<-|[<-|[]]]]; unfold out_just, fres; vm_compute; repeat split.
Qed.

Example fast_qual :
  length fR = 3%nat /\ length fJ = 3%nat /\
  res_qual (fres 0) = [0; 1; 2] /\ res_qual (fres 1) = [0; 1; 2] /\ res_qual (fres 2) = [0; 1; 2].
Proof. vm_compute. repeat split. Qed.

Example fast_agreement :
  res_qual (fres 0) = res_qual (fres 2) /\ res_commits (fres 0) = res_commits (fres 2).
Proof.
  apply (pedersen_agreement eq_ enodes ethr true fB 0 (fcfg 0) 2 (fcfg 2)).
  - exact fast_boards_ok.
  - apply fast_honest. cbn. auto.
  - apply fast_honest. cbn. auto.
  - discriminate.
  - right. apply fast_output. cbn. auto.
  - right. apply fast_output. cbn. auto.
Qed.

(* ------------------------------------------------------------------ *)
(* Third example: everybody honest (regular mode): the hypotheses of
   all_honest_complete are satisfiable, and its conclusion on this instance *)
Definition aD : list (deal_bundle eq_) := [dbun eq_ (ecfg 0); dbun eq_ (ecfg 1); dbun eq_ (ecfg 2); dbun eq_ (ecfg 3)].
Definition aB : boards eq_ := mkboards aD [] [].

Lemma all_honest_instance i : In i (map fst enodes) -> honest eq_ enodes ethr false aB i (ecfg i).
Proof.
  intros I. constructor.
  - apply ecfg_fresh. exact I.
  - cbn in I. destruct I as [<-|[<-|[<-|[<-|[]]]]]; vm_compute; auto.
  - cbn in I. destruct I as [<-|[<-|[<-|[<-|[]]]]]; vm_compute; intuition discriminate.
  - cbn in I. destruct I as [<-|[<-|[<-|[<-|[]]]]]; vm_compute; intuition discriminate.
Qed.

Example example_all_honest :
  forall i, In i (map fst enodes) -> exists r, out_resp eq_ (ecfg i) aB r /\ res_qual r = [0; 1; 2; 3].
Proof.
  apply (all_honest_complete eq_ enodes ethr false aB ecfg).
  - unfold boards_ok. vm_compute. repeat split; repeat constructor; cbn; intuition discriminate.
  - exact all_honest_instance.
Qed.
