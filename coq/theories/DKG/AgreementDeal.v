(* DKG agreement, part 1: what an honest node of a fresh DKG holds after Deals
   and ProcessDeals, as a function of the deal board. *)
From Coq Require Import ZArith List Bool Lia Permutation.
From Kyber Require Import Algebra.Zq Algebra.Grp DKG.PedersenDKG DKG.PedersenProofs DKG.Agreement.
Import ListNotations.
Local Open Scope Z_scope.

Section Rows.
  (* status rows: keyed lists holder -> status *)
  Lemma cell_upd (row : list (Z * Z)) h h' v :
    In h (map fst row) -> cell (upd h' (fun _ => v) row) h = if h =? h' then v else cell row h.
  Proof.
    intros I. unfold cell. rewrite look_upd. destruct (look_in h row I) as [x ->]. reflexivity.
  Qed.

  Lemma upd_const_idem {A} k (v : A) (m : list (Z * A)) :
    upd k (fun _ => v) (upd k (fun _ => v) m) = upd k (fun _ => v) m.
  Proof.
    unfold upd. rewrite map_map. apply map_ext. intros [k' x]. cbn [fst snd].
    destruct (k' =? k) eqn:E; cbn [fst snd]; rewrite ?E; reflexivity.
  Qed.

  Lemma all_true_cells (row : list (Z * Z)) :
    NoDup (map fst row) ->
    (all_true row = true <-> forall h, In h (map fst row) -> cell row h <> 1).
  Proof.
    intros ND. unfold all_true. rewrite forallb_forall. split.
    - intros H h I. destruct (look_in h row I) as [x L]. unfold cell. rewrite L.
      apply look_some_in in L. specialize (H _ L). cbn in H. apply negb_true_iff, Z.eqb_neq in H. exact H.
    - intros H [h x] I. cbn. apply negb_true_iff, Z.eqb_neq.
      specialize (H h (in_map fst _ _ I)). unfold cell in H. rewrite (in_look h x row ND I) in H. exact H.
  Qed.

  Lemma row_ext (r1 r2 : list (Z * Z)) :
    map fst r1 = map fst r2 -> NoDup (map fst r1) ->
    (forall h, In h (map fst r1) -> cell r1 h = cell r2 h) -> r1 = r2.
  Proof.
    intros E ND H. apply keyed_ext; auto. intros k I. specialize (H k I). unfold cell in H.
    destruct (look_in k r1 I) as [x1 L1]. assert (I2 : In k (map fst r2)) by (rewrite <- E; exact I).
    destruct (look_in k r2 I2) as [x2 L2]. rewrite L1, L2 in *. congruence.
  Qed.

  Lemma flat_map_ext_in {A B} (f g : A -> list B) (l : list A) :
    (forall a, In a l -> f a = g a) -> flat_map f l = flat_map g l.
  Proof.
    induction l as [|a l IH]; intros H; cbn; [reflexivity|].
    rewrite H by (left; reflexivity). f_equal. apply IH. intros a' I. apply H. right. exact I.
  Qed.
End Rows.

Section Deal.
  Variable q : Z.
  Notation F := (zq q).
  Variable nodes : list (Z * Z).
  Variable thr : Z.
  Variable fast : bool.               (* Config.FastSync *)
  Notation K := (map fst nodes).
  Notation fresh := (fresh_cfg q nodes thr fast).
  Add Ring zqRdeal : (zq_ring q).

  (* generic: a fold of dealer-keyed updates on the state *)
  Lemma fold_on_d {B} (key : B -> Z) (G : B -> dstate q -> dstate q) (bs : list B) : forall s : st q,
    fold_left (fun s b => on_d q (upd (key b) (G b)) s) bs s =
    mkst (fold_left (fun m b => upd (key b) (G b) m) bs (s_d s)) (s_h s) (s_found s) (s_phase s).
  Proof.
    induction bs as [|b bs IH]; intros s; cbn [fold_left]; [destruct s; reflexivity|].
    rewrite IH. reflexivity.
  Qed.

  (* ---------------------------------------------------------------- initial state, Deals *)
  Definition row0 (i : Z) : list (Z * Z) :=
    map (fun n : Z * Z => (fst n, if fast then 1 else if fst n =? i then 1 else 0)) nodes.
  Definition rec0 (i : Z) : dstate q := mkd (row0 i) None None false false.
  Definition own1 (c : cfg q) (d : dstate q) : dstate q :=
    set_cell q (c_nidx c) 0 (set_pub q (commit_poly q (c_priv c)) (set_share q (peval q (c_priv c) (xof q (c_nidx c))) d)).
  (* the deals of an honest dealer *)
  Definition own_deals (c : cfg q) : list (deal q) :=
    flat_map (fun n : Z * Z => if c_nidx c =? fst n then []
                               else [mkdeal (fst n) (Some (peval q (c_priv c) (xof q (fst n))))]) nodes.

  Lemma row0_keys i : map fst (row0 i) = K.
  Proof. unfold row0. rewrite map_map. reflexivity. Qed.

  Lemma row0_cell i h : In h K -> cell (row0 i) h = if fast then 1 else if h =? i then 1 else 0.
  Proof.
    intros I. unfold cell, row0.
    rewrite (look_mapv (fun e : Z * Z => if fast then 1 else if fst e =? i then 1 else 0) nodes h).
    destruct (look_in h nodes I) as [x ->]. reflexivity.
  Qed.

  (* cells of the two row shapes a dealer record can have after ProcessDeals *)
  Lemma cellA i d h : In h K ->
    cell (upd d (fun _ => 0) (row0 i)) h = if h =? d then 0 else if fast then 1 else if h =? i then 1 else 0.
  Proof. intros I. rewrite cell_upd by (rewrite row0_keys; exact I). rewrite row0_cell by exact I. reflexivity. Qed.

  Lemma cellB i d h : In h K ->
    cell (upd d (fun _ => 0) (upd i (fun _ => 0) (row0 i))) h =
    if h =? d then 0 else if h =? i then 0 else if fast then 1 else 0.
  Proof.
    intros I. rewrite cell_upd by (rewrite upd_keys, row0_keys; exact I).
    rewrite cell_upd by (rewrite row0_keys; exact I). rewrite row0_cell by exact I.
    destruct (h =? d), (h =? i), fast; reflexivity.
  Qed.

  Ltac cases :=
    repeat match goal with
           | |- context [?a =? ?b] => let E := fresh "E" in destruct (a =? b) eqn:E; [apply Z.eqb_eq in E|apply Z.eqb_neq in E]
           end;
    destruct fast; cbn [andb negb]; try reflexivity; try congruence; try contradiction; auto.

  Lemma init_sd i c : fresh i c ->
    init_st q c = mkst (map (fun n : Z * Z => (fst n, rec0 i)) nodes) (map (fun n : Z * Z => (fst n, mkh false false)) nodes) false 0.
  Proof.
    intros FC. unfold init_st. rewrite (fc_old _ _ _ _ _ _ FC), (fc_new _ _ _ _ _ _ FC), (fc_fast _ _ _ _ _ _ FC),
      (fc_recv _ _ _ _ _ _ FC), (fc_nidx _ _ _ _ _ _ FC). reflexivity.
  Qed.

  Lemma existsb_own i : In i K -> existsb (fun n : Z * Z => true && (i =? fst n)) nodes = true.
  Proof.
    intros I. apply existsb_exists. apply in_map_iff in I. destruct I as (n & E & I). exists n. split; [exact I|].
    subst. cbn. apply Z.eqb_refl.
  Qed.

  Lemma deals_eq i c : fresh i c ->
    deals q c (init_st q c) =
    Some (set_phase q 1 (on_d q (upd i (own1 c)) (init_st q c)), mkdb i (own_deals c) (commit_poly q (c_priv c)) true).
  Proof.
    intros FC. unfold deals. rewrite (fc_issue _ _ _ _ _ _ FC). cbn [negb].
    rewrite (init_sd i c FC) at 1. cbn [s_phase Z.eqb negb].
    rewrite (fc_new _ _ _ _ _ _ FC), (fc_recv _ _ _ _ _ _ FC), (fc_nidx _ _ _ _ _ _ FC), (fc_oidx _ _ _ _ _ _ FC).
    rewrite (existsb_own i (fc_in _ _ _ _ _ _ FC)).
    unfold own1, own_deals. rewrite (fc_nidx _ _ _ _ _ _ FC). reflexivity.
  Qed.

  Lemma dbun_eq i c : fresh i c -> dbun q c = mkdb i (own_deals c) (commit_poly q (c_priv c)) true.
  Proof. intros FC. unfold dbun. rewrite (deals_eq i c FC). reflexivity. Qed.

  Lemma st1_eq i c : fresh i c -> st1 q c = set_phase q 1 (on_d q (upd i (own1 c)) (init_st q c)).
  Proof. intros FC. unfold st1. rewrite (deals_eq i c FC). reflexivity. Qed.

  (* the record of dealer [d] after Deals *)
  Definition r1 (c : cfg q) (d : Z) : dstate q := if d =? c_nidx c then own1 c (rec0 (c_nidx c)) else rec0 (c_nidx c).

  Lemma st1_look i c d : fresh i c -> In d K -> look d (s_d (st1 q c)) = Some (r1 c d).
  Proof.
    intros FC I. rewrite (st1_eq i c FC), (init_sd i c FC). unfold set_phase, on_d. cbn [s_d].
    rewrite look_upd. rewrite (look_mapv (fun _ : Z * Z => rec0 i) nodes d).
    destruct (look_in d nodes I) as [x ->]. unfold r1. rewrite (fc_nidx _ _ _ _ _ _ FC). reflexivity.
  Qed.

  Lemma st1_keys i c : fresh i c -> map fst (s_d (st1 q c)) = K.
  Proof.
    intros FC. rewrite (st1_eq i c FC), (init_sd i c FC). unfold set_phase, on_d. cbn [s_d].
    rewrite upd_keys, map_map. reflexivity.
  Qed.

  (* ---------------------------------------------------------------- ProcessDeals *)
  (* the record of dealer [d] after ProcessDeals over the board [D] *)
  Definition drec (c : cfg q) (D : list (deal_bundle q)) (d : Z) : dstate q :=
    set_cell q d 0 (fold_left (fun r b => if d =? db_dealer b then deal_step q c b r else r) D
                              (set_seen q false (r1 c d))).

  Definition complaints_of (c : cfg q) (D : list (deal_bundle q)) : list response :=
    flat_map (fun n : Z * Z => let r := drec c D (fst n) in
                               if d_ev r then []
                               else if cell (d_row r) (c_nidx c) =? 0 then (if fast then [mkresp (fst n) 0] else [])
                                    else [mkresp (fst n) 1]) nodes.

  Lemma self_success_eq i c s : fresh i c ->
    self_success q c s = fold_left (fun s (n : Z * Z) => on_d q (upd (fst n) (set_cell q (fst n) 0)) s) nodes s.
  Proof.
    intros FC. unfold self_success. rewrite (fc_old _ _ _ _ _ _ FC), (fc_new _ _ _ _ _ _ FC).
    apply fold_left_ext_in. intros s' n I. rewrite (find_pub_nodup nodes n (fc_ndk _ _ _ _ _ _ FC) I). reflexivity.
  Qed.

  Lemma process_deals_eq i c D : fresh i c ->
    process_deals q c (st1 q c) D =
    let s2 := self_success q c (fold_left (deal_fold q c) D (on_d q (clear_seen q) (st1 q c))) in
    Some (set_phase q 2 s2, match my_responses q c s2 with
                            | [] => None
                            | _ :: _ => Some (mkrb (c_nidx c) (my_responses q c s2) true)
                            end).
  Proof.
    intros FC. unfold process_deals. rewrite (fc_issue _ _ _ _ _ _ FC), (fc_recv _ _ _ _ _ _ FC).
    assert (P : s_phase (st1 q c) = 1) by (rewrite (st1_eq i c FC); reflexivity). rewrite P. reflexivity.
  Qed.

  Lemma s2_look i c D d : fresh i c -> In d K ->
    look d (s_d (self_success q c (fold_left (deal_fold q c) D (on_d q (clear_seen q) (st1 q c))))) = Some (drec c D d).
  Proof.
    intros FC I. rewrite (self_success_eq i c _ FC), fold_on_d. cbn [s_d].
    rewrite look_fold_upd. unfold deal_fold. rewrite fold_on_d. cbn [s_d]. rewrite look_fold_upd.
    unfold on_d, clear_seen. cbn [s_d].
    rewrite (look_mapv (fun e : Z * dstate q => set_seen q false (snd e)) (s_d (st1 q c)) d).
    rewrite (st1_look i c d FC I). cbn [option_map snd].
    apply in_map_iff in I. destruct I as (n & E & I). subst d.
    rewrite (apply_unique (fun n : Z * Z => fst n) (fun n : Z * Z => set_cell q (fst n) 0) nodes n _ (fc_ndi _ _ _ _ _ _ FC) I).
    reflexivity.
  Qed.

  Lemma s2_keys i c D : fresh i c ->
    map fst (s_d (self_success q c (fold_left (deal_fold q c) D (on_d q (clear_seen q) (st1 q c))))) = K.
  Proof.
    intros FC. rewrite (self_success_eq i c _ FC), fold_on_d. cbn [s_d]. rewrite keys_fold_upd.
    unfold deal_fold. rewrite fold_on_d. cbn [s_d]. rewrite keys_fold_upd.
    unfold on_d, clear_seen. cbn [s_d]. rewrite map_map. cbn [fst]. apply (st1_keys i c FC).
  Qed.

  Lemma s2_h i c D : fresh i c ->
    s_h (self_success q c (fold_left (deal_fold q c) D (on_d q (clear_seen q) (st1 q c)))) =
    map (fun n : Z * Z => (fst n, mkh false false)) nodes.
  Proof.
    intros FC. rewrite (self_success_eq i c _ FC), fold_on_d. cbn [s_h].
    unfold deal_fold. rewrite fold_on_d. cbn [s_h]. unfold on_d. cbn [s_h].
    rewrite (st1_eq i c FC), (init_sd i c FC). reflexivity.
  Qed.

  Lemma st2_look i c B d : fresh i c -> In d K -> look d (s_d (st2 q c B)) = Some (drec c (bD B) d).
  Proof.
    intros FC I. unfold st2. rewrite (process_deals_eq i c _ FC). cbn zeta. unfold set_phase. cbn [s_d].
    apply (s2_look i c _ d FC I).
  Qed.

  Lemma st2_keys i c B : fresh i c -> map fst (s_d (st2 q c B)) = K.
  Proof.
    intros FC. unfold st2. rewrite (process_deals_eq i c _ FC). cbn zeta. unfold set_phase. cbn [s_d].
    apply (s2_keys i c _ FC).
  Qed.

  Lemma st2_h i c B : fresh i c -> s_h (st2 q c B) = map (fun n : Z * Z => (fst n, mkh false false)) nodes.
  Proof.
    intros FC. unfold st2. rewrite (process_deals_eq i c _ FC). cbn zeta. unfold set_phase. cbn [s_h].
    apply (s2_h i c _ FC).
  Qed.

  Lemma st2_phase i c B : fresh i c -> s_phase (st2 q c B) = 2.
  Proof. intros FC. unfold st2. rewrite (process_deals_eq i c _ FC). reflexivity. Qed.

  Lemma rbun_eq i c B : fresh i c ->
    rbun q c B = match complaints_of c (bD B) with [] => None | rs => Some (mkrb i rs true) end.
  Proof.
    intros FC. unfold rbun. rewrite (process_deals_eq i c _ FC). cbn zeta.
    replace (my_responses q c _) with (complaints_of c (bD B));
      [rewrite (fc_nidx _ _ _ _ _ _ FC); destruct (complaints_of c (bD B)); reflexivity|].
    unfold my_responses, complaints_of. rewrite (fc_old _ _ _ _ _ _ FC), (fc_fast _ _ _ _ _ _ FC).
    apply flat_map_ext_in. intros n I. rewrite (s2_look i c _ (fst n) FC (in_map fst _ _ I)). reflexivity.
  Qed.

  (* ---------------------------------------------------------------- the inner loop *)
  Lemma deal_loop_shape i c dealer pub ds : fresh i c -> forall r,
    let r' := deal_loop q c dealer pub ds r in
    d_pub r' = d_pub r /\ d_ev r' = d_ev r || bad_idx q nodes ds /\
    ((d_row r' = d_row r /\ d_share r' = d_share r) \/
     (d_row r' = upd i (fun _ => 0) (d_row r) /\
      exists sh, d_share r' = Some sh /\ commit q sh = peval q pub (xof q i))).
  Proof.
    intros FC. induction ds as [|dl ds IH]; intros r; cbn [deal_loop bad_idx existsb].
    - cbn zeta. rewrite orb_false_r. auto.
    - rewrite (fc_new _ _ _ _ _ _ FC), (fc_nidx _ _ _ _ _ _ FC), (fc_reshare _ _ _ _ _ _ FC). cbn [andb].
      destruct (negb (included nodes (dl_idx dl))) eqn:INC; cbn [orb].
      { cbn zeta. cbn [set_ev d_pub d_ev d_row d_share]. rewrite orb_true_r. auto. }
      fold (bad_idx q nodes ds).
      destruct (negb (dl_idx dl =? i)) eqn:EI; [apply IH|].
      destruct (dl_share dl) as [sh|]; [|apply IH].
      destruct (negb (zeqb (peval q pub (xof q i)) (commit q sh))) eqn:CK; [apply IH|].
      apply negb_false_iff, Z.eqb_eq in EI. apply negb_false_iff, zeqb_eq in CK.
      specialize (IH (set_share q sh (set_cell q (dl_idx dl) 0 r))). cbn zeta in *.
      destruct IH as (P & E & R). cbn [set_share set_cell d_pub d_ev d_row d_share] in *.
      split; [exact P|]. split; [exact E|]. right. rewrite EI in *. destruct R as [[R1 R2]|[R1 R2]].
      + split; [exact R1|]. exists sh. split; [exact R2|]. symmetry. exact CK.
      + split; [rewrite R1; apply upd_const_idem|exact R2].
  Qed.

  Lemma deal_loop_hit i c dealer pub ds : fresh i c -> bad_idx q nodes ds = false -> forall r,
    In i (map fst (d_row r)) ->
    (cell (d_row r) i = 0 \/
     exists dl sh, In dl ds /\ dl_idx dl = i /\ dl_share dl = Some sh /\ commit q sh = peval q pub (xof q i)) ->
    cell (d_row (deal_loop q c dealer pub ds r)) i = 0.
  Proof.
    intros FC. induction ds as [|dl ds IH]; intros BI r IK H; cbn [deal_loop].
    - destruct H as [H|(dl & sh & [] & _)]. exact H.
    - cbn [bad_idx existsb] in BI. apply orb_false_iff in BI. destruct BI as [B1 B2]. fold (bad_idx q nodes ds) in B2.
      rewrite (fc_new _ _ _ _ _ _ FC), (fc_nidx _ _ _ _ _ _ FC), (fc_reshare _ _ _ _ _ _ FC). cbn [andb]. rewrite B1.
      destruct (negb (dl_idx dl =? i)) eqn:EI.
      { apply IH; auto. destruct H as [H|(dl' & sh & [E|I] & X1 & X2 & X3)]; auto.
        - subst dl'. apply negb_true_iff, Z.eqb_neq in EI. contradiction.
        - right. exists dl', sh. auto. }
      destruct (dl_share dl) as [sh0|] eqn:DS.
      2:{ apply IH; auto. destruct H as [H|(dl' & sh & [E|I] & X1 & X2 & X3)]; auto.
          - subst dl'. congruence.
          - right. exists dl', sh. auto. }
      destruct (negb (zeqb (peval q pub (xof q i)) (commit q sh0))) eqn:CK.
      { apply IH; auto. destruct H as [H|(dl' & sh & [E|I] & X1 & X2 & X3)]; auto.
        - subst dl'. rewrite DS in X2. inversion X2; subst sh0.
          apply negb_true_iff in CK. rewrite X3 in CK.
          assert (T : zeqb (peval q pub (xof q i)) (peval q pub (xof q i)) = true) by (apply zeqb_eq; reflexivity).
          congruence.
        - right. exists dl', sh. auto. }
      apply negb_false_iff, Z.eqb_eq in EI. apply IH; auto.
      + cbn [set_share set_cell d_row]. rewrite upd_keys. exact IK.
      + left. cbn [set_share set_cell d_row]. rewrite EI. rewrite cell_upd by exact IK. rewrite Z.eqb_refl. reflexivity.
  Qed.

  (* no valid deal addressed to the node: the loop leaves the row alone *)
  Lemma deal_loop_miss i c dealer pub ds : fresh i c ->
    (forall dl sh, In dl ds -> dl_idx dl = i -> dl_share dl = Some sh -> commit q sh <> peval q pub (xof q i)) ->
    forall r, d_row (deal_loop q c dealer pub ds r) = d_row r.
  Proof.
    intros FC. induction ds as [|dl ds IH]; intros H r; cbn [deal_loop]; [reflexivity|].
    rewrite (fc_new _ _ _ _ _ _ FC), (fc_nidx _ _ _ _ _ _ FC), (fc_reshare _ _ _ _ _ _ FC). cbn [andb].
    assert (H' : forall dl' sh, In dl' ds -> dl_idx dl' = i -> dl_share dl' = Some sh -> commit q sh <> peval q pub (xof q i)).
    { intros dl' sh I. apply H. right. exact I. }
    destruct (negb (included nodes (dl_idx dl))); [reflexivity|].
    destruct (negb (dl_idx dl =? i)) eqn:EI; [apply IH; exact H'|].
    destruct (dl_share dl) as [sh|] eqn:DS; [|apply IH; exact H'].
    destruct (negb (zeqb (peval q pub (xof q i)) (commit q sh))) eqn:CK; [apply IH; exact H'|].
    apply negb_false_iff, Z.eqb_eq in EI. apply negb_false_iff, zeqb_eq in CK.
    exfalso. apply (H dl sh (or_introl eq_refl) EI DS). symmetry. exact CK.
  Qed.

  (* ---------------------------------------------------------------- the record of a dealer *)
  Lemma bundle_of_some D d b : bundle_of q D d = Some b -> In b D /\ db_dealer b = d.
  Proof. unfold bundle_of. intros H. apply find_some in H. destruct H as [I E]. apply Z.eqb_eq in E. auto. Qed.

  Lemma bundle_of_none D d : bundle_of q D d = None -> ~ In d (map db_dealer D).
  Proof.
    unfold bundle_of. intros H I. apply in_map_iff in I. destruct I as (b & E & I).
    pose proof (find_none _ _ H b I) as X. cbn in X. apply Z.eqb_neq in X. contradiction.
  Qed.

  Lemma bundle_of_in D b : NoDup (map db_dealer D) -> In b D -> bundle_of q D (db_dealer b) = Some b.
  Proof.
    unfold bundle_of. induction D as [|b0 D IH]; intros ND I; [destruct I|]. cbn [find map] in *.
    inversion ND as [|? ? N1 N2]; subst. destruct I as [E|I].
    - subst. rewrite Z.eqb_refl. reflexivity.
    - destruct (db_dealer b0 =? db_dealer b) eqn:E; [|auto].
      apply Z.eqb_eq in E. exfalso. apply N1. rewrite E. apply in_map. exact I.
  Qed.

  Lemma apply_own i c D r : fresh i c ->
    fold_left (fun r b => if i =? db_dealer b then deal_step q c b r else r) D r = r.
  Proof.
    intros FC. revert r. induction D as [|b D IH]; intros r; cbn [fold_left]; [reflexivity|].
    destruct (i =? db_dealer b) eqn:E; [|apply IH].
    replace (deal_step q c b r) with r; [apply IH|].
    unfold deal_step. rewrite (fc_issue _ _ _ _ _ _ FC), (fc_oidx _ _ _ _ _ _ FC), (Z.eqb_sym (db_dealer b) i), E. reflexivity.
  Qed.

  (* the own record *)
  Lemma drec_own i c D : fresh i c ->
    drec c D i = set_cell q i 0 (set_seen q false (own1 c (rec0 i))).
  Proof.
    intros FC. unfold drec. rewrite (apply_own i c D _ FC). unfold r1.
    rewrite (fc_nidx _ _ _ _ _ _ FC), Z.eqb_refl. reflexivity.
  Qed.

  (* the record of another dealer *)
  Lemma drec_other i c D d : fresh i c -> NoDup (map db_dealer D) -> d <> i ->
    drec c D d = set_cell q d 0 (match bundle_of q D d with Some b => deal_step q c b (rec0 i) | None => rec0 i end).
  Proof.
    intros FC ND N. unfold drec, r1. rewrite (fc_nidx _ _ _ _ _ _ FC).
    destruct (d =? i) eqn:E; [apply Z.eqb_eq in E; contradiction|].
    change (set_seen q false (rec0 i)) with (rec0 i). f_equal.
    destruct (bundle_of q D d) as [b|] eqn:BO.
    - apply bundle_of_some in BO. destruct BO as [I <-].
      apply (apply_unique db_dealer (deal_step q c) D b _ ND I).
    - apply bundle_of_none in BO. apply (apply_absent db_dealer (deal_step q c) D d _ BO).
  Qed.

  Lemma deal_step_other i c b : fresh i c -> db_dealer b <> i ->
    deal_step q c b (rec0 i) =
    if accepted q thr b
    then deal_loop q c (db_dealer b) (db_pub b) (db_deals b) (set_pub q (db_pub b) (set_seen q true (rec0 i)))
    else set_ev q (rec0 i).
  Proof.
    intros FC N. unfold deal_step, accepted. rewrite (fc_oidx _ _ _ _ _ _ FC), (fc_thr _ _ _ _ _ _ FC).
    destruct (db_dealer b =? i) eqn:E; [apply Z.eqb_eq in E; contradiction|]. rewrite andb_false_r.
    destruct (db_sid b); cbn [negb andb]; [|reflexivity].
    destruct (Z.of_nat (length (db_pub b)) =? thr); cbn [negb]; reflexivity.
  Qed.

  (* what every dealer record satisfies after ProcessDeals *)
  Record drec_ok (i : Z) (D : list (deal_bundle q)) (d : Z) (r : dstate q) : Prop := {
    dk_ev : d_ev r = match bundle_of q D d with Some b => bad_deal q nodes thr b | None => false end;
    dk_pub : d_pub r = pub_of q thr D d;
    dk_keys : map fst (d_row r) = K;
    dk_others : forall h, In h K -> h <> i -> cell (d_row r) h = if fast && negb (h =? d) then 1 else 0;
    dk_own : cell (d_row r) i = 0 \/ cell (d_row r) i = 1;
    dk_share : cell (d_row r) i = 0 ->
               exists sh p, d_share r = Some sh /\ d_pub r = Some p /\ Z.of_nat (length p) = thr;
    dk_valid : entry_ok q (xof q i) (d, r)
  }.

  Lemma length_commit_poly (cs : list F) : length (commit_poly q cs) = length cs.
  Proof. unfold commit_poly. apply map_length. Qed.

  Lemma own_deals_ok c : bad_idx q nodes (own_deals c) = false.
  Proof.
    unfold bad_idx, own_deals. apply not_true_iff_false. intros H. apply existsb_exists in H.
    destruct H as (dl & I & E). apply in_flat_map in I. destruct I as (n & I & I2).
    destruct (c_nidx c =? fst n); [destruct I2|]. destruct I2 as [<-|[]]. cbn in E.
    apply negb_true_iff in E. assert (X : included nodes (fst n) = true) by (apply included_in, in_map; exact I). congruence.
  Qed.

  Lemma dbun_not_bad i c : fresh i c -> bad_deal q nodes thr (dbun q c) = false.
  Proof.
    intros FC. rewrite (dbun_eq i c FC). unfold bad_deal, accepted. cbn [db_sid db_pub db_deals].
    rewrite length_commit_poly, (fc_priv _ _ _ _ _ _ FC), Z.eqb_refl, own_deals_ok. reflexivity.
  Qed.

  Lemma dbun_accepted i c : fresh i c -> accepted q thr (dbun q c) = true.
  Proof.
    intros FC. rewrite (dbun_eq i c FC). unfold accepted. cbn [db_sid db_pub].
    rewrite length_commit_poly, (fc_priv _ _ _ _ _ _ FC), Z.eqb_refl. reflexivity.
  Qed.

  Lemma dbun_dealer i c : fresh i c -> db_dealer (dbun q c) = i.
  Proof. intros FC. rewrite (dbun_eq i c FC). reflexivity. Qed.

  Theorem drec_spec i c D d :
    fresh i c -> NoDup (map db_dealer D) -> In (dbun q c) D -> In d K -> drec_ok i D d (drec c D d).
  Proof.
    intros FC ND OWN IK. assert (IKi : In i K) by apply (fc_in _ _ _ _ _ _ FC).
    destruct (Z.eq_dec d i) as [E|N].
    - subst d. rewrite (drec_own i c D FC).
      pose proof (bundle_of_in D _ ND OWN) as BO. rewrite (dbun_dealer i c FC) in BO.
      assert (ROW : d_row (set_cell q i 0 (set_seen q false (own1 c (rec0 i)))) = upd i (fun _ => 0) (upd i (fun _ => 0) (row0 i))).
      { unfold own1. cbn [set_cell set_seen set_pub set_share d_row rec0]. rewrite (fc_nidx _ _ _ _ _ _ FC). reflexivity. }
      constructor.
      + rewrite BO, (dbun_not_bad i c FC). reflexivity.
      + unfold pub_of. rewrite BO, (dbun_accepted i c FC), (dbun_eq i c FC). reflexivity.
      + rewrite ROW, !upd_keys. apply row0_keys.
      + intros h I NH. rewrite ROW, cellB by exact I. cases.
      + left. rewrite ROW, cellB by exact IKi. cases.
      + intros _. unfold own1. cbn [set_cell set_seen set_pub set_share d_share d_pub].
        eexists. eexists. split; [reflexivity|]. split; [reflexivity|].
        rewrite length_commit_poly. apply (fc_priv _ _ _ _ _ _ FC).
      + intros v p. unfold own1. cbn [snd set_cell set_seen set_pub set_share d_share d_pub].
        intros E1 E2. inversion E1; inversion E2; subst. rewrite (fc_nidx _ _ _ _ _ _ FC). symmetry. apply peval_commit_poly.
    - rewrite (drec_other i c D d FC ND N).
      destruct (bundle_of q D d) as [b|] eqn:BO.
      2:{ constructor; unfold pub_of; rewrite ?BO; cbn [set_cell d_ev d_pub d_row d_share rec0]; try reflexivity.
          - rewrite upd_keys. apply row0_keys.
          - intros h I NH. rewrite cellA by exact I. cases.
          - right. rewrite cellA by exact IKi. cases.
          - rewrite cellA by exact IKi. cases; intros; discriminate.
          - intros v p. cbn. discriminate. }
      pose proof (bundle_of_some D d b BO) as [IB EB]. subst d.
      rewrite (deal_step_other i c b FC N).
      destruct (accepted q thr b) eqn:ACC.
      2:{ constructor; unfold pub_of, bad_deal; rewrite ?BO, ?ACC; cbn [negb orb set_cell set_ev d_ev d_pub d_row d_share rec0]; try reflexivity.
          - rewrite upd_keys. apply row0_keys.
          - intros h I NH. rewrite cellA by exact I. cases.
          - right. rewrite cellA by exact IKi. cases.
          - rewrite cellA by exact IKi. cases; intros; discriminate.
          - intros v p. cbn. discriminate. }
      pose proof (deal_loop_shape i c (db_dealer b) (db_pub b) (db_deals b) FC
                    (set_pub q (db_pub b) (set_seen q true (rec0 i)))) as SH. cbn zeta in SH.
      set (r' := deal_loop q c (db_dealer b) (db_pub b) (db_deals b) (set_pub q (db_pub b) (set_seen q true (rec0 i)))) in *.
      destruct SH as (P & E & R). cbn [set_pub set_seen d_pub d_ev d_row d_share rec0] in P, E, R.
      assert (LEN : Z.of_nat (length (db_pub b)) = thr).
      { unfold accepted in ACC. apply andb_true_iff in ACC. destruct ACC as [_ L]. apply Z.eqb_eq in L. exact L. }
      constructor; unfold pub_of, bad_deal; rewrite ?BO, ?ACC; cbn [negb orb set_cell d_ev d_pub d_row d_share].
      + rewrite E. reflexivity.
      + exact P.
      + rewrite upd_keys. destruct R as [[R1 _]|[R1 _]]; rewrite R1; rewrite ?upd_keys; apply row0_keys.
      + intros h I NH. destruct R as [[R1 _]|[R1 _]]; rewrite R1; [rewrite cellA by exact I|rewrite cellB by exact I]; cases.
      + destruct R as [[R1 _]|[R1 _]]; rewrite R1; [right; rewrite cellA by exact IKi|left; rewrite cellB by exact IKi]; cases.
      + destruct R as [[R1 _]|[R1 (sh & R2 & R3)]]; rewrite R1.
        * rewrite cellA by exact IKi. cases; intros; discriminate.
        * intros _. exists sh, (db_pub b). auto.
      + intros v p. cbn [snd set_cell d_share d_pub]. rewrite P. intros E1 E2. inversion E2; subst p.
        destruct R as [[_ R2]|[_ (sh & R2 & R3)]]; rewrite R2 in E1; [discriminate|].
        inversion E1; subst v. exact R3.
  Qed.

  Lemma drec_own_cells i c D h : fresh i c -> In h K ->
    cell (d_row (drec c D i)) h = if fast && negb (h =? i) then 1 else 0.
  Proof.
    intros FC I. rewrite (drec_own i c D FC). unfold own1. cbn [set_cell set_seen set_pub set_share d_row rec0].
    rewrite (fc_nidx _ _ _ _ _ _ FC), cellB by exact I. cases.
  Qed.

  (* an honest dealer's deal reaches every honest holder *)
  Lemma own_deals_in c h : In h K -> h <> c_nidx c ->
    In (mkdeal h (Some (peval q (c_priv c) (xof q h)))) (own_deals c).
  Proof.
    intros I N. unfold own_deals. apply in_flat_map. apply in_map_iff in I. destruct I as (n & E & I).
    exists n. split; [exact I|]. subst h. destruct (c_nidx c =? fst n) eqn:X; [apply Z.eqb_eq in X; congruence|].
    left. reflexivity.
  Qed.

  Theorem drec_honest_dealer i c D d cd :
    fresh i c -> NoDup (map db_dealer D) -> fresh d cd -> In (dbun q cd) D -> d <> i ->
    cell (d_row (drec c D d)) i = 0.
  Proof.
    intros FC ND FD ID N. rewrite (drec_other i c D d FC ND N).
    pose proof (bundle_of_in D _ ND ID) as BO. rewrite (dbun_dealer d cd FD) in BO. rewrite BO.
    assert (ND' : db_dealer (dbun q cd) <> i) by (rewrite (dbun_dealer d cd FD); exact N).
    rewrite (deal_step_other i c _ FC ND'), (dbun_accepted d cd FD).
    assert (IKi : In i K) by apply (fc_in _ _ _ _ _ _ FC).
    cbn [set_cell d_row]. rewrite cell_upd.
    2:{ destruct (deal_loop_shape i c (db_dealer (dbun q cd)) (db_pub (dbun q cd)) (db_deals (dbun q cd)) FC
                   (set_pub q (db_pub (dbun q cd)) (set_seen q true (rec0 i)))) as (_ & _ & [[R _]|[R _]]);
        rewrite R; cbn [set_pub set_seen d_row rec0]; rewrite ?upd_keys; rewrite row0_keys; exact IKi. }
    destruct (i =? d); [reflexivity|].
    apply (deal_loop_hit i c _ _ _ FC).
    - rewrite (dbun_eq d cd FD). cbn [db_deals]. apply own_deals_ok.
    - cbn [set_pub set_seen d_row rec0]. rewrite row0_keys. exact IKi.
    - right. rewrite (dbun_eq d cd FD). cbn [db_deals db_pub].
      exists (mkdeal i (Some (peval q (c_priv cd) (xof q i)))), (peval q (c_priv cd) (xof q i)).
      split; [apply own_deals_in; [exact IKi|rewrite (fc_nidx _ _ _ _ _ _ FD); congruence]|].
      split; [reflexivity|]. split; [reflexivity|]. symmetry. apply peval_commit_poly.
  Qed.

  (* a dealer none of whose deals to the node is valid leaves the pre-set
     complaint of the node in place *)
  Theorem drec_invalid_deal i c D d b :
    fresh i c -> NoDup (map db_dealer D) -> d <> i -> In d K -> bundle_of q D d = Some b ->
    (forall dl sh, In dl (db_deals b) -> dl_idx dl = i -> dl_share dl = Some sh ->
                   commit q sh <> peval q (db_pub b) (xof q i)) ->
    cell (d_row (drec c D d)) i = 1.
  Proof.
    intros FC ND N IK BO H. rewrite (drec_other i c D d FC ND N), BO.
    pose proof (bundle_of_some D d b BO) as [IB EB].
    assert (NB : db_dealer b <> i) by congruence.
    assert (IKi : In i K) by apply (fc_in _ _ _ _ _ _ FC).
    assert (NE : (i =? d) = false) by (apply Z.eqb_neq; congruence).
    rewrite (deal_step_other i c b FC NB). cbn [set_cell d_row].
    destruct (accepted q thr b).
    - rewrite (deal_loop_miss i c _ _ _ FC H). cbn [set_pub set_seen d_row rec0]. rewrite cellA by exact IKi. cases.
    - cbn [set_ev d_row rec0]. rewrite cellA by exact IKi. cases.
  Qed.
End Deal.
