(* DKG agreement, part 5: what an honest node outputs - its share lies on the
   output polynomial, the key is the sum of the contributions of QUAL, the
   polynomial has Threshold coefficients, who is in QUAL, and liveness when
   everybody is honest. *)
From Coq Require Import ZArith List Bool Lia Permutation.
From Kyber Require Import Algebra.Zq Algebra.Grp DKG.PedersenDKG DKG.PedersenProofs
  DKG.Agreement DKG.AgreementDeal DKG.AgreementResp DKG.AgreementJust DKG.AgreementProofs.
Import ListNotations.
Local Open Scope Z_scope.

Section Fold.
  Variable q : Z.
  Notation F := (zq q).

  Lemma length_poly_add (a b : list F) : length a = length b -> length (poly_add q a b) = length a.
  Proof.
    revert b. induction a as [|x a IH]; intros [|y b] L; try discriminate; [reflexivity|].
    cbn. f_equal. apply IH. cbn in L. lia.
  Qed.

  (* the output polynomial has the common length of the qualified public polynomials *)
  Lemma dkg_fold_len (s : st q) n l : forall q0 pub0 sh0 ql pub sh,
    fold_left (dkg_fold q s) l (Some (q0, pub0, sh0)) = Some (ql, pub, sh) ->
    (forall e p, In e l -> d_pub (snd e) = Some p -> length p = n) ->
    (forall p0, pub0 = Some p0 -> length p0 = n) ->
    forall p, pub = Some p -> length p = n.
  Proof.
    induction l as [|e l IH]; intros q0 pub0 sh0 ql pub sh H HL H0 p EP.
    - cbn in H. inversion H; subst. auto.
    - cbn [fold_left] in H. unfold dkg_fold at 2 in H.
      assert (HL' : forall e' p', In e' l -> d_pub (snd e') = Some p' -> length p' = n) by (intros e' p' I; apply HL; right; exact I).
      destruct (negb (all_true (d_row (snd e)))); [eapply IH; eauto|].
      destruct (holder_evicted q s (fst e)); [eapply IH; eauto|].
      destruct (d_share (snd e)) as [v|]; [|rewrite dkg_fold_none in H; discriminate].
      destruct (d_pub (snd e)) as [pe|] eqn:DP; [|rewrite dkg_fold_none in H; discriminate].
      pose proof (HL e pe (or_introl eq_refl) DP) as LE.
      destruct pub0 as [p0|].
      + destruct (Nat.eqb (length p0) (length pe)) eqn:NE; [|rewrite dkg_fold_none in H; discriminate].
        apply Nat.eqb_eq in NE. eapply IH; [exact H|exact HL'| |exact EP].
        intros p1 E1. injection E1 as <-. rewrite length_poly_add by exact NE. apply H0. reflexivity.
      + eapply IH; [exact H|exact HL'| |exact EP]. intros p1 E1. injection E1 as <-. exact LE.
  Qed.

  (* the fold succeeds when every qualified dealer has a share and a public
     polynomial of the common length *)
  Lemma dkg_fold_total (s : st q) n l : forall q0 pub0 sh0,
    (forall e, In e l -> qualified q s e = true ->
       exists v p, d_share (snd e) = Some v /\ d_pub (snd e) = Some p /\ length p = n) ->
    (forall p0, pub0 = Some p0 -> length p0 = n) ->
    exists ql pub sh, fold_left (dkg_fold q s) l (Some (q0, pub0, sh0)) = Some (ql, pub, sh) /\
      ((pub0 <> None \/ exists e, In e l /\ qualified q s e = true) -> pub <> None).
  Proof.
    induction l as [|e l IH]; intros q0 pub0 sh0 HL H0.
    - exists q0, pub0, sh0. split; [reflexivity|]. intros [X|(e & [] & _)]. exact X.
    - cbn [fold_left]. unfold dkg_fold at 2.
      assert (HL' : forall e', In e' l -> qualified q s e' = true ->
                exists v p, d_share (snd e') = Some v /\ d_pub (snd e') = Some p /\ length p = n)
        by (intros e' I; apply HL; right; exact I).
      pose proof (HL e (or_introl eq_refl)) as HE. unfold qualified in HE.
      destruct (all_true (d_row (snd e))) eqn:AT; cbn [negb andb] in *.
      2:{ destruct (IH q0 pub0 sh0 HL' H0) as (ql & pub & sh & E & P). exists ql, pub, sh. split; [exact E|].
          intros [X|(e' & [X|X] & Q)]; apply P; auto.
          - subst e'. unfold qualified in Q. rewrite AT in Q. discriminate.
          - right. exists e'. auto. }
      destruct (holder_evicted q s (fst e)) eqn:HEV; cbn [negb] in *.
      { destruct (IH q0 pub0 sh0 HL' H0) as (ql & pub & sh & E & P). exists ql, pub, sh. split; [exact E|].
        intros [X|(e' & [X|X] & Q)]; apply P; auto.
        - subst e'. unfold qualified in Q. rewrite AT, HEV in Q. discriminate.
        - right. exists e'. auto. }
      destruct (HE eq_refl) as (v & p & DS & DP & LP). rewrite DS, DP.
      destruct pub0 as [p0|].
      + assert (NE : Nat.eqb (length p0) (length p) = true) by (apply Nat.eqb_eq; rewrite LP; apply H0; reflexivity).
        rewrite NE. apply Nat.eqb_eq in NE.
        destruct (IH (q0 ++ [fst e]) (Some (poly_add q p0 p)) (zadd sh0 v) HL') as (ql & pub & sh & E & P).
        { intros p1 E1. injection E1 as <-. rewrite length_poly_add by exact NE. apply H0. reflexivity. }
        exists ql, pub, sh. split; [exact E|]. intros _. apply P. left. discriminate.
      + destruct (IH (q0 ++ [fst e]) (Some p) (zadd sh0 v) HL') as (ql & pub & sh & E & P).
        { intros p1 E1. injection E1 as <-. exact LP. }
        exists ql, pub, sh. split; [exact E|]. intros _. apply P. left. discriminate.
  Qed.
End Fold.

Section Result.
  Variable q : Z.
  Notation F := (zq q).
  Variable nodes : list (Z * Z).
  Variable thr : Z.
  Variable fast : bool.               (* Config.FastSync *)
  Notation K := (map fst nodes).
  Notation fresh := (fresh_cfg q nodes thr fast).
  Notation honest := (honest q nodes thr fast).

  Lemma pub_of_length D d p : pub_of q thr D d = Some p -> Z.of_nat (length p) = thr.
  Proof.
    unfold pub_of. destruct (bundle_of q D d) as [b|]; [|discriminate].
    destruct (accepted q thr b) eqn:ACC; [|discriminate]. intros E. inversion E; subst.
    unfold accepted in ACC. apply andb_true_iff in ACC. destruct ACC as [_ L]. apply Z.eqb_eq in L. exact L.
  Qed.

  (* the records of the justification phase keep the public polynomial of the
     deal phase and a valid share *)
  Lemma x6_pub_valid B i c d : boards_ok q B -> honest B i c -> In d K ->
    d_pub (x6 q nodes thr fast c B d) = pub_of q thr (bD B) d /\
    entry_ok q (xof q i) (d, x6 q nodes thr fast c B d).
  Proof.
    intros OK H IK. pose proof (h_cfg _ _ _ _ _ _ _ H) as FC.
    pose proof (drec_ok_of q nodes thr fast B i c d OK H IK) as DK.
    destruct (rrec_fields q nodes thr fast B i c d OK H IK) as (_ & A2 & A3 & _).
    destruct (x4_fields q nodes thr fast c B d) as (P1 & P2 & _).
    destruct (x5_fields q nodes thr fast c B d) as (Q1 & Q2 & _).
    assert (V5 : entry_ok q (xof q i) (d, x5 q nodes thr fast c B d)).
    { intros v p. cbn [snd]. rewrite Q1, Q2, P1, P2, A2, A3, <- (dk_pub _ _ _ _ _ _ _ _ DK). apply (dk_valid _ _ _ _ _ _ _ _ DK). }
    destruct OK as (_ & _ & NDJ).
    destruct (x6_cases q nodes thr fast c B d NDJ) as [(b & _ & EB & X)|[_ X]]; rewrite X.
    - split; [rewrite just_step_pub, Q1, P1; exact A2|].
      rewrite <- EB. rewrite <- (fc_nidx _ _ _ _ _ _ FC). apply just_step_ok. rewrite (fc_nidx _ _ _ _ _ _ FC), EB. exact V5.
    - split; [rewrite Q1, P1; exact A2|exact V5].
  Qed.

  (* the state an honest node computes its result from *)
  Lemma output_state B i c r : boards_ok q B -> honest B i c -> output q c B r ->
    exists (S : st q) (X : Z -> dstate q),
      compute_dkg_result q c (final q S) = Some r /\
      map fst (s_d S) = K /\
      (forall d, In d K -> look d (s_d S) = Some (X d)) /\
      (forall d, In d K -> d_pub (X d) = pub_of q thr (bD B) d /\ entry_ok q (xof q i) (d, X d)) /\
      (forall h, holder_evicted q S h = hevR nodes fast i (bR B) h).
  Proof.
    intros OK H [O|O]; pose proof (h_cfg _ _ _ _ _ _ _ H) as FC.
    - destruct O as (_ & R). destruct (rout_result q nodes thr fast i c B r FC R) as (_ & CR).
      destruct (rs3_spec q nodes thr fast i c B FC) as (A1 & A2 & _ & A4 & _).
      exists (rs3 q c B), (rrec q nodes fast c B). repeat split; auto.
      + destruct (rrec_fields q nodes thr fast B i c d OK H H0) as (_ & X & _). exact X.
      + pose proof (drec_ok_of q nodes thr fast B i c d OK H H0) as DK.
        destruct (rrec_fields q nodes thr fast B i c d OK H H0) as (_ & X2 & X3 & _).
        intros v p. cbn [snd]. rewrite X2, X3, <- (dk_pub _ _ _ _ _ _ _ _ DK). apply (dk_valid _ _ _ _ _ _ _ _ DK).
    - destruct O as (E1 & E2 & _ & R). pose proof (jout_result q nodes thr fast i c B r FC R) as CR.
      destruct (s6_spec q nodes thr fast i c B FC E1 E2) as (A1 & A2 & A3 & _).
      exists (s6 q c B), (x6 q nodes thr fast c B). repeat split; auto.
      + apply (x6_pub_valid B i c d OK H H0).
      + apply (x6_pub_valid B i c d OK H H0).
  Qed.

  Lemma final_in (S : st q) (X : Z -> dstate q) e : NoDup K -> map fst (s_d S) = K ->
    (forall d, In d K -> look d (s_d S) = Some (X d)) -> In e (s_d (final q S)) ->
    In (fst e) K /\ snd e = (if d_ev (X (fst e)) then set_row_all q 1 (X (fst e)) else X (fst e)).
  Proof.
    intros ND KS L I. destruct e as [k v]. cbn [fst snd].
    assert (IK : In k K) by (rewrite <- KS, <- final_keys; apply (in_map fst) in I; exact I).
    split; [exact IK|].
    assert (L2 : look k (s_d (final q S)) = Some v) by (apply in_look; [rewrite final_keys, KS; exact ND|exact I]).
    rewrite (final_look q S k _ (L k IK)) in L2. inversion L2. reflexivity.
  Qed.

  (* Every honest output share lies on the output polynomial (the share index
     is the node index, evaluated at index + 1); the public key is the sum of
     the constant commitments broadcast by the qualified dealers; the
     polynomial has Threshold coefficients. *)
  Theorem output_share_and_key B i c r : boards_ok q B -> honest B i c -> output q c B r ->
    res_idx r = i /\
    commit q (res_share r) = peval q (res_commits r) (xof q i) /\
    hd zzero (res_commits r) = psum (map (contribution q thr (bD B)) (res_qual r)) /\
    Z.of_nat (length (res_commits r)) = thr /\
    (forall d, In d (res_qual r) -> In d K).
  Proof.
    intros OK H O. pose proof (h_cfg _ _ _ _ _ _ _ H) as FC. pose proof (fc_ndi _ _ _ _ _ _ FC) as ND.
    destruct (output_state B i c r OK H O) as (S & X & CR & KS & L & PV & _).
    destruct (dkg_result_spec q c (final q S) r CR) as (Q & IDX & HD & SH).
    rewrite (fc_nidx _ _ _ _ _ _ FC) in *.
    assert (REC : forall e, In e (s_d (final q S)) ->
              In (fst e) K /\ d_pub (snd e) = pub_of q thr (bD B) (fst e) /\ entry_ok q (xof q i) e).
    { intros e I. destruct (final_in S X e ND KS L I) as (IK & E). destruct (PV (fst e) IK) as (P1 & P2).
      split; [exact IK|]. destruct e as [k v]. cbn [fst snd] in *. subst v.
      destruct (d_ev (X k)); [|auto]. split; [exact P1|]. apply entry_ok_keeps; [apply keeps_set_row_all|exact P2]. }
    split; [exact IDX|]. split; [|split; [|split]].
    - apply SH. apply Forall_forall. intros e I. apply (REC e I).
    - rewrite HD, Q, map_map. f_equal. apply map_ext_in. intros e I. apply filter_In in I. destruct I as [I _].
      destruct (REC e I) as (_ & P & _). unfold c0_of, contribution. rewrite P. reflexivity.
    - unfold compute_dkg_result in CR.
      destruct (fold_left (dkg_fold q (final q S)) (s_d (final q S)) (Some ([], None, zzero))) as [[[ql [p|]] sh]|] eqn:E; try discriminate.
      injection CR as CR'. rewrite <- CR'. cbn [res_commits].
      assert (LN : length p = Z.to_nat thr).
      { apply (dkg_fold_len q (final q S) (Z.to_nat thr) _ _ _ _ _ _ _ E); [| discriminate | reflexivity].
        intros e pe I DP. destruct (REC e I) as (_ & P & _). rewrite P in DP. apply pub_of_length in DP. lia. }
      rewrite LN. apply Z2Nat.id.
      destruct (PV i (fc_in _ _ _ _ _ _ FC)) as (_ & _). pose proof (fc_priv _ _ _ _ _ _ FC). lia.
    - intros d I. rewrite Q in I. apply in_map_iff in I. destruct I as (e & <- & I). apply filter_In in I.
      destruct I as [I _]. apply (REC e I).
  Qed.

  (* ---------------------------------------------------------------- who is in QUAL *)
  Lemma just_loop_keys (c : cfg q) dealer js : forall x, map fst (d_row (just_loop q c dealer js x)) = map fst (d_row x).
  Proof.
    induction js as [|j js IH]; intros x; cbn [just_loop]; [reflexivity|].
    destruct (negb (included (c_new c) (j_idx j))); [rewrite IH; reflexivity|].
    destruct (d_pub x) as [pub|]; [|reflexivity].
    destruct (negb (zeqb (commit q (j_share j)) (peval q pub (xof q (j_idx j))))); [rewrite IH; reflexivity|].
    destruct (c_reshare c && negb (zeqb (peval q (c_oldpub c) (xof q dealer)) (hd zzero pub))); [rewrite IH; reflexivity|].
    rewrite IH. destruct (j_idx j =? c_nidx c); cbn [set_share set_cell d_row]; apply upd_keys.
  Qed.

  Lemma just_step_keys (c : cfg q) b x : map fst (d_row (just_step q c b x)) = map fst (d_row x).
  Proof.
    unfold just_step. destruct (d_seen x); [reflexivity|].
    destruct (c_can_issue c && (jb_dealer b =? c_oidx c)); [reflexivity|].
    destruct (d_ev x); [reflexivity|]. destruct (negb (jb_sid b)); [reflexivity|].
    rewrite just_loop_keys. reflexivity.
  Qed.

  Lemma x5_keys B i c d : boards_ok q B -> honest B i c -> In d K -> map fst (d_row (x5 q nodes thr fast c B d)) = K.
  Proof.
    intros OK H IK. destruct (rrec_fields q nodes thr fast B i c d OK H IK) as (_ & _ & _ & X & _).
    destruct (x4_fields q nodes thr fast c B d) as (_ & _ & P3 & _).
    destruct (x5_fields q nodes thr fast c B d) as (_ & _ & _ & _ & Q5).
    rewrite Q5. destruct (d =? c_nidx c); rewrite ?clear1_keys, P3; exact X.
  Qed.

  Lemma x6_keys B i c d : boards_ok q B -> honest B i c -> In d K -> map fst (d_row (x6 q nodes thr fast c B d)) = K.
  Proof.
    intros OK H IK. pose proof (x5_keys B i c d OK H IK) as K5. destruct OK as (_ & _ & NDJ).
    destruct (x6_cases q nodes thr fast c B d NDJ) as [(b & _ & EB & Y)|[_ Y]]; rewrite Y; [|exact K5].
    rewrite just_step_keys. exact K5.
  Qed.

  (* membership in the output QUAL, in terms of the record of the dealer in the
     state the result was computed from *)
  Lemma output_qual B i c r d : boards_ok q B -> honest B i c -> output q c B r -> In d K ->
    exists x : dstate q,
      map fst (d_row x) = K /\
      (In d (res_qual r) <-> d_ev x = false /\ all_true (d_row x) = true /\ hevR nodes fast i (bR B) d = false) /\
      ((out_resp q c B r /\ x = rrec q nodes fast c B d) \/ (out_just q c B r /\ x = x6 q nodes thr fast c B d)).
  Proof.
    intros OK H O IK. pose proof (h_cfg _ _ _ _ _ _ _ H) as FC. pose proof (fc_ndi _ _ _ _ _ _ FC) as ND.
    assert (G : forall (S : st q) (X : Z -> dstate q),
              compute_dkg_result q c (final q S) = Some r -> map fst (s_d S) = K ->
              (forall d, In d K -> look d (s_d S) = Some (X d)) ->
              (forall h, holder_evicted q S h = hevR nodes fast i (bR B) h) ->
              map fst (d_row (X d)) = K ->
              (In d (res_qual r) <-> d_ev (X d) = false /\ all_true (d_row (X d)) = true /\ hevR nodes fast i (bR B) d = false)).
    { intros S X CR KS L HE KR. rewrite <- HE.
      apply (qual_characterisation q c S (final q S) r d (X d)).
      - apply (fc_reshare _ _ _ _ _ _ FC).
      - unfold compute_result. rewrite (fc_reshare _ _ _ _ _ _ FC). fold (final q S). rewrite CR. reflexivity.
      - rewrite KS. exact ND.
      - apply look_some_in. apply L. exact IK.
      - intros E. rewrite E in KR. destruct nodes; [destruct IK|discriminate]. }
    destruct O as [O|O].
    - pose proof O as (E0 & R). destruct (rout_result q nodes thr fast i c B r FC R) as (_ & CR).
      destruct (rs3_spec q nodes thr fast i c B FC) as (A1 & A2 & _ & A4 & _).
      destruct (rrec_fields q nodes thr fast B i c d OK H IK) as (_ & _ & _ & X & _).
      exists (rrec q nodes fast c B d). split; [exact X|]. split; [|left; split; [exact O|reflexivity]].
      apply (G (rs3 q c B) (rrec q nodes fast c B) CR A2 A1 A4 X).
    - pose proof O as (E1 & E2 & _ & R). pose proof (jout_result q nodes thr fast i c B r FC R) as CR.
      destruct (s6_spec q nodes thr fast i c B FC E1 E2) as (A1 & A2 & A3 & _).
      pose proof (x6_keys B i c d OK H IK) as X.
      exists (x6 q nodes thr fast c B d). split; [exact X|]. split; [|right; split; [exact O|reflexivity]].
      apply (G (s6 q c B) (x6 q nodes thr fast c B) CR A2 A1 A3 X).
  Qed.
End Result.
