(* Runner for the C02 correspondence: evaluates the scalar model on the inputs
   the implementations ran on and lists the cases whose observed bytes differ.
   Not used by any theorem. *)
From Coq Require Import ZArith List Bool.
From Kyber Require Import Algebra.Zq Xof.XofSM Codec.Bytes Scalar.ScalarSM.
Import ListNotations.
Local Open Scope Z_scope.

Definition impl_of (k : Z) : impl :=
  if k =? 0 then IEd else if k =? 1 then IMod else if k =? 2 then ICircl else IGnark.
Definition bo_of (k : Z) : border := if k =? 0 then LE else BE.
Definition sop_of (k : Z) : sop :=
  if k =? 0 then OAdd else if k =? 1 then OSub else if k =? 2 then OMul else
  if k =? 3 then ODiv else if k =? 4 then ONeg else if k =? 5 then OInv else
  if k =? 6 then OZero else OOne.

(* an implementation instance: order, code path, byte order *)
Definition inst := (Z * Z * Z)%type.

Inductive case :=
(* receiver.Op(a,b); out = MarshalBinary of the receiver afterwards *)
| COp (id : Z) (im : inst) (o : Z) (a b : Z) (out : list Z)
(* SetBytes(bs) *)
| CSetBytes (id : Z) (im : inst) (bs : list Z) (out : list Z)
(* SetInt64(v) *)
| CInt64 (id : Z) (im : inst) (v : Z) (out : list Z)
(* x.Equal(y) for scalars holding the values a, b (reached by different paths) *)
| CEqual (id : Z) (im : inst) (a b : Z) (eq : bool)
(* Pick(stream): result bytes and number of stream bytes consumed *)
| CPick (id : Z) (im : inst) (stream : list Z) (out : list Z) (consumed : Z)
(* scMulAdd / scAdd / scSub / scMul / scReduce driven directly on byte arrays *)
| CLimb (id : Z) (f : Z) (a b c : list Z) (out : list Z).

Definition limbfn_of (k : Z) : limbfn :=
  if k =? 0 then LMulAdd else if k =? 1 then LAdd else if k =? 2 then LSub else
  if k =? 3 then LMul else LReduce.

Definition check (c : case) : option Z :=
  match c with
  | COp id (q, ik, bk) o a b out =>
      let i := impl_of ik in let bo := bo_of bk in
      let r := op_impl i (sop_of o) (of_Z q a) (of_Z q b) in
      if list_eqb (marshal i bo r) out then None else Some id
  | CSetBytes id (q, ik, bk) bs out =>
      let i := impl_of ik in let bo := bo_of bk in
      if list_eqb (marshal i bo (set_bytes q bo bs)) out then None else Some id
  | CInt64 id (q, ik, bk) v out =>
      let i := impl_of ik in let bo := bo_of bk in
      if list_eqb (marshal i bo (of_int64_impl q i v)) out then None else Some id
  | CEqual id (q, ik, bk) a b eq =>
      if Bool.eqb (equal_impl (impl_of ik) (of_Z q a) (of_Z q b)) eq then None else Some id
  | CPick id (q, ik, bk) st out consumed =>
      let i := impl_of ik in let bo := bo_of bk in
      match pick_impl q i (Z.to_nat 10000) st with
      | Some (r, rest) =>
          if list_eqb (marshal i bo r) out && (Z.of_nat (length st - length rest) =? consumed)
          then None else Some id
      | None => Some id
      end
  | CLimb id f a b c out =>
      if list_eqb (limb_spec (limbfn_of f) a b c) out then None else Some id
  end.

Definition mismatches (cs : list case) : list Z :=
  flat_map (fun c => match check c with Some i => [i] | None => [] end) cs.
