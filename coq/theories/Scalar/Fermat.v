(* Fermat's little theorem in zq q (prime q), proved from the field laws of
   Algebra/Zq.v by the classical argument (multiplication by a non-zero element
   permutes the non-zero residues), and the correctness of the
   square-and-multiply ladder as coded in group/edwards25519/scalar.go Inv and
   in CIRCL's expVarTime:  for i := 255..0 { r = r*r; if bit(i) { r = r*a } }.
   No axioms. *)
From Coq Require Import ZArith Znumtheory List Bool Lia Permutation Ring Field.
From Kyber Require Import Algebra.Zq Scalar.ScalarSM.
Import ListNotations.
Local Open Scope Z_scope.

Section Pow.
  Variable q : Z.
  Hypothesis q_prime : prime q.
  Add Field zqF : (zq_field q q_prime).
  Notation F := (zq q).

  (* a^e for an integer exponent e >= 0 (1 for negative e) *)
  Definition zpow (a : F) (e : Z) : F := Nat.iter (Z.to_nat e) (zmul a) zone.

  Lemma zpow_0 a : zpow a 0 = zone.
  Proof. reflexivity. Qed.

  Lemma zpow_succ a e : 0 <= e -> zpow a (e + 1) = zmul a (zpow a e).
  Proof.
    intros He. unfold zpow. rewrite Z2Nat.inj_add by lia.
    change (Z.to_nat 1) with 1%nat. rewrite Nat.add_1_r. reflexivity.
  Qed.

  Lemma zpow_add a m n : 0 <= m -> 0 <= n -> zpow a (m + n) = zmul (zpow a m) (zpow a n).
  Proof.
    intros Hm Hn. revert m Hm. apply natlike_ind.
    - rewrite zpow_0. cbn [Z.add]. ring.
    - intros m Hm IH. replace (Z.succ m + n) with ((m + n) + 1) by lia.
      replace (Z.succ m) with (m + 1) by lia.
      rewrite !zpow_succ by lia. rewrite IH. ring.
  Qed.

  (* the ladder computes a^(value of the bit string), whatever the bits *)
  Definition bits_val (acc : Z) (bits : list bool) : Z :=
    fold_left (fun v b => 2 * v + Z.b2z b) bits acc.

  Lemma bits_val_nonneg : forall bits acc, 0 <= acc -> 0 <= bits_val acc bits.
  Proof.
    induction bits as [|b t IH]; intros acc H; cbn [bits_val fold_left]; [exact H|].
    apply IH. destruct b; cbn [Z.b2z]; lia.
  Qed.

  Lemma ladder_gen a : forall bits h, 0 <= h ->
    fold_left (ladder_step a) bits (zpow a h) = zpow a (bits_val h bits).
  Proof.
    induction bits as [|b t IH]; intros h Hh; [reflexivity|].
    cbn [fold_left bits_val]. fold (bits_val (2 * h + Z.b2z b) t).
    rewrite <- IH by (destruct b; cbn [Z.b2z]; lia). f_equal.
    unfold ladder_step. replace (2 * h) with (h + h) by lia.
    destruct b; cbn [Z.b2z].
    - rewrite zpow_succ, zpow_add by lia. ring.
    - rewrite Z.add_0_r, zpow_add by lia. reflexivity.
  Qed.

  Lemma bits_msb_succ n e : bits_msb (S n) e = Z.testbit e (Z.of_nat n) :: bits_msb n e.
  Proof. unfold bits_msb. rewrite seq_S, rev_app_distr. reflexivity. Qed.

  Lemma bits_val_msb : forall n e acc, 0 <= e ->
    bits_val acc (bits_msb n e) = acc * 2 ^ Z.of_nat n + e mod 2 ^ Z.of_nat n.
  Proof.
    induction n as [|n IH]; intros e acc He.
    - cbn. rewrite Z.mod_1_r. lia.
    - rewrite bits_msb_succ. cbn [bits_val fold_left]. fold (bits_val (2 * acc + Z.b2z (Z.testbit e (Z.of_nat n))) (bits_msb n e)).
      rewrite IH by exact He.
      rewrite Nat2Z.inj_succ, Z.pow_succ_r by lia.
      rewrite (Z.mul_comm 2 (2 ^ Z.of_nat n)).
      rewrite Z.rem_mul_r by (try apply Z.pow_nonzero; lia).
      rewrite Z.testbit_spec' by lia. ring.
  Qed.

  (* the ladder over the n low-order bits of e, most significant first, is a^e *)
  Theorem ladder_correct n e a : 0 <= e < 2 ^ Z.of_nat n -> ladder (bits_msb n e) a = zpow a e.
  Proof.
    intros He. unfold ladder. change (@zone q) with (zpow a 0).
    rewrite ladder_gen by lia. rewrite bits_val_msb by lia.
    rewrite Z.mod_small by exact He. f_equal.
  Qed.

  (* ---------------------------------------------------------------- *)
  (* Fermat *)

  Let q_ge_2 : 2 <= q := prime_ge_2 q q_prime.

  Fixpoint prod (l : list F) : F :=
    match l with [] => zone | x :: t => zmul x (prod t) end.

  Lemma prod_map_mul a l :
    prod (map (zmul a) l) = zmul (zpow a (Z.of_nat (length l))) (prod l).
  Proof.
    induction l as [|x t IH]; cbn [map prod length].
    - rewrite zpow_0. ring.
    - rewrite IH, Nat2Z.inj_succ. replace (Z.succ (Z.of_nat (length t))) with (Z.of_nat (length t) + 1) by lia.
      rewrite zpow_succ by lia. ring.
  Qed.

  Lemma prod_perm l l' : Permutation l l' -> prod l = prod l'.
  Proof.
    intros P. induction P as [|x l l' P IH|x y l|l l' l'' P1 IH1 P2 IH2]; cbn [prod].
    - reflexivity.
    - rewrite IH. reflexivity.
    - ring.
    - congruence.
  Qed.

  Lemma prod_nonzero l : (forall x, In x l -> x <> zzero) -> prod l <> zzero.
  Proof.
    induction l as [|x t IH]; intros H; cbn [prod].
    - apply zone_neq_zzero. exact q_prime.
    - intros E. apply (zmul_eq_0 q q_prime) in E. destruct E as [E|E].
      + apply (H x); [left; reflexivity | exact E].
      + apply IH; [|exact E]. intros y Hy. apply H. right. exact Hy.
  Qed.

  (* the non-zero residues 1 .. q-1 *)
  Definition nzl : list F := map (fun k => of_Z q (Z.of_nat k)) (seq 1 (Z.to_nat (q - 1))).

  Lemma val_small x : 0 <= x < q -> val (of_Z q x) = x.
  Proof. intros H. rewrite val_of_Z. apply Z.mod_small. exact H. Qed.

  Lemma nonzero_val (x : F) : x <> zzero <-> val x <> 0.
  Proof.
    split; intros H E; apply H.
    - apply zq_eq. rewrite E. unfold zzero. rewrite val_of_Z. rewrite Z.mod_0_l by lia. reflexivity.
    - rewrite E. unfold zzero. rewrite val_of_Z. apply Z.mod_0_l. lia.
  Qed.

  Lemma nzl_in x : In x nzl <-> x <> zzero.
  Proof.
    unfold nzl. rewrite in_map_iff. split.
    - intros (k & E & Hk). apply in_seq in Hk. subst x. apply nonzero_val. rewrite val_small by lia. lia.
    - intros H. apply nonzero_val in H. pose proof (val_range q x ltac:(lia)) as R.
      exists (Z.to_nat (val x)). split.
      + apply zq_eq. rewrite Z2Nat.id by lia. rewrite val_small by lia. reflexivity.
      + apply in_seq. lia.
  Qed.

  Lemma NoDup_map_in {A B} (f : A -> B) (l : list A) :
    (forall x y, In x l -> In y l -> f x = f y -> x = y) -> NoDup l -> NoDup (map f l).
  Proof.
    induction l as [|a t IH]; intros Hinj Hnd; cbn [map]; [constructor|].
    inversion Hnd as [|? ? Hnotin Ht]; subst. constructor.
    - intros Hin. apply in_map_iff in Hin. destruct Hin as (y & E & Hy).
      apply Hnotin. rewrite (Hinj a y); [exact Hy | left; reflexivity | right; exact Hy | symmetry; exact E].
    - apply IH; [|exact Ht]. intros x y Hx Hy. apply Hinj; right; assumption.
  Qed.

  Lemma nzl_nodup : NoDup nzl.
  Proof.
    unfold nzl. apply NoDup_map_in; [|apply seq_NoDup].
    intros x y Hx Hy E. apply in_seq in Hx. apply in_seq in Hy.
    apply (f_equal val) in E. rewrite !val_small in E by lia. lia.
  Qed.

  Lemma nzl_length : Z.of_nat (length nzl) = q - 1.
  Proof. unfold nzl. rewrite map_length, seq_length. lia. Qed.

  Lemma zmul_cancel_l (a x y : F) : a <> zzero -> zmul a x = zmul a y -> x = y.
  Proof.
    intros Ha E. assert (E' : zmul a (zsub x y) = zzero) by (transitivity (zsub (zmul a x) (zmul a y)); [ring | rewrite E; ring]).
    apply (zmul_eq_0 q q_prime) in E'. destruct E' as [E'|E']; [contradiction|].
    transitivity (zadd (zsub x y) y); [ring | rewrite E'; ring].
  Qed.

  Theorem fermat_little (a : F) : a <> zzero -> zpow a (q - 1) = zone.
  Proof.
    intros Ha.
    assert (P : Permutation nzl (map (zmul a) nzl)).
    { apply NoDup_Permutation_bis.
      - exact nzl_nodup.
      - rewrite map_length. lia.
      - intros x Hx. apply nzl_in in Hx.
        (* x = a * (a^-1 * x) *)
        apply in_map_iff. exists (zmul (zinv a) x). split.
        + field. exact Ha.
        + apply nzl_in. intros E. apply (zmul_eq_0 q q_prime) in E. destruct E as [E|E]; [|contradiction].
          pose proof (zinv_l q q_prime a Ha) as I. rewrite E in I.
          apply (zone_neq_zzero q q_prime). rewrite <- I. ring. }
    apply prod_perm in P. rewrite prod_map_mul, nzl_length in P.
    assert (Pnz : prod nzl <> zzero) by (apply prod_nonzero; intros x Hx; apply nzl_in; exact Hx).
    apply (zmul_cancel_l (prod nzl)); [exact Pnz|].
    transitivity (zmul (zpow a (q - 1)) (prod nzl)); [ring | rewrite <- P; ring].
  Qed.

  Lemma zinv_unique (a x : F) : zmul x a = zone -> x = zinv a.
  Proof.
    intros E. assert (Ha : a <> zzero).
    { intros Z0. rewrite Z0 in E. apply (zone_neq_zzero q q_prime). rewrite <- E. ring. }
    pose proof (zinv_l q q_prime a Ha) as I.
    transitivity (zmul x (zmul a (zinv a))).
    - transitivity (zmul x zone); [ring|]. f_equal. rewrite <- I. ring.
    - transitivity (zmul (zmul x a) (zinv a)); [ring|]. rewrite E. ring.
  Qed.

  (* the Fermat inversion as coded (ladder over the nbits low bits of q-2) is
     the modular inverse computed by extended Euclid *)
  Theorem inv_fermat_spec nbits (a : F) :
    q < 2 ^ Z.of_nat nbits -> a <> zzero -> inv_fermat nbits a = zinv a.
  Proof.
    intros Hq Ha. unfold inv_fermat. rewrite ladder_correct by lia.
    apply zinv_unique. replace (q - 1) with ((q - 2) + 1) in * by lia.
    pose proof (fermat_little a Ha) as Fl. replace (q - 1) with ((q - 2) + 1) in Fl by lia.
    rewrite zpow_succ in Fl by lia. rewrite <- Fl. ring.
  Qed.

  (* on 0 the ladder returns 0 (q > 2), like big.Int-free code paths do *)
  Lemma zpow_zero e : 0 < e -> zpow zzero e = (zzero : F).
  Proof.
    intros He. replace e with ((e - 1) + 1) by lia. rewrite zpow_succ by lia. ring.
  Qed.
End Pow.

Arguments zpow {q} a e.
