(* Theorems of property C02 over the scalar model Scalar/ScalarSM.v: every
   operation, as coded per implementation, is the operation on integers modulo
   q; results are canonical; SetBytes of ANY byte string is decode-then-reduce;
   SetInt64 of ANY integer is v mod q; Equal is equality of residues; Pick is in
   range and a function of the consumed bytes only. *)
From Coq Require Import ZArith Znumtheory List Bool Lia Ring Field.
From Kyber Require Import Algebra.Zq Xof.XofSM Xof.XofProofs Codec.Bytes Codec.BytesProofs
  Scalar.ScalarSM Scalar.Fermat.
Import ListNotations.
Local Open Scope Z_scope.

(* ------------------------------------------------------------------ *)
(* random.Bits / random.Int depend on the consumed prefix only *)

Lemma bits_prefix bl ex s b rest :
  bits bl ex s = Some (b, rest) ->
  s = firstn (Z.to_nat ((bl + 7) / 8)) s ++ rest /\
  forall rest2, bits bl ex (firstn (Z.to_nat ((bl + 7) / 8)) s ++ rest2) = Some (b, rest2).
Proof.
  unfold bits. remember (Z.to_nat ((bl + 7) / 8)) as n eqn:En.
  destruct (Nat.ltb_spec (length s) n) as [|L]; [discriminate|]. intros H.
  remember (firstn n s) as c eqn:Ec.
  assert (Hc : length c = n) by (subst c; apply firstn_length_le; exact L).
  assert (R : rest = skipn n s) by (destruct c; inversion H; reflexivity).
  split.
  - rewrite R, Ec. symmetry. apply firstn_skipn.
  - intros rest2. rewrite app_length.
    destruct (Nat.ltb_spec (length c + length rest2) n) as [|_]; [lia|].
    assert (F : firstn n (c ++ rest2) = c).
    { rewrite firstn_app, Hc, Nat.sub_diag. cbn [firstn]. rewrite app_nil_r. rewrite <- Hc. apply firstn_all. }
    assert (S : skipn n (c ++ rest2) = rest2).
    { rewrite skipn_app, Hc, Nat.sub_diag. cbn [skipn]. rewrite <- Hc, skipn_all. reflexivity. }
    rewrite F, S. destruct c; inversion H; subst; reflexivity.
Qed.

Lemma rand_int_prefix : forall fuel m s v rest,
    rand_int fuel m s = Some (v, rest) ->
    exists c, s = c ++ rest /\ forall rest2, rand_int fuel m (c ++ rest2) = Some (v, rest2).
Proof.
  induction fuel as [|f IH]; intros m s v rest H; [discriminate|].
  cbn [rand_int] in H.
  destruct (bits (bitlen_of m) false s) as [[b r]|] eqn:Eb; [|discriminate].
  destruct (bits_prefix _ _ _ _ _ Eb) as [Hs Hp].
  set (c0 := firstn (Z.to_nat ((bitlen_of m + 7) / 8)) s) in *.
  destruct (Z.ltb_spec (be_decode b) m) as [Hlt|Hge].
  - inversion H; subst v rest; clear H. exists c0. split; [exact Hs|].
    intros rest2. cbn [rand_int]. rewrite Hp.
    destruct (Z.ltb_spec (be_decode b) m); [reflexivity|lia].
  - destruct (IH m r v rest H) as (c1 & Hr & Hp1). exists (c0 ++ c1). split.
    + rewrite <- app_assoc, <- Hr. exact Hs.
    + intros rest2. cbn [rand_int]. rewrite <- app_assoc, Hp.
      destruct (Z.ltb_spec (be_decode b) m); [lia|]. apply Hp1.
Qed.

(* ------------------------------------------------------------------ *)
Section Proofs.
  Variable q : Z.
  Hypothesis q_prime : prime q.
  Add Field zqF2 : (zq_field q q_prime).
  Notation F := (zq q).

  Let q_ge_2 : 2 <= q := prime_ge_2 q q_prime.

  (* canonical reduced form: holds for every value of the model type, hence for
     every result of every operation *)
  Theorem canonical (a : F) : 0 <= val a < q.
  Proof. apply val_range. lia. Qed.

  Theorem val_zero_one : val (zzero : F) = 0 /\ val (zone : F) = 1.
  Proof.
    unfold zzero, zone. rewrite !val_of_Z. split; [apply Z.mod_0_l | apply Z.mod_1_l]; lia.
  Qed.

  Lemma val_zero_eq (a : F) : val a = 0 -> a = zzero.
  Proof. intros E. apply zq_eq. rewrite E. symmetry. apply val_zero_one. Qed.

  (* the values: what each operation computes on the integers *)
  Theorem op_values (a b : F) :
    val (zadd a b) = (val a + val b) mod q /\
    val (zsub a b) = (val a - val b) mod q /\
    val (zmul a b) = (val a * val b) mod q /\
    val (zopp a) = (- val a) mod q /\
    (a <> zzero -> (val a * val (zinv a)) mod q = 1) /\
    (b <> zzero -> (val (zdiv a b) * val b) mod q = val a).
  Proof.
    repeat split; try reflexivity.
    - intros Ha. pose proof (zinv_l q q_prime a Ha) as I. apply (f_equal val) in I.
      unfold zmul in I. rewrite val_of_Z in I. rewrite Z.mul_comm, I. apply val_zero_one.
    - intros Hb. assert (E : zmul (zdiv a b) b = a) by (field; exact Hb).
      apply (f_equal val) in E. exact E.
  Qed.

  Theorem neg_impl_spec i (a : F) : neg_impl i a = zopp a.
  Proof.
    destruct i; cbn [neg_impl]; try ring.
    destruct (Z.ltb_spec 0 (val a)) as [|Hz]; [ring|].
    pose proof (canonical a). rewrite (val_zero_eq a) by lia. ring.
  Qed.

  Theorem inv_impl_spec i (a : F) : q < 2 ^ 256 -> a <> zzero -> inv_impl i a = zinv a.
  Proof.
    intros Hq Ha. destruct i; cbn [inv_impl]; try reflexivity;
      apply (inv_fermat_spec q q_prime 256 a); try exact Ha; exact Hq.
  Qed.

  Theorem div_impl_spec i (a b : F) : q < 2 ^ 256 -> b <> zzero -> div_impl i a b = zdiv a b.
  Proof.
    intros Hq Hb. unfold zdiv. destruct i; cbn [div_impl]; rewrite inv_impl_spec by assumption; ring.
  Qed.

  (* C02, arithmetic clause: every operation, as coded for every implementation,
     is exactly the operation on integers modulo q; Inv and Div for non-zero
     divisors *)
  Theorem op_impl_spec i o (a b : F) :
    q < 2 ^ 256 ->
    (o = ODiv -> b <> zzero) -> (o = OInv -> a <> zzero) ->
    op_impl i o a b = op_spec o a b.
  Proof.
    intros Hq Hd Hi. destruct o; cbn [op_impl op_spec]; try reflexivity.
    - apply div_impl_spec; auto.
    - apply neg_impl_spec.
    - apply inv_impl_spec; auto.
  Qed.

  (* mod.Int and gnark do not need the 256-bit bound (no ladder) *)
  Theorem op_impl_spec_euclid i o (a b : F) :
    i = IMod \/ i = IGnark ->
    (o = ODiv -> b <> zzero) -> (o = OInv -> a <> zzero) ->
    op_impl i o a b = op_spec o a b.
  Proof.
    intros Hi Hd Hv. destruct o; cbn [op_impl op_spec]; try reflexivity.
    - unfold zdiv. destruct Hi; subst i; cbn [div_impl inv_impl]; ring.
    - apply neg_impl_spec.
    - destruct Hi; subst i; reflexivity.
  Qed.

  (* SetBytes: ANY byte string, reduced positional value *)
  Theorem set_bytes_spec bo bs :
    val (set_bytes q bo bs) =
      (match bo with LE => le_decode bs | BE => le_decode (rev bs) end) mod q /\
    0 <= val (set_bytes q bo bs) < q.
  Proof.
    split; [|apply canonical]. unfold set_bytes. rewrite val_of_Z.
    destruct bo; [rewrite decode_LE | rewrite decode_BE]; reflexivity.
  Qed.

  (* SetInt64: v mod q for every integer, negative included (Z.modulo with a
     positive modulus is the non-negative residue) *)
  Theorem of_int64_spec i v : val (of_int64_impl q i v) = v mod q /\ 0 <= v mod q < q.
  Proof.
    split; [|apply Z.mod_pos_bound; lia].
    destruct i; cbn [of_int64_impl]; try apply val_of_Z.
    destruct (Z.leb_spec 0 v); [apply val_of_Z|].
    unfold zopp. rewrite !val_of_Z. rewrite <- (Z.opp_involutive v) at 2.
    rewrite <- (Zminus_mod_idemp_r 0 (- v)). reflexivity.
  Qed.

  (* Equal coincides with equality of residues *)
  Theorem equal_impl_spec i (a b : F) :
    q <= 2 ^ 256 -> (equal_impl i a b = true <-> val a = val b).
  Proof.
    intros Hq. destruct i; cbn [equal_impl]; try (unfold zeqb; apply Z.eqb_eq).
    rewrite list_eqb_eq. unfold marshal. cbn [mlen]. split.
    - apply encode_inj; change (256 ^ Z.of_nat 32) with (2 ^ 256);
        [pose proof (canonical a) | pose proof (canonical b)]; lia.
    - intros ->. reflexivity.
  Qed.

  Corollary equal_impl_eq i (a b : F) : q <= 2 ^ 256 -> (equal_impl i a b = true <-> a = b).
  Proof. intros Hq. rewrite equal_impl_spec by exact Hq. symmetry. apply zq_eq_iff. Qed.

  (* Pick *)
  Theorem pick_spec i fuel s r rest :
    Forall is_byte s -> pick_impl q i fuel s = Some (r, rest) ->
    0 <= val r < q /\
    exists consumed,
      s = consumed ++ rest /\
      (forall rest2, pick_impl q i fuel (consumed ++ rest2) = Some (r, rest2)) /\
      (i <> ICircl ->
       exists k : nat,
         cand q s k = Some (val r) /\
         (forall j, (j < k)%nat -> exists c, cand q s j = Some c /\ q <= c) /\
         rest = skipn ((k + 1) * Z.to_nat ((bitlen_of q + 7) / 8)) s).
  Proof.
    intros Hs H. split; [apply canonical|]. unfold pick_impl in H.
    destruct (rand_int fuel q s) as [[v r0]|] eqn:E; [|discriminate].
    injection H as Hr Hr0. subst r0.
    destruct (rand_int_prefix _ _ _ _ _ E) as (c & Hc & Hp).
    exists c. split; [exact Hc|]. split.
    - intros rest2. unfold pick_impl. rewrite Hp. rewrite Hr. reflexivity.
    - intros Hi. destruct (rand_int_spec fuel q s v rest ltac:(lia) Hs E) as (Hv & k & Hrej & Hacc & Hrest).
      exists k. assert (Ev : val r = v).
      { rewrite <- Hr. destruct i; try contradiction; rewrite val_of_Z; apply Z.mod_small; exact Hv. }
      rewrite Ev. auto.
  Qed.
End Proofs.

(* the specification of the limb functions: a canonical 32-byte encoding of the
   residue, for all inputs *)
Theorem limb_spec_canonical f a b c :
  length (limb_spec f a b c) = 32%nat /\
  0 <= le_decode (limb_spec f a b c) < q_ed25519 /\
  le_decode (limb_spec f a b c) =
    (match f with
     | LMulAdd => le_decode a * le_decode b + le_decode c
     | LAdd => le_decode a + le_decode c
     | LSub => le_decode a - le_decode c
     | LMul => le_decode a * le_decode b
     | LReduce => le_decode a
     end) mod q_ed25519.
Proof.
  unfold limb_spec. set (v := match f with LMulAdd => _ | LAdd => _ | LSub => _ | LMul => _ | LReduce => _ end).
  assert (Hq : 0 < q_ed25519) by (vm_compute; reflexivity).
  assert (Hq2 : q_ed25519 < 256 ^ Z.of_nat 32) by (vm_compute; reflexivity).
  pose proof (Z.mod_pos_bound v q_ed25519 Hq) as R.
  assert (E : le_decode (le_encode 32 (v mod q_ed25519)) = v mod q_ed25519).
  { rewrite le_decode_encode. apply Z.mod_small. lia. }
  split; [apply le_encode_length|]. rewrite E. split; [exact R | reflexivity].
Qed.

(* on reduced operands the specified results are the Z_q operations *)
Theorem limb_spec_zq (a b c : zq q_ed25519) :
  limb_spec LMulAdd (marshal IEd LE a) (marshal IEd LE b) (marshal IEd LE c) = marshal IEd LE (zadd (zmul a b) c) /\
  limb_spec LAdd (marshal IEd LE a) [] (marshal IEd LE c) = marshal IEd LE (zadd a c) /\
  limb_spec LSub (marshal IEd LE a) [] (marshal IEd LE c) = marshal IEd LE (zsub a c) /\
  limb_spec LMul (marshal IEd LE a) (marshal IEd LE b) [] = marshal IEd LE (zmul a b).
Proof.
  assert (Hq : 0 < q_ed25519) by (vm_compute; reflexivity).
  assert (Hq2 : q_ed25519 < 256 ^ Z.of_nat 32) by (vm_compute; reflexivity).
  assert (D : forall x : zq q_ed25519, le_decode (marshal IEd LE x) = val x).
  { intros x. unfold marshal. cbn [mlen encode]. rewrite le_decode_encode. apply Z.mod_small.
    pose proof (val_range q_ed25519 x Hq). lia. }
  unfold limb_spec. rewrite !D. cbn [le_decode]. unfold marshal, zadd, zsub, zmul. cbn [mlen encode].
  rewrite !val_of_Z. repeat split; f_equal.
  - rewrite Zplus_mod_idemp_l. reflexivity.
Qed.

(* ------------------------------------------------------------------ *)
(* the concrete orders satisfy the side conditions used above *)
Lemma orders_fit : q_ed25519 < 2 ^ 256 /\ q_bls12381 < 2 ^ 256 /\
                   bitlen_of (q_bls12381 - 1) = bitlen_of q_bls12381 /\
                   slen q_ed25519 = 32%nat /\ slen q_bls12381 = 32%nat.
Proof. vm_compute. repeat split. Qed.
