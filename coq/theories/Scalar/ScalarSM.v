(* Executable model of kyber's scalar implementations (property C02).

   All implementations are modelled over Algebra/Zq.v (canonical residues in
   [0,q)); what differs between them is modelled as coded:

   impl     kyber code                               differences that are modelled
   -------  ---------------------------------------  ------------------------------------------
   IEd      group/edwards25519/scalar.go             little endian; Neg = 0 - a (scSub);
                                                     Inv = square-and-multiply over the 256 bits
                                                     of L-2; Div = a * Inv b; Equal compares the
                                                     32-byte arrays
   IMod     group/mod/int.go over compatible.Int     either byte order; Neg = (a > 0 ? 0 - a : 0);
            (P-256, BN256, BN254, kilic, QR group)   Inv = big.Int.ModInverse (extended Euclid);
                                                     Div = a * ModInverse b
   ICircl   pairing/bls12381/circl/scalar.go         big endian; SetInt64 via |v| and Neg;
                                                     Inv = ladder over the 256 bits of q-2;
                                                     Div = Inv b * a; Pick = crypto/rand.Int
                                                     stored as a Montgomery residue
   IGnark   pairing/bls12381/gnark/scalar.go         big endian; Div = Inv b * a

   The 21-bit limb arithmetic of scMulAdd/scAdd/scSub/scMul/scReduce and the
   Montgomery arithmetic of the CIRCL / gnark libraries are NOT transcribed: the
   model states their specification ((a*b+c) mod L etc.) and the
   correspondence run compares it with the code byte for byte.

   Definitions only; proofs are in Scalar/ScalarProofs.v. *)
From Coq Require Import ZArith List Bool.
From Kyber Require Import Algebra.Zq Xof.XofSM Codec.Bytes.
Import ListNotations.
Local Open Scope Z_scope.

Inductive impl := IEd | IMod | ICircl | IGnark.

(* encoded length: mod.Int uses ceil(bitlen(q)/8); the three others are fixed
   32-byte encodings (their orders have 253 resp. 255 bits) *)
Definition slen (q : Z) : nat := Z.to_nat ((bitlen_of q + 7) / 8).
Definition mlen (i : impl) (q : Z) : nat :=
  match i with IMod => slen q | _ => 32%nat end.

Section Model.
  Variable q : Z.
  Notation F := (zq q).

  (* square-and-multiply exactly as coded: for every exponent bit, most
     significant first: square, then multiply when the bit is set *)
  Definition ladder_step (a : F) (r : F) (bit : bool) : F :=
    let r2 := zmul r r in if bit then zmul r2 a else r2.
  Definition ladder (bits : list bool) (a : F) : F := fold_left (ladder_step a) bits zone.

  (* bits n-1 .. 0 of e *)
  Definition bits_msb (n : nat) (e : Z) : list bool :=
    map (fun i => Z.testbit e (Z.of_nat i)) (rev (seq 0 n)).

  Definition inv_fermat (nbits : nat) (a : F) : F := ladder (bits_msb nbits (q - 2)) a.

  Definition inv_impl (i : impl) (a : F) : F :=
    match i with
    | IEd | ICircl => inv_fermat 256 a
    | IMod | IGnark => zinv a
    end.

  Definition neg_impl (i : impl) (a : F) : F :=
    match i with
    | IEd => zsub zzero a
    | IMod => if 0 <? val a then zsub zzero a else zzero
    | ICircl | IGnark => zopp a
    end.

  Definition div_impl (i : impl) (a b : F) : F :=
    match i with
    | IEd | IMod => zmul a (inv_impl i b)
    | ICircl | IGnark => zmul (inv_impl i b) a
    end.

  Definition of_int64_impl (i : impl) (v : Z) : F :=
    match i with
    | ICircl => if 0 <=? v then of_Z q v else zopp (of_Z q (- v))
    | _ => of_Z q v
    end.

  (* SetBytes: any length, the implementation's byte order, reduced mod q *)
  Definition set_bytes (bo : border) (bs : list Z) : F := of_Z q (decode bo bs).

  (* MarshalBinary of a reduced scalar *)
  Definition marshal (i : impl) (bo : border) (a : F) : list Z := encode bo (mlen i q) (val a).

  (* Equal: Ed25519 compares the stored 32-byte arrays, the others the values *)
  Definition equal_impl (i : impl) (a b : F) : bool :=
    match i with
    | IEd => list_eqb (marshal IEd LE a) (marshal IEd LE b)
    | _ => zeqb a b
    end.

  Inductive sop := OAdd | OSub | OMul | ODiv | ONeg | OInv | OZero | OOne.

  (* the receiver's new value after [s.Op(a, b)] ([b] ignored by unary ops) *)
  Definition op_impl (i : impl) (o : sop) (a b : F) : F :=
    match o with
    | OAdd => zadd a b
    | OSub => zsub a b
    | OMul => zmul a b
    | ODiv => div_impl i a b
    | ONeg => neg_impl i a
    | OInv => inv_impl i a
    | OZero => zzero
    | OOne => zone
    end.

  (* the operation on integers modulo q that the property names *)
  Definition op_spec (o : sop) (a b : F) : F :=
    match o with
    | OAdd => zadd a b
    | OSub => zsub a b
    | OMul => zmul a b
    | ODiv => zdiv a b
    | ONeg => zopp a
    | OInv => zinv a
    | OZero => zzero
    | OOne => zone
    end.

  (* Pick: rejection sampling of util/random.Int ([rand_int] of Xof/XofSM.v)
     over the key stream.  CIRCL draws with crypto/rand.Int (same candidates:
     bitlen(q-1) = bitlen(q) for an odd q > 1) and stores the integer as the
     Montgomery representation, i.e. the scalar is v * R^-1 with R = 2^256. *)
  Definition mont_rinv : Z := inv_mod q (2 ^ 256 mod q).
  Definition pick_impl (i : impl) (fuel : nat) (stream : list Z) : option (F * list Z) :=
    match rand_int fuel q stream with
    | Some (v, rest) =>
        Some (match i with
              | ICircl => of_Z q (v * mont_rinv)
              | _ => of_Z q v
              end, rest)
    | None => None
    end.
End Model.

Arguments ladder {q} bits a.
Arguments ladder_step {q} a r bit.
Arguments inv_fermat {q} nbits a.
Arguments inv_impl {q} i a.
Arguments neg_impl {q} i a.
Arguments div_impl {q} i a b.
Arguments marshal {q} i bo a.
Arguments equal_impl {q} i a b.
Arguments op_impl {q} i o a b.
Arguments op_spec {q} o a b.

(* the group orders of the implementations *)
Definition q_ed25519 : Z := 2 ^ 252 + 27742317777372353535851937790883648493.
Definition q_bls12381 : Z := 0x73eda753299d7d483339d80809a1d80553bda402fffe5bfeffffffff00000001.

(* Specification of the limb functions of group/edwards25519/scalar.go on raw
   little-endian byte arrays (32 bytes; 64 for scReduce's input), as stated in
   their header comments.  They are driven directly through the `verif` export
   hooks, on arbitrary (also unreduced) inputs.  The limb code itself is not
   transcribed. *)
Inductive limbfn := LMulAdd | LAdd | LSub | LMul | LReduce.
Definition limb_spec (f : limbfn) (a b c : list Z) : list Z :=
  let va := le_decode a in let vb := le_decode b in let vc := le_decode c in
  le_encode 32 ((match f with
                 | LMulAdd => va * vb + vc
                 | LAdd => va + vc
                 | LSub => va - vc
                 | LMul => va * vb
                 | LReduce => va
                 end) mod q_ed25519).
