(* Property C01 - group operations obey the abelian-group and scalar-action
   laws in every group, whichever internal path evaluates them.
   Statements only; proofs in theories/Group/{Laws,Recode}.v. *)
From Coq Require Import ZArith List Lia.
From Kyber Require Import Algebra.Zq Algebra.Grp Group.Laws Group.Recode.
Import ListNotations.
Local Open Scope Z_scope.

(* every identity of the property, for all operands, in the structure the
   implementation is compared with on every run (any modulus q) *)
Theorem C01_group_laws : forall q (P Q R a b : zq q),
    padd P pzero = P /\ padd pzero P = P /\
    padd P (pneg P) = pzero /\ psub P P = pzero /\
    padd P Q = padd Q P /\
    padd (padd P Q) R = padd P (padd Q R) /\
    psub P Q = padd P (pneg Q) /\
    smul (zadd a b) P = padd (smul a P) (smul b P) /\
    smul a (padd P Q) = padd (smul a P) (smul a Q) /\
    smul a (smul b P) = smul (zmul a b) P /\
    smul zzero P = pzero /\ smul zone P = P /\
    smul (of_Z q (q - 1)) P = pneg P /\
    smul a pzero = pzero.
Proof. exact group_laws. Qed.
Print Assumptions C01_group_laws.

(* signed radix-16 recoding of a 32-byte (any non-empty length) little-endian
   scalar with top bit clear: 2*len digits in [-8,8], value preserved *)
Theorem C01_recode16_sound : forall bytes,
    Forall is_byte bytes -> bytes <> [] -> last bytes 0 <= 127 ->
    le_val 16 (recode16 bytes) = le_val 256 bytes /\
    length (recode16 bytes) = (2 * length bytes)%nat /\
    Forall (fun d => -8 <= d <= 8) (recode16 bytes).
Proof. exact recode16_sound. Qed.
Print Assumptions C01_recode16_sound.

(* constant-time fixed-window path (geScalarMult): a.P for every scalar *)
Theorem C01_window_path : forall q bytes (P : zq q),
    Forall is_byte bytes -> bytes <> [] -> last bytes 0 <= 127 ->
    window q (rev (recode16 bytes)) P pzero = zsmul q (le_val 256 bytes) P.
Proof. exact ge_scalar_mult_correct. Qed.
Print Assumptions C01_window_path.

(* precomputed base-table path (geScalarMultBase) *)
Theorem C01_comb_path : forall q pairs (B : zq q), comb q pairs B = zsmul q (pairs_val pairs) B.
Proof. exact comb_mul_correct. Qed.
Print Assumptions C01_comb_path.

(* MSB-first double-and-add path (projPoint.Mul, bn256/bn254 curvePoint.Mul) *)
Theorem C01_double_and_add_path : forall q bits (P : zq q),
    dbl_add q bits P pzero = zsmul q (be_bits 0 bits) P.
Proof. exact double_and_add_correct. Qed.
Print Assumptions C01_double_and_add_path.

Example C01_nonvacuous :
  let bytes := [255; 128; 7; 127] in
  Forall is_byte bytes /\ last bytes 0 <= 127 /\
  recode16 bytes = [-1; 0; 1; -8; -8; 1; -1; 8] /\
  le_val 16 (recode16 bytes) = le_val 256 bytes /\
  val (window 251 (rev (recode16 bytes)) (of_Z 251 5) pzero) = (le_val 256 bytes * 5) mod 251.
Proof.
  cbv zeta. split; [repeat (constructor; [unfold is_byte; lia|]); constructor|].
  split; [vm_compute; discriminate|].
  split; [vm_compute; reflexivity|]. split; vm_compute; reflexivity.
Qed.
