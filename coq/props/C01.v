(* Property C01 - group operations obey the abelian-group and scalar-action
   laws in every group, whichever internal path evaluates them.
   Statements only; proofs in theories/Group/{Laws,Recode}.v. *)
From Coq Require Import ZArith List Lia.
From Kyber Require Import Algebra.Zq Algebra.Grp Group.Laws Group.Recode.
Import ListNotations.
Local Open Scope Z_scope.

(* every identity of the property, for all operands, in the structure the
   implementation is compared with on every run (any modulus q) *)
Theorem C01_group_laws : forall q (P Q R a b : zq q),
    padd P pzero = P /\ padd pzero P = P /\
    padd P (pneg P) = pzero /\ psub P P = pzero /\
    padd P Q = padd Q P /\
    padd (padd P Q) R = padd P (padd Q R) /\
    psub P Q = padd P (pneg Q) /\
    smul (zadd a b) P = padd (smul a P) (smul b P) /\
    smul a (padd P Q) = padd (smul a P) (smul a Q) /\
    smul a (smul b P) = smul (zmul a b) P /\
    smul zzero P = pzero /\ smul zone P = P /\
    smul (of_Z q (q - 1)) P = pneg P /\
    smul a pzero = pzero.
Proof. exact group_laws. Qed.
Print Assumptions C01_group_laws.

(* signed radix-16 recoding of a 32-byte (any non-empty length) little-endian
   scalar with top bit clear: 2*len digits in [-8,8], value preserved *)
Theorem C01_recode16_sound : forall bytes,
    Forall is_byte bytes -> bytes <> [] -> last bytes 0 <= 127 ->
    le_val 16 (recode16 bytes) = le_val 256 bytes /\
    length (recode16 bytes) = (2 * length bytes)%nat /\
    Forall (fun d => -8 <= d <= 8) (recode16 bytes).
Proof. exact recode16_sound. Qed.
Print Assumptions C01_recode16_sound.

(* constant-time fixed-window path (geScalarMult): a.P for every scalar *)
Theorem C01_window_path : forall q bytes (P : zq q),
    Forall is_byte bytes -> bytes <> [] -> last bytes 0 <= 127 ->
    window q (rev (recode16 bytes)) P pzero = zsmul q (le_val 256 bytes) P.
Proof. exact ge_scalar_mult_correct. Qed.
Print Assumptions C01_window_path.

(* precomputed base-table path (geScalarMultBase) *)
Theorem C01_comb_path : forall q pairs (B : zq q), comb q pairs B = zsmul q (pairs_val pairs) B.
Proof. exact comb_mul_correct. Qed.
Print Assumptions C01_comb_path.

(* MSB-first double-and-add path (projPoint.Mul, bn256/bn254 curvePoint.Mul) *)
Theorem C01_double_and_add_path : forall q bits (P : zq q),
    dbl_add q bits P pzero = zsmul q (be_bits 0 bits) P.
Proof. exact double_and_add_correct. Qed.
Print Assumptions C01_double_and_add_path.

Example C01_nonvacuous :
  let bytes := [255; 128; 7; 127] in
  Forall is_byte bytes /\ last bytes 0 <= 127 /\
  recode16 bytes = [-1; 0; 1; -8; -8; 1; -1; 8] /\
  le_val 16 (recode16 bytes) = le_val 256 bytes /\
  val (window 251 (rev (recode16 bytes)) (of_Z 251 5) pzero) = (le_val 256 bytes * 5) mod 251.
Proof.
  cbv zeta. split; [repeat (constructor; [unfold is_byte; lia|]); constructor|].
  split; [vm_compute; discriminate|].
  split; [vm_compute; reflexivity|]. split; vm_compute; reflexivity.
Qed.

(* ---- the curve arithmetic the byte-exact reference (and ge.go) uses: the affine
   twisted Edwards law over ANY field, and its extended-coordinate refinement.
   Closure, identity, inverse, commutativity AND associativity are proved; the
   non-vanishing of the denominators is a premise throughout (for Ed25519 it
   follows from d being a non-square, which is not proved here:
   CurveRef_ModuleLaws_partial). *)
From Coq Require Import Field.
From Kyber Require Import CurveRef.Field CurveRef.Edwards CurveRef.EdwardsAlg.

Theorem C01_edwards_closed :
  forall F zero one add mul sub opp div inv,
    field_theory zero one add mul sub opp div inv (@eq F) ->
    forall d x1 y1 x2 y2,
      on_curve F one add mul sub d x1 y1 -> on_curve F one add mul sub d x2 y2 ->
      add one (mul (mul (mul (mul d x1) x2) y1) y2) <> zero ->
      sub one (mul (mul (mul (mul d x1) x2) y1) y2) <> zero ->
      on_curve F one add mul sub d (fst (aff_add F one add mul sub div d (x1, y1) (x2, y2)))
                                   (snd (aff_add F one add mul sub div d (x1, y1) (x2, y2))).
Proof. intros F zero one add mul sub opp div inv Fth. exact (edwards_closed F zero one add mul sub opp div inv Fth). Qed.
Print Assumptions C01_edwards_closed.

Theorem C01_edwards_comm_identity_inverse :
  forall F zero one add mul sub opp div inv,
    field_theory zero one add mul sub opp div inv (@eq F) ->
    forall d,
      (forall p q, aff_add F one add mul sub div d p q = aff_add F one add mul sub div d q p) /\
      (forall x y, aff_add F one add mul sub div d (x, y) (zero, one) = (x, y)) /\
      (forall x y, on_curve F one add mul sub d x y ->
         add one (mul (mul (mul (mul d x) (opp x)) y) y) <> zero ->
         sub one (mul (mul (mul (mul d x) (opp x)) y) y) <> zero ->
         aff_add F one add mul sub div d (x, y) (aff_neg F opp (x, y)) = (zero, one)).
Proof.
  intros F zero one add mul sub opp div inv Fth d. split; [|split].
  - exact (edwards_comm F zero one add mul sub opp div inv Fth d).
  - exact (edwards_identity F zero one add mul sub opp div inv Fth d).
  - exact (edwards_inverse F zero one add mul sub opp div inv Fth d).
Qed.
Print Assumptions C01_edwards_comm_identity_inverse.

Theorem C01_ext_add_refines :
  forall F zero one add mul sub opp div inv,
    field_theory zero one add mul sub opp div inv (@eq F) ->
    forall d, add one one <> zero ->
    forall p q x1 y1 x2 y2,
      represents F zero mul p x1 y1 -> represents F zero mul q x2 y2 ->
      add one (mul (mul (mul (mul d x1) x2) y1) y2) <> zero ->
      sub one (mul (mul (mul (mul d x1) x2) y1) y2) <> zero ->
      represents F zero mul (ed_add (aops F zero one add mul sub opp) (aK F zero add d) p q)
                 (fst (aff_add F one add mul sub div d (x1, y1) (x2, y2)))
                 (snd (aff_add F one add mul sub div d (x1, y1) (x2, y2))).
Proof. intros F zero one add mul sub opp div inv Fth d. exact (ext_add_refines F zero one add mul sub opp div inv Fth d). Qed.
Print Assumptions C01_ext_add_refines.

Theorem C01_edwards_assoc :
  forall F zero one add mul sub opp div inv,
    field_theory zero one add mul sub opp div inv (@eq F) ->
    forall d x1 y1 x2 y2 x3 y3,
      on_curve F one add mul sub d x1 y1 -> on_curve F one add mul sub d x2 y2 -> on_curve F one add mul sub d x3 y3 ->
      let A := aff_add F one add mul sub div d in
      let den_p := fun (p q : F * F) => add one (mul (mul (mul (mul d (fst p)) (fst q)) (snd p)) (snd q)) in
      let den_m := fun (p q : F * F) => sub one (mul (mul (mul (mul d (fst p)) (fst q)) (snd p)) (snd q)) in
      den_p (x2, y2) (x3, y3) <> zero -> den_m (x2, y2) (x3, y3) <> zero ->
      den_p (x1, y1) (x2, y2) <> zero -> den_m (x1, y1) (x2, y2) <> zero ->
      den_p (x1, y1) (A (x2, y2) (x3, y3)) <> zero -> den_m (x1, y1) (A (x2, y2) (x3, y3)) <> zero ->
      den_p (A (x1, y1) (x2, y2)) (x3, y3) <> zero -> den_m (A (x1, y1) (x2, y2)) (x3, y3) <> zero ->
      A (x1, y1) (A (x2, y2) (x3, y3)) = A (A (x1, y1) (x2, y2)) (x3, y3).
Proof.
  intros F zero one add mul sub opp div inv Fth d x1 y1 x2 y2 x3 y3 H1 H2 H3 A den_p den_m.
  exact (edwards_assoc F zero one add mul sub opp div inv Fth d x1 y1 x2 y2 x3 y3 H1 H2 H3).
Qed.
Print Assumptions C01_edwards_assoc.

(* the endomorphism-split path of bn254 G1 (lattice.go decompose/round, as coded):
   for EVERY scalar the two sub-scalars are positive, shorter than 130 bits and
   recombine to the scalar; Multi() may therefore read their bits *)
From Kyber Require Import Group.GLV.
Theorem C01_glv_split_path : forall k, 0 <= k < bn254_r ->
  let '(k1, k2) := glv_decompose k in
  0 < k1 < 2 ^ 130 /\ 0 < k2 < 2 ^ 130 /\
  (k1 + k2 * glv_lambda) mod bn254_r = k mod bn254_r.
Proof. exact glv_decompose_correct. Qed.
Print Assumptions C01_glv_split_path.

(* ---- the variable-time sliding-window path (ge_mult_vartime.go: slide and
   geScalarMultVartime): the recoding is sound for every scalar below 2^255
   (digits zero or odd with |d| <= 15, value preserved; proved for the literal
   index-based transcription slide_go as well) and the table-based evaluation
   computes a.A *)
From Kyber Require Import Group.Slide.

Theorem C01_slide_sound : forall bytes,
  Forall is_byte bytes -> bytes <> [] -> last bytes 0 <= 127 ->
  le_val 2 (slide_go bytes) = le_val 256 bytes /\
  length (slide_go bytes) = (8 * length bytes)%nat /\
  Forall digit_ok (slide_go bytes).
Proof. exact slide_go_sound. Qed.
Print Assumptions C01_slide_sound.

Theorem C01_vartime_path : forall q bytes (A : zq q),
    Forall is_byte bytes -> bytes <> [] -> last bytes 0 <= 127 ->
    ge_scalar_mult_vartime q bytes A = zsmul q (le_val 256 bytes) A.
Proof. exact ge_scalar_mult_vartime_correct. Qed.
Print Assumptions C01_vartime_path.

(* ---- the reference curve itself: over GF(2^255-19) (primality PROVED by a
   Pocklington certificate, Algebra/PrimesEd.v), with d a proved non-square, the
   affine law is complete and the curve points form a commutative group with no
   premise left; the extended-coordinate ladder of CurveRef computes the k-fold
   sum; the 32-byte encoding is injective on curve points. *)
From Kyber Require Import Decode.DecodeSM Decode.DecodeInst CurveRef.EdComplete CurveRef.EdDecode.

Theorem C01_ed25519_reference_group :
    ed_on_curve_pt (zzero, zone) /\
    (forall p q, ed_on_curve_pt p -> ed_on_curve_pt q -> ed_on_curve_pt (Ed_padd p q)) /\
    (forall p, ed_on_curve_pt p -> ed_on_curve_pt (Ed_pneg p)) /\
    (forall p q r, ed_on_curve_pt p -> ed_on_curve_pt q -> ed_on_curve_pt r ->
                   Ed_padd p (Ed_padd q r) = Ed_padd (Ed_padd p q) r) /\
    (forall p, Ed_padd p (zzero, zone) = p) /\
    (forall p, Ed_padd (zzero, zone) p = p) /\
    (forall p, ed_on_curve_pt p -> Ed_padd p (Ed_pneg p) = (zzero, zone)) /\
    (forall p, ed_on_curve_pt p -> Ed_padd (Ed_pneg p) p = (zzero, zone)) /\
    (forall p q, Ed_padd p q = Ed_padd q p).
Proof. exact Ed25519_group. Qed.
Print Assumptions C01_ed25519_reference_group.

Theorem C01_ed25519_reference_ladder : forall k P a,
  ed_valid P a -> ed_valid (ed_mul OEd KEd k P) (ed_nmul (Z.to_nat k) a).
Proof. exact Ed25519_mul_spec. Qed.
Print Assumptions C01_ed25519_reference_ladder.

(* ---- object identity in the program model the correspondence run executes:
   an operation whose receiver is an EXISTING object changes that object to the
   value the operation would have produced in a fresh receiver, and nothing
   else - no other point of the pool, no scalar.  The implementation is held to
   this (hidden sharing between objects shows as a different partition). *)
From Kyber Require Import Group.GrpProg Group.GrpProgFacts.

Theorem C01_overwrite_touches_only_receiver : forall q (s : state q) (o : op) (g d : Z),
    pushes_to o g -> 0 <= d -> (Z.to_nat d < length (pool q s g))%nat ->
    let s' := step q s (OPInto g d o) in
    get q (pool q s' g) d = get q (pool q (step q s o) g) (Z.of_nat (length (pool q s g))) /\
    (forall i, 0 <= i -> i <> d -> get q (pool q s' g) i = get q (pool q s g) i) /\
    length (pool q s' g) = length (pool q s g) /\
    sc q s' = sc q s.
Proof. exact overwrite_touches_only_receiver. Qed.
Print Assumptions C01_overwrite_touches_only_receiver.

(* ---- the dlog model of Algebra/Grp.v IS the subgroup generated by the Ed25519
   base point (CurveRef/EdOrder.v).  L.B = (0,1) is obtained by running the
   extended-coordinate ladder of the reference model over zq (2^255-19) itself
   (vm_compute, about 30 s, no BigZ) and transporting the result through
   C01_ed25519_reference_ladder, so the statement is about the iterated affine
   law; L is prime (Pocklington), B <> (0,1), hence the order of B is exactly L.
   Ed_phi k = (val k).B is an injective homomorphism from zq L (the dlog model at
   q = L) to the curve group that carries every operation of Algebra/Grp.v to the
   corresponding curve operation; the executable reference operations refine it;
   the small-order points (0,-1) and (sqrt(-1),0) are on the curve and outside
   the image. *)
From Kyber Require Import CurveRef.EdOrder.

Theorem C01_ed25519_base_point_order :
  ed_L = 2 ^ 252 + 27742317777372353535851937790883648493 /\ Znumtheory.prime ed_L /\
  ed_on_curve_pt Ed_B /\ Ed_B <> (zzero, zone) /\
  (zmul (snd Ed_B) (of_Z ed_p 5) = of_Z ed_p 4 /\ val (fst Ed_B) mod 2 = 0) /\
  ed_nmul (Z.to_nat ed_L) Ed_B = (zzero, zone) /\
  ed_valid (ed_mul OEd KEd ed_L (ed_base OEd KEd)) (zzero, zone) /\
  (forall n : nat, ed_nmul n Ed_B = (zzero, zone) <-> (ed_L | Z.of_nat n)) /\
  (forall k : Z, Ed_zmul k Ed_B = (zzero, zone) <-> (ed_L | k)).
Proof. exact Ed25519_base_point_order. Qed.
Print Assumptions C01_ed25519_base_point_order.

Theorem C01_ed25519_dlog_model_faithful :
  (forall a : zq ed_L, ed_on_curve_pt (Ed_phi a)) /\
  Ed_phi pzero = (zzero, zone) /\
  Ed_phi pbase = Ed_B /\
  (forall a b, Ed_phi (padd a b) = Ed_padd (Ed_phi a) (Ed_phi b)) /\
  (forall a, Ed_phi (pneg a) = Ed_pneg (Ed_phi a)) /\
  (forall a b, Ed_phi (psub a b) = Ed_padd (Ed_phi a) (Ed_pneg (Ed_phi b))) /\
  (forall s a, Ed_phi (smul s a) = ed_nmul (Z.to_nat (val s)) (Ed_phi a)) /\
  (forall l, Ed_phi (psum l) = fold_right (fun P acc => Ed_padd P acc) (zzero, zone) (map Ed_phi l)) /\
  (forall cs ps, Ed_phi (lincomb cs ps) =
      fold_right (fun P acc => Ed_padd P acc) (zzero, zone)
        (map (fun cp => ed_nmul (Z.to_nat (val (fst cp))) (Ed_phi (snd cp))) (combine cs ps))) /\
  (forall a b, Ed_phi a = Ed_phi b -> a = b) /\
  (forall a b, peqb a b = true <-> Ed_phi a = Ed_phi b) /\
  (forall k : Z, Ed_phi (of_Z ed_L k) = Ed_zmul k Ed_B).
Proof. exact ed25519_dlog_model_faithful. Qed.
Print Assumptions C01_ed25519_dlog_model_faithful.

(* the executable reference operations, on ANY extended-coordinate representations
   of Ed_phi-values, compute Ed_phi of the dlog-model operation; the projective
   equality test and the 32-byte encoding decide equality of logarithms *)
Theorem C01_ed25519_dlog_model_refined_by_reference :
  ed_valid (ed_zero OEd) (Ed_phi pzero) /\
  ed_valid (ed_base OEd KEd) (Ed_phi pbase) /\
  (forall P Q a b, ed_valid P (Ed_phi a) -> ed_valid Q (Ed_phi b) ->
     ed_valid (ed_add OEd KEd P Q) (Ed_phi (padd a b))) /\
  (forall P a, ed_valid P (Ed_phi a) -> ed_valid (ed_neg OEd P) (Ed_phi (pneg a))) /\
  (forall P Q a b, ed_valid P (Ed_phi a) -> ed_valid Q (Ed_phi b) ->
     ed_valid (ed_add OEd KEd P (ed_neg OEd Q)) (Ed_phi (psub a b))) /\
  (forall P s a, ed_valid P (Ed_phi a) ->
     ed_valid (ed_mul OEd KEd (val s) P) (Ed_phi (smul s a))) /\
  (forall s : zq ed_L, ed_valid (ed_mul OEd KEd (val s) (ed_base OEd KEd)) (Ed_phi s)) /\
  (forall P Q a b, ed_valid P (Ed_phi a) -> ed_valid Q (Ed_phi b) ->
     (ed_eqb OEd P Q = true <-> a = b)) /\
  (forall P Q a b, ed_valid P (Ed_phi a) -> ed_valid Q (Ed_phi b) ->
     (ed_encode OEd P = ed_encode OEd Q <-> a = b)).
Proof. exact ed25519_dlog_model_refined_by_reference. Qed.
Print Assumptions C01_ed25519_dlog_model_refined_by_reference.

Theorem C01_ed25519_encoding_separates_logarithms : forall a b : zq ed_L,
  ed_encode_xy OEd (fst (Ed_phi a)) (snd (Ed_phi a)) = ed_encode_xy OEd (fst (Ed_phi b)) (snd (Ed_phi b)) ->
  a = b.
Proof. exact Ed_phi_encode_inj. Qed.
Print Assumptions C01_ed25519_encoding_separates_logarithms.

(* the small-order points the EdDSA torsion clauses are about *)
Theorem C01_ed25519_small_order_points :
  ed_on_curve_pt Ed_T2 /\ ed_nmul 2 Ed_T2 = (zzero, zone) /\ Ed_T2 <> (zzero, zone) /\
  (forall k, Ed_phi k <> Ed_T2) /\
  ed_on_curve_pt Ed_T4 /\ ed_nmul 4 Ed_T4 = (zzero, zone) /\ ed_nmul 2 Ed_T4 = Ed_T2 /\
  Ed_T4 <> (zzero, zone) /\ (forall k, Ed_phi k <> Ed_T4) /\
  (forall k : zq ed_L, ed_nmul (Z.to_nat ed_L) (Ed_phi k) = (zzero, zone)).
Proof. exact Ed25519_small_order_points. Qed.
Print Assumptions C01_ed25519_small_order_points.

Theorem C01_ed25519_torsion8_not_multiple_of_base : forall P,
  ed_nmul 8 P = (zzero, zone) -> P <> (zzero, zone) -> forall k, Ed_phi k <> P.
Proof. exact Ed25519_torsion8_not_in_image. Qed.
Print Assumptions C01_ed25519_torsion8_not_multiple_of_base.

(* the definitions used in the statements above, spelled out *)
Theorem C01_ed25519_order_definitions :
  Ed_B = (eX (ed_base OEd KEd), eY (ed_base OEd KEd)) /\
  (forall k : zq ed_L, Ed_phi k = ed_nmul (Z.to_nat (val k)) Ed_B) /\
  (forall (k : Z) (a : zq ed_p * zq ed_p), Ed_zmul k a =
     (if k <? 0 then Ed_pneg (ed_nmul (Z.to_nat (- k)) a) else ed_nmul (Z.to_nat k) a)) /\
  (forall a : zq ed_p * zq ed_p, ed_nmul 0 a = (zzero, zone)) /\
  (forall n (a : zq ed_p * zq ed_p), ed_nmul (S n) a = Ed_padd a (ed_nmul n a)) /\
  Ed_T2 = (zzero, zopp zone) /\ Ed_T4 = (c_sqrtm1 KEd, zzero) /\
  zmul (c_sqrtm1 KEd) (c_sqrtm1 KEd) = zopp (@zone ed_p).
Proof. exact Ed25519_order_definitions. Qed.
Print Assumptions C01_ed25519_order_definitions.
