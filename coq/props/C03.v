(* Property C03 - point and scalar encodings are fixed-length, canonical and
   round-trip.  Only statements, each closed by [exact]; proofs are in
   theories/Codec/{BytesProofs,EncProofs}.v.

   Scalars are modelled at the byte level (Codec/EncSM.v: MarshalBinary,
   UnmarshalBinary, MarshalTo, UnmarshalFrom and the hex helpers as coded, for
   the four code paths Ed25519 / mod.Int / CIRCL / gnark).  Points have no
   byte-exact model here: the theorems C03_point_* are about the abstract
   contract (advertised length + decode(encode P) = P), which is what the
   correspondence run checks of the code, with the discrete-logarithm model
   deciding which computed values are the same point. *)
From Coq Require Import ZArith Znumtheory List Bool.
From Kyber Require Import Algebra.Zq Algebra.Grp Xof.XofSM Xof.XofProofs Codec.Bytes Codec.BytesProofs
  Scalar.ScalarSM Codec.EncSM Codec.EncProofs.
Import ListNotations.
Local Open Scope Z_scope.

(* side condition on the byte order of the fixed-width implementations *)
Definition bo_ok (i : impl) (bo : border) : Prop :=
  match i with IEd => bo = LE | ICircl | IGnark => bo = BE | IMod => True end.

(* ---------------- byte codecs: all lengths, all values ---------------- *)
Theorem C03_codec_length : forall bo n v, length (encode bo n v) = n.
Proof. exact encode_length. Qed.
Print Assumptions C03_codec_length.

Theorem C03_codec_roundtrip : forall bo n v, 0 <= v < 256 ^ Z.of_nat n -> decode bo (encode bo n v) = v.
Proof. exact decode_encode. Qed.
Print Assumptions C03_codec_roundtrip.

Theorem C03_codec_reencode : forall bo bs, Forall is_byte bs -> encode bo (length bs) (decode bo bs) = bs.
Proof. exact encode_decode. Qed.
Print Assumptions C03_codec_reencode.

Theorem C03_codec_injective : forall bo n a b,
  0 <= a < 256 ^ Z.of_nat n -> 0 <= b < 256 ^ Z.of_nat n -> encode bo n a = encode bo n b -> a = b.
Proof. exact encode_inj. Qed.
Print Assumptions C03_codec_injective.

(* mod.Int.MarshalBinary as coded (minimal big.Int bytes, then left padding /
   reversal into a zeroed buffer) is the fixed-width encoding, incl. values
   with leading zero bytes and 0 *)
Theorem C03_codec_padding : forall bo n v, 0 <= v < 256 ^ Z.of_nat n -> pad_encode bo n v = Some (encode bo n v).
Proof. exact pad_encode_spec. Qed.
Print Assumptions C03_codec_padding.

(* the advertised length always suffices for mod.Int; 32 bytes for orders <= 2^256 *)
Theorem C03_length_suffices : forall q, 0 < q -> fits IMod q.
Proof. exact fits_mod. Qed.
Print Assumptions C03_length_suffices.

(* ---------------- scalars ---------------- *)
Theorem C03_scalar_length : forall q i bo (a : zq q), length (marshal i bo a) = mlen i q.
Proof. exact marshal_length. Qed.
Print Assumptions C03_scalar_length.

Theorem C03_scalar_roundtrip : forall q i bo, 0 < q -> fits i q -> bo_ok i bo ->
  forall a : zq q, unmarshal q i bo (marshal i bo a) = DOk (val a).
Proof. exact unmarshal_marshal. Qed.
Print Assumptions C03_scalar_roundtrip.

Theorem C03_scalar_reencode : forall q i bo, 0 < q -> fits i q -> bo_ok i bo ->
  forall (a : zq q) v, unmarshal q i bo (marshal i bo a) = DOk v -> enc q i bo v = marshal i bo a.
Proof. exact reencode_identical. Qed.
Print Assumptions C03_scalar_reencode.

Theorem C03_scalar_equal_iff_bytes : forall q i bo, 0 < q -> fits i q ->
  forall a b : zq q, marshal i bo a = marshal i bo b <-> a = b.
Proof. exact marshal_inj. Qed.
Print Assumptions C03_scalar_equal_iff_bytes.

(* mod.Int / Ed25519: whatever is accepted as the reduced value v IS the
   canonical encoding of v *)
Theorem C03_scalar_canonical : forall q i bo, fits i q -> bo_ok i bo ->
  forall bs v, i = IMod \/ i = IEd -> Forall is_byte bs ->
  unmarshal q i bo bs = DOk v -> bs = enc q i bo v /\ 0 <= v < q.
Proof. exact unmarshal_canonical. Qed.
Print Assumptions C03_scalar_canonical.

(* ---------------- stream wrappers ---------------- *)
Theorem C03_marshal_to : forall q i bo (w : list Z) (a : zq q),
  marshal_to q i bo w (val a) = (w ++ marshal i bo a, Z.of_nat (mlen i q)).
Proof. exact marshal_to_spec. Qed.
Print Assumptions C03_marshal_to.

Theorem C03_unmarshal_from : forall q i bo (r : list Z), (length r >= elen q i)%nat ->
  unmarshal_from q i bo r = (Z.of_nat (elen q i), unmarshal q i bo (firstn (elen q i) r), skipn (elen q i) r).
Proof. exact unmarshal_from_spec. Qed.
Print Assumptions C03_unmarshal_from.

Theorem C03_unmarshal_from_roundtrip : forall q i bo, 0 < q -> fits i q -> bo_ok i bo ->
  forall (a : zq q) rest,
  unmarshal_from q i bo (marshal i bo a ++ rest) = (Z.of_nat (mlen i q), DOk (val a), rest).
Proof. exact unmarshal_from_marshal. Qed.
Print Assumptions C03_unmarshal_from_roundtrip.

Theorem C03_unmarshal_from_short : forall q i bo (r : list Z), (length r < elen q i)%nat ->
  unmarshal_from q i bo r = (Z.of_nat (length r), DErrShort, []).
Proof. exact unmarshal_from_short. Qed.
Print Assumptions C03_unmarshal_from_short.

(* ---------------- hexadecimal helpers ---------------- *)
Theorem C03_hex_roundtrip : forall bs, Forall is_byte bs -> hex_decode (hex_encode bs) = Some bs.
Proof. exact hex_roundtrip. Qed.
Print Assumptions C03_hex_roundtrip.

Theorem C03_hex_write : forall q i bo (a : zq q), write_hex q i bo (val a) = hex_encode (marshal i bo a).
Proof. exact write_hex_spec. Qed.
Print Assumptions C03_hex_write.

Theorem C03_hex_read_write : forall q i bo, 0 < q -> fits i q -> bo_ok i bo ->
  forall (a : zq q) rest, read_hex q i bo (write_hex q i bo (val a) ++ rest) = DOk (val a).
Proof. exact read_hex_write_hex. Qed.
Print Assumptions C03_hex_read_write.

Theorem C03_hex_equal_iff : forall q i bo, 0 < q -> fits i q ->
  forall a b : zq q, write_hex q i bo (val a) = write_hex q i bo (val b) <-> a = b.
Proof. exact write_hex_inj. Qed.
Print Assumptions C03_hex_equal_iff.

(* ---------------- fixed-width coordinate layout ---------------- *)
(* the layout the P-256 / BN G1 / residue / Ed25519 point encodings are compared
   with byte for byte on points with known coordinates: fixed length, and every
   coordinate - with any number of leading zero bytes - is read back from its
   own field; injective *)
Theorem C03_coord_length : forall bo w prefix cs,
  length (coord_enc bo w prefix cs) = (length prefix + w * length cs)%nat.
Proof. exact coord_enc_length. Qed.
Print Assumptions C03_coord_length.

Theorem C03_coord_roundtrip : forall bo w prefix cs,
  Forall (fun c => 0 <= c < 256 ^ Z.of_nat w) cs ->
  coord_dec bo w (length cs) (skipn (length prefix) (coord_enc bo w prefix cs)) = cs.
Proof. exact coord_dec_enc. Qed.
Print Assumptions C03_coord_roundtrip.

Theorem C03_coord_injective : forall bo w prefix cs cs',
  Forall (fun c => 0 <= c < 256 ^ Z.of_nat w) cs -> Forall (fun c => 0 <= c < 256 ^ Z.of_nat w) cs' ->
  length cs = length cs' -> coord_enc bo w prefix cs = coord_enc bo w prefix cs' -> cs = cs'.
Proof. exact coord_enc_inj. Qed.
Print Assumptions C03_coord_injective.

(* ---------------- points: abstract contract ---------------- *)
(* for every encoding of the advertised length with decode(encode P) = P:
   identical bytes iff same element; re-encoding identical; values reached by
   different computation paths have identical bytes iff the discrete-logarithm
   model says they are the same point; streams and hex carry the same bytes *)
Theorem C03_point_equal_iff_bytes : forall q (penc : zq q -> list Z) pdec,
  (forall p, pdec (penc p) = Some p) -> forall p p', penc p = penc p' <-> p = p'.
Proof. exact point_enc_inj. Qed.
Print Assumptions C03_point_equal_iff_bytes.

Theorem C03_point_reencode : forall q (penc : zq q -> list Z) pdec,
  (forall p, pdec (penc p) = Some p) -> forall p p', pdec (penc p) = Some p' -> penc p' = penc p.
Proof. exact point_reencode. Qed.
Print Assumptions C03_point_reencode.

Theorem C03_point_paths : forall q (penc : zq q -> list Z) pdec,
  (forall p, pdec (penc p) = Some p) ->
  forall e e', penc (peval q e) = penc (peval q e') <-> peval q e = peval q e'.
Proof. exact point_paths. Qed.
Print Assumptions C03_point_paths.

Theorem C03_point_stream : forall q n (penc : zq q -> list Z) pdec,
  (forall p, length (penc p) = n) -> (forall p, pdec (penc p) = Some p) ->
  forall w p rest,
  p_unmarshal_from q n pdec (skipn (length w) (fst (p_marshal_to q n penc w p)) ++ rest) = (Z.of_nat n, Some p, rest).
Proof. exact point_stream_roundtrip. Qed.
Print Assumptions C03_point_stream.

Theorem C03_point_hex : forall q (penc : zq q -> list Z) pdec,
  (forall p, pdec (penc p) = Some p) -> forall p p',
  (forall p, Forall is_byte (penc p)) -> hex_encode (penc p) = hex_encode (penc p') <-> p = p'.
Proof. exact point_hex_inj. Qed.
Print Assumptions C03_point_hex.

(* B+B = 2B = -((q-2)B), B-B = Null in the model *)
Theorem C03_paths_example : forall q, 2 <= q ->
  peval q (PAdd PBase PBase) = peval q (PMul 2 PBase) /\
  peval q (PAdd PBase PBase) = peval q (PNeg (PMul (q - 2) PBase)) /\
  peval q (PSub PBase PBase) = peval q PNull.
Proof. exact paths_example. Qed.
Print Assumptions C03_paths_example.

(* non-vacuity: concrete scalars, a value with leading zero bytes, both byte
   orders; the point contract is inhabited by the scalar codec itself *)
Example C03_nonvacuous :
  marshal IMod BE (of_Z 65521 258) = [1; 2] /\ marshal IMod LE (of_Z 65521 258) = [2; 1] /\
  marshal IEd LE (of_Z q_ed25519 1) = 1 :: repeat 0 31 /\
  unmarshal 65521 IMod BE [1; 2] = DOk 258 /\ unmarshal 65521 IMod BE [255; 255] = DErrRange /\
  unmarshal_from 65521 IMod LE [2; 1; 9] = (2, DOk 258, [9]) /\
  write_hex 65521 IMod BE 258 = [48; 49; 48; 50] /\ read_hex 65521 IMod BE [48; 49; 48; 50] = DOk 258 /\
  fits IMod 65521 /\ fits IEd q_ed25519 /\
  (forall a : zq 251, unmarshal 251 IMod BE (marshal IMod BE a) = DOk (val a)).
Proof.
  repeat split; try (vm_compute; reflexivity); try (vm_compute; discriminate).
  intros a. apply unmarshal_marshal; [reflexivity | vm_compute; discriminate | exact I].
Qed.
