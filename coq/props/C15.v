(* Property C15 - verifiable shuffles verify only re-encryption permutations of the input.
   Theorems about the executable model Shuffle.ShuffleSM (groups by discrete logarithms, q prime);
   the model is tied to shuffle/{simple,pair,sequences,biffle}.go by the correspondence run. *)
From Coq Require Import ZArith Znumtheory List Bool Lia Permutation.
From Kyber Require Import Algebra.Zq Algebra.Grp Shuffle.ShuffleSM Shuffle.ShuffleLemmas
     Shuffle.SimpleProofs Shuffle.PairProofs Shuffle.SoundProofs Shuffle.ProtoProofs Shuffle.FSProofs Shuffle.SimpleSound.
Import ListNotations.

(* ---- "the proof produced by the shuffler verifies", every k >= 2, every permutation ---- *)

Theorem C15_simple_complete :
  forall (q : Z), prime q ->
  forall (g gamma t c : zq q) (pi : list nat) (x theta : list (zq q)),
    (2 <= length x)%nat -> Permutation pi (seq 0 (length x)) ->
    length theta = (2 * length x - 1)%nat -> gamma <> zzero ->
    (forall i, (i < length x)%nat -> nthF q x i <> t) ->
    simple_verify q g (smul gamma g) (simple_prove q g gamma x (scaled_perm q gamma pi x) theta t c) t c = true.
Proof. intros q Hq. first [exact (simple_complete q Hq) | exact (simple_complete q)]. Qed.
Print Assumptions C15_simple_complete.

Theorem C15_pair_complete :
  forall (q : Z), prime q ->
  forall (pi : list nat) (G H : zq q) (beta X Y u w a : list (zq q)) (tau0 gamma : zq q)
         (theta rho : list (zq q)) (lambda t c : zq q),
    let k := length pi in
    (2 <= k)%nat -> Permutation pi (seq 0 k) ->
    length X = k -> length Y = k -> length rho = k -> length theta = (2 * k - 1)%nat ->
    gamma <> zzero ->
    (forall i, (i < k)%nat -> nthF q (pp_r q pi u a rho lambda) i <> t) ->
    pair_verify q true G H X Y (shuffle_out q G pi beta X) (shuffle_out q H pi beta Y)
                (pair_prove q pi G H beta X Y u w a tau0 gamma theta rho lambda t c) rho lambda t c = 0%Z.
Proof. intros q Hq. first [exact (pair_complete q Hq) | exact (pair_complete q)]. Qed.
Print Assumptions C15_pair_complete.

Theorem C15_fs_pair_complete :
  forall (q : Z), prime q ->
  forall H_rho H_lambda (H_t H_c : pair_tr q -> zq q)
         (pi : list nat) (G H : zq q) (beta X Y u w a : list (zq q)) (tau0 gamma : zq q) (theta : list (zq q)),
    let k := length pi in
    let tr := fs_pair_prove q H_rho H_lambda H_t H_c pi G H beta X Y u w a tau0 gamma theta in
    (2 <= k)%nat -> Permutation pi (seq 0 k) ->
    length X = k -> length Y = k -> length (fs_rho q H_rho tr) = k -> length theta = (2 * k - 1)%nat ->
    gamma <> zzero ->
    (forall i, (i < k)%nat ->
       nthF q (pp_r q pi u a (fs_rho q H_rho tr) (fs_lambda q H_lambda tr)) i <> fs_t q H_t tr) ->
    fs_pair_verify q H_rho H_lambda H_t H_c true G H X Y
                   (shuffle_out q G pi beta X) (shuffle_out q H pi beta Y) tr = 0%Z.
Proof. intros q Hq. first [exact (fs_pair_complete q Hq) | exact (fs_pair_complete q)]. Qed.
Print Assumptions C15_fs_pair_complete.

Theorem C15_sequences_complete :
  forall (q : Z), prime q ->
  forall (pi : list nat) (G H : zq q) (e : list (zq q)) (beta X Y : list (list (zq q)))
         (u w a : list (zq q)) (tau0 gamma : zq q) (theta rho : list (zq q)) (lambda t c : zq q),
    let k := length pi in
    (2 <= k)%nat -> Permutation pi (seq 0 k) ->
    length beta = length X -> length beta = length Y ->
    length rho = k -> length theta = (2 * k - 1)%nat -> gamma <> zzero ->
    (forall i, (i < k)%nat -> nthF q (pp_r q pi u a rho lambda) i <> t) ->
    seq_verify q G H e X Y (seq_out q G pi beta X) (seq_out q H pi beta Y) k
               (seq_prove q pi G H e beta X Y u w a tau0 gamma theta rho lambda t c) rho lambda t c = 0%Z.
Proof. intros q Hq. first [exact (sequences_complete q Hq) | exact (sequences_complete q)]. Qed.
Print Assumptions C15_sequences_complete.

Theorem C15_biffle_complete :
  forall (q : Z), prime q ->
  forall (bit : bool) (G H beta0 beta1 X0 X1 Y0 Y1 c : zq q) (rnd : list (zq q)),
    let Xb := biffle_out q bit G beta0 beta1 X0 X1 in
    let Yb := biffle_out q bit H beta0 beta1 Y0 Y1 in
    let pts := biffle_points q X0 X1 Y0 Y1 (fst Xb) (snd Xb) (fst Yb) (snd Yb) in
    biffle_verify q G H pts (biffle_prove q bit G H beta0 beta1 pts rnd c) c = 0%Z.
Proof. intros q Hq. first [exact (biffle_complete q Hq) | exact (biffle_complete q)]. Qed.
Print Assumptions C15_biffle_complete.

(* ---- what the verifiers check: acceptance <=> exactly the coded equations ---- *)

Theorem C15_pair_accept_iff :
  forall (q : Z), prime q ->
  forall (tied : bool) (G H : zq q) (X Y Xbar Ybar : list (zq q)) (tr : pair_tr q)
         (rho : list (zq q)) (lambda t c : zq q),
    let k := length X in
    pair_verify q tied G H X Y Xbar Ybar tr rho lambda t c = 0%Z <->
    pair_wf q k X Y Xbar Ybar tr rho = true /\
    simple_verify q G (pGamma tr) (pS tr) t c = true /\
    (tied = true -> tie_eqs q G tr rho lambda k) /\
    eq33 q tr k /\
    eq34 q G (pL1 tr) tr rho X Xbar k /\ eq34 q H (pL2 tr) tr rho Y Ybar k.
Proof. intros q Hq. first [exact (pair_accept_iff q Hq) | exact (pair_accept_iff q)]. Qed.
Print Assumptions C15_pair_accept_iff.

Theorem C15_biffle_accept_iff :
  forall (q : Z), prime q ->
  forall (G H : zq q) (pts : list (zq q)) (tr : biffle_tr q) (c : zq q),
    biffle_verify q G H pts tr c = 0%Z <-> biffle_eqs q G H pts tr c.
Proof. intros q Hq. first [exact (biffle_accept_iff q Hq) | exact (biffle_accept_iff q)]. Qed.
Print Assumptions C15_biffle_accept_iff.

(* ---- the defect of PairShuffle.Verify as it was coded, and its repair ---- *)

(* without the tie: an output that is not a shuffle, and a prover the verifier accepts for all challenges *)
Theorem C15_pair_linear_attack :
  forall (q : Z), prime q ->
  forall (G H X0 X1 Y0 Y1 : zq q),
    smul X1 H <> smul Y1 G -> smul X0 H <> smul Y0 G ->
    exists (Xbar Ybar : list (zq q)) (strategy : list (zq q) -> zq q -> zq q -> pair_tr q) (x0 x1 : zq q),
      ~ is_shuffle q G H [X0; X1] [Y0; Y1] Xbar Ybar /\
      forall rho lambda t c, length rho = 2%nat -> t <> x0 -> t <> x1 ->
        pair_verify q false G H [X0; X1] [Y0; Y1] Xbar Ybar (strategy rho t c) rho lambda t c = 0%Z.
Proof. intros q Hq. first [exact (pair_linear_attack q Hq) | exact (pair_linear_attack q)]. Qed.
Print Assumptions C15_pair_linear_attack.

(* with the tie the same strategy passes for at most one lambda per (step 1, rho) *)
Theorem C15_linear_attack_rejected :
  forall (q : Z), prime q ->
  forall (G H gamma : zq q) (X Y Xbar Ybar A C U x theta rho : list (zq q))
         (lambda lambda' t c t' c' : zq q),
    (1 <= length X)%nat -> lambda <> lambda' ->
    smul (nthF q rho 0) G <> nthF q U 0 ->
    ~ (pair_verify q true G H X Y Xbar Ybar (attack_tr q G gamma A C U x theta rho t c) rho lambda t c = 0%Z /\
       pair_verify q true G H X Y Xbar Ybar (attack_tr q G gamma A C U x theta rho t' c') rho lambda' t' c' = 0%Z).
Proof. intros q Hq. first [exact (linear_attack_rejected q Hq) | exact (linear_attack_rejected q)]. Qed.
Print Assumptions C15_linear_attack_rejected.

(* the tie binds D (hence sigma) to a permutation: two accepted lambdas for one (step 1, rho, D) *)
Theorem C15_tie_extract :
  forall (q : Z), prime q ->
  forall (G H gamma : zq q) (X Y Xbar Ybar : list (zq q)) (tr tr' : pair_tr q) (rho : list (zq q))
         (lambda lambda' t c t' c' : zq q) (pi : list nat),
    let k := length X in
    Permutation pi (seq 0 k) ->
    accepts q true G H X Y Xbar Ybar tr rho lambda t c ->
    accepts q true G H X Y Xbar Ybar tr' rho lambda' t' c' ->
    pA tr' = pA tr -> pC tr' = pC tr -> pU tr' = pU tr -> pD tr' = pD tr ->
    lambda <> lambda' ->
    simple_rel q gamma pi tr k -> simple_rel q gamma pi tr' k ->
    D_bound q G gamma pi tr rho k /\
    (forall i, (i < k)%nat -> nthF q (pC tr) i = smul gamma (nthF q (pA tr) (idx pi i))).
Proof. intros q Hq. first [exact (tie_extract q Hq) | exact (tie_extract q)]. Qed.
Print Assumptions C15_tie_extract.

(* "verification fails whenever the output is not a permutation of re-encryptions":
   special soundness - accepted transcripts whose rho differ in one coordinate extract the re-encryption *)
Theorem C15_pair_extract :
  forall (q : Z), prime q ->
  forall (tied : bool) (G H gamma : zq q) (X Y Xbar Ybar : list (zq q)) (tr tr' : pair_tr q)
         (rho rho' : list (zq q)) (lambda lambda' t c t' c' : zq q) (pi : list nat) (i0 : nat),
    let k := length X in
    let j := idx pi i0 in
    G <> zzero -> gamma <> zzero -> Permutation pi (seq 0 k) -> (i0 < k)%nat ->
    accepts q tied G H X Y Xbar Ybar tr rho lambda t c ->
    accepts q tied G H X Y Xbar Ybar tr' rho' lambda' t' c' ->
    pGamma tr = smul gamma G -> pGamma tr' = pGamma tr ->
    pU tr' = pU tr -> pW tr' = pW tr -> pL1 tr' = pL1 tr -> pL2 tr' = pL2 tr ->
    (forall i, (i < k)%nat -> i <> j -> nthF q rho' i = nthF q rho i) ->
    nthF q rho' j <> nthF q rho j ->
    D_bound q G gamma pi tr rho k -> D_bound q G gamma pi tr' rho' k ->
    exists beta, nthF q Xbar i0 = padd (nthF q X j) (smul beta G) /\
                 nthF q Ybar i0 = padd (nthF q Y j) (smul beta H).
Proof. intros q Hq. first [exact (pair_extract q Hq) | exact (pair_extract q)]. Qed.
Print Assumptions C15_pair_extract.

Theorem C15_pair_special_sound :
  forall (q : Z), prime q ->
  forall (tied : bool) (G H gamma : zq q) (X Y Xbar Ybar : list (zq q)) (pi : list nat),
    let k := length X in
    G <> zzero -> gamma <> zzero -> Permutation pi (seq 0 k) ->
    length Xbar = k -> length Ybar = k ->
    (forall i0, (i0 < k)%nat ->
       exists tr tr' rho rho' lambda lambda' t c t' c',
         accepts q tied G H X Y Xbar Ybar tr rho lambda t c /\
         accepts q tied G H X Y Xbar Ybar tr' rho' lambda' t' c' /\
         pGamma tr = smul gamma G /\ pGamma tr' = pGamma tr /\
         pU tr' = pU tr /\ pW tr' = pW tr /\ pL1 tr' = pL1 tr /\ pL2 tr' = pL2 tr /\
         (forall i, (i < k)%nat -> i <> idx pi i0 -> nthF q rho' i = nthF q rho i) /\
         nthF q rho' (idx pi i0) <> nthF q rho (idx pi i0) /\
         D_bound q G gamma pi tr rho k /\ D_bound q G gamma pi tr' rho' k) ->
    is_shuffle q G H X Y Xbar Ybar.
Proof. intros q Hq. first [exact (pair_special_sound q Hq) | exact (pair_special_sound q)]. Qed.
Print Assumptions C15_pair_special_sound.

(* the homomorphic-sum output is not a shuffle (duplicate/replace/linear families are decided the same way) *)
Theorem C15_sum_not_shuffle :
  forall (q : Z), prime q ->
  forall (G H X0 X1 Y0 Y1 : zq q),
    smul X1 H <> smul Y1 G -> smul X0 H <> smul Y0 G ->
    ~ is_shuffle q G H [X0; X1] [Y0; Y1] [padd X0 X1; X1] [padd Y0 Y1; Y1].
Proof. intros q Hq. first [exact (sum_not_shuffle q Hq) | exact (sum_not_shuffle q)]. Qed.
Print Assumptions C15_sum_not_shuffle.

Theorem C15_biffle_special_sound :
  forall (q : Z), prime q ->
  forall (G H X0 X1 Y0 Y1 Xb0 Xb1 Yb0 Yb1 c c' : zq q) (tr tr' : biffle_tr q),
    let pts := biffle_points q X0 X1 Y0 Y1 Xb0 Xb1 Yb0 Yb1 in
    biffle_verify q G H pts tr c = 0%Z -> biffle_verify q G H pts tr' c' = 0%Z ->
    bV tr' = bV tr -> c <> c' ->
    is_shuffle q G H [X0; X1] [Y0; Y1] [Xb0; Xb1] [Yb0; Yb1].
Proof. intros q Hq. first [exact (biffle_special_sound q Hq) | exact (biffle_special_sound q)]. Qed.
Print Assumptions C15_biffle_special_sound.

(* ---- soundness core of the simple k-shuffle and explicit bounds on answerable challenges ---- *)

(* two lists of k field elements whose root polynomials prod (a_i - s) agree at more than k points
   are permutations of each other (a non-zero polynomial of degree <= k has at most k roots) *)
Theorem C15_prod_eq_perm :
  forall (q : Z), prime q ->
  forall (a b pts : list (zq q)),
    length a = length b -> NoDup pts -> (length a < length pts)%nat ->
    (forall s, In s pts -> zprod q (shifted q a s) = zprod q (shifted q b s)) ->
    Permutation a b.
Proof. intros q Hq. first [exact (prod_eq_perm q Hq) | exact (prod_eq_perm q)]. Qed.
Print Assumptions C15_prod_eq_perm.

(* special soundness: two accepting answers c <> c' to one commitment force the product identity at t *)
Theorem C15_simple_special_sound :
  forall (q : Z), prime q ->
  forall (G Gamma t c c' : zq q) (tr tr' : simple_tr q),
    simple_verify q G Gamma tr t c = true -> simple_verify q G Gamma tr' t c' = true ->
    sX tr' = sX tr -> sY tr' = sY tr -> sTheta tr' = sTheta tr -> c <> c' ->
    let k := length (sY tr) in
    zprod q (Xhat_of q G (sX tr) t ++ repeat Gamma k) = zprod q (Xhat_of q Gamma (sY tr) t ++ repeat G k).
Proof. intros q Hq. first [exact (simple_special_sound q Hq) | exact (simple_special_sound q)]. Qed.
Print Assumptions C15_simple_special_sound.

(* if y is NOT a gamma-scaled permutation of x (as multisets of logarithms), at most k challenges t
   allow a commitment that can be answered for two different c *)
Theorem C15_simple_sound_bound :
  forall (q : Z), prime q ->
  forall (g gamma : zq q) (x y ts : list (zq q)),
    g <> zzero -> gamma <> zzero -> length x = length y ->
    ~ Permutation (map (zmul gamma) x) y ->
    NoDup ts -> (forall t, In t ts -> simple_bad q g gamma x y t) ->
    (length ts <= length x)%nat.
Proof. intros q Hq. first [exact (simple_sound_bound q Hq) | exact (simple_sound_bound q)]. Qed.
Print Assumptions C15_simple_sound_bound.

(* pair shuffle, challenge t: unless S = C + lambda*D is a Gamma-scaled index permutation of
   R = A + lambda*B, at most k values of t are answerable for two different c *)
Theorem C15_pair_t_bound :
  forall (q : Z), prime q ->
  forall (G H gamma : zq q) (X Y Xbar Ybar : list (zq q)) (tr0 : pair_tr q)
         (rho : list (zq q)) (lambda : zq q) (ts : list (zq q)),
    let k := length X in
    G <> zzero -> gamma <> zzero -> pGamma tr0 = smul gamma G ->
    (forall pi, Permutation pi (seq 0 k) ->
       ~ (forall i, (i < k)%nat ->
            nthF q (Slog q G tr0 lambda k) i = zmul gamma (nthF q (Rlog q G tr0 rho lambda k) (idx pi i)))) ->
    NoDup ts -> (forall t, In t ts -> pair_bad_t q G H X Y Xbar Ybar tr0 rho lambda t) ->
    (length ts <= k)%nat.
Proof. intros q Hq. first [exact (pair_t_bound_rel q Hq) | exact (pair_t_bound_rel q)]. Qed.
Print Assumptions C15_pair_t_bound.

(* pair shuffle, challenge lambda (per permutation): unless D and C are bound by pi, one lambda at most *)
Theorem C15_pair_lambda_unique :
  forall (q : Z), prime q ->
  forall (G H gamma : zq q) (X Y Xbar Ybar : list (zq q)) (tr tr' : pair_tr q) (rho : list (zq q))
         (lambda lambda' t c t' c' : zq q) (pi : list nat),
    let k := length X in
    Permutation pi (seq 0 k) ->
    ~ (D_bound q G gamma pi tr rho k /\
       forall i, (i < k)%nat -> nthF q (pC tr) i = smul gamma (nthF q (pA tr) (idx pi i))) ->
    accepts q true G H X Y Xbar Ybar tr rho lambda t c ->
    accepts q true G H X Y Xbar Ybar tr' rho lambda' t' c' ->
    pA tr' = pA tr -> pC tr' = pC tr -> pU tr' = pU tr -> pD tr' = pD tr ->
    simple_rel q gamma pi tr k -> simple_rel q gamma pi tr' k ->
    lambda = lambda'.
Proof. intros q Hq. first [exact (pair_lambda_unique q Hq) | exact (pair_lambda_unique q)]. Qed.
Print Assumptions C15_pair_lambda_unique.

(* pair shuffle, challenge rho: an output that is not a permutation of re-encryptions has, for every
   permutation pi, a coordinate of rho with at most one answerable value (D bound by pi).
   PARTIAL: the union over the k! permutations at the lambda level and the composition of the
   per-challenge bounds into one success probability are not formalised (see SimpleSound.v). *)
Theorem C15_pair_sound_partial :
  forall (q : Z), prime q ->
  forall (tied : bool) (G H gamma : zq q) (X Y Xbar Ybar : list (zq q)) (pi : list nat),
    let k := length X in
    G <> zzero -> gamma <> zzero -> length Xbar = k -> length Ybar = k ->
    Permutation pi (seq 0 k) ->
    ~ is_shuffle q G H X Y Xbar Ybar ->
    exists i0, (i0 < k)%nat /\
      forall (tr tr' : pair_tr q) (rho rho' : list (zq q)) (lambda lambda' t c t' c' : zq q),
        accepts q tied G H X Y Xbar Ybar tr rho lambda t c ->
        accepts q tied G H X Y Xbar Ybar tr' rho' lambda' t' c' ->
        pGamma tr = smul gamma G -> pGamma tr' = pGamma tr ->
        pU tr' = pU tr -> pW tr' = pW tr -> pL1 tr' = pL1 tr -> pL2 tr' = pL2 tr ->
        (forall i, (i < k)%nat -> i <> idx pi i0 -> nthF q rho' i = nthF q rho i) ->
        D_bound q G gamma pi tr rho k -> D_bound q G gamma pi tr' rho' k ->
        nthF q rho' (idx pi i0) = nthF q rho (idx pi i0).
Proof. intros q Hq. first [exact (pair_sound_partial q Hq) | exact (pair_sound_partial q)]. Qed.
Print Assumptions C15_pair_sound_partial.

(* ---- the hypotheses are satisfiable: a concrete run over Z_251, k = 3, pi = (1 0 2) ---- *)
Definition f251 (x : Z) : zq 251 := of_Z 251 x.
Definition l251 := map f251.
Example C15_nonvacuous :
  let pi := [1; 0; 2]%nat in
  let G := f251 3 in let H := f251 7 in
  let X := l251 [10; 20; 30]%Z in let Y := l251 [11; 21; 31]%Z in
  let beta := l251 [5; 6; 8]%Z in
  let u := l251 [1; 2; 3]%Z in let w := l251 [4; 5; 6]%Z in let a := l251 [7; 8; 9]%Z in
  let theta := l251 [12; 13; 14; 15; 16]%Z in
  let rho := l251 [17; 18; 19]%Z in
  let lambda := f251 23 in let t := f251 200 in let c := f251 29 in
  Permutation pi (seq 0 3) /\
  f251 2 <> zzero /\
  (forall i, (i < 3)%nat -> nthF 251 (pp_r 251 pi u a rho lambda) i <> t) /\
  pair_verify 251 true G H X Y (shuffle_out 251 G pi beta X) (shuffle_out 251 H pi beta Y)
              (pair_prove 251 pi G H beta X Y u w a (f251 9) (f251 2) theta rho lambda t c) rho lambda t c = 0%Z /\
  (* the forged homomorphic sum: accepted without the tie, rejected with it *)
  pair_verify 251 false G H (l251 [10; 20]%Z) (l251 [11; 21]%Z) (l251 [30; 20]%Z) (l251 [32; 21]%Z)
              (attack_tr 251 G (f251 2) (l251 [1; 2]%Z) (l251 [3; 4]%Z) (l251 [5; 6]%Z) (l251 [40; 50]%Z)
                         (l251 [12; 13; 14]%Z) (l251 [17; 18]%Z) t c) (l251 [17; 18]%Z) lambda t c = 0%Z /\
  pair_verify 251 true G H (l251 [10; 20]%Z) (l251 [11; 21]%Z) (l251 [30; 20]%Z) (l251 [32; 21]%Z)
              (attack_tr 251 G (f251 2) (l251 [1; 2]%Z) (l251 [3; 4]%Z) (l251 [5; 6]%Z) (l251 [40; 50]%Z)
                         (l251 [12; 13; 14]%Z) (l251 [17; 18]%Z) t c) (l251 [17; 18]%Z) lambda t c = 1%Z.
Proof.
  cbv zeta. split; [apply perm_swap|].
  split; [intros E; apply zq_eq_iff in E; vm_compute in E; discriminate|].
  split.
  - intros i Hi E. apply zq_eq_iff in E.
    destruct i as [|[|[|i]]]; [vm_compute in E; discriminate ..|lia].
  - split; [vm_compute; reflexivity|]. split; vm_compute; reflexivity.
Qed.

(* the bound of C15_simple_sound_bound is about something that happens: for the FALSE statement
   x = (1,2), y = (1,5), gamma = 1 over Z_251 the challenge t = 1 (a common root of the two root
   polynomials) is answerable for two different c; the theorem says at most 2 such t exist *)
Example C15_sound_nonvacuous :
  simple_bad 251 (f251 1) (f251 1) (l251 [1; 2]%Z) (l251 [1; 5]%Z) (f251 1) /\
  ~ Permutation (map (zmul (f251 1)) (l251 [1; 2]%Z)) (l251 [1; 5]%Z).
Proof.
  split.
  - exists (l251 [0; 0; 0; 0]%Z), (l251 [4; 1; 1]%Z), (l251 [8; 2; 2]%Z), (f251 1), (f251 2).
    split; [intros E; apply zq_eq_iff in E; vm_compute in E; discriminate|].
    split; vm_compute; reflexivity.
  - intros Hp. apply Permutation_sym in Hp.
    assert (Hin : In (f251 5) (map (zmul (f251 1)) (l251 [1; 2]%Z))).
    { apply (Permutation_in _ Hp). right. left. reflexivity. }
    cbn [map l251 In] in Hin.
    destruct Hin as [E|[E|[]]]; apply zq_eq_iff in E; vm_compute in E; discriminate.
Qed.
