(* Property C11 - DKG: honest parties agree on key, QUAL and consistent shares
   despite faults.  Only statements, each closed by [exact]; the proofs are in
   theories/DKG/{PacketSet,PedersenProofs}.v; the model is
   theories/DKG/{PacketSet,PedersenDKG,RabinDKG}.v.  Groups are modelled by
   discrete logarithms (Algebra/Grp.v); the theorems hold for every modulus
   [q] (the ring laws of Z_q suffice: no division is used). *)
From Coq Require Import ZArith List Bool Permutation.
From Kyber Require Import Algebra.Zq Algebra.Grp DKG.PacketSet DKG.PedersenDKG DKG.PedersenProofs.
Import ListNotations.
Local Open Scope Z_scope.

(* ------------------------------------------------------------------ *)
(* (1) delivery order: the packet store of the Protocol driver depends only on
   the SET of packets pushed - every interleaving and every duplication of
   the same packets leaves the same stored packets and the same evicted
   senders; a sender is evicted iff it sent two different packets, otherwise
   its unique packet is what is handed to Process* *)
Theorem C11_packet_set_order_independent :
  forall l l' : list packet, (forall p, In p l <-> In p l') ->
    (forall idx, memz idx (bad (push_all l)) = memz idx (bad (push_all l'))) /\
    (forall idx, lookz idx (vals (push_all l)) = lookz idx (vals (push_all l'))).
Proof. exact packet_set_order_independent. Qed.
Print Assumptions C11_packet_set_order_independent.

Theorem C11_packet_set_spec :
  forall l idx,
    (memz idx (bad (push_all l)) = true <-> conflict idx l) /\
    (forall h, lookz idx (vals (push_all l)) = Some h <-> (In (idx, h) l /\ ~ conflict idx l)).
Proof. intros l idx. destruct (push_all_spec l) as [B V]. split; [apply B|intros h; apply V]. Qed.
Print Assumptions C11_packet_set_spec.

(* ------------------------------------------------------------------ *)
(* (2) every Process* function returns the same state and the same output for
   every order of a bundle list with distinct senders (Go map order of
   set.ToDeals/ToResponses/ToJustifications, delivery order within a phase).
   Holds for fresh DKG, resharing and fast-sync alike. *)
Theorem C11_process_deals_perm_invariant :
  forall q (c : cfg q) s bs bs', Permutation bs bs' -> NoDup (map db_dealer bs) ->
    process_deals q c s bs = process_deals q c s bs'.
Proof. exact process_deals_perm_invariant. Qed.
Print Assumptions C11_process_deals_perm_invariant.

Theorem C11_process_responses_perm_invariant :
  forall q (c : cfg q) s bs bs', Permutation bs bs' -> NoDup (map rb_holder bs) ->
    process_responses q c s bs = process_responses q c s bs'.
Proof. exact process_responses_perm_invariant. Qed.
Print Assumptions C11_process_responses_perm_invariant.

Theorem C11_process_justifs_perm_invariant :
  forall q (c : cfg q) s bs bs', Permutation bs bs' -> NoDup (map jb_dealer bs) ->
    process_justifs q c s bs = process_justifs q c s bs'.
Proof. exact process_justifs_perm_invariant. Qed.
Print Assumptions C11_process_justifs_perm_invariant.

(* ------------------------------------------------------------------ *)
(* (3) the result of the fresh DKG.  QUAL is exactly the set of dealers whose
   row of the status matrix holds no complaint and who were not evicted as
   share holders (in node order); the public key is the sum of the qualified
   dealers' constant commitments (their contributions); the output share lies
   on the output commitment polynomial whenever every stored share is valid
   for the public polynomial stored for its dealer. *)
Theorem C11_dkg_result_spec :
  forall q (c : cfg q) s r, compute_dkg_result q c s = Some r ->
    res_qual r = map fst (filter (qualified q s) (s_d s)) /\
    res_idx r = c_nidx c /\
    hd zzero (res_commits r) = psum (map (c0_of q) (filter (qualified q s) (s_d s))) /\
    (Forall (entry_ok q (xof q (c_nidx c))) (s_d s) ->
       commit q (res_share r) = peval q (res_commits r) (xof q (c_nidx c))).
Proof. exact dkg_result_spec. Qed.
Print Assumptions C11_dkg_result_spec.

(* ... and that premise holds along a run: the state after Deals satisfies the
   invariant of the ProcessDeals loop, the loop keeps it (a share is stored
   only after it was checked against the public polynomial of the same
   bundle), and so does the ProcessJustifications loop. *)
Theorem C11_shares_valid_after_deals :
  forall q (c : cfg q) s b bs,
    deals q c (init_st q c) = Some (s, b) ->
    Forall (deal_inv q c) (s_d (fold_left (deal_fold q c) bs (on_d q (clear_seen q) s))).
Proof.
  intros q c s b bs H. apply deals_keep_shares_valid. exact (init_deal_inv q c s b H).
Qed.
Print Assumptions C11_shares_valid_after_deals.

Theorem C11_shares_valid_after_justifications :
  forall q (c : cfg q) bs s,
    Forall (entry_ok q (xof q (c_nidx c))) (s_d s) ->
    Forall (entry_ok q (xof q (c_nidx c))) (s_d (fold_left (just_fold q c) bs s)).
Proof. exact justifs_keep_shares_valid. Qed.
Print Assumptions C11_shares_valid_after_justifications.

(* agreement: QUAL and the commitment polynomial are a function of the public
   part of the state (which rows are complaint-free, which holders are
   evicted, which public polynomials were broadcast): two nodes whose public
   views coincide and who both complete output the same QUAL and polynomial *)
Theorem C11_result_agreement :
  forall q (c1 c2 : cfg q) s1 s2 r1 r2,
    pub_view q s1 = pub_view q s2 ->
    compute_dkg_result q c1 s1 = Some r1 -> compute_dkg_result q c2 s2 = Some r2 ->
    res_qual r1 = res_qual r2 /\ res_commits r1 = res_commits r2.
Proof. exact result_agreement. Qed.
Print Assumptions C11_result_agreement.

(* the status matrix after ProcessResponses is a function of the broadcast
   bundles: two nodes of the same run that held the same column h before
   hold the same column h after, as long as neither skips one of the bundles
   as its own (i.e. for the columns of third parties) *)
Theorem C11_responses_column_function :
  forall q (c1 c2 : cfg q) h bs s1 s2,
    c_old c1 = c_old c2 -> c_new c1 = c_new c2 -> c_fast c1 = c_fast c2 ->
    (forall b, In b bs -> skips q c1 b = skips q c2 b) ->
    col q h s1 = col q h s2 ->
    col q h (fold_left (resp_step q c1) bs s1) = col q h (fold_left (resp_step q c2) bs s2).
Proof. exact responses_column_function. Qed.
Print Assumptions C11_responses_column_function.

(* finishing in the response phase: the test DistKeyGenerator.completeSuccess
   (no complaint left, so no justification phase is needed) is a function of
   the eviction flags and of the rows of the dealers that are not evicted.  The
   cells a node holds in the row of a dealer it evicted - it sends no response
   about such a dealer, so nobody else knows them - do not decide whether the
   node finishes early.  (Before the repair of dkg.go they did, and two honest
   nodes could finish in different phases with different QUAL: failure keys
   pedersen-fresh/agreement-qual, agreement-commits of harness/cmd/c11.) *)
Theorem C11_finish_ignores_evicted_rows :
  forall q (s1 s2 : st q),
    live_view q s1 = live_view q s2 -> complete_success q s1 = complete_success q s2.
Proof. exact complete_success_live_view. Qed.
Print Assumptions C11_finish_ignores_evicted_rows.

(* disqualification: a dealer is in the output QUAL of the fresh DKG iff it
   was never evicted (invalid session id / threshold / indices / duplicate
   bundles / >= t complaints / invalid justification), no complaint against it
   is left unjustified, and it was not evicted as a holder.  So a dealer whose
   invalid deal stays unjustified is out, and a dealer with a clean row that
   is in neither eviction list is in. *)
Theorem C11_qual_characterisation :
  forall q (c : cfg q) s s1 r d ds,
    c_reshare c = false -> compute_result q c s = (s1, Some r) ->
    NoDup (map fst (s_d s)) -> In (d, ds) (s_d s) -> d_row ds <> [] ->
    (In d (res_qual r) <->
     d_ev ds = false /\ all_true (d_row ds) = true /\ holder_evicted q s d = false).
Proof. exact qual_characterisation. Qed.
Print Assumptions C11_qual_characterisation.

(* ------------------------------------------------------------------ *)
(* NOT proved as theorems (kept as statements; carried by the correspondence
   run and the oracles of harness/cmd/c11):

   pedersen_agreement_partial.  Full statement: for all n, t in [n/2+1, n], any
   <= n-t faulty parties broadcasting arbitrary bundles, if two honest nodes
   process the same board per phase and both complete, then their QUAL and
   Commits are equal.  Proved: C11_result_agreement reduces it to equality of
   the public views, and (1)+(2) make the view independent of delivery order.
   Missing: the induction over the three phases showing that the public views
   of two honest nodes coincide (each node's own column equals what the others
   derive from its broadcast response bundle; own justification bundle vs the
   pre-cleared own row), and the same for resharing (computeResharingResult:
   Lagrange interpolation of the old shares) and fast-sync.

   any_t_shares_reconstruct_partial.  Full statement: any t output shares of
   honest nodes interpolate to a secret whose commitment is Commits_0.
   Proved: every honest share lies on the common polynomial Commits of degree
   < t (C11_dkg_result_spec + C11_result_agreement).  Missing: uniqueness of
   Lagrange interpolation (property C07) is not re-proved here.

   (superseded for the fresh DKG by the cross-phase theorems below and for the
   Rabin DKG by C11_rabin_*; see rabin_partial at the end of this file) *)

(* non-vacuity: a concrete store history, and a concrete 3-node fresh DKG over
   Z_251 in which node 1 receives an invalid share from dealer 2, complains,
   is answered by a valid justification and completes with QUAL = {0,1,2} and
   a share on the polynomial *)
Example C11_nonvacuous_set :
  vals (push_all [(1, 10); (2, 20); (1, 10); (2, 21); (3, 30); (2, 20)]) = [(1, 10); (3, 30)] /\
  bad (push_all [(1, 10); (2, 20); (1, 10); (2, 21); (3, 30); (2, 20)]) = [2].
Proof. vm_compute. split; reflexivity. Qed.

Definition ex_q : Z := 251.
Definition ex_f (v : Z) : zq ex_q := of_Z ex_q v.
Definition ex_nodes : list (Z * Z) := [(0, 100); (1, 101); (2, 102)].
Definition ex_cfg (key : Z) (priv : list Z) : cfg ex_q :=
  new_handler ex_q [] ex_nodes key 2 0 false false false (map ex_f priv) [].
Definition ex_priv (i : Z) : list Z := if i =? 0 then [5; 7] else if i =? 1 then [11; 3] else [20; 9].
Definition ex_bundle (i : Z) : deal_bundle ex_q :=
  match deals ex_q (ex_cfg (100 + i) (ex_priv i)) (init_st ex_q (ex_cfg (100 + i) (ex_priv i))) with
  | Some (_, b) => b
  | None => mkdb i [] [] false
  end.
(* dealer 2 spoils the share of holder 1 *)
Definition ex_bad2 : deal_bundle ex_q :=
  mkdb 2 (map (fun d => if dl_idx d =? 1 then mkdeal 1 (Some (ex_f 1)) else d) (db_deals (ex_bundle 2)))
       (db_pub (ex_bundle 2)) true.
Definition ex_board := [ex_bundle 0; ex_bundle 1; ex_bad2].

Definition ex_node1_result : option (list Z * bool) :=
  let c := ex_cfg 101 (ex_priv 1) in
  match deals ex_q c (init_st ex_q c) with
  | Some (s1, _) =>
      match process_deals ex_q c s1 ex_board with
      | Some (s2, Some rb) =>
          let o := process_responses ex_q c s2 [] in   (* its own complaint is not delivered back to it *)
          let jb := mkjb 2 [mkjust 1 (peval ex_q (map ex_f (ex_priv 2)) (xof ex_q 1))] true in
          let o2 := process_justifs ex_q c (ro_st o) [jb] in
          match jo_res o2 with
          | Some r => Some (res_qual r, zeqb (commit ex_q (res_share r)) (peval ex_q (res_commits r) (xof ex_q 1)))
          | None => None
          end
      | _ => None
      end
  | None => None
  end.

Example C11_nonvacuous_run : ex_node1_result = Some ([0; 1; 2], true).
Proof. vm_compute. reflexivity. Qed.


(* ======================================================================
   Cross-phase agreement (DKG/Agreement*.v): system semantics with a broadcast
   board per phase, honest nodes running the model functions, arbitrary bundles
   from the other parties. Fresh DKG, regular and fast-sync mode. For RESHARING
   the result function is proved at the end of this file (C11_reshare_*: key
   preservation, share consistency, completion, reconstruction, agreement for
   equal public views in any list order); reshare_cross_phase_partial: the
   induction over the phases showing that the public views (dview, evicted
   holders) of two honest NEW nodes coincide is proved for the fresh DKG only
   (the system semantics of DKG/Agreement.v has one node list) - for resharing it
   is carried by the correspondence and the oracles (per-phase facts for every
   configuration: C11_reshare_deal_phase_public_view,
   C11_reshare_responses_holder_flags, C11_responses_column_function).  Rabin
   DKG: C11_rabin_* at the end of this file; rabin_partial lists what is left.
   ====================================================================== *)
From Coq Require Import ZArith Znumtheory List Bool Permutation.
From Kyber Require Import Algebra.Zq Algebra.Grp DKG.PacketSet DKG.PedersenDKG DKG.PedersenProofs.
From Kyber Require Import DKG.Agreement DKG.AgreementDeal DKG.AgreementResp DKG.AgreementJust
  DKG.AgreementProofs DKG.AgreementResult DKG.AgreementQual DKG.AgreementShamir DKG.AgreementCex DKG.AgreementExample.
From Kyber Require Share.ShamirSM.
Import ListNotations.
Local Open Scope Z_scope.

(* (4) the system: boards, honest parties (DKG/Agreement.v).  [fast] is
   Config.FastSync; every theorem below holds for both modes of the fresh DKG. *)

(* the configuration NewDistKeyHandler builds is a [fresh_cfg] *)
Theorem C11_fresh_cfg_new_handler :
  forall q nodes thr fast i key priv,
    NoDup (map fst nodes) -> NoDup (map snd nodes) -> In (i, key) nodes -> Z.of_nat (length priv) = thr ->
    fresh_cfg q nodes thr fast i (new_handler q [] nodes key thr 0 fast false false priv []).
Proof. exact fresh_cfg_new_handler. Qed.
Print Assumptions C11_fresh_cfg_new_handler.

(* cross-phase induction, step 1: after the response board two honest nodes hold,
   for every dealer, the same eviction verdict, the same public polynomial and
   - unless the dealer is evicted - the same row of the status matrix *)
Theorem C11_views_agree_after_responses :
  forall q nodes thr fast B i ci j cj d,
    boards_ok q B -> honest q nodes thr fast B i ci -> honest q nodes thr fast B j cj -> i <> j -> In d (map fst nodes) ->
    agree q (rrec q nodes fast ci B d) (rrec q nodes fast cj B d).
Proof. exact views_agree_after_responses. Qed.
Print Assumptions C11_views_agree_after_responses.

Theorem C11_holder_evictions_agree :
  forall q nodes thr fast B i ci j cj h,
    boards_ok q B -> honest q nodes thr fast B i ci -> honest q nodes thr fast B j cj ->
    hevR nodes fast i (bR B) h = hevR nodes fast j (bR B) h.
Proof. exact holder_evictions_agree. Qed.
Print Assumptions C11_holder_evictions_agree.

(* step 2: whether the protocol ends in the response phase is common knowledge *)
Theorem C11_finish_agree :
  forall q nodes thr fast B i ci j cj,
    boards_ok q B -> honest q nodes thr fast B i ci -> honest q nodes thr fast B j cj -> i <> j ->
    fin q (rs3 q ci B) = true -> fin q (rs3 q cj B) = true.
Proof. exact finish_agree. Qed.
Print Assumptions C11_finish_agree.

(* step 3: ... and still agree after the justification board *)
Theorem C11_views_agree_after_justifications :
  forall q nodes thr fast B i ci j cj d,
    boards_ok q B -> honest q nodes thr fast B i ci -> honest q nodes thr fast B j cj -> i <> j -> In d (map fst nodes) ->
    ro_err (rout q ci B) = ENone -> ro_res (rout q ci B) = None ->
    ro_err (rout q cj B) = ENone -> ro_res (rout q cj B) = None ->
    agree q (x6 q nodes thr fast ci B d) (x6 q nodes thr fast cj B d).
Proof. exact views_agree_after_justifications. Qed.
Print Assumptions C11_views_agree_after_justifications.

(* AGREEMENT: any two honest nodes that complete output the same QUAL and the
   same commitment polynomial, whatever the other parties broadcast *)
Theorem C11_pedersen_agreement :
  forall q nodes thr fast B i ci j cj ri rj,
    boards_ok q B -> honest q nodes thr fast B i ci -> honest q nodes thr fast B j cj -> i <> j ->
    output q ci B ri -> output q cj B rj ->
    res_qual ri = res_qual rj /\ res_commits ri = res_commits rj.
Proof. exact pedersen_agreement. Qed.
Print Assumptions C11_pedersen_agreement.

(* ... also when every honest node reads its own permutation of the boards *)
Theorem C11_pedersen_agreement_any_order :
  forall q nodes thr fast (B Bi Bj : boards q) i ci j cj ri rj,
    boards_ok q B -> boards_perm q B Bi -> boards_perm q B Bj ->
    honest q nodes thr fast B i ci -> honest q nodes thr fast B j cj -> i <> j ->
    output q ci Bi ri -> output q cj Bj rj ->
    res_qual ri = res_qual rj /\ res_commits ri = res_commits rj.
Proof. exact pedersen_agreement_any_order. Qed.
Print Assumptions C11_pedersen_agreement_any_order.

(* share on the polynomial; key = sum of the qualified dealers' contributions;
   Threshold coefficients; QUAL consists of participants *)
Theorem C11_output_share_and_key :
  forall q nodes thr fast B i c r,
    boards_ok q B -> honest q nodes thr fast B i c -> output q c B r ->
    res_idx r = i /\
    commit q (res_share r) = peval q (res_commits r) (xof q i) /\
    hd zzero (res_commits r) = psum (map (contribution q thr (bD B)) (res_qual r)) /\
    Z.of_nat (length (res_commits r)) = thr /\
    (forall d, In d (res_qual r) -> In d (map fst nodes)).
Proof. exact output_share_and_key. Qed.
Print Assumptions C11_output_share_and_key.

(* any Threshold honest output shares reconstruct (share.RecoverSecret, C07) a
   secret whose commitment is the public key *)
Theorem C11_any_t_shares_reconstruct :
  forall q, prime q -> forall nodes thr fast (B : boards q) (outs : list (Z * cfg q * result q)),
    boards_ok q B -> 1 <= thr ->
    (forall o, In o outs -> honest q nodes thr fast B (out_idx q o) (snd (fst o)) /\ output q (snd (fst o)) B (snd o) /\
                            0 <= out_idx q o < q - 1 /\ out_idx q o < 4294967295) ->
    NoDup (map (out_idx q) outs) -> (Z.to_nat thr <= length outs)%nat ->
    exists s, ShamirSM.recover_secret (Z.to_nat thr) (map (out_entry q) outs) = Some s /\
              forall o, In o outs -> commit q s = hd zzero (res_commits (snd o)).
Proof. exact any_t_shares_reconstruct. Qed.
Print Assumptions C11_any_t_shares_reconstruct.

(* an honest dealer with fewer than Threshold complaints is in QUAL *)
Theorem C11_honest_dealer_stays :
  forall q nodes thr fast B i ci d cd r,
    boards_ok q B -> honest q nodes thr fast B i ci -> honest q nodes thr fast B d cd -> output q ci B r ->
    complaints (d_row (rrec q nodes fast ci B d)) < thr ->
    In d (res_qual r).
Proof. exact honest_dealer_stays. Qed.
Print Assumptions C11_honest_dealer_stays.

(* a dealer whose invalid deal to an honest node stays unjustified is not in QUAL *)
Theorem C11_unjustified_dealer_disqualified :
  forall q nodes thr fast B i c r d b,
    boards_ok q B -> honest q nodes thr fast B i c -> output q c B r -> d <> i -> In d (map fst nodes) ->
    bundle_of q (bD B) d = Some b ->
    (forall dl sh, In dl (db_deals b) -> dl_idx dl = i -> dl_share dl = Some sh ->
                   commit q sh <> peval q (db_pub b) (xof q i)) ->
    (forall jb j, In jb (bJ B) -> jb_dealer jb = d -> In j (jb_justifs jb) -> j_idx j = i ->
                  commit q (j_share j) <> peval q (db_pub b) (xof q i)) ->
    ~ In d (res_qual r).
Proof. exact unjustified_dealer_disqualified. Qed.
Print Assumptions C11_unjustified_dealer_disqualified.

(* when everybody is honest, everybody completes with QUAL = everybody *)
Theorem C11_all_honest_complete :
  forall q nodes thr fast B (cf : Z -> cfg q),
    boards_ok q B -> (forall d, In d (map fst nodes) -> honest q nodes thr fast B d (cf d)) ->
    forall i, In i (map fst nodes) -> exists r, out_resp q (cf i) B r /\ res_qual r = map fst nodes.
Proof. exact all_honest_complete. Qed.
Print Assumptions C11_all_honest_complete.

(* the defect found by the induction (kyber's original CompleteSuccess read the
   rows of evicted dealers): two honest nodes complete with different QUAL and
   keys under the original test, agree under the repaired one *)
Theorem C11_disagreement_before_repair :
  cex_run (process_responses_unrepaired cex_q) 0 = Some (2, None, [0; 1; 2; 4], 27) /\
  cex_run (process_responses_unrepaired cex_q) 1 = Some (3, None, [0; 1; 2], 18) /\
  cex_run (process_responses_unrepaired cex_q) 2 = Some (2, None, [0; 1; 2; 4], 27).
Proof. exact disagreement_before_repair. Qed.
Print Assumptions C11_disagreement_before_repair.

(* non-vacuity of [honest]/[boards_ok]/[output]: a run with an invalid deal, a
   false complaint and justifications (regular mode), and a fast-sync run with
   a silent holder *)
Example C11_nonvacuous_system :
  boards_ok eq_ eB /\ honest eq_ enodes ethr false eB 0 (ecfg 0) /\ honest eq_ enodes ethr false eB 1 (ecfg 1) /\
  out_just eq_ (ecfg 0) eB (eres 0) /\ out_just eq_ (ecfg 1) eB (eres 1) /\
  res_qual (eres 0) = [0; 1; 2; 3] /\
  boards_ok eq_ fB /\ honest eq_ enodes ethr true fB 0 (fcfg 0) /\ out_just eq_ (fcfg 0) fB (fres 0) /\
  res_qual (fres 0) = [0; 1; 2].
Proof.
  split; [exact example_boards_ok|].
  split; [apply example_honest; cbn; tauto|].
  split; [apply example_honest; cbn; tauto|].
  split; [apply (example_output 0); cbn; tauto|].
  split; [apply (example_output 1); cbn; tauto|].
  split; [apply example_qual|].
  split; [exact fast_boards_ok|].
  split; [apply fast_honest; cbn; tauto|].
  split; [apply (fast_output 0); cbn; tauto|].
  apply fast_qual.
Qed.

(* ================================================================== *)
(* RESHARING (computeResharingResult = compute_reshare_result; proofs in
   theories/DKG/ReshareProofs.v).  [used c s]: the dealers the result is
   interpolated over - the oldT LOWEST indices among the dealers whose row
   holds no complaint, whatever the order of Config.OldNodes; [pub_of] /
   [share_of]: the public polynomial / share stored for a dealer; [index_ok q i]:
   0 <= i < q-1 and i+1 < 2^32 (x-coordinates i+1 non-zero and distinct). *)
From Coq Require Import Lia.
From Kyber Require Import DKG.ReshareProofs.

(* (R1) key preservation.  Fold = the public polynomial of the previous sharing
   (fewer than oldT+1 coefficients).  If the constant commitment of every used
   dealer's polynomial is that dealer's old public share Fold(x_i), then the
   constant term of the new commitment polynomial is Fold_0: the distributed
   public key is unchanged, for ANY other coefficients of the dealers'
   polynomials. *)
Theorem C11_reshare_key_preserved :
  forall q, prime q -> forall (c : cfg q) s r (Fold : list (zq q)),
    compute_reshare_result q c s = Some r ->
    0 < c_newT c -> (length Fold <= Z.to_nat (c_oldT c))%nat ->
    NoDup (map fst (s_d s)) ->
    (forall e, In e (used q c s) -> index_ok q (fst e)) ->
    (forall e, In e (used q c s) -> hd zzero (pub_of q e) = peval q Fold (xof q (fst e))) ->
    hd zzero (res_commits r) = hd zzero Fold.
Proof. exact reshare_key_preserved. Qed.
Print Assumptions C11_reshare_key_preserved.

(* ... and that premise is an invariant of a run: in a resharing a node stores
   a dealer's share only after checking the dealer's constant commitment
   against the old public polynomial it was configured with (c_oldpub), in
   ProcessDeals and in ProcessJustifications alike *)
Theorem C11_reshare_const_term_kept_by_deals :
  forall q (c : cfg q), c_reshare c = true -> forall bs s,
    Forall (deal_inv_c q c) (s_d s) -> Forall (deal_inv_c q c) (s_d (fold_left (deal_fold q c) bs s)).
Proof. exact deals_keep_const. Qed.
Print Assumptions C11_reshare_const_term_kept_by_deals.

Theorem C11_reshare_const_term_kept_by_justifications :
  forall q (c : cfg q), c_reshare c = true -> forall bs s,
    Forall (const_ok q c) (s_d s) -> Forall (const_ok q c) (s_d (fold_left (just_fold q c) bs s)).
Proof. exact justifs_keep_const. Qed.
Print Assumptions C11_reshare_const_term_kept_by_justifications.

Theorem C11_reshare_key_preserved_run :
  forall q, prime q -> forall (c : cfg q) s r,
    c_reshare c = true ->
    compute_reshare_result q c s = Some r ->
    0 < c_newT c -> (length (c_oldpub c) <= Z.to_nat (c_oldT c))%nat ->
    NoDup (map fst (s_d s)) ->
    (forall e, In e (used q c s) -> index_ok q (fst e)) ->
    Forall (const_ok q c) (s_d s) ->
    hd zzero (res_commits r) = hd zzero (c_oldpub c).
Proof. exact reshare_key_preserved_run. Qed.
Print Assumptions C11_reshare_key_preserved_run.

(* (R2) share consistency.  The test `peval coeffs x == commit share` inside
   computeResharingResult cannot fail when the stored share of every used dealer
   is valid for its stored polynomial at this node's index (entry_ok, kept by
   ProcessDeals / ProcessJustifications: C11_shares_valid_after_deals, ..._justifications) and the
   polynomials have at most newT coefficients: evaluating the coefficient-wise
   interpolation is interpolating the evaluations. *)
Theorem C11_reshare_share_check_passes :
  forall q, prime q -> forall (n : nat) (x : zq q) (u : list (Z * dstate q)),
    (forall e, In e u -> (length (pub_of q e) <= n)%nat /\ commit q (share_of q e) = peval q (pub_of q e) x) ->
    peval q (coeffs_of q n u) x = commit q (lagrange0 q (map (fun e => (fst e, share_of q e)) u)).
Proof. exact reshare_check_passes. Qed.
Print Assumptions C11_reshare_share_check_passes.

Theorem C11_reshare_share_on_polynomial :
  forall q (c : cfg q) s r, compute_reshare_result q c s = Some r ->
    commit q (res_share r) = peval q (res_commits r) (xof q (c_nidx c)) /\ res_idx r = c_nidx c.
Proof. exact reshare_share_on_polynomial. Qed.
Print Assumptions C11_reshare_share_on_polynomial.

(* completion: none of the error paths of computeResharingResult is taken when
   at least oldT dealers are without complaint, each of them has a stored
   polynomial (at most newT coefficients) and a valid stored share, and at least
   Threshold new nodes qualify *)
Theorem C11_reshare_completes :
  forall q, prime q -> forall (c : cfg q) s,
    let good := filter (fun e => all_true (d_row (snd e))) (s_d s) in
    (Z.to_nat (c_oldT c) <= length good)%nat ->
    (forall e, In e good -> exists p v, d_pub (snd e) = Some p /\ d_share (snd e) = Some v) ->
    (forall e, In e (used q c s) -> (length (pub_of q e) <= Z.to_nat (c_newT c))%nat /\
                                    entry_ok q (xof q (c_nidx c)) e) ->
    c_thr c <= Z.of_nat (length (filter (qual_pred q c s) (c_new c))) ->
    exists r, compute_reshare_result q c s = Some r.
Proof. exact reshare_completes. Qed.
Print Assumptions C11_reshare_completes.

(* reconstruction: new nodes that completed with the same commitment polynomial
   C - the shares of any set of them at least as large as C is long (newT)
   interpolate (RecoverSecret) to a secret whose commitment is C_0, which is the
   old public key by (R1) *)
Theorem C11_reshare_new_shares_recover :
  forall q, prime q -> forall (C : list (zq q)) (nodes : list (cfg q * st q * result q)),
    (forall n, In n nodes -> compute_reshare_result q (fst (fst n)) (snd (fst n)) = Some (snd n) /\ res_commits (snd n) = C) ->
    NoDup (map (fun n => res_idx (snd n)) nodes) ->
    Forall (index_ok q) (map (fun n => res_idx (snd n)) nodes) ->
    (length C <= length nodes)%nat ->
    commit q (lagrange0 q (map (fun n => (res_idx (snd n), res_share (snd n))) nodes)) = hd zzero C.
Proof. exact reshare_new_shares_recover. Qed.
Print Assumptions C11_reshare_new_shares_recover.

(* (R3) agreement, independent of list orders.  Two new nodes whose public
   views coincide AS SETS - the same dealers with the same "row without
   complaint" flag and the same broadcast polynomial (dview), listed in any
   order; Config.OldNodes in any order; the same evicted holders and
   thresholds - and who both complete output the same commitment polynomial and
   the same QUAL (equal lists when Config.NewNodes is the same list, equal up
   to order when it is a permutation).  The selection of the dealers sorts by
   index, and sorting lists with distinct indices is a function of the set. *)
Theorem C11_reshare_agreement :
  forall q (c1 c2 : cfg q) s1 s2 r1 r2,
    c_oldT c1 = c_oldT c2 -> c_newT c1 = c_newT c2 ->
    Permutation (c_old c1) (c_old c2) ->
    NoDup (map fst (s_d s1)) -> Permutation (dview q s1) (dview q s2) ->
    (forall i, holder_evicted q s1 i = holder_evicted q s2 i) ->
    compute_reshare_result q c1 s1 = Some r1 -> compute_reshare_result q c2 s2 = Some r2 ->
    res_commits r1 = res_commits r2 /\
    (c_new c1 = c_new c2 -> res_qual r1 = res_qual r2) /\
    (Permutation (c_new c1) (c_new c2) -> Permutation (res_qual r1) (res_qual r2)).
Proof. exact reshare_agreement. Qed.
Print Assumptions C11_reshare_agreement.

Theorem C11_reshare_selection_order_independent :
  forall (A : Type) (l1 l2 : list (Z * A)),
    NoDup (map fst l1) -> Permutation l1 l2 -> sort_by_index l1 = sort_by_index l2.
Proof. exact @sort_by_index_perm_invariant. Qed.
Print Assumptions C11_reshare_selection_order_independent.

(* non-vacuity: Z_251, old sharing f = 5 + 7x + 3x^2 (oldT = 3) held by FOUR old
   nodes (more than oldT) listed out of order, resharing to five new nodes
   (newT = 3); node 1 and node 4 see the lists in different orders.  Both
   complete, the dealers used are 0,1,2, the commitment polynomials are equal
   with constant term 5 = f(0), each share lies on it. *)
Definition rx_q : Z := 251.
Definition rx_f (v : Z) : zq rx_q := of_Z rx_q v.
Definition rx_old : list (Z * Z) := [(3, 103); (0, 100); (2, 102); (1, 101)].
Definition rx_new (me : Z) : list (Z * Z) :=
  if me =? 1 then [(4, 204); (1, 101); (0, 100); (3, 103); (2, 102)] else [(0, 100); (1, 101); (2, 102); (3, 103); (4, 204)].
Definition rx_fold : list (zq rx_q) := map rx_f [5; 7; 3].
Definition rx_priv (i : Z) : list (zq rx_q) :=
  peval rx_q rx_fold (xof rx_q i) :: map rx_f [2 + 11 * i; 9 + i * i].
Definition rx_cfg (me : Z) (old : list (Z * Z)) : cfg rx_q :=
  mkcfg old (rx_new me) 3 3 false true 0 me false true false true 3 3 [] rx_fold.
Definition rx_st (me : Z) (old : list (Z * Z)) : st rx_q :=
  mkst (map (fun o => (fst o, mkd (map (fun n => (fst n, 0)) (rx_new me))
                               (Some (peval rx_q (rx_priv (fst o)) (xof rx_q me)))
                               (Some (commit_poly rx_q (rx_priv (fst o)))) false false)) old)
       (map (fun n => (fst n, mkh false false)) (rx_new me)) false 3.
Definition rx_out (me : Z) (old : list (Z * Z)) :=
  match compute_reshare_result rx_q (rx_cfg me old) (rx_st me old) with
  | Some r => Some (res_qual r, map val (res_commits r),
                    zeqb (commit rx_q (res_share r)) (peval rx_q (res_commits r) (xof rx_q me)))
  | None => None
  end.

Example C11_reshare_nonvacuous :
  rx_out 1 rx_old = Some ([4; 1; 0; 3; 2], [5; 242; 10], true) /\
  rx_out 4 (rev rx_old) = Some ([0; 1; 2; 3; 4], [5; 242; 10], true) /\
  map fst (used rx_q (rx_cfg 1 rx_old) (rx_st 1 rx_old)) = [0; 1; 2].
Proof. vm_compute. repeat split. Qed.

(* ... and the premises of C11_reshare_key_preserved hold on it *)
Example C11_reshare_nonvacuous_premises :
  let c := rx_cfg 1 rx_old in let s := rx_st 1 rx_old in
  prime rx_q /\ 0 < c_newT c /\ (length rx_fold <= Z.to_nat (c_oldT c))%nat /\
  NoDup (map fst (s_d s)) /\
  (forall e, In e (used rx_q c s) -> index_ok rx_q (fst e)) /\
  (forall e, In e (used rx_q c s) -> hd zzero (pub_of rx_q e) = peval rx_q rx_fold (xof rx_q (fst e))).
Proof.
  split; [exact prime_251|]. split; [reflexivity|]. split; [cbn; auto|].
  split; [cbn; repeat constructor; cbn; intuition discriminate|].
  split; intros e I; vm_compute in I; repeat (destruct I as [<-|I]; [|]); try contradiction;
    try (unfold index_ok, Kyber.Share.ShamirProofs.idx_ok; cbn; lia); vm_compute; reflexivity.
Qed.

(* ================================================================== *)
(* RABIN DKG (share/dkg/rabin over share/vss/rabin; model DKG/RabinDKG.v,
   proofs DKG/RabinProofs.v).  [rexec q n t me s ks]: the state of node [me]
   after the calls [ks]; [qual]: QUAL(); [dist_key_share]: DistKeyShare(). *)
From Kyber Require Import DKG.RabinDKG DKG.RabinProofs.

(* result: at least t qualified dealers, each with a verifier record and stored
   secret commitments; the public key is the sum of the qualified dealers'
   constant commitments; the share is the sum of the shares received from them
   and lies on the output polynomial when the stored commitments are valid for
   the received shares *)
Theorem C11_rabin_result_spec :
  forall q n t me (s : rst q) p sh,
    dist_key_share q n t s = Some (p, sh) ->
    t <= Z.of_nat (length (qual q n s)) /\
    (forall i, In i (qual q n s) -> exists a pc, lookb i (r_ver q s) = Some a /\ lookb i (r_commits q s) = Some pc) /\
    hd zzero p = psum (map (fun i => hd zzero (com_of q s i)) (qual q n s)) /\
    sh = fold_right zadd zzero (map (sec_of q s) (qual q n s)) /\
    ((forall i, In i (qual q n s) -> commit q (sec_of q s i) = peval q (com_of q s i) (xof q me)) ->
     commit q sh = peval q p (xof q me)).
Proof. exact rabin_result_spec. Qed.
Print Assumptions C11_rabin_result_spec.

(* ... and the stored commitments of the OTHER dealers are valid along every
   run: ProcessSecretCommits stores them only after checking them against the
   share received from that dealer, a verifier record never changes its share;
   so the output share lies on the output polynomial (the node's own
   commitments being those of the polynomial it dealt from) *)
Theorem C11_rabin_commits_valid_along_run :
  forall q n t me ks (s : rst q), commits_ok q me s -> commits_ok q me (rexec q n t me s ks).
Proof. exact exec_commits_ok. Qed.
Print Assumptions C11_rabin_commits_valid_along_run.

Theorem C11_rabin_share_on_polynomial :
  forall q n t me ks p sh,
    let s := rexec q n t me (init_rst q t) ks in
    dist_key_share q n t s = Some (p, sh) ->
    (In me (qual q n s) -> commit q (sec_of q s me) = peval q (com_of q s me) (xof q me)) ->
    commit q sh = peval q p (xof q me).
Proof. exact rabin_share_on_polynomial. Qed.
Print Assumptions C11_rabin_share_on_polynomial.

(* agreement: two nodes with the same public view (per dealer: recorded
   responses, bad-dealer flag, threshold; pending complaint; stored secret
   commitments) that both complete output the same QUAL and polynomial *)
Theorem C11_rabin_agreement :
  forall q n t (s1 s2 : rst q) p1 sh1 p2 sh2,
    rview q n s1 = rview q n s2 ->
    dist_key_share q n t s1 = Some (p1, sh1) -> dist_key_share q n t s2 = Some (p2, sh2) ->
    qual q n s1 = qual q n s2 /\ p1 = p2.
Proof. exact rabin_agreement. Qed.
Print Assumptions C11_rabin_agreement.

(* QUAL = dealers whose deal is certified (t approvals, everybody answered or
   timed out, no bad justification) and against whom no complaint is pending *)
Theorem C11_rabin_in_qual_iff :
  forall q n (s : rst q) i,
    In i (qual q n s) <->
    0 <= i < n /\ exists a, lookb i (r_ver q s) = Some a /\ deal_certified q n a = true /\ has_pend i (r_pend q s) = false.
Proof. exact in_qual_iff. Qed.
Print Assumptions C11_rabin_in_qual_iff.

(* a recorded complaint about another dealer becomes pending, and a dealer
   with a complaint that NO valid justification of THAT complaint answers is
   out of QUAL whatever else is processed - in particular valid justifications
   of other complaints against the same dealer do not help (the class of the
   seeded change C11-m3) *)
Theorem C11_rabin_complaint_recorded :
  forall q n t me (s : rst q) d v a oe oj,
    d <> me -> lookb d (r_ver q s) = Some a -> 0 <= v < n -> lookb v (a_resps q a) = None ->
    In (d, v) (r_pend q (rstep q n t me s (RResp d v false true true true oe oj))).
Proof. exact complaint_recorded. Qed.
Print Assumptions C11_rabin_complaint_recorded.

Theorem C11_rabin_unjustified_dealer_disqualified :
  forall q n t me ks (s : rst q) d v,
    d <> me -> In (d, v) (r_pend q s) -> (forall k, In k ks -> ~ justifies q d v k) ->
    ~ In d (qual q n (rexec q n t me s ks)).
Proof. exact unjustified_dealer_disqualified. Qed.
Print Assumptions C11_rabin_unjustified_dealer_disqualified.

(* an invalid justification of a recorded complaint condemns the dealer for good *)
Theorem C11_rabin_invalid_justification_disqualifies :
  forall q n t me ks (s : rst q) d v a oe,
    lookb d (r_ver q s) = Some a -> 0 <= v < n -> lookb v (a_resps q a) = Some false ->
    ~ In d (qual q n (rexec q n t me (rstep q n t me s (RJust d v false oe)) ks)).
Proof. exact invalid_justification_disqualifies. Qed.
Print Assumptions C11_rabin_invalid_justification_disqualifies.

(* a dealer whose deal everybody approved (validly justified complaints count
   as approvals) and who is neither flagged nor complained about is in QUAL *)
Theorem C11_rabin_approved_dealer_in_qual :
  forall q n (s : rst q) d a,
    0 <= d < n -> lookb d (r_ver q s) = Some a -> all_approved q n a -> a_t q a <= n -> a_bad q a = false ->
    has_pend d (r_pend q s) = false -> In d (qual q n s).
Proof. exact approved_dealer_in_qual. Qed.
Print Assumptions C11_rabin_approved_dealer_in_qual.

(* response phase: responses about other dealers with pairwise distinct
   (dealer, verifier) - nobody equivocates - may be processed in any order: the
   states are equal up to the order of the records, QUAL and the stored
   commitments are equal.  (With two different responses of one verifier about
   one dealer the first one wins: aggregator.addResponse.) *)
Theorem C11_rabin_responses_order_independent :
  forall q n t me (ks ks' : list (rcall q)) (s : rst q),
    Permutation ks ks' -> NoDup (map (rkey q) ks) -> (forall k, In k ks -> is_resp3 q me k) -> st_wf q s ->
    st_equiv q (rexec q n t me s ks) (rexec q n t me s ks') /\
    qual q n (rexec q n t me s ks) = qual q n (rexec q n t me s ks') /\
    (forall d, lookb d (r_commits q (rexec q n t me s ks)) = lookb d (r_commits q (rexec q n t me s ks'))).
Proof. exact responses_order_independent. Qed.
Print Assumptions C11_rabin_responses_order_independent.

(* rabin_partial (what is NOT a theorem): order independence of the
   justification phase and of the responses about the node's OWN deal (they
   also drive the node's own aggregator and its justifications);
   ProcessComplaintCommits / ProcessReconstructCommits are not modelled; the
   cross-node statement "the public views of two honest nodes coincide after
   each phase" (C11_rabin_agreement takes equal views as a premise).  Carried
   by the correspondence and the oracles of harness/cmd/c11. *)

(* non-vacuity: node 1 of 3 (t = 2) over Z_251; dealer 0 gave node 2 an invalid
   deal, node 2 complains.  With dealer 0's valid justification everybody is
   qualified and the key is 3+7+11; without it dealer 0 is out and the key is
   7+11; the model run accepts the call sequence; the responses may come in the
   reverse order. *)
Definition bq : Z := 251.
Definition bf (v : Z) : zq bq := of_Z bq v.
Definition bpoly (i : Z) : list (zq bq) := map bf (if i =? 0 then [3; 5] else if i =? 1 then [7; 2] else [11; 1]).
Definition bshare (i : Z) : zq bq := peval bq (bpoly i) (xof bq 1).
Definition bdeals : list (rcall bq) :=
  [RDeal 1 true true 2 (bshare 1) false true; RDeal 0 true true 2 (bshare 0) false true; RDeal 2 true true 2 (bshare 2) false true].
Definition bresps : list (rcall bq) :=
  [RResp 0 2 false true true true false false; RResp 1 0 true true true true false false;
   RResp 1 2 true true true true false false; RResp 2 0 true true true true false false].
Definition bfinish : list (rcall bq) :=
  [RTimeout; RSecCommits (Some (bpoly 1)); RProcSC 0 (bpoly 0) true true false false; RProcSC 2 (bpoly 2) true true false false].
Definition bjust : list (rcall bq) := [RJust 0 2 true false].
Definition brun (rs js : list (rcall bq)) := rexec bq 3 2 1 (init_rst bq 2) (bdeals ++ rs ++ js ++ bfinish).

Example C11_rabin_nonvacuous :
  qual bq 3 (brun bresps bjust) = [0; 1; 2] /\ qual bq 3 (brun bresps []) = [1; 2] /\
  qual bq 3 (brun (rev bresps) bjust) = [0; 1; 2] /\
  match dist_key_share bq 3 2 (brun bresps bjust) with
  | Some (p, sh) => map val p = [21; 8] /\ val sh = 37 /\ commit bq sh = peval bq p (xof bq 1)
  | None => False
  end /\
  match dist_key_share bq 3 2 (brun bresps []) with Some (p, sh) => map val p = [18; 3] | None => False end /\
  rabin_run bq 3 2 1 (bdeals ++ bresps ++ bjust ++ bfinish) = true /\
  In (0, 2) (r_pend bq (rexec bq 3 2 1 (init_rst bq 2) (bdeals ++ bresps))).
Proof. vm_compute. repeat split; auto. Qed.

(* ================================================================== *)
(* Towards the cross-phase agreement of a RESHARING (DKG/ReshareViews.v).
   C11_reshare_agreement needs two honest new nodes to hold the same public
   view.  Proved for every configuration (old dealers, new holders, both):
   the eviction flags and stored public polynomials after ProcessDeals, the
   status-matrix columns of third parties (C11_responses_column_function) and
   the holder records after the response bundles are functions of the boards.

   reshare_cross_phase_partial - still missing for the full induction: (a) the
   node's OWN column: that what it holds for itself equals what the others derive
   from its response bundle (my_responses) - for a resharing this involves the
   evicted-dealer cells that are never announced and are neutralised by
   complete_success / mark_evicted; (b) that the eviction steps of
   ProcessResponses (evict_silent, evict_complained) and the finish decision
   coincide - they are functions of the columns and holder records above, which
   remains to be assembled; (c) the justification phase (just_step reads d_ev,
   d_pub: equal by the deal-phase theorem; writes cells and d_ev); (d) the
   system semantics with two node lists tying these per-phase facts to boards
   (DKG/Agreement.v has one list).  The correspondence and the oracles of
   harness/cmd/c11 carry the end-to-end statement. *)
From Kyber Require Import DKG.ReshareViews.

Theorem C11_reshare_deal_phase_public_view :
  forall q (c1 c2 : cfg q) (bs : list (deal_bundle q)) s1 s2,
    c_new c1 = c_new c2 -> c_thr c1 = c_thr c2 ->
    (forall b, In b bs -> own_bundle q c1 b = false /\ own_bundle q c2 b = false) ->
    dpubs q s1 = dpubs q s2 ->
    dpubs q (fold_left (deal_fold q c1) bs s1) = dpubs q (fold_left (deal_fold q c2) bs s2).
Proof. exact deal_phase_public_view. Qed.
Print Assumptions C11_reshare_deal_phase_public_view.

Theorem C11_reshare_responses_holder_flags :
  forall q (c1 c2 : cfg q) bs s1 s2,
    c_old c1 = c_old c2 -> c_new c1 = c_new c2 -> c_fast c1 = c_fast c2 ->
    (forall b, In b bs -> skips q c1 b = skips q c2 b) ->
    s_h s1 = s_h s2 ->
    s_h (fold_left (resp_step q c1) bs s1) = s_h (fold_left (resp_step q c2) bs s2).
Proof. exact responses_holder_flags. Qed.
Print Assumptions C11_reshare_responses_holder_flags.
