(* Property C07 - Shamir sharing: any t valid shares reconstruct; commitments
   bind shares.  Only statements, each closed by [exact]; the proofs are in
   theories/Share/{PolyFacts,ShamirProofs}.v, the model of share/poly.go in
   theories/Share/ShamirSM.v.  Scalars are the field zq q (q prime); a point of
   the prime-order group is its discrete logarithm (Algebra/Grp.v).

   A share slice is a [list (entry q)], entry = option (index * option value):
   [None] is a nil pointer, [(i, None)] a share whose V is nil.  [valid_idx sh]
   lists the indices of the entries that carry a value; the number of DISTINCT
   ones is [length (nodup Z.eq_dec (valid_idx sh))].  Share indices must satisfy
   0 <= i < q-1 and i < 2^32-1: then the x-coordinates i+1 are non-zero,
   pairwise distinct mod q, and free of the uint32 wrap-around of xyScalar. *)
From Coq Require Import ZArith Znumtheory List Bool Permutation.
From Kyber Require Import Algebra.Zq Algebra.Grp Share.ShamirSM Share.PolyFacts Share.ShamirProofs.
Import ListNotations.

(* ---- the algebraic core: root bound and uniqueness of interpolation *)
Theorem C07_nonzero_poly_few_roots :
  forall q, prime q -> forall xs p : list (zq q),
    NoDup xs -> (exists c, In c p /\ c <> zzero) ->
    (forall x, In x xs -> peval p x = zzero) -> (length xs < length p)%nat.
Proof. exact nonzero_poly_few_roots. Qed.
Print Assumptions C07_nonzero_poly_few_roots.

Theorem C07_interp_unique :
  forall q, prime q -> forall xs p r : list (zq q),
    NoDup xs -> length p = length r -> (length p <= length xs)%nat ->
    (forall x, In x xs -> peval p x = peval r x) -> p = r.
Proof. exact interp_unique. Qed.
Print Assumptions C07_interp_unique.

(* ---- any >= t distinct valid shares, in any order, with nil entries, entries
   without value, duplicates and surplus shares, under ANY sorting algorithm
   (stable or not, or none): the same secret, the same commitment, the same
   private and public polynomial *)
Theorem C07_recover_correct :
  forall q, prime q ->
  forall (t : nat) (c : list (zq q)) (sh : list (entry q)) (sorted : list (Z * option (zq q))),
    (1 <= t)%nat -> length c = t ->
    (forall i y, In (Some (i, Some y)) sh ->
       (0 <= i < q - 1)%Z /\ (i < 4294967295)%Z /\ y = peval c (xeval q i)) ->
    (t <= length (nodup Z.eq_dec (valid_idx sh)))%nat ->
    Permutation sorted (nonnil sh) ->
    recover_secret_from t sorted = Some (hd zzero c) /\
    recover_commit_from t sorted = Some (hd zzero c) /\
    recover_pripoly_from t sorted = Some c /\
    exists b0, recover_pubpoly_from t sorted = Some (b0, c).
Proof. exact recover_secret_correct_any_sort. Qed.
Print Assumptions C07_recover_correct.

(* the functions as modelled (sort.Sort = the model's insertion sort) *)
Theorem C07_recover_secret_correct :
  forall q, prime q -> forall (t : nat) (c : list (zq q)) (sh : list (entry q)),
    (1 <= t)%nat -> length c = t ->
    (forall i y, In (Some (i, Some y)) sh ->
       (0 <= i < q - 1)%Z /\ (i < 4294967295)%Z /\ y = peval c (xeval q i)) ->
    (t <= length (nodup Z.eq_dec (valid_idx sh)))%nat ->
    recover_secret t sh = Some (hd zzero c).
Proof. exact recover_secret_correct. Qed.
Print Assumptions C07_recover_secret_correct.

Theorem C07_recover_pripoly_correct :
  forall q, prime q -> forall (t : nat) (c : list (zq q)) (sh : list (entry q)),
    (1 <= t)%nat -> length c = t ->
    (forall i y, In (Some (i, Some y)) sh ->
       (0 <= i < q - 1)%Z /\ (i < 4294967295)%Z /\ y = peval c (xeval q i)) ->
    (t <= length (nodup Z.eq_dec (valid_idx sh)))%nat ->
    recover_pripoly t sh = Some c.
Proof. exact recover_pripoly_correct. Qed.
Print Assumptions C07_recover_pripoly_correct.

(* public shares on ANY public polynomial cm (list of points) *)
Theorem C07_recover_commit_correct :
  forall q, prime q -> forall (t : nat) (cm : list (zq q)) (psh : list (entry q)),
    (1 <= t)%nat -> length cm = t ->
    (forall i y, In (Some (i, Some y)) psh ->
       (0 <= i < q - 1)%Z /\ (i < 4294967295)%Z /\ y = snd (pub_eval cm i)) ->
    (t <= length (nodup Z.eq_dec (valid_idx psh)))%nat ->
    recover_commit t psh = Some (hd pzero cm) /\
    exists b0, recover_pubpoly t psh = Some (b0, cm).
Proof. exact recover_commit_correct. Qed.
Print Assumptions C07_recover_commit_correct.

(* end to end: slices made of the dealer's Shares(n) / of the Shares(n) of the
   dealer's commitment under base b *)
Theorem C07_recover_from_dealer_shares :
  forall q, prime q -> forall (t n : nat) (c : list (zq q)) (b : zq q),
    (1 <= t)%nat -> length c = t -> (Z.of_nat n < q)%Z /\ (Z.of_nat n < 4294967296)%Z ->
    forall sh psh : list (entry q),
    (forall i y, In (Some (i, Some y)) sh -> In (i, y) (pri_shares c n)) ->
    (forall i y, In (Some (i, Some y)) psh -> In (i, y) (pub_shares (commit b c) n)) ->
    ((t <= length (nodup Z.eq_dec (valid_idx sh)))%nat ->
       recover_secret t sh = Some (hd zzero c) /\ recover_pripoly t sh = Some c) /\
    ((t <= length (nodup Z.eq_dec (valid_idx psh)))%nat ->
       recover_commit t psh = Some (smul (hd zzero c) b) /\
       exists b0, recover_pubpoly t psh = Some (b0, commit b c)).
Proof. exact recover_from_dealer_shares. Qed.
Print Assumptions C07_recover_from_dealer_shares.

(* every iteration order of the Go maps (outer loop and, separately, each inner
   loop) gives the secret, the commitment and the polynomial *)
Theorem C07_recover_any_map_order :
  forall q, prime q -> forall t : nat, (1 <= t)%nat ->
  forall l : list (Z * option (zq q)), (t <= distinct l)%nat ->
  forall c : list (zq q), length c = t -> on_polynomial c l ->
  forall (outer : list (Z * zq q)) (inner : Z -> list (Z * zq q)),
    Permutation outer (select_from t l) -> (forall i, Permutation (inner i) (select_from t l)) ->
    lagrange0_gen outer inner = hd zzero c /\
    lagrange0_pub_gen outer inner = hd zzero c /\
    interp_gen outer inner = Some c.
Proof. exact recover_any_order. Qed.
Print Assumptions C07_recover_any_map_order.

(* ... and the outputs do not depend on those orders even for arbitrary share values *)
Theorem C07_recover_map_order_independent :
  forall q, prime q -> forall t : nat, (1 <= t)%nat ->
  forall l : list (Z * option (zq q)), (t <= distinct l)%nat ->
  forall (outer : list (Z * zq q)) (inner : Z -> list (Z * zq q)),
    indices_ok l ->
    Permutation outer (select_from t l) -> (forall i, Permutation (inner i) (select_from t l)) ->
    let m := select_from t l in
    interp_gen outer inner = interp_gen m (fun _ => m) /\
    lagrange0_gen outer inner = lagrange0_gen m (fun _ => m) /\
    lagrange0_pub_gen outer inner = lagrange0_pub_gen m (fun _ => m).
Proof. exact recover_order_independent. Qed.
Print Assumptions C07_recover_map_order_independent.

(* two slices over the same polynomial give the same results *)
Theorem C07_recover_slice_independent :
  forall q, prime q -> forall (t : nat) (c : list (zq q)) (sh sh' : list (entry q)),
    (1 <= t)%nat -> length c = t -> shares_on c sh -> shares_on c sh' ->
    (t <= length (nodup Z.eq_dec (valid_idx sh)))%nat ->
    (t <= length (nodup Z.eq_dec (valid_idx sh')))%nat ->
    recover_secret t sh = recover_secret t sh' /\ recover_commit t sh = recover_commit t sh' /\
    recover_pripoly t sh = recover_pripoly t sh'.
Proof. exact recover_slice_independent. Qed.
Print Assumptions C07_recover_slice_independent.

(* ---- fewer than t distinct indices with a value: refused (any values, any
   order, any sorting algorithm, any q) *)
Theorem C07_recover_refuses :
  forall q (t : nat) (sh : list (entry q)) (sorted : list (Z * option (zq q))),
    (length (nodup Z.eq_dec (valid_idx sh)) < t)%nat ->
    Permutation sorted (nonnil sh) ->
    recover_secret_from t sorted = None /\ recover_commit_from t sorted = None /\
    recover_pripoly_from t sorted = None /\ recover_pubpoly_from t sorted = None.
Proof. exact recover_refuses. Qed.
Print Assumptions C07_recover_refuses.

Theorem C07_recover_refuses_model :
  forall q (t : nat) (sh : list (entry q)),
    (length (nodup Z.eq_dec (valid_idx sh)) < t)%nat ->
    recover_secret t sh = None /\ recover_commit t sh = None /\
    recover_pripoly t sh = None /\ recover_pubpoly t sh = None.
Proof. exact recover_secret_refuses. Qed.
Print Assumptions C07_recover_refuses_model.

(* ---- commitments: the public polynomial evaluates at i to the commitment of
   private share i *)
Theorem C07_eval_commit_commute :
  forall q, prime q -> forall (b : zq q) (c : list (zq q)) (i : Z),
    pub_eval (commit b c) i = (i, smul (snd (pri_eval c i)) b).
Proof. exact eval_commit_commute. Qed.
Print Assumptions C07_eval_commit_commute.

Theorem C07_pub_shares_commit :
  forall q, prime q -> forall (b : zq q) (c : list (zq q)) (n : nat),
    pub_shares (commit b c) n = map (fun s => (fst s, smul (snd s) b)) (pri_shares c n).
Proof. exact pub_shares_commit. Qed.
Print Assumptions C07_pub_shares_commit.

(* Check accepts exactly the shares on the committed polynomial (base point
   other than the identity, i.e. a generator of the prime-order group) *)
Theorem C07_check_iff_on_poly :
  forall q, prime q -> forall (b : zq q) (c : list (zq q)) (i : Z) (v : zq q),
    b <> pzero ->
    (check b (commit b c) (i, v) = true <-> v = peval c (xeval q i)).
Proof. exact check_iff_on_poly. Qed.
Print Assumptions C07_check_iff_on_poly.

(* Check against any public polynomial, any base *)
Theorem C07_check_spec :
  forall q (b : zq q) (cm : list (zq q)) (i : Z) (v : zq q),
    check b cm (i, v) = true <-> pub_peval cm (xeval q i) = smul v b.
Proof. exact check_spec. Qed.
Print Assumptions C07_check_spec.

(* ---- Add and Mul commute with evaluation and commitment *)
Theorem C07_add_eval :
  forall q, prime q -> forall (p r s : list (zq q)) (i : Z), poly_add p r = Some s ->
    pri_eval s i = (i, zadd (snd (pri_eval p i)) (snd (pri_eval r i))) /\ length s = length p.
Proof. exact add_eval. Qed.
Print Assumptions C07_add_eval.

Theorem C07_add_defined_iff :
  forall q (p r : list (zq q)),
    (length p = length r <-> poly_add p r = Some (zip_add p r)) /\
    (length p <> length r <-> poly_add p r = None).
Proof. intros q p r. split; [exact (poly_add_some q p r)|exact (poly_add_none q p r)]. Qed.
Print Assumptions C07_add_defined_iff.

Theorem C07_add_commit :
  forall q, prime q -> forall (b : zq q) (p r : list (zq q)),
    pub_add (commit b p) (commit b r) = option_map (commit b) (poly_add p r).
Proof. exact add_commit. Qed.
Print Assumptions C07_add_commit.

Theorem C07_pub_add_eval :
  forall q, prime q -> forall (p r s : list (zq q)) (i : Z), pub_add p r = Some s ->
    pub_eval s i = (i, padd (snd (pub_eval p i)) (snd (pub_eval r i))).
Proof. exact pub_add_eval. Qed.
Print Assumptions C07_pub_add_eval.

Theorem C07_mul_eval :
  forall q, prime q -> forall (p r m : list (zq q)) (i : Z), poly_mul p r = Some m ->
    pri_eval m i = (i, zmul (snd (pri_eval p i)) (snd (pri_eval r i))) /\
    length m = (length p + length r - 1)%nat.
Proof. exact mul_eval. Qed.
Print Assumptions C07_mul_eval.

Theorem C07_mul_commit_eval :
  forall q, prime q -> forall (b : zq q) (p r m : list (zq q)) (i : Z), poly_mul p r = Some m ->
    pub_eval (commit b m) i = (i, smul (zmul (snd (pri_eval p i)) (snd (pri_eval r i))) b).
Proof. exact mul_commit_eval. Qed.
Print Assumptions C07_mul_commit_eval.

Theorem C07_mul_defined :
  forall q (p r : list (zq q)), p <> [] -> r <> [] -> exists m, poly_mul p r = Some m.
Proof. exact mul_defined. Qed.
Print Assumptions C07_mul_defined.

(* the model's sort is a sort *)
Theorem C07_sort_is_sort :
  forall q (l : list (Z * option (zq q))),
    Permutation (sort_by_idx l) l /\
    Sorted.Sorted (fun a b => (fst a <= fst b)%Z) (sort_by_idx l).
Proof. intros q l. split; [exact (sort_by_idx_perm q l)|exact (sort_by_idx_sorted q l)]. Qed.
Print Assumptions C07_sort_is_sort.

(* which shares are interpolated: the first t distinct indices that carry a
   value, in the order of the sorted slice (hence the t smallest) *)
Theorem C07_select_keys :
  forall q (t : nat) (l : list (Z * option (zq q))), (1 <= t)%nat ->
    keys (select_from t l) = firstn t (dedup_acc [] (vidx l)).
Proof. exact select_keys_spec. Qed.
Print Assumptions C07_select_keys.

(* ---- non-vacuity: q = 251, t = 3, n = 5, polynomial 7 + 11 X + 13 X^2, base 5;
   the slice holds a nil pointer, a share without value, the five shares in
   reverse order and two duplicates.  All premises of
   C07_recover_from_dealer_shares hold and the model computes the secret 7, the
   commitment 35, the polynomial and the committed polynomial; with only two
   distinct shares it refuses; Check accepts share 2 and rejects it when altered. *)
Example C07_nonvacuous :
  let q := 251%Z in
  let c := map (of_Z q) [7; 11; 13]%Z in
  let b := of_Z q 5 in
  let mk := fun l : list (Z * zq q) => map (fun s => Some (fst s, Some (snd s))) l in
  let sh := None :: Some (4%Z, None) :: mk (rev (pri_shares c 5) ++ pri_shares c 2) in
  let psh := None :: Some (4%Z, None) :: mk (rev (pub_shares (commit b c) 5) ++ pub_shares (commit b c) 2) in
  prime q /\ length c = 3%nat /\ ((Z.of_nat 5 < q)%Z /\ (Z.of_nat 5 < 4294967296)%Z) /\
  (forall i y, In (Some (i, Some y)) sh -> In (i, y) (pri_shares c 5)) /\
  (forall i y, In (Some (i, Some y)) psh -> In (i, y) (pub_shares (commit b c) 5)) /\
  (3 <= length (nodup Z.eq_dec (valid_idx sh)))%nat /\
  (3 <= length (nodup Z.eq_dec (valid_idx psh)))%nat /\
  option_map val (recover_secret 3 sh) = Some 7%Z /\
  option_map val (recover_commit 3 psh) = Some 35%Z /\
  option_map (map val) (recover_pripoly 3 sh) = Some [7; 11; 13]%Z /\
  option_map (fun r => map val (snd r)) (recover_pubpoly 3 psh) = Some [35; 55; 65]%Z /\
  recover_secret 3 (None :: Some (4%Z, None) :: mk (pri_shares c 2 ++ pri_shares c 2)) = None /\
  check b (commit b c) (2%Z, snd (pri_eval c 2)) = true /\
  check b (commit b c) (2%Z, zadd (snd (pri_eval c 2)) zone) = false.
Proof.
  cbv zeta.
  assert (In5 : forall (A : Type) (l5 l2 : list (Z * A)) i y,
            (forall s, In s l2 -> In s l5) ->
            In (Some (i, Some y))
               (None :: Some (4%Z, None) ::
                map (fun s : Z * A => Some (fst s, Some (snd s))) (rev l5 ++ l2)) ->
            In (i, y) l5).
  { intros A l5 l2 i y Hsub [H|[H|H]]; try discriminate.
    apply in_map_iff in H. destruct H as [[i' y'] [E H]]. cbn [fst snd] in E.
    injection E as -> ->. apply in_app_iff in H. destruct H as [H|H].
    - apply in_rev. exact H.
    - apply Hsub. exact H. }
  split; [exact prime_251|].
  split; [reflexivity|].
  split; [split; reflexivity|].
  split.
  { intros i y H. apply (In5 _ _ _ i y) in H; [exact H|].
    intros s Hs. unfold pri_shares, zseq in *. apply in_map_iff in Hs. destruct Hs as [k [<- Hk]].
    apply in_map. apply in_map_iff in Hk. destruct Hk as [k' [<- Hk']]. apply in_map.
    apply in_seq in Hk'. apply in_seq. cbn in *. auto with zarith. }
  split.
  { intros i y H. apply (In5 _ _ _ i y) in H; [exact H|].
    intros s Hs. unfold pub_shares, zseq in *. apply in_map_iff in Hs. destruct Hs as [k [<- Hk]].
    apply in_map. apply in_map_iff in Hk. destruct Hk as [k' [<- Hk']]. apply in_map.
    apply in_seq in Hk'. apply in_seq. cbn in *. auto with zarith. }
  vm_compute. repeat split; auto.
Qed.

(* ---- arbitrary values (what a Pedersen resharing feeds to the Recover
   functions: values of UNRELATED polynomials, so the choice of the t entries
   matters): for a slice whose non-nil entries carry pairwise distinct indices,
   every reordering of the slice and every placement of nil pointers selects the
   same entries and gives the same four results - whatever the values are. *)
From Kyber Require Import Share.ShamirPerm.
Theorem C07_recover_order_independent_on_arbitrary_values :
  forall q (t : nat) (sh1 sh2 : list (entry q)),
    NoDup (map fst (nonnil sh1)) -> Permutation.Permutation (nonnil sh1) (nonnil sh2) ->
    select t sh1 = select t sh2 /\
    recover_secret t sh1 = recover_secret t sh2 /\
    recover_commit t sh1 = recover_commit t sh2 /\
    recover_pripoly t sh1 = recover_pripoly t sh2.
Proof. exact select_perm_invariant. Qed.
Print Assumptions C07_recover_order_independent_on_arbitrary_values.
