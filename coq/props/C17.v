(* Property C17 - Pick, Embed and hash-to-group give group members; Embed is
   lossless.  Statements only, each closed by [exact]; the proofs are in
   theories/Embed/{EmbedProofs,EmbedBytes,EmbedGroups,EmbedEd,EmbedXmd}.v.

   The model (theories/Embed/EmbedSM.v) is written over a record of field
   operations [fops]; the theorems hold for EVERY lawful instance [fops_ok O p]
   (ring laws, decidable equality, canonical representatives in [0,p)); the
   integers modulo p of Algebra/Zq are such an instance ([zq_ops_ok]); the
   correspondence run executes the same definitions on the Bignums instance.
   The stream is a list of bytes; [bytes s] says every element is in [0,256).
   Hashes are arbitrary functions [H].                                        *)
From Coq Require Import ZArith List Bool.
From Kyber Require Import CurveRef.Field CurveRef.Edwards CurveRef.Weierstrass
  Embed.EmbedSM Embed.EmbedProofs Embed.EmbedBytes Embed.EmbedGroups Embed.EmbedEd Embed.EmbedXmd Embed.EmbedNV.
Import ListNotations.
Local Open Scope Z_scope.

(* ---------------------------------------------------------------- retry loops *)

(* fuel >= number of candidates examined suffices; more fuel changes nothing *)
Theorem C17_retry_fuel : forall (A : Type) (step : list Z -> option (option A * list Z)) f s r,
    retry step f s = Some r ->
    forall f', (tries step f s <= f')%nat -> retry step f' s = Some r.
Proof. exact @retry_exact_fuel. Qed.
Print Assumptions C17_retry_fuel.

(* ------------------------------------------- determinism (all modelled groups) *)
(* the result and the number of bytes consumed are a function of the consumed
   prefix of the stream: any stream with the same first n bytes gives the same *)

Theorem C17_ed_embed_deterministic : forall (F : Type) (O : fops F) (K : edc) fuel data s (P : ept) rest,
    ed_embed O K fuel data s = Some (P, rest) ->
    exists n : nat, (n <= length s)%nat /\ rest = skipn n s /\
      forall s2, firstn n s2 = firstn n s -> (n <= length s2)%nat ->
                 ed_embed O K fuel data s2 = Some (P, skipn n s2).
Proof. exact @ed_embed_deterministic. Qed.
Print Assumptions C17_ed_embed_deterministic.

Theorem C17_p256_embed_deterministic : forall (F : Type) (O : fops F) fuel data s (P : Z * Z) rest,
    p256_embed O fuel data s = Some (P, rest) ->
    exists n : nat, (n <= length s)%nat /\ rest = skipn n s /\
      forall s2, firstn n s2 = firstn n s -> (n <= length s2)%nat ->
                 p256_embed O fuel data s2 = Some (P, skipn n s2).
Proof. exact @p256_embed_deterministic. Qed.
Print Assumptions C17_p256_embed_deterministic.

Theorem C17_bn256_embed_deterministic : forall (F : Type) (O : fops F) fuel data s (P : Z * Z) rest,
    bn256_embed O fuel data s = Some (P, rest) ->
    exists n : nat, (n <= length s)%nat /\ rest = skipn n s /\
      forall s2, firstn n s2 = firstn n s -> (n <= length s2)%nat ->
                 bn256_embed O fuel data s2 = Some (P, skipn n s2).
Proof. exact @bn256_embed_deterministic. Qed.
Print Assumptions C17_bn256_embed_deterministic.

Theorem C17_qr_embed_deterministic : forall (F : Type) (O : fops F) (P Q : Z) fuel data s v rest,
    qr_embed O P Q fuel data s = Some (v, rest) ->
    exists n : nat, (n <= length s)%nat /\ rest = skipn n s /\
      forall s2, firstn n s2 = firstn n s -> (n <= length s2)%nat ->
                 qr_embed O P Q fuel data s2 = Some (v, skipn n s2).
Proof. exact @qr_embed_deterministic. Qed.
Print Assumptions C17_qr_embed_deterministic.

(* ----------------------------------------------------- Embed / Data is lossless *)
(* for all data and all streams: Data returns the first EmbedLen bytes of the
   data, also after encoding and decoding the point *)

Theorem C17_ed_embed_roundtrip : forall (F : Type) (O : fops F), fops_ok O ed_p ->
    forall (K : edc) fuel d s (P : ept) rest,
    bytes s -> bytes d ->
    ed_embed O K fuel (Some d) s = Some (P, rest) ->
    ed_data O P = Some (firstn ed_embedlen d) /\
    (exists P' : ept, ed_decode O K (ed_encode O P) = Some P' /\ ed_data O P' = Some (firstn ed_embedlen d)) /\
    ed_is_null O (ed_mul O K ed_L P) = true.
Proof. exact @ed_embed_roundtrip. Qed.
Print Assumptions C17_ed_embed_roundtrip.

Theorem C17_p256_embed_roundtrip : forall (F : Type) (O : fops F), fops_ok O (w_p p256) ->
    forall fuel d s x y rest,
    bytes s -> bytes d ->
    p256_embed O fuel (Some d) s = Some ((x, y), rest) ->
    p256_data (x, y) = Some (firstn p256_embedlen d) /\ p256_dec (p256_enc (x, y)) = Some (x, y).
Proof. exact @p256_embed_roundtrip. Qed.
Print Assumptions C17_p256_embed_roundtrip.

Theorem C17_bn256_embed_roundtrip : forall (F : Type) (O : fops F), fops_ok O (w_p bn256) ->
    forall fuel d s X Y rest,
    bytes s -> bytes d ->
    bn256_embed O fuel (Some d) s = Some ((X, Y), rest) ->
    bn256_data (X, Y) = Some (firstn bn256_embedlen d) /\ bn256_dec O (bn256_enc (X, Y)) = Some (X, Y).
Proof. exact @bn256_embed_roundtrip. Qed.
Print Assumptions C17_bn256_embed_roundtrip.

Theorem C17_qr_embed_roundtrip : forall (F : Type) (O : fops F) (P Q : Z),
    32 <= Z.log2 P + 1 < 65536 * 8 ->
    forall fuel d s v rest,
    bytes s -> bytes d ->
    qr_embed O P Q fuel (Some d) s = Some (v, rest) ->
    qr_data P v = Some (firstn (qr_embedlen P) d) /\ qr_dec O P Q (qr_enc P v) = Some v.
Proof. exact @qr_embed_roundtrip. Qed.
Print Assumptions C17_qr_embed_roundtrip.

(* different data give different points *)
Theorem C17_ed_embed_injective : forall (F : Type) (O : fops F), fops_ok O ed_p ->
    forall (K : edc) fuel1 fuel2 d1 d2 s1 s2 (P : ept) rest1 rest2,
    bytes s1 -> bytes s2 -> bytes d1 -> bytes d2 ->
    ed_embed O K fuel1 (Some d1) s1 = Some (P, rest1) ->
    ed_embed O K fuel2 (Some d2) s2 = Some (P, rest2) ->
    firstn ed_embedlen d1 = firstn ed_embedlen d2.
Proof. exact @ed_embed_injective. Qed.
Print Assumptions C17_ed_embed_injective.

Theorem C17_p256_embed_injective : forall (F : Type) (O : fops F), fops_ok O (w_p p256) ->
    forall fuel1 fuel2 d1 d2 s1 s2 (P : Z * Z) rest1 rest2,
    bytes s1 -> bytes s2 -> bytes d1 -> bytes d2 ->
    p256_embed O fuel1 (Some d1) s1 = Some (P, rest1) ->
    p256_embed O fuel2 (Some d2) s2 = Some (P, rest2) ->
    firstn p256_embedlen d1 = firstn p256_embedlen d2.
Proof. exact @p256_embed_injective. Qed.
Print Assumptions C17_p256_embed_injective.

(* Data reports an error exactly for a length field above EmbedLen (the three layouts) *)
Theorem C17_data_err :
    (forall elen b, data_le elen b = None <-> Z.of_nat elen < nth 0 b 0) /\
    (forall elen b, data_be elen b = None <-> Z.of_nat elen < nth (length b - 1) b 0) /\
    (forall elen b, data_be2 elen b = None <->
                    Z.of_nat elen < nth (length b - 2) b 0 * 256 + nth (length b - 1) b 0).
Proof. exact (conj data_le_err (conj data_be_err data_be2_err)). Qed.
Print Assumptions C17_data_err.

(* --------------------------------------------------------------------- membership *)

(* Ed25519 with data: on the curve (Z = 1, T = XY, curve equation) and the
   explicit test L*P = O passed *)
Theorem C17_ed_embed_member_data : forall (F : Type) (O : fops F), fops_ok O ed_p ->
    forall K : edc, fmul O (c_sqrtm1 K) (c_sqrtm1 K) = fneg O (f1 O) ->
    forall fuel d s (P : ept) rest,
    bytes s -> bytes d ->
    ed_embed O K fuel (Some d) s = Some (P, rest) ->
    ed_oncurve O K P /\ ed_is_null O (ed_mul O K ed_L P) = true.
Proof. exact @ed_embed_member_data. Qed.
Print Assumptions C17_ed_embed_member_data.

(* Ed25519 Pick: P = 8*Q for a curve point Q, P <> O, and L*P = O given that
   8*(any curve point) is killed by L (the curve group has order 8L: explicit
   hypothesis) *)
Theorem C17_ed_pick_member : forall (F : Type) (O : fops F), fops_ok O ed_p ->
    forall K : edc, fmul O (c_sqrtm1 K) (c_sqrtm1 K) = fneg O (f1 O) ->
    forall fuel s (P : ept) rest,
    (forall Q : ept, ed_oncurve O K Q -> ed_is_null O (ed_mul O K ed_L (ed_mul O K 8 Q)) = true) ->
    ed_embed O K fuel None s = Some (P, rest) ->
    (exists Q : ept, ed_oncurve O K Q /\ P = ed_mul O K 8 Q) /\
    ed_is_null O (ed_mul O K ed_L P) = true /\ ed_is_null O P = false.
Proof. exact @ed_pick_member. Qed.
Print Assumptions C17_ed_pick_member.

(* the encoded y coordinate of every encoded point is canonical (< p) *)
Theorem C17_ed_encode_y_canonical : forall (F : Type) (O : fops F), fops_ok O ed_p ->
    forall P : ept, exists yv, 0 <= yv < ed_p /\ firstn 31 (ed_encode O P) = le_bytes 31 yv.
Proof. exact @ed_encode_y_canonical. Qed.
Print Assumptions C17_ed_encode_y_canonical.

(* P-256 (cofactor 1), with the repaired genPoint: x < p, the curve equation,
   y in [0,p] and y = p only for a root of the cubic (a point of order 2) *)
Theorem C17_p256_embed_member : forall (F : Type) (O : fops F), fops_ok O (w_p p256) ->
    forall fuel data s x y rest,
    bytes s -> data_bytes data ->
    p256_embed O fuel data s = Some ((x, y), rest) ->
    0 <= x < w_p p256 /\ 0 <= y <= w_p p256 /\
    (y * y) mod w_p p256 = (x * x * x - 3 * x + w_b p256) mod w_p p256 /\
    (y = w_p p256 -> (x * x * x - 3 * x + w_b p256) mod w_p p256 = 0).
Proof. exact @p256_embed_member. Qed.
Print Assumptions C17_p256_embed_member.

(* ... hence y < p, P-256 having no point of order 2 (its order is an odd prime) *)
Theorem C17_p256_embed_member_strict : forall (F : Type) (O : fops F), fops_ok O (w_p p256) ->
    forall fuel data s x y rest,
    (forall x0, (x0 * x0 * x0 - 3 * x0 + w_b p256) mod w_p p256 <> 0) ->
    bytes s -> data_bytes data ->
    p256_embed O fuel data s = Some ((x, y), rest) ->
    0 <= x < w_p p256 /\ 0 <= y < w_p p256 /\
    (y * y) mod w_p p256 = (x * x * x - 3 * x + w_b p256) mod w_p p256.
Proof. exact @p256_embed_member_strict. Qed.
Print Assumptions C17_p256_embed_member_strict.

Theorem C17_bn256_embed_member : forall (F : Type) (O : fops F), fops_ok O (w_p bn256) ->
    forall fuel data s X Y rest,
    bytes s -> data_bytes data ->
    bn256_embed O fuel data s = Some ((X, Y), rest) ->
    0 <= X < w_p bn256 /\ 0 <= Y < w_p bn256 /\
    (Y * Y) mod w_p bn256 = (X * X * X + w_b bn256) mod w_p bn256.
Proof. exact @bn256_embed_member. Qed.
Print Assumptions C17_bn256_embed_member.

(* residue group: 0 < v < P and v^Q = 1 (mod P) *)
Theorem C17_qr_embed_member : forall (F : Type) (O : fops F) (P Q : Z), fops_ok O P ->
    forall fuel data s v rest, 0 < Q ->
    qr_embed O P Q fuel data s = Some (v, rest) -> 0 < v < P /\ v ^ Q mod P = 1.
Proof. exact @qr_embed_member. Qed.
Print Assumptions C17_qr_embed_member.

(* ----------------------------------------------------- RFC 9380 expand_message_xmd *)
(* for every hash H with hsize-byte outputs: where kyber's transcription answers
   it computes the RFC's function and returns len bytes; it refuses exactly when
   len needs more than 255 blocks of hsize/8 bytes (the RFC: of hsize bytes),
   len > 65535, or the tag is empty; tags longer than 255 bytes are hashed *)

Theorem C17_xmd_kyber_is_rfc : forall (H : list Z -> list Z) (hsize bsize : Z),
    (forall x, length (H x) = Z.to_nat hsize) -> 8 <= hsize ->
    forall msg dst len out, 0 <= len ->
    xmd_kyber H hsize bsize msg dst len = Some out ->
    xmd_rfc H hsize bsize msg dst len = Some out /\ length out = Z.to_nat len.
Proof. exact xmd_kyber_is_rfc. Qed.
Print Assumptions C17_xmd_kyber_is_rfc.

Theorem C17_xmd_kyber_refuses : forall (H : list Z -> list Z) (hsize bsize : Z) msg dst len,
    xmd_kyber H hsize bsize msg dst len = None <->
    255 < (len + hsize / 8 - 1) / (hsize / 8) \/ 65535 < len \/ dst = [].
Proof. exact xmd_kyber_refuses. Qed.
Print Assumptions C17_xmd_kyber_refuses.

Theorem C17_xmd_rfc_within_bound : forall (H : list Z -> list Z) (hsize bsize : Z),
    (forall x, length (H x) = Z.to_nat hsize) -> 8 <= hsize ->
    forall msg dst len out, 0 <= len -> len <= 255 * (hsize / 8) ->
    xmd_rfc H hsize bsize msg dst len = Some out ->
    xmd_kyber H hsize bsize msg dst len = Some out.
Proof. exact xmd_rfc_within_bound. Qed.
Print Assumptions C17_xmd_rfc_within_bound.

(* ------------------------------------------------------------------ non-vacuity *)
(* a lawful instance exists for every modulus > 1; a concrete BN256 Embed on a
   concrete stream succeeds on its first candidate and returns the data; a concrete
   expand_message_xmd answers *)
Example C17_nonvacuous :
  fops_ok (zq_ops ed_p) ed_p /\ fops_ok (zq_ops (w_p p256)) (w_p p256) /\
  C17_nv_embed = true /\ C17_nv_xmd = true.
Proof.
  split; [apply zq_ops_ok; reflexivity|]. split; [apply zq_ops_ok; reflexivity|].
  split; vm_compute; reflexivity.
Qed.
