(* Property C08 - Schnorr, EdDSA and ring signatures accept exactly honest
   signatures.  Only statements, each closed by [exact]; the proofs are in
   theories/Sig/{Bytes25519,Schnorr,EdDSA,RingSig}.v.

   Conventions: prime-order groups are modelled by discrete logarithms
   (Algebra/Grp.v: a point IS its logarithm in zq q); Ed25519 is the FULL curve
   group Z_L x Z_8 (logarithm of the prime-order part, torsion component).
   Hash functions (SHA-512 challenge, XOF-based H1, link-base derivation) and
   the byte codecs are universally quantified; what is assumed of a codec is a
   hypothesis of the theorem.  Hash coincidences are explicit premises. *)
From Coq Require Import ZArith Znumtheory List Bool.
From Kyber Require Import Algebra.Zq Algebra.Grp Sig.Bytes25519 Sig.Schnorr Sig.EdDSA Sig.RingSig Sig.SigToy.
Import ListNotations.
Local Open Scope Z_scope.

(* ------------------------------------------------------------------ *)
(* Byte-level guards of group/edwards25519, for ALL byte strings        *)

Theorem C08_point_is_canonical_spec :
  forall s, Forall is_byte s ->
    pt_is_canonical s = (length s =? 32)%nat && (y_of s <? P25519).
Proof. exact pt_is_canonical_spec. Qed.
Print Assumptions C08_point_is_canonical_spec.

Theorem C08_scalar_is_canonical_spec :
  forall sb, Forall is_byte sb ->
    sc_is_canonical sb = (length sb =? 32)%nat && (le_decode sb <? L25519).
Proof. exact sc_is_canonical_spec. Qed.
Print Assumptions C08_scalar_is_canonical_spec.

Theorem C08_has_small_order_spec :
  forall s, length s = 32%nat -> Forall is_byte s ->
    has_small_order s = existsb (Z.eqb (y_of s))
      [0; 1;
       2707385501144840649318225287225658788936804267575313519463743609750303402022;
       55188659117513257062467267217118295137698188065244968500265048394206261417927;
       P25519 - 1].
Proof. intros s Hl Hs. rewrite <- small_ys_val. apply has_small_order_arith; assumption. Qed.
Print Assumptions C08_has_small_order_spec.

(* no second canonical encoding of a scalar: S + L, S + 2L, ... are all rejected *)
Theorem C08_scalar_canonical_unique :
  forall a b, Forall is_byte a -> Forall is_byte b ->
    sc_is_canonical a = true -> sc_is_canonical b = true ->
    le_decode a mod L25519 = le_decode b mod L25519 -> a = b.
Proof. exact sc_canonical_unique. Qed.
Print Assumptions C08_scalar_canonical_unique.

(* ------------------------------------------------------------------ *)
(* Schnorr over any prime-order group                                   *)

Theorem C08_schnorr_complete :
  forall q plen slen penc pdec senc sdec Hc,
    prime q ->
    (forall P, length (penc P) = plen) -> (forall s, length (senc s) = slen) ->
    (forall P, pdec (penc P) = Some P) -> (forall s, sdec (senc s) = Some s) ->
    forall x k m,
      schnorr_verify q plen slen penc pdec sdec Hc (penc (smul x pbase)) m
                     (schnorr_sign q penc senc Hc x k m) = SOk.
Proof. intros. apply schnorr_complete; assumption. Qed.
Print Assumptions C08_schnorr_complete.

Theorem C08_schnorr_accept_iff :
  forall q plen slen penc pdec sdec Hc, prime q ->
    forall pub m sig,
      schnorr_verify q plen slen penc pdec sdec Hc pub m sig = SOk <->
      length sig = (plen + slen)%nat /\
      exists R s A, pdec (firstn plen sig) = Some R /\ sdec (skipn plen sig) = Some s /\
                    pdec pub = Some A /\
                    smul s pbase = padd R (smul (challenge q penc Hc R A m) A).
Proof. intros. apply schnorr_accept_iff; assumption. Qed.
Print Assumptions C08_schnorr_accept_iff.

Theorem C08_schnorr_s_unique :
  forall q penc Hc, prime q -> forall A m R s s',
    schnorr_eq q penc Hc A m R s = true -> schnorr_eq q penc Hc A m R s' = true -> s = s'.
Proof. intros. eapply schnorr_s_unique; eassumption. Qed.
Print Assumptions C08_schnorr_s_unique.

Theorem C08_schnorr_tamper_R :
  forall q penc Hc, prime q -> forall A m R R' s,
    schnorr_eq q penc Hc A m R s = true ->
    (schnorr_eq q penc Hc A m R' s = true <->
     zmul (zsub (challenge q penc Hc R' A m) (challenge q penc Hc R A m)) A = zsub R R').
Proof. intros. apply schnorr_tamper_R; assumption. Qed.
Print Assumptions C08_schnorr_tamper_R.

Theorem C08_schnorr_tamper_m_rejected :
  forall q penc Hc, prime q -> forall A m m' R s,
    A <> zzero -> schnorr_eq q penc Hc A m R s = true ->
    challenge q penc Hc R A m' <> challenge q penc Hc R A m ->
    schnorr_eq q penc Hc A m' R s = false.
Proof. intros. eapply schnorr_tamper_m_rejected; eassumption. Qed.
Print Assumptions C08_schnorr_tamper_m_rejected.

Theorem C08_schnorr_tamper_A :
  forall q penc Hc, prime q -> forall A A' m R s,
    schnorr_eq q penc Hc A m R s = true ->
    (schnorr_eq q penc Hc A' m R s = true <->
     zmul (challenge q penc Hc R A' m) A' = zmul (challenge q penc Hc R A m) A).
Proof. intros. apply schnorr_tamper_A; assumption. Qed.
Print Assumptions C08_schnorr_tamper_A.

Theorem C08_schnorr_wrong_length_rejected :
  forall q plen slen penc pdec sdec Hc pub m sig,
    length sig <> (plen + slen)%nat ->
    schnorr_verify q plen slen penc pdec sdec Hc pub m sig = SLen.
Proof. intros. apply schnorr_wrong_length_rejected; assumption. Qed.
Print Assumptions C08_schnorr_wrong_length_rejected.

(* ------------------------------------------------------------------ *)
(* EdDSA (and Schnorr) on Ed25519, full curve group                     *)

Theorem C08_clamp_spec :
  forall d, (32 <= length d)%nat -> Forall is_byte d ->
    clamp d mod 8 = 0 /\ 2 ^ 254 <= clamp d < 2 ^ 255.
Proof. exact clamp_spec. Qed.
Print Assumptions C08_clamp_spec.

Theorem C08_eddsa_complete :
  forall H512 cenc cdec godec, codec_ok H512 cenc cdec godec ->
    forall seed m,
      hscalar H512 (snd (expand H512 seed) ++ m) <> 0 ->
      eddsa_verify H512 cenc cdec (cenc (eddsa_public H512 seed)) m (eddsa_sign H512 cenc seed m) = EOk.
Proof. intros ? ? ? ? C. codec C. intros. eapply eddsa_complete; eauto. Qed.
Print Assumptions C08_eddsa_complete.

Theorem C08_schnorr25519_complete :
  forall H512 cenc cdec godec, codec_ok H512 cenc cdec godec ->
    forall x k m, x mod L25519 <> 0 -> k mod L25519 <> 0 ->
      schnorr25519_verify H512 cenc cdec (cenc (cmul x cbase)) m (schnorr25519_sign H512 cenc x k m) = true.
Proof.
  intros ? ? ? ? C. assert (C' := C). codec C. intros.
  eapply schnorr25519_eddsa_agree; eauto. unfold schnorr25519_sign. eapply core_complete; eauto.
Qed.
Print Assumptions C08_schnorr25519_complete.

Theorem C08_eddsa_deterministic :
  forall H512 H' cenc seed m, (forall x, H' x = H512 x) ->
    eddsa_sign H' cenc seed m = eddsa_sign H512 cenc seed m.
Proof. intros. apply eddsa_deterministic; assumption. Qed.
Print Assumptions C08_eddsa_deterministic.

Theorem C08_eddsa_accept_iff :
  forall H512 cenc cdec pub m sig,
    eddsa_verify H512 cenc cdec pub m sig = EOk <->
    length sig = 64%nat /\
    sc_is_canonical (skipn 32 sig) = true /\
    pt_is_canonical (firstn 32 sig) = true /\
    pt_is_canonical pub = true /\
    exists R A, cdec (firstn 32 sig) = Some R /\ cdec pub = Some A /\
      has_small_order (cenc R) = false /\ has_small_order (cenc A) = false /\
      cadd R (cmul (hscalar H512 (firstn 32 sig ++ pub ++ m)) A) = cmul (le_decode (skipn 32 sig)) cbase.
Proof. exact eddsa_accept_iff. Qed.
Print Assumptions C08_eddsa_accept_iff.

Theorem C08_eddsa_accept_guards :
  forall H512 cenc cdec godec, codec_ok H512 cenc cdec godec ->
    forall pub m sig,
    Forall is_byte sig -> Forall is_byte pub ->
    eddsa_verify H512 cenc cdec pub m sig = EOk ->
    le_decode (skipn 32 sig) < L25519 /\ y_of (firstn 32 sig) < P25519 /\
    length pub = 32%nat /\ y_of pub < P25519 /\
    exists R A, cdec (firstn 32 sig) = Some R /\ cdec pub = Some A /\
      fst R <> zzero /\ fst A <> zzero /\
      let h := hscalar H512 (firstn 32 sig ++ pub ++ m) in
      of_Z L25519 (le_decode (skipn 32 sig)) = zadd (fst R) (zmul (of_Z L25519 h) (fst A)) /\
      (snd R + h * snd A) mod 8 = 0.
Proof. intros ? ? ? ? C. codec C. intros. eapply eddsa_accept_guards; eauto. Qed.
Print Assumptions C08_eddsa_accept_guards.

Theorem C08_eddsa_torsion_R_rejected :
  forall H512 cenc cdec godec, codec_ok H512 cenc cdec godec ->
    forall pub m sig R A,
    cdec (firstn 32 sig) = Some R -> cdec pub = Some A ->
    snd A = 0 -> snd R <> 0 -> eddsa_verify H512 cenc cdec pub m sig <> EOk.
Proof. intros ? ? ? ? C. codec C. intros. eapply eddsa_torsion_R_rejected; eauto. Qed.
Print Assumptions C08_eddsa_torsion_R_rejected.

Theorem C08_eddsa_S_unique :
  forall H512 cenc cdec pub m sig sig',
    Forall is_byte sig -> Forall is_byte sig' ->
    eddsa_verify H512 cenc cdec pub m sig = EOk -> eddsa_verify H512 cenc cdec pub m sig' = EOk ->
    firstn 32 sig = firstn 32 sig' -> sig = sig'.
Proof. intros. eapply eddsa_S_unique; eauto. Qed.
Print Assumptions C08_eddsa_S_unique.

Theorem C08_eddsa_no_second_encoding :
  forall H512 cenc cdec godec, codec_ok H512 cenc cdec godec ->
    forall pub m sig sig' R,
    Forall is_byte sig -> Forall is_byte sig' ->
    eddsa_verify H512 cenc cdec pub m sig = EOk -> eddsa_verify H512 cenc cdec pub m sig' = EOk ->
    cdec (firstn 32 sig) = Some R -> cdec (firstn 32 sig') = Some R ->
    le_decode (skipn 32 sig) mod L25519 = le_decode (skipn 32 sig') mod L25519 ->
    sig = sig'.
Proof. intros ? ? ? ? C. codec C. intros. eapply eddsa_no_second_encoding; eauto. Qed.
Print Assumptions C08_eddsa_no_second_encoding.

Theorem C08_eddsa_same_R_same_sig :
  forall H512 cenc cdec godec, codec_ok H512 cenc cdec godec ->
    forall pub m sig sig' R,
    Forall is_byte sig -> Forall is_byte sig' ->
    eddsa_verify H512 cenc cdec pub m sig = EOk -> eddsa_verify H512 cenc cdec pub m sig' = EOk ->
    cdec (firstn 32 sig) = Some R -> cdec (firstn 32 sig') = Some R ->
    sig = sig'.
Proof. intros ? ? ? ? C. codec C. intros. eapply eddsa_same_R_same_sig; eauto. Qed.
Print Assumptions C08_eddsa_same_R_same_sig.

Theorem C08_eddsa_tamper_key :
  forall H512 cenc cdec godec, codec_ok H512 cenc cdec godec ->
    forall pub pub' m sig R A A',
    eddsa_verify H512 cenc cdec pub m sig = EOk ->
    cdec (firstn 32 sig) = Some R -> cdec pub = Some A -> cdec pub' = Some A' ->
    eddsa_verify H512 cenc cdec pub' m sig = EOk ->
    let h := hscalar H512 (firstn 32 sig ++ pub ++ m) in
    let h' := hscalar H512 (firstn 32 sig ++ pub' ++ m) in
    zmul (of_Z L25519 h') (fst A') = zmul (of_Z L25519 h) (fst A) /\
    (snd R + h' * snd A') mod 8 = 0.
Proof. intros ? ? ? ? C. codec C. intros. eapply eddsa_tamper_key; eauto. Qed.
Print Assumptions C08_eddsa_tamper_key.

Theorem C08_eddsa_key_encoding_unique :
  forall H512 cenc cdec godec, codec_ok H512 cenc cdec godec ->
    forall pub pub' m m' sig sig' A,
    eddsa_verify H512 cenc cdec pub m sig = EOk -> eddsa_verify H512 cenc cdec pub' m' sig' = EOk ->
    cdec pub = Some A -> cdec pub' = Some A -> pub = pub'.
Proof. intros ? ? ? ? C. codec C. intros. eapply eddsa_key_encoding_unique; eauto. Qed.
Print Assumptions C08_eddsa_key_encoding_unique.

Theorem C08_eddsa_tamper_m :
  forall H512 cenc cdec godec, codec_ok H512 cenc cdec godec ->
    forall pub m m' sig R A,
    eddsa_verify H512 cenc cdec pub m sig = EOk ->
    cdec (firstn 32 sig) = Some R -> cdec pub = Some A ->
    (eddsa_verify H512 cenc cdec pub m' sig = EOk <->
     let h := hscalar H512 (firstn 32 sig ++ pub ++ m) in
     let h' := hscalar H512 (firstn 32 sig ++ pub ++ m') in
     zmul (of_Z L25519 h') (fst A) = zmul (of_Z L25519 h) (fst A) /\
     (snd R + h' * snd A) mod 8 = 0).
Proof. intros ? ? ? ? C. codec C. intros. eapply eddsa_tamper_m; eauto. Qed.
Print Assumptions C08_eddsa_tamper_m.

Theorem C08_schnorr25519_eddsa_agree :
  forall H512 cenc cdec godec, codec_ok H512 cenc cdec godec ->
    forall pub m sig,
    schnorr25519_verify H512 cenc cdec pub m sig = true <-> eddsa_verify H512 cenc cdec pub m sig = EOk.
Proof. intros ? ? ? ? C. codec C. intros. eapply schnorr25519_eddsa_agree; eauto. Qed.
Print Assumptions C08_schnorr25519_eddsa_agree.

(* partial: inclusion in crypto/ed25519 is proved against the MODEL [go_verify]
   of Go's verifier; Go's implementation is tied to that model by the
   correspondence run only *)
Theorem C08_eddsa_accepts_subset_of_go_partial :
  forall H512 cenc cdec godec, codec_ok H512 cenc cdec godec ->
    forall pub m sig, Forall is_byte sig ->
    eddsa_verify H512 cenc cdec pub m sig = EOk -> go_verify H512 cenc godec pub m sig = true.
Proof. intros ? ? ? ? C. codec C. intros. eapply eddsa_accepts_subset_of_go; eauto. Qed.
Print Assumptions C08_eddsa_accepts_subset_of_go_partial.

(* ------------------------------------------------------------------ *)
(* Ring signatures                                                      *)

Theorem C08_ring_complete :
  forall q plen slen penc pdec senc sdec H1 Hb, prime q ->
    (forall P, length (penc P) = plen) -> (forall s, length (senc s) = slen) ->
    (forall P, pdec (penc P) = Some P) -> (forall s, sdec (senc s) = Some s) ->
    forall m (L : list (zq q)) scope pi x u rs,
    (pi < length L)%nat -> nth pi L zzero = smul x pbase ->
    length rs = (length L - 1)%nat ->
    ring_verify q plen slen penc pdec sdec H1 Hb m L scope
                (ring_sign q penc senc H1 Hb m L scope pi x u rs) =
    Some (match scope with None => [] | Some _ => penc (smul x (link_base q Hb scope)) end).
Proof. intros. apply ring_complete; assumption. Qed.
Print Assumptions C08_ring_complete.

Theorem C08_ring_accept_iff :
  forall q plen slen penc pdec sdec H1 Hb m (L : list (zq q)) scope sig out,
    ring_verify q plen slen penc pdec sdec H1 Hb m L scope sig = Some out <->
    exists c0 ss rest,
      sdec (firstn slen sig) = Some c0 /\
      dec_scalars q slen sdec (length L) (skipn slen sig) = Some (ss, rest) /\
      match scope with
      | None => chain q penc H1 m None zzero zzero c0 (combine ss L) = c0 /\ out = []
      | Some sc => exists tag, pdec (firstn plen rest) = Some tag /\
                   chain q penc H1 m scope (Hb sc) tag c0 (combine ss L) = c0 /\ out = penc tag
      end.
Proof. intros. apply ring_accept_iff. Qed.
Print Assumptions C08_ring_accept_iff.

Theorem C08_ring_tag_same :
  forall q plen slen penc pdec senc sdec H1 Hb, prime q ->
    (forall P, length (penc P) = plen) -> (forall s, length (senc s) = slen) ->
    (forall P, pdec (penc P) = Some P) -> (forall s, sdec (senc s) = Some s) ->
    forall m m' (L L' : list (zq q)) sc pi pi' x u u' rs rs' t t',
    (pi < length L)%nat -> nth pi L zzero = smul x pbase -> length rs = (length L - 1)%nat ->
    (pi' < length L')%nat -> nth pi' L' zzero = smul x pbase -> length rs' = (length L' - 1)%nat ->
    ring_verify q plen slen penc pdec sdec H1 Hb m L (Some sc) (ring_sign q penc senc H1 Hb m L (Some sc) pi x u rs) = Some t ->
    ring_verify q plen slen penc pdec sdec H1 Hb m' L' (Some sc) (ring_sign q penc senc H1 Hb m' L' (Some sc) pi' x u' rs') = Some t' ->
    t = t'.
Proof.
  intros q plen slen penc pdec senc sdec H1 Hb Hp A1 A2 A3 A4.
  exact (ring_tag_same q Hp plen slen penc pdec senc sdec H1 Hb A1 A2 A3 A4).
Qed.
Print Assumptions C08_ring_tag_same.

Theorem C08_ring_tag_diff_key :
  forall q plen slen penc pdec senc sdec H1 Hb, prime q ->
    (forall P, length (penc P) = plen) -> (forall s, length (senc s) = slen) ->
    (forall P, pdec (penc P) = Some P) -> (forall s, sdec (senc s) = Some s) ->
    forall m m' (L L' : list (zq q)) sc pi pi' x x' u u' rs rs' t t',
    (pi < length L)%nat -> nth pi L zzero = smul x pbase -> length rs = (length L - 1)%nat ->
    (pi' < length L')%nat -> nth pi' L' zzero = smul x' pbase -> length rs' = (length L' - 1)%nat ->
    ring_verify q plen slen penc pdec sdec H1 Hb m L (Some sc) (ring_sign q penc senc H1 Hb m L (Some sc) pi x u rs) = Some t ->
    ring_verify q plen slen penc pdec sdec H1 Hb m' L' (Some sc) (ring_sign q penc senc H1 Hb m' L' (Some sc) pi' x' u' rs') = Some t' ->
    x <> x' -> Hb sc <> zzero -> t <> t'.
Proof.
  intros q plen slen penc pdec senc sdec H1 Hb Hp A1 A2 A3 A4.
  exact (ring_tag_diff_key q Hp plen slen penc pdec senc sdec H1 Hb A1 A2 A3 A4).
Qed.
Print Assumptions C08_ring_tag_diff_key.

Theorem C08_ring_tag_diff_scope :
  forall q plen slen penc pdec senc sdec H1 Hb, prime q ->
    (forall P, length (penc P) = plen) -> (forall s, length (senc s) = slen) ->
    (forall P, pdec (penc P) = Some P) -> (forall s, sdec (senc s) = Some s) ->
    forall m m' (L L' : list (zq q)) sc sc' pi pi' x u u' rs rs' t t',
    (pi < length L)%nat -> nth pi L zzero = smul x pbase -> length rs = (length L - 1)%nat ->
    (pi' < length L')%nat -> nth pi' L' zzero = smul x pbase -> length rs' = (length L' - 1)%nat ->
    ring_verify q plen slen penc pdec sdec H1 Hb m L (Some sc) (ring_sign q penc senc H1 Hb m L (Some sc) pi x u rs) = Some t ->
    ring_verify q plen slen penc pdec sdec H1 Hb m' L' (Some sc') (ring_sign q penc senc H1 Hb m' L' (Some sc') pi' x u' rs') = Some t' ->
    x <> zzero -> Hb sc <> Hb sc' -> t <> t'.
Proof.
  intros q plen slen penc pdec senc sdec H1 Hb Hp A1 A2 A3 A4.
  exact (ring_tag_diff_scope q Hp plen slen penc pdec senc sdec H1 Hb A1 A2 A3 A4).
Qed.
Print Assumptions C08_ring_tag_diff_scope.

Theorem C08_ring_tamper_s_collision :
  forall q plen penc pdec H1, prime q ->
    (forall P, length (penc P) = plen) -> (forall P, pdec (penc P) = Some P) ->
    forall m scope hb tag c0 S1 S2 (L1 L2 : list (zq q)) sj sj' Pj,
    length S1 = length L1 ->
    Forall (fun P => P <> zzero) L2 ->
    sj <> sj' ->
    chain q penc H1 m scope hb tag c0 (combine (S1 ++ [sj] ++ S2) (L1 ++ [Pj] ++ L2)) = c0 ->
    chain q penc H1 m scope hb tag c0 (combine (S1 ++ [sj'] ++ S2) (L1 ++ [Pj] ++ L2)) = c0 ->
    exists d d', d <> d' /\ H1 m d = H1 m d'.
Proof. intros. eapply ring_tamper_s_collision; eauto. Qed.
Print Assumptions C08_ring_tamper_s_collision.

Theorem C08_ring_tamper_key_collision :
  forall q plen penc pdec H1, prime q ->
    (forall P, length (penc P) = plen) -> (forall P, pdec (penc P) = Some P) ->
    forall m scope hb tag c0 S1 S2 (L1 L2 : list (zq q)) sj Pj Pj',
    length S1 = length L1 ->
    Forall (fun P => P <> zzero) L2 ->
    Pj <> Pj' ->
    chain q penc H1 m scope hb tag c0 (combine S1 L1) <> zzero ->
    chain q penc H1 m scope hb tag c0 (combine (S1 ++ [sj] ++ S2) (L1 ++ [Pj] ++ L2)) = c0 ->
    chain q penc H1 m scope hb tag c0 (combine (S1 ++ [sj] ++ S2) (L1 ++ [Pj'] ++ L2)) = c0 ->
    exists d d', d <> d' /\ H1 m d = H1 m d'.
Proof.
  intros q plen penc pdec H1 Hp A1 A2 m scope hb tag c0 S1 S2 L1 L2 sj Pj Pj' B1 B2 B3 B4 B5 B6.
  exact (ring_tamper_key_collision q Hp plen penc pdec H1 A1 A2 m scope hb tag c0 S1 S2 L1 L2 sj Pj Pj' B1 B2 B3 B4 B5 B6).
Qed.
Print Assumptions C08_ring_tamper_key_collision.

Theorem C08_ring_c0_is_hash :
  forall q penc H1 m scope hb tag c0 (l : list (zq q * zq q)),
    l <> [] -> chain q penc H1 m scope hb tag c0 l = c0 -> exists d, c0 = H1 m d.
Proof. intros. eapply ring_c0_is_hash; eauto. Qed.
Print Assumptions C08_ring_c0_is_hash.

(* ------------------------------------------------------------------ *)
(* non-vacuity: concrete instances over q = 251 with a toy codec/hash   *)
Example C08_nonvacuous :
  (* Schnorr: an honest signature verifies, s+1 does not *)
  let x := of_Z 251 77 in let k := of_Z 251 200 in
  let sig := schnorr_sign 251 enc1 enc1 toyH x k [1;2;3] in
  schnorr_verify 251 1 1 enc1 dec1 dec1 toyH (enc1 (smul x pbase)) [1;2;3] sig = SOk /\
  schnorr_verify 251 1 1 enc1 dec1 dec1 toyH (enc1 (smul x pbase)) [1;2;4] sig = SEq /\
  (* ring of 3, signer 1, linkable *)
  let H1 := fun m d => toyH (m ++ 255 :: d) in
  let Hb := fun sc => toyH (9 :: sc) in
  let L := [of_Z 251 5; smul x pbase; of_Z 251 99] in
  let rsig := ring_sign 251 enc1 enc1 H1 Hb [4;4] L (Some [8]) 1 x k [of_Z 251 10; of_Z 251 20] in
  ring_verify 251 1 1 enc1 dec1 dec1 H1 Hb [4;4] L (Some [8]) rsig = Some (enc1 (smul x (Hb [8]))) /\
  ring_verify 251 1 1 enc1 dec1 dec1 H1 Hb [4;5] L (Some [8]) rsig = None /\
  (* byte-level guards on p-1, p, L-1, L *)
  pt_is_canonical (le_bytes 32 (P25519 - 1)) = true /\ pt_is_canonical (le_bytes 32 P25519) = false /\
  sc_is_canonical (le_bytes 32 (L25519 - 1)) = true /\ sc_is_canonical (le_bytes 32 L25519) = false /\
  has_small_order (le_bytes 32 (P25519 - 1)) = true /\ has_small_order (le_bytes 32 9) = false.
Proof. vm_compute. repeat split. Qed.
