(* Property C14 - Sigma-protocol proofs (And / Or-of-And of representation
   statements): complete for true statements, reject false or altered.
   Only statements, each closed by [exact]; proofs in theories/Sigma/SigmaProofs.v.
   q is any prime group order; points are modelled by discrete logarithms
   (Algebra/Grp.v); the challenge oracles Hc / Hd, the fixed-length encodings
   and the prover's private randomness [rnd] are arbitrary. *)
From Coq Require Import ZArith Znumtheory List Bool.
From Kyber Require Import Algebra.Zq Algebra.Grp Sigma.SigmaSM Sigma.SigmaProofs Sigma.SigmaOr.
Import ListNotations.

(* ---- completeness ---------------------------------------------------- *)

(* Fiat-Shamir prover/verifier: for EVERY well-formed tree (Or above And, no
   empty Or), every assignment for which the chosen branches hold (obl_ok; the
   other branches are arbitrary, true or false), every randomness, every
   oracle, any trailing bytes: the proof is produced and accepted *)
Theorem C14_hash_complete :
  forall q, prime q ->
  forall (plen slen : nat) (enc_pt enc_sc : zq q -> list Z) (dec_pt dec_sc : list Z -> option (zq q)),
    (forall x, length (enc_pt x) = plen) -> (forall x, dec_pt (enc_pt x) = Some x) ->
    (forall x, length (enc_sc x) = slen) -> (forall x, dec_sc (enc_sc x) = Some x) ->
  forall Hc pval sval choice rnd name p trailing,
    wf p = true -> obl_ok q pval sval choice p ->
    exists proof,
      hash_prove q enc_pt enc_sc Hc name p pval sval choice rnd = Ok proof /\
      hash_verify q plen slen dec_pt dec_sc Hc name p pval (proof ++ trailing) = None.
Proof. exact hash_complete. Qed.
Print Assumptions C14_hash_complete.

(* interactive deniable prover: whatever the mixed challenge, the two message
   bodies of an honest participant are accepted by a verifier of its statement *)
Theorem C14_deniable_complete :
  forall q, prime q ->
  forall (plen slen : nat) (enc_pt enc_sc : zq q -> list Z) (dec_pt dec_sc : list Z -> option (zq q)),
    (forall x, length (enc_pt x) = plen) -> (forall x, dec_pt (enc_pt x) = Some x) ->
    (forall x, length (enc_sc x) = slen) -> (forall x, dec_sc (enc_sc x) = Some x) ->
  forall (Hd : list Z -> zq q) (pa : party q) (mix : list Z),
    wf (pa_pred q pa) = true ->
    obl_ok q (pa_pval q pa) (pa_sval q pa) (pa_choice q pa) (pa_pred q pa) ->
    exists b1 b2,
      deniable_msgs q enc_pt enc_sc Hd pa mix = Ok (b1, b2) /\
      deniable_verify q plen slen dec_pt dec_sc Hd (pa_pred q pa) (pa_pval q pa) mix b1 b2 = None.
Proof. exact deniable_complete. Qed.
Print Assumptions C14_deniable_complete.

(* ---- what is accepted (sigma_accept_iff, node by node) ---------------- *)

(* a scope (Rep / And of Reps) is accepted iff the transmitted commitments are
   exactly the values c*P + sum r_s*B_s of its Rep nodes, in order *)
Theorem C14_accept_scope_equations_iff :
  forall q, prime q ->
  forall (pval : Z -> zq q) a c rr Vall Vrest,
    verify_and q pval a c rr Vall = Ok Vrest <->
    (andtree a = true /\ Vall = commits_of q pval (Some c) rr a ++ Vrest).
Proof. exact verify_and_iff. Qed.
Print Assumptions C14_accept_scope_equations_iff.

(* a scope node: one response per variable of the scope is read, then the scope equations *)
Theorem C14_accept_scope_node_iff :
  forall q slen dec_sc (pval : Z -> zq q) svs a c Vs buf Vs' b',
    is_scope a ->
    (verify q slen dec_sc pval svs a c Vs buf = Ok (Vs', b') <->
     exists rr, read_resp q slen dec_sc (resp_names svs a) (fun _ => zzero) buf = Some (rr, b') /\
                verify_and q pval a c rr Vs = Ok Vs').
Proof. exact verify_scope_iff. Qed.
Print Assumptions C14_accept_scope_node_iff.

(* an Or node with more than one branch: the transmitted sub-challenges add up
   to the node's challenge and every branch is accepted under its own one *)
Theorem C14_accept_or_node_iff :
  forall q slen dec_sc (pval : Z -> zq q) svs id l c Vs buf r,
    verify q slen dec_sc pval svs (Or id l) c Vs buf = Ok r <->
    match l with
    | [] => False
    | [s] => verify q slen dec_sc pval svs s c Vs buf = Ok r
    | _ => exists ci b1, read_n q slen dec_sc (length l) buf = Some (ci, b1) /\
                         psum ci = c /\
                         verify_list q (verify q slen dec_sc pval svs) l ci Vs b1 = Ok r
    end.
Proof. exact verify_or_iff. Qed.
Print Assumptions C14_accept_or_node_iff.

(* ---- altered proofs --------------------------------------------------- *)

Theorem C14_altered_commitment_rejected :
  forall q, prime q ->
  forall (pval : Z -> zq q) a c rr Vall Vall' R,
    verify_and q pval a c rr Vall = Ok R ->
    firstn (nreps a) Vall' <> firstn (nreps a) Vall ->
    forall R', verify_and q pval a c rr Vall' <> Ok R'.
Proof. exact altered_commitment_rejected. Qed.
Print Assumptions C14_altered_commitment_rejected.

Theorem C14_altered_response_rejected :
  forall q, prime q ->
  forall (pval : Z -> zq q) a c rr Vall R s x P T,
    verify_and q pval a c rr Vall = Ok R ->
    x <> rr s -> In (P, T) (reps_of a) -> coef q pval s T <> pzero ->
    forall R', verify_and q pval a c (updf q rr s x) Vall <> Ok R'.
Proof. exact altered_response_rejected. Qed.
Print Assumptions C14_altered_response_rejected.

Theorem C14_altered_subchallenge_rejected :
  forall q, prime q ->
  forall slen dec_sc (pval : Z -> zq q) svs id l c Vs buf buf' pre post x x' b1 b1',
    (1 < length l)%nat ->
    read_n q slen dec_sc (length l) buf = Some (pre ++ x :: post, b1) ->
    psum (pre ++ x :: post) = c ->
    read_n q slen dec_sc (length l) buf' = Some (pre ++ x' :: post, b1') ->
    x' <> x ->
    verify q slen dec_sc pval svs (Or id l) c Vs buf' = Err ESub.
Proof. exact altered_subchallenge_rejected. Qed.
Print Assumptions C14_altered_subchallenge_rejected.

(* a different challenge (different protocol name, different bytes hashed) *)
Theorem C14_wrong_challenge_scope_rejected :
  forall q, prime q ->
  forall (pval : Z -> zq q) a c c' rr Vall R P T,
    verify_and q pval a c rr Vall = Ok R ->
    c' <> c -> In (P, T) (reps_of a) -> pval P <> pzero ->
    forall R', verify_and q pval a c' rr Vall <> Ok R'.
Proof. exact wrong_challenge_rejected. Qed.
Print Assumptions C14_wrong_challenge_scope_rejected.

Theorem C14_wrong_challenge_or_rejected :
  forall q slen dec_sc (pval : Z -> zq q) svs id l c c' Vs buf r,
    (1 < length l)%nat ->
    verify q slen dec_sc pval svs (Or id l) c Vs buf = Ok r -> c' <> c ->
    verify q slen dec_sc pval svs (Or id l) c' Vs buf = Err ESub.
Proof. exact or_wrong_challenge_rejected. Qed.
Print Assumptions C14_wrong_challenge_or_rejected.

(* different public points *)
Theorem C14_wrong_point_rejected :
  forall q, prime q ->
  forall (pval pval' : Z -> zq q) a c rr Vall R P T,
    verify_and q pval a c rr Vall = Ok R ->
    In (P, T) (reps_of a) -> pval' P <> pval P ->
    (forall t, In t T -> pval' (snd t) = pval (snd t)) -> c <> zzero ->
    forall R', verify_and q pval' a c rr Vall <> Ok R'.
Proof. exact wrong_point_rejected. Qed.
Print Assumptions C14_wrong_point_rejected.

(* truncation *)
Theorem C14_truncated_rejected :
  forall q plen slen dec_pt dec_sc (Hc : list Z -> list Z -> zq q) name p pval buf,
    (length buf < proof_len plen slen p)%nat ->
    hash_verify q plen slen dec_pt dec_sc Hc name p pval buf <> None.
Proof. exact truncated_rejected. Qed.
Print Assumptions C14_truncated_rejected.

Theorem C14_honest_prefix_rejected :
  forall q, prime q ->
  forall (plen slen : nat) (enc_pt enc_sc : zq q -> list Z) (dec_pt dec_sc : list Z -> option (zq q)),
    (forall x, length (enc_pt x) = plen) ->
    (forall x, length (enc_sc x) = slen) -> (forall x, dec_sc (enc_sc x) = Some x) ->
  forall Hc pval sval choice rnd name p proof k,
    wf p = true -> obl_ok q pval sval choice p ->
    hash_prove q enc_pt enc_sc Hc name p pval sval choice rnd = Ok proof ->
    (k < length proof)%nat ->
    hash_verify q plen slen dec_pt dec_sc Hc name p pval (firstn k proof) <> None.
Proof. exact honest_prefix_rejected. Qed.
Print Assumptions C14_honest_prefix_rejected.

(* ---- special soundness ------------------------------------------------ *)

(* two accepting transcripts of a scope with the same commitments and
   different challenges yield a witness (a representation) of every Rep: the
   algebraic core of "no accepted proof if the claimed branch is false" *)
Theorem C14_special_sound_scope :
  forall q, prime q ->
  forall (pval : Z -> zq q) a c c' rr rr' Vall R R',
    verify_and q pval a c rr Vall = Ok R -> verify_and q pval a c' rr' Vall = Ok R' -> c <> c' ->
    forall P T, In (P, T) (reps_of a) ->
      pval P = lin q pval (fun s => zmul (zsub (rr' s) (rr s)) (zinv (zsub c c'))) T.
Proof. exact special_sound_scope. Qed.
Print Assumptions C14_special_sound_scope.

(* ---- false claims ----------------------------------------------------- *)

(* PARTIAL (kept; the full statement is C14_false_claim_tree below).  Full statement wanted: for every well-formed tree and every
   choice map, the proof the honest prover produces from secrets that do not
   satisfy a Rep of the claimed branch is accepted only if the challenge of
   that branch (c minus the pre-challenges of the other branches) is 0.
   Proved here: the case of a top-level scope (Rep / And of Reps, no Or):
   accepted iff for every Rep  c = 0  or  P = sum x_s*B_s,  c being the hash
   challenge.  Missing: the induction through Or nodes (the obligated branch
   receives c - sum w_i; the argument per scope is the one below). *)
Theorem C14_false_claim_partial :
  forall q, prime q ->
  forall (plen slen : nat) (enc_pt enc_sc : zq q -> list Z) (dec_pt dec_sc : list Z -> option (zq q)),
    (forall x, length (enc_pt x) = plen) -> (forall x, dec_pt (enc_pt x) = Some x) ->
    (forall x, length (enc_sc x) = slen) -> (forall x, dec_sc (enc_sc x) = Some x) ->
  forall Hc pval sval choice rnd name a,
    andtree a = true ->
    exists proof,
      hash_prove q enc_pt enc_sc Hc name a pval sval choice rnd = Ok proof /\
      (hash_verify q plen slen dec_pt dec_sc Hc name a pval proof = None <->
       forall P T, In (P, T) (reps_of a) ->
                   Hc name (firstn (nreps a * plen) proof) = zzero \/ pval P = lin q pval sval T).
Proof. exact false_claim_scope. Qed.
Print Assumptions C14_false_claim_partial.

(* FULL statement (theories/Sigma/SigmaOr.v): for EVERY well-formed tree (Rep /
   And / Or nested as the model supports, Or above And) and every choice map
   that names a branch at every Or of the obligated path, the honest prover
   run with ARBITRARY secrets produces a proof, and hash_verify accepts it iff
   every Rep of every scope at the end of the obligated path satisfies
       c_scope = 0  \/  P = sum x_s*B_s
   where (obl_scopes) c_scope is the hash challenge minus, at every Or on the
   path, the sum of the pre-challenges the prover drew for the other branches
   (zsub c (psum (somes wi)), exactly what respond computes). *)
Theorem C14_false_claim_tree :
  forall q, prime q ->
  forall (plen slen : nat) (enc_pt enc_sc : zq q -> list Z) (dec_pt dec_sc : list Z -> option (zq q)),
    (forall x, length (enc_pt x) = plen) -> (forall x, dec_pt (enc_pt x) = Some x) ->
    (forall x, length (enc_sc x) = slen) -> (forall x, dec_sc (enc_sc x) = Some x) ->
  forall Hc pval sval choice rnd name p,
    wf p = true -> choice_ok choice p ->
    exists proof st n Vs,
      hash_prove q enc_pt enc_sc Hc name p pval sval choice rnd = Ok proof /\
      commit q pval choice rnd p None O = Ok (st, n, Vs) /\
      (hash_verify q plen slen dec_pt dec_sc Hc name p pval proof = None <->
       forall cs a, In (cs, a) (obl_scopes q st (Hc name (firstn (nreps p * plen) proof))) ->
         forall P T, In (P, T) (reps_of a) -> cs = zzero \/ pval P = lin q pval sval T).
Proof. exact false_claim_tree. Qed.
Print Assumptions C14_false_claim_tree.

(* in the property's words: secrets that do not satisfy a Rep of the claimed
   branch give no accepted proof unless the challenge cs of that branch is 0 *)
Theorem C14_false_claim_rejected :
  forall q, prime q ->
  forall (plen slen : nat) (enc_pt enc_sc : zq q -> list Z) (dec_pt dec_sc : list Z -> option (zq q)),
    (forall x, length (enc_pt x) = plen) -> (forall x, dec_pt (enc_pt x) = Some x) ->
    (forall x, length (enc_sc x) = slen) -> (forall x, dec_sc (enc_sc x) = Some x) ->
  forall Hc pval sval choice rnd name p proof st n Vs cs a P T,
    hash_prove q enc_pt enc_sc Hc name p pval sval choice rnd = Ok proof ->
    commit q pval choice rnd p None O = Ok (st, n, Vs) ->
    wf p = true -> choice_ok choice p ->
    In (cs, a) (obl_scopes q st (Hc name (firstn (nreps p * plen) proof))) ->
    In (P, T) (reps_of a) -> pval P <> lin q pval sval T ->
    cs <> zzero ->
    hash_verify q plen slen dec_pt dec_sc Hc name p pval proof <> None.
Proof. exact false_claim_rejected. Qed.
Print Assumptions C14_false_claim_rejected.

(* the obligated path of an honest run ends in exactly one scope: the claim
   above speaks about one scope and one named challenge value *)
Theorem C14_obligated_scope_unique :
  forall q (pval : Z -> zq q) choice rnd p,
    wf p = true -> choice_ok choice p ->
    forall n st n' Vs, commit q pval choice rnd p None n = Ok (st, n', Vs) ->
    forall c, exists cs a, obl_scopes q st c = [(cs, a)].
Proof. exact obl_scope_unique. Qed.
Print Assumptions C14_obligated_scope_unique.

(* ---- altered commitments, tree level ---------------------------------- *)

(* with the same challenge and the same responses / sub-challenges, two
   different commitment vectors are never both accepted (any tree) *)
Theorem C14_commitments_determined :
  forall q, prime q ->
  forall slen dec_sc (pval : Z -> zq q) svs p c V1 V2 buf r1 r2,
    verify q slen dec_sc pval svs p c V1 buf = Ok r1 ->
    verify q slen dec_sc pval svs p c V2 buf = Ok r2 ->
    firstn (nreps p) V1 = firstn (nreps p) V2.
Proof. exact commitments_determined. Qed.
Print Assumptions C14_commitments_determined.

(* an accepted proof whose commitments are replaced (rest kept) is accepted
   only if the hash output moves: with a colliding hash it is rejected *)
Theorem C14_altered_commitments_need_new_challenge :
  forall q, prime q ->
  forall (plen slen : nat) (enc_pt : zq q -> list Z) (dec_pt dec_sc : list Z -> option (zq q)),
    (forall x, length (enc_pt x) = plen) -> (forall x, dec_pt (enc_pt x) = Some x) ->
  forall Hc name p pval Vs Vs' tail,
    length Vs = nreps p -> length Vs' = nreps p -> Vs' <> Vs ->
    hash_verify q plen slen dec_pt dec_sc Hc name p pval (enc_pts q enc_pt Vs ++ tail) = None ->
    hash_verify q plen slen dec_pt dec_sc Hc name p pval (enc_pts q enc_pt Vs' ++ tail) = None ->
    Hc name (enc_pts q enc_pt Vs') <> Hc name (enc_pts q enc_pt Vs).
Proof. exact altered_commitments_need_new_challenge. Qed.
Print Assumptions C14_altered_commitments_need_new_challenge.

(* under an Or with more than one branch: rejected unconditionally *)
Theorem C14_altered_commitments_or_rejected :
  forall q, prime q ->
  forall (plen slen : nat) (enc_pt : zq q -> list Z) (dec_pt dec_sc : list Z -> option (zq q)),
    (forall x, length (enc_pt x) = plen) -> (forall x, dec_pt (enc_pt x) = Some x) ->
  forall Hc name id l pval Vs Vs' tail,
    (1 < length l)%nat ->
    length Vs = nreps (Or id l) -> length Vs' = nreps (Or id l) -> Vs' <> Vs ->
    hash_verify q plen slen dec_pt dec_sc Hc name (Or id l) pval (enc_pts q enc_pt Vs ++ tail) = None ->
    hash_verify q plen slen dec_pt dec_sc Hc name (Or id l) pval (enc_pts q enc_pt Vs' ++ tail) <> None.
Proof. exact altered_commitments_or_rejected. Qed.
Print Assumptions C14_altered_commitments_or_rejected.

(* ---- non-vacuity ------------------------------------------------------ *)
(* q = 251, one-byte encodings; P1 = x1*B + x2*H is true, P2 = x1*B is false;
   the Or of the two with the true branch chosen satisfies the hypotheses of
   C14_hash_complete, the proof is accepted, and altering its last byte or
   dropping it is rejected. *)
Example C14_nonvacuous :
  wf nv_pred = true /\
  obl_ok 251 nv_pval nv_sval nv_choice nv_pred /\
  (forall x, nv_dec (nv_enc x) = Some x) /\
  match hash_prove 251 nv_enc nv_enc nv_Hc [1; 2]%Z nv_pred nv_pval nv_sval nv_choice nv_rnd with
  | Ok proof =>
      hash_verify 251 1 1 nv_dec nv_dec nv_Hc [1; 2]%Z nv_pred nv_pval proof = None /\
      hash_verify 251 1 1 nv_dec nv_dec nv_Hc [1; 3]%Z nv_pred nv_pval proof <> None /\
      hash_verify 251 1 1 nv_dec nv_dec nv_Hc [1; 2]%Z nv_pred nv_pval (removelast proof) <> None /\
      length proof = proof_len 1 1 nv_pred
  | Err _ => False
  end.
Proof.
  split; [reflexivity|]. split.
  { cbn. exists 1%nat. split; [reflexivity|]. cbn. split; [|exact I].
    apply zq_eq. vm_compute. reflexivity. }
  split.
  { intros x. unfold nv_dec, nv_enc.
    pose proof (val_range 251 x ltac:(reflexivity)) as R.
    destruct (Z.ltb_spec (val x) 251) as [_|H]; [|exfalso; apply (Zlt_not_le _ _ (proj2 R)); exact H].
    f_equal. apply zq_eq. unfold of_Z. cbn [val]. apply val_mod. }
  vm_compute. repeat split; discriminate.
Qed.

(* nested Or: Or [false Rep; Or [And [true Rep]; false Rep]] with the inner
   true branch chosen: premises of C14_hash_complete and C14_false_claim_tree
   hold, the honest proof is accepted; with a wrong secret x2 the proof is
   rejected and the challenge of the claimed scope is 240 <> 0 *)
Example C14_nested_or_nonvacuous :
  wf nv2_pred = true /\ choice_ok nv2_choice nv2_pred /\
  obl_ok 251 nv_pval nv_sval nv2_choice nv2_pred /\
  match hash_prove 251 nv_enc nv_enc nv_Hc [7]%Z nv2_pred nv_pval nv_sval nv2_choice nv_rnd with
  | Ok proof => hash_verify 251 1 1 nv_dec nv_dec nv_Hc [7]%Z nv2_pred nv_pval proof = None
  | Err _ => False
  end /\
  match hash_prove 251 nv_enc nv_enc nv_Hc [7]%Z nv2_pred nv_pval nv2_sval_bad nv2_choice nv_rnd,
        commit 251 nv_pval nv2_choice nv_rnd nv2_pred None O with
  | Ok proof, Ok (st, _, _) =>
      hash_verify 251 1 1 nv_dec nv_dec nv_Hc [7]%Z nv2_pred nv_pval proof <> None /\
      map (fun x => (val (fst x), snd x))
          (obl_scopes 251 st (nv_Hc [7]%Z (firstn (nreps nv2_pred * 1) proof))) =
      [(240%Z, And [Rep 1 [(1, 10); (2, 11)]]%Z)]
  | _, _ => False
  end.
Proof.
  split; [reflexivity|]. split.
  { cbn. exists 1%nat. split; [reflexivity|]. cbn. exists 0%nat. split; [reflexivity|]. cbn. exact I. }
  split.
  { cbn. exists 1%nat. split; [reflexivity|]. cbn. exists 0%nat. split; [reflexivity|]. cbn.
    split; [|exact I]. apply zq_eq. vm_compute. reflexivity. }
  split.
  { vm_compute. reflexivity. }
  vm_compute. split; [discriminate|reflexivity].
Qed.
