(* Property C16 - encryption round-trips, hides the plaintext and rejects
   altered ciphertexts.  Only statements, each closed by [exact]; the models and
   proofs are in theories/Enc/{ECIES,IBE,AnonEnc,AnonProofs,AnonStore}.v.
   Groups are modelled by discrete logarithms (Algebra/Grp.v): a point is an
   element of zq q, the pairing is the product.  HKDF, AES-GCM, the suite hash,
   hash-to-point, scalar/point codecs and the XOF are arbitrary functions; what
   is assumed of them (codec round trip, open(seal) = id, output lengths, and -
   for the tamper corollaries - authenticity / collision-freeness) is a premise
   of the statement that needs it.

   Clauses of the property and their theorems:
   - round trip, all lengths/keys/identities/indices: ecies_roundtrip, cca_roundtrip (both
     group assignments), cpa_roundtrip, anon_roundtrip (+ anon_repaired_refines: the store-level
     Decrypt computes that function and leaves the caller's buffer untouched);
   - refusal of what cannot be protected: cca_refuses_long, cca_decrypt_refuses_long,
     cpa_refuses_long (repaired code), cca_encrypt_total;
   - guards / never panics: ecies_short, ecies_no_panic, cca_decrypt_no_panic, cpa_*_no_panic,
     anon_short, anon_no_panic;
   - other key / altered / truncated ciphertext => error: accept-iff characterisations
     (ecies_accept_iff, cca_accept_iff, anon_accept_iff) and corollaries ecies_tamper_body,
     ecies_truncated, ecies_tamper_point, ecies_wrong_key, cca_tamper_VW, cca_tamper_U,
     cca_wrong_key, anon_tamper_other_slot, anon_header_determined, anon_all_members_agree,
     anon_tamper_tag, anon_tag_determined, anon_tamper_body, anon_wrong_key;
   - no plaintext block in the clear: ecies_no_clear_block, cca_no_clear_block,
     cpa_pad_spec, cpa_no_clear_block, anon_no_clear_block;
   - the two defects of the code as found, as theorems about the as-found variants of the
     model: cpa_unguarded_clear_refuted, anon_as_found_check_vacuous, and the concrete
     witness C16_anon_aliasing_witness;
   - a quirk kept as is: cca_empty_any_key. *)
From Coq Require Import ZArith Znumtheory List Bool.
From Kyber Require Import Algebra.Zq Algebra.Grp Enc.EncBase Enc.ECIES Enc.IBE Enc.AnonEnc
  Enc.AnonProofs Enc.AnonStore Enc.EncToy.
Import ListNotations.
Local Open Scope nat_scope.

Theorem C16_ecies_roundtrip :
  forall (q : BinNums.Z) (plen : nat) (penc : Zq.zq q -> bytes) (pdec : bytes -> option (Zq.zq q))
  (kdf : bytes -> bytes) (seal : bytes -> bytes -> bytes) (open : bytes -> bytes -> option bytes),
  Znumtheory.prime q ->
  (forall P : Zq.zq q, length (penc P) = plen) ->
  (forall P : Zq.zq q, pdec (penc P) = Some P) ->
  (forall k m : bytes, open k (seal k m) = Some m) ->
  forall (x r : Zq.zq q) (m : bytes),
  ECIES.decrypt q plen penc pdec kdf open x (ECIES.encrypt q penc kdf seal (Grp.smul x Grp.pbase) r m) =
  Ok m.
Proof. exact ecies_roundtrip. Qed.
Print Assumptions C16_ecies_roundtrip.

Theorem C16_ecies_short :
  forall (q : BinNums.Z) (plen : nat) (penc : Zq.zq q -> bytes) (pdec : bytes -> option (Zq.zq q))
  (kdf : bytes -> bytes) (open : bytes -> bytes -> option bytes) (x : Zq.zq q)
  (ctx : bytes),
  length ctx < plen -> ECIES.decrypt q plen penc pdec kdf open x ctx = Err ECIES.E_SHORT.
Proof. exact ecies_short. Qed.
Print Assumptions C16_ecies_short.

Theorem C16_ecies_no_panic :
  forall (q : BinNums.Z) (plen : nat) (penc : Zq.zq q -> bytes) (pdec : bytes -> option (Zq.zq q))
  (kdf : bytes -> bytes) (open : bytes -> bytes -> option bytes) (x : Zq.zq q)
  (ctx : bytes), ECIES.decrypt q plen penc pdec kdf open x ctx <> Panic.
Proof. exact ecies_no_panic. Qed.
Print Assumptions C16_ecies_no_panic.

Theorem C16_ecies_accept_iff :
  forall (q : BinNums.Z) (plen : nat) (penc : Zq.zq q -> bytes) (pdec : bytes -> option (Zq.zq q))
  (kdf : bytes -> bytes) (open : bytes -> bytes -> option bytes) (x : Zq.zq q)
  (ctx m : bytes),
  ECIES.decrypt q plen penc pdec kdf open x ctx = Ok m <->
  plen <= length ctx /\
  (exists R : Zq.zq q,
  pdec (List.firstn plen ctx) = Some R /\
  open (kdf (penc (Grp.smul x R))) (List.skipn plen ctx) = Some m).
Proof. exact ecies_accept_iff. Qed.
Print Assumptions C16_ecies_accept_iff.

Theorem C16_ecies_tamper_body :
  forall (q : BinNums.Z) (plen : nat) (penc : Zq.zq q -> bytes) (pdec : bytes -> option (Zq.zq q))
  (kdf : bytes -> bytes) (seal : bytes -> bytes -> bytes) (open : bytes -> bytes -> option bytes),
  Znumtheory.prime q ->
  (forall P : Zq.zq q, length (penc P) = plen) ->
  (forall P : Zq.zq q, pdec (penc P) = Some P) ->
  forall (x r : Zq.zq q) (m c' : bytes),
  let k := kdf (penc (Grp.smul r (Grp.smul x Grp.pbase))) in
  auth open k (seal k m) ->
  c' <> seal k m ->
  ECIES.decrypt q plen penc pdec kdf open x (penc (Grp.smul r Grp.pbase) ++ c') = Err E_AUTH.
Proof. exact ecies_tamper_body. Qed.
Print Assumptions C16_ecies_tamper_body.

Theorem C16_ecies_truncated :
  forall (q : BinNums.Z) (plen : nat) (penc : Zq.zq q -> bytes) (pdec : bytes -> option (Zq.zq q))
  (kdf : bytes -> bytes) (seal : bytes -> bytes -> bytes) (open : bytes -> bytes -> option bytes),
  Znumtheory.prime q ->
  (forall P : Zq.zq q, length (penc P) = plen) ->
  (forall P : Zq.zq q, pdec (penc P) = Some P) ->
  forall (x r : Zq.zq q) (m : bytes) (n : nat),
  let k := kdf (penc (Grp.smul r (Grp.smul x Grp.pbase))) in
  let ct := ECIES.encrypt q penc kdf seal (Grp.smul x Grp.pbase) r m in
  auth open k (seal k m) ->
  n < length ct -> is_err (ECIES.decrypt q plen penc pdec kdf open x (List.firstn n ct)).
Proof. exact ecies_truncated. Qed.
Print Assumptions C16_ecies_truncated.

Theorem C16_ecies_tamper_point :
  forall (q : BinNums.Z) (plen : nat) (penc : Zq.zq q -> bytes) (pdec : bytes -> option (Zq.zq q))
  (kdf : bytes -> bytes) (seal : bytes -> bytes -> bytes) (open : bytes -> bytes -> option bytes),
  Znumtheory.prime q ->
  (forall P : Zq.zq q, pdec (penc P) = Some P) ->
  forall (x r : Zq.zq q) (m e' : bytes),
  let c := seal (kdf (penc (Grp.smul r (Grp.smul x Grp.pbase)))) m in
  (forall (e : bytes) (P : Zq.zq q), pdec e = Some P -> e = penc P) ->
  x <> Zq.zzero ->
  wrongkey kdf open (penc (Grp.smul r (Grp.smul x Grp.pbase))) c ->
  length e' = plen ->
  e' <> penc (Grp.smul r Grp.pbase) -> is_err (ECIES.decrypt q plen penc pdec kdf open x (e' ++ c)).
Proof. exact ecies_tamper_point. Qed.
Print Assumptions C16_ecies_tamper_point.

Theorem C16_ecies_wrong_key :
  forall (q : BinNums.Z) (plen : nat) (penc : Zq.zq q -> bytes) (pdec : bytes -> option (Zq.zq q))
  (kdf : bytes -> bytes) (seal : bytes -> bytes -> bytes) (open : bytes -> bytes -> option bytes),
  Znumtheory.prime q ->
  (forall P : Zq.zq q, length (penc P) = plen) ->
  (forall P : Zq.zq q, pdec (penc P) = Some P) ->
  forall (x x' r : Zq.zq q) (m : bytes),
  let c := seal (kdf (penc (Grp.smul r (Grp.smul x Grp.pbase)))) m in
  wrongkey kdf open (penc (Grp.smul r (Grp.smul x Grp.pbase))) c ->
  x' <> x ->
  r <> Zq.zzero ->
  ECIES.decrypt q plen penc pdec kdf open x' (ECIES.encrypt q penc kdf seal (Grp.smul x Grp.pbase) r m) =
  Err E_AUTH.
Proof. exact ecies_wrong_key. Qed.
Print Assumptions C16_ecies_wrong_key.

Theorem C16_ecies_no_clear_block :
  forall (q : BinNums.Z) (plen : nat) (penc : Zq.zq q -> bytes) (kdf : bytes -> bytes)
  (seal : bytes -> bytes -> bytes),
  (forall P : Zq.zq q, length (penc P) = plen) ->
  forall (ks : bytes -> nat -> bytes) (X r : Zq.zq q) (m : bytes) (j : nat),
  (forall k m0 : bytes, List.firstn (length m0) (seal k m0) = xorb m0 (ks k (length m0))) ->
  (forall (k : bytes) (n : nat), length (ks k n) = n) ->
  16 * j + 16 <= length m ->
  let k := kdf (penc (Grp.smul r X)) in
  block j (List.skipn plen (ECIES.encrypt q penc kdf seal X r m)) = block j m <->
  all_zero (block j (ks k (length m))).
Proof. exact ecies_no_clear_block. Qed.
Print Assumptions C16_ecies_no_clear_block.

Theorem C16_cca_encrypt_total :
  forall (q : BinNums.Z) (hsize : nat) (H : bytes -> bytes) (hashId : bool -> bytes -> Zq.zq q)
  (gtenc : Zq.zq q -> bytes) (sdec : bytes -> option (Zq.zq q)) (bigendian : bool)
  (tomask : BinNums.Z),
  (forall x : bytes, length (H x) = hsize) ->
  forall (g2 : bool) (master : Zq.zq q) (ID msg sigma : bytes),
  length sigma = length msg ->
  (exists c : ctxt q,
  encrypt_cca q hsize H hashId gtenc sdec bigendian tomask g2 master ID msg sigma = Ok c) \/
  encrypt_cca q hsize H hashId gtenc sdec bigendian tomask g2 master ID msg sigma = Err E_LONG \/
  encrypt_cca q hsize H hashId gtenc sdec bigendian tomask g2 master ID msg sigma = Err E_H3.
Proof. exact cca_encrypt_total. Qed.
Print Assumptions C16_cca_encrypt_total.

Theorem C16_cca_refuses_long :
  forall (q : BinNums.Z) (hsize : nat) (H : bytes -> bytes) (hashId : bool -> bytes -> Zq.zq q)
  (gtenc : Zq.zq q -> bytes) (sdec : bytes -> option (Zq.zq q)) (bigendian : bool)
  (tomask : BinNums.Z) (g2 : bool) (master : Zq.zq q) (ID msg sigma : bytes),
  hsize < length msg ->
  encrypt_cca q hsize H hashId gtenc sdec bigendian tomask g2 master ID msg sigma = Err E_LONG.
Proof. exact cca_refuses_long. Qed.
Print Assumptions C16_cca_refuses_long.

Theorem C16_cca_decrypt_refuses_long :
  forall (q : BinNums.Z) (hsize : nat) (H : bytes -> bytes) (gtenc : Zq.zq q -> bytes)
  (sdec : bytes -> option (Zq.zq q)) (bigendian : bool) (tomask : BinNums.Z)
  (g2 : bool) (private U : Zq.zq q) (V W : bytes),
  hsize < length W ->
  decrypt_cca q hsize H gtenc sdec bigendian tomask g2 private (U, V, W) = Err E_LONG.
Proof. exact cca_decrypt_refuses_long. Qed.
Print Assumptions C16_cca_decrypt_refuses_long.

Theorem C16_cca_decrypt_no_panic :
  forall (q : BinNums.Z) (hsize : nat) (H : bytes -> bytes) (gtenc : Zq.zq q -> bytes)
  (sdec : bytes -> option (Zq.zq q)) (bigendian : bool) (tomask : BinNums.Z),
  (forall x : bytes, length (H x) = hsize) ->
  forall (g2 : bool) (private : Zq.zq q) (c : ctxt q),
  decrypt_cca q hsize H gtenc sdec bigendian tomask g2 private c <> Panic.
Proof. exact cca_decrypt_no_panic. Qed.
Print Assumptions C16_cca_decrypt_no_panic.

Theorem C16_cca_accept_iff :
  forall (q : BinNums.Z) (hsize : nat) (H : bytes -> bytes) (gtenc : Zq.zq q -> bytes)
  (sdec : bytes -> option (Zq.zq q)) (bigendian : bool) (tomask : BinNums.Z),
  (forall x : bytes, length (H x) = hsize) ->
  forall (g2 : bool) (private U : Zq.zq q) (V W m : bytes),
  decrypt_cca q hsize H gtenc sdec bigendian tomask g2 private (U, V, W) = Ok m <->
  length W <= hsize /\
  length V = length W /\
  (let rGid := if g2 then Grp.pair private U else Grp.pair U private in
  let sigma := xorb (gt_to_hash q H gtenc rGid (length W)) V in
  m = xorb (List.firstn (length W) (H (tag4 ++ sigma)%list)) W /\
  (exists r : Zq.zq q, h3 q H sdec bigendian tomask sigma m = Some r /\ Grp.smul r Grp.pbase = U)).
Proof. exact cca_accept_iff. Qed.
Print Assumptions C16_cca_accept_iff.

Theorem C16_cca_roundtrip :
  forall (q : BinNums.Z) (hsize : nat) (H : bytes -> bytes) (hashId : bool -> bytes -> Zq.zq q)
  (gtenc : Zq.zq q -> bytes) (sdec : bytes -> option (Zq.zq q)) (bigendian : bool)
  (tomask : BinNums.Z),
  Znumtheory.prime q ->
  (forall x : bytes, length (H x) = hsize) ->
  forall (g2 : bool) (s : Zq.zq q) (ID msg sigma : bytes) (c : ctxt q),
  length sigma = length msg ->
  encrypt_cca q hsize H hashId gtenc sdec bigendian tomask g2 (Grp.smul s Grp.pbase) ID msg sigma = Ok c ->
  decrypt_cca q hsize H gtenc sdec bigendian tomask g2 (Grp.smul s (hashId g2 ID)) c = Ok msg.
Proof. exact cca_roundtrip. Qed.
Print Assumptions C16_cca_roundtrip.

Theorem C16_cca_tamper_VW :
  forall (q : BinNums.Z) (hsize : nat) (H : bytes -> bytes) (hashId : bool -> bytes -> Zq.zq q)
  (gtenc : Zq.zq q -> bytes) (sdec : bytes -> option (Zq.zq q)) (bigendian : bool)
  (tomask : BinNums.Z),
  Znumtheory.prime q ->
  (forall x : bytes, length (H x) = hsize) ->
  forall (g2 : bool) (s : Zq.zq q) (ID msg sigma : bytes) (U : Zq.zq q) (V W V' W' : bytes),
  length sigma = length msg ->
  encrypt_cca q hsize H hashId gtenc sdec bigendian tomask g2 (Grp.smul s Grp.pbase) ID msg sigma =
  Ok (U, V, W) ->
  h3_coll_free q H sdec bigendian tomask sigma msg ->
  (V', W') <> (V, W) ->
  is_err (decrypt_cca q hsize H gtenc sdec bigendian tomask g2 (Grp.smul s (hashId g2 ID)) (U, V', W')).
Proof. exact cca_tamper_VW. Qed.
Print Assumptions C16_cca_tamper_VW.

Theorem C16_cca_tamper_U :
  forall (q : BinNums.Z) (hsize : nat) (H : bytes -> bytes) (gtenc : Zq.zq q -> bytes)
  (sdec : bytes -> option (Zq.zq q)) (bigendian : bool) (tomask : BinNums.Z),
  (forall x : bytes, length (H x) = hsize) ->
  forall (g2 : bool) (private U' : Zq.zq q) (V W m' : bytes),
  decrypt_cca q hsize H gtenc sdec bigendian tomask g2 private (U', V, W) = Ok m' ->
  exists (sigma' : bytes) (r' : Zq.zq q),
  h3 q H sdec bigendian tomask sigma' m' = Some r' /\
  U' = Grp.smul r' Grp.pbase /\
  sigma' =
  xorb (gt_to_hash q H gtenc (if g2 then Grp.pair private U' else Grp.pair U' private) (length W)) V.
Proof. exact cca_tamper_U. Qed.
Print Assumptions C16_cca_tamper_U.

Theorem C16_cca_wrong_key :
  forall (q : BinNums.Z) (hsize : nat) (H : bytes -> bytes) (hashId : bool -> bytes -> Zq.zq q)
  (gtenc : Zq.zq q -> bytes) (sdec : bytes -> option (Zq.zq q)) (bigendian : bool)
  (tomask : BinNums.Z),
  Znumtheory.prime q ->
  (forall x : bytes, length (H x) = hsize) ->
  forall (g2 : bool) (s : Zq.zq q) (ID msg sigma : bytes) (U : Zq.zq q) (V W : bytes)
  (private' : Zq.zq q),
  length sigma = length msg ->
  encrypt_cca q hsize H hashId gtenc sdec bigendian tomask g2 (Grp.smul s Grp.pbase) ID msg sigma =
  Ok (U, V, W) ->
  h3_coll_free q H sdec bigendian tomask sigma msg ->
  let pad :=
  fun k : Zq.zq q => gt_to_hash q H gtenc (if g2 then Grp.pair k U else Grp.pair U k) (length msg) in
  (pad private' <> pad (Grp.smul s (hashId g2 ID)) ->
  is_err (decrypt_cca q hsize H gtenc sdec bigendian tomask g2 private' (U, V, W))) /\
  (forall m' : bytes,
  decrypt_cca q hsize H gtenc sdec bigendian tomask g2 private' (U, V, W) = Ok m' -> m' = msg).
Proof. exact cca_wrong_key. Qed.
Print Assumptions C16_cca_wrong_key.

Theorem C16_cca_empty_any_key :
  forall (q : BinNums.Z) (hsize : nat) (H : bytes -> bytes) (hashId : bool -> bytes -> Zq.zq q)
  (gtenc : Zq.zq q -> bytes) (sdec : bytes -> option (Zq.zq q)) (bigendian : bool)
  (tomask : BinNums.Z),
  (forall x : bytes, length (H x) = hsize) ->
  forall (g2 : bool) (master : Zq.zq q) (ID : bytes) (c : ctxt q) (private' : Zq.zq q),
  encrypt_cca q hsize H hashId gtenc sdec bigendian tomask g2 master ID nil nil = Ok c ->
  decrypt_cca q hsize H gtenc sdec bigendian tomask g2 private' c = Ok nil.
Proof. exact cca_empty_any_key. Qed.
Print Assumptions C16_cca_empty_any_key.

Theorem C16_cca_no_clear_block :
  forall (q : BinNums.Z) (hsize : nat) (H : bytes -> bytes) (hashId : bool -> bytes -> Zq.zq q)
  (gtenc : Zq.zq q -> bytes) (sdec : bytes -> option (Zq.zq q)) (bigendian : bool)
  (tomask : BinNums.Z),
  (forall x : bytes, length (H x) = hsize) ->
  forall (g2 : bool) (master : Zq.zq q) (ID msg sigma : bytes) (U : Zq.zq q) (V W : bytes) (j : nat),
  length sigma = length msg ->
  encrypt_cca q hsize H hashId gtenc sdec bigendian tomask g2 master ID msg sigma = Ok (U, V, W) ->
  block j W = block j msg <-> all_zero (block j (List.firstn (length msg) (H (tag4 ++ sigma)%list))).
Proof. exact cca_no_clear_block. Qed.
Print Assumptions C16_cca_no_clear_block.

Theorem C16_cpa_roundtrip :
  forall (q : BinNums.Z) (hsize : nat) (H : bytes -> bytes) (hashId : bool -> bytes -> Zq.zq q)
  (gtenc : Zq.zq q -> bytes),
  Znumtheory.prime q ->
  forall (guarded : bool) (s base : Zq.zq q) (ID msg : bytes) (r : Zq.zq q) (c : Zq.zq q * bytes),
  encrypt_cpa q hsize H hashId gtenc guarded base (Grp.smul s base) ID msg r = Ok c ->
  decrypt_cpa q hsize H gtenc guarded (Grp.smul s (hashId false ID)) c = Ok msg.
Proof. exact cpa_roundtrip. Qed.
Print Assumptions C16_cpa_roundtrip.

Theorem C16_cpa_refuses_long :
  forall (q : BinNums.Z) (hsize : nat) (H : bytes -> bytes) (hashId : bool -> bytes -> Zq.zq q)
  (gtenc : Zq.zq q -> bytes) (base public : Zq.zq q) (ID msg : bytes) (r : Zq.zq q),
  hsize < length msg -> encrypt_cpa q hsize H hashId gtenc true base public ID msg r = Err E_LONG.
Proof. exact cpa_refuses_long. Qed.
Print Assumptions C16_cpa_refuses_long.

Theorem C16_cpa_decrypt_no_panic :
  forall (q : BinNums.Z) (hsize : nat) (H : bytes -> bytes) (gtenc : Zq.zq q -> bytes) 
  (guarded : bool) (private : Zq.zq q) (c : Zq.zq q * bytes),
  decrypt_cpa q hsize H gtenc guarded private c <> Panic.
Proof. exact cpa_decrypt_no_panic. Qed.
Print Assumptions C16_cpa_decrypt_no_panic.

Theorem C16_cpa_encrypt_no_panic :
  forall (q : BinNums.Z) (hsize : nat) (H : bytes -> bytes) (hashId : bool -> bytes -> Zq.zq q)
  (gtenc : Zq.zq q -> bytes) (guarded : bool) (base public : Zq.zq q) (ID msg : bytes)
  (r : Zq.zq q), encrypt_cpa q hsize H hashId gtenc guarded base public ID msg r <> Panic.
Proof. exact cpa_encrypt_no_panic. Qed.
Print Assumptions C16_cpa_encrypt_no_panic.

Theorem C16_cpa_pad_spec :
  forall (q : BinNums.Z) (hsize : nat) (H : bytes -> bytes) (hashId : bool -> bytes -> Zq.zq q)
  (gtenc : Zq.zq q -> bytes),
  (forall x : bytes, length (H x) = hsize) ->
  forall (guarded : bool) (base public : Zq.zq q) (ID msg : bytes) (r RP : Zq.zq q) (C : bytes),
  encrypt_cpa q hsize H hashId gtenc guarded base public ID msg r = Ok (RP, C) ->
  let h := H (tag2 ++ gtenc (Grp.pair public (Grp.smul r (hashId false ID))))%list in
  length C = length msg /\
  (forall i : nat,
  i < length msg ->
  List.nth i C BinNums.Z0 =
  (if PeanoNat.Nat.ltb i hsize
  then BinInt.Z.lxor (List.nth i msg BinNums.Z0) (List.nth i h BinNums.Z0)
  else List.nth i msg BinNums.Z0)).
Proof. exact cpa_pad_spec. Qed.
Print Assumptions C16_cpa_pad_spec.

Theorem C16_cpa_no_clear_block :
  forall (q : BinNums.Z) (hsize : nat) (H : bytes -> bytes) (hashId : bool -> bytes -> Zq.zq q)
  (gtenc : Zq.zq q -> bytes),
  (forall x : bytes, length (H x) = hsize) ->
  forall (base public : Zq.zq q) (ID msg : bytes) (r RP : Zq.zq q) (C : bytes) (j : nat),
  encrypt_cpa q hsize H hashId gtenc true base public ID msg r = Ok (RP, C) ->
  let h := H (tag2 ++ gtenc (Grp.pair public (Grp.smul r (hashId false ID))))%list in
  length msg <= hsize /\
  C = xorb msg (List.firstn (length msg) h) /\
  (block j C = block j msg <-> all_zero (block j (List.firstn (length msg) h))).
Proof. exact cpa_no_clear_block. Qed.
Print Assumptions C16_cpa_no_clear_block.

Theorem C16_cpa_unguarded_clear_refuted :
  forall (q : BinNums.Z) (hsize : nat) (H : bytes -> bytes) (hashId : bool -> bytes -> Zq.zq q)
  (gtenc : Zq.zq q -> bytes),
  (forall x : bytes, length (H x) = hsize) ->
  forall (base public : Zq.zq q) (ID msg : bytes) (r RP : Zq.zq q) (C : bytes) (j : nat),
  encrypt_cpa q hsize H hashId gtenc false base public ID msg r = Ok (RP, C) ->
  hsize <= 16 * j -> 16 * j + 16 <= length msg -> block j C = block j msg.
Proof. exact cpa_unguarded_clear_refuted. Qed.
Print Assumptions C16_cpa_unguarded_clear_refuted.

Theorem C16_anon_accept_iff :
  forall (q : BinNums.Z) (plen slen : nat) (penc : Zq.zq q -> bytes)
  (pdec sdec : bytes -> option (Zq.zq q)) (xof : bytes -> nat -> bytes),
  (forall (s : bytes) (n : nat), length (xof s n) = n) ->
  forall (c : bytes) (set : list (Zq.zq q)) (mine : BinNums.Z) (priv : Zq.zq q) (m : bytes),
  decrypt_pure q plen slen penc pdec sdec xof true c set mine priv = Ok m <->
  (exists (X x : Zq.zq q) (xb : bytes), accepted q plen slen penc pdec sdec xof c set mine priv m X x xb).
Proof. exact anon_accept_iff. Qed.
Print Assumptions C16_anon_accept_iff.

Theorem C16_anon_no_panic :
  forall (q : BinNums.Z) (plen slen : nat) (penc : Zq.zq q -> bytes)
  (pdec sdec : bytes -> option (Zq.zq q)) (xof : bytes -> nat -> bytes) (check : bool)
  (c : bytes) (set : list (Zq.zq q)) (mine : BinNums.Z) (priv : Zq.zq q),
  BinInt.Z.le BinNums.Z0 mine /\ BinInt.Z.lt mine (BinInt.Z.of_nat (length set)) ->
  decrypt_pure q plen slen penc pdec sdec xof check c set mine priv <> Panic.
Proof. exact anon_no_panic. Qed.
Print Assumptions C16_anon_no_panic.

Theorem C16_anon_short :
  forall (q : BinNums.Z) (plen slen : nat) (penc : Zq.zq q -> bytes)
  (pdec sdec : bytes -> option (Zq.zq q)) (xof : bytes -> nat -> bytes) (check : bool)
  (c : bytes) (set : list (Zq.zq q)) (mine : BinNums.Z) (priv : Zq.zq q),
  BinInt.Z.le BinNums.Z0 mine /\ BinInt.Z.lt mine (BinInt.Z.of_nat (length set)) ->
  length c < plen + slen * length set + macSize ->
  is_err (decrypt_pure q plen slen penc pdec sdec xof check c set mine priv).
Proof. exact anon_short. Qed.
Print Assumptions C16_anon_short.

Theorem C16_anon_roundtrip :
  forall (q : BinNums.Z) (plen slen : nat) (penc : Zq.zq q -> bytes) (pdec : bytes -> option (Zq.zq q))
  (senc : Zq.zq q -> bytes) (sdec : bytes -> option (Zq.zq q)) (xof : bytes -> nat -> bytes),
  Znumtheory.prime q ->
  (forall P : Zq.zq q, length (penc P) = plen) ->
  (forall P : Zq.zq q, pdec (penc P) = Some P) ->
  (forall s : Zq.zq q, length (senc s) = slen) ->
  (forall s : Zq.zq q, sdec (senc s) = Some s) ->
  (forall (s : bytes) (n : nat), length (xof s n) = n) ->
  forall (set : list (Zq.zq q)) (x : Zq.zq q) (m : bytes) (i : nat) (priv : Zq.zq q),
  i < length set ->
  List.nth i set Zq.zzero = Grp.smul priv Grp.pbase ->
  decrypt_pure q plen slen penc pdec sdec xof true (encrypt q penc senc xof set x m) set
  (BinInt.Z.of_nat i) priv = Ok m.
Proof. exact anon_roundtrip. Qed.
Print Assumptions C16_anon_roundtrip.

Theorem C16_anon_all_members_agree :
  forall (q : BinNums.Z) (plen slen : nat) (penc : Zq.zq q -> bytes)
  (pdec sdec : bytes -> option (Zq.zq q)) (xof : bytes -> nat -> bytes),
  Znumtheory.prime q ->
  (forall (s : bytes) (n : nat), length (xof s n) = n) ->
  forall (c : bytes) (set : list (Zq.zq q)) (i : BinNums.Z) (priv_i : Zq.zq q)
  (m : bytes) (j : nat) (priv_j : Zq.zq q),
  decrypt_pure q plen slen penc pdec sdec xof true c set i priv_i = Ok m ->
  j < length set ->
  List.nth j set Zq.zzero = Grp.smul priv_j Grp.pbase ->
  decrypt_pure q plen slen penc pdec sdec xof true c set (BinInt.Z.of_nat j) priv_j = Ok m.
Proof. exact anon_all_members_agree. Qed.
Print Assumptions C16_anon_all_members_agree.

Theorem C16_anon_header_determined :
  forall (q : BinNums.Z) (plen slen : nat) (penc : Zq.zq q -> bytes)
  (pdec sdec : bytes -> option (Zq.zq q)) (xof : bytes -> nat -> bytes),
  (forall (s : bytes) (n : nat), length (xof s n) = n) ->
  forall (c c' : bytes) (set : list (Zq.zq q)) (mine : BinNums.Z) (priv : Zq.zq q) (m m' : bytes),
  decrypt_pure q plen slen penc pdec sdec xof true c set mine priv = Ok m ->
  decrypt_pure q plen slen penc pdec sdec xof true c' set mine priv = Ok m' ->
  List.firstn plen c' = List.firstn plen c ->
  List.firstn slen (List.skipn (plen + slen * BinInt.Z.to_nat mine) c') =
  List.firstn slen (List.skipn (plen + slen * BinInt.Z.to_nat mine) c) ->
  List.firstn (plen + slen * length set) c' = List.firstn (plen + slen * length set) c.
Proof. exact anon_header_determined. Qed.
Print Assumptions C16_anon_header_determined.

Theorem C16_anon_tamper_other_slot :
  forall (q : BinNums.Z) (plen slen : nat) (penc : Zq.zq q -> bytes)
  (pdec sdec : bytes -> option (Zq.zq q)) (xof : bytes -> nat -> bytes),
  (forall (s : bytes) (n : nat), length (xof s n) = n) ->
  forall (c c' : bytes) (set : list (Zq.zq q)) (mine : BinNums.Z) (priv : Zq.zq q) (m : bytes),
  decrypt_pure q plen slen penc pdec sdec xof true c set mine priv = Ok m ->
  BinInt.Z.le BinNums.Z0 mine /\ BinInt.Z.lt mine (BinInt.Z.of_nat (length set)) ->
  List.firstn plen c' = List.firstn plen c ->
  List.firstn slen (List.skipn (plen + slen * BinInt.Z.to_nat mine) c') =
  List.firstn slen (List.skipn (plen + slen * BinInt.Z.to_nat mine) c) ->
  List.firstn (plen + slen * length set) c' <> List.firstn (plen + slen * length set) c ->
  is_err (decrypt_pure q plen slen penc pdec sdec xof true c' set mine priv).
Proof. exact anon_tamper_other_slot. Qed.
Print Assumptions C16_anon_tamper_other_slot.

Theorem C16_anon_tag_determined :
  forall (q : BinNums.Z) (plen slen : nat) (penc : Zq.zq q -> bytes)
  (pdec sdec : bytes -> option (Zq.zq q)) (xof : bytes -> nat -> bytes),
  (forall (s : bytes) (n : nat), length (xof s n) = n) ->
  forall (c c' : bytes) (set : list (Zq.zq q)) (mine : BinNums.Z) (priv : Zq.zq q) (m m' : bytes),
  decrypt_pure q plen slen penc pdec sdec xof true c set mine priv = Ok m ->
  decrypt_pure q plen slen penc pdec sdec xof true c' set mine priv = Ok m' ->
  length c' = length c ->
  List.firstn (length c - macSize) c' = List.firstn (length c - macSize) c -> c' = c.
Proof. exact anon_tag_determined. Qed.
Print Assumptions C16_anon_tag_determined.

Theorem C16_anon_tamper_tag :
  forall (q : BinNums.Z) (plen slen : nat) (penc : Zq.zq q -> bytes)
  (pdec sdec : bytes -> option (Zq.zq q)) (xof : bytes -> nat -> bytes),
  (forall (s : bytes) (n : nat), length (xof s n) = n) ->
  forall (c c' : bytes) (set : list (Zq.zq q)) (mine : BinNums.Z) (priv : Zq.zq q) (m : bytes),
  decrypt_pure q plen slen penc pdec sdec xof true c set mine priv = Ok m ->
  BinInt.Z.le BinNums.Z0 mine /\ BinInt.Z.lt mine (BinInt.Z.of_nat (length set)) ->
  length c' = length c ->
  List.firstn (length c - macSize) c' = List.firstn (length c - macSize) c ->
  c' <> c -> is_err (decrypt_pure q plen slen penc pdec sdec xof true c' set mine priv).
Proof. exact anon_tamper_tag. Qed.
Print Assumptions C16_anon_tamper_tag.

Theorem C16_anon_tamper_body :
  forall (q : BinNums.Z) (plen slen : nat) (penc : Zq.zq q -> bytes)
  (pdec sdec : bytes -> option (Zq.zq q)) (xof : bytes -> nat -> bytes),
  (forall (s : bytes) (n : nat), length (xof s n) = n) ->
  forall (c c' : bytes) (set : list (Zq.zq q)) (mine : BinNums.Z) (priv : Zq.zq q) (m m' : bytes),
  decrypt_pure q plen slen penc pdec sdec xof true c set mine priv = Ok m ->
  decrypt_pure q plen slen penc pdec sdec xof true c' set mine priv = Ok m' ->
  length c' = length c ->
  List.skipn (length c - macSize) c' = List.skipn (length c - macSize) c ->
  let h := plen + slen * length set in
  let body := fun z : bytes => List.firstn (length c - macSize - h) (List.skipn h z) in
  xof (body c') macSize = xof (body c) macSize.
Proof. exact anon_tamper_body. Qed.
Print Assumptions C16_anon_tamper_body.

Theorem C16_anon_wrong_key :
  forall (q : BinNums.Z) (plen slen : nat) (penc : Zq.zq q -> list BinNums.Z)
    (pdec : list BinNums.Z -> option (Zq.zq q)) (senc : Zq.zq q -> list BinNums.Z)
    (sdec : list BinNums.Z -> option (Zq.zq q)) (xof : list BinNums.Z -> nat -> list BinNums.Z),
  Znumtheory.prime q ->
  (forall P : Zq.zq q, length (penc P) = plen) ->
  (forall P : Zq.zq q, pdec (penc P) = Some P) ->
  (forall s : Zq.zq q, length (senc s) = slen) ->
  (forall (s : list BinNums.Z) (n : nat), length (xof s n) = n) ->
  forall (set : list (Zq.zq q)) (x : Zq.zq q) (m : list BinNums.Z) (i : nat)
    (priv' : Zq.zq q) (m' : list BinNums.Z),
  i < length set ->
  decrypt_pure q plen slen penc pdec sdec xof true (encrypt q penc senc xof set x m) set
    (BinInt.Z.of_nat i) priv' = Ok m' ->
  xof (penc (Grp.smul priv' (Grp.smul x Grp.pbase))) slen =
  xof (penc (Grp.smul x (List.nth i set Zq.zzero))) slen /\ m' = m.
Proof. exact anon_wrong_key. Qed.
Print Assumptions C16_anon_wrong_key.

Theorem C16_anon_no_clear_block :
  forall (q : BinNums.Z) (plen slen : nat) (penc senc : Zq.zq q -> bytes) (xof : bytes -> nat -> bytes),
  (forall P : Zq.zq q, length (penc P) = plen) ->
  (forall s : Zq.zq q, length (senc s) = slen) ->
  (forall (s : bytes) (n : nat), length (xof s n) = n) ->
  forall (set : list (Zq.zq q)) (x : Zq.zq q) (m : bytes) (j : nat),
  let c := encrypt q penc senc xof set x m in
  let h := plen + slen * length set in
  block j (List.firstn (length m) (List.skipn h c)) = block j m <->
  all_zero (block j (xof (senc x) (length m))).
Proof. exact anon_no_clear_block. Qed.
Print Assumptions C16_anon_no_clear_block.

Theorem C16_anon_repaired_refines :
  forall (q : BinNums.Z) (plen slen : nat) (penc : Zq.zq q -> bytes)
  (pdec sdec : bytes -> option (Zq.zq q)) (xof : bytes -> nat -> bytes),
  (forall (s : bytes) (n : nat), length (xof s n) = n) ->
  forall (buf : bytes) (len : nat) (set : list (Zq.zq q)) (mine : BinNums.Z) (priv : Zq.zq q),
  len <= length buf ->
  let ct := {| s_buf := 0; s_off := 0; s_len := len; s_cap := length buf |} in
  let r := decrypt q plen slen penc pdec sdec xof repaired (buf :: nil)%list ct set mine priv in
  snd r = decrypt_pure q plen slen penc pdec sdec xof true (List.firstn len buf) set mine priv /\
  List.nth 0 (fst r) nil = buf.
Proof. exact anon_repaired_refines. Qed.
Print Assumptions C16_anon_repaired_refines.

Theorem C16_anon_as_found_check_vacuous :
  forall (q : BinNums.Z) (plen slen : nat) (penc : Zq.zq q -> bytes)
  (pdec sdec : bytes -> option (Zq.zq q)) (xof : bytes -> nat -> bytes),
  (forall (s : bytes) (n : nat), length (xof s n) = n) ->
  forall (buf : bytes) (len : nat) (set : list (Zq.zq q)) (mine : BinNums.Z) (priv X x : Zq.zq q),
  len <= length buf ->
  let ct := {| s_buf := 0; s_off := 0; s_len := len; s_cap := length buf |} in
  let c := List.firstn len buf in
  BinInt.Z.le BinNums.Z0 mine /\ BinInt.Z.lt mine (BinInt.Z.of_nat (length set)) ->
  plen + slen * length set <= len ->
  pdec (List.firstn plen c) = Some X ->
  let xb :=
  xorb (List.firstn slen (List.skipn (plen + slen * BinInt.Z.to_nat mine) c))
  (xof (penc (Grp.smul priv X)) slen) in
  sdec xb = Some x ->
  X = Grp.smul x Grp.pbase ->
  snd (decrypt_key q plen slen penc pdec sdec xof false (buf :: nil)%list ct set mine priv) =
  Ok (xb, plen + slen * length set).
Proof. exact anon_as_found_check_vacuous. Qed.
Print Assumptions C16_anon_as_found_check_vacuous.

(* non-vacuity: the premises used above (prime order, codec round trips,
   open(seal) = id, hash and stream lengths) hold on a concrete instance, on
   which the models compute round trips, refusals and rejections for a 40-byte
   message, three recipients and both IBE group assignments *)
Example C16_nonvacuous :
  prime tq /\ (forall P, length (tpenc P) = 1%nat) /\ (forall P, tpdec (tpenc P) = Some P) /\
  (forall k m, topen k (tseal k m) = Some m) /\ (forall x, length (tH x) = 32%nat) /\
  (forall s n, length (tks s n) = n) /\
  t_ecies_dec (zt 9) (t_ecies_enc (zt 9) (zt 5) [1; 2; 3]%Z) = Ok [1; 2; 3]%Z /\
  t_ecies_dec (zt 9) (flip 2 (t_ecies_enc (zt 9) (zt 5) [1; 2; 3]%Z)) = Ok [1; 3; 3]%Z /\
  t_ecies_dec (zt 9) [] = Err 1%Z /\
  (forall g2, match t_cca_enc g2 (zt 6) [7; 7]%Z (firstn 20 msg40) (repeat 9%Z 20) with
              | Ok c => t_cca_dec g2 (smul (zt 6) (thashId g2 [7; 7]%Z)) c = Ok (firstn 20 msg40) /\
                        (let '(U, V, W) := c in
                         t_cca_dec g2 (smul (zt 6) (thashId g2 [7; 7]%Z)) (U, flip 3 V, W) = Err 4%Z /\
                         t_cca_dec g2 (smul (zt 6) (thashId g2 [7; 7]%Z)) (U, V, firstn 19 W) = Err 3%Z)
              | _ => False end) /\
  t_cca_enc false (zt 6) [7; 7]%Z msg40 (repeat 9%Z 40) = Err 1%Z /\
  t_cpa_enc true (zt 1) (zt 6) [7]%Z msg40 (zt 11) = Err 1%Z /\
  match t_cpa_enc false (zt 1) (zt 6) [7]%Z msg40 (zt 11) with
  | Ok (_, C) => skipn 32 C = skipn 32 msg40
  | _ => False end /\
  (forall i, In i [0; 1; 2]%Z ->
     t_anon_pure (t_anon_enc [zt 3; zt 5; zt 8] (zt 7) msg40) [zt 3; zt 5; zt 8] i
       (nth (Z.to_nat i) [zt 3; zt 5; zt 8] (zt 0)) = Ok msg40).
Proof. exact toy_nonvacuous. Qed.

(* concrete witness of the aliasing defect of sign/anon Decrypt as found, and of
   its absence in the repaired code (see theories/Enc/EncToy.v) *)
Example C16_anon_aliasing_witness :
  let set := [zt 3; zt 5; zt 8] in
  let c := t_anon_enc set (zt 7) msg40 in
  let c' := flip 3 c in
  let ct := mkslice 0 0 (length c') (length c') in
  snd (t_anon_dec as_found [c'] ct set 0%Z (zt 3)) = Ok msg40 /\
  nth 0 (fst (t_anon_dec as_found [c'] ct set 0%Z (zt 3))) [] <> c' /\
  snd (t_anon_dec repaired [c'] ct set 0%Z (zt 3)) = Err 4%Z /\
  nth 0 (fst (t_anon_dec repaired [c'] ct set 0%Z (zt 3))) [] = c' /\
  snd (t_anon_dec as_found [nth 0 (fst (t_anon_dec as_found [c] ct set 0%Z (zt 3))) []] ct set 1%Z (zt 5)) = Err 5%Z.
Proof. exact toy_anon_aliasing_witness. Qed.
Print Assumptions C16_anon_aliasing_witness.
