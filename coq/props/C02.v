(* Property C02 - scalars behave exactly as integers modulo the group order.
   Only statements, each closed by [exact]; proofs are in theories/Scalar/
   (ScalarProofs.v, Fermat.v), theories/Codec/BytesProofs.v and Algebra/Zq.v.
   The model is Scalar/ScalarSM.v: [op_impl i o] is the operation as coded for
   implementation [i] (Ed25519 / mod.Int / CIRCL / gnark), [op_spec o] the
   operation on integers modulo q that the property names. *)
From Coq Require Import ZArith Znumtheory List Bool Ring Field.
From Kyber Require Import Algebra.Zq Xof.XofSM Xof.XofProofs Codec.Bytes Codec.BytesProofs
  Scalar.ScalarSM Scalar.Fermat Scalar.ScalarProofs.
Import ListNotations.
Local Open Scope Z_scope.

(* integers modulo q with canonical representatives form a commutative ring
   (every q) and a field (prime q): Add, Sub, Neg, Mul, Zero, One, Inv, Div *)
Theorem C02_ring : forall q, ring_theory (@zzero q) zone zadd zmul zsub zopp eq.
Proof. exact zq_ring. Qed.
Print Assumptions C02_ring.

Theorem C02_field : forall q, prime q ->
  field_theory (@zzero q) zone zadd zmul zsub zopp zdiv zinv eq.
Proof. exact zq_field. Qed.
Print Assumptions C02_field.

(* the integer each operation computes *)
Theorem C02_op_values : forall q, prime q -> forall a b : zq q,
  val (zadd a b) = (val a + val b) mod q /\
  val (zsub a b) = (val a - val b) mod q /\
  val (zmul a b) = (val a * val b) mod q /\
  val (zopp a) = (- val a) mod q /\
  (a <> zzero -> (val a * val (zinv a)) mod q = 1) /\
  (b <> zzero -> (val (zdiv a b) * val b) mod q = val a).
Proof. exact op_values. Qed.
Print Assumptions C02_op_values.

Theorem C02_zero_one : forall q, prime q -> val (@zzero q) = 0 /\ val (@zone q) = 1.
Proof. exact val_zero_one. Qed.
Print Assumptions C02_zero_one.

(* every operation AS CODED for every implementation (Ed25519: Neg = 0 - a,
   Inv = 256-step square-and-multiply over L-2, Div = a * Inv b; mod.Int: Neg
   with the sign test, extended Euclid; CIRCL: ladder, Div = Inv b * a; gnark)
   is exactly the operation on integers modulo q; Inv/Div for non-zero divisors *)
Theorem C02_op_impl : forall q, prime q -> forall i o (a b : zq q),
  q < 2 ^ 256 ->
  (o = ODiv -> b <> zzero) -> (o = OInv -> a <> zzero) ->
  op_impl i o a b = op_spec o a b.
Proof. exact op_impl_spec. Qed.
Print Assumptions C02_op_impl.

(* mod.Int (any modulus size, e.g. the 512-bit QR group) and gnark: no ladder *)
Theorem C02_op_impl_any_size : forall q, prime q -> forall i o (a b : zq q),
  i = IMod \/ i = IGnark ->
  (o = ODiv -> b <> zzero) -> (o = OInv -> a <> zzero) ->
  op_impl i o a b = op_spec o a b.
Proof. exact op_impl_spec_euclid. Qed.
Print Assumptions C02_op_impl_any_size.

(* the ladder, as coded, computes a^e for every exponent and every bit width;
   a^(q-1) = 1 (Fermat); hence the coded inversion is the modular inverse *)
Theorem C02_ladder : forall q, prime q -> forall n e (a : zq q),
  0 <= e < 2 ^ Z.of_nat n -> ladder (bits_msb n e) a = zpow a e.
Proof. exact ladder_correct. Qed.
Print Assumptions C02_ladder.

Theorem C02_fermat : forall q, prime q -> forall a : zq q, a <> zzero -> zpow a (q - 1) = zone.
Proof. exact fermat_little. Qed.
Print Assumptions C02_fermat.

Theorem C02_inv_fermat : forall q, prime q -> forall nbits (a : zq q),
  q < 2 ^ Z.of_nat nbits -> a <> zzero -> inv_fermat nbits a = zinv a.
Proof. exact inv_fermat_spec. Qed.
Print Assumptions C02_inv_fermat.

(* canonical reduced form of every result *)
Theorem C02_canonical : forall q, prime q -> forall a : zq q, 0 <= val a < q.
Proof. exact canonical. Qed.
Print Assumptions C02_canonical.

(* Equal (Ed25519: comparison of the stored 32-byte arrays; others: of the
   values) coincides with equality of residues *)
Theorem C02_equal : forall q, prime q -> forall i (a b : zq q),
  q <= 2 ^ 256 -> (equal_impl i a b = true <-> val a = val b).
Proof. exact equal_impl_spec. Qed.
Print Assumptions C02_equal.

(* SetBytes: a byte string of ANY length, in the declared byte order, reduced *)
Theorem C02_set_bytes : forall q, prime q -> forall bo bs,
  val (set_bytes q bo bs) =
    (match bo with LE => le_decode bs | BE => le_decode (rev bs) end) mod q /\
  0 <= val (set_bytes q bo bs) < q.
Proof. exact set_bytes_spec. Qed.
Print Assumptions C02_set_bytes.

(* the decoder as coded (reverse, then big-endian Horner) is the positional value *)
Theorem C02_decode_positional : forall bs,
  decode LE bs = le_decode bs /\ decode BE bs = le_decode (rev bs).
Proof. exact (fun bs => conj (decode_LE bs) (decode_BE bs)). Qed.
Print Assumptions C02_decode_positional.

(* SetInt64 (CIRCL: via |v| and Neg): v mod q for every integer *)
Theorem C02_set_int64 : forall q, prime q -> forall i v,
  val (of_int64_impl q i v) = v mod q /\ 0 <= v mod q < q.
Proof. exact of_int64_spec. Qed.
Print Assumptions C02_set_int64.

(* Pick: in [0,q); the stream splits into consumed ++ rest and the result is
   the same for every continuation after the consumed bytes; for all but CIRCL
   the value is the first masked candidate below q, unchanged (no folding);
   CIRCL's value is that candidate times the constant R^-1 (Montgomery) *)
Theorem C02_pick : forall q, prime q -> forall i fuel s (r : zq q) rest,
  Forall is_byte s -> pick_impl q i fuel s = Some (r, rest) ->
  0 <= val r < q /\
  exists consumed,
    s = consumed ++ rest /\
    (forall rest2, pick_impl q i fuel (consumed ++ rest2) = Some (r, rest2)) /\
    (i <> ICircl ->
     exists k : nat,
       cand q s k = Some (val r) /\
       (forall j, (j < k)%nat -> exists c, cand q s j = Some c /\ q <= c) /\
       rest = skipn ((k + 1) * Z.to_nat ((bitlen_of q + 7) / 8)) s).
Proof. exact pick_spec. Qed.
Print Assumptions C02_pick.

(* the specification the Ed25519 limb functions (scMulAdd, scAdd, scSub, scMul,
   scReduce) are compared with: for ALL byte-array inputs a canonical 32-byte
   encoding of the residue mod L, and on reduced operands the Z_q operation.
   (The limb code itself is not transcribed: correspondence only.) *)
Theorem C02_limb_spec : forall f a b c,
  length (limb_spec f a b c) = 32%nat /\
  0 <= le_decode (limb_spec f a b c) < q_ed25519 /\
  le_decode (limb_spec f a b c) =
    (match f with
     | LMulAdd => le_decode a * le_decode b + le_decode c
     | LAdd => le_decode a + le_decode c
     | LSub => le_decode a - le_decode c
     | LMul => le_decode a * le_decode b
     | LReduce => le_decode a
     end) mod q_ed25519.
Proof. exact limb_spec_canonical. Qed.
Print Assumptions C02_limb_spec.

Theorem C02_limb_spec_zq : forall a b c : zq q_ed25519,
  limb_spec LMulAdd (marshal IEd LE a) (marshal IEd LE b) (marshal IEd LE c) = marshal IEd LE (zadd (zmul a b) c) /\
  limb_spec LAdd (marshal IEd LE a) [] (marshal IEd LE c) = marshal IEd LE (zadd a c) /\
  limb_spec LSub (marshal IEd LE a) [] (marshal IEd LE c) = marshal IEd LE (zsub a c) /\
  limb_spec LMul (marshal IEd LE a) (marshal IEd LE b) [] = marshal IEd LE (zmul a b).
Proof. exact limb_spec_zq. Qed.
Print Assumptions C02_limb_spec_zq.

(* non-vacuity: q = 251 is prime; the coded operations on concrete operands *)
Example C02_nonvacuous :
  prime 251 /\
  (let a := of_Z 251 200 in let b := of_Z 251 100 in
   val (op_impl IEd OAdd a b) = 49 /\ val (op_impl IEd ONeg a b) = 51 /\
   val (op_impl IEd OInv a b) = val (op_impl IMod OInv a b) /\
   val (zmul a (op_impl ICircl OInv a b)) = 1 /\
   val (op_impl IGnark ODiv a b) = 2) /\
  val (set_bytes 251 LE [1; 1]) = 6 /\ val (set_bytes 251 BE [1; 0; 0]) = 25 /\
  val (of_int64_impl 251 ICircl (-1)) = 250 /\
  (exists r, pick_impl 251 IMod 5 [255; 251; 7; 9] = Some (r, [9]) /\ val r = 7).
Proof.
  split; [exact prime_251|]. split; [vm_compute; repeat split|].
  split; [reflexivity|]. split; [reflexivity|]. split; [reflexivity|].
  eexists. split; vm_compute; reflexivity.
Qed.

(* ---- the Ed25519 limb code itself. Generated/ScalarLimbs.v is REGENERATED from
   /repo/group/edwards25519/scalar.go by the translator (/verif/translator,
   bin/gen-limbs) on every run; the theorems below are about that generated
   code: no int64 operation can wrap for any byte inputs, the limbs of the
   result are congruent to a*b+c modulo L, lie in [0,L), and each limb is in
   range. The byte unpacking/packing identities that turn this into a
   statement about the 32 output BYTES are proved further below
   (C02_scMulAdd_bytes etc., Limb/LimbBits.v, Limb/LimbBytes.v). *)
From Coq Require Import String.
From Kyber Require Import Generated.ScalarLimbs Limb.LimbSem Limb.LimbBounds Limb.LimbPoly Limb.LimbGen Limb.LimbValue Limb.LimbGenValue.

Theorem C02_scMulAdd_no_overflow : forall a b c,
  bytes a -> bytes b -> bytes c -> scMulAdd a b c = scMulAdd_nowrap a b c.
Proof. exact scMulAdd_no_overflow. Qed.
Print Assumptions C02_scMulAdd_no_overflow.

Theorem C02_scReduce_no_overflow : forall s, bytes s -> scReduce s = scReduce_nowrap s.
Proof. exact scReduce_no_overflow. Qed.
Print Assumptions C02_scReduce_no_overflow.

Theorem C02_scMulAdd_limbs : forall a b c, bytes a -> bytes b -> bytes c ->
  (Lq | wval 1 (final prog_scMulAdd [a; b; c]) (vars names_scMulAdd S12)
        - (wval 1 (final prog_scMulAdd [a; b; c]) (vars names_scMulAdd A12)
           * wval 1 (final prog_scMulAdd [a; b; c]) (vars names_scMulAdd B12)
           + wval 1 (final prog_scMulAdd [a; b; c]) (vars names_scMulAdd C12)))
  /\ 0 <= wval 1 (final prog_scMulAdd [a; b; c]) (vars names_scMulAdd S12) < Lq.
Proof. exact scMulAdd_limbs. Qed.
Print Assumptions C02_scMulAdd_limbs.

Theorem C02_scReduce_limbs : forall s, bytes s ->
  (Lq | wval 1 (final prog_scReduce [s]) (vars names_scReduce S12)
        - wval 1 (exec noi [s] (firstn (load_len (p_code prog_scReduce)) (p_code prog_scReduce))
                       (init prog_scReduce)) (vars names_scReduce S24))
  /\ 0 <= wval 1 (final prog_scReduce [s]) (vars names_scReduce S12) < Lq.
Proof. exact scReduce_limbs. Qed.
Print Assumptions C02_scReduce_limbs.

(* ---- the group orders are prime (Pocklington certificates checked by vm_compute,
   Algebra/Primes*.v), so the field laws hold for the real scalar fields with no premise *)
From Kyber Require Import Algebra.Primes Algebra.PrimesUse.
Theorem C02_group_orders_prime :
  prime ed_L /\ prime p256_n /\ prime bn256_n /\ prime bn254_r /\ prime bls12381_r /\ prime q61.
Proof.
  split; [exact prime_ed_L|]. split; [exact prime_p256_n|]. split; [exact prime_bn256_n|].
  split; [exact prime_bn254_r|]. split; [exact prime_bls12381_r|exact prime_q61].
Qed.
Print Assumptions C02_group_orders_prime.

(* ---- byte level: the generated code, from input BYTES to output BYTES.
   LimbBits.v is a reflective bit-slice analysis (proved sound once) that is run on
   the generated programs: the load3/load4/shift/mask prologue yields exactly the
   radix-2^21 digits of the little-endian input value, and the 32 stored bytes
   byte((s_i >> k) | (s_(i+1) << m)) are exactly the little-endian encoding of the
   final limbs. Together with no-overflow, congruence and canonical range above:
   for ALL byte inputs the Go-semantics function returns the canonical 32-byte
   little-endian encoding of (a*b+c) mod L, etc. *)
From Kyber Require Limb.LimbBits Limb.LimbBytes.

Theorem C02_scMulAdd_bytes : forall a b c, bytes a -> bytes b -> bytes c ->
  List.length a = 32%nat -> List.length b = 32%nat -> List.length c = 32%nat ->
  le_decode (scMulAdd a b c) = (le_decode a * le_decode b + le_decode c) mod Lq /\
  List.length (scMulAdd a b c) = 32%nat /\ bytes (scMulAdd a b c).
Proof. exact LimbBytes.scMulAdd_bytes. Qed.
Print Assumptions C02_scMulAdd_bytes.

Theorem C02_scMul_bytes : forall a b, bytes a -> bytes b ->
  List.length a = 32%nat -> List.length b = 32%nat ->
  le_decode (scMul a b) = (le_decode a * le_decode b) mod Lq /\
  List.length (scMul a b) = 32%nat /\ bytes (scMul a b).
Proof. exact LimbBytes.scMul_bytes. Qed.
Print Assumptions C02_scMul_bytes.

Theorem C02_scAdd_bytes : forall a c, bytes a -> bytes c ->
  List.length a = 32%nat -> List.length c = 32%nat ->
  le_decode (scAdd a c) = (le_decode a + le_decode c) mod Lq /\
  List.length (scAdd a c) = 32%nat /\ bytes (scAdd a c).
Proof. exact LimbBytes.scAdd_bytes. Qed.
Print Assumptions C02_scAdd_bytes.

Theorem C02_scSub_bytes : forall a c, bytes a -> bytes c ->
  List.length a = 32%nat -> List.length c = 32%nat ->
  le_decode (scSub a c) = (le_decode a - le_decode c) mod Lq /\
  List.length (scSub a c) = 32%nat /\ bytes (scSub a c).
Proof. exact LimbBytes.scSub_bytes. Qed.
Print Assumptions C02_scSub_bytes.

Theorem C02_scReduce_bytes : forall s, bytes s -> List.length s = 64%nat ->
  le_decode (scReduce s) = le_decode s mod Lq /\
  List.length (scReduce s) = 32%nat /\ bytes (scReduce s).
Proof. exact LimbBytes.scReduce_bytes. Qed.
Print Assumptions C02_scReduce_bytes.

(* the two ends separately: unpacking (input bytes -> loaded limbs) and packing
   (final limbs -> output bytes) *)
Theorem C02_scMulAdd_unpack : forall a b c, bytes a -> bytes b -> bytes c ->
  List.length a = 32%nat -> List.length b = 32%nat -> List.length c = 32%nat ->
  wval 1 (final prog_scMulAdd [a; b; c]) (vars names_scMulAdd A12) = le_decode a /\
  wval 1 (final prog_scMulAdd [a; b; c]) (vars names_scMulAdd B12) = le_decode b /\
  wval 1 (final prog_scMulAdd [a; b; c]) (vars names_scMulAdd C12) = le_decode c.
Proof. exact LimbBytes.scMulAdd_unpack. Qed.
Print Assumptions C02_scMulAdd_unpack.

Theorem C02_scReduce_unpack : forall s, bytes s -> List.length s = 64%nat ->
  wval 1 (exec noi [s] (firstn (load_len (p_code prog_scReduce)) (p_code prog_scReduce))
               (init prog_scReduce)) (vars names_scReduce S24) = le_decode s.
Proof. exact LimbBytes.scReduce_unpack. Qed.
Print Assumptions C02_scReduce_unpack.

Theorem C02_scMulAdd_pack : forall a b c, bytes a -> bytes b -> bytes c ->
  le_decode (scMulAdd a b c) = wval 1 (final prog_scMulAdd [a; b; c]) (vars names_scMulAdd S12) /\
  List.length (scMulAdd a b c) = 32%nat /\ bytes (scMulAdd a b c).
Proof. exact LimbBytes.scMulAdd_pack. Qed.
Print Assumptions C02_scMulAdd_pack.

(* L of the limb theorems is the Ed25519 group order of the scalar model, and the
   byte theorems are not vacuous: a concrete instance, computed *)
Example C02_bytes_nonvacuous :
  Lq = q_ed25519 /\
  let a := map Z.of_nat (seq 1 32) in let b := repeat 255 32 in let c := map Z.of_nat (seq 200 32) in
  bytes a /\ bytes b /\ bytes c /\ List.length a = 32%nat /\ List.length b = 32%nat /\ List.length c = 32%nat /\
  le_decode (scMulAdd a b c) = (le_decode a * le_decode b + le_decode c) mod q_ed25519 /\
  le_decode (scSub a b) = (le_decode a - le_decode b) mod q_ed25519 /\
  le_decode (scReduce (a ++ b)) = le_decode (a ++ b) mod q_ed25519.
Proof.
  split; [reflexivity|]. cbv zeta.
  split; [apply LimbBytes.bytes_of_check; reflexivity|].
  split; [apply LimbBytes.bytes_of_check; reflexivity|].
  split; [apply LimbBytes.bytes_of_check; reflexivity|].
  vm_compute. repeat split; reflexivity.
Qed.
