(* Property C18 - independent implementations and build variants of a group
   agree bit for bit. The theorems state that the different multiplication
   ALGORITHMS used by the implementations compute the same multiple for every
   scalar; that the implementations follow these algorithms, and that their
   field arithmetic is right, is decided byte-for-byte against the reference
   curves of theories/CurveRef on every run. *)
From Coq Require Import ZArith List.
From Kyber Require Import Algebra.Zq Algebra.Grp Group.Recode.
Import ListNotations.
Local Open Scope Z_scope.

(* constant-time window (geScalarMult), precomputed comb (geScalarMultBase) and
   MSB-first double-and-add (edwards25519vartime, bn256, bn254, the reference
   curves) agree on every scalar, over any modulus *)
Theorem C18_multipliers_agree : forall q bytes bits pairs (P : zq q),
    Forall is_byte bytes -> bytes <> [] -> last bytes 0 <= 127 ->
    be_bits 0 bits = le_val 256 bytes -> pairs_val pairs = le_val 256 bytes ->
    window q (rev (recode16 bytes)) P pzero = dbl_add q bits P pzero /\
    comb q pairs P = dbl_add q bits P pzero.
Proof. exact multipliers_agree. Qed.
Print Assumptions C18_multipliers_agree.

Theorem C18_double_and_add_leading_zero : forall q bits (P : zq q),
    dbl_add q (false :: bits) P pzero = dbl_add q bits P pzero.
Proof. exact double_and_add_leading_zero. Qed.
Print Assumptions C18_double_and_add_leading_zero.

Example C18_nonvacuous :
  let bytes := [200; 3] in
  val (window 251 (rev (recode16 bytes)) (of_Z 251 9) pzero)
  = val (dbl_add 251 [true; true; true; true; false; false; true; false; false; false] (of_Z 251 9) pzero)
  /\ be_bits 0 [true; true; true; true; false; false; true; false; false; false] = le_val 256 bytes.
Proof. vm_compute. split; reflexivity. Qed.

(* all four Ed25519 multiplication algorithms (constant-time window, base-table
   comb, variable-time sliding window, double-and-add) agree on every scalar *)
From Kyber Require Import Group.Slide.
Theorem C18_all_multipliers_agree : forall q bytes bits pairs (A : zq q),
    Forall is_byte bytes -> bytes <> [] -> last bytes 0 <= 127 ->
    be_bits 0 bits = le_val 256 bytes -> pairs_val pairs = le_val 256 bytes ->
    ge_scalar_mult_vartime q bytes A = window q (rev (recode16 bytes)) A pzero /\
    ge_scalar_mult_vartime q bytes A = dbl_add q bits A pzero /\
    ge_scalar_mult_vartime q bytes A = comb q pairs A.
Proof. exact all_multipliers_agree. Qed.
Print Assumptions C18_all_multipliers_agree.

(* the reference curve the implementations are compared with: complete addition
   law (no exceptional cases), ladder = k-fold sum, injective encoding, decoder
   inverse to the encoder on every curve point - all without premises *)
From Kyber Require Import CurveRef.Field CurveRef.Edwards Decode.DecodeSM Decode.DecodeInst CurveRef.EdComplete CurveRef.EdDecode.
Theorem C18_reference_curve_complete : forall x1 y1 x2 y2 : EdF,
    Ed_curve x1 y1 -> Ed_curve x2 y2 ->
    zadd zone (zmul (zmul (zmul (zmul (c_d KEd) x1) x2) y1) y2) <> zzero /\
    zsub zone (zmul (zmul (zmul (zmul (c_d KEd) x1) x2) y1) y2) <> zzero.
Proof. exact Ed25519_complete. Qed.
Print Assumptions C18_reference_curve_complete.

Theorem C18_reference_encoding_injective : forall P Q a b,
  ed_valid P a -> ed_valid Q b -> (ed_encode OEd P = ed_encode OEd Q <-> a = b).
Proof. exact Ed25519_encode_inj. Qed.
Print Assumptions C18_reference_encoding_injective.

Theorem C18_reference_point_roundtrip : forall P (x y : EdF),
  Ed_curve x y -> Ed_repr P x y ->
  ed_decode OEd KEd (ed_encode OEd P) = Some (mkept x y zone (zmul x y)).
Proof. exact Ed25519_point_roundtrip. Qed.
Print Assumptions C18_reference_point_roundtrip.
