(* Property C18 - independent implementations and build variants of a group
   agree bit for bit. The theorems state that the different multiplication
   ALGORITHMS used by the implementations compute the same multiple for every
   scalar; that the implementations follow these algorithms, and that their
   field arithmetic is right, is decided byte-for-byte against the reference
   curves of theories/CurveRef on every run. *)
From Coq Require Import ZArith List.
From Kyber Require Import Algebra.Zq Algebra.Grp Group.Recode.
Import ListNotations.
Local Open Scope Z_scope.

(* constant-time window (geScalarMult), precomputed comb (geScalarMultBase) and
   MSB-first double-and-add (edwards25519vartime, bn256, bn254, the reference
   curves) agree on every scalar, over any modulus *)
Theorem C18_multipliers_agree : forall q bytes bits pairs (P : zq q),
    Forall is_byte bytes -> bytes <> [] -> last bytes 0 <= 127 ->
    be_bits 0 bits = le_val 256 bytes -> pairs_val pairs = le_val 256 bytes ->
    window q (rev (recode16 bytes)) P pzero = dbl_add q bits P pzero /\
    comb q pairs P = dbl_add q bits P pzero.
Proof. exact multipliers_agree. Qed.
Print Assumptions C18_multipliers_agree.

Theorem C18_double_and_add_leading_zero : forall q bits (P : zq q),
    dbl_add q (false :: bits) P pzero = dbl_add q bits P pzero.
Proof. exact double_and_add_leading_zero. Qed.
Print Assumptions C18_double_and_add_leading_zero.

Example C18_nonvacuous :
  let bytes := [200; 3] in
  val (window 251 (rev (recode16 bytes)) (of_Z 251 9) pzero)
  = val (dbl_add 251 [true; true; true; true; false; false; true; false; false; false] (of_Z 251 9) pzero)
  /\ be_bits 0 [true; true; true; true; false; false; true; false; false; false] = le_val 256 bytes.
Proof. vm_compute. split; reflexivity. Qed.
