(* Property C05 - operations have value semantics: receiver set, operands
   intact, aliasing safe.  Only statements, each closed by [exact]; proofs are in
   theories/Heap/{AliasProofs,TranscrProofs,Share,Refute}.v.  [interp] is an arbitrary
   interpretation of the arithmetic: the theorems hold for every group. *)
From Coq Require Import ZArith List Bool Arith.
From Kyber Require Import Heap.Store Heap.AliasSem Heap.AliasProofs Heap.Transcr Heap.TranscrProofs Heap.Share Heap.Refute.
Import ListNotations.

(* soundness of the syntactic criterion: a micro-program that writes only the
   receiver and never reads field f of a possibly-aliased operand after the
   receiver's f was written computes, under EVERY aliasing map e, the same
   receiver as on fresh copies, changes no other cell, same temporaries *)
Theorem C05_check_alias_safe :
  forall (val opn : Type) (interp : opn -> list val -> val) D p (e : env) (s : store val) ts,
    (forall v, In v D -> e v <> e recv) ->
    check D [] p = true ->
    let r1 := exec val opn interp e p (s, ts) in
    let r2 := exec val opn interp id_env p (copies val e s, ts) in
    (forall f, fst r1 (e recv) f = fst r2 recv f) /\
    (forall c f, c <> e recv -> fst r1 c f = s c f) /\
    (forall v f, v <> recv -> fst r2 v f = s (e v) f) /\
    (forall t, snd r1 t = snd r2 t).
Proof. exact check_alias_safe. Qed.
Print Assumptions C05_check_alias_safe.

(* every mutating method (Add Sub Neg Mul Null Base Set Clone Pick Embed and the
   scalar operations) of every implementation, on every path of the Jacobian
   addition, for all stores and ALL aliasing patterns of receiver and operands:
   same receiver as on fresh unaliased copies, receiver = returned value,
   nothing but the receiver changes *)
Theorem C05_all_methods_value_semantics :
  forall (val : Type) (interp : opn -> list val -> val) (dflt : val) (i : impl) (v : variant) (m : meth),
    value_semantics val opn interp dflt (transcr i (vid v) (mid m)).
Proof. exact all_methods_value_semantics. Qed.
Print Assumptions C05_all_methods_value_semantics.

(* programs: any sequence of calls over a pool of variables, each call with its
   own aliasing pattern, leaves every variable with the value the
   copy-compute-assign (value semantics) execution gives *)
Theorem C05_program_alias_independent :
  forall (val opn : Type) (interp : opn -> list val -> val) (dflt : val) (p : list (call opn)) s s',
    Forall (fun c => method_ok val opn interp (fst c) /\ env_ok (fst c) (snd c)) p ->
    (forall x f, s x f = s' x f) ->
    forall x f, prog_aliased val opn interp dflt p s x f = prog_value val opn interp dflt p s' x f.
Proof. exact program_alias_independent. Qed.
Print Assumptions C05_program_alias_independent.

(* Clone / Set: a copy that copies every field deeply is separated from its
   source, stays separated under every later in-place write, pointer rebinding
   or deep copy applied to either object, and no such operation on one of them
   changes any field of the other *)
Theorem C05_clone_independent :
  forall (val : Type) (h : heap val) (src dst : obj) (fs : list field) (ops : list (hop val)),
    wf h -> src <> dst ->
    (forall f g, ~ In f fs -> bind h dst f <> bind h src g) ->   (* fields not copied were not shared before *)
    Forall (fun o => hop_target o = src \/ hop_target o = dst) ops -> Forall (@hop_deep val) ops ->
    let h1 := deep_copy dst src fs h in
    let h2 := run_hops ops h1 in
    separated h2 src dst /\
    (Forall (fun o => hop_target o = src) ops -> forall f, In f fs -> look h2 dst f = look h src f) /\
    (Forall (fun o => hop_target o = dst) ops -> forall f, look h2 src f = look h src f).
Proof. exact clone_independent_gen. Qed.
Print Assumptions C05_clone_independent.

(* values taken from the group itself (Base, Null, Mul by the base): when the receiver gets a deep
   copy of the group constant, no later in-place write or rebinding of the receiver changes the
   constant (so every earlier and later Base() stays what it was) *)
Theorem C05_group_constant_intact :
  forall (val : Type) (h : heap val) (cst p : obj) (fs : list field) (ops : list (hop val)),
    wf h -> cst <> p ->
    (forall f g, ~ In f fs -> bind h p f <> bind h cst g) ->
    Forall (fun o => hop_target o = p) ops -> Forall (@hop_deep val) ops ->
    forall f, look (run_hops ops (deep_copy p cst fs h)) cst f = look h cst f.
Proof. exact constant_intact. Qed.
Print Assumptions C05_group_constant_intact.

(* ... and it fails for a struct / pointer copy of the constant; a multiplication that clears its
   output before reading the point operand is not alias safe *)
Theorem C05_constant_sharing_refuted :
  (exists (h : heap Z) x, wf h /\ look (run_hops [HWrite 1%nat 0%nat x] (shallow_copy 1%nat 0%nat [0%nat] h)) 0%nat 0%nat
                                   <> look h 0%nat 0%nat) /\
  (exists e s, env_ok mul_output_cleared_first e /\
               fst (run_aliased Z opn (dl_interp 101 0) junk mul_output_cleared_first e s) (e recv) 0%nat
               <> fst (run_fresh Z opn (dl_interp 101 0) junk mul_output_cleared_first e s) recv 0%nat).
Proof. exact constant_sharing_refuted. Qed.
Print Assumptions C05_constant_sharing_refuted.

(* the transcriptions of the code as it was before the repairs are refuted *)
Theorem C05_unrepaired_refuted :
  (* gnark G1/G2 Add with receiver = second operand computes 2a *)
  (exists e s, fst (run_aliased Z opn (dl_interp 101 0) junk (gnark_add_unrepaired GAdd) e s) (e recv) 0%nat
               <> fst (run_fresh Z opn (dl_interp 101 0) junk (gnark_add_unrepaired GAdd) e s) recv 0%nat) /\
  (* kilic Null / Base, GT Sub: the receiver is not the returned value *)
  (exists e s, ret_val Z opn junk (kilic_const_unrepaired 0) e (run_aliased Z opn (dl_interp 101 0) junk (kilic_const_unrepaired 0) e s) 0%nat
               <> fst (run_aliased Z opn (dl_interp 101 0) junk (kilic_const_unrepaired 0) e s) (e recv) 0%nat) /\
  (exists e s, ret_val Z opn junk kilic_gtsub_unrepaired e (run_aliased Z opn (dl_interp 101 0) junk kilic_gtsub_unrepaired e s) 0%nat
               <> fst (run_aliased Z opn (dl_interp 101 0) junk kilic_gtsub_unrepaired e s) (e recv) 0%nat) /\
  (* vartime Mul without its  G == P  test *)
  (exists e s, fst (run_aliased Z opn (dl_interp 101 0) junk vt_mul_notest e s) (e recv) 0%nat
               <> fst (run_fresh Z opn (dl_interp 101 0) junk vt_mul_notest e s) recv 0%nat) /\
  (* residue Set / Clone as a struct copy of big.Int: the copy shares the limb array and an in-place
     write to the source changes the copy *)
  (exists (h : heap Z) x, wf h /\ look (run_hops [HWrite 0%nat 0%nat x] (shallow_copy 1%nat 0%nat [0%nat] h)) 1%nat 0%nat
                                   <> look h 0%nat 0%nat).
Proof. exact unrepaired_refuted. Qed.
Print Assumptions C05_unrepaired_refuted.

(* non-vacuity: a concrete aliased call of a field-level transcription (bn256
   curvePoint.Add with receiver = first operand, generic path) really computes a+b
   in every coordinate, and the checker accepts it *)
Example C05_nonvacuous :
  let m := transcr BnCurve 0 M_ADD in
  let e : env := fun v => match v with 2%nat => 1%nat | _ => 0%nat end in
  let s : store Z := fun c _ => if Nat.eqb c 0 then 5%Z else 7%Z in
  check (m_distinct m) [] (m_body m) = true /\
  map (fst (run_aliased Z opn (dl_interp 101 0) junk m e s) 0%nat) [0;1;2]%nat = [12; 12; 12]%Z /\
  map (fst (run_aliased Z opn (dl_interp 101 0) junk m e s) 1%nat) [0;1;2]%nat = [7; 7; 7]%Z.
Proof. vm_compute. repeat split. Qed.
