(* Property C20 - shared read-only use of values is free of data races.  Only
   statements; proofs in theories/Heap/{Interleave,Footprint}.v.  What is proved:
   the interleaving theorem over the memory model, and the footprints of the
   transcribed methods.  What ties the footprints to the Go code is the
   byte-level snapshot comparison of the correspondence run (see checks/C20.json). *)
From Coq Require Import ZArith List Bool Arith.
From Kyber Require Import Heap.Store Heap.AliasSem Heap.Transcr Heap.TranscrProofs Heap.Interleave Heap.Footprint.
Import ListNotations.

(* threads whose write sets are disjoint from every other thread's read and write
   sets: EVERY interleaving is free of conflicting accesses and ends in the same
   store and the same per-thread results as sequential execution *)
Theorem C20_disjoint_writes_race_free :
  forall (val opn : Type) (interp : opn -> list val -> val) (P0 : pool val opn) (s0 : store val) (n : nat),
    noninterfering val opn P0 -> (forall i, (n <= i)%nat -> t_code val opn (P0 i) = []) ->
    forall s P, steps val opn interp (s0, P0) (s, P) ->
      ~ race_now val opn P /\
      (finished val opn P ->
         (forall c f, s c f = seq_run val opn interp P0 n s0 c f) /\
         (forall i t, t_tmp val opn (P i) t = snd (solo val opn interp P0 (seq_run val opn interp P0 i s0) i) t)).
Proof. exact disjoint_writes_race_free. Qed.
Print Assumptions C20_disjoint_writes_race_free.

(* ownership form: every thread writes only cells it owns and reads only shared
   cells or its own: race free, sequentially consistent, shared cells unchanged *)
Theorem C20_shared_readonly_race_free :
  forall (val opn : Type) (interp : opn -> list val -> val)
         (P0 : pool val opn) (s0 : store val) (n : nat) (owner : cell -> option nat),
    (forall i l, In l (t_writes val opn P0 i) -> owner (fst l) = Some i) ->
    (forall i l, In l (t_reads val opn P0 i) -> owner (fst l) = None \/ owner (fst l) = Some i) ->
    (forall i, (n <= i)%nat -> t_code val opn (P0 i) = []) ->
    forall s P, steps val opn interp (s0, P0) (s, P) ->
      ~ race_now val opn P /\
      (finished val opn P ->
         (forall c f, s c f = seq_run val opn interp P0 n s0 c f) /\
         (forall i t, t_tmp val opn (P i) t = snd (solo val opn interp P0 (seq_run val opn interp P0 i s0) i) t) /\
         (forall c f, owner c = None -> s c f = s0 c f)).
Proof. exact shared_readonly_race_free. Qed.
Print Assumptions C20_shared_readonly_race_free.

(* encoding, printing, comparing, cloning, extracting data, pairing: the
   transcription of every implementation writes nothing *)
Theorem C20_readonly_footprint :
  forall (i : impl) (r : rmeth) (e : env), prog_writes opn e (ro_prog i r) = [].
Proof. exact readonly_footprint. Qed.
Print Assumptions C20_readonly_footprint.

(* using a value as an operand of any mutating method of any implementation
   writes the receiver only *)
Theorem C20_mutator_writes_only_receiver :
  forall (i : impl) (v : variant) (m : meth) (e : env) l,
    In l (prog_writes opn e (method_code (transcr i (vid v) (mid m)) e)) -> fst l = e recv.
Proof. exact mutator_writes_only_receiver. Qed.
Print Assumptions C20_mutator_writes_only_receiver.

(* the code as it was before the repairs wrote the shared object *)
Theorem C20_unrepaired_write_shared :
  In 0%nat (written_vars (vt_marshal_unrepaired 3)) /\
  In 0%nat (written_vars kilic_pair_unrepaired) /\ In 1%nat (written_vars kilic_pair_unrepaired).
Proof. exact unrepaired_write_shared. Qed.
Print Assumptions C20_unrepaired_write_shared.

(* non-vacuity: two threads encoding the same shared vartime point (cell 0)
   while a third adds it to itself into its own cell 5 satisfy the ownership
   premises *)
Example C20_nonvacuous :
  let rd := ro_prog VtProj RMarshal in
  let ad := method_code (transcr VtProj 0 M_ADD) (fun v => match v with 0%nat => 5%nat | _ => 0%nat end) in
  let owner := fun c : cell => if Nat.eqb c 5 then Some 2%nat else None in
  forallb (fun l => match owner (fst l) with None => true | Some _ => false end)
          (prog_reads opn id_env rd) = true /\
  prog_writes opn id_env rd = [] /\
  forallb (fun l => Nat.eqb (fst l) 5) (prog_writes opn (fun v => match v with 0%nat => 5%nat | _ => 0%nat end) ad) = true /\
  length ad = 14%nat.
Proof. vm_compute. repeat split. Qed.
