(* Property C04 - decoding untrusted bytes never panics and admits only valid
   group elements.  Only statements, each closed by [exact]; the proofs are in
   theories/Decode/DecodeProofs.v and DecodeInst.v.  The models are the
   transcriptions of kyber's decoders in theories/Decode/DecodeSM.v, where every
   index/slice expression of the Go source is a guarded access whose failure is
   the outcome [Panic]. *)
From Coq Require Import ZArith List Bool Ring.
From Kyber Require Import Algebra.Zq CurveRef.Field CurveRef.Edwards CurveRef.Weierstrass
  Decode.DecodeSM Decode.DecodeProofs Decode.DecodeInst.
Import ListNotations.
Local Open Scope Z_scope.

(* --- totality: for every byte string of every length, every field-operation
   record and every constant set, no decoder reaches an out-of-range index *)
Theorem C04_ed25519_decode_total :
  forall F (O : fops F) (K : @edc F) s, ed25519_decode O K s <> Panic.
Proof. exact (@ed25519_decode_total). Qed.
Print Assumptions C04_ed25519_decode_total.

Theorem C04_edv_decode_total :
  forall F (O : fops F) (K : @edc F) s, edv_decode O K s <> Panic.
Proof. exact (@edv_decode_total). Qed.
Print Assumptions C04_edv_decode_total.

(* the decoder as it was before the repair (no length check) indexes b[0] of the empty string *)
Theorem C04_unguarded_index_panics :
  forall F (O : fops F) (K : @edc F), edv_decode_unguarded O K [] = Panic.
Proof. exact (@edv_decode_unguarded_panics). Qed.
Print Assumptions C04_unguarded_index_panics.

Theorem C04_p256_decode_total :
  forall F (O : fops F) W fa s, p256_decode O W fa s <> Panic.
Proof. exact (@p256_decode_total). Qed.
Print Assumptions C04_p256_decode_total.

Theorem C04_bn256_decode_total :
  forall F (O : fops F) W fa s, bn256_decode O W fa s <> Panic.
Proof. exact (@bn256_decode_total). Qed.
Print Assumptions C04_bn256_decode_total.

Theorem C04_bn254_decode_total :
  forall F (O : fops F) W fa s, bn254_decode O W fa s <> Panic.
Proof. exact (@bn254_decode_total). Qed.
Print Assumptions C04_bn254_decode_total.

Theorem C04_scalar_decode_total :
  forall q n le s, modint_decode q n le s <> Panic /\ edscalar_decode s <> Panic.
Proof. exact scalar_decode_total. Qed.
Print Assumptions C04_scalar_decode_total.

Theorem C04_wrong_length_rejected :
  forall F (O : fops F) (K : @edc F) W fa s,
    (length s <> 32%nat -> ed25519_decode O K s = Err /\ edv_decode O K s = Err /\ edscalar_decode s = Err) /\
    (length s <> 65%nat -> p256_decode O W fa s = Err) /\
    ((length s < 64)%nat -> bn256_decode O W fa s = Err /\ bn254_decode O W fa s = Err) /\
    (forall q n le, length s <> n -> modint_decode q n le s = Err).
Proof. exact (@wrong_length_rejected). Qed.
Print Assumptions C04_wrong_length_rejected.

(* --- accepted => member *)

(* over ANY commutative ring with a sound equality test and a constant i with
   i^2 = -1: whatever FromBytes accepts satisfies the curve equation *)
Theorem C04_ed25519_member_any_ring :
  forall F (O : fops F),
    ring_theory (f0 O) (f1 O) (fadd O) (fmul O) (fsub O) (fneg O) eq ->
    (forall a b, feqb O a b = true -> a = b) ->
    forall K : @edc F, fmul O (c_sqrtm1 K) (c_sqrtm1 K) = fneg O (f1 O) ->
    forall s P, ed25519_decode O K s = Ok P -> ed_on_curve O (fneg O (f1 O)) (c_d K) P.
Proof. exact (@ed25519_decode_member). Qed.
Print Assumptions C04_ed25519_member_any_ring.

(* over Z/(2^255-19) with the Ed25519 constants (i^2 = -1 checked by computation) *)
Theorem C04_ed25519_member :
  forall s P, ed25519_decode OEd KEd s = Ok P -> ed_on_curve OEd (fneg OEd (f1 OEd)) (c_d KEd) P.
Proof. exact ed25519_accepts_only_curve_points. Qed.
Print Assumptions C04_ed25519_member.

(* the vartime package's decoder; premises: field inverse law (Fermat for the
   prime 2^255-19) and a - d y^2 <> 0 (d non-square) *)
Theorem C04_edv_member :
  forall s P,
    (forall a, a <> f0 OEd -> fmul OEd a (finv OEd a) = f1 OEd) ->
    (forall y, fsub OEd (ed_a OEd) (fmul OEd (c_d KEd) (fmul OEd y y)) <> f0 OEd) ->
    edv_decode OEd KEd s = Ok P -> ed_on_curve OEd (ed_a OEd) (c_d KEd) P.
Proof. exact edv_accepts_only_curve_points. Qed.
Print Assumptions C04_edv_member.

Theorem C04_p256_member :
  forall s P, Forall is_byte s -> p256_decode (OW p256) p256 (faW p256) s = Ok P -> w_member p256 P.
Proof. exact p256_accepts_only_curve_points. Qed.
Print Assumptions C04_p256_member.

Theorem C04_bn256_member :
  forall s P, bn256_decode (OW bn256) bn256 (faW bn256) s = Ok P -> w_member bn256 P.
Proof. exact bn256_accepts_only_curve_points. Qed.
Print Assumptions C04_bn256_member.

Theorem C04_bn254_member :
  forall s P, Forall is_byte s -> bn254_decode (OW bn254) bn254 (faW bn254) s = Ok P -> w_member bn254 P.
Proof. exact bn254_accepts_only_curve_points. Qed.
Print Assumptions C04_bn254_member.

(* --- decode (encode P) = P *)
Theorem C04_weierstrass_roundtrip :
  forall P,
    (wvalid (OW p256) p256 (faW p256) P -> p256_decode (OW p256) p256 (faW p256) (p256_encode_w P) = Ok P) /\
    (wvalid (OW bn256) bn256 (faW bn256) P -> bn256_decode (OW bn256) bn256 (faW bn256) (bn_encode_w P) = Ok P) /\
    (wvalid (OW bn254) bn254 (faW bn254) P -> bn254_decode (OW bn254) bn254 (faW bn254) (bn_encode_w P) = Ok P).
Proof. exact w_roundtrip. Qed.
Print Assumptions C04_weierstrass_roundtrip.

Theorem C04_weierstrass_decode_reencode :
  forall s P, Forall is_byte s ->
    (p256_decode (OW p256) p256 (faW p256) s = Ok P ->
       p256_decode (OW p256) p256 (faW p256) (p256_encode_w P) = Ok P) /\
    (bn256_decode (OW bn256) bn256 (faW bn256) s = Ok P ->
       bn256_decode (OW bn256) bn256 (faW bn256) (bn_encode_w P) = Ok P) /\
    (bn254_decode (OW bn254) bn254 (faW bn254) s = Ok P ->
       bn254_decode (OW bn254) bn254 (faW bn254) (bn_encode_w P) = Ok P).
Proof. exact w_decode_reencode. Qed.
Print Assumptions C04_weierstrass_decode_reencode.

(* Ed25519: decode (encode (x, y)) returns (x, y) whenever it returns anything
   (over any integral domain with canonical odd-modulus representatives) ... *)
Theorem C04_ed25519_roundtrip_partial :
  forall F (O : fops F),
    ring_theory (f0 O) (f1 O) (fadd O) (fmul O) (fsub O) (fneg O) eq ->
    (forall a b, feqb O a b = true -> a = b) ->
    (forall a, feqb O a a = true) ->
    (forall a b, fmul O a b = f0 O -> a = f0 O \/ b = f0 O) ->
    (forall a, 0 <= ftoZ O a < ed_p) ->
    (forall a, fofZ O (ftoZ O a) = a) ->
    (forall a, a <> f0 O -> ftoZ O (fneg O a) mod 2 <> ftoZ O a mod 2) ->
    forall K : @edc F, fmul O (c_sqrtm1 K) (c_sqrtm1 K) = fneg O (f1 O) ->
    forall x y P,
      fmul O (fmul O x x) (fadd O (fmul O (fmul O y y) (c_d K)) (f1 O)) = fsub O (fmul O y y) (f1 O) ->
      fadd O (fmul O (fmul O y y) (c_d K)) (f1 O) <> f0 O ->
      ed25519_decode O K (ed_encode_xy O x y) = Ok P -> P = ed_of_xy O x y.
Proof. exact (@ed25519_roundtrip_partial). Qed.
Print Assumptions C04_ed25519_roundtrip_partial.

(* ... in particular over Z/(2^255-19), given that 2^255-19 is prime (no zero
   divisors); and decode (encode P) = P as soon as the decoder does not refuse
   (the square-root premise: the candidate root is a root whenever one exists).
   The FULL statement - forall curve points (x,y),
   ed25519_decode (ed_encode_xy x y) = Ok (x,y) - is proved at the end of this
   file (C04_ed25519_roundtrip), with primality of 2^255-19 and the correctness
   of the exponentiation-based root extraction proved in CurveRef/EdDecode.v. *)
Theorem C04_ed25519_roundtrip_Zp_partial :
  Znumtheory.prime ed_p ->
  forall x y : zq ed_p,
    fmul OEd (fmul OEd x x) (fadd OEd (fmul OEd (fmul OEd y y) (c_d KEd)) (f1 OEd)) = fsub OEd (fmul OEd y y) (f1 OEd) ->
    fadd OEd (fmul OEd (fmul OEd y y) (c_d KEd)) (f1 OEd) <> f0 OEd ->
    (forall P, ed25519_decode OEd KEd (ed_encode_xy OEd x y) = Ok P -> P = ed_of_xy OEd x y) /\
    (ed25519_decode OEd KEd (ed_encode_xy OEd x y) <> Err ->
     ed25519_decode OEd KEd (ed_encode_xy OEd x y) = Ok (ed_of_xy OEd x y)).
Proof. exact ed25519_roundtrip_Zp. Qed.
Print Assumptions C04_ed25519_roundtrip_Zp_partial.

(* --- every parameterisation the API allows, not only the default instances *)

(* residue groups (SetParams / QuadraticResidueGroup, any cofactor): accepted iff
   0 < v < P and v^Q = 1 in the ring -- membership in the subgroup of order Q *)
Theorem C04_residue_decode_iff :
  forall F (O : fops F),
    (forall a b, feqb O a b = true -> a = b) -> (forall a, feqb O a a = true) ->
    forall P Q s v,
      residue_decode O P Q s = Ok v <->
      v = be_decode s /\ 0 < v < P /\ fpow O (fofZ O v) Q = f1 O.
Proof. exact (@residue_decode_iff). Qed.
Print Assumptions C04_residue_decode_iff.

Theorem C04_residue_total_roundtrip :
  forall F (O : fops F),
    (forall a b, feqb O a b = true -> a = b) -> (forall a, feqb O a a = true) ->
    forall P Q,
      (forall s, residue_decode O P Q s <> Panic) /\
      (forall n v, 0 < v < P -> P <= 256 ^ Z.of_nat n -> fpow O (fofZ O v) Q = f1 O ->
         residue_decode O P Q (residue_encode n v) = Ok v).
Proof.
  intros F O H1 H2 P Q. split;
    [exact (@residue_decode_total F O P Q) | exact (@residue_roundtrip F O H1 H2 P Q)].
Qed.
Print Assumptions C04_residue_total_roundtrip.

(* generic Edwards decoder of edwards25519vartime for any (p, a, d) and encoding
   length n >= 1: total, exact length, accepted => on the curve *)
Theorem C04_edg_total :
  forall F (O : fops F) p a d sqrtm1 n s,
    ((0 < n)%nat -> edg_decode O p a d sqrtm1 n s <> Panic) /\
    (length s <> n -> edg_decode O p a d sqrtm1 n s = Err).
Proof.
  intros. split; [exact (@edg_decode_total F O p a d sqrtm1 n s) | exact (@edg_wrong_length_rejected F O p a d sqrtm1 n s)].
Qed.
Print Assumptions C04_edg_total.

Theorem C04_edg_member :
  forall F (O : fops F),
    ring_theory (f0 O) (f1 O) (fadd O) (fmul O) (fsub O) (fneg O) eq ->
    (forall a b, feqb O a b = true -> a = b) ->
    forall p a d sqrtm1 n,
      (p mod 4 <> 3 -> fmul O sqrtm1 sqrtm1 = fneg O (f1 O)) ->
      forall s x y,
        (forall t, t <> f0 O -> fmul O t (ginv O p t) = f1 O) ->
        (forall y, fsub O a (fmul O d (fmul O y y)) <> f0 O) ->
        edg_decode O p a d sqrtm1 n s = Ok (x, y) ->
        fadd O (fmul O a (fmul O x x)) (fmul O y y) =
        fadd O (f1 O) (fmul O (fmul O d (fmul O x x)) (fmul O y y)).
Proof. exact (@edg_decode_member). Qed.
Print Assumptions C04_edg_member.

Example C04_nonvacuous_params :
  residue_decode (zq_ops 31) 31 5 [4] = Ok 4 /\
  residue_decode (zq_ops 31) 31 5 (residue_encode 1 4) = Ok 4 /\
  residue_decode (zq_ops 31) 31 5 [9] = Err /\
  Z.pow 9 15 mod 31 = 1 /\
  residue_decode (zq_ops 31) 31 5 [0] = Err /\ residue_decode (zq_ops 31) 31 5 [31] = Err /\
  residue_decode (zq_ops 31) 31 5 [0; 0; 4] = Ok 4.
Proof. exact residue_cofactor6. Qed.

(* --- scalars *)
Theorem C04_modint_range :
  forall q n le s v, Forall is_byte s -> modint_decode q n le s = Ok v -> 0 <= v < q.
Proof. exact modint_decode_range. Qed.
Print Assumptions C04_modint_range.

Theorem C04_modint_roundtrip :
  forall q n le v, 0 <= v < q -> q <= 256 ^ Z.of_nat n ->
    modint_decode q n le (modint_encode n le v) = Ok v.
Proof. exact modint_roundtrip. Qed.
Print Assumptions C04_modint_roundtrip.

Theorem C04_edscalar_reencode :
  forall s s', Forall is_byte s -> edscalar_decode s = Ok s' ->
    s' = s /\ 0 <= le_decode (edscalar_encode s') < ed_L /\
    edscalar_decode (edscalar_encode s') = Ok (edscalar_encode s') /\
    edscalar_encode (edscalar_encode s') = edscalar_encode s'.
Proof. exact edscalar_reencode. Qed.
Print Assumptions C04_edscalar_reencode.

(* --- composite messages: the splitters are total, refuse every other length,
   and cut the input exactly *)
Theorem C04_schnorr_split :
  forall pl sl sig,
    schnorr_split pl sl sig <> Panic /\
    (length sig <> (sl + pl)%nat -> schnorr_split pl sl sig = Err) /\
    (length sig = (sl + pl)%nat ->
       exists R s, schnorr_split pl sl sig = Ok (R, s) /\ R ++ s = sig /\ length R = pl /\ length s = sl).
Proof. exact schnorr_split_spec. Qed.
Print Assumptions C04_schnorr_split.

Theorem C04_eddsa_split :
  forall sig,
    eddsa_split sig <> Panic /\
    (length sig <> 64%nat -> eddsa_split sig = Err) /\
    (length sig = 64%nat ->
       exists R s, eddsa_split sig = Ok (R, s) /\ R ++ s = sig /\ length R = 32%nat /\ length s = 32%nat).
Proof. exact eddsa_split_spec. Qed.
Print Assumptions C04_eddsa_split.

Theorem C04_cosi_split :
  forall pl sl npub vok sig,
    cosi_split pl sl npub vok sig <> Panic /\
    (forall V r m, cosi_split pl sl npub vok sig = Ok (Some (V, r, m)) ->
       V ++ r ++ m = sig /\ length V = pl /\ length r = sl /\ length m = Nat.div (npub + 7) 8) /\
    (length sig <> (pl + sl + Nat.div (npub + 7) 8)%nat -> vok = true -> cosi_split pl sl npub vok sig = Err).
Proof. exact cosi_split_spec. Qed.
Print Assumptions C04_cosi_split.

Theorem C04_ecies_split :
  forall pl ctx,
    ecies_split pl ctx <> Panic /\
    ((length ctx < pl)%nat -> ecies_split pl ctx = Err) /\
    ((pl <= length ctx)%nat -> exists R c, ecies_split pl ctx = Ok (R, c) /\ R ++ c = ctx /\ length R = pl).
Proof. exact ecies_split_spec. Qed.
Print Assumptions C04_ecies_split.

Theorem C04_tbls_split :
  forall pl sig,
    tbls_index_of pl sig <> Panic /\ tbls_split sig <> Panic /\
    (length sig <> (pl + 2)%nat -> tbls_index_of pl sig = Err) /\
    ((length sig < 2)%nat -> tbls_split sig = Err) /\
    ((2 <= length sig)%nat -> exists ib v, tbls_split sig = Ok (be_decode ib, v) /\ ib ++ v = sig /\ length ib = 2%nat).
Proof. exact tbls_split_spec. Qed.
Print Assumptions C04_tbls_split.

Theorem C04_anon_split :
  forall pl sl nkeys mine macsz xok kok ct,
    (mine < nkeys)%nat ->
    anon_split pl sl nkeys mine macsz xok kok ct <> Panic /\
    (forall X slot ctx mac, anon_split pl sl nkeys mine macsz xok kok ct = Ok (Some (X, slot, ctx, mac)) ->
       length X = pl /\ length slot = sl /\ length mac = macsz /\
       (length ct = pl + sl * nkeys + length ctx + macsz)%nat /\
       X = firstn pl ct /\ ctx ++ mac = skipn (pl + sl * nkeys) ct).
Proof. exact anon_split_spec. Qed.
Print Assumptions C04_anon_split.

(* non-vacuity: the hypotheses are met by concrete non-trivial inputs: the P-256
   generator is [wvalid] and round-trips, (1,1) is refused; over Z/(2^255-19) the
   RFC 8032 base point encoding is accepted by both Edwards decoders and
   re-encodes to itself, the small-order point y = 0 is accepted, y = 2 (no x) is
   refused; a Schnorr signature is cut into its two halves. *)
Example C04_nonvacuous_ed :
  reencodes_to (ed25519_decode OEd KEd ed_B) ed_B = true /\
  reencodes_to (edv_decode OEd KEd ed_B) ed_B = true /\
  is_ok (ed25519_decode OEd KEd (repeat 0 32)) = true /\
  is_err (ed25519_decode OEd KEd (2 :: repeat 0 31)) = true.
Proof. exact ed_examples. Qed.

Example C04_nonvacuous :
  let G := WAff (w_gx p256) (w_gy p256) in
  wvalid (OW p256) p256 (faW p256) G /\
  p256_decode (OW p256) p256 (faW p256) (p256_encode_w G) = Ok G /\
  p256_decode (OW p256) p256 (faW p256) (4 :: be_bytes 32 1 ++ be_bytes 32 1) = Err /\
  schnorr_split 2 1 [7; 8; 9] = Ok ([7; 8], [9]).
Proof. vm_compute. repeat split; intro; discriminate. Qed.

(* --- the statements left `_partial` above, now without premises: 2^255-19 is
   PROVED prime (Pocklington certificate) and the exponentiation-based root
   extraction is proved correct (CurveRef/EdDecode.v). *)
From Kyber Require Import CurveRef.EdComplete CurveRef.EdDecode.

(* every point of the curve round-trips through its encoding *)
Theorem C04_ed25519_roundtrip : forall x y : zq ed_p,
    fmul OEd (fmul OEd x x) (fadd OEd (fmul OEd (fmul OEd y y) (c_d KEd)) (f1 OEd)) = fsub OEd (fmul OEd y y) (f1 OEd) ->
    ed25519_decode OEd KEd (ed_encode_xy OEd x y) = Ok (ed_of_xy OEd x y).
Proof. exact Ed25519_roundtrip_C04. Qed.
Print Assumptions C04_ed25519_roundtrip.

(* whatever the decoder accepts re-encodes to something it decodes to the same point *)
Theorem C04_ed25519_decode_reencode : forall s P,
    ed_decode OEd KEd s = Some P -> ed_decode OEd KEd (ed_encode OEd P) = Some P.
Proof. exact Ed25519_decode_reencode. Qed.
Print Assumptions C04_ed25519_decode_reencode.

(* the variable-time Edwards decoder accepts only curve points *)
Theorem C04_edv_accepts_only_curve_points : forall s P,
    edv_decode OEd KEd s = Ok P -> ed_on_curve OEd (ed_a OEd) (c_d KEd) P.
Proof. exact Ed25519_edv_accepts_only_curve_points. Qed.
Print Assumptions C04_edv_accepts_only_curve_points.
