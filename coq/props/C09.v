(* Property C09 - BLS, threshold BLS, BDN and CoSi multi-signatures verify iff
   honestly formed.  Only statements, each closed by [exact]; the proofs are in
   theories/MSig/MSigProofs.v and theories/MSig/Lagrange.v, the model the
   statements are about is theories/MSig/MSigSM.v.

   Reading guide.  Groups are modelled by discrete logarithms (Algebra/Grp.v):
   a public key X is the secret x itself, H(m) is an arbitrary element h, a
   byte string holding a point is an [option] ([None] = does not decode).  The
   theorems hold for every prime group order q (q > 2^16 where share indices
   are involved), for both group assignments [g1], every hash-to-group value,
   every coefficient oracle [Hcoef] and every challenge oracle [Hc]. *)
From Coq Require Import ZArith Znumtheory List Bool Permutation.
From Kyber Require Import Algebra.Zq Algebra.Grp MSig.Lagrange MSig.MSigSM MSig.MSigProofs.
Import ListNotations.

(* ------------------------------------------------------------------ BLS *)
(* Verify accepts exactly the point x*H(m) *)
Theorem C09_bls_accept_iff :
  forall q, prime q -> forall (g1 : bool) (X h s : zq q),
    bls_verify g1 X h (Some s) = true <-> s = bls_sign X h.
Proof. exact bls_accept_iff. Qed.
Print Assumptions C09_bls_accept_iff.

Theorem C09_bls_complete :
  forall q, prime q -> forall (g1 : bool) (x h : zq q),
    bls_verify g1 x h (Some (bls_sign x h)) = true.
Proof. exact bls_complete. Qed.
Print Assumptions C09_bls_complete.

(* ... and nothing else: another signature, an undecodable string, another
   key, another message (distinct hash-to-group values = the random-oracle
   premise, explicit) *)
Theorem C09_bls_reject_other_sig :
  forall q, prime q -> forall (g1 : bool) (x h s : zq q),
    s <> bls_sign x h -> bls_verify g1 x h (Some s) = false.
Proof. exact bls_reject_other_sig. Qed.
Print Assumptions C09_bls_reject_other_sig.

Theorem C09_bls_reject_undecodable :
  forall q (g1 : bool) (X h : zq q), bls_verify g1 X h None = false.
Proof. exact bls_reject_undecodable. Qed.
Print Assumptions C09_bls_reject_undecodable.

Theorem C09_bls_reject_other_key :
  forall q, prime q -> forall (g1 : bool) (x x' h : zq q),
    h <> zzero -> x' <> x -> bls_verify g1 x' h (Some (bls_sign x h)) = false.
Proof. exact bls_reject_other_key. Qed.
Print Assumptions C09_bls_reject_other_key.

Theorem C09_bls_reject_other_msg :
  forall q, prime q -> forall (g1 : bool) (x h h' : zq q),
    x <> zzero -> h' <> h -> bls_verify g1 x h' (Some (bls_sign x h)) = false.
Proof. exact bls_reject_other_msg. Qed.
Print Assumptions C09_bls_reject_other_msg.

(* ------------------------------------------------------------------ threshold BLS *)
(* [valid_set parts js]: js are pairwise distinct indices, each carried by some
   entry of [parts] that VerifyPartial accepts.  [commits] are the t
   coefficients of the sharing polynomial (their commitments), the group
   secret is its constant term. *)

(* honest partials are valid; VerifyPartial accepts exactly the valid ones *)
Theorem C09_tbls_sign_valid :
  forall q, prime q -> forall (g1 : bool) (commits : list (zq q)) (h : zq q) (i : Z),
    valid_idx q g1 commits h (tbls_sign q commits i h) = Some i.
Proof. exact tbls_sign_valid. Qed.
Print Assumptions C09_tbls_sign_valid.

Theorem C09_tbls_verify_partial_iff :
  forall q (g1 : bool) (commits : list (zq q)) (h : zq q) (p : partial q),
    tbls_verify_partial q g1 commits h p = true <-> exists i, valid_idx q g1 commits h p = Some i.
Proof. exact valid_idx_verify_partial. Qed.
Print Assumptions C09_tbls_verify_partial_iff.

(* from ANY t valid partials with distinct indices, anywhere in the list, in
   any order, among arbitrary invalid / duplicate / undecodable entries,
   Recover returns the signature the group secret itself produces *)
Theorem C09_tbls_recover_any_t :
  forall q, prime q ->
  forall (g1 : bool) (commits : list (zq q)) (h : zq q) (t : nat),
    (65536 < q)%Z -> (1 <= t)%nat -> length commits = t ->
    forall parts : list (partial q),
      Forall (part_wf q) parts ->
      (exists js, valid_set q g1 commits h parts js /\ length js = t) ->
      tbls_recover q g1 commits h t parts = Some (bls_sign (peval commits zzero) h).
Proof. exact tbls_recover_any_t. Qed.
Print Assumptions C09_tbls_recover_any_t.

(* fewer than t valid partials with distinct indices are refused *)
Theorem C09_tbls_refuses :
  forall q, prime q ->
  forall (g1 : bool) (commits : list (zq q)) (h : zq q) (t : nat),
    (65536 < q)%Z -> (1 <= t)%nat -> length commits = t ->
    forall parts : list (partial q),
      Forall (part_wf q) parts ->
      (forall js, valid_set q g1 commits h parts js -> (length js < t)%nat) ->
      tbls_recover q g1 commits h t parts = None.
Proof. exact tbls_refuses. Qed.
Print Assumptions C09_tbls_refuses.

(* whatever Recover returns is that unique signature, it verifies under the
   group public key, and t valid partials were indeed present *)
Theorem C09_tbls_recover_unique :
  forall q, prime q ->
  forall (g1 : bool) (commits : list (zq q)) (h : zq q) (t : nat),
    (65536 < q)%Z -> (1 <= t)%nat -> length commits = t ->
    forall (parts : list (partial q)) (s : zq q),
      Forall (part_wf q) parts ->
      tbls_recover q g1 commits h t parts = Some s ->
      s = bls_sign (hd zzero commits) h /\
      bls_verify g1 (hd zzero commits) h (Some s) = true /\
      exists js, valid_set q g1 commits h parts js /\ length js = t.
Proof. exact tbls_recover_unique. Qed.
Print Assumptions C09_tbls_recover_unique.

(* the order of the received partials does not matter *)
Theorem C09_tbls_recover_perm :
  forall q, prime q ->
  forall (g1 : bool) (commits : list (zq q)) (h : zq q) (t : nat),
    (65536 < q)%Z -> (1 <= t)%nat -> length commits = t ->
    forall parts parts' : list (partial q),
      Forall (part_wf q) parts -> Permutation parts parts' ->
      tbls_recover q g1 commits h t parts = tbls_recover q g1 commits h t parts'.
Proof. exact tbls_recover_perm. Qed.
Print Assumptions C09_tbls_recover_perm.

(* in terms of the signers: the honest partials of any t distinct signers,
   wherever they stand in the list and whatever else it contains *)
Theorem C09_tbls_recover_honest :
  forall q, prime q ->
  forall (g1 : bool) (commits : list (zq q)) (h : zq q) (t : nat),
    (65536 < q)%Z -> (1 <= t)%nat -> length commits = t ->
    forall (parts : list (partial q)) (js : list Z),
      Forall (part_wf q) parts -> NoDup js -> length js = t ->
      (forall j, In j js -> In (tbls_sign q commits j h) parts) ->
      tbls_recover q g1 commits h t parts = Some (bls_sign (hd zzero commits) h).
Proof. exact tbls_recover_honest. Qed.
Print Assumptions C09_tbls_recover_honest.

(* the interpolation RecoverCommit performs (any order of the shares) *)
Theorem C09_lagrange_recover :
  forall q, prime q -> forall (c : list (zq q)) (h : zq q) (l : list (zq q * zq q)),
    NoDup (map fst l) -> (length c <= length l)%nat ->
    Forall (fun p => snd p = smul (peval c (fst p)) h) l ->
    lagrange0 l = smul (peval c zzero) h.
Proof. exact lagrange_recover_pairs. Qed.
Print Assumptions C09_lagrange_recover.

(* ------------------------------------------------------------------ BDN *)
(* however the mask object was built - NewMask without or WITH own key, then
   any sequence of SetBit / SetMask / Merge / Clone, failing calls included -
   it holds the coefficients and terms of its key list and a mask of the right
   length *)
Theorem C09_bdn_mask_invariant :
  forall q (Hcoef : list (zq q) -> list (zq q)) (pubs : list (zq q)) (own : option (zq q))
         (ops : list bop) (m0 : bmask q),
    bdn_new_mask q Hcoef pubs own = Some m0 ->
    bdn_wf q Hcoef (fst (bdn_run q m0 ops)) /\ bm_pubs q (fst (bdn_run q m0 ops)) = pubs.
Proof. exact bdn_mask_invariant. Qed.
Print Assumptions C09_bdn_mask_invariant.

(* ... hence aggregation never fails or panics on it, yields
   a*H(m) and a*B for a = sum over the enabled real cosigners of (c_i+1) x_i,
   and the aggregate verifies under the aggregate key of exactly that mask *)
Theorem C09_bdn_aggregate_verifies :
  forall q, prime q ->
  forall Hcoef : list (zq q) -> list (zq q),
    (forall l, length (Hcoef l) = length l) ->
    forall (g1 : bool) (pubs : list (zq q)) (own : option (zq q)) (ops : list bop)
           (m0 : bmask q) (h : zq q),
      bdn_new_mask q Hcoef pubs own = Some m0 ->
      let m := fst (bdn_run q m0 ops) in
      let a := agg_secret q pubs (bm_bits q m) (Hcoef pubs) in
      bdn_agg_pubs q m = ROk a /\
      bdn_agg_sigs q m (honest_sigs q pubs (bm_bits q m) h) = ROk (bls_sign a h) /\
      bls_verify g1 a h (Some (bls_sign a h)) = true.
Proof. exact bdn_aggregate_verifies. Qed.
Print Assumptions C09_bdn_aggregate_verifies.

(* the same when several mask objects (NewMask results and clones, which share
   the precomputed coefficients) are used side by side in any interleaving:
   every object of the pool aggregates and verifies, any number of times -
   aggregation is a function of the mask and writes nothing *)
Theorem C09_bdn_pool_verifies :
  forall q, prime q ->
  forall Hcoef : list (zq q) -> list (zq q),
    (forall l, length (Hcoef l) = length l) ->
    forall (g1 : bool) (pubs : list (zq q)) (steps : list (pstep q)) (m : bmask q) (h : zq q),
      In m (pool_run q Hcoef pubs steps) ->
      let a := agg_secret q pubs (bm_bits q m) (Hcoef pubs) in
      bdn_agg_pubs q m = ROk a /\
      bdn_agg_sigs q m (honest_sigs q pubs (bm_bits q m) h) = ROk (bls_sign a h) /\
      bls_verify g1 a h (Some (bls_sign a h)) = true.
Proof. exact bdn_pool_verifies. Qed.
Print Assumptions C09_bdn_pool_verifies.

(* under which mask and message an aggregate verifies: exactly a*h = a'*h' *)
Theorem C09_bdn_accept_iff :
  forall q, prime q ->
  forall (Hcoef : list (zq q) -> list (zq q)) (g1 : bool) (pubs : list (zq q))
         (bits bits' : list bool) (h h' : zq q),
    let a := agg_secret q pubs bits (Hcoef pubs) in
    let a' := agg_secret q pubs bits' (Hcoef pubs) in
    bls_verify g1 a' h' (Some (bls_sign a h)) = true <-> smul a h = smul a' h'.
Proof. exact bdn_accept_iff. Qed.
Print Assumptions C09_bdn_accept_iff.

(* no other mask: masks differing in one real cosigner (key not the identity,
   coefficient not -1) reject each other's aggregates; in general, masks with
   different aggregate secrets do *)
Theorem C09_bdn_reject_one_bit :
  forall q, prime q ->
  forall (Hcoef : list (zq q) -> list (zq q)) (g1 : bool) (pubs : list (zq q))
         (bits : list bool) (k : nat) (h : zq q),
    (k < length pubs)%nat -> (k < length bits)%nat -> nth k bits false = false ->
    h <> zzero -> nth k pubs zzero <> zzero -> zadd (nth k (Hcoef pubs) zzero) zone <> zzero ->
    bls_verify g1 (agg_secret q pubs (set_nth k true bits) (Hcoef pubs)) h
               (Some (bls_sign (agg_secret q pubs bits (Hcoef pubs)) h)) = false /\
    bls_verify g1 (agg_secret q pubs bits (Hcoef pubs)) h
               (Some (bls_sign (agg_secret q pubs (set_nth k true bits) (Hcoef pubs)) h)) = false.
Proof. exact bdn_reject_one_bit. Qed.
Print Assumptions C09_bdn_reject_one_bit.

Theorem C09_bdn_reject_other_mask :
  forall q, prime q ->
  forall (Hcoef : list (zq q) -> list (zq q)) (g1 : bool) (pubs : list (zq q))
         (bits bits' : list bool) (h : zq q),
    h <> zzero ->
    agg_secret q pubs bits' (Hcoef pubs) <> agg_secret q pubs bits (Hcoef pubs) ->
    bls_verify g1 (agg_secret q pubs bits' (Hcoef pubs)) h
               (Some (bls_sign (agg_secret q pubs bits (Hcoef pubs)) h)) = false.
Proof. exact bdn_reject_other_mask. Qed.
Print Assumptions C09_bdn_reject_other_mask.

Theorem C09_bdn_reject_other_msg :
  forall q, prime q ->
  forall (Hcoef : list (zq q) -> list (zq q)) (g1 : bool) (pubs : list (zq q))
         (bits : list bool) (h h' : zq q),
    agg_secret q pubs bits (Hcoef pubs) <> zzero -> h' <> h ->
    bls_verify g1 (agg_secret q pubs bits (Hcoef pubs)) h'
               (Some (bls_sign (agg_secret q pubs bits (Hcoef pubs)) h)) = false.
Proof. exact bdn_reject_other_msg. Qed.
Print Assumptions C09_bdn_reject_other_msg.

(* padding bits of the last mask byte never influence the aggregate *)
Theorem C09_bdn_padding_irrelevant :
  forall q (secrets : list (zq q)) (b1 b2 : list bool) (coefs : list (zq q)),
    (forall k, (k < length secrets)%nat -> nth k b1 false = nth k b2 false) ->
    agg_secret q secrets b1 coefs = agg_secret q secrets b2 coefs.
Proof. exact agg_secret_ext. Qed.
Print Assumptions C09_bdn_padding_irrelevant.

(* ------------------------------------------------------------------ CoSi *)
(* the incrementally maintained aggregate public key is the sum of the enabled
   keys after NewMask (with or without own key) and ANY sequence of SetBit /
   SetMask / merge operations, including failing and panicking ones *)
Theorem C09_cosi_mask_invariant :
  forall q, prime q ->
  forall (pubs : list (zq q)) (own : option (zq q)) (m0 : cmask q) (ops : list cop),
    cosi_new_mask q pubs own = ROk m0 ->
    let m := cosi_run q m0 ops in
    cm_agg q m = sum_enabled q pubs (cm_bits q m) /\ cm_pubs q m = pubs /\
    length (cm_bits q m) = mask_bits (length pubs).
Proof. exact cosi_mask_invariant. Qed.
Print Assumptions C09_cosi_mask_invariant.

(* Verify accepts exactly: mask of the right length, r*B = V + H(V||A||M)*A
   for the aggregate key A of the mask's real cosigners, policy met *)
Theorem C09_cosi_verify_iff :
  forall q, prime q ->
  forall (Hc : zq q -> zq q -> Z -> zq q) (pubs : list (zq q)) (msg : Z) (v r : zq q)
         (mb : list bool) (pol : policy),
    let n := length pubs in
    let A := sum_enabled q pubs mb in
    cosi_verify q Hc pubs msg (Some (Some v, r, mb)) pol = true <->
    length mb = mask_bits n /\
    r = zadd v (zmul (Hc v A msg) A) /\
    policy_check pol (count_bits n mb) n = true.
Proof. exact cosi_verify_iff. Qed.
Print Assumptions C09_cosi_verify_iff.

(* the honest protocol among the cosigners of a mask verifies iff the policy holds *)
Theorem C09_cosi_complete :
  forall q, prime q ->
  forall (Hc : zq q -> zq q -> Z -> zq q) (secrets vs : list (zq q)) (bits : list bool)
         (msg : Z) (pol : policy),
    length vs = length secrets -> length bits = mask_bits (length secrets) ->
    cosi_verify q Hc secrets msg (cosi_honest_sig q Hc secrets vs bits msg) pol
    = policy_check pol (count_bits (length secrets) bits) (length secrets).
Proof. exact cosi_complete. Qed.
Print Assumptions C09_cosi_complete.

Theorem C09_cosi_reject_other_response :
  forall q, prime q ->
  forall (Hc : zq q -> zq q -> Z -> zq q) (pubs : list (zq q)) (msg : Z) (v r r' : zq q)
         (mb : list bool) (pol : policy),
    cosi_verify q Hc pubs msg (Some (Some v, r, mb)) pol = true -> r' <> r ->
    cosi_verify q Hc pubs msg (Some (Some v, r', mb)) pol = false.
Proof. exact cosi_reject_other_response. Qed.
Print Assumptions C09_cosi_reject_other_response.

(* a changed commitment, mask or message is rejected unless the Schnorr equation
   holds for the changed values (hash coincidence, explicit) *)
Theorem C09_cosi_reject_equation :
  forall q, prime q ->
  forall (Hc : zq q -> zq q -> Z -> zq q) (pubs : list (zq q)) (msg : Z) (v r : zq q)
         (mb : list bool) (pol : policy),
    r <> zadd v (zmul (Hc v (sum_enabled q pubs mb) msg) (sum_enabled q pubs mb)) ->
    cosi_verify q Hc pubs msg (Some (Some v, r, mb)) pol = false.
Proof. exact cosi_reject_equation. Qed.
Print Assumptions C09_cosi_reject_equation.

Theorem C09_cosi_reject_undecodable :
  forall q (Hc : zq q -> zq q -> Z -> zq q) (pubs : list (zq q)) (msg : Z) (r : zq q)
         (mb : list bool) (pol : policy),
    cosi_verify q Hc pubs msg (Some (None, r, mb)) pol = false /\
    cosi_verify q Hc pubs msg None pol = false.
Proof. exact cosi_reject_undecodable. Qed.
Print Assumptions C09_cosi_reject_undecodable.

Theorem C09_cosi_reject_mask_length :
  forall q, prime q ->
  forall (Hc : zq q -> zq q -> Z -> zq q) (pubs : list (zq q)) (msg : Z) (v r : zq q)
         (mb : list bool) (pol : policy),
    length mb <> mask_bits (length pubs) ->
    cosi_verify q Hc pubs msg (Some (Some v, r, mb)) pol = false.
Proof. exact cosi_reject_mask_length. Qed.
Print Assumptions C09_cosi_reject_mask_length.

Theorem C09_cosi_policy_enforced :
  forall q, prime q ->
  forall (Hc : zq q -> zq q -> Z -> zq q) (pubs : list (zq q)) (msg : Z) (v r : zq q)
         (mb : list bool) (pol : policy),
    policy_check pol (count_bits (length pubs) mb) (length pubs) = false ->
    cosi_verify q Hc pubs msg (Some (Some v, r, mb)) pol = false.
Proof. exact cosi_policy_enforced. Qed.
Print Assumptions C09_cosi_policy_enforced.

(* CountEnabled (hence Complete/Threshold policies) and the aggregate key are
   functions of the real cosigners' bits: padding bits are ignored *)
Theorem C09_count_enabled_ignores_padding :
  forall pre pad1 pad2 : list bool,
    count_bits (length pre) (pre ++ pad1) = count_bits (length pre) (pre ++ pad2).
Proof. exact count_enabled_ignores_padding. Qed.
Print Assumptions C09_count_enabled_ignores_padding.

Theorem C09_cosi_aggregate_ignores_padding :
  forall q (pubs : list (zq q)) (pre pad1 pad2 : list bool),
    length pre = length pubs ->
    sum_enabled q pubs (pre ++ pad1) = sum_enabled q pubs (pre ++ pad2).
Proof. exact sum_enabled_ignores_padding. Qed.
Print Assumptions C09_cosi_aggregate_ignores_padding.

(* ------------------------------------------------------------------ non-vacuity
   a prime above 2^16 exists; over it: a Recover with a garbage entry, a
   duplicate, an other-message partial and three valid partials out of order
   returns the group signature, and with two valid ones is refused; a BDN mask
   built WITH own key then SetMask/Merge aggregates and verifies; a CoSi mask
   history keeps the aggregate in step and the honest signature verifies. *)
Example C09_nonvacuous :
  prime 65537 /\
  (let q := 65537%Z in
   let c := map (of_Z q) [11; 22; 33]%Z in
   let h := of_Z q 5 in
   let h2 := of_Z q 9 in
   let p i := tbls_sign q c i h in
   let parts := [Some (7%Z, None); p 4%Z; p 0%Z; p 0%Z; tbls_sign q c 1%Z h2; None; p 2%Z] in
   option_map val (tbls_recover q true c h 3 parts) = Some 55%Z /\
   tbls_recover q true c h 3 [p 4%Z; p 4%Z; Some (2%Z, None); p 1%Z] = None) /\
  (let q := 65537%Z in
   let Hcoef := fun l : list (zq q) => map (fun x => zmul x x) l in
   let pubs := map (of_Z q) [3; 4; 5]%Z in
   match bdn_new_mask q Hcoef pubs (Some (of_Z q 4)) with
   | Some m0 =>
       let m := fst (bdn_run q m0 [BSetMask [true; false; false; false; false; false; false; true];
                                   BMerge [false; true; false; false; false; false; false; false]; BClone]) in
       match bdn_agg_pubs q m, bdn_agg_sigs q m (honest_sigs q pubs (bm_bits q m) (of_Z q 7)) with
       | ROk a, ROk s => (val a =? (9 + 1) * 3 + (16 + 1) * 4)%Z && bls_verify false a (of_Z q 7) (Some s)
       | _, _ => false
       end
   | None => false
   end = true) /\
  (let q := 65537%Z in
   let Hc := fun (v a : zq q) (m : Z) => zadd (zmul v a) (of_Z q m) in
   let secrets := map (of_Z q) [3; 4; 5]%Z in
   let vs := map (of_Z q) [100; 200; 300]%Z in
   let bits := [true; false; true; false; false; false; false; false] in
   cosi_verify q Hc secrets 42 (cosi_honest_sig q Hc secrets vs bits 42) (PThreshold 2) = true /\
   cosi_verify q Hc secrets 42 (cosi_honest_sig q Hc secrets vs bits 42) PComplete = false).
Proof.
  split; [exact prime_65537|]. vm_compute. repeat split.
Qed.
