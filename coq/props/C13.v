(* Property C13 - PVSS and DLEQ: only correct shares verify; any t verified
   shares recover.  Only statements, each closed by [exact]; the proofs are in
   theories/PVSS/PvssProofs.v (Lagrange recovery: theories/Share, property C07).

   Groups are modelled by discrete logarithms (Algebra/Grp.v): a point is an
   element of [zq q], q prime.  [Hc] - the hash-to-scalar producing every
   challenge - is an arbitrary function of the list of hashed points; the
   prover's picked commitment scalars are explicit arguments. *)
From Coq Require Import ZArith Znumtheory List Bool.
From Kyber Require Import Algebra.Zq Algebra.Grp Share.ShamirSM PVSS.PvssSM PVSS.PvssProofs.
Import ListNotations.

(* ---------------------------------------------------------------- DLEQ *)

(* a proof created for x (any commitment scalar v, any challenge c, any bases)
   verifies for the pair (xG, xH) *)
Theorem C13_dleq_complete :
  forall q (Hq : prime q) (G H x v c : zq q),
    dleq_verify (dleq_proof_c G H x v c) G H (smul x G) (smul x H) = true.
Proof. exact dleq_complete. Qed.
Print Assumptions C13_dleq_complete.

Theorem C13_dleq_prove_verifies :
  forall q (Hq : prime q) (Hc : list (zq q) -> zq q) (G H x v : zq q),
    let '(p, yG, yH) := dleq_prove Hc G H x v in
    yG = smul x G /\ yH = smul x H /\ dleq_verify p G H yG yH = true.
Proof. exact dleq_prove_verifies. Qed.
Print Assumptions C13_dleq_prove_verifies.

(* the verifier accepts exactly when both equations hold *)
Theorem C13_dleq_accept_iff :
  forall q (p : proof q) (G H yG yH : zq q),
    dleq_verify p G H yG yH = true <->
    pVG p = padd (smul (pR p) G) (smul (pC p) yG) /\
    pVH p = padd (smul (pR p) H) (smul (pC p) yH).
Proof. exact dleq_accept_iff. Qed.
Print Assumptions C13_dleq_accept_iff.

(* changing any one component of an accepted proof, or one claimed point, or
   one base, to a different value makes it fail (side conditions exclude the
   neutral element / a zero challenge or response, where the changed value does
   not occur in the equations) *)
Theorem C13_dleq_single_field_rejects :
  forall q (Hq : prime q) (p : proof q) (G H yG yH : zq q),
    dleq_verify p G H yG yH = true ->
    (forall c', c' <> pC p -> yG <> zzero \/ yH <> zzero -> dleq_verify (set_C q p c') G H yG yH = false) /\
    (forall r', r' <> pR p -> G <> zzero \/ H <> zzero -> dleq_verify (set_R q p r') G H yG yH = false) /\
    (forall g', g' <> pVG p -> dleq_verify (set_VG q p g') G H yG yH = false) /\
    (forall h', h' <> pVH p -> dleq_verify (set_VH q p h') G H yG yH = false) /\
    (forall yG', yG' <> yG -> pC p <> zzero -> dleq_verify p G H yG' yH = false) /\
    (forall yH', yH' <> yH -> pC p <> zzero -> dleq_verify p G H yG yH' = false) /\
    (forall G', G' <> G -> pR p <> zzero -> dleq_verify p G' H yG yH = false) /\
    (forall H', H' <> H -> pR p <> zzero -> dleq_verify p G H' yG yH = false).
Proof. exact dleq_single_field_rejects. Qed.
Print Assumptions C13_dleq_single_field_rejects.

(* soundness core: for a false statement (log_G yG <> log_H yH) and fixed
   commitments at most one challenge is accepted; two accepting transcripts
   with different challenges yield the common logarithm *)
Theorem C13_dleq_false_statement_one_challenge :
  forall q (Hq : prime q) (p p' : proof q) (G H yG yH : zq q),
    zmul yG H <> zmul yH G -> pVG p = pVG p' -> pVH p = pVH p' ->
    dleq_verify p G H yG yH = true -> dleq_verify p' G H yG yH = true -> pC p = pC p'.
Proof. exact dleq_false_statement_one_challenge. Qed.
Print Assumptions C13_dleq_false_statement_one_challenge.

Theorem C13_dleq_special_sound :
  forall q (Hq : prime q) (p p' : proof q) (G H yG yH : zq q),
    pVG p = pVG p' -> pVH p = pVH p' -> pC p <> pC p' ->
    dleq_verify p G H yG yH = true -> dleq_verify p' G H yG yH = true ->
    let w := zdiv (zsub (pR p') (pR p)) (zsub (pC p) (pC p')) in
    yG = smul w G /\ yH = smul w H.
Proof. exact dleq_special_sound. Qed.
Print Assumptions C13_dleq_special_sound.

(* ---------------------------------------------------------------- PVSS: honest runs *)

(* EncShares: every share is the honest share of its trustee, carries the
   global challenge the verifier recomputes from the commitments and all
   shares, verifies individually (against the commitment evaluated at its own
   index), and the batch verification keeps all keys and all shares *)
Theorem C13_pvss_enc_honest :
  forall q (Hq : prime q) (Hc : list (zq q) -> zq q) (H : zq q) (X coeffs vs : list (zq q)) shares cm,
    enc_shares Hc H X coeffs vs = ROk (shares, cm) ->
    cm = commit H coeffs /\ length shares = length X /\
    map sI shares = zseq (length X) /\
    exists gc, global_challenge Hc (length X) cm shares = Some gc /\
      Forall2 (honest_enc q H gc coeffs (length X)) X shares /\
      Forall2 (fun x e => verify_enc_share H x (sH_of q cm e) gc e = VOk) X shares /\
      verify_enc_share_batch Hc H X (map (sH_of q cm) shares) cm shares = ROk (X, shares).
Proof. exact pvss_enc_honest. Qed.
Print Assumptions C13_pvss_enc_honest.

(* DecShare on a verifying share with key pair (x, xG): index kept, value
   x^-1 S, and the result verifies *)
Theorem C13_pvss_dec_honest :
  forall q (Hq : prime q) (Hc : list (zq q) -> zq q) (H X sH x gc : zq q) (e : pvshare q) (v : zq q),
    x <> zzero -> X = smul x pbase -> verify_enc_share H X sH gc e = VOk ->
    exists d, dec_share Hc H X sH x gc e v = inr d /\
              sI d = sI e /\ sV d = smul (zinv x) (sV e) /\
              verify_dec_share Hc pbase X e d = VOk.
Proof. exact pvss_dec_honest. Qed.
Print Assumptions C13_pvss_dec_honest.

Theorem C13_dec_share_refuses :
  forall q (Hc : list (zq q) -> zq q) (H X sH x gc : zq q) (e : pvshare q) (v : zq q),
    verify_enc_share H X sH gc e <> VOk ->
    dec_share Hc H X sH x gc e v = inl (verify_enc_share H X sH gc e).
Proof. exact dec_share_refuses. Qed.
Print Assumptions C13_dec_share_refuses.

(* any t verified decrypted shares of an honest run, in any order: [rows] is
   an arbitrary list (any selection, order, repetition) of honest positions
   (trustee key, dealer's encrypted share, trustee's decryption) carrying t
   distinct indices *)
Theorem C13_pvss_recover_honest :
  forall q (Hq : prime q) (Hc : list (zq q) -> zq q) (H gc : zq q) (coeffs : list (zq q)) (t : nat)
         (rows : list (zq q * (pvshare q * pvshare q))),
    (1 <= t)%nat -> length coeffs = t ->
    Forall (honest_row q Hc H gc coeffs) rows ->
    (t <= length (nodup Z.eq_dec (map (fun r => sI (fst (snd r))) rows)))%nat ->
    recover_secret Hc pbase (map fst rows) (map (fun r => fst (snd r)) rows) (map (fun r => snd (snd r)) rows) t
    = ROk (smul (hd zzero coeffs) pbase).
Proof. exact pvss_recover_honest. Qed.
Print Assumptions C13_pvss_recover_honest.

(* the main clause in one statement: EncShares, every trustee decrypts, then any
   list of positions (any subset, any order, repetitions allowed) carrying t
   distinct indices recovers secret * G *)
Theorem C13_pvss_end_to_end :
  forall q (Hq : prime q) (Hc : list (zq q) -> zq q) (H : zq q) (xs coeffs vs : list (zq q))
         (shares : list (pvshare q)) (cm : list (zq q)) (gc : zq q) (decs : list (pvshare q)) (t : nat),
    let X := map (fun x => smul x pbase) xs in
    enc_shares Hc H X coeffs vs = ROk (shares, cm) ->
    global_challenge Hc (length X) cm shares = Some gc ->
    Forall (fun x => x <> zzero) xs ->
    (Z.of_nat (length xs) <= q - 1)%Z -> (Z.of_nat (length xs) <= 4294967295)%Z ->
    (1 <= t)%nat -> length coeffs = t ->
    Forall2 (fun (xe : zq q * pvshare q) d =>
               exists v', dec_share Hc H (smul (fst xe) pbase) (sH_of q cm (snd xe)) (fst xe) gc (snd xe) v' = inr d)
            (combine xs shares) decs ->
    forall rows,
      incl rows (combine X (combine shares decs)) ->
      (t <= length (nodup Z.eq_dec (map (fun r => sI (fst (snd r))) rows)))%nat ->
      recover_secret Hc pbase (map fst rows) (map (fun r => fst (snd r)) rows) (map (fun r => snd (snd r)) rows) t
      = ROk (smul (hd zzero coeffs) pbase).
Proof. exact pvss_end_to_end. Qed.
Print Assumptions C13_pvss_end_to_end.

(* filter-then-interpolate with arbitrary (also rejected) entries in between *)
Theorem C13_pvss_recover_filtered :
  forall q (Hq : prime q) (Hc : list (zq q) -> zq q) (G : zq q) (X : list (zq q)) (enc dec : list (pvshare q))
         (t : nat) (coeffs : list (zq q)),
    length X = length enc -> length enc = length dec ->
    (1 <= t)%nat -> length coeffs = t ->
    (forall d, In d (verified q Hc G X enc dec) ->
       (0 <= sI d < q - 1)%Z /\ (sI d < 4294967295)%Z /\ sV d = smul (peval coeffs (xeval q (sI d))) G) ->
    (t <= length (nodup Z.eq_dec (map sI (verified q Hc G X enc dec))))%nat ->
    recover_secret Hc G X enc dec t = ROk (smul (hd zzero coeffs) G).
Proof. exact pvss_recover_filtered. Qed.
Print Assumptions C13_pvss_recover_filtered.

(* ---------------------------------------------------------------- PVSS: batch functions are filters *)

Theorem C13_enc_batch_filter_spec :
  forall q (Hc : list (zq q) -> zq q) (H : zq q) (X sH cm : list (zq q)) (enc : list (pvshare q)) gc,
    length X = length sH -> length sH = length enc ->
    global_challenge Hc (length X) cm enc = Some gc ->
    let kept := filter (enc_ok q H gc) (combine X (combine sH enc)) in
    verify_enc_share_batch Hc H X sH cm enc = ROk (map fst kept, map (fun r => snd (snd r)) kept).
Proof. exact enc_batch_filter_spec. Qed.
Print Assumptions C13_enc_batch_filter_spec.

Theorem C13_dec_batch_filter_spec :
  forall q (Hc : list (zq q) -> zq q) (G : zq q) (X : list (zq q)) (enc dec : list (pvshare q)),
    length X = length enc -> length enc = length dec ->
    verify_dec_share_batch Hc G X enc dec =
    Some (map (fun r => snd (snd r)) (filter (dec_ok q Hc G) (combine X (combine enc dec)))).
Proof. exact dec_batch_filter_spec. Qed.
Print Assumptions C13_dec_batch_filter_spec.

(* DecShareBatch is the order-preserving filter of the positions whose share
   verifies, with their decryptions, each of which verifies *)
Theorem C13_dec_share_batch_spec :
  forall q (Hc : list (zq q) -> zq q) (H : zq q) (X sH : list (zq q)) (x : zq q) (gcs : list (zq q))
         (enc : list (pvshare q)) vs K E D,
    dec_share_batch Hc H X sH x gcs enc vs = Some (ROk (K, E, D)) ->
    let kept := filter (dsb_ok q H) (combine X (combine sH (combine gcs enc))) in
    K = map fst kept /\ E = map (fun r => snd (snd (snd r))) kept /\ Forall2 (dsb_dec q Hc H x) kept D.
Proof. exact dec_share_batch_spec. Qed.
Print Assumptions C13_dec_share_batch_spec.

Theorem C13_dec_share_batch_verifies :
  forall q (Hq : prime q) (Hc : list (zq q) -> zq q) (H x : zq q) (r : dsb_row q) (d : pvshare q),
    x <> zzero -> fst r = smul x pbase -> dsb_ok q H r = true -> dsb_dec q Hc H x r d ->
    verify_dec_share Hc pbase (fst r) (snd (snd (snd r))) d = VOk.
Proof. exact dec_share_batch_verifies. Qed.
Print Assumptions C13_dec_share_batch_verifies.

(* RecoverSecret depends on its inputs only through the verified sub-list *)
Theorem C13_pvss_recover_only_verified :
  forall q (Hc : list (zq q) -> zq q) (G : zq q) (X X' : list (zq q)) (enc dec enc' dec' : list (pvshare q)) (t : nat),
    length X = length enc -> length enc = length dec ->
    length X' = length enc' -> length enc' = length dec' ->
    verified q Hc G X enc dec = verified q Hc G X' enc' dec' ->
    recover_secret Hc G X enc dec t = recover_secret Hc G X' enc' dec' t.
Proof. exact pvss_recover_only_verified. Qed.
Print Assumptions C13_pvss_recover_only_verified.

(* ---------------------------------------------------------------- PVSS: refusal below t *)

Theorem C13_pvss_refuses_below_t :
  forall q (Hc : list (zq q) -> zq q) (G : zq q) (X : list (zq q)) (enc dec : list (pvshare q)) (t : nat),
    length X = length enc -> length enc = length dec ->
    (length (verified q Hc G X enc dec) < t)%nat ->
    recover_secret Hc G X enc dec t = RErr E_TOO_FEW.
Proof. exact pvss_refuses_below_t. Qed.
Print Assumptions C13_pvss_refuses_below_t.

Theorem C13_pvss_refuses_below_t_distinct :
  forall q (Hc : list (zq q) -> zq q) (G : zq q) (X : list (zq q)) (enc dec : list (pvshare q)) (t : nat),
    (length (nodup Z.eq_dec (map sI (verified q Hc G X enc dec))) < t)%nat ->
    exists code, recover_secret Hc G X enc dec t = RErr code.
Proof. exact pvss_refuses_below_t_distinct. Qed.
Print Assumptions C13_pvss_refuses_below_t_distinct.

(* ---------------------------------------------------------------- PVSS: altered / swapped inputs fail *)

Theorem C13_enc_verifies_iff :
  forall q (H X sH gc : zq q) (e : pvshare q),
    verify_enc_share H X sH gc e = VOk <->
    pC (sP e) = gc /\ dleq_eqs q (sP e) H X sH (sV e).
Proof. exact enc_verifies_iff. Qed.
Print Assumptions C13_enc_verifies_iff.

Theorem C13_dec_verifies_iff :
  forall q (Hc : list (zq q) -> zq q) (G X : zq q) (e d : pvshare q),
    verify_dec_share Hc G X e d = VOk <->
    sI d = sI e /\ pC (sP d) = Hc [X; sV e; sV d; pVG (sP d); pVH (sP d)] /\
    dleq_eqs q (sP d) G (sV d) X (sV e).
Proof. exact dec_verifies_iff. Qed.
Print Assumptions C13_dec_verifies_iff.

(* encrypted share: proof components, share value, trustee key (= swap with
   another trustee), commitment (= altered polynomial or index), challenge *)
Theorem C13_enc_single_field_rejects :
  forall q (Hq : prime q) (H X sH gc : zq q) (e : pvshare q),
    verify_enc_share H X sH gc e = VOk ->
    (forall c', c' <> pC (sP e) -> verify_enc_share H X sH gc (set_P q e (set_C q (sP e) c')) = VChallenge) /\
    (forall r', r' <> pR (sP e) -> H <> zzero \/ X <> zzero ->
                verify_enc_share H X sH gc (set_P q e (set_R q (sP e) r')) = VProof) /\
    (forall g', g' <> pVG (sP e) -> verify_enc_share H X sH gc (set_P q e (set_VG q (sP e) g')) = VProof) /\
    (forall h', h' <> pVH (sP e) -> verify_enc_share H X sH gc (set_P q e (set_VH q (sP e) h')) = VProof) /\
    (forall v', v' <> sV e -> gc <> zzero -> verify_enc_share H X sH gc (set_V q e v') = VProof) /\
    (forall X', X' <> X -> pR (sP e) <> zzero -> verify_enc_share H X' sH gc e = VProof) /\
    (forall sH', sH' <> sH -> gc <> zzero -> verify_enc_share H X sH' gc e = VProof) /\
    (forall gc', gc' <> gc -> verify_enc_share H X sH gc' e = VChallenge).
Proof. exact enc_single_field_rejects. Qed.
Print Assumptions C13_enc_single_field_rejects.

(* the index of an encrypted share is bound through the commitment it is checked against *)
Theorem C13_enc_relabel_rejected :
  forall q (Hq : prime q) (H gc : zq q) (coeffs : list (zq q)) (X v : zq q) (i j : Z),
    let e := enc_one H gc ((i, peval coeffs (xeval q i)), (X, v)) in
    verify_enc_share H X (sH_of q (commit H coeffs) (set_I q e j)) gc (set_I q e j) = VOk ->
    gc = zzero \/ H = zzero \/ peval coeffs (xeval q j) = peval coeffs (xeval q i).
Proof. exact enc_relabel_rejected. Qed.
Print Assumptions C13_enc_relabel_rejected.

(* decrypted share: both indices, proof components, share value, the encrypted
   value it is checked against, the trustee key *)
Theorem C13_dec_single_field_rejects :
  forall q (Hq : prime q) (Hc : list (zq q) -> zq q) (G X : zq q) (e d : pvshare q),
    verify_dec_share Hc G X e d = VOk ->
    (forall i', i' <> sI d -> verify_dec_share Hc G X e (set_I q d i') = VIndex) /\
    (forall i', i' <> sI e -> verify_dec_share Hc G X (set_I q e i') d = VIndex) /\
    (forall c', c' <> pC (sP d) -> verify_dec_share Hc G X e (set_P q d (set_C q (sP d) c')) = VChallenge) /\
    (forall r', r' <> pR (sP d) -> G <> zzero \/ sV d <> zzero ->
                verify_dec_share Hc G X e (set_P q d (set_R q (sP d) r')) = VProof) /\
    (forall g', g' <> pVG (sP d) -> verdict_ok (verify_dec_share Hc G X e (set_P q d (set_VG q (sP d) g'))) = false) /\
    (forall h', h' <> pVH (sP d) -> verdict_ok (verify_dec_share Hc G X e (set_P q d (set_VH q (sP d) h'))) = false) /\
    (forall v', v' <> sV d -> pR (sP d) <> zzero -> verdict_ok (verify_dec_share Hc G X e (set_V q d v')) = false) /\
    (forall s', s' <> sV e -> pC (sP d) <> zzero -> verdict_ok (verify_dec_share Hc G X (set_V q e s') d) = false) /\
    (forall X', X' <> X -> pC (sP d) <> zzero -> verdict_ok (verify_dec_share Hc G X' e d) = false).
Proof. exact dec_single_field_rejects. Qed.
Print Assumptions C13_dec_single_field_rejects.

(* cross-trustee swaps *)
Theorem C13_enc_swap_rejected :
  forall q (Hq : prime q) (H X X' sH gc : zq q) (e : pvshare q),
    verify_enc_share H X sH gc e = VOk -> X' <> X -> pR (sP e) <> zzero ->
    verify_enc_share H X' sH gc e = VProof.
Proof. exact enc_swap_rejected. Qed.
Print Assumptions C13_enc_swap_rejected.

Theorem C13_dec_swap_rejected_index :
  forall q (Hc : list (zq q) -> zq q) (G X : zq q) (e d : pvshare q),
    sI d <> sI e -> verify_dec_share Hc G X e d = VIndex.
Proof. exact dec_swap_rejected_index. Qed.
Print Assumptions C13_dec_swap_rejected_index.

Theorem C13_dec_swap_rejected_key :
  forall q (Hq : prime q) (Hc : list (zq q) -> zq q) (G X X' : zq q) (e e' d : pvshare q),
    verify_dec_share Hc G X e d = VOk -> verify_dec_share Hc G X' e' d = VOk ->
    X' <> X -> pC (sP d) = zzero.
Proof. exact dec_swap_rejected_key. Qed.
Print Assumptions C13_dec_swap_rejected_key.

(* ---------------------------------------------------------------- the decrypted share and its challenge *)

(* REFUTED for the verifier before the repair ("only correct shares verify"
   was false): with the challenge computed over (X, xS, VG, VH) only, a trustee
   who picks the commitments first and solves for V' gets a wrong decrypted
   share accepted - for every hash function Hc *)
Theorem C13_dec_share_forgery_before_repair :
  forall q (Hq : prime q) (Hc : list (zq q) -> zq q) (x v W : zq q) (e : pvshare q),
    let X := smul x pbase in
    let c := Hc [X; sV e; smul v pbase; W] in
    let r := zsub v (zmul c x) in
    let V' := smul (zinv r) (psub W (smul c (sV e))) in
    let d := mkShare (sI e) V' (mkProof c r (smul v pbase) W) in
    x <> zzero -> r <> zzero ->
    verify_dec_share_unrepaired Hc pbase X e d = VOk /\
    (W <> smul v (smul (zinv x) (sV e)) -> V' <> smul (zinv x) (sV e)).
Proof. exact dec_share_forgery_before_repair. Qed.
Print Assumptions C13_dec_share_forgery_before_repair.

(* concrete instance (q = 251, x = 3, xS = 60, v = 100, W = 77): the forged
   share 158 <> 3^-1 * 60 = 20 (c = 98, r = 57) is accepted by the old verifier and rejected
   (challenge) by the repaired one *)
Example C13_dec_share_forgery_instance :
  let q := 251%Z in
  let f := of_Z q in
  let Hc := fun l : list (zq q) => fold_left (fun a b => zadd (zmul a (f 31%Z)) (zadd b (f 1%Z))) l (f 9%Z) in
  let e : pvshare q := mkShare 0%Z (f 60%Z) (mkProof zzero zzero zzero zzero) in
  let X := smul (f 3%Z) pbase in
  let c := Hc [X; sV e; smul (f 100%Z) pbase; f 77%Z] in
  let r := zsub (f 100%Z) (zmul c (f 3%Z)) in
  let V' := smul (zinv r) (psub (f 77%Z) (smul c (sV e))) in
  let d := mkShare 0%Z V' (mkProof c r (smul (f 100%Z) pbase) (f 77%Z)) in
  val (smul (zinv (f 3%Z)) (sV e)) = 20%Z /\ val V' <> 20%Z /\
  verify_dec_share_unrepaired Hc pbase X e d = VOk /\
  verify_dec_share Hc pbase X e d = VChallenge.
Proof. vm_compute. repeat split; discriminate. Qed.

(* repaired verifier: the accepted challenge is a hash of V itself *)
Theorem C13_dec_accepted_challenge_binds_V :
  forall q (Hc : list (zq q) -> zq q) (G X : zq q) (e d : pvshare q),
    verify_dec_share Hc G X e d = VOk ->
    pC (sP d) = Hc [X; sV e; sV d; pVG (sP d); pVH (sP d)].
Proof. exact dec_accepted_challenge_binds_V. Qed.
Print Assumptions C13_dec_accepted_challenge_binds_V.

(* "only correct shares verify", precisely: an accepted WRONG decrypted share
   (log_G X <> log_V xS) means that the hash of (X, xS, V, VG, VH) hit the one
   bad challenge c* determined by these very inputs *)
Theorem C13_dec_wrong_share_one_challenge :
  forall q (Hq : prime q) (Hc : list (zq q) -> zq q) (G X : zq q) (e d : pvshare q),
    verify_dec_share Hc G X e d = VOk ->
    zmul X (sV d) <> zmul (sV e) G ->
    Hc [X; sV e; sV d; pVG (sP d); pVH (sP d)] =
    zdiv (zsub (zmul (pVG (sP d)) (sV d)) (zmul (pVH (sP d)) G)) (zsub (zmul X (sV d)) (zmul (sV e) G)).
Proof. exact dec_wrong_share_one_challenge. Qed.
Print Assumptions C13_dec_wrong_share_one_challenge.

Theorem C13_dec_wrong_share_one_challenge_key :
  forall q (Hq : prime q) (Hc : list (zq q) -> zq q) (x : zq q) (e d : pvshare q),
    x <> zzero ->
    verify_dec_share Hc pbase (smul x pbase) e d = VOk ->
    sV d <> smul (zinv x) (sV e) ->
    Hc [smul x pbase; sV e; sV d; pVG (sP d); pVH (sP d)] =
    zdiv (zsub (zmul (pVG (sP d)) (sV d)) (zmul (pVH (sP d)) pbase))
         (zsub (zmul (smul x pbase) (sV d)) (zmul (sV e) pbase)).
Proof. exact dec_wrong_share_one_challenge_key. Qed.
Print Assumptions C13_dec_wrong_share_one_challenge_key.

(* special soundness (two hash oracles = rewinding): two accepted transcripts
   with the same (V, VG, VH) and different challenges force V = x^-1 xS *)
Theorem C13_dec_special_sound :
  forall q (Hq : prime q) (Hc Hc' : list (zq q) -> zq q) (x : zq q) (e d d' : pvshare q),
    x <> zzero ->
    verify_dec_share Hc pbase (smul x pbase) e d = VOk ->
    verify_dec_share Hc' pbase (smul x pbase) e d' = VOk ->
    sV d = sV d' -> pVG (sP d) = pVG (sP d') -> pVH (sP d) = pVH (sP d') ->
    pC (sP d) <> pC (sP d') ->
    sV d = smul (zinv x) (sV e).
Proof. exact dec_special_sound. Qed.
Print Assumptions C13_dec_special_sound.

(* ---------------------------------------------------------------- non-vacuity *)

(* q = 251, n = 3, t = 2, H = 7, keys 3, 5, 11, polynomial 42 + 17 x: the
   hypotheses of the honest-run theorems are satisfiable; shares 2 and 0 (in
   this order) recover 42 G *)
Example C13_nonvacuous :
  let q := 251%Z in
  let Hc := fun l : list (zq q) => fold_left (fun a b => zadd (zmul a (of_Z q 31)) (zadd b (of_Z q 1))) l (of_Z q 9) in
  let f := of_Z q in
  let xs := [f 3; f 5; f 11]%Z in
  let X := map (fun x => smul x pbase) xs in
  let d0 : pvshare q := mkShare 0%Z zzero (mkProof zzero zzero zzero zzero) in
  match enc_shares Hc (f 7%Z) X [f 42; f 17]%Z [f 100; f 101; f 102]%Z with
  | ROk (shares, cm) =>
      match global_challenge Hc 3 cm shares with
      | Some gc =>
          let dec := map (fun r => match dec_share Hc (f 7%Z) (smul (fst r) pbase) (sH_of q cm (snd r)) (fst r) gc (snd r) (f 77%Z) with
                                   | inr d => d | inl _ => snd r end) (combine xs shares) in
          verify_enc_share_batch Hc (f 7%Z) X (map (sH_of q cm) shares) cm shares = ROk (X, shares) /\
          verify_dec_share_batch Hc pbase X shares dec = Some dec /\
          match recover_secret Hc pbase [nth 2 X zzero; nth 0 X zzero] [nth 2 shares d0; nth 0 shares d0] [nth 2 dec d0; nth 0 dec d0] 2 with
          | ROk p => val p = 42%Z
          | _ => False
          end /\
          recover_secret Hc pbase [nth 1 X zzero] [nth 1 shares d0] [nth 1 dec d0] 2 = RErr E_TOO_FEW
      | None => False
      end
  | _ => False
  end.
Proof. vm_compute. repeat split. Qed.
