(* Property C10 - VSS (Pedersen and Rabin): certified deals are recoverable;
   inconsistent deals are never approved.  Only statements, each closed by
   [exact]; the proofs are in theories/VSS/VssProofs.v, the model in
   theories/VSS/VssSM.v.  [Hsid] (the session-id hash) is an arbitrary function,
   [var] ranges over {Pedersen, Rabin}, [hH] is Rabin's second base.  The
   predicates used in the statements are spelled out in VssProofs.v:
   [authentic], [consistent_deal], [fresh], [genuine] (= signed an approval for
   this session id | approved its own consistent deal | justified by a consistent
   deal of its index on the recorded commitments), [correct_justification],
   [signed_approval], [on_committed_poly]. *)
From Coq Require Import ZArith Znumtheory List Bool.
From Kyber Require Import Algebra.Zq Algebra.Grp Share.ShamirSM VSS.VssSM VSS.VssProofs VSS.VssHonest VSS.VssRun.
Import ListNotations.
Local Open Scope Z_scope.

(* share-vs-commitment, session, threshold and index checks: VerifyDeal accepts iff ... *)
Theorem C10_verify_deal_ok_iff :
  forall q Hsid var hH (a : agg q) (d : deal q) incl a',
    verify_deal q Hsid var hH a d incl = (a', VOk) <->
    (incl = true -> a_deal q a = None) /\
    d_sid q d = Hsid (a_dealer q a) (a_vs q a) (d_commits q d) (d_t q d) /\
    a' = record_deal q var a d /\
    (2 <= d_t q d <= nverif q (record_deal q var a d) /\
     (var = Pedersen -> d_t q d = a_t q (record_deal q var a d)) /\
     osid_eqb (a_sid q (record_deal q var a d)) (d_sid q d) = true /\
     (var = Rabin -> d_i q d = d_ri q d) /\
     d_i q d < nverif q (record_deal q var a d) /\
     on_committed_poly q var hH d).
Proof. exact verify_deal_ok_iff. Qed.
Print Assumptions C10_verify_deal_ok_iff.

(* a verifier never approves an inconsistent or unauthentic deal: it approves IFF
   the deal authenticates as the dealer's for this verifier, has this verifier's
   index, 2 <= T <= n, the session id that hashes its own content, a share on the
   committed polynomial, and is the first deal; every other outcome is a
   complaint or an error (the model's only other outputs of this call) *)
Theorem C10_never_approve_inconsistent :
  forall q Hsid var hH (v : vst q) (e : encdeal q),
    wf_v q v ->
    ((exists v' r, process_encrypted_deal q Hsid var hH v e = (v', OResp r) /\ r_appr q r = true) <->
     (exists d, authentic q v e /\ e_deal q e = Some d /\ consistent_deal q Hsid var hH v d /\ fresh q v /\ 0 <= v_idx q v)).
Proof. exact approve_iff. Qed.
Print Assumptions C10_never_approve_inconsistent.

(* certified => no invalid justification, valid threshold, t distinct verifiers
   genuinely approved or correctly justified - for EVERY history *)
Theorem C10_certified_sound_verifier :
  forall q Hsid var hH idx pub dealer vs (h : list (vop q)) (a : agg q),
    v_agg q (vrun q Hsid var hH (new_verifier q var idx pub dealer vs) h) = Some a ->
    deal_certified q var a = true ->
    a_bad q a = false /\ 2 <= a_t q a <= Z.of_nat (length vs) /\
    exists d0, a_deal q a = Some d0 /\ a_commits q a = d_commits q d0 /\ a_t q a = d_t q d0 /\
               a_sid q a = Some (d_sid q d0) /\ d_sid q d0 = Hsid dealer vs (d_commits q d0) (d_t q d0) /\
    exists l, NoDup l /\ a_t q a <= Z.of_nat (length l) /\
              forall i, In i l -> 0 <= i < Z.of_nat (length vs) /\
                                  genuine q Hsid var hH idx pub dealer vs h (d_commits q d0) (d_sid q d0) i.
Proof. exact certified_sound. Qed.
Print Assumptions C10_certified_sound_verifier.

Theorem C10_certified_sound_dealer :
  forall q Hsid var hH dealer vs t f g (h : list (dop q)),
    let s := drun q var (new_dealer q Hsid var hH dealer vs t f g) h in
    deal_certified q var (dl_agg q s) = true ->
    2 <= t <= Z.of_nat (length vs) /\
    secret_commit q var s = Some (smul (hd zzero f) pbase) /\
    exists l, NoDup l /\ t <= Z.of_nat (length l) /\
              forall i, In i l -> 0 <= i < Z.of_nat (length vs) /\
                exists r, In (DResp r) h /\ signed_approval q vs (Hsid dealer vs (dealer_commits q var hH f g) t) i r.
Proof. exact dealer_certified_sound. Qed.
Print Assumptions C10_certified_sound_dealer.

(* the certification predicate itself, on any aggregator state *)
Theorem C10_certified_counts :
  forall q var n (a : agg q),
    nverif q a = n -> keys_ok n (a_resps q a) -> deal_certified q var a = true ->
    a_bad q a = false /\ 2 <= a_t q a <= n /\
    exists l, NoDup l /\ a_t q a <= Z.of_nat (length l) /\
              forall i, In i l -> 0 <= i < n /\ lookup (a_resps q a) i = Some true.
Proof. intros q var n a. exact (certified_counts q (fun _ _ _ _ => []) var (@zzero q) n a). Qed.
Print Assumptions C10_certified_counts.

(* bad is forever, and a bad dealer's deal is never certified again *)
Theorem C10_bad_is_forever :
  forall q Hsid var hH (s : vst q) (h : list (vop q)),
    v_bad q s = true ->
    v_bad q (vrun q Hsid var hH s h) = true /\ v_certified q var (vrun q Hsid var hH s h) = false.
Proof. exact bad_forever_run. Qed.
Print Assumptions C10_bad_is_forever.

(* a correct justification clears the complaint (and nothing else); an incorrect
   one marks the dealer bad *)
Theorem C10_justification_spec :
  forall q Hsid var hH (a : agg q) (j : justification q),
    lookup (a_resps q a) (j_idx q j) = Some false -> j_idx q j < nverif q a ->
    let '(a', ok) := verify_justification q Hsid var hH a j in
    (ok = true <-> correct_justification q Hsid var hH a j) /\
    (ok = true -> lookup (a_resps q a') (j_idx q j) = Some true /\ a_bad q a' = a_bad q a /\
                  forall k, k <> j_idx q j -> lookup (a_resps q a') k = lookup (a_resps q a) k) /\
    (ok = false -> a_bad q a' = true).
Proof. exact justification_spec. Qed.
Print Assumptions C10_justification_spec.

(* approvals carrying the same session id are about the same commitments and
   threshold (collision freedom of the hash as an explicit premise) *)
Theorem C10_approval_binds_commitments :
  forall q (Hsid : zq q -> list (zq q) -> list (zq q) -> Z -> sidt) var hH (v1 v2 : vst q) e1 e2 v1' v2' r1 r2,
    (forall d vs c1 t1 c2 t2, Hsid d vs c1 t1 = Hsid d vs c2 t2 -> c1 = c2 /\ t1 = t2) ->
    wf_v q v1 -> wf_v q v2 -> v_dealer q v1 = v_dealer q v2 -> v_vs q v1 = v_vs q v2 ->
    process_encrypted_deal q Hsid var hH v1 e1 = (v1', OResp r1) -> r_appr q r1 = true ->
    process_encrypted_deal q Hsid var hH v2 e2 = (v2', OResp r2) -> r_appr q r2 = true ->
    exists d1 d2, e_deal q e1 = Some d1 /\ e_deal q e2 = Some d2 /\
                  r_sid q r1 = d_sid q d1 /\ r_sid q r2 = d_sid q d2 /\
                  (r_sid q r1 = r_sid q r2 -> d_commits q d1 = d_commits q d2 /\ d_t q d1 = d_t q d2).
Proof. exact approval_binds_commitments. Qed.
Print Assumptions C10_approval_binds_commitments.

(* honest run: every verifier approves the honest dealer's deal ... *)
Theorem C10_honest_verifier_approves :
  forall q (Hsid : zq q -> list (zq q) -> list (zq q) -> Z -> sidt) var hH, prime q ->
  forall (dealer : zq q) (vs : list (zq q)) t (f g : list (zq q)),
    2 <= t <= Z.of_nat (length vs) -> length f = Z.to_nat t -> (var = Rabin -> length g = length f) ->
    forall i, 0 <= i < Z.of_nat (length vs) ->
    exists v' r,
      process_encrypted_deal q Hsid var hH (new_verifier q var i (nth_pub q vs i) dealer vs)
                             (honest_enc q Hsid var hH dealer vs t f g i) = (v', OResp r) /\ r_appr q r = true.
Proof. exact honest_verifier_approves. Qed.
Print Assumptions C10_honest_verifier_approves.

(* ... any t (or more) of the n deals, in any order, recover exactly the dealer's
   secret (Lagrange recovery: theorem recover_secret_correct of C07) ... *)
Theorem C10_honest_recovery :
  forall q (Hsid : zq q -> list (zq q) -> list (zq q) -> Z -> sidt) var hH, prime q ->
  forall (dealer : zq q) (vs : list (zq q)) t (f g : list (zq q)),
    2 <= t <= Z.of_nat (length vs) -> length f = Z.to_nat t -> (var = Rabin -> length g = length f) ->
    forall idxs,
      Z.of_nat (length vs) < q - 1 -> Z.of_nat (length vs) < 4294967295 ->
      NoDup idxs -> (forall i, In i idxs -> 0 <= i < Z.of_nat (length vs)) -> t <= Z.of_nat (length idxs) ->
      recover q (map (dealer_deal q var hH (Hsid dealer vs (dealer_commits q var hH f g) t) f g t) idxs) t
      = Some (hd zzero f).
Proof. exact honest_recovery. Qed.
Print Assumptions C10_honest_recovery.

(* ... whose commitment is the one the dealer publishes (Pedersen: commitment 0;
   for both variants SecretCommit = secret*G, see C10_certified_sound_dealer) *)
Theorem C10_honest_secret_commitment :
  forall q var hH (vs : list (zq q)) t f g,
    2 <= t <= Z.of_nat (length vs) -> length f = Z.to_nat t -> (var = Rabin -> length g = length f) ->
    var = Pedersen -> hd zzero (dealer_commits q var hH f g) = smul (hd zzero f) pbase.
Proof. exact honest_secret_commitment. Qed.
Print Assumptions C10_honest_secret_commitment.

(* ---------------------------------------------------------------------------
   The honest run under EVERY order and multiplicity of the approvals
   (theories/VSS/VssHonest.v).  [happ k] is the approval verifier k signs for the
   honest dealer's deal; [ks] is an arbitrary list of verifier indices: every
   order, duplicates, the verifier's own approval echoed back or not.
   [clean_state n t S a]: in aggregator a exactly the verifiers of S are recorded
   as approvals, nobody complains, badDealer = false, threshold t. *)

(* ProcessEncryptedDeal of the honest deal is an approval and leaves this state *)
Theorem C10_honest_process :
  forall q (Hsid : zq q -> list (zq q) -> list (zq q) -> Z -> sidt) var hH, prime q ->
  forall (dealer : zq q) (vs : list (zq q)) t (f g : list (zq q)),
    2 <= t <= Z.of_nat (length vs) -> length f = Z.to_nat t -> (var = Rabin -> length g = length f) ->
    forall i, 0 <= i < Z.of_nat (length vs) ->
    process_encrypted_deal q Hsid var hH (new_verifier q var i (nth_pub q vs i) dealer vs)
                           (honest_enc q Hsid var hH dealer vs t f g i)
    = (with_agg q (new_verifier q var i (nth_pub q vs i) dealer vs) (hagg q Hsid var hH dealer vs t f g i),
       OResp (happ q Hsid var hH dealer vs t f g i)).
Proof. exact honest_process. Qed.
Print Assumptions C10_honest_process.

(* verifier i: after its deal and the approvals ks in any order / multiplicity,
   exactly the distinct verifiers S = {i} + ks are approvals, no complaint, and
   DealCertified <-> S is everybody;  DealCertified after SetTimeout <-> |S| >= t *)
Theorem C10_honest_verifier_certifies :
  forall q (Hsid : zq q -> list (zq q) -> list (zq q) -> Z -> sidt) var hH, prime q ->
  forall (dealer : zq q) (vs : list (zq q)) t (f g : list (zq q)),
    2 <= t <= Z.of_nat (length vs) -> length f = Z.to_nat t -> (var = Rabin -> length g = length f) ->
    Z.of_nat (length vs) < 4294967295 ->
    forall i ks, 0 <= i < Z.of_nat (length vs) -> (forall k, In k ks -> 0 <= k < Z.of_nat (length vs)) ->
    let v1 := fst (process_encrypted_deal q Hsid var hH (new_verifier q var i (nth_pub q vs i) dealer vs)
                                          (honest_enc q Hsid var hH dealer vs t f g i)) in
    let s := vrun q Hsid var hH v1 (map (fun k => VResp (happ q Hsid var hH dealer vs t f g k)) ks) in
    let S := nodup Z.eq_dec (i :: ks) in
    snd (process_encrypted_deal q Hsid var hH (new_verifier q var i (nth_pub q vs i) dealer vs)
                                (honest_enc q Hsid var hH dealer vs t f g i))
      = OResp (happ q Hsid var hH dealer vs t f g i) /\
    exists a, v_agg q s = Some a /\ clean_state q (Z.of_nat (length vs)) t S a /\
              a_deal q a = Some (dealer_deal q var hH (Hsid dealer vs (dealer_commits q var hH f g) t) f g t i) /\
              count_where q is_approved a = Z.of_nat (length S) /\
              count_where q is_complaint a = 0 /\
              (v_certified q var s = true <-> Z.of_nat (length S) = Z.of_nat (length vs)) /\
              (v_certified q var (fst (vstep q Hsid var hH s VTimeout)) = true <-> t <= Z.of_nat (length S)).
Proof. exact honest_verifier_certifies. Qed.
Print Assumptions C10_honest_verifier_certifies.

(* the dealer: the same, and SecretCommit = secret*G is released when certified *)
Theorem C10_honest_dealer_certifies :
  forall q (Hsid : zq q -> list (zq q) -> list (zq q) -> Z -> sidt) var hH
         (dealer : zq q) (vs : list (zq q)) t (f g : list (zq q)),
    2 <= t <= Z.of_nat (length vs) -> length f = Z.to_nat t -> (var = Rabin -> length g = length f) ->
    Z.of_nat (length vs) < 4294967295 ->
    forall ks, (forall k, In k ks -> 0 <= k < Z.of_nat (length vs)) ->
    let s := drun q var (new_dealer q Hsid var hH dealer vs t f g)
                  (map (fun k => DResp (happ q Hsid var hH dealer vs t f g k)) ks) in
    let S := nodup Z.eq_dec ks in
    clean_state q (Z.of_nat (length vs)) t S (dl_agg q s) /\
    count_where q is_approved (dl_agg q s) = Z.of_nat (length S) /\
    (deal_certified q var (dl_agg q s) = true <-> Z.of_nat (length S) = Z.of_nat (length vs)) /\
    (deal_certified q var (dl_agg q (fst (dstep q var s DTimeout))) = true <-> t <= Z.of_nat (length S)) /\
    (deal_certified q var (dl_agg q s) = true -> secret_commit q var s = Some (smul (hd zzero f) pbase)).
Proof. exact honest_dealer_certifies. Qed.
Print Assumptions C10_honest_dealer_certifies.

(* the time-out in the MIDDLE of the approvals.  Pedersen: a flag, later approvals
   still count.  Rabin: cleanVerifiers files complaints for the silent verifiers,
   later approvals are refused, only those before the time-out count. *)
Theorem C10_honest_timeout_middle_pedersen :
  forall q (Hsid : zq q -> list (zq q) -> list (zq q) -> Z -> sidt) var hH, prime q ->
  forall (dealer : zq q) (vs : list (zq q)) t (f g : list (zq q)),
    2 <= t <= Z.of_nat (length vs) -> length f = Z.to_nat t -> (var = Rabin -> length g = length f) ->
    Z.of_nat (length vs) < 4294967295 ->
    forall i ks1 ks2, var = Pedersen ->
    0 <= i < Z.of_nat (length vs) -> (forall k, In k (ks1 ++ ks2) -> 0 <= k < Z.of_nat (length vs)) ->
    let v1 := fst (process_encrypted_deal q Hsid var hH (new_verifier q var i (nth_pub q vs i) dealer vs)
                                          (honest_enc q Hsid var hH dealer vs t f g i)) in
    let s := vrun q Hsid var hH v1 (map (fun k => VResp (happ q Hsid var hH dealer vs t f g k)) ks1 ++ [VTimeout]
                                    ++ map (fun k => VResp (happ q Hsid var hH dealer vs t f g k)) ks2) in
    v_certified q var s = true <-> t <= Z.of_nat (length (nodup Z.eq_dec (i :: ks1 ++ ks2))).
Proof. exact honest_verifier_timeout_middle_pedersen. Qed.
Print Assumptions C10_honest_timeout_middle_pedersen.

Theorem C10_honest_timeout_middle_rabin :
  forall q (Hsid : zq q -> list (zq q) -> list (zq q) -> Z -> sidt) var hH, prime q ->
  forall (dealer : zq q) (vs : list (zq q)) t (f g : list (zq q)),
    2 <= t <= Z.of_nat (length vs) -> length f = Z.to_nat t -> (var = Rabin -> length g = length f) ->
    Z.of_nat (length vs) < 4294967295 ->
    forall i ks1 ks2, var = Rabin ->
    0 <= i < Z.of_nat (length vs) -> (forall k, In k (ks1 ++ ks2) -> 0 <= k < Z.of_nat (length vs)) ->
    let v1 := fst (process_encrypted_deal q Hsid var hH (new_verifier q var i (nth_pub q vs i) dealer vs)
                                          (honest_enc q Hsid var hH dealer vs t f g i)) in
    let s := vrun q Hsid var hH v1 (map (fun k => VResp (happ q Hsid var hH dealer vs t f g k)) ks1 ++ [VTimeout]
                                    ++ map (fun k => VResp (happ q Hsid var hH dealer vs t f g k)) ks2) in
    v_certified q var s = true <-> t <= Z.of_nat (length (nodup Z.eq_dec (i :: ks1))).
Proof. exact honest_verifier_timeout_middle_rabin. Qed.
Print Assumptions C10_honest_timeout_middle_rabin.

(* in the property's words: a certified honest deal is recoverable - when verifier i
   reports it certified (before or after its time-out) at least t verifiers hold
   deals, and any t or more of the deals the verifiers hold ([held_deal k] = the deal
   in verifier k's state after ProcessEncryptedDeal), in any order, reconstruct
   exactly the dealer's secret *)
Theorem C10_certified_honest_deal_recoverable :
  forall q (Hsid : zq q -> list (zq q) -> list (zq q) -> Z -> sidt) var hH, prime q ->
  forall (dealer : zq q) (vs : list (zq q)) t (f g : list (zq q)),
    2 <= t <= Z.of_nat (length vs) -> length f = Z.to_nat t -> (var = Rabin -> length g = length f) ->
    Z.of_nat (length vs) < 4294967295 ->
    forall i ks, Z.of_nat (length vs) < q - 1 ->
    0 <= i < Z.of_nat (length vs) -> (forall k, In k ks -> 0 <= k < Z.of_nat (length vs)) ->
    let v1 := fst (process_encrypted_deal q Hsid var hH (new_verifier q var i (nth_pub q vs i) dealer vs)
                                          (honest_enc q Hsid var hH dealer vs t f g i)) in
    let s := vrun q Hsid var hH v1 (map (fun k => VResp (happ q Hsid var hH dealer vs t f g k)) ks) in
    v_certified q var s = true \/ v_certified q var (fst (vstep q Hsid var hH s VTimeout)) = true ->
    t <= Z.of_nat (length (nodup Z.eq_dec (i :: ks))) /\
    forall idxs ds,
      NoDup idxs -> (forall k, In k idxs -> 0 <= k < Z.of_nat (length vs)) -> t <= Z.of_nat (length idxs) ->
      map (held_deal q Hsid var hH dealer vs t f g) idxs = map Some ds ->
      recover q ds t = Some (hd zzero f).
Proof. exact certified_honest_deal_recoverable. Qed.
Print Assumptions C10_certified_honest_deal_recoverable.

(* ... and when the dealer reports it certified, SecretCommit commits to exactly
   the secret any t deals reconstruct *)
Theorem C10_certified_dealer_secret_recoverable :
  forall q (Hsid : zq q -> list (zq q) -> list (zq q) -> Z -> sidt) var hH, prime q ->
  forall (dealer : zq q) (vs : list (zq q)) t (f g : list (zq q)),
    2 <= t <= Z.of_nat (length vs) -> length f = Z.to_nat t -> (var = Rabin -> length g = length f) ->
    Z.of_nat (length vs) < 4294967295 ->
    forall ks, Z.of_nat (length vs) < q - 1 -> (forall k, In k ks -> 0 <= k < Z.of_nat (length vs)) ->
    let s := drun q var (new_dealer q Hsid var hH dealer vs t f g)
                  (map (fun k => DResp (happ q Hsid var hH dealer vs t f g k)) ks) in
    deal_certified q var (dl_agg q s) = true \/ deal_certified q var (dl_agg q (fst (dstep q var s DTimeout))) = true ->
    t <= Z.of_nat (length (nodup Z.eq_dec ks)) /\
    forall idxs, NoDup idxs -> (forall k, In k idxs -> 0 <= k < Z.of_nat (length vs)) -> t <= Z.of_nat (length idxs) ->
      exists sec,
        recover q (map (dealer_deal q var hH (Hsid dealer vs (dealer_commits q var hH f g) t) f g t) idxs) t = Some sec /\
        sec = hd zzero f /\
        (deal_certified q var (dl_agg q s) = true -> secret_commit q var s = Some (smul sec pbase)).
Proof. exact certified_dealer_secret_recoverable. Qed.
Print Assumptions C10_certified_dealer_secret_recoverable.

(* DUAL: fewer than t distinct approving verifiers never certify the honest deal,
   in any order or multiplicity, before or after the time-out ... *)
Theorem C10_honest_few_never_certify :
  forall q (Hsid : zq q -> list (zq q) -> list (zq q) -> Z -> sidt) var hH, prime q ->
  forall (dealer : zq q) (vs : list (zq q)) t (f g : list (zq q)),
    2 <= t <= Z.of_nat (length vs) -> length f = Z.to_nat t -> (var = Rabin -> length g = length f) ->
    Z.of_nat (length vs) < 4294967295 ->
    forall i ks, 0 <= i < Z.of_nat (length vs) -> (forall k, In k ks -> 0 <= k < Z.of_nat (length vs)) ->
    Z.of_nat (length (nodup Z.eq_dec (i :: ks))) < t ->
    let v1 := fst (process_encrypted_deal q Hsid var hH (new_verifier q var i (nth_pub q vs i) dealer vs)
                                          (honest_enc q Hsid var hH dealer vs t f g i)) in
    let s := vrun q Hsid var hH v1 (map (fun k => VResp (happ q Hsid var hH dealer vs t f g k)) ks) in
    v_certified q var s = false /\ v_certified q var (fst (vstep q Hsid var hH s VTimeout)) = false.
Proof. exact honest_few_never_certify. Qed.
Print Assumptions C10_honest_few_never_certify.

(* ... and, for ARBITRARY deals and responses (genuine, forged, duplicated, any
   order) and time-outs anywhere, as long as no justification is processed:
   certified implies that the threshold of the held deal is at most the number of
   distinct indices that responded (the verifier itself included); the dealer
   likewise with its own t *)
Theorem C10_few_never_certify_verifier :
  forall q (Hsid : zq q -> list (zq q) -> list (zq q) -> Z -> sidt) var hH idx pub dealer vs
         (h : list (vop q)) (a : agg q),
    (forall j, ~ In (VJust j) h) ->
    v_agg q (vrun q Hsid var hH (new_verifier q var idx pub dealer vs) h) = Some a ->
    deal_certified q var a = true ->
    a_t q a <= Z.of_nat (length (nodup Z.eq_dec (idx :: resp_idxs q h))).
Proof. exact few_never_certify_verifier. Qed.
Print Assumptions C10_few_never_certify_verifier.

Theorem C10_few_never_certify_dealer :
  forall q (Hsid : zq q -> list (zq q) -> list (zq q) -> Z -> sidt) var hH dealer vs t f g (h : list (dop q)),
    deal_certified q var (dl_agg q (drun q var (new_dealer q Hsid var hH dealer vs t f g) h)) = true ->
    t <= Z.of_nat (length (nodup Z.eq_dec (dresp_idxs q h))).
Proof. exact few_never_certify_dealer. Qed.
Print Assumptions C10_few_never_certify_dealer.

(* the certification predicate on a state in which exactly S approved *)
Theorem C10_clean_state_certified :
  forall q var n t S (a : agg q),
    clean_state q n t S a -> 2 <= t <= n -> n < 4294967296 ->
    (deal_certified q var a = true <->
     match var with
     | Pedersen => if a_timeout q a then t <= Z.of_nat (length S) else Z.of_nat (length S) = n
     | Rabin => Z.of_nat (length S) = n
     end) /\
    (deal_certified q var (set_timeout q var a) = true <-> t <= Z.of_nat (length S)).
Proof.
  intros q var n t S a C T N. split.
  - exact (clean_state_certified q (fun _ _ _ _ => []) var (@zzero q) n t S a C T N).
  - exact (clean_state_timeout_certified q (fun _ _ _ _ => []) var (@zzero q) n t S a C T N).
Qed.
Print Assumptions C10_clean_state_certified.

(* non-vacuity: a concrete Pedersen run over the order-(2^61-1) group, n = 3,
   t = 2, f = 5 + 7x: the three verifiers approve, the dealer and verifier 0
   certify after the approvals arrive in the order 2,0,1 / 2,1, two deals recover
   the secret 5, and a justification revealing another verifier's deal marks the
   dealer bad *)
Example C10_nonvacuous :
  let Hs := Hsid_enc in
  let vs := map fz [11; 12; 13] in
  let D := new_dealer Q Hs Pedersen (fz 0) (fz 9) vs 2 (map fz [5; 7]) [] in
  let enc i := honest_enc Q Hs Pedersen (fz 0) (fz 9) vs 2 (map fz [5; 7]) [] i in
  let run i := process_encrypted_deal Q Hs Pedersen (fz 0) (new_verifier Q Pedersen i (nth_pub Q vs i) (fz 9) vs) (enc i) in
  let resp i := match snd (run i) with OResp r => r | _ => mkResp [] 0 false SigJunk end in
  let v0 := vrun Q Hs Pedersen (fz 0) (fst (run 0)) [VResp (resp 2); VResp (resp 1)] in
  let bad := vrun Q Hs Pedersen (fz 0) (fst (run 0))
               [VResp (mkResp (r_sid Q (resp 1)) 1 false (SigBy (fz 12) (r_sid Q (resp 1)) 1 false));
                VJust (mkJust 1 (nth_error (dl_deals Q D) 2))] in
  map (fun i => r_appr Q (resp i)) [0; 1; 2] = [true; true; true] /\
  v_certified Q Pedersen v0 = true /\
  deal_certified Q Pedersen (dl_agg Q (drun Q Pedersen D [DResp (resp 2); DResp (resp 0); DResp (resp 1)])) = true /\
  option_map (@val Q) (recover Q [nth 2 (dl_deals Q D) (wdeal [] 0 0 0 0 0 []); nth 0 (dl_deals Q D) (wdeal [] 0 0 0 0 0 [])] 2) = Some 5 /\
  v_bad Q bad = true /\ v_certified Q Pedersen bad = false.
Proof. vm_compute. repeat split. Qed.

(* non-vacuity of the honest-run theorems: Rabin, n = 4, t = 3, f = 5 + 7x + 2x^2,
   g = 1 + 3x + 4x^2, H = 6*G.  Verifier 1 receives the approvals in the order
   3, 1 (its own, echoed), 3 (duplicate), 0: three distinct approvers {1,3,0}:
   not certified yet (verifier 2 is silent), certified after the time-out; with
   only 3, 3, 1 (two distinct) it is not certified even after the time-out; the
   dealer, given 2, 0, 2, 3, 1, certifies at once and releases secret*G = 5;
   the deals held by verifiers 3, 0, 1 recover 5. *)
Example C10_honest_nonvacuous :
  let Hs := Hsid_enc in
  let vs := map fz [11; 12; 13; 14] in
  let f := map fz [5; 7; 2] in
  let g := map fz [1; 3; 4] in
  let ha := happ Q Hs Rabin (fz 6) (fz 9) vs 3 f g in
  let v1 := fst (process_encrypted_deal Q Hs Rabin (fz 6) (new_verifier Q Rabin 1 (nth_pub Q vs 1) (fz 9) vs)
                                        (honest_enc Q Hs Rabin (fz 6) (fz 9) vs 3 f g 1)) in
  let s := vrun Q Hs Rabin (fz 6) v1 (map (fun k => VResp (ha k)) [3; 1; 3; 0]) in
  let s2 := vrun Q Hs Rabin (fz 6) v1 (map (fun k => VResp (ha k)) [3; 3; 1]) in
  let D := drun Q Rabin (new_dealer Q Hs Rabin (fz 6) (fz 9) vs 3 f g) (map (fun k => DResp (ha k)) [2; 0; 2; 3; 1]) in
  v_certified Q Rabin s = false /\
  v_certified Q Rabin (fst (vstep Q Hs Rabin (fz 6) s VTimeout)) = true /\
  v_certified Q Rabin (fst (vstep Q Hs Rabin (fz 6) s2 VTimeout)) = false /\
  deal_certified Q Rabin (dl_agg Q D) = true /\
  option_map (@val Q) (secret_commit Q Rabin D) = Some 5 /\
  map (fun k => match held_deal Q Hs Rabin (fz 6) (fz 9) vs 3 f g k with Some d => d_i Q d | None => -1 end) [3; 0; 1] = [3; 0; 1] /\
  option_map (@val Q)
    (recover Q (flat_map (fun k => match held_deal Q Hs Rabin (fz 6) (fz 9) vs 3 f g k with Some d => [d] | None => [] end) [3; 0; 1]) 3)
    = Some 5.
Proof. vm_compute. repeat split. Qed.

