(* Property C06 - pairings are bilinear, non-degenerate and consistent with
   ValidatePairing. Statements only; proofs in theories/Group/Laws.v. *)
From Coq Require Import ZArith List.
From Kyber Require Import Algebra.Zq Algebra.Grp Group.Laws.
Local Open Scope Z_scope.

Theorem C06_pairing_laws : forall q (P P' Q Q' a b : zq q),
    pair (smul a P) (smul b Q) = smul (zmul a b) (pair P Q) /\
    pair (padd P P') Q = padd (pair P Q) (pair P' Q) /\
    pair P (padd Q Q') = padd (pair P Q) (pair P Q') /\
    pair pzero Q = pzero /\ pair P pzero = pzero.
Proof. exact pairing_laws. Qed.
Print Assumptions C06_pairing_laws.

Theorem C06_nondegenerate : forall q, 1 < q -> pair (pbase : zq q) pbase <> pzero.
Proof. exact pair_nondegenerate. Qed.
Print Assumptions C06_nondegenerate.

(* the four coded formulations of ValidatePairing all decide Pair(p1,p2) = Pair(i1,i2) *)
Theorem C06_validate_iff : forall q (p1 p2 i1 i2 : zq q),
    (validate_two q p1 p2 i1 i2 = true <-> pair p1 p2 = pair i1 i2) /\
    validate_prod_inv q p1 p2 i1 i2 = validate_two q p1 p2 i1 i2 /\
    validate_neg_g1 q p1 p2 i1 i2 = validate_two q p1 p2 i1 i2 /\
    validate_frac q p1 p2 i1 i2 = validate_two q p1 p2 i1 i2.
Proof. exact validate_iff. Qed.
Print Assumptions C06_validate_iff.

Example C06_nonvacuous :
  val (pair (smul (of_Z 251 7) (of_Z 251 3)) (smul (of_Z 251 11) (of_Z 251 5))) = (7 * 11 * (3 * 5)) mod 251 /\
  validate_two 251 (of_Z 251 6) (of_Z 251 5) (of_Z 251 3) (of_Z 251 10) = true /\
  validate_two 251 (of_Z 251 6) (of_Z 251 5) (of_Z 251 3) (of_Z 251 11) = false.
Proof. vm_compute. repeat split. Qed.
