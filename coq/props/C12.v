(* Property C12 - threshold Schnorr (sign/dss): any t valid partial signatures,
   collected at any participant in any order, combine into one ordinary Schnorr /
   EdDSA signature under the distributed key, the same at every participant;
   invalid, forged, cross-session, duplicate and out-of-range partials are
   rejected and never contribute; no signature from fewer than t partials.

   Only statements, each closed by [exact]; the proofs are in
   theories/DSS/DSSProofs.v, the model in theories/DSS/DSSSM.v (it uses the
   models of share.RecoverSecret, property C07, and of sign/schnorr, property
   C08).  Everything is quantified over: the prime group order q, the point and
   scalar codecs ([codec_ok]: fixed lengths, decode inverts encode), the two hash
   functions Hc (SHA-512 into the scalar field) and Hs (suite hash), the
   participants' keys [parts], the threshold T, the two secret polynomials
   [apoly], [rpoly] the DKGs shared ([session_ok]: 1 <= T, T coefficients each,
   fewer participants than q and 2^32), the message, and ALL histories [ops] of
   a DSS instance (own PartialSig() calls and received partial signatures of any
   content, in any order).  [wf c]: c is the DSS of a participant of that
   session holding its DKG shares.  [delivered c ops j]: signer j's valid partial
   occurs in the history (received, or j is the instance itself and signs). *)
From Coq Require Import ZArith Znumtheory List Bool.
From Kyber Require Import Algebra.Zq Algebra.Grp Share.ShamirSM Sig.Schnorr
                          DSS.DSSSM DSS.DSSProofs DSS.DSSExample.
Import ListNotations.
Local Open Scope Z_scope.

(* (1) any T or more valid partials, any order, any participant, any junk in
   between: Signature() = the Schnorr signature of msg under the shared secret *)
Theorem C12_any_t_partials_any_order_any_participant :
  forall q, prime q -> forall plen slen penc pdec senc sdec Hc Hs, codec_ok q plen slen penc pdec senc sdec ->
  forall parts T apoly rpoly msg, session_ok q parts T apoly rpoly ->
  forall (c : config q) (ops : list (op q)) (S : list Z),
    wf q parts T apoly rpoly msg c -> NoDup S -> (T <= length S)%nat ->
    (forall j, In j S -> delivered q penc senc Hc Hs parts T apoly rpoly msg c ops j) ->
    signature q penc senc c (run q plen slen penc pdec senc sdec Hc Hs c init_state ops)
      = Some (the_signature q penc senc Hc apoly rpoly msg).
Proof. exact closed_any_t. Qed.
Print Assumptions C12_any_t_partials_any_order_any_participant.

(* (2) every participant derives the same signature *)
Theorem C12_all_participants_agree :
  forall q, prime q -> forall plen slen penc pdec senc sdec Hc Hs, codec_ok q plen slen penc pdec senc sdec ->
  forall parts T apoly rpoly msg, session_ok q parts T apoly rpoly ->
  forall (c1 c2 : config q) (ops1 ops2 : list (op q)) (S1 S2 : list Z),
    wf q parts T apoly rpoly msg c1 -> wf q parts T apoly rpoly msg c2 ->
    NoDup S1 -> NoDup S2 -> (T <= length S1)%nat -> (T <= length S2)%nat ->
    (forall j, In j S1 -> delivered q penc senc Hc Hs parts T apoly rpoly msg c1 ops1 j) ->
    (forall j, In j S2 -> delivered q penc senc Hc Hs parts T apoly rpoly msg c2 ops2 j) ->
    signature q penc senc c1 (run q plen slen penc pdec senc sdec Hc Hs c1 init_state ops1) =
    signature q penc senc c2 (run q plen slen penc pdec senc sdec Hc Hs c2 init_state ops2) /\
    signature q penc senc c1 (run q plen slen penc pdec senc sdec Hc Hs c1 init_state ops1) <> None.
Proof. exact closed_agree. Qed.
Print Assumptions C12_all_participants_agree.

(* (3) that signature is accepted by sign/schnorr's Verify (the model of C08)
   under the distributed public key A = a*B; it is enc(R) || enc(r + h*a) and
   satisfies s*B = R + H(R||A||msg)*A *)
Theorem C12_signature_is_an_ordinary_schnorr_signature :
  forall q, prime q -> forall plen slen penc pdec senc sdec Hc, codec_ok q plen slen penc pdec senc sdec ->
  forall parts T apoly rpoly msg, session_ok q parts T apoly rpoly ->
    schnorr_verify_point q plen slen penc pdec sdec Hc (Apub q apoly) msg
                         (the_signature q penc senc Hc apoly rpoly msg) = SOk /\
    the_signature q penc senc Hc apoly rpoly msg =
      penc (Rpub q rpoly) ++ senc (zadd (r0 q rpoly) (zmul (a0 q apoly) (hmsg q penc Hc apoly rpoly msg))) /\
    smul (zadd (r0 q rpoly) (zmul (a0 q apoly) (hmsg q penc Hc apoly rpoly msg))) pbase =
      padd (Rpub q rpoly) (smul (hmsg q penc Hc apoly rpoly msg) (Apub q apoly)).
Proof. exact closed_is_schnorr. Qed.
Print Assumptions C12_signature_is_an_ordinary_schnorr_signature.

(* (4) ProcessPartialSig accepts exactly when all five checks pass; an accepted
   partial is appended, a rejected one changes nothing (any config, any state) *)
Theorem C12_process_accepts_iff_all_checks_pass :
  forall q plen slen penc pdec senc sdec Hc Hs (c : config q) (st : state q) (ps : psig q),
    (accepts q plen slen penc pdec senc sdec Hc Hs c st ps ->
       process q plen slen penc pdec senc sdec Hc Hs c st ps = (stored q st ps, VOk)) /\
    (~ accepts q plen slen penc pdec senc sdec Hc Hs c st ps ->
       fst (process q plen slen penc pdec senc sdec Hc Hs c st ps) = st /\
       snd (process q plen slen penc pdec senc sdec Hc Hs c st ps) <> VOk).
Proof. exact process_spec. Qed.
Print Assumptions C12_process_accepts_iff_all_checks_pass.

(* (5) the error class names the first failing check *)
Theorem C12_error_classes :
  forall q plen slen penc pdec senc sdec Hc Hs (c : config q) (st : state q) (ps : psig q),
    let i := ps_i ps in
    let v := snd (process q plen slen penc pdec senc sdec Hc Hs c st ps) in
    (v = VIndex <-> ~ (0 <= i < Z.of_nat (length (c_parts c)))) /\
    (v = VDup -> In i (pidx st)) /\
    (v = VSid -> ps_sid ps <> session_id q penc Hs c) /\
    (v = VInvalid -> pub_check q penc Hc c i (ps_v ps) = false) /\
    (v = VAuth -> schnorr_verify_point q plen slen penc pdec sdec Hc
                    (nth (Z.to_nat i) (c_parts c) pzero) (ps_hash q senc Hs ps) (ps_sig ps) <> SOk).
Proof. exact process_classes. Qed.
Print Assumptions C12_error_classes.

(* (6) out-of-range index (n, 2^32-1, ...): ErrInvalidSignatureIndex, nothing stored *)
Theorem C12_out_of_range_index_rejected :
  forall q plen slen penc pdec senc sdec Hc Hs (c : config q) (st : state q) (ps : psig q),
    ~ (0 <= ps_i ps < Z.of_nat (length (c_parts c))) ->
    process q plen slen penc pdec senc sdec Hc Hs c st ps = (st, VIndex).
Proof. exact reject_out_of_range. Qed.
Print Assumptions C12_out_of_range_index_rejected.

(* (7) a partial whose Schnorr signature does not verify under the key of the
   claimed signer is rejected ... *)
Theorem C12_unauthenticated_partial_rejected :
  forall q plen slen penc pdec senc sdec Hc Hs (c : config q) (st : state q) (ps : psig q),
    schnorr_verify_point q plen slen penc pdec sdec Hc (nth (Z.to_nat (ps_i ps)) (c_parts c) pzero)
                         (ps_hash q senc Hs ps) (ps_sig ps) <> SOk ->
    fst (process q plen slen penc pdec senc sdec Hc Hs c st ps) = st /\
    snd (process q plen slen penc pdec senc sdec Hc Hs c st ps) <> VOk.
Proof. exact reject_unauthenticated. Qed.
Print Assumptions C12_unauthenticated_partial_rejected.

(* ... in particular one re-signed with another key x', unless the two Schnorr
   challenges coincide (explicit hash-coincidence premise) *)
Theorem C12_partial_resigned_by_other_key_rejected :
  forall q, prime q -> forall plen slen penc pdec senc sdec Hc Hs, codec_ok q plen slen penc pdec senc sdec ->
  forall (c : config q) (st : state q) (ps : psig q) (x' k : zq q),
    let pub := nth (Z.to_nat (ps_i ps)) (c_parts c) pzero in
    ps_sig ps = schnorr_sign q penc senc Hc x' k (ps_hash q senc Hs ps) ->
    zmul (challenge q penc Hc (smul k pbase) pub (ps_hash q senc Hs ps)) pub <>
    zmul (challenge q penc Hc (smul k pbase) (smul x' pbase) (ps_hash q senc Hs ps)) (smul x' pbase) ->
    fst (process q plen slen penc pdec senc sdec Hc Hs c st ps) = st /\
    snd (process q plen slen penc pdec senc sdec Hc Hs c st ps) <> VOk.
Proof.
  intros q Hq plen slen penc pdec senc sdec Hc Hs [C1 [C2 [C3 C4]]].
  exact (resigned_rejected q Hq plen slen penc pdec senc sdec Hc Hs C1 C2 C3 C4).
Qed.
Print Assumptions C12_partial_resigned_by_other_key_rejected.

(* (8) a partial of another session (different session id) is rejected *)
Theorem C12_other_session_rejected :
  forall q plen slen penc pdec senc sdec Hc Hs (c : config q) (st : state q) (ps : psig q),
    ps_sid ps <> session_id q penc Hs c ->
    fst (process q plen slen penc pdec senc sdec Hc Hs c st ps) = st /\
    snd (process q plen slen penc pdec senc sdec Hc Hs c st ps) <> VOk.
Proof. exact reject_other_session. Qed.
Print Assumptions C12_other_session_rejected.

(* (9) a second partial for an index already recorded is rejected *)
Theorem C12_duplicate_rejected :
  forall q plen slen penc pdec senc sdec Hc Hs (c : config q) (st : state q) (ps : psig q),
    In (ps_i ps) (pidx st) ->
    fst (process q plen slen penc pdec senc sdec Hc Hs c st ps) = st /\
    snd (process q plen slen penc pdec senc sdec Hc Hs c st ps) <> VOk.
Proof. exact reject_duplicate. Qed.
Print Assumptions C12_duplicate_rejected.

(* (10) a forged response - any value other than r(i+1) + h*a(i+1) - is rejected,
   whoever signed it and whatever else the message says *)
Theorem C12_forged_value_rejected :
  forall q, prime q -> forall plen slen penc pdec senc sdec Hc Hs, codec_ok q plen slen penc pdec senc sdec ->
  forall parts T apoly rpoly msg, session_ok q parts T apoly rpoly ->
  forall (c : config q) (st : state q) (ps : psig q),
    wf q parts T apoly rpoly msg c ->
    ps_v ps <> peval (spoly q penc Hc apoly rpoly msg) (xeval q (ps_i ps)) ->
    fst (process q plen slen penc pdec senc sdec Hc Hs c st ps) = st /\
    snd (process q plen slen penc pdec senc sdec Hc Hs c st ps) <> VOk.
Proof. exact closed_reject_forged_value. Qed.
Print Assumptions C12_forged_value_rejected.

(* (11) a valid partial of the session is accepted at every participant in
   every state - or reported as duplicate when its index is already recorded *)
Theorem C12_valid_partial_accepted :
  forall q, prime q -> forall plen slen penc pdec senc sdec Hc Hs, codec_ok q plen slen penc pdec senc sdec ->
  forall parts T apoly rpoly msg, session_ok q parts T apoly rpoly ->
  forall (c : config q) (st : state q) (j : Z) (ps : psig q),
    wf q parts T apoly rpoly msg c ->
    honest_ps q penc senc Hc Hs parts T apoly rpoly msg j ps ->
    ps_i ps = j /\
    process q plen slen penc pdec senc sdec Hc Hs c st ps =
      if existsb (Z.eqb j) (pidx st) then (st, VDup) else (stored q st ps, VOk).
Proof. exact closed_honest_accepted. Qed.
Print Assumptions C12_valid_partial_accepted.

(* (12) invariant of all histories: every stored partial is valid (index of a
   participant, value on r + h*a), the index set is exactly the stored indices,
   and everything stored is the own partial or arrived in a received message *)
Theorem C12_history_invariant :
  forall q, prime q -> forall plen slen penc pdec senc sdec Hc Hs, codec_ok q plen slen penc pdec senc sdec ->
  forall parts T apoly rpoly msg, session_ok q parts T apoly rpoly ->
  forall (c : config q) (ops : list (op q)),
    wf q parts T apoly rpoly msg c ->
    let st := run q plen slen penc pdec senc sdec Hc Hs c init_state ops in
    Forall (valid_p q penc Hc parts apoly rpoly msg) (partials st) /\
    (forall i, In i (pidx st) <-> In i (map fst (partials st))) /\
    (forall p, In p (partials st) ->
       p = own_partial q penc Hc c \/ exists ps, In (ORecv ps) ops /\ p = (ps_i ps, ps_v ps)).
Proof. exact closed_invariant. Qed.
Print Assumptions C12_history_invariant.

(* (13) no signature from fewer than T distinct stored partials: in EVERY state
   of EVERY instance (no hypothesis at all) ... *)
Theorem C12_no_signature_below_t :
  forall q penc senc (c : config q) (st : state q),
    (distinct_stored q st < c_T c)%nat -> signature q penc senc c st = None.
Proof. exact signature_below_t. Qed.
Print Assumptions C12_no_signature_below_t.

(* ... and over histories: a signature that IS produced is THE signature and is
   backed by T pairwise distinct signers, each with a VALID partial that is the
   own one or was received *)
Theorem C12_signature_needs_t_valid_partials :
  forall q, prime q -> forall plen slen penc pdec senc sdec Hc Hs, codec_ok q plen slen penc pdec senc sdec ->
  forall parts T apoly rpoly msg, session_ok q parts T apoly rpoly ->
  forall (c : config q) (ops : list (op q)) (sig : list Z),
    wf q parts T apoly rpoly msg c ->
    signature q penc senc c (run q plen slen penc pdec senc sdec Hc Hs c init_state ops) = Some sig ->
    sig = the_signature q penc senc Hc apoly rpoly msg /\
    exists S : list Z, NoDup S /\ (T <= length S)%nat /\
      forall i, In i S -> exists v, valid_p q penc Hc parts apoly rpoly msg (i, v) /\
        ((i, v) = own_partial q penc Hc c \/ exists ps, In (ORecv ps) ops /\ ps_i ps = i /\ ps_v ps = v).
Proof. exact closed_signature_needs_t. Qed.
Print Assumptions C12_signature_needs_t_valid_partials.

(* (14) EnoughPartialSig(): when the own partial never arrives from the network
   the stored indices are pairwise distinct and EnoughPartialSig() = true exactly
   when Signature() succeeds ... *)
Theorem C12_enough_iff_signature :
  forall q, prime q -> forall plen slen penc pdec senc sdec Hc Hs, codec_ok q plen slen penc pdec senc sdec ->
  forall parts T apoly rpoly msg, session_ok q parts T apoly rpoly ->
  forall (c : config q) (ops : list (op q)),
    wf q parts T apoly rpoly msg c ->
    (forall ps, In (ORecv ps) ops -> ps_i ps <> c_idx c) ->
    let st := run q plen slen penc pdec senc sdec Hc Hs c init_state ops in
    NoDup (map fst (partials st)) /\
    (enough c st = true <-> signature q penc senc c st = Some (the_signature q penc senc Hc apoly rpoly msg)).
Proof. exact closed_enough_iff_signature. Qed.
Print Assumptions C12_enough_iff_signature.

(* ... OBSERVATION (quirk of dss.go, not a violation): when the own valid partial
   is received from the network before PartialSig() is called it is stored
   twice and EnoughPartialSig() counts it twice - Signature() still refuses *)
Theorem C12_enough_counts_own_partial_twice :
  forall q, prime q -> forall plen slen penc pdec senc sdec Hc Hs, codec_ok q plen slen penc pdec senc sdec ->
  forall parts T apoly rpoly msg, session_ok q parts T apoly rpoly ->
  forall (c : config q) (k : zq q) (ps : psig q),
    wf q parts T apoly rpoly msg c -> T = 2%nat ->
    honest_ps q penc senc Hc Hs parts T apoly rpoly msg (c_idx c) ps ->
    let st := run q plen slen penc pdec senc sdec Hc Hs c init_state [ORecv ps; OSign k] in
    partials st = [own_partial q penc Hc c; own_partial q penc Hc c] /\
    enough c st = true /\ signature q penc senc c st = None.
Proof. exact closed_enough_double_count. Qed.
Print Assumptions C12_enough_counts_own_partial_twice.

(* non-vacuity: q = 251, 3 participants, T = 2, a = 5 + 7x, r = 11 + 13x; all
   hypotheses hold; participant 1 sees [forged; valid 2; duplicate 2; valid 0],
   participant 0 signs and sees [valid 2]; both obtain the signature [11; 137] *)
Example C12_nonvacuous :
  prime xq /\ codec_ok xq 1 1 xpenc xdec xpenc xdec /\ session_ok xq xparts 2 xapoly xrpoly /\
  wf xq xparts 2 xapoly xrpoly xmsg (xcfg 0) /\ wf xq xparts 2 xapoly xrpoly xmsg (xcfg 1) /\
  (forall j, In j [2; 0] -> delivered xq xpenc xpenc xHc xHs xparts 2 xapoly xrpoly xmsg (xcfg 1) xops1 j) /\
  (forall j, In j [0; 2] -> delivered xq xpenc xpenc xHc xHs xparts 2 xapoly xrpoly xmsg (xcfg 0) xops0 j) /\
  map (fun r => snd (fst r)) (run_obs xq 1 1 xpenc xdec xpenc xdec xHc xHs (xcfg 1) init_state xops1)
    = [false; false; false; true] /\
  map (fun r => match fst (fst r) with BRecv v => v | BSign _ => VOk end)
      (run_obs xq 1 1 xpenc xdec xpenc xdec xHc xHs (xcfg 1) init_state xops1)
    = [VInvalid; VOk; VDup; VOk] /\
  signature xq xpenc xpenc (xcfg 1) (run xq 1 1 xpenc xdec xpenc xdec xHc xHs (xcfg 1) init_state xops1)
    = Some (the_signature xq xpenc xpenc xHc xapoly xrpoly xmsg) /\
  signature xq xpenc xpenc (xcfg 0) (run xq 1 1 xpenc xdec xpenc xdec xHc xHs (xcfg 0) init_state xops0)
    = Some (the_signature xq xpenc xpenc xHc xapoly xrpoly xmsg) /\
  the_signature xq xpenc xpenc xHc xapoly xrpoly xmsg = [11; 137].
Proof. exact example_instance. Qed.
