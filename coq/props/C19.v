(* Property C19 - XOFs and random streams are deterministic, chunk-independent
   and range-exact.  Only statements, each closed by [exact]; the proofs are in
   theories/Xof/XofProofs.v.  [out] / [sha256] are arbitrary functions: the
   theorems hold for every primitive. *)
From Coq Require Import ZArith List Bool.
From Kyber Require Import Xof.XofSM Xof.XofProofs.
Import ListNotations.

Theorem C19_read_chunk_independent :
  forall out x c1 c2, sum c1 = sum c2 ->
    snd (read_chunks out x c1) = snd (read_chunks out x c2) /\
    (c1 <> [] -> c2 <> [] -> fst (read_chunks out x c1) = fst (read_chunks out x c2)).
Proof. exact read_chunk_independent. Qed.
Print Assumptions C19_read_chunk_independent.

Theorem C19_xor_is_read :
  forall out x dl src x' res, xxor out x dl src = Some (x', res) ->
    x' = fst (xread out x (length src)) /\ res = xor_bytes src (snd (xread out x (length src))).
Proof. exact xor_is_read. Qed.
Print Assumptions C19_xor_is_read.

Theorem C19_clone_bisim :
  forall out ops x, forallb no_reset ops = true ->
    snd (srun out x ops) = snd (srun out (xclone x) ops).
Proof. exact clone_bisim. Qed.
Print Assumptions C19_clone_bisim.

Theorem C19_reseed_writable : forall out x bs, xwrite (xreseed out x) bs <> None.
Proof. exact reseed_writable. Qed.
Print Assumptions C19_reseed_writable.

Theorem C19_reset_initial :
  forall out k seed ops, xreset (fst (srun out (xnew k seed) ops)) = xnew k seed.
Proof. exact reset_initial. Qed.
Print Assumptions C19_reset_initial.

Theorem C19_bits_spec :
  forall bitlen exact s b rest,
    (0 <= bitlen)%Z -> Forall is_byte s -> bits bitlen exact s = Some (b, rest) ->
    let n := Z.to_nat ((bitlen + 7) / 8) in
    length b = n /\ s = firstn n s ++ rest /\
    (0 <= be_decode b < 2 ^ bitlen)%Z /\
    (exact = true -> (1 <= bitlen)%Z -> (2 ^ (bitlen - 1) <= be_decode b)%Z) /\
    (exact = false -> skipn 1 b = skipn 1 (firstn n s)) /\
    (forall s2, firstn n s2 = firstn n s -> (n <= length s2)%nat ->
                exists rest2, bits bitlen exact s2 = Some (b, rest2)).
Proof. exact bits_spec. Qed.
Print Assumptions C19_bits_spec.

Theorem C19_rand_int_spec :
  forall fuel m s v rest,
    (1 <= m)%Z -> Forall is_byte s -> rand_int fuel m s = Some (v, rest) ->
    (0 <= v < m)%Z /\
    exists k : nat,
      (forall j, (j < k)%nat -> exists c, cand m s j = Some c /\ (m <= c)%Z) /\
      cand m s k = Some v /\
      rest = skipn ((k + 1) * Z.to_nat ((bitlen_of m + 7) / 8)) s.
Proof. exact rand_int_spec. Qed.
Print Assumptions C19_rand_int_spec.

Theorem C19_randstream_spec :
  forall sha256 out readers src,
    (rs_xor sha256 out readers src = None <-> forall r, In r readers -> (length r < 32)%nat) /\
    (forall res rest, rs_xor sha256 out readers src = Some (res, rest) ->
       res = xor_bytes src (stream out (xnew Blake2b (sha256 (consumed readers))) 0 (length src)) /\
       rest = map (skipn 32) readers).
Proof. exact rs_spec. Qed.
Print Assumptions C19_randstream_spec.

(* non-vacuity: a concrete factory XOF and a non-trivial history *)
Example C19_nonvacuous :
  let out := fun (_ : kind) (k a : list Z) (i : nat) => (Z.of_nat i + Z.of_nat (length a))%Z in
  let x := xnew Blake2b [1;2;3]%Z in
  snd (read_chunks out x [3;0;5]) = snd (read_chunks out x [8]) /\
  bits 13 true [255;255;7]%Z = Some ([31;255]%Z, [7]%Z) /\
  rand_int 5 200 [255; 201; 13; 9]%Z = Some (13%Z, [9]%Z).
Proof. vm_compute. repeat split. Qed.
