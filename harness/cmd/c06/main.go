// Correspondence + oracle harness for property C06 (pairings: bilinear, non-degenerate, ValidatePairing).
package main

import (
	"fmt"

	"kyverif/grpprog"
	"kyverif/vh"
)

func main() {
	o := vh.ParseFlags()
	rng := vh.NewRng(o.Seed)
	rep := vh.NewReport("C06", o.Seed, o.Tier)
	rep.Rule = "per pairing suite (5): random programs over scalars, G1, G2 and GT pools (group ops incl. Hash/Pick points, results left in non-normalised coordinates) with Pair and ValidatePairing; observables: exact scalars, Equal/bytes partition of each pool incl. all pairing outputs and their GT combinations, ValidatePairing verdicts; plus bilinearity/additivity/identity/non-degeneracy/ValidatePairing-iff evaluated directly on edge operands. distinct = distinct program text; non-trivial = at least one Pair"
	cf := &vh.CaseFile{Header: "From Kyber Require Import Group.GrpProg.", Type: "case", Runner: "mismatches"}
	nprog, nops, nlaws := 10, 44, 4
	if o.Thorough {
		nprog, nops, nlaws = 80, 60, 60
	}
	if o.Search {
		nprog, nlaws = 0, 6*nlaws
	}
	id := 0
	for _, ps := range grpprog.PairingSuites() {
		for k := 0; k < nprog; k++ {
			r := rng.Fork()
			p := grpprog.RunPairing(r, ps, nops, rep)
			if p.Panic != "" {
				rep.Fail("C06/"+ps.Name+"/panic", "operation panicked: "+p.Panic, map[string]interface{}{"suite": ps.Name, "program": p.Text})
				continue
			}
			cf.Items = append(cf.Items, p.Coq(id))
			desc := map[string]interface{}{"suite": ps.Name, "program": p.Text, "gt_partition": p.Part[2], "verdicts": p.Verdicts}
			rep.Index(id, desc)
			rep.Count(fmt.Sprint(ps.Name, p.Text), len(p.Part[2]) >= 1)
			rep.Dist("suite:" + ps.Name)
			rep.DistN("pairings", len(p.Part[2]))
			rep.DistN("validations", len(p.Verdicts))
			rep.DistN("receiver-is-existing-object", p.NInPlace)
			for _, v := range p.Verdicts {
				rep.Dist(fmt.Sprintf("verdict:%v", v))
			}
			if k == 0 {
				rep.Sample(desc)
			}
			id++
		}
		grpprog.PairingLaws(rng.Fork(), ps, rep, nlaws)
	}
	vh.WriteShards(o.Out, "c06", cf, 5, rep)
	rep.Write(o.Out)
}
