package main

import (
	"fmt"
	"math/big"

	"go.dedis.ch/kyber/v4"
	"go.dedis.ch/kyber/v4/compatible/compatiblemod"
	"go.dedis.ch/kyber/v4/group/edwards25519"
	"go.dedis.ch/kyber/v4/group/mod"
)

func val(s kyber.Scalar) string { b, _ := s.MarshalBinary(); return fmt.Sprintf("%x", b) }

func main() {
	q, _ := new(big.Int).SetString("115792089210356248762697446949407573529996955224135760342422259061068512044369", 10)
	m := compatiblemod.FromBigInt(q)
	mk := func() kyber.Scalar { return mod.NewInt64(0, m) }
	xb := new(big.Int).Sub(q, big.NewInt(5))
	x := mk().SetBytes(xb.Bytes())
	one := mk().One()
	zero := mk().Zero()
	three := mk().SetInt64(3)
	try := func(name string, f func() string) {
		defer func() {
			if e := recover(); e != nil {
				fmt.Println(name, "PANIC", e)
			}
		}()
		fmt.Println(name, f())
	}
	try("x        ", func() string { return val(x) })
	try("one      ", func() string { return val(one) })
	try("Add(one,x)", func() string { return val(mk().Add(one, x)) })
	try("Add(x,one)", func() string { return val(mk().Add(x, one)) })
	try("Sub(one,x)", func() string { return val(mk().Sub(one, x)) })
	try("Sub(x,one)", func() string { return val(mk().Sub(x, one)) })
	try("Mul(one,x)", func() string { return val(mk().Mul(one, x)) })
	try("Mul(x,one)", func() string { return val(mk().Mul(x, one)) })
	try("Add(zero,x)", func() string { return val(mk().Add(zero, x)) })
	try("Add(three,x)", func() string { return val(mk().Add(three, x)) })
	try("Div(one,x)", func() string { return val(mk().Div(one, x)) })
	try("Div(x,one)", func() string { return val(mk().Div(x, one)) })
	try("Inv(one)", func() string { return val(mk().Inv(one)) })
	try("Neg(one)", func() string { return val(mk().Neg(one)) })
	try("Neg(zero)", func() string { return val(mk().Neg(zero)) })
	onefull := mk().SetBytes([]byte{1})
	try("one.Equal(onefull)", func() string { return fmt.Sprint(one.Equal(onefull), onefull.Equal(one)) })
	try("zero.Equal(Sub(x,x))", func() string { z := mk().Sub(x, x); return fmt.Sprint(zero.Equal(z), z.Equal(zero)) })
	try("one.Equal(x)", func() string { return fmt.Sprint(one.Equal(x), x.Equal(one)) })
	// x2 = x with low limb = 1 ?
	y := mk().SetBytes(new(big.Int).Add(new(big.Int).Lsh(big.NewInt(7), 64), big.NewInt(1)).Bytes())
	try("one.Equal(y=7*2^64+1)", func() string { return fmt.Sprint(one.Equal(y), y.Equal(one)) })
	ed := edwards25519.NewBlakeSHA256Ed25519()
	e1 := ed.Scalar().One()
	ex := ed.Scalar().SetInt64(-5)
	try("ed Add(one,x)", func() string { return val(ed.Scalar().Add(e1, ex)) })
	try("ed one.Equal", func() string { return fmt.Sprint(e1.Equal(ed.Scalar().SetInt64(1))) })
}
