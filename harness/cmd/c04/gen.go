package main

// Input classes for the decoders: what the property's quantifier names.

import (
	"math/big"
	"time"

	"go.dedis.ch/kyber/v4"

	"kyverif/grpprog"
	"kyverif/vh"
)

// layout describes how the advertised encoding of a group is cut into
// coordinates, so that "coordinate >= field modulus" and "off-curve (x, y+1)"
// inputs can be built generically.
type layout struct {
	prefix int      // bytes before the first coordinate (P-256 format byte)
	coord  int      // bytes per coordinate
	ncoord int      // number of coordinates
	le     bool     // little-endian coordinates (Edwards)
	p      *big.Int // field modulus (nil: unknown / not a curve)
	flags  byte     // mask of flag bits in the first (BE) / last (LE) byte of the encoding
}

func bigHex(s string) *big.Int {
	v, ok := new(big.Int).SetString(s, 16)
	if !ok {
		panic("bad hex")
	}
	return v
}
func bigDec(s string) *big.Int {
	v, ok := new(big.Int).SetString(s, 10)
	if !ok {
		panic("bad dec")
	}
	return v
}

var (
	pEd     = new(big.Int).Sub(new(big.Int).Lsh(big.NewInt(1), 255), big.NewInt(19))
	pP256   = bigDec("115792089210356248762697446949407573530086143415290314195533631308867097853951")
	pBN256  = bigDec("65000549695646603732796438742359905742825358107623003571877145026864184071783")
	pBN254  = bigDec("21888242871839275222246405745257275088696311157297823662689037894645226208583")
	pBLS    = bigHex("1a0111ea397fe69a4b1ba7b6434bacd764774b84f38512bf6730d2a0f6b0f6241eabfffeb153ffffb9feffffffffaaab")
	rBLS    = bigHex("73eda753299d7d483339d80809a1d80553bda402fffe5bfeffffffff00000001")
	pQR512  = bigDec("10198267722357351868598076141027380280417188309231803909918464305012113541414604537422741096561285049775792035177041672305646773132014126091142862443826263")
	qQR512  = bigDec("5099133861178675934299038070513690140208594154615901954959232152506056770707302268711370548280642524887896017588520836152823386566007063045571431221913131")
	edOrder = bigDec("7237005577332262213973186563042994240857116359379907606001950938285454250989")
)

func layoutOf(name string, size int) layout {
	if l, ok := extraLayout[name]; ok {
		return l
	}
	switch {
	case name == "ed25519" || name == "ed25519+vartime" || name == "ed25519vartime-pkg":
		return layout{0, 32, 1, true, pEd, 0x80}
	case name == "p256":
		return layout{1, 32, 2, false, pP256, 0}
	case name == "qr512":
		return layout{0, size, 1, false, pQR512, 0}
	case name == "bn256.G1" || name == "bn256.G2" || name == "bn256.GT":
		return layout{0, 32, size / 32, false, pBN256, 0}
	case name == "bn254.G1" || name == "bn254.G2" || name == "bn254.GT":
		return layout{0, 32, size / 32, false, pBN254, 0}
	default: // BLS12-381: 48-byte coordinates, flags in the top three bits of byte 0 (G1/G2)
		fl := byte(0xe0)
		if size > 96 {
			fl = 0
		}
		return layout{0, 48, size / 48, false, pBLS, fl}
	}
}

type input struct {
	class string
	b     []byte
}

func rev(b []byte) []byte {
	o := make([]byte, len(b))
	for i := range b {
		o[len(b)-1-i] = b[i]
	}
	return o
}

// setCoord overwrites coordinate i of enc with v (keeping flag bits), if it fits.
func (l layout) setCoord(enc []byte, i int, v *big.Int) ([]byte, bool) {
	if v.Sign() < 0 || v.BitLen() > 8*l.coord {
		return nil, false
	}
	out := append([]byte{}, enc...)
	raw := make([]byte, l.coord)
	v.FillBytes(raw)
	off := l.prefix + i*l.coord
	if off+l.coord > len(out) {
		return nil, false
	}
	if l.le {
		raw = rev(raw)
		if i == l.ncoord-1 && l.flags != 0 {
			if raw[l.coord-1]&l.flags != 0 {
				return nil, false
			}
			raw[l.coord-1] |= out[off+l.coord-1] & l.flags
		}
	} else if i == 0 && l.flags != 0 {
		if raw[0]&l.flags != 0 {
			return nil, false
		}
		raw[0] |= out[off] & l.flags
	}
	copy(out[off:], raw)
	return out, true
}

func (l layout) getCoord(enc []byte, i int) *big.Int {
	off := l.prefix + i*l.coord
	raw := append([]byte{}, enc[off:off+l.coord]...)
	if l.le {
		raw = rev(raw)
		if i == l.ncoord-1 {
			raw[0] &^= l.flags
		}
	} else if i == 0 {
		raw[0] &^= l.flags
	}
	return new(big.Int).SetBytes(raw)
}

// lengths to probe: every length 0..2*size+40 in the thorough tier, a sample in the quick tier.
// sampleLengths is set while the inputs of a parameter-sweep instance are generated.
var sampleLengths bool

func lengths(r *vh.Rng, size int, thorough bool) []int {
	max := 2*size + 40
	if thorough || (max <= 140 && !sampleLengths) {
		out := make([]int, 0, max+1)
		for i := 0; i <= max; i++ {
			out = append(out, i)
		}
		return out
	}
	seen := map[int]bool{}
	var out []int
	add := func(i int) {
		if i >= 0 && i <= max && !seen[i] {
			seen[i] = true
			out = append(out, i)
		}
	}
	for i := 0; i <= 8; i++ {
		add(i)
	}
	for _, c := range []int{size / 2, size, 2 * size, max} {
		for d := -2; d <= 2; d++ {
			add(c + d)
		}
	}
	for i := 0; i < 24; i++ {
		add(r.Intn(max + 1))
	}
	return out
}

func fill(n int, v byte) []byte {
	b := make([]byte, n)
	for i := range b {
		b[i] = v
	}
	return b
}

// validEncodings returns encodings of group elements: identity, base, small and random multiples.
func validEncodings(r *vh.Rng, in grpprog.Inst, n int) [][]byte {
	g := in.G
	var out [][]byte
	add := func(p kyber.Point) {
		if b, err := p.MarshalBinary(); err == nil {
			out = append(out, b)
		}
	}
	vh.Try(func() { add(g.Point().Null()) })
	vh.Try(func() { add(g.Point().Base()) })
	q := grpprog.Order(g)
	for i := 0; i < n; i++ {
		k := r.EdgeScalar(q)
		vh.Try(func() { add(g.Point().Mul(grpprog.MkScalar(g, k), nil)) })
	}
	// what Pick / Embed hand out must decode to members as well
	// (a residue group picks by rejection: hopeless for a large cofactor, by design)
	if rp, ok := resParams[in.Name]; !ok || rp.R.BitLen() <= 6 {
		st := vh.NewSeqStream(r.Bytes(16))
		var picked []kyber.Point
		var p1, p2 kyber.Point
		_, _, late1 := tryFor(10*time.Second, func() { p1 = g.Point().Pick(st) })
		if !late1 && p1 != nil {
			picked = append(picked, p1)
		}
		if !late1 { // the stream is shared: do not start a second draw while the first still spins
			_, _, late2 := tryFor(10*time.Second, func() { p2 = g.Point().Embed([]byte{1, 2, 3}, st) })
			if !late2 && p2 != nil {
				picked = append(picked, p2)
			}
		}
		for _, p := range picked {
			vh.Try(func() { add(p) })
		}
	}
	return out
}

// pointInputs builds the byte strings of every class for one group.
func pointInputs(r *vh.Rng, in grpprog.Inst, thorough bool, nvalid, nflip int) []input {
	size := in.G.PointLen()
	l := layoutOf(in.Name, size)
	sampleLengths = lightGroup[in.Name]
	defer func() { sampleLengths = false }()
	var ins []input
	for _, n := range lengths(r, size, thorough) {
		ins = append(ins, input{"len/random", r.Bytes(n)})
		if thorough || n <= size+8 || n%4 == 0 || n >= 2*size {
			ins = append(ins, input{"len/all-00", fill(n, 0)}, input{"len/all-ff", fill(n, 0xff)})
		}
	}
	// random strings of exactly the advertised length (and with flags forced to plausible values)
	for i := 0; i < nvalid*2; i++ {
		b := r.Bytes(size)
		ins = append(ins, input{"size/random", b})
		if l.flags == 0xe0 {
			c := append([]byte{}, b...)
			c[0] = c[0]&0x1f | 0x80 | byte(r.Intn(2))<<5
			ins = append(ins, input{"size/random-compressed-flag", c})
		}
	}
	valid := validEncodings(r, in, nvalid)
	for vi, v := range valid {
		ins = append(ins, input{"valid", v})
		// single-bit flips
		nbits := 8 * len(v)
		if thorough && vi < 3 || nbits <= nflip {
			for b := 0; b < nbits; b++ {
				c := append([]byte{}, v...)
				c[b/8] ^= 1 << uint(b%8)
				ins = append(ins, input{"valid/bitflip", c})
			}
		} else {
			k := nflip
			if vi >= 3 {
				k = nflip / 4
			}
			for j := 0; j < k; j++ {
				b := r.Intn(nbits)
				if j < 16 { // always include the flag/sign/format bits
					b = []int{0, 1, 2, 3, 4, 5, 6, 7, nbits - 8, nbits - 7, nbits - 6, nbits - 5, nbits - 4, nbits - 3, nbits - 2, nbits - 1}[j]
				}
				c := append([]byte{}, v...)
				c[b/8] ^= 1 << uint(b%8)
				ins = append(ins, input{"valid/bitflip", c})
			}
		}
		// truncated / extended
		if len(v) > 0 {
			ins = append(ins, input{"valid/truncated", v[:len(v)-1]}, input{"valid/truncated", v[1:]},
				input{"valid/truncated", v[:len(v)/2]})
		}
		ins = append(ins, input{"valid/extended", append(append([]byte{}, v...), 0)},
			input{"valid/extended", append(append([]byte{}, v...), r.Bytes(1+r.Intn(40))...)},
			input{"valid/extended", append([]byte{0}, v...)})
		if l.p != nil && len(v) == size {
			for ci := 0; ci < l.ncoord && ci < 4; ci++ {
				x := l.getCoord(v, ci)
				// coordinate + p (same residue, non-canonical), p itself, p+1, 2^k-1
				for _, nv := range []*big.Int{new(big.Int).Add(x, l.p), new(big.Int).Set(l.p), new(big.Int).Add(l.p, big.NewInt(1)),
					new(big.Int).Add(l.p, big.NewInt(int64(2+r.Intn(17)))),
					new(big.Int).Sub(new(big.Int).Lsh(big.NewInt(1), uint(8*l.coord)), big.NewInt(1))} {
					if c, ok := l.setCoord(v, ci, nv); ok {
						ins = append(ins, input{"valid/coord>=p", c})
					}
				}
				// off-curve: coordinate +- 1
				for _, d := range []int64{1, -1} {
					nv := new(big.Int).Add(x, big.NewInt(d))
					nv.Mod(nv, l.p)
					if c, ok := l.setCoord(v, ci, nv); ok {
						ins = append(ins, input{"valid/coord+-1", c})
					}
				}
			}
		}
		if l.prefix == 1 {
			for _, f := range []byte{0, 1, 2, 3, 5, 6, 7, 0x84, 0xff} {
				c := append([]byte{}, v...)
				c[0] = f
				ins = append(ins, input{"valid/format-byte", c})
			}
		}
	}
	ins = append(ins, altFormats(r, in, valid, nvalid)...)
	// congruent-to-valid non-canonical coordinates: of the valid points and of the points with the smallest coordinates
	small := smallPoints(in, nvalid)
	for _, v := range small {
		ins = append(ins, input{"valid/small-x", v})
	}
	ins = append(ins, congruentInputs(l, append(append([][]byte{}, valid...), small...), size)...)
	ins = append(ins, congruentIdentity(l, in, size)...)
	if rp, ok := resParams[in.Name]; ok {
		ins = append(ins, residueSpecials(r, rp, size, nvalid+2)...)
	}
	if in.Name == "qr512" {
		ins = append(ins, residueSpecials(r, resParam{pQR512, qQR512, big.NewInt(2)}, size, nvalid)...)
	}
	// fixed small points
	if l.prefix == 1 {
		for _, xy := range [][2]int64{{1, 1}, {0, 1}, {1, 0}, {0, 0}, {2, 3}} {
			c := make([]byte, size)
			c[0] = 4
			c[32] = byte(xy[0])
			c[64] = byte(xy[1])
			ins = append(ins, input{"offcurve/small", c})
		}
	}
	if l.le && size == 32 {
		for _, h := range edSmallOrder {
			b := unhex(h)
			ins = append(ins, input{"ed/small-order", b})
			c := append([]byte{}, b...)
			c[31] ^= 0x80
			ins = append(ins, input{"ed/small-order", c})
		}
		// y in [p, 2^255): every non-canonical y, both signs
		for d := int64(0); d < 19; d++ {
			y := new(big.Int).Add(pEd, big.NewInt(d))
			raw := make([]byte, 32)
			y.FillBytes(raw)
			b := rev(raw)
			ins = append(ins, input{"ed/y>=p", append([]byte{}, b...)})
			b[31] |= 0x80
			ins = append(ins, input{"ed/y>=p", b})
		}
	}
	return ins
}

var edSmallOrder = []string{
	"0100000000000000000000000000000000000000000000000000000000000000",
	"ecffffffffffffffffffffffffffffffffffffffffffffffffffffffffffff7f",
	"0000000000000000000000000000000000000000000000000000000000000000",
	"26e8958fc2b227b045c3f489f2ef98f0d5dfac05d3c63339b13802886d53fc05",
	"c7176a703d4dd84fba3c0b760d10670f2a2053fa2c39ccc64ec7fd7792ac037a",
	"edffffffffffffffffffffffffffffffffffffffffffffffffffffffffffff7f",
	"eeffffffffffffffffffffffffffffffffffffffffffffffffffffffffffff7f",
}

func unhex(s string) []byte {
	b := make([]byte, len(s)/2)
	for i := range b {
		var v byte
		for _, c := range []byte(s[2*i : 2*i+2]) {
			v <<= 4
			switch {
			case c >= '0' && c <= '9':
				v |= c - '0'
			default:
				v |= c - 'a' + 10
			}
		}
		b[i] = v
	}
	return b
}

// scalarInputs: byte strings for the scalar decoder of a group with modulus q.
func scalarInputs(r *vh.Rng, g kyber.Group, thorough bool, n int) []input {
	size := g.ScalarLen()
	q := grpprog.Order(g)
	le := g.Scalar().ByteOrder() == kyber.LittleEndian
	var ins []input
	for _, L := range lengths(r, size, thorough) {
		ins = append(ins, input{"len/random", r.Bytes(L)})
		if thorough || L <= size+4 || L%8 == 0 || L >= 2*size {
			ins = append(ins, input{"len/all-00", fill(L, 0)}, input{"len/all-ff", fill(L, 0xff)})
		}
	}
	enc := func(v *big.Int) []byte {
		if v.BitLen() > 8*size {
			return nil
		}
		raw := make([]byte, size)
		v.FillBytes(raw)
		if le {
			raw = rev(raw)
		}
		return raw
	}
	push := func(class string, v *big.Int) {
		if b := enc(v); b != nil {
			ins = append(ins, input{class, b})
		}
	}
	for i := 0; i < n; i++ {
		push("valid", r.EdgeScalar(q))
		ins = append(ins, input{"size/random", r.Bytes(size)})
	}
	for d := int64(-3); d <= 3; d++ {
		push("range/q+-d", new(big.Int).Add(q, big.NewInt(d)))
		push("range/2q+-d", new(big.Int).Add(new(big.Int).Lsh(q, 1), big.NewInt(d)))
	}
	push("range/max", new(big.Int).Sub(new(big.Int).Lsh(big.NewInt(1), uint(8*size)), big.NewInt(1)))
	push("range/0", big.NewInt(0))
	return ins
}
