package main

// Curve points of BLS12-381 outside the prime-order subgroups, built with
// math/big only (no cofactor clearing), in the compressed ZCash encoding the
// three back-ends use; and independent curve-equation checks (math/big) for the
// BN curves.

import (
	"math/big"

	"kyverif/vh"
)

type fp2 struct{ a, b *big.Int } // a + b*i, i^2 = -1

func f2(a, b *big.Int) fp2 { return fp2{a, b} }
func (x fp2) mul(y fp2, p *big.Int) fp2 {
	ac := new(big.Int).Mul(x.a, y.a)
	bd := new(big.Int).Mul(x.b, y.b)
	ad := new(big.Int).Mul(x.a, y.b)
	bc := new(big.Int).Mul(x.b, y.a)
	re := ac.Sub(ac, bd)
	im := ad.Add(ad, bc)
	return fp2{re.Mod(re, p), im.Mod(im, p)}
}
func (x fp2) add(y fp2, p *big.Int) fp2 {
	re := new(big.Int).Add(x.a, y.a)
	im := new(big.Int).Add(x.b, y.b)
	return fp2{re.Mod(re, p), im.Mod(im, p)}
}
func (x fp2) sub(y fp2, p *big.Int) fp2 {
	re := new(big.Int).Sub(x.a, y.a)
	im := new(big.Int).Sub(x.b, y.b)
	return fp2{re.Mod(re, p), im.Mod(im, p)}
}
func (x fp2) eq(y fp2) bool { return x.a.Cmp(y.a) == 0 && x.b.Cmp(y.b) == 0 }

// sqrt in Fp2 = Fp[i]/(i^2+1) by the complex method; nil if not a square.
func (x fp2) sqrt(p *big.Int) *fp2 {
	half := new(big.Int).ModInverse(big.NewInt(2), p)
	if x.b.Sign() == 0 {
		if s := new(big.Int).ModSqrt(x.a, p); s != nil {
			return &fp2{s, new(big.Int)}
		}
		na := new(big.Int).Neg(x.a)
		na.Mod(na, p)
		if s := new(big.Int).ModSqrt(na, p); s != nil {
			return &fp2{new(big.Int), s}
		}
		return nil
	}
	n := new(big.Int).Mul(x.a, x.a)
	n.Add(n, new(big.Int).Mul(x.b, x.b))
	n.Mod(n, p)
	s := new(big.Int).ModSqrt(n, p)
	if s == nil {
		return nil
	}
	for _, sg := range []int{1, -1} {
		t := new(big.Int).Set(x.a)
		if sg == 1 {
			t.Add(t, s)
		} else {
			t.Sub(t, s)
		}
		t.Mul(t, half)
		t.Mod(t, p)
		x0 := new(big.Int).ModSqrt(t, p)
		if x0 == nil || x0.Sign() == 0 {
			continue
		}
		inv := new(big.Int).ModInverse(new(big.Int).Lsh(x0, 1), p)
		x1 := new(big.Int).Mul(x.b, inv)
		x1.Mod(x1, p)
		r := fp2{x0, x1}
		if r.mul(r, p).eq(fp2{new(big.Int).Mod(x.a, p), new(big.Int).Mod(x.b, p)}) {
			return &r
		}
	}
	return nil
}

func be48(v *big.Int) []byte {
	b := make([]byte, 48)
	v.FillBytes(b)
	return b
}

// blsG1OffSubgroup returns compressed encodings of points of E(Fp): y^2 = x^3 + 4
// chosen by x (not by multiplying a generator): outside the order-r subgroup
// except with probability ~2^-126.
func blsG1OffSubgroup(r *vh.Rng, n int) [][]byte {
	var out [][]byte
	halfp := new(big.Int).Rsh(pBLS, 1)
	for len(out) < n {
		x := r.BigBelow(pBLS)
		rhs := new(big.Int).Exp(x, big.NewInt(3), pBLS)
		rhs.Add(rhs, big.NewInt(4))
		rhs.Mod(rhs, pBLS)
		y := new(big.Int).ModSqrt(rhs, pBLS)
		if y == nil {
			continue
		}
		b := be48(x)
		b[0] |= 0x80
		if y.Cmp(halfp) > 0 {
			b[0] |= 0x20
		}
		out = append(out, b)
		c := append([]byte{}, b...)
		c[0] ^= 0x20
		out = append(out, c)
	}
	return out
}

// blsG2OffSubgroup: points of E'(Fp2): y^2 = x^3 + 4(1+i), encoded x.c1 || x.c0.
func blsG2OffSubgroup(r *vh.Rng, n int) [][]byte {
	var out [][]byte
	b4 := f2(big.NewInt(4), big.NewInt(4))
	for len(out) < n {
		x := f2(r.BigBelow(pBLS), r.BigBelow(pBLS))
		rhs := x.mul(x, pBLS).mul(x, pBLS).add(b4, pBLS)
		if rhs.sqrt(pBLS) == nil {
			continue
		}
		b := append(be48(x.b), be48(x.a)...)
		b[0] |= 0x80
		out = append(out, b)
		c := append([]byte{}, b...)
		c[0] |= 0x20
		out = append(out, c)
	}
	return out
}

// bnG1OnCurve: y^2 = x^3 + 3 over Fp, or the all-zero identity encoding.
func bnG1OnCurve(enc []byte, p *big.Int) bool {
	x := new(big.Int).SetBytes(enc[:32])
	y := new(big.Int).SetBytes(enc[32:64])
	if x.Sign() == 0 && y.Sign() == 0 {
		return true
	}
	if x.Cmp(p) >= 0 || y.Cmp(p) >= 0 {
		return false
	}
	l := new(big.Int).Mul(y, y)
	l.Mod(l, p)
	rr := new(big.Int).Exp(x, big.NewInt(3), p)
	rr.Add(rr, big.NewInt(3))
	rr.Mod(rr, p)
	return l.Cmp(rr) == 0
}

// bnG2Coeff derives the twist coefficient b' = yG^2 - xG^3 from the encoding of
// the generator (x.x || x.y || y.x || y.y with element = x*i + y).
func bnG2Parse(enc []byte) (x, y fp2) {
	c := func(i int) *big.Int { return new(big.Int).SetBytes(enc[32*i : 32*i+32]) }
	return f2(c(1), c(0)), f2(c(3), c(2))
}
func bnG2Coeff(gen []byte, p *big.Int) fp2 {
	x, y := bnG2Parse(gen)
	return y.mul(y, p).sub(x.mul(x, p).mul(x, p), p)
}
func bnG2OnCurve(enc []byte, p *big.Int, bt fp2) bool {
	allz := true
	for _, v := range enc[:128] {
		if v != 0 {
			allz = false
		}
	}
	if allz {
		return true
	}
	x, y := bnG2Parse(enc)
	for _, v := range []*big.Int{x.a, x.b, y.a, y.b} {
		if v.Cmp(p) >= 0 {
			return false
		}
	}
	return y.mul(y, p).eq(x.mul(x, p).mul(x, p).add(bt, p))
}
