package main

// Group PARAMETERISATIONS the public API allows besides the default instances:
// residue groups built with ResidueGroup.SetParams for cofactors R > 2 (fresh
// random parameters every run) and with QuadraticResidueGroup for another size;
// the generic Edwards curves of edwards25519vartime for every named parameter
// set, both point representations, prime-order and full group.  The membership
// oracles are parametric in (P, Q) resp. (p, a, d).

import (
	"fmt"
	"math/big"
	"time"

	"go.dedis.ch/kyber/v4"
	"go.dedis.ch/kyber/v4/compatible/compatiblemod"
	"go.dedis.ch/kyber/v4/group/edwards25519vartime"
	"go.dedis.ch/kyber/v4/group/mod"
	"go.dedis.ch/kyber/v4/group/p256"

	"kyverif/grpprog"
	"kyverif/vh"
)

type edParam struct{ p, a, d *big.Int }
type resParam struct{ P, Q, R *big.Int }

var (
	edParams    = map[string]edParam{}  // Edwards instances: curve equation
	resParams   = map[string]resParam{} // residue instances: subgroup of order Q of Z_P^*
	extraLayout = map[string]layout{}
	lightGroup  = map[string]bool{} // sampled more thinly (parameter sweep, not the default instance)
	noScalar    = map[string]bool{} // scalar ring of composite order (full group): not part of this check
)

// tryFor runs f under recover with a deadline; a call that neither returns nor panics
// in time is abandoned (its goroutine keeps spinning) so that the harness itself always
// terminates, also on a tree where some rejection-sampling loop no longer ends.
func tryFor(d time.Duration, f func()) (panicked bool, msg string, timedOut bool) {
	done := make(chan struct{})
	go func() {
		defer close(done)
		panicked, msg = vh.Try(f)
	}()
	select {
	case <-done:
		return panicked, msg, false
	case <-time.After(d):
		return false, "", true
	}
}

func randPrime(r *vh.Rng, bits int) *big.Int {
	for {
		b := r.Bytes((bits + 7) / 8)
		v := new(big.Int).SetBytes(b)
		v.SetBit(v, bits-1, 1)
		for i := v.BitLen() - 1; i >= bits; i-- {
			v.SetBit(v, i, 0)
		}
		v.SetBit(v, 0, 1)
		if v.ProbablyPrime(24) {
			return v
		}
	}
}

// dsaParams: primes Q (qbits) and P = Q*R + 1 with R = mult * t, t of about tbits bits.
func dsaParams(r *vh.Rng, qbits, tbits int, mult int64) (p, q, rr, g *big.Int) {
	q = randPrime(r, qbits)
	t := new(big.Int).SetBytes(r.Bytes((tbits + 7) / 8))
	t.SetBit(t, tbits-1, 1)
	for {
		rr = new(big.Int).Mul(t, big.NewInt(mult))
		p = new(big.Int).Mul(q, rr)
		p.Add(p, big.NewInt(1))
		if p.ProbablyPrime(24) {
			break
		}
		t.Add(t, big.NewInt(1))
	}
	for h := int64(2); ; h++ {
		g = new(big.Int).Exp(big.NewInt(h), rr, p)
		if g.Cmp(big.NewInt(1)) != 0 {
			return
		}
	}
}

func addResidue(out *[]grpprog.Inst, name string, g *p256.ResidueGroup) {
	resParams[name] = resParam{g.P, g.Q, g.R}
	extraLayout[name] = layout{0, g.PointLen(), 1, false, g.P, 0}
	lightGroup[name] = true
	*out = append(*out, grpprog.Inst{Name: name, G: g})
}

func extraGroups(r *vh.Rng, thorough bool, rep *vh.Report) []grpprog.Inst {
	var out []grpprog.Inst
	// ---- residue groups
	type dsa struct {
		name         string
		qbits, tbits int
		mult         int64
	}
	specs := []dsa{{"residue.dsa-R6t", 72, 20, 6}, {"residue.dsa-160/512", 160, 351, 2}, {"residue.dsa-R4", 64, 1, 4}}
	if thorough {
		specs = append(specs, dsa{"residue.dsa-R30t", 96, 64, 30}, dsa{"residue.dsa-256/1024", 256, 767, 2})
	}
	for _, s := range specs {
		p, q, rr, gen := dsaParams(r, s.qbits, s.tbits, s.mult)
		g := new(p256.ResidueGroup)
		pan, msg := vh.Try(func() { g.SetParams(p, q, rr, gen) })
		if pan {
			rep.Note("SetParams refused generated parameters for " + s.name + ": " + msg)
			continue
		}
		addResidue(&out, s.name, g)
	}
	qrBits := []uint{72}
	if thorough {
		qrBits = append(qrBits, 128)
	}
	for _, bl := range qrBits {
		g := new(p256.ResidueGroup)
		pan, msg, late := tryFor(20*time.Second, func() { g.QuadraticResidueGroup(bl, vh.NewSeqStream(r.Bytes(16))) })
		if late {
			rep.Note(fmt.Sprintf("QuadraticResidueGroup(%d) did not terminate within 20 s", bl))
			continue
		}
		if pan || !g.Valid() {
			rep.Note(fmt.Sprintf("QuadraticResidueGroup(%d) failed: %s", bl, msg))
			continue
		}
		addResidue(&out, fmt.Sprintf("residue.qr-%d", bl), g)
	}
	// ---- generic Edwards curves
	type par struct {
		name string
		f    func() *edwards25519vartime.Param
	}
	pars := []par{{"ed25519", edwards25519vartime.ParamEd25519}, {"1174", edwards25519vartime.Param1174},
		{"E382", edwards25519vartime.ParamE382}, {"41417", edwards25519vartime.Param41417}, {"E521", edwards25519vartime.ParamE521}}
	type combo struct {
		pi   int
		ext  bool
		full bool
	}
	var combos []combo
	for pi := range pars {
		for _, ext := range []bool{false, true} {
			for _, full := range []bool{false, true} {
				combos = append(combos, combo{pi, ext, full})
			}
		}
	}
	chosen := combos
	if !thorough {
		// the Ed25519 extended-coordinate instance always; three more drawn per run, one of them a full group
		chosen = []combo{{0, true, false}}
		for len(chosen) < 4 {
			c := combos[r.Intn(len(combos))]
			if len(chosen) == 1 {
				c.full = true
			}
			dup := false
			for _, x := range chosen {
				if x == c {
					dup = true
				}
			}
			if !dup && !(c.pi == 4 && len(chosen) > 2) { // at most one E521 instance late in the list (slow arithmetic)
				chosen = append(chosen, c)
			}
		}
	}
	for _, c := range chosen {
		pr := pars[c.pi]
		name := "vartime." + map[bool]string{false: "proj", true: "ext"}[c.ext] + "-" + pr.name + map[bool]string{false: "", true: "-full"}[c.full]
		var inst grpprog.Inst
		pan, msg, late := tryFor(30*time.Second, func() {
			if c.ext {
				inst = grpprog.Inst{Name: name, G: new(edwards25519vartime.ExtendedCurve).InitCurve(pr.f(), c.full)}
			} else {
				inst = grpprog.Inst{Name: name, G: new(edwards25519vartime.ProjectiveCurve).Init(pr.f(), c.full)}
			}
		})
		if late {
			rep.Note("curve initialisation did not terminate within 30 s for " + name)
			continue
		}
		if pan {
			rep.Note("curve initialisation panicked for " + name + ": " + msg)
			continue
		}
		P := pr.f()
		p := P.P.ToBigInt()
		edParams[name] = edParam{p, P.A.ToBigInt(), P.D.ToBigInt()}
		extraLayout[name] = layout{0, inst.G.PointLen(), 1, true, p, 0x80}
		lightGroup[name] = true
		noScalar[name] = c.full
		out = append(out, inst)
	}
	return out
}

// residueSpecials: elements of Z_P^* chosen without regard to the subgroup: small
// integers and squares, elements of the cofactor subgroup (h^Q), members multiplied
// by them, -1 and -member, 0, P, P+1.
func residueSpecials(r *vh.Rng, rp resParam, size int, n int) []input {
	var ins []input
	push := func(class string, v *big.Int) {
		if v.Sign() >= 0 && v.BitLen() <= 8*size {
			b := make([]byte, size)
			v.FillBytes(b)
			ins = append(ins, input{class, b})
		}
	}
	one := big.NewInt(1)
	for h := int64(0); h < 12; h++ {
		push("residue/small", big.NewInt(h))
		push("residue/small-square", big.NewInt(h*h))
	}
	push("residue/P+-", rp.P)
	push("residue/P+-", new(big.Int).Add(rp.P, one))
	push("residue/P+-", new(big.Int).Sub(rp.P, one))
	for i := 0; i < n; i++ {
		h := new(big.Int).Add(r.BigBelow(new(big.Int).Sub(rp.P, big.NewInt(3))), big.NewInt(2))
		member := new(big.Int).Exp(h, rp.R, rp.P)
		cof := new(big.Int).Exp(h, rp.Q, rp.P) // order divides R
		push("residue/member", member)
		push("residue/cofactor-element", cof)
		for _, m := range []*big.Int{cof, big.NewInt(4), big.NewInt(9), new(big.Int).Sub(rp.P, one), big.NewInt(2)} {
			v := new(big.Int).Mul(member, m)
			push("residue/member*outside", v.Mod(v, rp.P))
		}
		// congruent to a member, not canonical (the decoder takes any length)
		for k := int64(1); k <= 3; k++ {
			v := new(big.Int).Add(member, new(big.Int).Mul(rp.P, big.NewInt(k)))
			ins = append(ins, input{"congruent/member+kP", v.Bytes()}, input{"congruent/member+kP", append([]byte{0}, v.Bytes()...)})
		}
		push("residue/random-unit", h)
		push("residue/random-square", new(big.Int).Exp(h, big.NewInt(2), rp.P))
	}
	return ins
}

// scalarGroup exposes a bare mod.Int scalar ring (prime modulus of any bit length,
// either byte order) through the part of kyber.Group the scalar oracles use.
type scalarGroup struct {
	q  *big.Int
	le bool
}

func (g *scalarGroup) String() string {
	return fmt.Sprintf("mod.Int(%d bits, le=%v)", g.q.BitLen(), g.le)
}
func (g *scalarGroup) ScalarLen() int { return (g.q.BitLen() + 7) / 8 }
func (g *scalarGroup) Scalar() kyber.Scalar {
	s := mod.NewInt64(0, compatiblemod.FromBigInt(g.q))
	if g.le {
		s.BO = kyber.LittleEndian
	}
	return s
}
func (g *scalarGroup) PointLen() int      { return 0 }
func (g *scalarGroup) Point() kyber.Point { return nil }

// scalarRings: prime moduli around the byte boundaries and of odd sizes.
func scalarRings(r *vh.Rng, thorough bool) []grpprog.Inst {
	bits := []int{2, 3, 8, 9, 16, 17, 63, 64, 65, 127, 128, 129, 255, 256, 257, 521}
	n := 4
	if thorough {
		n = len(bits)
	}
	var out []grpprog.Inst
	for i := 0; i < n; i++ {
		b := bits[i]
		if !thorough {
			b = bits[r.Intn(len(bits))]
		}
		var q *big.Int
		switch b {
		case 2:
			q = big.NewInt(int64(2 + r.Intn(2)))
		case 3:
			q = big.NewInt(int64(5 + 2*r.Intn(2)))
		default:
			q = randPrime(r, b)
		}
		le := r.Bool()
		name := fmt.Sprintf("modint.%dbit-%s", b, map[bool]string{false: "be", true: "le"}[le])
		lightGroup[name] = true
		out = append(out, grpprog.Inst{Name: name, G: &scalarGroup{q, le}})
	}
	return out
}
