package main

// Structured inputs in NEIGHBOURING / ALTERNATIVE formats and lengths, which
// random bytes never produce: the raw affine coordinates x||y of a valid point
// (2*size for the compressed formats), of an on-curve point OUTSIDE the promised
// subgroup, the same with every flag combination, SEC1 compressed / hybrid /
// raw forms for the Weierstrass groups, x-only forms.  Whatever a decoder makes
// of them goes through the same oracles (membership, usable, round trip, model).

import (
	"math/big"
	"strings"

	"kyverif/grpprog"
	"kyverif/vh"
)

func beN(v *big.Int, n int) []byte {
	b := make([]byte, n)
	v.FillBytes(b)
	return b
}

func cat(bs ...[]byte) []byte {
	var o []byte
	for _, b := range bs {
		o = append(o, b...)
	}
	return o
}

func withFlags(b []byte, flags ...byte) [][]byte {
	var out [][]byte
	for _, f := range flags {
		c := append([]byte{}, b...)
		c[0] = c[0]&0x1f | f
		out = append(out, c)
	}
	return out
}

var blsHalf = new(big.Int).Rsh(pBLS, 1)

// affine coordinates of a compressed BLS12-381 G1 encoding (nil for infinity / not on curve)
func blsG1Affine(enc []byte) (x, y *big.Int) {
	if len(enc) != 48 || enc[0]&0x40 != 0 {
		return nil, nil
	}
	xb := append([]byte{}, enc...)
	xb[0] &= 0x1f
	x = new(big.Int).SetBytes(xb)
	rhs := new(big.Int).Exp(x, big.NewInt(3), pBLS)
	rhs.Add(rhs, big.NewInt(4)).Mod(rhs, pBLS)
	y = new(big.Int).ModSqrt(rhs, pBLS)
	if y == nil {
		return nil, nil
	}
	if (enc[0]&0x20 != 0) != (y.Cmp(blsHalf) > 0) {
		y.Sub(pBLS, y)
	}
	return x, y
}

func fp2Larger(y fp2) bool {
	if y.b.Sign() != 0 {
		return y.b.Cmp(blsHalf) > 0
	}
	return y.a.Cmp(blsHalf) > 0
}

func blsG2Affine(enc []byte) (x, y *fp2) {
	if len(enc) != 96 || enc[0]&0x40 != 0 {
		return nil, nil
	}
	c1 := append([]byte{}, enc[:48]...)
	c1[0] &= 0x1f
	xx := f2(new(big.Int).SetBytes(enc[48:]), new(big.Int).SetBytes(c1))
	rhs := xx.mul(xx, pBLS).mul(xx, pBLS).add(f2(big.NewInt(4), big.NewInt(4)), pBLS)
	yy := rhs.sqrt(pBLS)
	if yy == nil {
		return nil, nil
	}
	if (enc[0]&0x20 != 0) != fp2Larger(*yy) {
		n := f2(new(big.Int), new(big.Int)).sub(*yy, pBLS)
		yy = &n
	}
	return &xx, yy
}

// altFormats builds the alternative-format inputs for one group from valid encodings.
func altFormats(r *vh.Rng, in grpprog.Inst, valid [][]byte, n int) []input {
	size := in.G.PointLen()
	var ins []input
	add := func(class string, bs ...[]byte) {
		for _, b := range bs {
			ins = append(ins, input{class, b})
		}
	}
	isBLS := (strings.HasPrefix(in.Name, "kilic.") || strings.HasPrefix(in.Name, "circl.") || strings.HasPrefix(in.Name, "gnark."))
	allFlags := []byte{0x00, 0x20, 0x40, 0x60, 0x80, 0xa0, 0xc0, 0xe0}
	switch {
	case isBLS && size == 48:
		for _, v := range valid {
			if x, y := blsG1Affine(v); x != nil {
				raw := cat(beN(x, 48), beN(y, 48))
				add("alt/uncompressed-subgroup", raw)
				add("alt/uncompressed-subgroup-flags", withFlags(raw, allFlags[1:]...)...)
				add("alt/uncompressed-subgroup-neg", cat(beN(x, 48), beN(new(big.Int).Sub(pBLS, y), 48)))
				for k := int64(1); k <= 4; k++ {
					kp := new(big.Int).Mul(pBLS, big.NewInt(k))
					add("congruent/uncompressed-y+kp", cat(beN(x, 48), beN(new(big.Int).Add(y, kp), 48)))
					if xs := new(big.Int).Add(x, kp); xs.BitLen() <= 384 {
						add("congruent/uncompressed-x+kp", cat(beN(xs, 48), beN(y, 48)))
					}
				}
				add("alt/x-only-no-flags", beN(x, 48))
			}
		}
		for i := 0; i < n; i++ {
			off := blsG1OffSubgroup(r, 1)
			if x, y := blsG1Affine(off[0]); x != nil {
				raw := cat(beN(x, 48), beN(y, 48))
				add("alt/uncompressed-off-subgroup", raw)
				add("alt/uncompressed-off-subgroup", withFlags(raw, allFlags[1:]...)...)
				add("alt/uncompressed-off-subgroup", append(append([]byte{}, raw...), 0), raw[:95])
			}
		}
		// the smallest x with a point: x = 4 is the textbook example
		for xv := int64(0); xv < 12; xv++ {
			x := big.NewInt(xv)
			rhs := new(big.Int).Exp(x, big.NewInt(3), pBLS)
			rhs.Add(rhs, big.NewInt(4))
			if y := new(big.Int).ModSqrt(rhs, pBLS); y != nil {
				raw := cat(beN(x, 48), beN(y, 48))
				add("alt/uncompressed-off-subgroup", raw)
				c := beN(x, 48)
				add("bls/off-subgroup-small-x", withFlags(c, 0x80, 0xa0)...)
			}
		}
		add("alt/uncompressed-infinity", withFlags(make([]byte, 96), 0x40, 0x00, 0xc0)...)
	case isBLS && size == 96:
		for _, v := range valid {
			if x, y := blsG2Affine(v); x != nil {
				raw := cat(beN(x.b, 48), beN(x.a, 48), beN(y.b, 48), beN(y.a, 48))
				add("alt/uncompressed-subgroup", raw)
				add("alt/uncompressed-subgroup-flags", withFlags(raw, allFlags[1:]...)...)
				add("alt/uncompressed-subgroup-swapped", cat(beN(x.a, 48), beN(x.b, 48), beN(y.a, 48), beN(y.b, 48)))
				for k := int64(1); k <= 3; k++ {
					kp := new(big.Int).Mul(pBLS, big.NewInt(k))
					add("congruent/uncompressed-y+kp", cat(beN(x.b, 48), beN(x.a, 48), beN(new(big.Int).Add(y.b, kp), 48), beN(y.a, 48)),
						cat(beN(x.b, 48), beN(x.a, 48), beN(y.b, 48), beN(new(big.Int).Add(y.a, kp), 48)),
						cat(beN(x.b, 48), beN(new(big.Int).Add(x.a, kp), 48), beN(y.b, 48), beN(y.a, 48)))
				}
			}
		}
		for i := 0; i < n; i++ {
			off := blsG2OffSubgroup(r, 1)
			if x, y := blsG2Affine(off[0]); x != nil {
				raw := cat(beN(x.b, 48), beN(x.a, 48), beN(y.b, 48), beN(y.a, 48))
				add("alt/uncompressed-off-subgroup", raw)
				add("alt/uncompressed-off-subgroup", withFlags(raw, allFlags[1:]...)...)
				add("alt/uncompressed-off-subgroup", append(append([]byte{}, raw...), 0), raw[:191])
			}
		}
		add("alt/uncompressed-infinity", withFlags(make([]byte, 192), 0x40, 0x00, 0xc0)...)
	case in.Name == "p256":
		for _, v := range valid {
			if len(v) != 65 {
				continue
			}
			x, y := v[1:33], v[33:65]
			par := byte(2 + y[31]&1)
			add("alt/sec1-compressed", cat([]byte{par}, x), cat([]byte{par ^ 1}, x))
			add("alt/raw-xy", cat(x, y), cat(y, x))
			add("alt/sec1-hybrid", cat([]byte{4 + par}, x, y))
			add("alt/sec1-compressed-padded", cat([]byte{par}, x, make([]byte, 32)))
		}
	case strings.HasSuffix(in.Name, ".G1") && size == 64: // BN
		for _, v := range valid {
			x, y := v[:32], v[32:64]
			add("alt/x-only", x, cat([]byte{2 + y[31]&1}, x))
			add("alt/sec1-uncompressed", cat([]byte{4}, x, y))
			add("alt/swapped", cat(y, x))
		}
	case strings.HasSuffix(in.Name, ".G2") && size == 128: // BN
		for _, v := range valid {
			add("alt/x-only", v[:64])
			add("alt/swapped", cat(v[32:64], v[:32], v[96:128], v[64:96]), cat(v[64:128], v[:64]))
		}
	}
	// Edwards: the affine pair x||y / y||x (little endian) of valid points
	ep, isEd := edParams[in.Name]
	if in.Name == "ed25519" || in.Name == "ed25519+vartime" || in.Name == "ed25519vartime-pkg" {
		ep, isEd = edParam{pEd, big.NewInt(-1), edD25519}, true
	}
	if isEd {
		for _, v := range valid {
			if len(v) != size {
				continue
			}
			yb := append([]byte{}, v...)
			sign := yb[size-1] >> 7
			yb[size-1] &= 0x7f
			y := new(big.Int).SetBytes(rev(yb))
			yy := new(big.Int).Mul(y, y)
			u := new(big.Int).Sub(big.NewInt(1), yy)
			w := new(big.Int).Mul(ep.d, yy)
			w.Sub(ep.a, w).Mod(w, ep.p)
			if w.Sign() == 0 {
				continue
			}
			xx := u.Mul(u, new(big.Int).ModInverse(w, ep.p))
			xx.Mod(xx, ep.p)
			x := new(big.Int).ModSqrt(xx, ep.p)
			if x == nil {
				continue
			}
			if byte(x.Bit(0)) != sign {
				x.Sub(ep.p, x).Mod(x, ep.p)
			}
			xb := rev(beN(x, size))
			add("alt/raw-xy", cat(xb, yb), cat(yb, xb), cat(v, xb))
		}
	}
	return ins
}

var edD25519 = func() *big.Int {
	d := new(big.Int).Mul(big.NewInt(-121665), new(big.Int).ModInverse(big.NewInt(121666), pEd))
	return d.Mod(d, pEd)
}()
