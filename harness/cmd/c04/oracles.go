package main

// Oracles evaluated on the implementation alone: totality (no panic on any
// input, nor in later operations on an accepted value), membership of accepted
// values, decode(encode(P)) Equal P.

import (
	"bytes"
	"crypto/ecdh"
	"crypto/elliptic"
	"fmt"
	"math/big"
	"reflect"
	"strings"

	"go.dedis.ch/kyber/v4"
	"go.dedis.ch/kyber/v4/group/mod"

	"kyverif/grpprog"
	"kyverif/vh"
)

type outcome struct {
	ok    bool   // accepted
	panic string // non-empty: decoder panicked
	re    []byte // re-encoding of the accepted value
	pt    kyber.Point
	sc    kyber.Scalar
	// non-empty: a coordinate of the accepted point is stored outside [0,M)
	unreduced string
}

func newPoint(in grpprog.Inst) kyber.Point {
	p := in.G.Point()
	if in.VarTime {
		if a, ok := p.(kyber.AllowsVarTime); ok {
			a.AllowVarTime(true)
		}
	}
	return p
}

func decodePoint(in grpprog.Inst, b []byte) outcome { return decodePointInto(newPoint(in), b) }

// decodePointInto decodes into the given (possibly used) receiver.
func decodePointInto(p kyber.Point, b []byte) outcome {
	var o outcome
	var err error
	pan, msg := vh.Try(func() { err = p.UnmarshalBinary(append([]byte{}, b...)) })
	if pan {
		o.panic = "UnmarshalBinary: " + msg
		return o
	}
	if err != nil {
		return o
	}
	o.ok = true
	o.pt = p
	o.unreduced = unreducedCoordinate(p) // before MarshalBinary, which normalises in place
	pan, msg = vh.Try(func() {
		re, e := p.MarshalBinary()
		if e != nil {
			panic("MarshalBinary error: " + e.Error())
		}
		o.re = re
	})
	if pan {
		o.panic = "MarshalBinary after accept: " + msg
	}
	return o
}

func decodeScalar(g kyber.Group, b []byte) outcome { return decodeScalarInto(g.Scalar(), b) }

func decodeScalarInto(s kyber.Scalar, b []byte) outcome {
	var o outcome
	var err error
	pan, msg := vh.Try(func() { err = s.UnmarshalBinary(append([]byte{}, b...)) })
	if pan {
		o.panic = "UnmarshalBinary: " + msg
		return o
	}
	if err != nil {
		return o
	}
	o.ok = true
	o.sc = s
	pan, msg = vh.Try(func() {
		re, e := s.MarshalBinary()
		if e != nil {
			panic("MarshalBinary error: " + e.Error())
		}
		o.re = re
	})
	if pan {
		o.panic = "MarshalBinary after accept: " + msg
	}
	return o
}

func unsupported(msg string) bool {
	return strings.Contains(msg, "unsupported") || strings.Contains(msg, "not implemented")
}

// useAccepted pushes an accepted point through the group API; returns the first panic.
func useAccepted(in grpprog.Inst, r *vh.Rng, o outcome) (string, string) {
	g := in.G
	p := o.pt
	np := func() kyber.Point { return newPoint(in) }
	q := grpprog.Order(g)
	k := grpprog.MkScalar(g, r.EdgeScalar(q))
	steps := []struct {
		name string
		f    func()
	}{
		{"Clone", func() { _ = p.Clone().Equal(p) }},
		{"Equal", func() {
			if !p.Equal(p) {
				panic("oracle: accepted point not Equal to itself")
			}
		}},
		{"Add(P,P)", func() { np().Add(p, p).MarshalBinary() }},
		{"Add(P,Base)", func() { np().Add(p, np().Base()).MarshalBinary() }},
		{"Add(Base,P)", func() { np().Add(np().Base(), p).MarshalBinary() }},
		{"Sub(P,Base)", func() { np().Sub(p, np().Base()).MarshalBinary() }},
		{"Neg", func() { np().Neg(p).MarshalBinary() }},
		{"Mul(k,P)", func() { np().Mul(k, p).MarshalBinary() }},
		{"Mul(0,P)", func() { np().Mul(g.Scalar().Zero(), p).MarshalBinary() }},
		{"Add(P,Neg(P))", func() { np().Add(p, np().Neg(p)).MarshalBinary() }},
		{"Set", func() { np().Set(p).MarshalBinary() }},
		{"String", func() { _ = p.String() }},
		{"Data", func() { _, _ = p.Data() }},
		{"MarshalBinary-again", func() {
			b, _ := p.MarshalBinary()
			if !bytes.Equal(b, o.re) {
				panic("oracle: second MarshalBinary differs from the first")
			}
		}},
	}
	for _, s := range steps {
		pan, msg := vh.Try(s.f)
		if pan && !unsupported(msg) {
			return s.name, msg
		}
	}
	return "", ""
}

func useAcceptedScalar(g kyber.Group, r *vh.Rng, o outcome) (string, string) {
	s := o.sc
	q := grpprog.Order(g)
	k := grpprog.MkScalar(g, r.EdgeScalar(q))
	steps := []struct {
		name string
		f    func()
	}{
		{"Clone", func() { _ = s.Clone().Equal(s) }},
		{"Add", func() { g.Scalar().Add(s, k).MarshalBinary() }},
		{"Sub", func() { g.Scalar().Sub(k, s).MarshalBinary() }},
		{"Mul", func() { g.Scalar().Mul(s, k).MarshalBinary() }},
		{"Neg", func() { g.Scalar().Neg(s).MarshalBinary() }},
		{"Inv", func() {
			if !s.Equal(g.Scalar().Zero()) {
				g.Scalar().Inv(s).MarshalBinary()
			}
		}},
		{"Div", func() {
			if !s.Equal(g.Scalar().Zero()) {
				g.Scalar().Div(k, s).MarshalBinary()
			}
		}},
		{"Point.Mul", func() {
			if _, bare := g.(*scalarGroup); !bare {
				g.Point().Mul(s, nil).MarshalBinary()
			}
		}},
		{"String", func() { _ = s.String() }},
	}
	for _, st := range steps {
		pan, msg := vh.Try(st.f)
		if pan && !unsupported(msg) {
			return st.name, msg
		}
	}
	return "", ""
}

// member is the independent membership test of an accepted point, from its
// re-encoding; "" = member (or no promise made for this group).
type memberTest func(in grpprog.Inst, o outcome) string

func orderTimes(in grpprog.Inst, p kyber.Point) (isNull bool, err string) {
	// q*P = O computed as (q-1)*P + P (scalars are reduced mod q)
	g := in.G
	pan, msg := vh.Try(func() {
		m1 := g.Scalar().Neg(g.Scalar().One())
		isNull = newPoint(in).Add(newPoint(in).Mul(m1, p), p).Equal(newPoint(in).Null())
	})
	if pan {
		return false, msg
	}
	return isNull, ""
}

// edwardsMember: a x^2 + y^2 = 1 + d x^2 y^2 has a solution x for the encoded y,
// i.e. x^2 = (1 - y^2)/(a - d y^2) is a square, and y is canonical.
func edwardsMember(re []byte, ep edParam) string {
	P, a, d := ep.p, ep.a, ep.d
	y := new(big.Int).SetBytes(rev(re))
	y.SetBit(y, 8*len(re)-1, 0)
	if y.Cmp(P) >= 0 {
		return "re-encoding has y >= p"
	}
	yy := new(big.Int).Mul(y, y)
	u := new(big.Int).Sub(big.NewInt(1), yy)
	v := new(big.Int).Mul(d, yy)
	v.Sub(a, v)
	v.Mod(v, P)
	if v.Sign() == 0 {
		return "a - d y^2 = 0"
	}
	xx := u.Mul(u, new(big.Int).ModInverse(v, P))
	xx.Mod(xx, P)
	if big.Jacobi(xx, P) == -1 {
		return "no x with (x,y) on the curve"
	}
	return ""
}

func residueMember(re []byte, rp resParam) string {
	v := new(big.Int).SetBytes(re)
	if v.Sign() <= 0 || v.Cmp(rp.P) >= 0 {
		return "value outside (0,P)"
	}
	if new(big.Int).Exp(v, rp.Q, rp.P).Cmp(big.NewInt(1)) != 0 {
		return "v^Q != 1 (mod P): not in the subgroup of order Q"
	}
	return ""
}

func memberOf(in grpprog.Inst, o outcome, bnTwist map[string]fp2) string {
	re := o.re
	if ep, ok := edParams[in.Name]; ok {
		return edwardsMember(re, ep)
	}
	if rp, ok := resParams[in.Name]; ok {
		return residueMember(re, rp)
	}
	switch in.Name {
	case "ed25519", "ed25519+vartime", "ed25519vartime-pkg":
		return edwardsMember(re, edParam{pEd, big.NewInt(-1), new(big.Int).Mul(big.NewInt(-121665), new(big.Int).ModInverse(big.NewInt(121666), pEd))})
	case "p256":
		x := new(big.Int).SetBytes(re[1:33])
		y := new(big.Int).SetBytes(re[33:65])
		if x.Sign() == 0 && y.Sign() == 0 {
			return ""
		}
		if !elliptic.P256().IsOnCurve(x, y) {
			return "crypto/elliptic: not on curve"
		}
		if _, err := ecdh.P256().NewPublicKey(re); err != nil {
			return "crypto/ecdh rejects: " + err.Error()
		}
		return ""
	case "qr512":
		return residueMember(re, resParam{pQR512, qQR512, big.NewInt(2)})
	case "bn256.G1":
		if !bnG1OnCurve(re, pBN256) {
			return "y^2 != x^3+3"
		}
		return ""
	case "bn254.G1":
		if !bnG1OnCurve(re, pBN254) {
			return "y^2 != x^3+3"
		}
		return ""
	case "bn256.G2":
		if !bnG2OnCurve(re, pBN256, bnTwist["bn256"]) {
			return "not on the twist"
		}
		return ""
	case "bn254.G2":
		if !bnG2OnCurve(re, pBN254, bnTwist["bn254"]) {
			return "not on the twist"
		}
		return ""
	}
	if strings.HasSuffix(in.Name, ".G1") || strings.HasSuffix(in.Name, ".G2") || validatesOrder[in.Name] {
		// BLS12-381 (and every decoder that validates the order on the unchanged tree): prime-order subgroup
		isNull, err := orderTimes(in, o.pt)
		if err != "" {
			return "r*P panicked: " + err
		}
		if !isNull {
			return "r*P != O"
		}
		if sg, ok := o.pt.(kyber.SubGroupElement); ok && !sg.IsInCorrectGroup() {
			return "IsInCorrectGroup() = false"
		}
	}
	return ""
}

// unreducedCoordinate looks (by reflection) at the mod.Int coordinates X, Y, Z of the
// generic Edwards points: a coordinate outside [0,M) is not a field element.
func unreducedCoordinate(p kyber.Point) (why string) {
	defer func() {
		if recover() != nil {
			why = ""
		}
	}()
	v := reflect.ValueOf(p)
	if v.Kind() != reflect.Ptr || v.Elem().Kind() != reflect.Struct {
		return ""
	}
	for _, f := range []string{"X", "Y", "Z", "T"} {
		fv := v.Elem().FieldByName(f)
		if !fv.IsValid() || !fv.CanAddr() {
			continue
		}
		mi, ok := fv.Addr().Interface().(*mod.Int)
		if !ok || mi.M == nil {
			continue
		}
		val := mi.V.ToBigInt()
		m := vh.ScalarVal(mod.NewInt64(0, mi.M).Sub(mod.NewInt64(0, mi.M), mod.NewInt64(1, mi.M)))
		m.Add(m, big.NewInt(1))
		if val.Sign() < 0 || val.Cmp(m) >= 0 {
			return fmt.Sprintf("coordinate %s = %s is outside [0, %s)", f, val.String(), m.String())
		}
	}
	return ""
}

// validatesOrder: decoders outside the property's explicit list that, on the unchanged tree,
// refuse elements outside the order-r subgroup (the kilic target group checks e^r = 1 in
// FromBytes).  What a decoder validates it must keep validating: accepted => r*P = O.
// The other target groups (bn256, bn254, circl, gnark) do not validate GT membership;
// that is recorded in the distribution, not reported.
var validatesOrder = map[string]bool{"kilic.GT": true}

func describe(b []byte) map[string]interface{} {
	return map[string]interface{}{"len": len(b), "hex": vh.Hex(b)}
}

func failKey(group, what string) string { return fmt.Sprintf("C04/%s/%s", group, what) }
