package main

// (C) composite messages parsed from untrusted bytes: signatures, proofs,
// ciphertexts, VSS deals.  Oracle: malformed input produces an error, never a
// panic.  For the parsers with explicit slicing the class of the outcome
// (length guard refused / passed the guards / embedded element undecodable) is
// also compared with the model's splitters (CSplit cases).

import (
	"crypto/aes"
	"crypto/cipher"
	"crypto/sha256"
	"errors"
	"fmt"
	"reflect"
	"strings"

	"golang.org/x/crypto/hkdf"

	"go.dedis.ch/kyber/v4"
	"go.dedis.ch/kyber/v4/encrypt/ecies"
	"go.dedis.ch/kyber/v4/group/edwards25519"
	"go.dedis.ch/kyber/v4/group/edwards25519vartime"
	"go.dedis.ch/kyber/v4/group/p256"
	"go.dedis.ch/kyber/v4/pairing"
	"go.dedis.ch/kyber/v4/pairing/bls12381/circl"
	"go.dedis.ch/kyber/v4/pairing/bls12381/gnark"
	"go.dedis.ch/kyber/v4/pairing/bls12381/kilic"
	"go.dedis.ch/kyber/v4/pairing/bn254"
	"go.dedis.ch/kyber/v4/pairing/bn256"
	"go.dedis.ch/kyber/v4/proof"
	"go.dedis.ch/kyber/v4/share"
	pvss "go.dedis.ch/kyber/v4/share/vss/pedersen"
	rvss "go.dedis.ch/kyber/v4/share/vss/rabin"
	"go.dedis.ch/kyber/v4/sign/anon"
	"go.dedis.ch/kyber/v4/sign/bdn"
	"go.dedis.ch/kyber/v4/sign/bls"
	"go.dedis.ch/kyber/v4/sign/cosi"
	"go.dedis.ch/kyber/v4/sign/eddsa"
	"go.dedis.ch/kyber/v4/sign/schnorr"
	"go.dedis.ch/kyber/v4/sign/tbls"

	"kyverif/vh"
)

// mutations of a valid message: every length 0..len+40 (truncated / extended / random),
// single-bit flips, byte substitutions, splices of special blocks.
func mutations(r *vh.Rng, valid []byte, thorough bool, nflip int, blocks [][]byte, blockAt []int) []input {
	var out []input
	out = append(out, input{"valid", append([]byte{}, valid...)})
	max := len(valid) + 40
	step := 1
	if !thorough && max > 150 {
		step = max / 75
	}
	for n := 0; n <= max; n += step {
		if n <= len(valid) {
			out = append(out, input{"truncated", append([]byte{}, valid[:n]...)})
		} else {
			out = append(out, input{"extended", append(append([]byte{}, valid...), r.Bytes(n-len(valid))...)})
		}
		if n%4 == 0 || thorough {
			out = append(out, input{"random", r.Bytes(n)})
		}
	}
	for _, n := range []int{len(valid) - 2, len(valid) - 1, len(valid) + 1, len(valid) + 2} {
		if n >= 0 && n <= len(valid) {
			out = append(out, input{"truncated", append([]byte{}, valid[:n]...)}, input{"truncated-front", append([]byte{}, valid[len(valid)-n:]...)})
		}
	}
	out = append(out, input{"all-00", fill(len(valid), 0)}, input{"all-ff", fill(len(valid), 0xff)})
	nbits := 8 * len(valid)
	if nbits > 0 {
		if thorough && nbits <= 4096 || nbits <= nflip {
			for b := 0; b < nbits; b++ {
				c := append([]byte{}, valid...)
				c[b/8] ^= 1 << uint(b%8)
				out = append(out, input{"bitflip", c})
			}
		} else {
			for j := 0; j < nflip; j++ {
				b := r.Intn(nbits)
				c := append([]byte{}, valid...)
				c[b/8] ^= 1 << uint(b%8)
				out = append(out, input{"bitflip", c})
			}
		}
		for j := 0; j < nflip/4; j++ {
			c := append([]byte{}, valid...)
			c[r.Intn(len(c))] = []byte{0, 0xff, 0x80, 0x7f, 1}[r.Intn(5)]
			out = append(out, input{"byte-subst", c})
		}
	}
	for _, at := range blockAt {
		for _, bl := range blocks {
			if at+len(bl) <= len(valid) {
				c := append([]byte{}, valid...)
				copy(c[at:], bl)
				out = append(out, input{"splice", c})
			}
		}
	}
	return out
}

type parser struct {
	name   string
	valid  []byte
	run    func(b []byte) error
	class  func(b []byte, err error) (cls int, flags int) // nil: no model splitter
	kind   string                                         // CSplit header "CSplit # kind [params]"
	blocks [][]byte
	at     []int
	proto  bool // also mutate at the protobuf wire level
}

func drive(o vh.Opts, r *vh.Rng, rep *vh.Report, cb *caseBuf, p parser, nflip int) {
	// the valid message must be accepted, otherwise the harness is wrong
	var err error
	pan, msg := vh.Try(func() { err = p.run(append([]byte{}, p.valid...)) })
	if pan || err != nil {
		rep.Fail(failKey(p.name, "valid-message-refused"), fmt.Sprintf("the valid message is not accepted (panic=%v %s err=%v)", pan, msg, err), describe(p.valid))
		return
	}
	nmodel := 0
	muts := mutations(r, p.valid, o.Thorough, nflip, p.blocks, p.at)
	if p.proto {
		muts = append(muts, protoMutations(p.valid, 1)...)
	}
	for _, x := range muts {
		var err error
		pan, msg := vh.Try(func() { err = p.run(append([]byte{}, x.b...)) })
		verdict := "err"
		if err == nil {
			verdict = "ok"
		}
		cls, fl := -1, 0
		if p.class != nil && !pan {
			cls, fl = p.class(x.b, err)
		}
		rep.Count(p.name+"/"+vh.Hex(x.b), cls != 0 && len(x.b) > 0)
		rep.Dist("composite:" + p.name + ":" + x.class + ":" + verdict)
		if pan && strings.HasPrefix(msg, "oracle:") {
			rep.Fail(failKey(p.name, "accepted-value-unusable"), "the parser accepted a malformed message as a value that cannot be used: "+msg,
				map[string]interface{}{"parser": p.name, "class": x.class, "input": describe(x.b), "why": msg})
			cls = 98
		} else if pan {
			rep.Fail(failKey(p.name, "panics"), "parsing a malformed message panicked: "+msg,
				map[string]interface{}{"parser": p.name, "class": x.class, "input": describe(x.b), "panic": msg})
			cls = 98
		}
		nmodel++
		if p.class != nil && !o.Search && (o.Thorough || x.class == "valid" || strings.HasPrefix(x.class, "truncated") || x.class == "extended" || nmodel%3 == 0) {
			cb.add(p.kind, fmt.Sprintf("(%s, %d, %d)", vh.CoqBytes(x.b), fl, cls))
		}
	}
}

type fixedStream struct{ x kyber.XOF }

func (s *fixedStream) XORKeyStream(dst, src []byte) { s.x.XORKeyStream(dst, src) }

func has(err error, subs ...string) bool {
	if err == nil {
		return false
	}
	for _, s := range subs {
		if strings.Contains(err.Error(), s) {
			return true
		}
	}
	return false
}

func composites(o vh.Opts, r *vh.Rng, rep *vh.Report, cb *caseBuf) {
	nflip := 32
	if o.Thorough {
		nflip = 256
	}
	if o.Search {
		nflip = 128
	}
	ed := edwards25519.NewBlakeSHA256Ed25519()
	stream := func() cipher.Stream { return vh.NewSeqStream(r.Bytes(16)) }
	var edBlocks [][]byte
	for _, h := range edSmallOrder {
		edBlocks = append(edBlocks, unhex(h))
	}
	edBlocks = append(edBlocks, fill(32, 0xff), unhex("edd3f55c1a631258d69cf7a2def9de1400000000000000000000000000000010")) // L as a scalar

	// ---------------------------------------------------------------- Schnorr
	type suiteG interface {
		kyber.Group
		kyber.Random
	}
	for _, sg := range []struct {
		name string
		g    suiteG
	}{{"ed25519", ed}, {"ed25519vartime-pkg", edwards25519vartime.NewBlakeSHA256Ed25519(false)}, {"p256", p256.NewBlakeSHA256P256()}} {
		g := sg.g
		x := g.Scalar().Pick(stream())
		X := g.Point().Mul(x, nil)
		msg := r.Bytes(20)
		sig, err := schnorr.Sign(g, x, msg)
		if err != nil {
			rep.Note("schnorr.Sign failed: " + err.Error())
			continue
		}
		pl, sl := g.PointLen(), g.ScalarLen()
		drive(o, r, rep, cb, parser{name: "schnorr.Verify/" + sg.name, valid: sig,
			run: func(b []byte) error { return schnorr.Verify(g, X, msg, b) },
			class: func(b []byte, err error) (int, int) {
				if has(err, "signature of invalid length") {
					return 0, 0
				}
				return 1, 0
			},
			kind: fmt.Sprintf("CSplit # 0 [%d; %d]", pl, sl), blocks: edBlocks, at: []int{0, pl}}, nflip)
		// the public key is untrusted bytes too
		pub, _ := X.MarshalBinary()
		drive(o, r, rep, cb, parser{name: "schnorr.VerifyWithChecks(pub)/" + sg.name, valid: pub,
			run: func(b []byte) error { return schnorr.VerifyWithChecks(g, b, msg, sig) }, blocks: edBlocks, at: []int{0}}, nflip)
	}
	// ---------------------------------------------------------------- EdDSA
	{
		e := eddsa.NewEdDSA(stream())
		msg := r.Bytes(33)
		sig, _ := e.Sign(msg)
		drive(o, r, rep, cb, parser{name: "eddsa.Verify", valid: sig,
			run: func(b []byte) error { return eddsa.Verify(e.Public, msg, b) },
			class: func(b []byte, err error) (int, int) {
				if errors.Is(err, eddsa.ErrSignatureLength) {
					return 0, 0
				}
				return 1, 0
			},
			kind: "CSplit # 1 []", blocks: edBlocks, at: []int{0, 32}}, nflip)
		pub, _ := e.Public.MarshalBinary()
		drive(o, r, rep, cb, parser{name: "eddsa.VerifyWithChecks(pub)", valid: pub,
			run: func(b []byte) error { return eddsa.VerifyWithChecks(b, msg, sig) }, blocks: edBlocks, at: []int{0}}, nflip)
		priv, _ := e.MarshalBinary()
		drive(o, r, rep, cb, parser{name: "eddsa.UnmarshalBinary", valid: priv,
			run: func(b []byte) error { return (&eddsa.EdDSA{}).UnmarshalBinary(b) }}, nflip/2)
	}
	// ---------------------------------------------------------------- CoSi
	{
		n := 5 + r.Intn(6)
		var privs []kyber.Scalar
		var pubs []kyber.Point
		for i := 0; i < n; i++ {
			x := ed.Scalar().Pick(stream())
			privs = append(privs, x)
			pubs = append(pubs, ed.Point().Mul(x, nil))
		}
		msg := r.Bytes(24)
		var vs []kyber.Scalar
		var Vs []kyber.Point
		var masks [][]byte
		for i := 0; i < n; i++ {
			v, V := cosi.Commit(ed)
			vs, Vs = append(vs, v), append(Vs, V)
			m, _ := cosi.NewMask(ed, pubs, pubs[i])
			masks = append(masks, m.Mask())
		}
		aggV, aggMask, err := cosi.AggregateCommitments(ed, Vs, masks)
		if err == nil {
			mask, _ := cosi.NewMask(ed, pubs, nil)
			_ = mask.SetMask(aggMask)
			c, _ := cosi.Challenge(ed, aggV, mask.AggregatePublic, msg)
			var rs []kyber.Scalar
			for i := 0; i < n; i++ {
				ri, _ := cosi.Response(ed, privs[i], vs[i], c)
				rs = append(rs, ri)
			}
			aggr, _ := cosi.AggregateResponses(ed, rs)
			sig, _ := cosi.Sign(ed, aggV, aggr, mask)
			pl, sl := ed.PointLen(), ed.ScalarLen()
			drive(o, r, rep, cb, parser{name: "cosi.Verify", valid: sig,
				run: func(b []byte) error { return cosi.Verify(ed, pubs, msg, b, cosi.NewThresholdPolicy(1)) },
				class: func(b []byte, err error) (int, int) {
					vok := 0
					if len(b) >= pl && ed.Point().UnmarshalBinary(b[:pl]) == nil {
						vok = 1
					}
					switch {
					case has(err, "signature too short", "mismatching mask lengths"):
						return 0, vok
					case has(err, "unmarshalling of commitment failed"):
						return 2, vok
					}
					return 1, vok
				},
				kind: fmt.Sprintf("CSplit # 2 [%d; %d; %d]", pl, sl, n), blocks: edBlocks, at: []int{0, pl}}, nflip)
		} else {
			rep.Note("cosi setup failed: " + err.Error())
		}
	}
	// ---------------------------------------------------------------- ECIES
	for _, sg := range []struct {
		name string
		g    suiteG
	}{{"ed25519", ed}, {"p256", p256.NewBlakeSHA256P256()}} {
		g := sg.g
		x := g.Scalar().Pick(stream())
		X := g.Point().Mul(x, nil)
		ct, err := ecies.Encrypt(g, X, r.Bytes(40), sha256.New)
		if err != nil {
			rep.Note("ecies.Encrypt failed: " + err.Error())
			continue
		}
		pl := g.PointLen()
		drive(o, r, rep, cb, parser{name: "ecies.Decrypt/" + sg.name, valid: ct,
			run: func(b []byte) error { _, err := ecies.Decrypt(g, x, b, sha256.New); return err },
			class: func(b []byte, err error) (int, int) {
				if has(err, "invalid ecies cipher") {
					return 0, 0
				}
				return 1, 0
			},
			kind: fmt.Sprintf("CSplit # 3 [%d]", pl), blocks: edBlocks, at: []int{0}}, nflip)
	}
	// ---------------------------------------------------------------- anon.Decrypt
	{
		nk := 3 + r.Intn(3)
		mine := r.Intn(nk)
		var set anon.Set
		var privs []kyber.Scalar
		for i := 0; i < nk; i++ {
			x := ed.Scalar().Pick(stream())
			privs = append(privs, x)
			set = append(set, ed.Point().Mul(x, nil))
		}
		ct, err := anon.Encrypt(ed, r.Bytes(30), set)
		if err == nil {
			pl, sl := ed.PointLen(), ed.ScalarLen()
			drive(o, r, rep, cb, parser{name: "anon.Decrypt", valid: ct,
				run: func(b []byte) error { _, err := anon.Decrypt(ed, b, set, mine, privs[mine]); return err },
				class: func(b []byte, err error) (int, int) {
					xok := 0
					if len(b) >= pl && ed.Point().UnmarshalBinary(b[:pl]) == nil {
						xok = 1
					}
					if has(err, "ciphertext too short") {
						// the length guards; kok irrelevant for the first two, true for the last
						return 0, xok | 2
					}
					if err == nil || has(err, "failed MAC check") {
						return 1, xok | 2
					}
					return 2, xok // X undecodable, scalar out of range, wrong key, header mismatch
				},
				kind: fmt.Sprintf("CSplit # 6 [%d; %d; %d; %d; 16]", pl, sl, nk, mine), blocks: edBlocks, at: []int{0, pl}}, nflip)
		} else {
			rep.Note("anon.Encrypt failed: " + err.Error())
		}
	}
	// ---------------------------------------------------------------- proof.HashVerify
	{
		x, y := ed.Scalar().Pick(stream()), ed.Scalar().Pick(stream())
		B := ed.Point().Base()
		X, Y := ed.Point().Mul(x, nil), ed.Point().Mul(y, nil)
		R := ed.Point().Add(X, Y)
		preds := map[string]proof.Predicate{
			"rep":     proof.Rep("X", "x", "B"),
			"and-rep": proof.And(proof.Rep("X", "x", "B"), proof.Rep("R", "x", "B", "y", "B")),
			"or":      proof.Or(proof.Rep("X", "x", "B"), proof.Rep("Y", "x", "B")),
		}
		sval := map[string]kyber.Scalar{"x": x, "y": y}
		pval := map[string]kyber.Point{"B": B, "X": X, "Y": Y, "R": R}
		for _, name := range []string{"rep", "and-rep", "or"} {
			pred := preds[name]
			var choice map[proof.Predicate]int
			if name == "or" {
				choice = map[proof.Predicate]int{pred: 0}
			}
			var pr []byte
			var err error
			pan, msg := vh.Try(func() { pr, err = proof.HashProve(ed, "C04", pred.Prover(ed, sval, pval, choice)) })
			if pan || err != nil {
				rep.Note(fmt.Sprintf("proof.HashProve(%s) failed: %v %s", name, err, msg))
				continue
			}
			drive(o, r, rep, cb, parser{name: "proof.HashVerify/" + name, valid: pr,
				run:    func(b []byte) error { return proof.HashVerify(ed, "C04", pred.Verifier(ed, pval), b) },
				blocks: edBlocks, at: []int{0, 32, 64}}, nflip)
		}
	}
	// ---------------------------------------------------------------- BLS / TBLS / BDN
	suites := []struct {
		name string
		s    pairing.Suite
	}{{"bn256", bn256.NewSuite()}, {"kilic", kilic.NewBLS12381Suite()}, {"circl", circl.NewSuiteBLS12381()}, {"gnark", gnark.NewSuiteBLS12381()}, {"bn254", bn254.NewSuite()}}
	for si, ps := range suites {
		if !o.Thorough && !o.Search && si >= 4 {
			continue
		}
		s := ps.s
		msg := r.Bytes(16)
		nf := nflip / 4
		for _, on := range []string{"G1", "G2"} {
			if on == "G2" && si > 1 && !o.Thorough {
				continue
			}
			var sch interface {
				NewKeyPair(cipher.Stream) (kyber.Scalar, kyber.Point)
				Sign(kyber.Scalar, []byte) ([]byte, error)
				Verify(kyber.Point, []byte, []byte) error
			}
			sigGroup := s.G1()
			if on == "G1" {
				sch = bls.NewSchemeOnG1(s)
			} else {
				sch = bls.NewSchemeOnG2(s)
				sigGroup = s.G2()
			}
			var x kyber.Scalar
			var X kyber.Point
			var sig []byte
			var err error
			pan, pmsg := vh.Try(func() {
				x, X = sch.NewKeyPair(stream())
				sig, err = sch.Sign(x, msg)
			})
			if pan || err != nil {
				rep.Note(fmt.Sprintf("bls %s %s setup: %v %s", ps.name, on, err, pmsg))
				continue
			}
			drive(o, r, rep, cb, parser{name: "bls.Verify/" + ps.name + "." + on, valid: sig,
				run: func(b []byte) error { return sch.Verify(X, msg, b) }}, nf)
			// threshold BLS
			var ts interface {
				Sign(*share.PriShare, []byte) ([]byte, error)
				IndexOf([]byte) (int, error)
				VerifyPartial(*share.PubPoly, []byte, []byte) error
				Recover(*share.PubPoly, []byte, [][]byte, uint32, uint32) ([]byte, error)
			}
			keyGroup := s.G2()
			if on == "G1" {
				ts = tbls.NewThresholdSchemeOnG1(s)
			} else {
				ts = tbls.NewThresholdSchemeOnG2(s)
				keyGroup = s.G1()
			}
			n, t := 4, 3
			pri := share.NewPriPoly(keyGroup, uint32(t), nil, stream())
			pub := pri.Commit(keyGroup.Point().Base())
			var partials [][]byte
			for _, sh := range pri.Shares(uint32(n)) {
				ps, err := ts.Sign(sh, msg)
				if err != nil {
					break
				}
				partials = append(partials, ps)
			}
			if len(partials) == n {
				pl := sigGroup.PointLen()
				drive(o, r, rep, cb, parser{name: "tbls.VerifyPartial/" + ps.name + "." + on, valid: partials[1],
					run: func(b []byte) error { return ts.VerifyPartial(pub, msg, b) },
					class: func(b []byte, err error) (int, int) {
						if len(b) < 2 && err != nil {
							return 0, 0
						}
						return 1, 0
					},
					kind: "CSplit # 5 []"}, nf)
				drive(o, r, rep, cb, parser{name: "tbls.IndexOf/" + ps.name + "." + on, valid: partials[2],
					run: func(b []byte) error { _, err := ts.IndexOf(b); return err },
					class: func(b []byte, err error) (int, int) {
						if has(err, "invalid partial signature length") {
							return 0, 0
						}
						return 1, 0
					},
					kind: fmt.Sprintf("CSplit # 4 [%d]", pl)}, nf)
				drive(o, r, rep, cb, parser{name: "tbls.Recover(one-mutated)/" + ps.name + "." + on, valid: partials[0],
					run: func(b []byte) error {
						_, err := ts.Recover(pub, msg, [][]byte{b, partials[1], partials[2], partials[3]}, uint32(t), uint32(n))
						return err
					}}, nf/2+1)
			}
			// BDN
			var bs *bdn.Scheme
			if on == "G1" {
				bs = bdn.NewSchemeOnG1(s)
			} else {
				bs = bdn.NewSchemeOnG2(s)
			}
			pan, pmsg = vh.Try(func() {
				var pubs []kyber.Point
				var privs []kyber.Scalar
				for i := 0; i < 3; i++ {
					xi, Xi := bs.NewKeyPair(stream())
					privs, pubs = append(privs, xi), append(pubs, Xi)
				}
				var sigs [][]byte
				for i := range privs {
					sg, err := bs.Sign(privs[i], msg)
					if err != nil {
						panic(err)
					}
					sigs = append(sigs, sg)
				}
				mask, err := bdn.NewMask(keyGroup, pubs, nil)
				if err != nil {
					panic(err)
				}
				for i := range pubs {
					_ = mask.SetBit(i, true)
				}
				drive(o, r, rep, cb, parser{name: "bdn.AggregateSignatures(one-mutated)/" + ps.name + "." + on, valid: sigs[0],
					run: func(b []byte) error {
						_, err := bs.AggregateSignatures([][]byte{b, sigs[1], sigs[2]}, mask)
						return err
					}}, nf/2+1)
				drive(o, r, rep, cb, parser{name: "bdn.Verify/" + ps.name + "." + on, valid: sigs[0],
					run: func(b []byte) error { return bs.Verify(pubs[0], msg, b) }}, nf/2+1)
			})
			if pan {
				rep.Note(fmt.Sprintf("bdn %s %s setup: %s", ps.name, on, pmsg))
			}
		}
	}
	// ---------------------------------------------------------------- VSS deals
	vssDeals(o, r, rep, cb, nflip)
}

// sealRaw encrypts an arbitrary plaintext for a VSS verifier the way the dealer's
// EncryptedDeal does (ephemeral DH key signed by the dealer, HKDF, AES-GCM with a
// zero nonce and the context as additional data).
func sealRaw(suite *edwards25519.SuiteEd25519, dhSecret, dealerSec kyber.Scalar, recipient kyber.Point, ctx, plain []byte) (dhPub kyber.Point, dhBytes, sig, ct []byte, err error) {
	dhPub = suite.Point().Mul(dhSecret, nil)
	dhBytes, _ = dhPub.MarshalBinary()
	sig, err = schnorr.Sign(suite, dealerSec, dhBytes)
	if err != nil {
		return
	}
	pre := suite.Point().Mul(dhSecret, recipient)
	preB, _ := pre.MarshalBinary()
	key := make([]byte, 32)
	if _, err = hkdf.New(suite.Hash, preB, nil, ctx).Read(key); err != nil {
		return
	}
	blk, _ := aes.NewCipher(key)
	gcm, _ := cipher.NewGCM(blk)
	ct = gcm.Seal(nil, make([]byte, gcm.NonceSize()), plain, ctx)
	return
}

func vssDeals(o vh.Opts, r *vh.Rng, rep *vh.Report, cb *caseBuf, nflip int) {
	suite := edwards25519.NewBlakeSHA256Ed25519()
	stream := func() cipher.Stream { return vh.NewSeqStream(r.Bytes(16)) }
	n, t := 5, 3
	dealerSec := suite.Scalar().Pick(stream())
	dealerPub := suite.Point().Mul(dealerSec, nil)
	var vsec []kyber.Scalar
	var vpub []kyber.Point
	for i := 0; i < n; i++ {
		x := suite.Scalar().Pick(stream())
		vsec, vpub = append(vsec, x), append(vpub, suite.Point().Mul(x, nil))
	}
	secret := suite.Scalar().Pick(stream())
	idx := 1 + r.Intn(n-1)

	// ---- Pedersen
	pan, msg := vh.Try(func() {
		d, err := pvss.NewDealer(suite, dealerSec, secret, vpub, uint32(t))
		if err != nil {
			panic(err)
		}
		pd, err := d.PlaintextDeal(idx)
		if err != nil {
			panic(err)
		}
		plain, err := pd.Marshal()
		if err != nil {
			panic(err)
		}
		// context = H("vss-dealer" || dealer || "vss-verifiers" || verifiers)
		h := suite.Hash()
		h.Write([]byte("vss-dealer"))
		dealerPub.MarshalTo(h)
		h.Write([]byte("vss-verifiers"))
		for _, v := range vpub {
			v.MarshalTo(h)
		}
		ctx := h.Sum(nil)
		drive(o, r, rep, cb, parser{name: "vss.pedersen.Deal.Unmarshal", valid: plain,
			run: func(b []byte) error {
				dl := &pvss.Deal{}
				if err := dl.Unmarshal(b, suite); err != nil {
					return err
				}
				// an accepted deal holds no nil group element and is usable: its share value takes part
				// in arithmetic, its commitments encode and evaluate, and it re-marshals
				if w := nilInside(reflect.ValueOf(dl), "Deal", 0); w != "" {
					panic("oracle: accepted deal is not usable: " + w)
				}
				suite.Scalar().Add(dl.SecShare.V, dl.SecShare.V)
				for _, c := range dl.Commitments {
					if _, err := c.MarshalBinary(); err != nil {
						return err
					}
				}
				if len(dl.Commitments) > 0 {
					share.NewPubPoly(suite, suite.Point().Base(), dl.Commitments).Eval(dl.SecShare.I)
				}
				_, err := dl.Marshal()
				return err
			}, proto: true}, nflip*2)
		drive(o, r, rep, cb, parser{name: "vss.pedersen.ProcessEncryptedDeal(plaintext-mutated)", valid: plain,
			run: func(b []byte) error {
				v, err := pvss.NewVerifier(suite, vsec[idx], dealerPub, vpub)
				if err != nil {
					panic("harness: " + err.Error())
				}
				_, dhB, sig, ct, err := sealRaw(suite, suite.Scalar().Pick(stream()), dealerSec, vpub[idx], ctx, b)
				if err != nil {
					panic("harness: " + err.Error())
				}
				resp, err := v.ProcessEncryptedDeal(&pvss.EncryptedDeal{DHKey: dhB, Signature: sig, Cipher: ct})
				if err == nil && resp != nil && !resp.StatusApproved {
					return errors.New("complaint")
				}
				return err
			}, proto: true}, nflip)
		ed, err := d.EncryptedDeal(idx)
		if err != nil {
			panic(err)
		}
		for fi, field := range []string{"DHKey", "Signature", "Cipher"} {
			valid := [][]byte{ed.DHKey, ed.Signature, ed.Cipher}[fi]
			drive(o, r, rep, cb, parser{name: "vss.pedersen.ProcessEncryptedDeal(" + field + "-mutated)", valid: valid,
				run: func(b []byte) error {
					v, err := pvss.NewVerifier(suite, vsec[idx], dealerPub, vpub)
					if err != nil {
						panic("harness: " + err.Error())
					}
					e2 := &pvss.EncryptedDeal{DHKey: ed.DHKey, Signature: ed.Signature, Cipher: ed.Cipher}
					switch fi {
					case 0:
						e2.DHKey = b
					case 1:
						e2.Signature = b
					default:
						e2.Cipher = b
					}
					_, err = v.ProcessEncryptedDeal(e2)
					return err
				}}, nflip/2)
		}
	})
	if pan {
		rep.Fail(failKey("vss.pedersen", "setup-panics"), "honest Pedersen VSS set-up panicked: "+msg, nil)
	}

	// ---- Rabin
	pan, msg = vh.Try(func() {
		d, err := rvss.NewDealer(suite, dealerSec, secret, vpub, uint32(t))
		if err != nil {
			panic(err)
		}
		pd, err := d.PlaintextDeal(idx)
		if err != nil {
			panic(err)
		}
		plain, err := pd.Marshal()
		if err != nil {
			panic(err)
		}
		drive(o, r, rep, cb, parser{name: "vss.rabin.Deal.Unmarshal", valid: plain,
			run: func(b []byte) error {
				dl := &rvss.Deal{}
				if err := dl.Unmarshal(b, suite); err != nil {
					return err
				}
				if w := nilInside(reflect.ValueOf(dl), "Deal", 0); w != "" {
					panic("oracle: accepted deal is not usable: " + w)
				}
				suite.Scalar().Add(dl.SecShare.V, dl.SecShare.V)
				suite.Scalar().Add(dl.RndShare.V, dl.RndShare.V)
				for _, c := range dl.Commitments {
					if _, err := c.MarshalBinary(); err != nil {
						return err
					}
				}
				if len(dl.Commitments) > 0 {
					share.NewPubPoly(suite, suite.Point().Base(), dl.Commitments).Eval(dl.SecShare.I)
				}
				_, err := dl.Marshal()
				return err
			}, proto: true}, nflip*2)
		// context = XOF("vss-dealer") absorbing dealer || "vss-verifiers" || verifiers, 128 bytes
		hx := suite.XOF([]byte("vss-dealer"))
		dealerPub.MarshalTo(hx)
		hx.Write([]byte("vss-verifiers"))
		for _, v := range vpub {
			v.MarshalTo(hx)
		}
		ctx := make([]byte, 128)
		hx.Read(ctx)
		drive(o, r, rep, cb, parser{name: "vss.rabin.ProcessEncryptedDeal(plaintext-mutated)", valid: plain,
			run: func(b []byte) error {
				v, err := rvss.NewVerifier(suite, vsec[idx], dealerPub, vpub)
				if err != nil {
					panic("harness: " + err.Error())
				}
				dhP, _, sig, ct, err := sealRaw(suite, suite.Scalar().Pick(stream()), dealerSec, vpub[idx], ctx, b)
				if err != nil {
					panic("harness: " + err.Error())
				}
				resp, err := v.ProcessEncryptedDeal(&rvss.EncryptedDeal{DHKey: dhP, Signature: sig, Cipher: ct})
				if err == nil && resp != nil && !resp.Approved {
					return errors.New("complaint")
				}
				return err
			}, proto: true}, nflip)
		ed, err := d.EncryptedDeal(idx)
		if err != nil {
			panic(err)
		}
		for fi, field := range []string{"Signature", "Cipher"} {
			valid := [][]byte{ed.Signature, ed.Cipher}[fi]
			drive(o, r, rep, cb, parser{name: "vss.rabin.ProcessEncryptedDeal(" + field + "-mutated)", valid: valid,
				run: func(b []byte) error {
					v, err := rvss.NewVerifier(suite, vsec[idx], dealerPub, vpub)
					if err != nil {
						panic("harness: " + err.Error())
					}
					e2 := &rvss.EncryptedDeal{DHKey: ed.DHKey, Signature: ed.Signature, Cipher: ed.Cipher}
					if fi == 0 {
						e2.Signature = b
					} else {
						e2.Cipher = b
					}
					_, err = v.ProcessEncryptedDeal(e2)
					return err
				}}, nflip/2)
		}
	})
	if pan {
		rep.Fail(failKey("vss.rabin", "setup-panics"), "honest Rabin VSS set-up panicked: "+msg, nil)
	}
}
