package main

// Receiver history: decoding must be a function of the bytes alone.  Every
// decode is repeated into receivers that already hold something (Base, a
// random element, Null/Zero, the result of an earlier successful decode, the
// left-overs of an earlier FAILED decode); outcome, re-encoding, Equal and
// membership must be what a fresh receiver gives.

import (
	"bytes"

	"go.dedis.ch/kyber/v4"

	"kyverif/grpprog"
	"kyverif/vh"
)

var dirtyKinds = []string{"holds-Base", "holds-random-element", "holds-Null", "after-successful-decode", "after-failed-decode"}

type dirtyMaker struct {
	in       grpprog.Inst
	rnd      kyber.Point
	validEnc []byte
	failEnc  []byte
	n        int
}

func newDirtyMaker(in grpprog.Inst, r *vh.Rng, valid [][]byte) *dirtyMaker {
	d := &dirtyMaker{in: in}
	vh.Try(func() {
		d.rnd = newPoint(in).Mul(grpprog.MkScalar(in.G, r.BigBelow(grpprog.Order(in.G))), nil)
	})
	// a finite valid encoding (not the identity: the last ones are random multiples)
	for i := len(valid) - 1; i >= 0; i-- {
		if o := decodePoint(in, valid[i]); o.ok && o.panic == "" {
			d.validEnc = valid[i]
			break
		}
	}
	// an input of the advertised size that the decoder refuses (so that it has started to write)
	size := in.G.PointLen()
	cands := [][]byte{fill(size, 0xff)}
	if d.validEnc != nil {
		for _, bit := range []int{1, 9, 8*len(d.validEnc) - 2, 8*len(d.validEnc) - 10, 3} {
			if bit >= 0 && bit < 8*len(d.validEnc) {
				c := append([]byte{}, d.validEnc...)
				c[bit/8] ^= 1 << uint(bit%8)
				cands = append(cands, c)
			}
		}
	}
	for i := 0; i < 8; i++ {
		cands = append(cands, r.Bytes(size))
	}
	cands = append(cands, []byte{1, 2, 3}, nil)
	for _, c := range cands {
		if o := decodePoint(in, c); !o.ok && o.panic == "" {
			d.failEnc = c
			break
		}
	}
	return d
}

// receiver of the given kind, nil if it cannot be built for this group
func (d *dirtyMaker) make(kind int) (p kyber.Point) {
	pan, _ := vh.Try(func() {
		switch kind {
		case 0:
			p = newPoint(d.in).Base()
		case 1:
			if d.rnd != nil {
				p = newPoint(d.in).Set(d.rnd)
			}
		case 2:
			p = newPoint(d.in).Null()
		case 3:
			if d.validEnc != nil {
				p = newPoint(d.in)
				if p.UnmarshalBinary(append([]byte{}, d.validEnc...)) != nil {
					p = nil
				}
			}
		case 4:
			if d.failEnc != nil {
				p = newPoint(d.in)
				// start from a finite value, then fail
				if d.validEnc != nil {
					_ = p.UnmarshalBinary(append([]byte{}, d.validEnc...))
				}
				if p.UnmarshalBinary(append([]byte{}, d.failEnc...)) == nil {
					p = nil
				}
			}
		}
	})
	if pan {
		return nil
	}
	return p
}

// kinds to try for one input: all five for the structured classes, a rotating one or two otherwise
func (d *dirtyMaker) kindsFor(class string, nontrivial, big bool) []int {
	d.n++
	full := class == "valid" || len(class) > 4 && (class[:4] == "alt/" || class[:4] == "bls/" || class[:3] == "ed/") ||
		len(class) > 8 && class[:8] == "residue/" || class == "offcurve/small" || class == "len/all-00"
	switch {
	case full && !(big && class != "valid"):
		return []int{0, 1, 2, 3, 4}
	case nontrivial && !big:
		return []int{d.n % 5, (d.n + 2) % 5}
	default:
		return []int{d.n % 5}
	}
}

// comparePoint: outcome of a decode into a used receiver against the fresh one; "" = same
func compareOutcome(fresh, dirty outcome) string {
	if dirty.panic != "" {
		return "panics: " + dirty.panic
	}
	if dirty.ok != fresh.ok {
		if dirty.ok {
			return "accepted, although a fresh receiver refuses the same bytes"
		}
		return "refused, although a fresh receiver accepts the same bytes"
	}
	if !fresh.ok || fresh.panic != "" {
		return ""
	}
	if !bytes.Equal(dirty.re, fresh.re) {
		return "decoded value re-encodes differently (" + vh.Hex(dirty.re) + " instead of " + vh.Hex(fresh.re) + ")"
	}
	if fresh.pt != nil {
		eq := false
		pan, msg := vh.Try(func() { eq = dirty.pt.Equal(fresh.pt) && fresh.pt.Equal(dirty.pt) })
		if pan {
			return "Equal panics: " + msg
		}
		if !eq {
			return "decoded value is not Equal to the one decoded into a fresh receiver"
		}
	}
	if fresh.sc != nil {
		eq := false
		pan, msg := vh.Try(func() { eq = dirty.sc.Equal(fresh.sc) && fresh.sc.Equal(dirty.sc) })
		if pan {
			return "Equal panics: " + msg
		}
		if !eq {
			return "decoded scalar is not Equal to the one decoded into a fresh receiver"
		}
	}
	return ""
}

// ---- scalars
type dirtyScalars struct {
	g        kyber.Group
	rnd      kyber.Scalar
	validEnc []byte
	failEnc  []byte
	n        int
}

func newDirtyScalars(g kyber.Group, r *vh.Rng) *dirtyScalars {
	d := &dirtyScalars{g: g}
	q := grpprog.Order(g)
	d.rnd = grpprog.MkScalar(g, r.BigBelow(q))
	d.validEnc, _ = d.rnd.MarshalBinary()
	size := g.ScalarLen()
	for _, c := range [][]byte{fill(size, 0xff), r.Bytes(size + 1), {1, 2, 3}, nil} {
		if o := decodeScalar(g, c); !o.ok && o.panic == "" {
			d.failEnc = c
			break
		}
	}
	return d
}

func (d *dirtyScalars) make(kind int) (s kyber.Scalar) {
	pan, _ := vh.Try(func() {
		switch kind {
		case 0:
			s = d.g.Scalar().One()
		case 1:
			s = d.g.Scalar().Set(d.rnd)
		case 2:
			s = d.g.Scalar().Zero()
		case 3:
			s = d.g.Scalar()
			if s.UnmarshalBinary(append([]byte{}, d.validEnc...)) != nil {
				s = nil
			}
		case 4:
			if d.failEnc != nil {
				s = d.g.Scalar().Set(d.rnd)
				if s.UnmarshalBinary(append([]byte{}, d.failEnc...)) == nil {
					s = nil
				}
			}
		}
	})
	if pan {
		return nil
	}
	return s
}
