// Correspondence + oracle harness for property C04: decoding untrusted bytes
// never panics and admits only valid group elements.
//
//	(A) reference decoders (Ed25519, edwards25519vartime, P-256, BN256 G1, BN254 G1,
//	    mod.Int and Ed25519 scalars): outcome {Err, Ok re-encoding} of every generated
//	    byte string is written into cases_*.v and recomputed by the Coq model
//	    (Decode.DecodeRun.mismatches);
//	(B) every group (20 instances): oracles no-panic / accepted => member /
//	    later operations do not panic / decode(re-encode) Equal;
//	(C) composite parsers on malformed messages: no panic, and the length guards
//	    of the model's splitters agree with the implementation's verdict class.
package main

import (
	"bytes"
	"fmt"
	"math/big"
	"os"
	"strings"
	"time"

	"go.dedis.ch/kyber/v4"
	"go.dedis.ch/kyber/v4/group/mod"

	"kyverif/grpprog"
	"kyverif/vh"
)

type caseBuf struct {
	cf    *vh.CaseFile // cheap cases
	cfh   *vh.CaseFile // Edwards decodings (a field exponentiation per item)
	heavy bool
	rep   *vh.Report
	id    int
	kind  string
	its   []string
	per   int
}

func (c *caseBuf) add(kind string, item string) {
	if c.kind != kind {
		c.flush()
		c.kind = kind
	}
	c.its = append(c.its, item)
	if len(c.its) >= c.per {
		c.flush()
	}
}
func (c *caseBuf) flush() {
	if len(c.its) == 0 {
		return
	}
	cf := c.cf
	if strings.HasPrefix(c.kind, "CPoint # 0") || strings.HasPrefix(c.kind, "CPoint # 1") || strings.HasPrefix(c.kind, "CEdGen") || strings.HasPrefix(c.kind, "CResidue") {
		cf = c.cfh
	}
	cf.Items = append(cf.Items, fmt.Sprintf("%s %s", strings.Replace(c.kind, "#", fmt.Sprint(c.id), 1), vh.CoqList(c.its)))
	c.rep.Index(c.id, map[string]interface{}{"kind": c.kind, "items": len(c.its)})
	c.id++
	c.its = nil
}

func obsTerm(o outcome) string {
	if o.panic != "" {
		return "(Some [999])" // the model has no panic outcome: guaranteed mismatch
	}
	if !o.ok {
		return "None"
	}
	return "(Some " + vh.CoqBytes(o.re) + ")"
}

// reference decoder number of the Coq runner
func refGroup(name string) (int, bool) {
	switch name {
	case "ed25519":
		return 0, true
	case "ed25519vartime-pkg":
		return 1, true
	case "p256":
		return 2, true
	case "bn256.G1":
		return 3, true
	case "bn254.G1":
		return 4, true
	}
	return 0, false
}

func main() {
	o := vh.ParseFlags()
	rng := vh.NewRng(o.Seed)
	rep := vh.NewReport("C04", o.Seed, o.Tier)
	rep.Rule = "byte strings of length 0..2*size+40 (random, all-0x00, all-0xff), valid encodings with single-bit flips, truncations, extensions, coordinates >= p, coordinates +-1 (off-curve), wrong format bytes, Ed25519 small-order and non-canonical encodings, BLS12-381 curve points outside the subgroup, for all 20 group instances and their scalars; mutated Schnorr/EdDSA/BLS/TBLS/BDN/CoSi signatures, proofs, ECIES/anon ciphertexts and VSS deals. distinct = distinct (decoder, input); non-trivial = input of the advertised length or a composite message that passes the length guard"
	cf := &vh.CaseFile{Header: "From Kyber Require Import Decode.DecodeRun.", Type: "case", Runner: "mismatches"}
	cfh := &vh.CaseFile{Header: cf.Header, Type: "case", Runner: "mismatches"}
	cb := &caseBuf{cf: cf, cfh: cfh, rep: rep, per: 24}

	nvalid, nflip := 4, 48
	if o.Thorough {
		nvalid, nflip = 12, 256
	}
	if o.Search {
		nvalid, nflip = 16, 128
	}
	groups := append(grpprog.Groups(), extraGroups(rng.Fork(), o.Thorough, rep)...)
	// twist coefficients of the BN curves from the generators' encodings
	bnTwist := map[string]fp2{}
	for _, in := range groups {
		if in.Name == "bn256.G2" || in.Name == "bn254.G2" {
			gen, _ := in.G.Point().Base().MarshalBinary()
			p := pBN256
			if in.Name == "bn254.G2" {
				p = pBN254
			}
			bnTwist[strings.TrimSuffix(in.Name, ".G2")] = bnG2Coeff(gen, p)
		}
	}
	modelBudget := map[string]int{} // expensive model evaluations spent per parameterised instance
	edBudget, resBudget := 45, 80
	if o.Thorough {
		edBudget, resBudget = 400, 600
	}
	blsDecoders := map[string][]grpprog.Inst{} // "G1" -> the three back-ends
	for _, in := range groups {
		for _, be := range []string{"kilic", "circl", "gnark"} {
			if strings.HasPrefix(in.Name, be+".") {
				k := strings.TrimPrefix(in.Name, be+".")
				blsDecoders[k] = append(blsDecoders[k], in)
			}
		}
	}

	// ------------------------------------------------------------ composite parsers (concurrently, own report)
	timing := os.Getenv("C04_TIMING") != ""
	crep := vh.NewReport("C04", o.Seed, o.Tier)
	ccf := &vh.CaseFile{}
	ccb := &caseBuf{cf: ccf, cfh: ccf, rep: crep, per: 24, id: 1000000}
	cdone := make(chan struct{})
	go func() {
		defer close(cdone)
		tc := time.Now()
		pan, msg := vh.Try(func() { composites(o, vh.NewRng(o.Seed^0xC04C04), crep, ccb) })
		if pan {
			crep.Fail("C04/composites/harness-panic", "the composite-parser section of the harness panicked outside a guarded call: "+msg, nil)
		}
		ccb.flush()
		if timing {
			fmt.Fprintf(os.Stderr, "composites %6.2fs\n", time.Since(tc).Seconds())
		}
	}()

	// ------------------------------------------------------------ points
	for _, in := range groups {
		t0 := time.Now()
		if timing {
			defer func(n string, t time.Time) {}(in.Name, t0)
		}
		r := rng.Fork()
		size := in.G.PointLen()
		nv := nvalid
		nf := nflip
		if size > 200 { // GT: 384/576-byte encodings
			nv = 2
		}
		if lightGroup[in.Name] {
			nv, nf = 2, nflip/4
			if o.Thorough {
				nv, nf = 4, nflip/4
			}
		}
		ins := pointInputs(r, in, o.Thorough && !lightGroup[in.Name], nv, nf)
		offSub := map[string]bool{}
		if strings.HasSuffix(in.Name, ".G1") && size == 48 {
			for _, b := range blsG1OffSubgroup(r, nv) {
				ins = append(ins, input{"bls/off-subgroup", b})
				offSub[string(b)] = true
			}
		}
		if strings.HasSuffix(in.Name, ".G2") && size == 96 {
			for _, b := range blsG2OffSubgroup(r, nv) {
				ins = append(ins, input{"bls/off-subgroup", b})
				offSub[string(b)] = true
			}
		}
		gi, isRef := refGroup(in.Name)
		dm := newDirtyMaker(in, r, validEncodings(r, in, 2))
		for _, x := range ins {
			oc := decodePoint(in, x.b)
			rep.Count(in.Name+"/"+vh.Hex(x.b), len(x.b) == size)
			verdict := "err"
			if oc.ok {
				verdict = "ok"
			}
			rep.Dist("point:" + in.Name + ":" + x.class + ":" + verdict)
			replay := map[string]interface{}{"group": in.Name, "class": x.class, "input": describe(x.b)}
			if oc.panic != "" {
				replay["panic"] = oc.panic
				what := "decode-panics"
				if oc.ok {
					what = "accepted-then-MarshalBinary-panics"
				}
				if len(x.b) == 0 {
					what += "/empty"
				}
				rep.Fail(failKey(in.Name, what), "point decoder (or re-encoding of the accepted point) panicked: "+oc.panic, replay)
			}
			// the same bytes into used receivers
			for _, kind := range dm.kindsFor(x.class, len(x.b) == size, size > 200) {
				recv := dm.make(kind)
				if recv == nil {
					continue
				}
				od := decodePointInto(recv, x.b)
				rep.Dist("dirty-receiver:" + in.Name)
				why := compareOutcome(oc, od)
				if why == "" && od.ok && od.panic == "" {
					if m := memberOf(in, od, bnTwist); m != "" {
						why = "decoded value is not a member: " + m
					}
				}
				if why != "" {
					rep.Fail(failKey(in.Name, "decode-depends-on-receiver/"+dirtyKinds[kind]),
						"decoding into a receiver that "+dirtyKinds[kind]+" does not behave like decoding into a fresh one: "+why,
						map[string]interface{}{"group": in.Name, "class": x.class, "input": describe(x.b), "receiver": dirtyKinds[kind],
							"fresh-accepts": oc.ok, "fresh-re-encoding": vh.Hex(oc.re), "dirty-accepts": od.ok, "dirty-re-encoding": vh.Hex(od.re)})
				}
			}
			if isRef && !o.Search {
				cb.add(fmt.Sprintf("CPoint # %d", gi), "("+vh.CoqBytes(x.b)+", "+obsTerm(oc)+")")
			}
			// parameterised instances: their own exact models (the expensive items are sampled)
			if !o.Search {
				item := "(" + vh.CoqBytes(x.b) + ", " + obsTerm(oc) + ")"
				if ep, ok := edParams[in.Name]; ok {
					if len(x.b) != size || modelBudget[in.Name] < edBudget {
						if len(x.b) == size {
							modelBudget[in.Name]++
						}
						cb.add(fmt.Sprintf("CEdGen # %s %s %s %d", vh.CoqZ(ep.p), vh.CoqZ(ep.a), vh.CoqZ(ep.d), size), item)
					}
				}
				rp, isRes := resParams[in.Name]
				if in.Name == "qr512" {
					rp, isRes = resParam{pQR512, qQR512, big.NewInt(2)}, true
				}
				if isRes {
					v := new(big.Int).SetBytes(x.b)
					inRange := v.Sign() > 0 && v.Cmp(rp.P) < 0
					if !inRange || modelBudget[in.Name] < resBudget {
						if inRange {
							modelBudget[in.Name]++
						}
						cb.add(fmt.Sprintf("CResidue # %s %s %d", vh.CoqZ(rp.P), vh.CoqZ(rp.Q), size), item)
					}
				}
			}
			if !oc.ok || oc.panic != "" {
				continue
			}
			rep.Sample(map[string]interface{}{"group": in.Name, "class": x.class, "input": vh.Hex(x.b), "accepted-as": vh.Hex(oc.re)})
			if len(x.b) != size {
				rep.Dist("point:" + in.Name + ":accepted-with-other-length")
			}
			// accepted => member
			if why := oc.unreduced; why != "" {
				replay["why"] = why
				rep.Fail(failKey(in.Name, "accepts-unreduced-coordinate"), "decoder accepted a non-canonical coordinate and stores it unreduced (not a field element): "+why, replay)
			}
			if why := memberOf(in, oc, bnTwist); why != "" {
				replay["why"] = why
				replay["re-encoding"] = vh.Hex(oc.re)
				rep.Fail(failKey(in.Name, "accepts-non-member"), "decoder accepted an encoding of a value outside the promised set: "+why, replay)
			}
			if strings.HasSuffix(in.Name, ".GT") && !validatesOrder[in.Name] && len(x.b) == size {
				if isNull, e := orderTimes(in, oc.pt); e == "" && !isNull {
					rep.Dist("point:" + in.Name + ":accepted-outside-order-r-subgroup(no-promise)")
				}
			}
			if offSub[string(x.b)] {
				rep.Fail(failKey(in.Name, "accepts-wrong-subgroup"), "decoder accepted a curve point built without cofactor clearing", replay)
			}
			// later operations
			if step, msg := useAccepted(in, r, oc); step != "" {
				replay["step"] = step
				replay["panic"] = msg
				key := "accepted-then-" + step + "-panics"
				if strings.HasPrefix(msg, "oracle:") {
					key = "accepted-value-unusable/" + step
				}
				rep.Fail(failKey(in.Name, key), "operation on an accepted point failed: "+msg, replay)
			}
			// decode(re-encode) Equal
			o2 := decodePoint(in, oc.re)
			if !o2.ok || o2.panic != "" {
				replay["re-encoding"] = vh.Hex(oc.re)
				rep.Fail(failKey(in.Name, "re-encoding-rejected"), "the re-encoding of an accepted point is not accepted", replay)
			} else {
				eq := false
				pan, msg := vh.Try(func() { eq = o2.pt.Equal(oc.pt) && oc.pt.Equal(o2.pt) })
				if pan || !eq || !bytes.Equal(o2.re, oc.re) {
					replay["re-encoding"] = vh.Hex(oc.re)
					replay["panic"] = msg
					rep.Fail(failKey(in.Name, "roundtrip-not-equal"), "decode(encode(P)) is not Equal to P", replay)
				}
			}
		}
		if timing {
			fmt.Fprintf(os.Stderr, "points %-28s %6.2fs (before cross-backend)\n", in.Name, time.Since(t0).Seconds())
		}
		// BLS12-381 G1/G2, membership by a different back-end: the (canonical) re-encoding of a
		// value accepted by one back-end must be accepted, and re-encoded identically, by the others.
		// Different decisions on the raw input are only counted (not a violation of this property).
		for _, be := range []string{"kilic", "circl", "gnark"} {
			if !strings.HasPrefix(in.Name, be+".") || strings.HasSuffix(in.Name, ".GT") {
				continue
			}
			k := strings.TrimPrefix(in.Name, be+".")
			for _, x := range ins {
				oc := decodePoint(in, x.b)
				for _, other := range blsDecoders[k] {
					if other.Name == in.Name {
						continue
					}
					o2 := decodePoint(other, x.b)
					if o2.ok != oc.ok {
						rep.Dist("bls12381-raw-decision-differs:" + k + ":" + x.class)
					}
					if !oc.ok || oc.panic != "" {
						continue
					}
					o3 := decodePoint(other, oc.re)
					rep.Dist("bls12381-cross-membership:" + k)
					if !o3.ok || o3.panic != "" || !bytes.Equal(o3.re, oc.re) {
						rep.Fail(failKey(in.Name, "accepted-value-rejected-by-"+other.Name), "the re-encoding of a point accepted by one BLS12-381 back-end is not accepted (or re-encoded differently) by another back-end",
							map[string]interface{}{"class": x.class, "input": describe(x.b), "re-encoding": vh.Hex(oc.re), "other-accepts": o3.ok, "other-re": vh.Hex(o3.re), "other-panic": o3.panic})
					}
				}
			}
		}
	}
	cb.flush()

	// ------------------------------------------------------------ scalars
	seenScalar := map[string]bool{}
	for _, in := range append(append([]grpprog.Inst{}, groups...), scalarRings(rng.Fork(), o.Thorough)...) {
		if strings.HasSuffix(in.Name, ".G2") || strings.HasSuffix(in.Name, ".GT") || in.Name == "ed25519+vartime" || noScalar[in.Name] {
			continue
		}
		r := rng.Fork()
		g := in.G
		name := strings.TrimSuffix(in.Name, ".G1") + ".scalar"
		size := g.ScalarLen()
		q := grpprog.Order(g)
		// one run per scalar implementation and modulus
		skey := fmt.Sprintf("%T/%s/%v", g.Scalar(), q.String(), g.Scalar().ByteOrder())
		if seenScalar[skey] {
			continue
		}
		seenScalar[skey] = true
		le := g.Scalar().ByteOrder() == kyber.LittleEndian
		ns := 12
		if o.Thorough {
			ns = 60
		}
		if lightGroup[in.Name] {
			ns = ns / 2
			sampleLengths = true
		}
		sins := scalarInputs(r, g, o.Thorough && !lightGroup[in.Name], ns)
		sampleLengths = false
		ds := newDirtyScalars(g, r)
		for xi, x := range sins {
			oc := decodeScalar(g, x.b)
			kinds := []int{xi % 5}
			if len(x.b) == size {
				kinds = []int{0, 1, 2, 3, 4}
			}
			for _, kind := range kinds {
				recv := ds.make(kind)
				if recv == nil {
					continue
				}
				od := decodeScalarInto(recv, x.b)
				rep.Dist("dirty-receiver:" + name)
				if why := compareOutcome(oc, od); why != "" {
					rep.Fail(failKey(name, "decode-depends-on-receiver/"+dirtyKinds[kind]),
						"decoding a scalar into a receiver that "+dirtyKinds[kind]+" does not behave like decoding into a fresh one: "+why,
						map[string]interface{}{"scalar": name, "class": x.class, "input": describe(x.b), "receiver": dirtyKinds[kind],
							"fresh-accepts": oc.ok, "fresh-re-encoding": vh.Hex(oc.re), "dirty-accepts": od.ok, "dirty-re-encoding": vh.Hex(od.re)})
				}
			}
			rep.Count(name+"/"+vh.Hex(x.b), len(x.b) == size)
			verdict := "err"
			if oc.ok {
				verdict = "ok"
			}
			rep.Dist("scalar:" + name + ":" + x.class + ":" + verdict)
			replay := map[string]interface{}{"scalar": name, "class": x.class, "input": describe(x.b)}
			if oc.panic != "" {
				replay["panic"] = oc.panic
				rep.Fail(failKey(name, "decode-panics"), "scalar decoder panicked: "+oc.panic, replay)
			}
			_, isModInt := g.Scalar().(*mod.Int)
			if !o.Search && (isModInt || in.Name == "ed25519") {
				switch {
				case in.Name == "ed25519":
					cb.add("CScalar # 0 0 0", "("+vh.CoqBytes(x.b)+", "+obsTerm(oc)+")")
				case le:
					cb.add(fmt.Sprintf("CScalar # 2 %s %d", vh.CoqZ(q), size), "("+vh.CoqBytes(x.b)+", "+obsTerm(oc)+")")
				default:
					cb.add(fmt.Sprintf("CScalar # 1 %s %d", vh.CoqZ(q), size), "("+vh.CoqBytes(x.b)+", "+obsTerm(oc)+")")
				}
			}
			if !oc.ok || oc.panic != "" {
				continue
			}
			// accepted => the value is a canonical residue after re-encoding, and usable
			v := vh.ScalarVal(oc.sc)
			if v.Sign() < 0 || v.Cmp(q) >= 0 {
				replay["value"] = v.String()
				rep.Fail(failKey(name, "accepts-out-of-range"), "accepted scalar has a value outside [0,q)", replay)
			}
			if step, msg := useAcceptedScalar(g, r, oc); step != "" {
				replay["step"] = step
				replay["panic"] = msg
				rep.Fail(failKey(name, "accepted-then-"+step+"-panics"), "operation on an accepted scalar panicked: "+msg, replay)
			}
			o2 := decodeScalar(g, oc.re)
			if !o2.ok || o2.panic != "" || !bytes.Equal(o2.re, oc.re) || vh.ScalarVal(o2.sc).Cmp(v) != 0 {
				replay["re-encoding"] = vh.Hex(oc.re)
				rep.Fail(failKey(name, "roundtrip-not-equal"), "decode(encode(s)) does not have the value of s", replay)
			} else if !o2.sc.Equal(oc.sc) {
				// the property's round-trip clause speaks of points; recorded, not a violation here
				rep.Dist("scalar:" + name + ":accepted-non-canonical-not-Equal-to-its-re-decoding")
			}
		}
	}
	cb.flush()

	// ------------------------------------------------------------ join the composite section
	<-cdone
	rep.Evaluations += crep.Evaluations
	rep.Distinct += crep.Distinct // canonical texts are prefixed by the parser name: disjoint from the decoders'
	for k, v := range crep.Distribution {
		rep.Distribution[k] += v
	}
	rep.Failures = append(rep.Failures, crep.Failures...)
	for k, v := range crep.CaseIndex {
		rep.CaseIndex[k] = v
	}
	rep.Notes = append(rep.Notes, crep.Notes...)
	for _, sm := range crep.Samples {
		rep.Sample(sm)
	}
	cf.Items = append(cf.Items, ccf.Items...)

	if !o.Search {
		vh.WriteShards(o.Out, "c04e", cfh, 7, rep)
		vh.WriteShards(o.Out, "c04", cf, 30, rep)
	}
	rep.Write(o.Out)
}
