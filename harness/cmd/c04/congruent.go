package main

// "Coordinates >= field modulus" that are CONGRUENT to the coordinates of real
// group elements: coord + k*p (every k that fits the field width) of valid
// points, in particular of the curve points with the smallest coordinates
// (found by searching x = 0,1,2,...), because for a ~2^256 modulus only tiny
// coordinates leave room for + p.  A decoder that reduces before validating,
// but stores the raw value, accepts exactly these and nothing random.

import (
	"math/big"
	"strings"

	"kyverif/grpprog"
)

// smallPoints: canonical encodings of real curve points with the smallest x
// (Weierstrass groups with explicit coordinates).
func smallPoints(in grpprog.Inst, n int) [][]byte {
	var p, a, b *big.Int
	prefix := []byte{}
	switch in.Name {
	case "p256":
		p, a = pP256, big.NewInt(-3)
		b, _ = new(big.Int).SetString("5ac635d8aa3a93e7b3ebbd55769886bc651d06b0cc53b0f63bce3c3e27d2604b", 16)
		prefix = []byte{4}
	case "bn256.G1":
		p, a, b = pBN256, big.NewInt(0), big.NewInt(3)
	case "bn254.G1":
		p, a, b = pBN254, big.NewInt(0), big.NewInt(3)
	default:
		return nil
	}
	var out [][]byte
	for xv := int64(0); xv < 400 && len(out) < 2*n; xv++ {
		x := big.NewInt(xv)
		rhs := new(big.Int).Exp(x, big.NewInt(3), p)
		rhs.Add(rhs, new(big.Int).Mul(a, x)).Add(rhs, b).Mod(rhs, p)
		y := new(big.Int).ModSqrt(rhs, p)
		if y == nil {
			continue
		}
		out = append(out, cat(prefix, beN(x, 32), beN(y, 32)), cat(prefix, beN(x, 32), beN(new(big.Int).Sub(p, y), 32)))
	}
	return out
}

// congruentInputs: every coordinate of every given encoding shifted by k*p, alone and together.
func congruentInputs(l layout, encs [][]byte, size int) []input {
	if l.p == nil {
		return nil
	}
	var ins []input
	for _, v := range encs {
		if len(v) != size {
			continue
		}
		nc := l.ncoord
		if nc > 12 {
			nc = 12
		}
		all := append([]byte{}, v...)
		allOK := false
		for ci := 0; ci < nc; ci++ {
			x := l.getCoord(v, ci)
			for k := int64(1); k <= 8; k++ {
				nv := new(big.Int).Add(x, new(big.Int).Mul(l.p, big.NewInt(k)))
				c, ok := l.setCoord(v, ci, nv)
				if !ok {
					break
				}
				ins = append(ins, input{"congruent/coord+kp", c})
				if k == 1 {
					if c2, ok2 := l.setCoord(all, ci, nv); ok2 {
						all, allOK = c2, true
					}
				}
			}
		}
		if allOK && nc > 1 {
			ins = append(ins, input{"congruent/all-coords+p", all})
		}
	}
	return ins
}

// identity encodings with coordinates replaced by multiples of p (congruent to the identity's zeros)
func congruentIdentity(l layout, in grpprog.Inst, size int) []input {
	if l.p == nil || l.le || l.flags != 0 || strings.HasPrefix(in.Name, "residue") || in.Name == "qr512" {
		return nil
	}
	var ins []input
	var null []byte
	func() {
		defer func() { _ = recover() }()
		null, _ = in.G.Point().Null().MarshalBinary()
	}()
	if len(null) != size {
		return nil
	}
	for mask := 1; mask < 1<<uint(min(l.ncoord, 4)); mask++ {
		c := append([]byte{}, null...)
		ok := true
		for ci := 0; ci < min(l.ncoord, 4); ci++ {
			if mask>>uint(ci)&1 == 1 {
				var o bool
				if c, o = l.setCoord(c, ci, new(big.Int).Add(l.getCoord(null, ci), l.p)); !o {
					ok = false
					break
				}
			}
		}
		if ok {
			ins = append(ins, input{"congruent/identity+p", c})
		}
	}
	return ins
}
