package main

// Structured mutations at the protobuf wire level of a valid message (VSS deals):
// what random bytes / bit flips practically never produce - zero-length elements,
// duplicated / missing / reordered fields, empty payloads, wrong wire types,
// truncated and overlong varints, lengths beyond the buffer - at the top level
// and inside nested messages.  And the oracle on what the parser accepts: no nil
// Point / Scalar / pointer anywhere inside the decoded value.

import (
	"fmt"
	"reflect"

	"go.dedis.ch/kyber/v4"
)

type pfield struct {
	start, pstart, end int // key starts at start, payload at pstart, field ends at end
	num, wt            int
}

func uvarint(b []byte) (uint64, int) {
	var v uint64
	for i := 0; i < len(b) && i < 10; i++ {
		v |= uint64(b[i]&0x7f) << (7 * uint(i))
		if b[i] < 0x80 {
			return v, i + 1
		}
	}
	return 0, 0
}

func putUvarint(v uint64) []byte {
	var o []byte
	for v >= 0x80 {
		o = append(o, byte(v)|0x80)
		v >>= 7
	}
	return append(o, byte(v))
}

// parseFields splits a well-formed message; ok=false if it is not one.
func parseFields(b []byte) (fs []pfield, ok bool) {
	i := 0
	for i < len(b) {
		k, n := uvarint(b[i:])
		if n == 0 || k>>3 == 0 {
			return nil, false
		}
		f := pfield{start: i, num: int(k >> 3), wt: int(k & 7)}
		i += n
		switch f.wt {
		case 0:
			_, m := uvarint(b[i:])
			if m == 0 {
				return nil, false
			}
			f.pstart, i = i, i+m
		case 1:
			f.pstart, i = i, i+8
		case 5:
			f.pstart, i = i, i+4
		case 2:
			l, m := uvarint(b[i:])
			if m == 0 || l > uint64(len(b)) {
				return nil, false
			}
			f.pstart = i + m
			i = f.pstart + int(l)
		default:
			return nil, false
		}
		if i > len(b) {
			return nil, false
		}
		f.end = i
		fs = append(fs, f)
	}
	return fs, len(fs) > 0
}

func key(num, wt int) []byte { return putUvarint(uint64(num)<<3 | uint64(wt)) }

func lenDelim(num int, payload []byte) []byte {
	return cat(key(num, 2), putUvarint(uint64(len(payload))), payload)
}

// protoMutations: depth-limited structural mutations of a well-formed message.
func protoMutations(b []byte, depth int) []input {
	fs, ok := parseFields(b)
	if !ok {
		return nil
	}
	var out []input
	add := func(class string, ms ...[]byte) {
		for _, m := range ms {
			out = append(out, input{"proto/" + class, m})
		}
	}
	maxNum := 0
	for _, f := range fs {
		if f.num > maxNum {
			maxNum = f.num
		}
	}
	bounds := []int{0}
	for _, f := range fs {
		bounds = append(bounds, f.end)
	}
	insert := func(at int, piece []byte) []byte { return cat(b[:at], piece, b[at:]) }
	// zero-length elements of every field number, at every field boundary
	for num := 1; num <= maxNum+2; num++ {
		empty := cat(key(num, 2), []byte{0})
		for _, at := range bounds {
			add("empty-element", insert(at, empty))
		}
		add("many-empty-elements", cat(b, repeatBytes(empty, 40)))
		// other wire types for the same field number
		add("wrong-wiretype", cat(b, key(num, 0), []byte{1}))
		add("wrong-wiretype", cat(b, key(num, 0), []byte{0xff, 0xff, 0xff, 0xff, 0xff, 0xff, 0xff, 0xff, 0xff, 0x01}))
		add("wrong-wiretype", cat(b, key(num, 1), make([]byte, 8)))
		add("wrong-wiretype", cat(b, key(num, 5), make([]byte, 4)))
		add("wrong-wiretype", cat(b, key(num, 3)), cat(b, key(num, 4)), cat(b, key(num, 6)), cat(b, key(num, 7)))
		add("length-beyond-buffer", cat(b, key(num, 2), []byte{0xff, 0xff, 0xff, 0xff, 0x0f}))
		add("length-beyond-buffer", cat(b, key(num, 2), []byte{5, 1, 2}))
		add("overlong-varint", cat(b, key(num, 2), []byte{0x80, 0x80, 0x80, 0x00}))
		add("truncated-varint", cat(b, key(num, 2), []byte{0x80}), cat(b, key(num, 0), []byte{0xff}))
	}
	add("truncated-varint", cat(b, []byte{0x80}), cat(b, []byte{0xff, 0xff}))
	add("field-number-0", cat(b, []byte{0x02, 0x00}), cat([]byte{0x00, 0x00}, b))
	add("huge-field-number", cat(b, putUvarint(uint64(1)<<40|2), []byte{0}))
	for i, f := range fs {
		whole := b[f.start:f.end]
		add("duplicate-field", insert(f.end, whole))
		add("duplicate-field", cat(b, whole))
		add("remove-field", cat(b[:f.start], b[f.end:]))
		if f.wt == 2 {
			add("empty-payload", cat(b[:f.start], key(f.num, 2), []byte{0}, b[f.end:]))
			add("payload-one-byte", cat(b[:f.start], lenDelim(f.num, []byte{0}), b[f.end:]))
			if f.end-f.pstart > 1 {
				add("payload-short", cat(b[:f.start], lenDelim(f.num, b[f.pstart:f.end-1]), b[f.end:]))
				add("payload-long", cat(b[:f.start], lenDelim(f.num, cat(b[f.pstart:f.end], []byte{0})), b[f.end:]))
			}
			add("as-varint", cat(b[:f.start], key(f.num, 0), []byte{7}, b[f.end:]))
			// nested message: mutate inside and re-wrap
			if depth > 0 {
				for _, m := range protoMutations(b[f.pstart:f.end], depth-1) {
					if len(m.class) > 6 && (m.class[6:] == "empty-element" || m.class[6:] == "remove-field" || m.class[6:] == "empty-payload" ||
						m.class[6:] == "wrong-wiretype" || m.class[6:] == "duplicate-field") {
						add("nested-"+m.class[6:], cat(b[:f.start], lenDelim(f.num, m.b), b[f.end:]))
					}
				}
			}
		} else if f.wt == 0 {
			add("as-bytes", cat(b[:f.start], lenDelim(f.num, []byte{1}), b[f.end:]))
			add("as-bytes", cat(b[:f.start], key(f.num, 2), []byte{0}, b[f.end:]))
			add("varint-max", cat(b[:f.start], key(f.num, 0), []byte{0xff, 0xff, 0xff, 0xff, 0xff, 0xff, 0xff, 0xff, 0xff, 0x01}, b[f.end:]))
			add("varint-zero", cat(b[:f.start], key(f.num, 0), []byte{0}, b[f.end:]))
		}
		if i+1 < len(fs) {
			g := fs[i+1]
			add("swap-fields", cat(b[:f.start], b[g.start:g.end], b[f.start:f.end], b[g.end:]))
		}
	}
	return out
}

func repeatBytes(b []byte, n int) []byte {
	var o []byte
	for i := 0; i < n; i++ {
		o = append(o, b...)
	}
	return o
}

var (
	tPoint  = reflect.TypeOf((*kyber.Point)(nil)).Elem()
	tScalar = reflect.TypeOf((*kyber.Scalar)(nil)).Elem()
)

// nilInside walks an accepted value and reports the first nil group element / pointer inside it.
func nilInside(v reflect.Value, path string, depth int) string {
	if depth > 6 {
		return ""
	}
	switch v.Kind() {
	case reflect.Interface:
		if v.Type() == tPoint || v.Type() == tScalar {
			if v.IsNil() {
				return path + " is a nil " + v.Type().Name()
			}
			return ""
		}
		if v.IsNil() {
			return ""
		}
		return nilInside(v.Elem(), path, depth+1)
	case reflect.Ptr:
		if v.IsNil() {
			return path + " is a nil pointer"
		}
		return nilInside(v.Elem(), path, depth+1)
	case reflect.Struct:
		for i := 0; i < v.NumField(); i++ {
			if v.Type().Field(i).PkgPath != "" {
				continue
			}
			if w := nilInside(v.Field(i), path+"."+v.Type().Field(i).Name, depth+1); w != "" {
				return w
			}
		}
	case reflect.Slice, reflect.Array:
		if v.Type().Elem().Kind() == reflect.Uint8 {
			return ""
		}
		for i := 0; i < v.Len(); i++ {
			if w := nilInside(v.Index(i), fmt.Sprintf("%s[%d]", path, i), depth+1); w != "" {
				return w
			}
		}
	}
	return ""
}
