// Harness for property C20 (shared read-only use is free of data races).
//
// Deterministic part (every run): for every group implementation and for
// suites, masks, keys and public polynomials, a deep byte-level snapshot
// (reflection + unsafe walk over every field, limb, big.Int word and pointer)
// of each shared object is taken before and after each read-only call --
// encoding, printing, comparing, cloning, extracting data, being an operand of
// an operation that writes elsewhere, pairing, verifying with shared keys,
// drawing from a suite's random stream, cloning a mask.  Any changed byte is a
// write to shared memory (oracle failure) and is reported to Coq, where it is
// only admissible if the method's transcription has a write to that variable.
// The inputs are non-normalised (results of additions), so that lazy
// normalisation shows.  Outputs of repeated calls must agree.
//
// -search: many goroutines hammer the read-only methods on shared objects and
// compare every result with the sequential one (failing-schedule search; run
// it under `go run -race` to obtain a race report as a replay).
package main

import (
	"bytes"
	"crypto/cipher"
	"fmt"
	"math/big"
	"os"
	"os/exec"
	"path/filepath"
	"reflect"
	"regexp"
	"sort"
	"strings"
	"sync"
	"unsafe"

	"go.dedis.ch/kyber/v4"
	"go.dedis.ch/kyber/v4/pairing"
	"go.dedis.ch/kyber/v4/pairing/bls12381/kilic"
	"go.dedis.ch/kyber/v4/pairing/bn254"
	"go.dedis.ch/kyber/v4/share"
	"go.dedis.ch/kyber/v4/sign/bdn"
	"go.dedis.ch/kyber/v4/sign/bls"
	"go.dedis.ch/kyber/v4/sign/eddsa"
	"go.dedis.ch/kyber/v4/sign/schnorr"
	"kyverif/hg"
	"kyverif/vh"
)

// ---------------------------------------------------------------- deep snapshot

type snapper struct {
	seen  map[uintptr]bool
	lines []string
}

func numeric(k reflect.Kind) bool {
	switch k {
	case reflect.Bool, reflect.Int, reflect.Int8, reflect.Int16, reflect.Int32, reflect.Int64,
		reflect.Uint, reflect.Uint8, reflect.Uint16, reflect.Uint32, reflect.Uint64, reflect.Uintptr,
		reflect.Float32, reflect.Float64, reflect.Complex64, reflect.Complex128:
		return true
	}
	return false
}

func flat(t reflect.Type) bool { // contains no pointers: raw bytes are the whole state
	switch t.Kind() {
	case reflect.Array:
		return flat(t.Elem())
	case reflect.Struct:
		for i := 0; i < t.NumField(); i++ {
			if !flat(t.Field(i).Type) {
				return false
			}
		}
		return true
	}
	return numeric(t.Kind())
}

func rawBytes(p unsafe.Pointer, n uintptr) []byte {
	if n == 0 {
		return nil
	}
	return append([]byte(nil), unsafe.Slice((*byte)(p), int(n))...)
}

func (s *snapper) walk(v reflect.Value, path string, depth int) {
	if depth > 14 || len(s.lines) > 400000 {
		return
	}
	t := v.Type()
	if v.CanAddr() && flat(t) {
		s.lines = append(s.lines, path+"="+vh.Hex(rawBytes(unsafe.Pointer(v.UnsafeAddr()), t.Size())))
		return
	}
	switch v.Kind() {
	case reflect.Ptr:
		if v.IsNil() {
			s.lines = append(s.lines, path+"=nil")
			return
		}
		a := v.Pointer()
		s.lines = append(s.lines, fmt.Sprintf("%s=ptr:%x", path, a))
		if s.seen[a] {
			return
		}
		s.seen[a] = true
		s.walk(v.Elem(), path+"*", depth+1)
	case reflect.Struct:
		for i := 0; i < v.NumField(); i++ {
			f := v.Field(i)
			if f.CanAddr() {
				f = reflect.NewAt(f.Type(), unsafe.Pointer(f.UnsafeAddr())).Elem()
			}
			s.walk(f, path+"."+t.Field(i).Name, depth+1)
		}
	case reflect.Slice:
		if v.IsNil() {
			s.lines = append(s.lines, path+"=nilslice")
			return
		}
		s.lines = append(s.lines, fmt.Sprintf("%s=slice:%x/%d/%d", path, v.Pointer(), v.Len(), v.Cap()))
		et := t.Elem()
		if flat(et) {
			// the whole backing array b[:cap(b)]: an append by a reader writes past len
			if v.Cap() > 0 {
				s.lines = append(s.lines, path+"[:cap]="+vh.Hex(rawBytes(unsafe.Pointer(v.Pointer()), et.Size()*uintptr(v.Cap()))))
			}
			return
		}
		if v.Len() == 0 {
			return
		}
		if s.seen[v.Pointer()] {
			return
		}
		s.seen[v.Pointer()] = true
		for i := 0; i < v.Len(); i++ {
			s.walk(v.Index(i), fmt.Sprintf("%s[%d]", path, i), depth+1)
		}
	case reflect.Array:
		for i := 0; i < v.Len(); i++ {
			s.walk(v.Index(i), fmt.Sprintf("%s[%d]", path, i), depth+1)
		}
	case reflect.Interface:
		if v.IsNil() {
			s.lines = append(s.lines, path+"=nilif")
			return
		}
		s.walk(v.Elem(), path+"!", depth+1)
	case reflect.String:
		s.lines = append(s.lines, path+"=str:"+v.String())
	case reflect.Map:
		s.lines = append(s.lines, fmt.Sprintf("%s=map:%d", path, v.Len()))
	default:
		if numeric(v.Kind()) {
			s.lines = append(s.lines, fmt.Sprintf("%s=%v", path, v))
		}
	}
}

// snapshot returns the deep state of the object behind pointer / interface x
func snapshot(x interface{}) []string {
	s := &snapper{seen: map[uintptr]bool{}}
	s.walk(reflect.ValueOf(x), "", 0)
	return s.lines
}

func diff(a, b []string) string {
	if len(a) != len(b) {
		return fmt.Sprintf("shape changed (%d -> %d entries)", len(a), len(b))
	}
	for i := range a {
		if a[i] != b[i] {
			x, y := a[i], b[i]
			if len(x) > 160 {
				x = x[:160] + "..."
			}
			if len(y) > 160 {
				y = y[:160] + "..."
			}
			return x + "  ->  " + y
		}
	}
	return ""
}

// ---------------------------------------------------------------- per-group checks

const (
	rMarshal = iota
	rString
	rEqual
	rClone
	rData
	rMarshalTo
	rPair
	rScalarMarshal
	rScalarString
	rScalarEqual
	rScalarClone
)

var rname = []string{"MarshalBinary", "String", "Equal", "Clone", "Data", "MarshalTo", "Pair",
	"Scalar.MarshalBinary", "Scalar.String", "Scalar.Equal", "Scalar.Clone"}

type ctx struct {
	seen  map[string]bool
	rep   *vh.Report
	items []string
	id    int
}

// observe runs f (twice: results must agree), comparing deep snapshots of the shared objects
func (c *ctx) observe(key string, shared []interface{}, f func() string) []bool {
	before := make([][]string, len(shared))
	for i, o := range shared {
		before[i] = snapshot(o)
	}
	var r1, r2 string
	pan, msg := vh.Try(func() { r1 = f(); r2 = f() })
	changed := make([]bool, len(shared))
	if pan {
		c.rep.Fail(key+"/panic", msg, nil)
		return changed
	}
	if r1 != r2 {
		c.rep.Fail(key+"/result-not-repeatable", "two identical read-only calls returned different results",
			map[string]interface{}{"first": vh.Hex([]byte(r1)), "second": vh.Hex([]byte(r2))})
	}
	for i, o := range shared {
		after := snapshot(o)
		if d := diff(before[i], after); d != "" {
			changed[i] = true
			c.rep.Fail(fmt.Sprintf("%s/writes-shared-object[%d]", key, i),
				"a read-only call changed the memory of a shared object", map[string]interface{}{"call": key, "object": i, "first_difference": d})
		}
	}
	c.rep.Count(key, true)
	c.rep.Dist(key[bytes.IndexByte([]byte(key), ':')+1:])
	return changed
}

func boolList(b []bool) string {
	var s []string
	for _, x := range b {
		s = append(s, vh.CoqBool(x))
	}
	return vh.CoqList(s)
}

// emit / emitObj: the model's verdict depends only on (kind, implementation, method, changed), so
// identical tuples are emitted once (the index keeps the first call that produced them)
func (c *ctx) emit(kind string, a, b int, changed []bool, desc string) {
	k := fmt.Sprintf("%s %d %d %s", kind, a, b, boolList(changed))
	if c.seen == nil {
		c.seen = map[string]bool{}
	}
	if c.seen[k] {
		return
	}
	c.seen[k] = true
	c.id++
	c.items = append(c.items, fmt.Sprintf("(%s %d %d %d %s)", kind, c.id, a, b, boolList(changed)))
	c.rep.Index(c.id, desc)
}

// nonNormal returns a point in a non-normalised internal representation (result of additions)
func nonNormal(im *hg.Impl, rng *vh.Rng) kyber.Point {
	a := im.G.Point().Mul(im.NewScalar(rng.BigBelow(im.Q)), im.Gen())
	b := im.G.Point().Mul(im.NewScalar(rng.BigBelow(im.Q)), im.Gen())
	p := im.G.Point().Add(a, b)
	return im.G.Point().Add(p, a)
}

func groupChecks(c *ctx, im *hg.Impl, rng *vh.Rng, draws int) {
	for d := 0; d < draws; d++ {
		p, q := nonNormal(im, rng), nonNormal(im, rng)
		if d == 1 {
			q = im.G.Point().Sub(p, p) // identity, non-normalised
		}
		s, t := im.NewScalar(rng.BigBelow(im.Q)), im.NewScalar(rng.EdgeScalar(im.Q))
		pre := im.Name + ":"
		ro := func(rm int, shared []interface{}, f func() string) {
			ch := c.observe(pre+rname[rm], shared, f)
			impl := im.PImpl
			if rm >= rScalarMarshal {
				impl = im.SImpl
			}
			c.emit("CRead", impl, rm, ch, pre+rname[rm])
		}
		ro(rMarshal, []interface{}{p}, func() string { b, _ := p.MarshalBinary(); return string(b) })
		p = nonNormal(im, rng) // every call gets an input whose lazy normalisation has not happened yet
		ro(rString, []interface{}{p}, func() string { return p.String() })
		p = nonNormal(im, rng)
		ro(rEqual, []interface{}{p, q}, func() string { return fmt.Sprint(p.Equal(q), q.Equal(p), p.Equal(p)) })
		p, q = nonNormal(im, rng), nonNormal(im, rng)
		ro(rClone, []interface{}{p}, func() string { return hg.Enc(p.Clone()) })
		if im.HasEmbed {
			e := im.G.Point().Embed([]byte("data"), vh.NewSeqStream(rng.Bytes(8)))
			z := nonNormal(im, rng)
			e2 := im.G.Point().Sub(im.G.Point().Add(e, z), z) // the embedding in a non-normalised representation
			ro(rData, []interface{}{e2}, func() string { b, err := e2.Data(); return string(b) + fmt.Sprint(err) })
		}
		p = nonNormal(im, rng)
		ro(rMarshalTo, []interface{}{p}, func() string { var w bytes.Buffer; _, _ = p.MarshalTo(&w); return w.String() })
		p = nonNormal(im, rng)
		ro(rScalarMarshal, []interface{}{s}, func() string { b, _ := s.MarshalBinary(); return string(b) })
		ro(rScalarString, []interface{}{s}, func() string { return s.String() })
		ro(rScalarEqual, []interface{}{s, t}, func() string { return fmt.Sprint(s.Equal(t), t.Equal(s)) })
		ro(rScalarClone, []interface{}{s}, func() string { return hg.ScalarVal(s.Clone()).String() })

		// operands of operations that write a private receiver
		op := func(m int, name string, shared []interface{}, f func() string) {
			ch := c.observe(pre+"operand-of-"+name, shared, f)
			impl := im.PImpl
			if m >= 20 {
				impl = im.SImpl
			}
			c.emit("COperand", impl, m, append([]bool{false}, ch...), pre+"operand-of-"+name)
		}
		op(0, "Add", []interface{}{p, q}, func() string { return hg.Enc(im.G.Point().Add(p, q)) })
		op(1, "Sub", []interface{}{p, q}, func() string { return hg.Enc(im.G.Point().Sub(p, q)) })
		op(2, "Neg", []interface{}{p}, func() string { return hg.Enc(im.G.Point().Neg(p)) })
		op(3, "Mul", []interface{}{s, p}, func() string { return hg.Enc(im.G.Point().Mul(s, p)) })
		op(7, "Set", []interface{}{p}, func() string { return hg.Enc(im.G.Point().Set(p)) })
		op(20, "Scalar.Add", []interface{}{s, t}, func() string { return hg.ScalarVal(im.G.Scalar().Add(s, t)).String() })
		op(21, "Scalar.Sub", []interface{}{s, t}, func() string { return hg.ScalarVal(im.G.Scalar().Sub(s, t)).String() })
		op(22, "Scalar.Neg", []interface{}{s}, func() string { return hg.ScalarVal(im.G.Scalar().Neg(s)).String() })
		op(23, "Scalar.Mul", []interface{}{s, t}, func() string { return hg.ScalarVal(im.G.Scalar().Mul(s, t)).String() })
		if hg.ScalarVal(t).Sign() != 0 {
			op(24, "Scalar.Div", []interface{}{s, t}, func() string { return hg.ScalarVal(im.G.Scalar().Div(s, t)).String() })
			op(25, "Scalar.Inv", []interface{}{t}, func() string { return hg.ScalarVal(im.G.Scalar().Inv(t)).String() })
		}
		op(31, "Scalar.Set", []interface{}{s}, func() string { return hg.ScalarVal(im.G.Scalar().Set(s)).String() })
	}
}

// ---------------------------------------------------------------- internal forms

type pform struct {
	name string
	mk   func() kyber.Point
}
type sform struct {
	name string
	mk   func() kyber.Scalar
}

func mustBig(s string) *big.Int { v, _ := new(big.Int).SetString(s, 10); return v }

// field primes of the supported curves (to build encodings with unreduced coordinates)
var fieldPrimes = []*big.Int{
	new(big.Int).Sub(new(big.Int).Lsh(big.NewInt(1), 255), big.NewInt(19)),
	mustBig("115792089210356248762697446949407573530086143415290314195533631308867097853951"),
	mustBig("65000549695646603732796438742359905742825358107623003571877145026864184071783"),
	mustBig("21888242871839275222246405745257275088696311157297823662689037894645226208583"),
	mustBig("4002409555221667393417789825735904156556882819939007885332058136124031650490837864442687629129015664037894272559787"),
}

func revb(b []byte) []byte {
	o := make([]byte, len(b))
	for i := range b {
		o[len(b)-1-i] = b[i]
	}
	return o
}

// altEncodings: encodings that differ from the canonical one but may be accepted by
// UnmarshalBinary (unreduced coordinates, stray flag bits)
func altEncodings(enc []byte) [][]byte {
	var out [][]byte
	n := len(enc)
	add := func(b []byte) {
		if !bytes.Equal(b, enc) {
			out = append(out, b)
		}
	}
	var chunks [][2]int
	for _, parts := range []int{1, 2, 4, 12} {
		if n%parts == 0 {
			for i := 0; i < parts; i++ {
				chunks = append(chunks, [2]int{i * n / parts, (i + 1) * n / parts})
			}
		}
		if (n-1)%parts == 0 && n > 1 { // one leading format byte
			for i := 0; i < parts; i++ {
				chunks = append(chunks, [2]int{1 + i*(n-1)/parts, 1 + (i+1)*(n-1)/parts})
			}
		}
	}
	for _, ch := range chunks {
		l := ch[1] - ch[0]
		for _, le := range []bool{false, true} {
			raw := append([]byte(nil), enc[ch[0]:ch[1]]...)
			mask := byte(0)
			if le { // compressed Edwards form: sign bit in the top bit of the last byte
				mask = raw[l-1] & 0x80
				raw[l-1] &^= 0x80
				raw = revb(raw)
			}
			x := new(big.Int).SetBytes(raw)
			for _, P := range fieldPrimes {
				y := new(big.Int).Add(x, P)
				if y.BitLen() > 8*l || (le && y.BitLen() > 8*l-1) {
					continue
				}
				yb := y.FillBytes(make([]byte, l))
				if le {
					yb = revb(yb)
					yb[l-1] |= mask
				}
				b := append([]byte(nil), enc...)
				copy(b[ch[0]:ch[1]], yb)
				add(b)
			}
		}
	}
	for _, bit := range []byte{0x80, 0x40, 0x20} {
		b := append([]byte(nil), enc...)
		b[0] ^= bit
		add(b)
		b = append([]byte(nil), enc...)
		b[n-1] ^= bit
		add(b)
	}
	return out
}

func pointForms(im *hg.Impl, rng *vh.Rng) []pform {
	G := im.G
	sum := func() kyber.Point { return nonNormal(im, rng) }
	fs := []pform{
		{"sum", sum},
		{"decoded", func() kyber.Point { return im.FreshPoint(hg.Enc(sum())) }},
		{"identity:Sub(P,P)", func() kyber.Point { p := sum(); return G.Point().Sub(p, p) }},
		{"identity:Mul(0,P)", func() kyber.Point { return G.Point().Mul(G.Scalar().Zero(), sum()) }},
		{"identity:Null()", func() kyber.Point { return G.Point().Null() }},
		{"identity:decoded", func() kyber.Point { return im.FreshPoint(hg.Enc(G.Point().Null())) }},
		{"generator", func() kyber.Point { return im.Gen() }},
		{"Neg(sum)", func() kyber.Point { return G.Point().Neg(sum()) }},
		{"double", func() kyber.Point { p := sum(); return G.Point().Add(p, p) }},
		{"Clone(sum)", func() kyber.Point { return sum().Clone() }},
		{"Set(sum)", func() kyber.Point { return G.Point().Set(sum()) }},
		{"Mul(s,sum)", func() kyber.Point { return G.Point().Mul(im.NewScalar(rng.BigBelow(im.Q)), sum()) }},
	}
	if im.HasMulBase {
		fs = append(fs, pform{"Mul(s,nil)", func() kyber.Point { return G.Point().Mul(im.NewScalar(rng.BigBelow(im.Q)), nil) }})
	}
	if im.HasPick {
		fs = append(fs, pform{"Pick", func() kyber.Point { return G.Point().Pick(vh.NewSeqStream(rng.Bytes(8))) }})
	}
	if im.HasEmbed {
		fs = append(fs, pform{"Embed", func() kyber.Point { return G.Point().Embed([]byte("abc"), vh.NewSeqStream(rng.Bytes(8))) }})
	}
	// encodings UnmarshalBinary accepts although they are not what MarshalBinary produces
	n := 0
	for _, base := range []kyber.Point{G.Point().Null(), im.Gen(), sum()} {
		enc := []byte(hg.Enc(base))
		for _, alt := range altEncodings(enc) {
			alt := alt
			ok := false
			vh.Try(func() { ok = G.Point().UnmarshalBinary(alt) == nil })
			if !ok || n >= 8 {
				continue
			}
			n++
			fs = append(fs, pform{"noncanonical-encoding", func() kyber.Point {
				p := G.Point()
				_ = p.UnmarshalBinary(alt)
				return p
			}})
		}
	}
	return fs
}

func scalarForms(im *hg.Impl, rng *vh.Rng) []sform {
	G := im.G
	rnd := func() kyber.Scalar { return im.NewScalar(rng.BigBelow(im.Q)) }
	fs := []sform{
		{"random", rnd},
		{"Zero()", func() kyber.Scalar { return G.Scalar().Zero() }},
		{"One()", func() kyber.Scalar { return G.Scalar().One() }},
		{"SetInt64(-1)", func() kyber.Scalar { return G.Scalar().SetInt64(-1) }},
		{"Neg(0)", func() kyber.Scalar { return G.Scalar().Neg(G.Scalar().Zero()) }},
		{"Sub(a,a)", func() kyber.Scalar { a := rnd(); return G.Scalar().Sub(a, a) }},
		{"Mul(a,b)", func() kyber.Scalar { return G.Scalar().Mul(rnd(), rnd()) }},
		{"Pick", func() kyber.Scalar { return G.Scalar().Pick(vh.NewSeqStream(rng.Bytes(8))) }},
		{"SetBytes(long)", func() kyber.Scalar { return G.Scalar().SetBytes(rng.Bytes(70)) }},
		{"decoded", func() kyber.Scalar {
			b, _ := rnd().MarshalBinary()
			x := G.Scalar()
			_ = x.UnmarshalBinary(b)
			return x
		}},
	}
	// unreduced encodings accepted by UnmarshalBinary
	l := G.Scalar().MarshalSize()
	le := G.Scalar().ByteOrder() == kyber.LittleEndian
	var cands []*big.Int
	for _, k := range []int64{0, 7} {
		v := new(big.Int).Add(im.Q, big.NewInt(k))
		cands = append(cands, v, new(big.Int).Add(v, im.Q))
	}
	cands = append(cands, new(big.Int).Sub(new(big.Int).Lsh(big.NewInt(1), uint(8*l)), big.NewInt(1)),
		new(big.Int).Sub(new(big.Int).Lsh(big.NewInt(1), uint(8*l-1)), big.NewInt(1)))
	for _, v := range cands {
		if v.BitLen() > 8*l {
			continue
		}
		b := v.FillBytes(make([]byte, l))
		if le {
			b = revb(b)
		}
		ok := false
		vh.Try(func() { ok = G.Scalar().UnmarshalBinary(b) == nil })
		if ok {
			fs = append(fs, sform{"noncanonical-encoding", func() kyber.Scalar {
				x := G.Scalar()
				_ = x.UnmarshalBinary(b)
				return x
			}})
		}
	}
	return fs
}

// formChecks: the read-only method set on a fresh instance of every internal form; the group object
// itself is shared state as well
func formChecks(c *ctx, im *hg.Impl, rng *vh.Rng) {
	G := im.G
	pre := im.Name + ":"
	pfs, sfs := pointForms(im, rng), scalarForms(im, rng)
	normalP, normalS := nonNormal(im, rng), im.NewScalar(rng.BigBelow(im.Q))
	for _, f := range pfs {
		f := f
		ro := func(rm int, two bool, call func(p, q kyber.Point) string) {
			p := f.mk()
			q := normalP
			if two && rng.Bool() {
				q = f.mk()
			}
			shared := []interface{}{p}
			if two {
				shared = append(shared, q)
			}
			ch := c.observe(pre+rname[rm]+"{"+f.name+"}", append(shared, G), func() string { return call(p, q) })
			c.emit("CRead", im.PImpl, rm, ch[:len(shared)], pre+rname[rm]+"{"+f.name+"}")
			c.emitObj(6, ch[len(shared)], pre+rname[rm]+"{"+f.name+"} group object")
		}
		ro(rMarshal, false, func(p, _ kyber.Point) string { b, _ := p.MarshalBinary(); return string(b) })
		ro(rString, false, func(p, _ kyber.Point) string { return p.String() })
		ro(rEqual, true, func(p, q kyber.Point) string { return fmt.Sprint(p.Equal(q), q.Equal(p), p.Equal(p)) })
		ro(rClone, false, func(p, _ kyber.Point) string { return hg.Enc(p.Clone()) })
		ro(rMarshalTo, false, func(p, _ kyber.Point) string { var w bytes.Buffer; _, _ = p.MarshalTo(&w); return w.String() })
		if im.HasEmbed {
			ro(rData, false, func(p, _ kyber.Point) string { b, err := p.Data(); return string(b) + fmt.Sprint(err != nil) })
		}
		op := func(m int, name string, call func(p kyber.Point) string) {
			p := f.mk()
			ch := c.observe(pre+"operand-of-"+name+"{"+f.name+"}", []interface{}{p, normalP, normalS, G}, func() string { return call(p) })
			c.emit("COperand", im.PImpl, m, []bool{false, ch[0], ch[1]}, pre+"operand-of-"+name+"{"+f.name+"}")
			c.emitObj(6, ch[2] || ch[3], pre+"operand-of-"+name+"{"+f.name+"} scalar / group object")
		}
		op(0, "Add", func(p kyber.Point) string {
			return hg.Enc(G.Point().Add(p, normalP)) + hg.Enc(G.Point().Add(normalP, p))
		})
		op(1, "Sub", func(p kyber.Point) string {
			return hg.Enc(G.Point().Sub(p, normalP)) + hg.Enc(G.Point().Sub(normalP, p))
		})
		op(2, "Neg", func(p kyber.Point) string { return hg.Enc(G.Point().Neg(p)) })
		op(7, "Set", func(p kyber.Point) string { return hg.Enc(G.Point().Set(p)) })
		{
			p := f.mk()
			ch := c.observe(pre+"operand-of-Mul{"+f.name+"}", []interface{}{normalS, p, G}, func() string { return hg.Enc(G.Point().Mul(normalS, p)) })
			c.emit("COperand", im.PImpl, 3, []bool{false, ch[0], ch[1]}, pre+"operand-of-Mul{"+f.name+"}")
			c.emitObj(6, ch[2], pre+"operand-of-Mul group object")
		}
	}
	for _, f := range sfs {
		f := f
		ro := func(rm int, two bool, call func(s, t kyber.Scalar) string) {
			s := f.mk()
			t := normalS
			if two && rng.Bool() {
				t = f.mk()
			}
			shared := []interface{}{s}
			if two {
				shared = append(shared, t)
			}
			ch := c.observe(pre+rname[rm]+"{"+f.name+"}", append(shared, G), func() string { return call(s, t) })
			c.emit("CRead", im.SImpl, rm, ch[:len(shared)], pre+rname[rm]+"{"+f.name+"}")
			c.emitObj(6, ch[len(shared)], pre+rname[rm]+" group object")
		}
		ro(rScalarMarshal, false, func(s, _ kyber.Scalar) string { b, _ := s.MarshalBinary(); return string(b) })
		ro(rScalarString, false, func(s, _ kyber.Scalar) string { return s.String() })
		ro(rScalarEqual, true, func(s, t kyber.Scalar) string { return fmt.Sprint(s.Equal(t), t.Equal(s), s.Equal(s)) })
		ro(rScalarClone, false, func(s, _ kyber.Scalar) string { return hg.ScalarVal(s.Clone()).String() })
		ro(rScalarMarshal, false, func(s, _ kyber.Scalar) string { var w bytes.Buffer; _, _ = s.MarshalTo(&w); return w.String() })
		op := func(m int, name string, call func(s kyber.Scalar) string) {
			s := f.mk()
			ch := c.observe(pre+"operand-of-"+name+"{"+f.name+"}", []interface{}{s, normalS, G}, func() string { return call(s) })
			c.emit("COperand", im.SImpl, m, []bool{false, ch[0], ch[1]}, pre+"operand-of-"+name+"{"+f.name+"}")
			c.emitObj(6, ch[2], pre+"operand-of-"+name+" group object")
		}
		op(20, "Scalar.Add", func(s kyber.Scalar) string {
			return hg.ScalarVal(G.Scalar().Add(s, normalS)).String() + hg.ScalarVal(G.Scalar().Add(normalS, s)).String()
		})
		op(21, "Scalar.Sub", func(s kyber.Scalar) string {
			return hg.ScalarVal(G.Scalar().Sub(s, normalS)).String() + hg.ScalarVal(G.Scalar().Sub(normalS, s)).String()
		})
		op(22, "Scalar.Neg", func(s kyber.Scalar) string { return hg.ScalarVal(G.Scalar().Neg(s)).String() })
		op(23, "Scalar.Mul", func(s kyber.Scalar) string {
			return hg.ScalarVal(G.Scalar().Mul(s, normalS)).String() + hg.ScalarVal(G.Scalar().Mul(normalS, s)).String()
		})
		op(31, "Scalar.Set", func(s kyber.Scalar) string { return hg.ScalarVal(G.Scalar().Set(s)).String() })
		if new(big.Int).GCD(nil, nil, new(big.Int).Mod(hg.ScalarVal(f.mk()), im.Q), im.Q).Cmp(big.NewInt(1)) == 0 && f.name != "random" && f.name != "Pick" && f.name != "Mul(a,b)" && f.name != "SetBytes(long)" && f.name != "decoded" {
			op(25, "Scalar.Inv", func(s kyber.Scalar) string { return hg.ScalarVal(G.Scalar().Inv(s)).String() })
			op(24, "Scalar.Div", func(s kyber.Scalar) string { return hg.ScalarVal(G.Scalar().Div(normalS, s)).String() })
		}
		{ // as the scalar operand of a point multiplication
			s := f.mk()
			ch := c.observe(pre+"operand-of-Mul{scalar "+f.name+"}", []interface{}{s, normalP, G}, func() string { return hg.Enc(G.Point().Mul(s, normalP)) })
			c.emit("COperand", im.PImpl, 3, []bool{false, ch[0], ch[1]}, pre+"operand-of-Mul{scalar "+f.name+"}")
			c.emitObj(6, ch[2], pre+"operand-of-Mul group object")
		}
	}
}

func (c *ctx) emitObj(kind int, changed bool, desc string) {
	k := fmt.Sprintf("CObj %d %v", kind, changed)
	if c.seen == nil {
		c.seen = map[string]bool{}
	}
	if c.seen[k] {
		return
	}
	c.seen[k] = true
	c.id++
	c.items = append(c.items, fmt.Sprintf("(CObj %d %d %s)", c.id, kind, vh.CoqBool(changed)))
	c.rep.Index(c.id, desc)
}

func pairingChecks(c *ctx, name string, s pairing.Suite, g1, g2 *hg.Impl, rng *vh.Rng, draws int) {
	for d := 0; d < draws; d++ {
		p1, p2 := nonNormal(g1, rng), nonNormal(g2, rng)
		k := g1.NewScalar(rng.BigBelow(g1.Q))
		p3 := g1.G.Point().Mul(k, p1)
		kinv := g1.G.Scalar().Inv(k)
		p4 := g2.G.Point().Mul(kinv, p2)
		ch := c.observe(name+":Suite.Pair", []interface{}{p1, p2}, func() string { return hg.Enc(s.Pair(p1, p2)) })
		c.emit("CRead", g1.PImpl, rPair, ch, name+":Suite.Pair")
		ch = c.observe(name+":Suite.ValidatePairing", []interface{}{p1, p2, p3, p4}, func() string {
			return fmt.Sprint(s.ValidatePairing(p1, p2, p3, p4), s.ValidatePairing(p1, p2, p1, p2), s.ValidatePairing(p1, p2, p3, p2))
		})
		c.emit("CRead", g1.PImpl, rPair, ch[:2], name+":Suite.ValidatePairing(1,2)")
		c.emit("CRead", g1.PImpl, rPair, ch[2:], name+":Suite.ValidatePairing(3,4)")
		// suite used for hashing / random stream / scheme verification with shared keys
		obj := func(kind int, what string, shared []interface{}, f func() string) {
			chs := c.observe(name+":"+what, shared, f)
			any := false
			for _, x := range chs {
				any = any || x
			}
			c.id++
			c.items = append(c.items, fmt.Sprintf("(CObj %d %d %s)", c.id, kind, vh.CoqBool(any)))
			c.rep.Index(c.id, name+":"+what)
		}
		obj(0, "Suite.RandomStream", []interface{}{s}, func() string {
			b := make([]byte, 16)
			s.RandomStream().XORKeyStream(b, b)
			return ""
		})
		obj(1, "Suite.Hash/XOF", []interface{}{s}, func() string {
			h := s.Hash()
			h.Write([]byte("x"))
			x := s.XOF([]byte("seed"))
			o := make([]byte, 8)
			x.Read(o)
			return string(h.Sum(nil)) + string(o)
		})
		sch := bls.NewSchemeOnG1(s)
		priv, pub := sch.NewKeyPair(vh.NewSeqStream(rng.Bytes(8)))
		msg := []byte("message")
		sig, err := sch.Sign(priv, msg)
		if err == nil {
			obj(2, "bls.Verify(shared key)", []interface{}{pub, s}, func() string {
				return fmt.Sprint(sch.Verify(pub, msg, sig), sch.Verify(pub, []byte("other"), sig) != nil)
			})
		}
		// bdn mask clone
		var pubs []kyber.Point
		for i := 0; i < 4; i++ {
			_, pk := bdn.NewSchemeOnG1(s).NewKeyPair(vh.NewSeqStream(rng.Bytes(8)))
			pubs = append(pubs, pk)
		}
		if m, err := bdn.NewMask(s.G2(), pubs, nil); err == nil {
			_ = m.SetBit(1, true)
			obj(3, "bdn.Mask.Clone", []interface{}{m}, func() string {
				cl := m.Clone()
				_ = cl.SetBit(2, true)
				return string(m.Mask())
			})
		}
	}
}

// suiteChecks: suites, their groups, scheme objects, key pairs and the caller's own tag slices are
// shared state too.  Suites are configured the way the API allows (custom domain separation tags
// of lengths that are not allocator size classes, given as slices with spare capacity) and every
// call that goes through them is bracketed by deep snapshots (slices up to their capacity).
func suiteChecks(c *ctx, rng *vh.Rng) {
	type cfg struct {
		name   string
		s      pairing.Suite
		extras []interface{}
	}
	tag := func(n int) []byte {
		b := make([]byte, n, n+9+rng.Intn(8))
		copy(b, rng.Bytes(n))
		return b
	}
	var cfgs []cfg
	for _, ln := range [][2]int{{20, 33}, {31, 5}, {47, 21}, {1, 100}} {
		t1, t2 := tag(ln[0]), tag(ln[1])
		b := bn254.NewSuite()
		b.SetDomainG1(t1)
		b.SetDomainG2(t2)
		cfgs = append(cfgs, cfg{fmt.Sprintf("bn254{dst %d,%d}", ln[0], ln[1]), b, []interface{}{&t1, &t2}})
		t3, t4 := tag(ln[0]), tag(ln[1])
		cfgs = append(cfgs, cfg{fmt.Sprintf("bls12381.kilic{dst %d,%d}", ln[0], ln[1]), kilic.NewBLS12381SuiteWithDST(t3, t4), []interface{}{&t3, &t4}})
		if ks, ok := kilic.NewBLS12381Suite().(*kilic.Suite); ok {
			t5, t6 := tag(ln[0]), tag(ln[1])
			ks.SetDomainG1(t5)
			ks.SetDomainG2(t6)
			cfgs = append(cfgs, cfg{fmt.Sprintf("bls12381.kilic{SetDomain %d,%d}", ln[0], ln[1]), ks, []interface{}{&t5, &t6}})
		}
	}
	cfgs = append(cfgs, cfg{"bn254{default}", bn254.NewSuite(), nil})
	for _, cf := range cfgs {
		s := cf.s
		g1, g2 := s.G1(), s.G2()
		old1, old2 := g1.Point().Base(), g2.Point().Base()
		shared := append([]interface{}{s, g1, g2, old1, old2}, cf.extras...)
		msg := []byte("message to hash")
		obj := func(what string, more []interface{}, f func() string) {
			chs := c.observe(cf.name+":"+what, append(append([]interface{}{}, shared...), more...), f)
			any := false
			for _, x := range chs {
				any = any || x
			}
			c.emitObj(7, any, cf.name+":"+what)
		}
		hashTo := func(g kyber.Group) string {
			p := g.Point()
			if h, ok := p.(kyber.HashablePoint); ok {
				return hg.Enc(h.Hash(msg))
			}
			return ""
		}
		obj("hash-to-G1", nil, func() string { return hashTo(s.G1()) + hashTo(g1) })
		obj("hash-to-G2", nil, func() string { return hashTo(s.G2()) + hashTo(g2) })
		obj("Point/Scalar factories", nil, func() string {
			return hg.Enc(s.G1().Point().Base()) + hg.Enc(g2.Point().Null()) + hg.ScalarVal(g1.Scalar().One()).String()
		})
		obj("Pick", nil, func() string {
			return hg.Enc(g1.Point().Pick(vh.NewSeqStream([]byte("a")))) + hg.Enc(g2.Point().Pick(vh.NewSeqStream([]byte("b"))))
		})
		type scheme interface {
			NewKeyPair(cipher.Stream) (kyber.Scalar, kyber.Point)
			Sign(kyber.Scalar, []byte) ([]byte, error)
			Verify(kyber.Point, []byte, []byte) error
		}
		names := []string{"bls.G1", "bls.G2", "bdn.G1", "bdn.G2"}
		for i, sch := range []scheme{bls.NewSchemeOnG1(s), bls.NewSchemeOnG2(s), bdn.NewSchemeOnG1(s), bdn.NewSchemeOnG2(s)} {
			which := names[i]
			priv, pub := sch.NewKeyPair(vh.NewSeqStream(rng.Bytes(8)))
			var sig []byte
			obj(which+".Sign(shared key)", []interface{}{priv, pub, sch}, func() string {
				var err error
				sig, err = sch.Sign(priv, msg)
				return string(sig) + fmt.Sprint(err)
			})
			obj(which+".Verify(shared key)", []interface{}{priv, pub, sch}, func() string {
				return fmt.Sprint(sch.Verify(pub, msg, sig), sch.Verify(pub, []byte("other"), sig) != nil)
			})
		}
		p1, p2 := g1.Point().Mul(g1.Scalar().SetInt64(5), nil), g2.Point().Mul(g2.Scalar().SetInt64(7), nil)
		obj("Pair/ValidatePairing", []interface{}{p1, p2}, func() string {
			return hg.Enc(s.Pair(p1, p2)) + fmt.Sprint(s.ValidatePairing(p1, p2, p1, p2))
		})
		obj("RandomStream/Hash/XOF", nil, func() string {
			b := make([]byte, 8)
			s.RandomStream().XORKeyStream(b, b)
			h := s.Hash()
			h.Write(msg)
			return string(h.Sum(nil))
		})
	}
	// EdDSA key object shared for signing and verification
	e := eddsa.NewEdDSA(vh.NewSeqStream(rng.Bytes(8)))
	msg := []byte("m")
	var sig []byte
	ch := c.observe("eddsa:Sign(shared key)", []interface{}{e}, func() string { sig, _ = e.Sign(msg); return string(sig) })
	c.emitObj(8, ch[0], "eddsa:Sign")
	ch = c.observe("eddsa:Verify(shared key)", []interface{}{e, e.Public}, func() string { return fmt.Sprint(eddsa.Verify(e.Public, msg, sig)) })
	c.emitObj(8, ch[0] || ch[1], "eddsa:Verify")
}

func schemeChecks(c *ctx, im *hg.Impl, rng *vh.Rng) {
	name := im.Name
	obj := func(kind int, what string, shared []interface{}, f func() string) {
		chs := c.observe(name+":"+what, shared, f)
		any := false
		for _, x := range chs {
			any = any || x
		}
		c.id++
		c.items = append(c.items, fmt.Sprintf("(CObj %d %d %s)", c.id, kind, vh.CoqBool(any)))
		c.rep.Index(c.id, name+":"+what)
	}
	// public polynomial shared for evaluation
	secret := im.NewScalar(rng.BigBelow(im.Q))
	pri := share.NewPriPoly(im.G, 3, secret, vh.NewSeqStream(rng.Bytes(8)))
	pub := pri.Commit(nonNormal(im, rng))
	obj(4, "share.PubPoly.Eval/Commit", []interface{}{pub}, func() string {
		return hg.Enc(pub.Eval(2).V) + hg.Enc(pub.Commit())
	})
}

type schnorrSuite interface {
	kyber.Group
	kyber.Random
}

// ---------------------------------------------------------------- failing-schedule search

func stress(c *ctx, im *hg.Impl, rng *vh.Rng) {
	p, q := nonNormal(im, rng), nonNormal(im, rng)
	s := im.NewScalar(rng.BigBelow(im.Q))
	calls := map[string]func() string{
		"MarshalBinary":  func() string { b, _ := p.MarshalBinary(); return string(b) },
		"String":         func() string { return p.String() },
		"Equal":          func() string { return fmt.Sprint(p.Equal(q)) },
		"Clone":          func() string { return hg.Enc(p.Clone()) },
		"operand-of-Add": func() string { return hg.Enc(im.G.Point().Add(p, q)) },
		"operand-of-Mul": func() string { return hg.Enc(im.G.Point().Mul(s, p)) },
	}
	var names []string
	for k := range calls {
		names = append(names, k)
	}
	sort.Strings(names)
	// sequential reference on an identical, separately built object graph is not available without
	// Clone (under test); the reference is the value on the same objects before the concurrent phase
	want := map[string]string{}
	for _, k := range names {
		want[k] = calls[k]()
	}
	// rebuild non-normalised inputs: the reference run may have normalised them
	p2, q2 := nonNormal(im, rng), nonNormal(im, rng)
	wantP2 := hg.Enc(im.FreshPoint(hg.Enc(im.G.Point().Add(p2, q2))))
	var wg sync.WaitGroup
	var mu sync.Mutex
	bad := map[string]string{}
	for g := 0; g < 8; g++ {
		wg.Add(1)
		go func(g int) {
			defer wg.Done()
			for it := 0; it < 30; it++ {
				for _, k := range names {
					if pan, _ := vh.Try(func() {
						if got := calls[k](); got != want[k] {
							mu.Lock()
							bad[k] = vh.Hex([]byte(got))
							mu.Unlock()
						}
					}); pan {
						mu.Lock()
						bad[k] = "panic"
						mu.Unlock()
					}
				}
				var got string
				switch g % 3 {
				case 0:
					b, _ := p2.MarshalBinary()
					_ = b
					got = hg.Enc(im.G.Point().Add(p2, q2))
				case 1:
					_ = p2.String()
					_ = q2.Equal(p2)
					got = hg.Enc(im.G.Point().Add(p2, q2))
				default:
					got = hg.Enc(im.G.Point().Add(p2, q2))
				}
				if got != wantP2 {
					mu.Lock()
					bad["mixed-readers"] = vh.Hex([]byte(got))
					mu.Unlock()
				}
			}
		}(g)
	}
	wg.Wait()
	for k, v := range bad {
		c.rep.Fail(im.Name+":"+k+"/concurrent-result-differs", "a read-only call on a shared value returned a different result under concurrency",
			map[string]interface{}{"impl": im.Name, "call": k, "got": v})
	}
	c.rep.Count(im.Name+":stress", true)
}

// raceSearch (search mode only): builds this harness with the race detector, runs its goroutine
// stress and turns every reported data race whose stacks touch kyber code into a failure with
// the race report as replay.  The claim of the check does not rest on this.
func raceSearch(o vh.Opts, rep *vh.Report) {
	if os.Getenv("C20_RACE_CHILD") != "" || os.Getenv("VERIF_NO_RACE") != "" {
		return
	}
	bin := filepath.Join(o.Out, "c20race")
	args := []string{"build", "-race", "-tags", "verif", "-o", bin}
	if alt := os.Getenv("VERIF_REPO"); alt != "" {
		if mf, err := filepath.Abs("../build/alt/C20.mod"); err == nil {
			if _, err := os.Stat(mf); err == nil {
				args = append(args, "-modfile="+mf)
			}
		}
	}
	args = append(args, "./cmd/c20")
	if out, err := exec.Command("go", args...).CombinedOutput(); err != nil {
		rep.Note("race-detector build not available: " + string(out))
		return
	}
	defer os.Remove(bin)
	cmd := exec.Command(bin, "-search", "-seed", fmt.Sprint(o.Seed), "-out", filepath.Join(o.Out, "race"))
	cmd.Env = append(os.Environ(), "C20_RACE_CHILD=1", "GORACE=halt_on_error=0")
	out, _ := cmd.CombinedOutput()
	fn := regexp.MustCompile(`go\.dedis\.ch/kyber/v4/([^\s(]+(?:\(\*?\w+\))?[.\w]*)\(\)`)
	for _, blk := range strings.Split(string(out), "WARNING: DATA RACE")[1:] {
		if i := strings.Index(blk, "=================="); i >= 0 {
			blk = blk[:i]
		}
		m := fn.FindStringSubmatch(blk)
		if m == nil {
			continue
		}
		if len(blk) > 3000 {
			blk = blk[:3000]
		}
		rep.Fail("race:"+m[1], "the race detector reported a data race between read-only uses of a shared value",
			map[string]interface{}{"race_report": blk})
	}
	rep.Note("race detector run: " + fmt.Sprint(strings.Count(string(out), "WARNING: DATA RACE")) + " reports")
}

func main() {
	o := vh.ParseFlags()
	rep := vh.NewReport("C20", o.Seed, o.Tier)
	rep.Rule = "per implementation and draw of non-normalised points / scalars: deep byte-level snapshot of every shared object before and after each read-only call (MarshalBinary String Equal Clone Data MarshalTo, operand of Add Sub Neg Mul Set and of the scalar operations, Suite.Pair, ValidatePairing, RandomStream, Hash/XOF, bls.Verify with a shared key, bdn.Mask.Clone, PubPoly.Eval/Commit); repeated calls must return the same result; -search: 8 goroutines x 30 rounds on shared objects compared with the sequential results"
	rng := vh.NewRng(o.Seed)
	c := &ctx{rep: rep}
	draws := 3
	if o.Thorough {
		draws = 12
	}
	impls := hg.All()
	byName := map[string]*hg.Impl{}
	for _, im := range impls {
		byName[im.Name] = im
		r := rng.Fork()
		groupChecks(c, im, r, draws)
		formChecks(c, im, r)
		if !im.Slow || o.Thorough {
			schemeChecks(c, im, r)
		}
		if im.Name == "edwards25519" || im.Name == "p256" {
			// schnorr verification with a shared public key
			if ss, ok := im.G.(schnorrSuite); ok {
				priv := im.NewScalar(r.BigBelow(im.Q))
				pub := im.G.Point().Add(im.G.Point().Mul(priv, nil), im.G.Point().Null())
				msg := []byte("m")
				if sig, err := schnorr.Sign(ss, priv, msg); err == nil {
					ch := c.observe(im.Name+":schnorr.Verify(shared key)", []interface{}{pub}, func() string {
						return fmt.Sprint(schnorr.Verify(im.G, pub, msg, sig), schnorr.Verify(im.G, pub, []byte("x"), sig) != nil)
					})
					c.id++
					c.items = append(c.items, fmt.Sprintf("(CObj %d 5 %s)", c.id, vh.CoqBool(ch[0])))
					rep.Index(c.id, im.Name+":schnorr.Verify")
				}
			}
		}
		if o.Search {
			stress(c, im, r)
		}
	}
	for _, nm := range []string{"bn256", "bn254", "bls12381.kilic", "bls12381.circl", "bls12381.gnark"} {
		g1, g2 := byName[nm+".G1"], byName[nm+".G2"]
		pd := 1
		if o.Thorough {
			pd = 3
		}
		pairingChecks(c, nm, g1.Suite, g1, g2, rng.Fork(), pd)
	}
	suiteChecks(c, rng.Fork())
	_ = big.NewInt
	if o.Search {
		raceSearch(o, rep)
	}
	if !o.Search {
		vh.WriteShards(o.Out, "c20", &vh.CaseFile{Header: "From Kyber Require Import Heap.FootRun.", Type: "case",
			Runner: "mismatches", Items: c.items}, 200, rep)
	}
	rep.Write(o.Out)
}
