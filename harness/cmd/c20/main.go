// Harness for property C20 (shared read-only use is free of data races).
//
// Deterministic part (every run): for every group implementation and for
// suites, masks, keys and public polynomials, a deep byte-level snapshot
// (reflection + unsafe walk over every field, limb, big.Int word and pointer)
// of each shared object is taken before and after each read-only call --
// encoding, printing, comparing, cloning, extracting data, being an operand of
// an operation that writes elsewhere, pairing, verifying with shared keys,
// drawing from a suite's random stream, cloning a mask.  Any changed byte is a
// write to shared memory (oracle failure) and is reported to Coq, where it is
// only admissible if the method's transcription has a write to that variable.
// The inputs are non-normalised (results of additions), so that lazy
// normalisation shows.  Outputs of repeated calls must agree.
//
// -search: many goroutines hammer the read-only methods on shared objects and
// compare every result with the sequential one (failing-schedule search; run
// it under `go run -race` to obtain a race report as a replay).
package main

import (
	"bytes"
	"crypto/cipher"
	"crypto/sha256"
	"encoding/binary"
	"fmt"
	"io"
	"math/big"
	"os"
	"os/exec"
	"path/filepath"
	"regexp"
	"sort"
	"strings"
	"sync"
	"sync/atomic"

	"go.dedis.ch/kyber/v4"
	"go.dedis.ch/kyber/v4/pairing"
	"go.dedis.ch/kyber/v4/pairing/bls12381/kilic"
	"go.dedis.ch/kyber/v4/pairing/bn254"
	"go.dedis.ch/kyber/v4/proof"
	"go.dedis.ch/kyber/v4/share"
	"go.dedis.ch/kyber/v4/sign/bdn"
	"go.dedis.ch/kyber/v4/sign/bls"
	"go.dedis.ch/kyber/v4/sign/cosi"
	"go.dedis.ch/kyber/v4/sign/eddsa"
	"go.dedis.ch/kyber/v4/sign/schnorr"
	"go.dedis.ch/kyber/v4/util/random"
	"go.dedis.ch/kyber/v4/xof/blake2xb"
	"kyverif/hg"
	"kyverif/vh"
)

// ---------------------------------------------------------------- per-group checks

const (
	rMarshal = iota
	rString
	rEqual
	rClone
	rData
	rMarshalTo
	rPair
	rScalarMarshal
	rScalarString
	rScalarEqual
	rScalarClone
)

var rname = []string{"MarshalBinary", "String", "Equal", "Clone", "Data", "MarshalTo", "Pair",
	"Scalar.MarshalBinary", "Scalar.String", "Scalar.Equal", "Scalar.Clone"}

type ctx struct {
	seen  map[string]bool
	rep   *vh.Report
	items []string
	id    int
}

// observe runs f (twice: results must agree), comparing deep snapshots of the shared objects
func (c *ctx) observe(key string, shared []interface{}, f func() string) []bool {
	before := make([][]string, len(shared))
	for i, o := range shared {
		before[i] = hg.Snapshot(o)
	}
	var r1, r2 string
	pan, msg := vh.Try(func() { r1 = f(); r2 = f() })
	changed := make([]bool, len(shared))
	if pan {
		c.rep.Fail(key+"/panic", msg, nil)
		return changed
	}
	if r1 != r2 {
		c.rep.Fail(key+"/result-not-repeatable", "two identical read-only calls returned different results",
			map[string]interface{}{"first": vh.Hex([]byte(r1)), "second": vh.Hex([]byte(r2))})
	}
	for i, o := range shared {
		after := hg.Snapshot(o)
		if d := hg.Diff(before[i], after); d != "" {
			changed[i] = true
			c.rep.Fail(fmt.Sprintf("%s/writes-shared-object[%d]", key, i),
				"a read-only call changed the memory of a shared object", map[string]interface{}{"call": key, "object": i, "first_difference": d})
		}
	}
	c.rep.Count(key, true)
	c.rep.Dist(key[bytes.IndexByte([]byte(key), ':')+1:])
	return changed
}

func boolList(b []bool) string {
	var s []string
	for _, x := range b {
		s = append(s, vh.CoqBool(x))
	}
	return vh.CoqList(s)
}

// emit / emitObj: the model's verdict depends only on (kind, implementation, method, changed), so
// identical tuples are emitted once (the index keeps the first call that produced them)
func (c *ctx) emit(kind string, a, b int, changed []bool, desc string) {
	k := fmt.Sprintf("%s %d %d %s", kind, a, b, boolList(changed))
	if c.seen == nil {
		c.seen = map[string]bool{}
	}
	if c.seen[k] {
		return
	}
	c.seen[k] = true
	c.id++
	c.items = append(c.items, fmt.Sprintf("(%s %d %d %d %s)", kind, c.id, a, b, boolList(changed)))
	c.rep.Index(c.id, desc)
}

func groupChecks(c *ctx, im *hg.Impl, rng *vh.Rng, draws int) {
	for d := 0; d < draws; d++ {
		p, q := hg.NonNormal(im, rng), hg.NonNormal(im, rng)
		if d == 1 {
			q = im.G.Point().Sub(p, p) // identity, non-normalised
		}
		s, t := im.NewScalar(rng.BigBelow(im.Q)), im.NewScalar(rng.EdgeScalar(im.Q))
		pre := im.Name + ":"
		ro := func(rm int, shared []interface{}, f func() string) {
			ch := c.observe(pre+rname[rm], shared, f)
			impl := im.PImpl
			if rm >= rScalarMarshal {
				impl = im.SImpl
			}
			c.emit("CRead", impl, rm, ch, pre+rname[rm])
		}
		ro(rMarshal, []interface{}{p}, func() string { b, _ := p.MarshalBinary(); return string(b) })
		p = hg.NonNormal(im, rng) // every call gets an input whose lazy normalisation has not happened yet
		ro(rString, []interface{}{p}, func() string { return p.String() })
		p = hg.NonNormal(im, rng)
		ro(rEqual, []interface{}{p, q}, func() string { return fmt.Sprint(p.Equal(q), q.Equal(p), p.Equal(p)) })
		p, q = hg.NonNormal(im, rng), hg.NonNormal(im, rng)
		ro(rClone, []interface{}{p}, func() string { return hg.Enc(p.Clone()) })
		if im.HasEmbed {
			e := im.G.Point().Embed([]byte("data"), vh.NewSeqStream(rng.Bytes(8)))
			z := hg.NonNormal(im, rng)
			e2 := im.G.Point().Sub(im.G.Point().Add(e, z), z) // the embedding in a non-normalised representation
			ro(rData, []interface{}{e2}, func() string { b, err := e2.Data(); return string(b) + fmt.Sprint(err) })
		}
		p = hg.NonNormal(im, rng)
		ro(rMarshalTo, []interface{}{p}, func() string { var w bytes.Buffer; _, _ = p.MarshalTo(&w); return w.String() })
		p = hg.NonNormal(im, rng)
		ro(rScalarMarshal, []interface{}{s}, func() string { b, _ := s.MarshalBinary(); return string(b) })
		ro(rScalarString, []interface{}{s}, func() string { return s.String() })
		ro(rScalarEqual, []interface{}{s, t}, func() string { return fmt.Sprint(s.Equal(t), t.Equal(s)) })
		ro(rScalarClone, []interface{}{s}, func() string { return hg.ScalarVal(s.Clone()).String() })

		// operands of operations that write a private receiver
		op := func(m int, name string, shared []interface{}, f func() string) {
			ch := c.observe(pre+"operand-of-"+name, shared, f)
			impl := im.PImpl
			if m >= 20 {
				impl = im.SImpl
			}
			c.emit("COperand", impl, m, append([]bool{false}, ch...), pre+"operand-of-"+name)
		}
		op(0, "Add", []interface{}{p, q}, func() string { return hg.Enc(im.G.Point().Add(p, q)) })
		op(1, "Sub", []interface{}{p, q}, func() string { return hg.Enc(im.G.Point().Sub(p, q)) })
		op(2, "Neg", []interface{}{p}, func() string { return hg.Enc(im.G.Point().Neg(p)) })
		op(3, "Mul", []interface{}{s, p}, func() string { return hg.Enc(im.G.Point().Mul(s, p)) })
		op(7, "Set", []interface{}{p}, func() string { return hg.Enc(im.G.Point().Set(p)) })
		op(20, "Scalar.Add", []interface{}{s, t}, func() string { return hg.ScalarVal(im.G.Scalar().Add(s, t)).String() })
		op(21, "Scalar.Sub", []interface{}{s, t}, func() string { return hg.ScalarVal(im.G.Scalar().Sub(s, t)).String() })
		op(22, "Scalar.Neg", []interface{}{s}, func() string { return hg.ScalarVal(im.G.Scalar().Neg(s)).String() })
		op(23, "Scalar.Mul", []interface{}{s, t}, func() string { return hg.ScalarVal(im.G.Scalar().Mul(s, t)).String() })
		if hg.ScalarVal(t).Sign() != 0 {
			op(24, "Scalar.Div", []interface{}{s, t}, func() string { return hg.ScalarVal(im.G.Scalar().Div(s, t)).String() })
			op(25, "Scalar.Inv", []interface{}{t}, func() string { return hg.ScalarVal(im.G.Scalar().Inv(t)).String() })
		}
		op(31, "Scalar.Set", []interface{}{s}, func() string { return hg.ScalarVal(im.G.Scalar().Set(s)).String() })
	}
}

// formChecks: the read-only method set on a fresh instance of every internal form; the group object
// itself is shared state as well
func formChecks(c *ctx, im *hg.Impl, rng *vh.Rng) {
	G := im.G
	pre := im.Name + ":"
	pfs, sfs := hg.PointForms(im, rng), hg.ScalarForms(im, rng)
	normalP, normalS := hg.NonNormal(im, rng), im.NewScalar(rng.BigBelow(im.Q))
	for _, f := range pfs {
		f := f
		ro := func(rm int, two bool, call func(p, q kyber.Point) string) {
			p := f.Mk()
			q := normalP
			if two && rng.Bool() {
				q = f.Mk()
			}
			shared := []interface{}{p}
			if two {
				shared = append(shared, q)
			}
			ch := c.observe(pre+rname[rm]+"{"+f.Name+"}", append(shared, G), func() string { return call(p, q) })
			c.emit("CRead", im.PImpl, rm, ch[:len(shared)], pre+rname[rm]+"{"+f.Name+"}")
			c.emitObj(6, ch[len(shared)], pre+rname[rm]+"{"+f.Name+"} group object")
		}
		ro(rMarshal, false, func(p, _ kyber.Point) string { b, _ := p.MarshalBinary(); return string(b) })
		ro(rString, false, func(p, _ kyber.Point) string { return p.String() })
		ro(rEqual, true, func(p, q kyber.Point) string { return fmt.Sprint(p.Equal(q), q.Equal(p), p.Equal(p)) })
		ro(rClone, false, func(p, _ kyber.Point) string { return hg.Enc(p.Clone()) })
		ro(rMarshalTo, false, func(p, _ kyber.Point) string { var w bytes.Buffer; _, _ = p.MarshalTo(&w); return w.String() })
		if im.HasEmbed {
			ro(rData, false, func(p, _ kyber.Point) string { b, err := p.Data(); return string(b) + fmt.Sprint(err != nil) })
		}
		op := func(m int, name string, call func(p kyber.Point) string) {
			p := f.Mk()
			ch := c.observe(pre+"operand-of-"+name+"{"+f.Name+"}", []interface{}{p, normalP, normalS, G}, func() string { return call(p) })
			c.emit("COperand", im.PImpl, m, []bool{false, ch[0], ch[1]}, pre+"operand-of-"+name+"{"+f.Name+"}")
			c.emitObj(6, ch[2] || ch[3], pre+"operand-of-"+name+"{"+f.Name+"} scalar / group object")
		}
		op(0, "Add", func(p kyber.Point) string {
			return hg.Enc(G.Point().Add(p, normalP)) + hg.Enc(G.Point().Add(normalP, p))
		})
		op(1, "Sub", func(p kyber.Point) string {
			return hg.Enc(G.Point().Sub(p, normalP)) + hg.Enc(G.Point().Sub(normalP, p))
		})
		op(2, "Neg", func(p kyber.Point) string { return hg.Enc(G.Point().Neg(p)) })
		op(7, "Set", func(p kyber.Point) string { return hg.Enc(G.Point().Set(p)) })
		{
			p := f.Mk()
			ch := c.observe(pre+"operand-of-Mul{"+f.Name+"}", []interface{}{normalS, p, G}, func() string { return hg.Enc(G.Point().Mul(normalS, p)) })
			c.emit("COperand", im.PImpl, 3, []bool{false, ch[0], ch[1]}, pre+"operand-of-Mul{"+f.Name+"}")
			c.emitObj(6, ch[2], pre+"operand-of-Mul group object")
		}
	}
	for _, f := range sfs {
		f := f
		ro := func(rm int, two bool, call func(s, t kyber.Scalar) string) {
			s := f.Mk()
			t := normalS
			if two && rng.Bool() {
				t = f.Mk()
			}
			shared := []interface{}{s}
			if two {
				shared = append(shared, t)
			}
			ch := c.observe(pre+rname[rm]+"{"+f.Name+"}", append(shared, G), func() string { return call(s, t) })
			c.emit("CRead", im.SImpl, rm, ch[:len(shared)], pre+rname[rm]+"{"+f.Name+"}")
			c.emitObj(6, ch[len(shared)], pre+rname[rm]+" group object")
		}
		ro(rScalarMarshal, false, func(s, _ kyber.Scalar) string { b, _ := s.MarshalBinary(); return string(b) })
		ro(rScalarString, false, func(s, _ kyber.Scalar) string { return s.String() })
		ro(rScalarEqual, true, func(s, t kyber.Scalar) string { return fmt.Sprint(s.Equal(t), t.Equal(s), s.Equal(s)) })
		ro(rScalarClone, false, func(s, _ kyber.Scalar) string { return hg.ScalarVal(s.Clone()).String() })
		ro(rScalarMarshal, false, func(s, _ kyber.Scalar) string { var w bytes.Buffer; _, _ = s.MarshalTo(&w); return w.String() })
		op := func(m int, name string, call func(s kyber.Scalar) string) {
			s := f.Mk()
			ch := c.observe(pre+"operand-of-"+name+"{"+f.Name+"}", []interface{}{s, normalS, G}, func() string { return call(s) })
			c.emit("COperand", im.SImpl, m, []bool{false, ch[0], ch[1]}, pre+"operand-of-"+name+"{"+f.Name+"}")
			c.emitObj(6, ch[2], pre+"operand-of-"+name+" group object")
		}
		op(20, "Scalar.Add", func(s kyber.Scalar) string {
			return hg.ScalarVal(G.Scalar().Add(s, normalS)).String() + hg.ScalarVal(G.Scalar().Add(normalS, s)).String()
		})
		op(21, "Scalar.Sub", func(s kyber.Scalar) string {
			return hg.ScalarVal(G.Scalar().Sub(s, normalS)).String() + hg.ScalarVal(G.Scalar().Sub(normalS, s)).String()
		})
		op(22, "Scalar.Neg", func(s kyber.Scalar) string { return hg.ScalarVal(G.Scalar().Neg(s)).String() })
		op(23, "Scalar.Mul", func(s kyber.Scalar) string {
			return hg.ScalarVal(G.Scalar().Mul(s, normalS)).String() + hg.ScalarVal(G.Scalar().Mul(normalS, s)).String()
		})
		op(31, "Scalar.Set", func(s kyber.Scalar) string { return hg.ScalarVal(G.Scalar().Set(s)).String() })
		if new(big.Int).GCD(nil, nil, new(big.Int).Mod(hg.ScalarVal(f.Mk()), im.Q), im.Q).Cmp(big.NewInt(1)) == 0 && f.Name != "random" && f.Name != "Pick" && f.Name != "Mul(a,b)" && f.Name != "SetBytes(long)" && f.Name != "decoded" {
			op(25, "Scalar.Inv", func(s kyber.Scalar) string { return hg.ScalarVal(G.Scalar().Inv(s)).String() })
			op(24, "Scalar.Div", func(s kyber.Scalar) string { return hg.ScalarVal(G.Scalar().Div(normalS, s)).String() })
		}
		{ // as the scalar operand of a point multiplication
			s := f.Mk()
			ch := c.observe(pre+"operand-of-Mul{scalar "+f.Name+"}", []interface{}{s, normalP, G}, func() string { return hg.Enc(G.Point().Mul(s, normalP)) })
			c.emit("COperand", im.PImpl, 3, []bool{false, ch[0], ch[1]}, pre+"operand-of-Mul{scalar "+f.Name+"}")
			c.emitObj(6, ch[2], pre+"operand-of-Mul group object")
		}
	}
}

func (c *ctx) emitObj(kind int, changed bool, desc string) {
	k := fmt.Sprintf("CObj %d %v", kind, changed)
	if c.seen == nil {
		c.seen = map[string]bool{}
	}
	if c.seen[k] {
		return
	}
	c.seen[k] = true
	c.id++
	c.items = append(c.items, fmt.Sprintf("(CObj %d %d %s)", c.id, kind, vh.CoqBool(changed)))
	c.rep.Index(c.id, desc)
}

func pairingChecks(c *ctx, name string, s pairing.Suite, g1, g2 *hg.Impl, rng *vh.Rng, draws int) {
	for d := 0; d < draws; d++ {
		p1, p2 := hg.NonNormal(g1, rng), hg.NonNormal(g2, rng)
		k := g1.NewScalar(rng.BigBelow(g1.Q))
		p3 := g1.G.Point().Mul(k, p1)
		kinv := g1.G.Scalar().Inv(k)
		p4 := g2.G.Point().Mul(kinv, p2)
		ch := c.observe(name+":Suite.Pair", []interface{}{p1, p2}, func() string { return hg.Enc(s.Pair(p1, p2)) })
		c.emit("CRead", g1.PImpl, rPair, ch, name+":Suite.Pair")
		ch = c.observe(name+":Suite.ValidatePairing", []interface{}{p1, p2, p3, p4}, func() string {
			return fmt.Sprint(s.ValidatePairing(p1, p2, p3, p4), s.ValidatePairing(p1, p2, p1, p2), s.ValidatePairing(p1, p2, p3, p2))
		})
		c.emit("CRead", g1.PImpl, rPair, ch[:2], name+":Suite.ValidatePairing(1,2)")
		c.emit("CRead", g1.PImpl, rPair, ch[2:], name+":Suite.ValidatePairing(3,4)")
		// suite used for hashing / random stream / scheme verification with shared keys
		obj := func(kind int, what string, shared []interface{}, f func() string) {
			chs := c.observe(name+":"+what, shared, f)
			any := false
			for _, x := range chs {
				any = any || x
			}
			c.id++
			c.items = append(c.items, fmt.Sprintf("(CObj %d %d %s)", c.id, kind, vh.CoqBool(any)))
			c.rep.Index(c.id, name+":"+what)
		}
		obj(0, "Suite.RandomStream", []interface{}{s}, func() string {
			b := make([]byte, 16)
			s.RandomStream().XORKeyStream(b, b)
			return ""
		})
		obj(1, "Suite.Hash/XOF", []interface{}{s}, func() string {
			h := s.Hash()
			h.Write([]byte("x"))
			x := s.XOF([]byte("seed"))
			o := make([]byte, 8)
			x.Read(o)
			return string(h.Sum(nil)) + string(o)
		})
		sch := bls.NewSchemeOnG1(s)
		priv, pub := sch.NewKeyPair(vh.NewSeqStream(rng.Bytes(8)))
		msg := []byte("message")
		sig, err := sch.Sign(priv, msg)
		if err == nil {
			obj(2, "bls.Verify(shared key)", []interface{}{pub, s}, func() string {
				return fmt.Sprint(sch.Verify(pub, msg, sig), sch.Verify(pub, []byte("other"), sig) != nil)
			})
		}
		// bdn mask clone
		var pubs []kyber.Point
		for i := 0; i < 4; i++ {
			_, pk := bdn.NewSchemeOnG1(s).NewKeyPair(vh.NewSeqStream(rng.Bytes(8)))
			pubs = append(pubs, pk)
		}
		if m, err := bdn.NewMask(s.G2(), pubs, nil); err == nil {
			_ = m.SetBit(1, true)
			obj(3, "bdn.Mask.Clone", []interface{}{m}, func() string {
				cl := m.Clone()
				_ = cl.SetBit(2, true)
				return string(m.Mask())
			})
		}
	}
}

// suiteChecks: suites, their groups, scheme objects, key pairs and the caller's own tag slices are
// shared state too.  Suites are configured the way the API allows (custom domain separation tags
// of lengths that are not allocator size classes, given as slices with spare capacity) and every
// call that goes through them is bracketed by deep snapshots (slices up to their capacity).
func suiteChecks(c *ctx, rng *vh.Rng) {
	type cfg struct {
		name   string
		s      pairing.Suite
		extras []interface{}
	}
	tag := func(n int) []byte {
		b := make([]byte, n, n+9+rng.Intn(8))
		copy(b, rng.Bytes(n))
		return b
	}
	var cfgs []cfg
	for _, ln := range [][2]int{{20, 33}, {31, 5}, {47, 21}, {1, 100}} {
		t1, t2 := tag(ln[0]), tag(ln[1])
		b := bn254.NewSuite()
		b.SetDomainG1(t1)
		b.SetDomainG2(t2)
		cfgs = append(cfgs, cfg{fmt.Sprintf("bn254{dst %d,%d}", ln[0], ln[1]), b, []interface{}{&t1, &t2}})
		t3, t4 := tag(ln[0]), tag(ln[1])
		cfgs = append(cfgs, cfg{fmt.Sprintf("bls12381.kilic{dst %d,%d}", ln[0], ln[1]), kilic.NewBLS12381SuiteWithDST(t3, t4), []interface{}{&t3, &t4}})
		if ks, ok := kilic.NewBLS12381Suite().(*kilic.Suite); ok {
			t5, t6 := tag(ln[0]), tag(ln[1])
			ks.SetDomainG1(t5)
			ks.SetDomainG2(t6)
			cfgs = append(cfgs, cfg{fmt.Sprintf("bls12381.kilic{SetDomain %d,%d}", ln[0], ln[1]), ks, []interface{}{&t5, &t6}})
		}
	}
	cfgs = append(cfgs, cfg{"bn254{default}", bn254.NewSuite(), nil})
	for _, cf := range cfgs {
		s := cf.s
		g1, g2 := s.G1(), s.G2()
		old1, old2 := g1.Point().Base(), g2.Point().Base()
		shared := append([]interface{}{s, g1, g2, old1, old2}, cf.extras...)
		msg := []byte("message to hash")
		obj := func(what string, more []interface{}, f func() string) {
			chs := c.observe(cf.name+":"+what, append(append([]interface{}{}, shared...), more...), f)
			any := false
			for _, x := range chs {
				any = any || x
			}
			c.emitObj(7, any, cf.name+":"+what)
		}
		hashTo := func(g kyber.Group) string {
			p := g.Point()
			if h, ok := p.(kyber.HashablePoint); ok {
				return hg.Enc(h.Hash(msg))
			}
			return ""
		}
		obj("hash-to-G1", nil, func() string { return hashTo(s.G1()) + hashTo(g1) })
		obj("hash-to-G2", nil, func() string { return hashTo(s.G2()) + hashTo(g2) })
		obj("Point/Scalar factories", nil, func() string {
			return hg.Enc(s.G1().Point().Base()) + hg.Enc(g2.Point().Null()) + hg.ScalarVal(g1.Scalar().One()).String()
		})
		obj("Pick", nil, func() string {
			return hg.Enc(g1.Point().Pick(vh.NewSeqStream([]byte("a")))) + hg.Enc(g2.Point().Pick(vh.NewSeqStream([]byte("b"))))
		})
		type scheme interface {
			NewKeyPair(cipher.Stream) (kyber.Scalar, kyber.Point)
			Sign(kyber.Scalar, []byte) ([]byte, error)
			Verify(kyber.Point, []byte, []byte) error
		}
		names := []string{"bls.G1", "bls.G2", "bdn.G1", "bdn.G2"}
		for i, sch := range []scheme{bls.NewSchemeOnG1(s), bls.NewSchemeOnG2(s), bdn.NewSchemeOnG1(s), bdn.NewSchemeOnG2(s)} {
			which := names[i]
			priv, pub := sch.NewKeyPair(vh.NewSeqStream(rng.Bytes(8)))
			var sig []byte
			obj(which+".Sign(shared key)", []interface{}{priv, pub, sch}, func() string {
				var err error
				sig, err = sch.Sign(priv, msg)
				return string(sig) + fmt.Sprint(err)
			})
			obj(which+".Verify(shared key)", []interface{}{priv, pub, sch}, func() string {
				return fmt.Sprint(sch.Verify(pub, msg, sig), sch.Verify(pub, []byte("other"), sig) != nil)
			})
		}
		p1, p2 := g1.Point().Mul(g1.Scalar().SetInt64(5), nil), g2.Point().Mul(g2.Scalar().SetInt64(7), nil)
		obj("Pair/ValidatePairing", []interface{}{p1, p2}, func() string {
			return hg.Enc(s.Pair(p1, p2)) + fmt.Sprint(s.ValidatePairing(p1, p2, p1, p2))
		})
		obj("RandomStream/Hash/XOF", nil, func() string {
			b := make([]byte, 8)
			s.RandomStream().XORKeyStream(b, b)
			h := s.Hash()
			h.Write(msg)
			return string(h.Sum(nil))
		})
	}
	// EdDSA key object shared for signing and verification
	e := eddsa.NewEdDSA(vh.NewSeqStream(rng.Bytes(8)))
	msg := []byte("m")
	var sig []byte
	ch := c.observe("eddsa:Sign(shared key)", []interface{}{e}, func() string { sig, _ = e.Sign(msg); return string(sig) })
	c.emitObj(8, ch[0], "eddsa:Sign")
	ch = c.observe("eddsa:Verify(shared key)", []interface{}{e, e.Public}, func() string { return fmt.Sprint(eddsa.Verify(e.Public, msg, sig)) })
	c.emitObj(8, ch[0] || ch[1], "eddsa:Verify")
}

// ---------------------------------------------------------------- composite shared objects

// patReader is a STATELESS entropy source (every read returns the same pattern), so that a random
// stream built over it has no legitimately changing state: any changed byte of the stream object
// is a write by a draw.
type patReader byte

func (p patReader) Read(b []byte) (int, error) {
	for i := range b {
		b[i] = byte(p) + byte(i)
	}
	return len(b), nil
}

// shortReader is a stateless source that delivers fewer bytes than a draw asks for
type shortReader int

func (n shortReader) Read(b []byte) (int, error) {
	k := int(n)
	if k > len(b) {
		k = len(b)
	}
	for i := 0; i < k; i++ {
		b[i] = byte(0xa0 + i)
	}
	return k, io.EOF
}

// ctrReader is a source with its own, properly synchronised state: every read is distinct
type ctrReader struct{ n *atomic.Uint64 }

func (c ctrReader) Read(b []byte) (int, error) {
	for i := 0; i < len(b); i += 8 {
		var w [8]byte
		binary.BigEndian.PutUint64(w[:], c.n.Add(1))
		copy(b[i:], w[:])
	}
	return len(b), nil
}

func permuted(n int, kind int, rng *vh.Rng) []int {
	p := make([]int, n)
	for i := range p {
		p[i] = i
	}
	switch kind {
	case 1: // descending
		for i := range p {
			p[i] = n - 1 - i
		}
	case 2: // rotated
		for i := range p {
			p[i] = (i + 2) % n
		}
	case 3: // random
		for i := n - 1; i > 0; i-- {
			j := rng.Intn(i + 1)
			p[i], p[j] = p[j], p[i]
		}
	}
	return p
}

// compositeChecks: composite objects in non-default configurations used read-only; a FRESH object
// per trial (no warm-up), snapshots of the object, of its clones and of every operand (slices with
// their element order and elements) before and after
func compositeChecks(c *ctx, impls map[string]*hg.Impl, rng *vh.Rng) {
	obj := func(kind int, what string, shared []interface{}, f func() string) {
		chs := c.observe(what, shared, f)
		any := false
		for _, x := range chs {
			any = any || x
		}
		c.emitObj(kind, any, what)
	}
	// 1. random streams over one, two and three explicit sources
	for n := 1; n <= 3; n++ {
		var rs []io.Reader
		for i := 0; i < n; i++ {
			rs = append(rs, patReader(17*i+3))
		}
		for _, l := range []int{1, 16, 100} {
			st := random.New(rs...)
			buf := make([]byte, l)
			obj(9, fmt.Sprintf("random.New(%d sources):XORKeyStream(%d)", n, l), []interface{}{st}, func() string {
				out := make([]byte, l)
				st.XORKeyStream(out, buf)
				return string(out)
			})
		}
		// the same with short / empty sources mixed in (a draw tolerates them as long as one is good)
		for _, mix := range [][]io.Reader{
			{patReader(1), shortReader(5)}, {shortReader(5), patReader(1)}, {patReader(1), shortReader(0)},
			{shortReader(31), patReader(2), shortReader(0)}, {patReader(1), patReader(2), shortReader(7)},
		} {
			if len(mix) != n+1 {
				continue
			}
			mix := mix
			st := random.New(mix...)
			obj(9, fmt.Sprintf("random.New(%d sources, some short):XORKeyStream", len(mix)), []interface{}{st, &mix}, func() string {
				out := make([]byte, 20)
				st.XORKeyStream(out, make([]byte, 20))
				return string(out)
			})
		}
		// sequential model of a draw: blake2xb keyed with sha256 of the concatenated 32-byte reads
		var cnt atomic.Uint64
		var rs2 []io.Reader
		for i := 0; i < n; i++ {
			rs2 = append(rs2, ctrReader{&cnt})
		}
		st := random.New(rs2...)
		var mcnt atomic.Uint64
		for d := 0; d < 3; d++ {
			got := make([]byte, 24)
			st.XORKeyStream(got, make([]byte, 24))
			var pool []byte
			for i := 0; i < n; i++ {
				b := make([]byte, 32)
				_, _ = ctrReader{&mcnt}.Read(b)
				pool = append(pool, b...)
			}
			seed := sha256.Sum256(pool)
			want := make([]byte, 24)
			blake2xb.New(seed[:]).XORKeyStream(want, make([]byte, 24))
			if !bytes.Equal(got, want) {
				c.rep.Fail(fmt.Sprintf("random.New(%d sources)/draw-differs-from-model", n), "a draw is not the key stream seeded by the hash of its own source reads",
					map[string]interface{}{"draw": d, "got": vh.Hex(got), "want": vh.Hex(want)})
			}
			c.rep.Count(fmt.Sprintf("random-model %d %d", n, d), true)
		}
	}
	// 2. bdn masks over rosters of different sizes: aggregation on a clone must not write the base
	//    mask nor another clone
	for _, sn := range []string{"bn256", "bls12381.kilic"} {
		s := impls[sn+".G1"].Suite
		sch := bdn.NewSchemeOnG1(s)
		for _, roster := range []int{3, 33, 40} {
			var pubs []kyber.Point
			for i := 0; i < roster; i++ {
				_, pk := sch.NewKeyPair(vh.NewSeqStream(rng.Bytes(8)))
				pubs = append(pubs, pk)
			}
			for trial := 0; trial < 2; trial++ {
				base, err := bdn.NewMask(s.G2(), pubs, nil)
				if err != nil {
					continue
				}
				other := base.Clone()
				obj(3, fmt.Sprintf("%s:bdn.Mask(%d keys).Clone+AggregatePublicKeys", sn, roster), []interface{}{base, other, &pubs}, func() string {
					cl := base.Clone()
					for i := 0; i < roster; i++ {
						if trial == 0 || i%3 == 0 {
							_ = cl.SetBit(i, true)
						}
					}
					agg, err := sch.AggregatePublicKeys(cl)
					if err != nil {
						return err.Error()
					}
					return hg.Enc(agg) + fmt.Sprint(cl.CountEnabled(), len(cl.Participants()))
				})
			}
		}
	}
	// 3. share lists: complete / with holes, sorted / unsorted, handed to the recovery functions
	for _, gn := range []string{"edwards25519", "bn256.G1"} {
		im := impls[gn]
		g := im.G
		const t, n = 3, 6
		pri := share.NewPriPoly(g, t, im.NewScalar(rng.BigBelow(im.Q)), vh.NewSeqStream(rng.Bytes(8)))
		pub := pri.Commit(nil)
		priS, pubS := pri.Shares(n), pub.Shares(n)
		for kind := 0; kind < 4; kind++ {
			for _, holes := range []bool{false, true} {
				for _, count := range []int{n, t} {
					perm := permuted(n, kind, rng)[:count]
					ps := make([]*share.PriShare, 0, count)
					qs := make([]*share.PubShare, 0, count)
					for _, i := range perm {
						ps = append(ps, priS[i])
						qs = append(qs, pubS[i])
					}
					if holes && count == n {
						ps[1], qs[4] = nil, nil
					}
					tag := fmt.Sprintf("%s:share list{order %d, holes %v, %d of %d}", gn, kind, holes && count == n, count, n)
					ps2, qs2, ps3 := append([]*share.PriShare{}, ps...), append([]*share.PubShare{}, qs...), append([]*share.PriShare{}, ps...)
					obj(10, tag+":RecoverSecret", []interface{}{&ps}, func() string {
						v, err := share.RecoverSecret(g, ps, t, n)
						if err != nil {
							return err.Error()
						}
						return hg.ScalarVal(v).String()
					})
					obj(10, tag+":RecoverCommit", []interface{}{&qs}, func() string {
						v, err := share.RecoverCommit(g, qs, t, n)
						if err != nil {
							return err.Error()
						}
						return hg.Enc(v)
					})
					obj(10, tag+":RecoverPubPoly", []interface{}{&qs2}, func() string {
						v, err := share.RecoverPubPoly(g, qs2, t, n)
						if err != nil {
							return err.Error()
						}
						return hg.Enc(v.Commit())
					})
					obj(10, tag+":RecoverPriPoly", []interface{}{&ps2}, func() string {
						v, err := share.RecoverPriPoly(g, ps2, t, n)
						if err != nil {
							return err.Error()
						}
						return hg.ScalarVal(v.Secret()).String()
					})
					_ = ps3
				}
			}
		}
		// polynomials shared for evaluation / checking
		obj(4, gn+":PriPoly Eval/Shares/Commit/Secret", []interface{}{pri}, func() string {
			return hg.ScalarVal(pri.Eval(2).V).String() + fmt.Sprint(len(pri.Shares(4))) + hg.Enc(pri.Commit(nil).Commit()) + hg.ScalarVal(pri.Secret()).String()
		})
		obj(4, gn+":PubPoly Eval/Shares/Check/Info", []interface{}{pub, priS[1]}, func() string {
			_, cs := pub.Info()
			return hg.Enc(pub.Eval(3).V) + fmt.Sprint(len(pub.Shares(4)), pub.Check(priS[1]), len(cs))
		})
	}
	// 4. a proof predicate, its public values and the suite shared by provers and verifiers
	if im := impls["edwards25519"]; im != nil {
		if ps, ok := im.G.(proof.Suite); ok {
			x := im.NewScalar(rng.BigBelow(im.Q))
			B := im.G.Point().Base()
			X := im.G.Point().Mul(x, nil)
			pred := proof.Rep("X", "x", "B")
			sval := map[string]kyber.Scalar{"x": x}
			pval := map[string]kyber.Point{"B": B, "X": X}
			var prf []byte
			obj(11, "proof:HashProve(shared predicate)", []interface{}{pred, x, B, X, ps}, func() string {
				p, err := proof.HashProve(ps, "verif", pred.Prover(ps, sval, pval, nil))
				prf = p
				return fmt.Sprint(len(p), err)
			})
			obj(11, "proof:HashVerify(shared predicate)", []interface{}{pred, B, X, ps}, func() string {
				return fmt.Sprint(proof.HashVerify(ps, "verif", pred.Verifier(ps, pval), prf))
			})
		}
	}
	// 5. cosi participation mask read by several users
	if im := impls["edwards25519"]; im != nil {
		if cs, ok := im.G.(cosi.Suite); ok {
			var pubs []kyber.Point
			for i := 0; i < 9; i++ {
				pubs = append(pubs, im.G.Point().Mul(im.NewScalar(rng.BigBelow(im.Q)), nil))
			}
			if m, err := cosi.NewMask(cs, pubs, pubs[2]); err == nil {
				obj(3, "cosi.Mask read-only methods", []interface{}{m, &pubs}, func() string {
					a, _ := m.IndexEnabled(2)
					b, _ := m.KeyEnabled(pubs[2])
					return fmt.Sprint(string(m.Mask()), m.Len(), m.CountEnabled(), m.CountTotal(), a, b)
				})
			}
		}
	}
}

// compositeStress (search mode): the FIRST use of a fresh shared object happens concurrently
func compositeStress(c *ctx, impls map[string]*hg.Impl, rng *vh.Rng) {
	const workers = 8
	for trial := 0; trial < 6; trial++ {
		// one multi-source stream, drawn from by all workers: every draw is seeded from its own
		// (distinct) source reads, so no two draws may coincide
		var cnt atomic.Uint64
		st := random.New(ctrReader{&cnt}, ctrReader{&cnt}, ctrReader{&cnt})
		outs := make([][]string, workers)
		var wg sync.WaitGroup
		for w := 0; w < workers; w++ {
			wg.Add(1)
			go func(w int) {
				defer wg.Done()
				for i := 0; i < 40; i++ {
					b := make([]byte, 16)
					st.XORKeyStream(b, b)
					outs[w] = append(outs[w], string(b))
				}
			}(w)
		}
		wg.Wait()
		seen := map[string]bool{}
		for _, o := range outs {
			for _, x := range o {
				if seen[x] {
					c.rep.Fail("random.New(3 sources)/concurrent-draws-collide", "two draws from one shared multi-source stream returned the same key stream",
						map[string]interface{}{"bytes": vh.Hex([]byte(x))})
				}
				seen[x] = true
			}
		}
		// one base mask over a large roster, clones aggregating at once
		s := impls["bn256.G1"].Suite
		sch := bdn.NewSchemeOnG1(s)
		var pubs []kyber.Point
		for i := 0; i < 40; i++ {
			_, pk := sch.NewKeyPair(vh.NewSeqStream(rng.Bytes(8)))
			pubs = append(pubs, pk)
		}
		ref, _ := bdn.NewMask(s.G2(), pubs, nil)
		for i := range pubs {
			_ = ref.SetBit(i, true)
		}
		wantP, _ := sch.AggregatePublicKeys(ref)
		want := hg.Enc(wantP)
		base, _ := bdn.NewMask(s.G2(), pubs, nil) // fresh: never aggregated on
		got := make([]string, workers)
		for w := 0; w < workers; w++ {
			wg.Add(1)
			go func(w int) {
				defer wg.Done()
				vh.Try(func() {
					cl := base.Clone()
					for i := range pubs {
						_ = cl.SetBit(i, true)
					}
					p, err := sch.AggregatePublicKeys(cl)
					if err == nil {
						got[w] = hg.Enc(p)
					}
				})
			}(w)
		}
		wg.Wait()
		for w := range got {
			if got[w] != want {
				c.rep.Fail("bdn.Mask.Clone+AggregatePublicKeys/concurrent-result-differs", "clones of one base mask aggregating concurrently returned a different key", nil)
			}
		}
		// one unsorted complete share list, recovered from by all workers
		im := impls["edwards25519"]
		pri := share.NewPriPoly(im.G, 3, im.NewScalar(rng.BigBelow(im.Q)), vh.NewSeqStream(rng.Bytes(8)))
		pubS := pri.Commit(nil).Shares(7)
		wantC := hg.Enc(pri.Commit(nil).Commit())
		lst := make([]*share.PubShare, 0, 7)
		for _, i := range permuted(7, 3, rng) {
			lst = append(lst, pubS[i])
		}
		for w := 0; w < workers; w++ {
			wg.Add(1)
			go func(w int) {
				defer wg.Done()
				vh.Try(func() {
					v, err := share.RecoverCommit(im.G, lst, 3, 7)
					got[w] = ""
					if err == nil {
						got[w] = hg.Enc(v)
					}
				})
			}(w)
		}
		wg.Wait()
		for w := range got {
			if got[w] != wantC {
				c.rep.Fail("share.RecoverCommit/concurrent-result-differs", "recoveries from one shared share list returned a different commitment", nil)
			}
		}
		c.rep.Count(fmt.Sprintf("composite-stress %d", trial), true)
	}
}

func schemeChecks(c *ctx, im *hg.Impl, rng *vh.Rng) {
	name := im.Name
	obj := func(kind int, what string, shared []interface{}, f func() string) {
		chs := c.observe(name+":"+what, shared, f)
		any := false
		for _, x := range chs {
			any = any || x
		}
		c.id++
		c.items = append(c.items, fmt.Sprintf("(CObj %d %d %s)", c.id, kind, vh.CoqBool(any)))
		c.rep.Index(c.id, name+":"+what)
	}
	// public polynomial shared for evaluation
	secret := im.NewScalar(rng.BigBelow(im.Q))
	pri := share.NewPriPoly(im.G, 3, secret, vh.NewSeqStream(rng.Bytes(8)))
	pub := pri.Commit(hg.NonNormal(im, rng))
	obj(4, "share.PubPoly.Eval/Commit", []interface{}{pub}, func() string {
		return hg.Enc(pub.Eval(2).V) + hg.Enc(pub.Commit())
	})
}

type schnorrSuite interface {
	kyber.Group
	kyber.Random
}

// ---------------------------------------------------------------- failing-schedule search

func stress(c *ctx, im *hg.Impl, rng *vh.Rng) {
	p, q := hg.NonNormal(im, rng), hg.NonNormal(im, rng)
	s := im.NewScalar(rng.BigBelow(im.Q))
	calls := map[string]func() string{
		"MarshalBinary":  func() string { b, _ := p.MarshalBinary(); return string(b) },
		"String":         func() string { return p.String() },
		"Equal":          func() string { return fmt.Sprint(p.Equal(q)) },
		"Clone":          func() string { return hg.Enc(p.Clone()) },
		"operand-of-Add": func() string { return hg.Enc(im.G.Point().Add(p, q)) },
		"operand-of-Mul": func() string { return hg.Enc(im.G.Point().Mul(s, p)) },
	}
	var names []string
	for k := range calls {
		names = append(names, k)
	}
	sort.Strings(names)
	// sequential reference on an identical, separately built object graph is not available without
	// Clone (under test); the reference is the value on the same objects before the concurrent phase
	want := map[string]string{}
	for _, k := range names {
		want[k] = calls[k]()
	}
	// rebuild non-normalised inputs: the reference run may have normalised them
	p2, q2 := hg.NonNormal(im, rng), hg.NonNormal(im, rng)
	wantP2 := hg.Enc(im.FreshPoint(hg.Enc(im.G.Point().Add(p2, q2))))
	var wg sync.WaitGroup
	var mu sync.Mutex
	bad := map[string]string{}
	for g := 0; g < 8; g++ {
		wg.Add(1)
		go func(g int) {
			defer wg.Done()
			for it := 0; it < 30; it++ {
				for _, k := range names {
					if pan, _ := vh.Try(func() {
						if got := calls[k](); got != want[k] {
							mu.Lock()
							bad[k] = vh.Hex([]byte(got))
							mu.Unlock()
						}
					}); pan {
						mu.Lock()
						bad[k] = "panic"
						mu.Unlock()
					}
				}
				var got string
				switch g % 3 {
				case 0:
					b, _ := p2.MarshalBinary()
					_ = b
					got = hg.Enc(im.G.Point().Add(p2, q2))
				case 1:
					_ = p2.String()
					_ = q2.Equal(p2)
					got = hg.Enc(im.G.Point().Add(p2, q2))
				default:
					got = hg.Enc(im.G.Point().Add(p2, q2))
				}
				if got != wantP2 {
					mu.Lock()
					bad["mixed-readers"] = vh.Hex([]byte(got))
					mu.Unlock()
				}
			}
		}(g)
	}
	wg.Wait()
	for k, v := range bad {
		c.rep.Fail(im.Name+":"+k+"/concurrent-result-differs", "a read-only call on a shared value returned a different result under concurrency",
			map[string]interface{}{"impl": im.Name, "call": k, "got": v})
	}
	c.rep.Count(im.Name+":stress", true)
}

// raceSearch (search mode only): builds this harness with the race detector, runs its goroutine
// stress and turns every reported data race whose stacks touch kyber code into a failure with
// the race report as replay.  The claim of the check does not rest on this.
func raceSearch(o vh.Opts, rep *vh.Report) {
	if os.Getenv("C20_RACE_CHILD") != "" || os.Getenv("VERIF_NO_RACE") != "" {
		return
	}
	bin := filepath.Join(o.Out, "c20race")
	args := []string{"build", "-race", "-tags", "verif", "-o", bin}
	if alt := os.Getenv("VERIF_REPO"); alt != "" {
		if mf, err := filepath.Abs("../build/alt/C20.mod"); err == nil {
			if _, err := os.Stat(mf); err == nil {
				args = append(args, "-modfile="+mf)
			}
		}
	}
	args = append(args, "./cmd/c20")
	if out, err := exec.Command("go", args...).CombinedOutput(); err != nil {
		rep.Note("race-detector build not available: " + string(out))
		return
	}
	defer os.Remove(bin)
	cmd := exec.Command(bin, "-search", "-seed", fmt.Sprint(o.Seed), "-out", filepath.Join(o.Out, "race"))
	cmd.Env = append(os.Environ(), "C20_RACE_CHILD=1", "GORACE=halt_on_error=0")
	out, _ := cmd.CombinedOutput()
	fn := regexp.MustCompile(`go\.dedis\.ch/kyber/v4/([^\s(]+(?:\(\*?\w+\))?[.\w]*)\(\)`)
	for _, blk := range strings.Split(string(out), "WARNING: DATA RACE")[1:] {
		if i := strings.Index(blk, "=================="); i >= 0 {
			blk = blk[:i]
		}
		m := fn.FindStringSubmatch(blk)
		if m == nil {
			continue
		}
		if len(blk) > 3000 {
			blk = blk[:3000]
		}
		rep.Fail("race:"+m[1], "the race detector reported a data race between read-only uses of a shared value",
			map[string]interface{}{"race_report": blk})
	}
	rep.Note("race detector run: " + fmt.Sprint(strings.Count(string(out), "WARNING: DATA RACE")) + " reports")
}

func main() {
	o := vh.ParseFlags()
	rep := vh.NewReport("C20", o.Seed, o.Tier)
	rep.Rule = "per implementation and draw of non-normalised points / scalars: deep byte-level snapshot of every shared object before and after each read-only call (MarshalBinary String Equal Clone Data MarshalTo, operand of Add Sub Neg Mul Set and of the scalar operations, Suite.Pair, ValidatePairing, RandomStream, Hash/XOF, bls.Verify with a shared key, bdn.Mask.Clone, PubPoly.Eval/Commit); repeated calls must return the same result; -search: 8 goroutines x 30 rounds on shared objects compared with the sequential results"
	rng := vh.NewRng(o.Seed)
	c := &ctx{rep: rep}
	draws := 3
	if o.Thorough {
		draws = 12
	}
	impls := hg.All()
	byName := map[string]*hg.Impl{}
	for _, im := range impls {
		byName[im.Name] = im
		r := rng.Fork()
		groupChecks(c, im, r, draws)
		formChecks(c, im, r)
		if !im.Slow || o.Thorough {
			schemeChecks(c, im, r)
		}
		if im.Name == "edwards25519" || im.Name == "p256" {
			// schnorr verification with a shared public key
			if ss, ok := im.G.(schnorrSuite); ok {
				priv := im.NewScalar(r.BigBelow(im.Q))
				pub := im.G.Point().Add(im.G.Point().Mul(priv, nil), im.G.Point().Null())
				msg := []byte("m")
				if sig, err := schnorr.Sign(ss, priv, msg); err == nil {
					ch := c.observe(im.Name+":schnorr.Verify(shared key)", []interface{}{pub}, func() string {
						return fmt.Sprint(schnorr.Verify(im.G, pub, msg, sig), schnorr.Verify(im.G, pub, []byte("x"), sig) != nil)
					})
					c.id++
					c.items = append(c.items, fmt.Sprintf("(CObj %d 5 %s)", c.id, vh.CoqBool(ch[0])))
					rep.Index(c.id, im.Name+":schnorr.Verify")
				}
			}
		}
		if o.Search {
			stress(c, im, r)
		}
	}
	for _, nm := range []string{"bn256", "bn254", "bls12381.kilic", "bls12381.circl", "bls12381.gnark"} {
		g1, g2 := byName[nm+".G1"], byName[nm+".G2"]
		pd := 1
		if o.Thorough {
			pd = 3
		}
		pairingChecks(c, nm, g1.Suite, g1, g2, rng.Fork(), pd)
	}
	suiteChecks(c, rng.Fork())
	compositeChecks(c, byName, rng.Fork())
	if o.Search {
		compositeStress(c, byName, rng.Fork())
	}
	_ = big.NewInt
	if o.Search {
		raceSearch(o, rep)
	}
	if !o.Search {
		vh.WriteShards(o.Out, "c20", &vh.CaseFile{Header: "From Kyber Require Import Heap.FootRun.", Type: "case",
			Runner: "mismatches", Items: c.items}, 200, rep)
	}
	rep.Write(o.Out)
}
