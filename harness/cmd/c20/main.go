// Harness for property C20 (shared read-only use is free of data races).
//
// Deterministic part (every run): for every group implementation and for
// suites, masks, keys and public polynomials, a deep byte-level snapshot
// (reflection + unsafe walk over every field, limb, big.Int word and pointer)
// of each shared object is taken before and after each read-only call --
// encoding, printing, comparing, cloning, extracting data, being an operand of
// an operation that writes elsewhere, pairing, verifying with shared keys,
// drawing from a suite's random stream, cloning a mask.  Any changed byte is a
// write to shared memory (oracle failure) and is reported to Coq, where it is
// only admissible if the method's transcription has a write to that variable.
// The inputs are non-normalised (results of additions), so that lazy
// normalisation shows.  Outputs of repeated calls must agree.
//
// -search: many goroutines hammer the read-only methods on shared objects and
// compare every result with the sequential one (failing-schedule search; run
// it under `go run -race` to obtain a race report as a replay).
package main

import (
	"bytes"
	"fmt"
	"math/big"
	"os"
	"os/exec"
	"path/filepath"
	"reflect"
	"regexp"
	"sort"
	"strings"
	"sync"
	"unsafe"

	"go.dedis.ch/kyber/v4"
	"go.dedis.ch/kyber/v4/pairing"
	"go.dedis.ch/kyber/v4/share"
	"go.dedis.ch/kyber/v4/sign/bdn"
	"go.dedis.ch/kyber/v4/sign/bls"
	"go.dedis.ch/kyber/v4/sign/schnorr"
	"kyverif/hg"
	"kyverif/vh"
)

// ---------------------------------------------------------------- deep snapshot

type snapper struct {
	seen  map[uintptr]bool
	lines []string
}

func numeric(k reflect.Kind) bool {
	switch k {
	case reflect.Bool, reflect.Int, reflect.Int8, reflect.Int16, reflect.Int32, reflect.Int64,
		reflect.Uint, reflect.Uint8, reflect.Uint16, reflect.Uint32, reflect.Uint64, reflect.Uintptr,
		reflect.Float32, reflect.Float64, reflect.Complex64, reflect.Complex128:
		return true
	}
	return false
}

func flat(t reflect.Type) bool { // contains no pointers: raw bytes are the whole state
	switch t.Kind() {
	case reflect.Array:
		return flat(t.Elem())
	case reflect.Struct:
		for i := 0; i < t.NumField(); i++ {
			if !flat(t.Field(i).Type) {
				return false
			}
		}
		return true
	}
	return numeric(t.Kind())
}

func rawBytes(p unsafe.Pointer, n uintptr) []byte {
	if n == 0 {
		return nil
	}
	return append([]byte(nil), unsafe.Slice((*byte)(p), int(n))...)
}

func (s *snapper) walk(v reflect.Value, path string, depth int) {
	if depth > 14 || len(s.lines) > 400000 {
		return
	}
	t := v.Type()
	if v.CanAddr() && flat(t) {
		s.lines = append(s.lines, path+"="+vh.Hex(rawBytes(unsafe.Pointer(v.UnsafeAddr()), t.Size())))
		return
	}
	switch v.Kind() {
	case reflect.Ptr:
		if v.IsNil() {
			s.lines = append(s.lines, path+"=nil")
			return
		}
		a := v.Pointer()
		s.lines = append(s.lines, fmt.Sprintf("%s=ptr:%x", path, a))
		if s.seen[a] {
			return
		}
		s.seen[a] = true
		s.walk(v.Elem(), path+"*", depth+1)
	case reflect.Struct:
		for i := 0; i < v.NumField(); i++ {
			f := v.Field(i)
			if f.CanAddr() {
				f = reflect.NewAt(f.Type(), unsafe.Pointer(f.UnsafeAddr())).Elem()
			}
			s.walk(f, path+"."+t.Field(i).Name, depth+1)
		}
	case reflect.Slice:
		if v.IsNil() {
			s.lines = append(s.lines, path+"=nilslice")
			return
		}
		s.lines = append(s.lines, fmt.Sprintf("%s=slice:%x/%d", path, v.Pointer(), v.Len()))
		if v.Len() == 0 {
			return
		}
		et := t.Elem()
		if flat(et) {
			s.lines = append(s.lines, path+"[]="+vh.Hex(rawBytes(unsafe.Pointer(v.Pointer()), et.Size()*uintptr(v.Len()))))
			return
		}
		if s.seen[v.Pointer()] {
			return
		}
		s.seen[v.Pointer()] = true
		for i := 0; i < v.Len(); i++ {
			s.walk(v.Index(i), fmt.Sprintf("%s[%d]", path, i), depth+1)
		}
	case reflect.Array:
		for i := 0; i < v.Len(); i++ {
			s.walk(v.Index(i), fmt.Sprintf("%s[%d]", path, i), depth+1)
		}
	case reflect.Interface:
		if v.IsNil() {
			s.lines = append(s.lines, path+"=nilif")
			return
		}
		s.walk(v.Elem(), path+"!", depth+1)
	case reflect.String:
		s.lines = append(s.lines, path+"=str:"+v.String())
	case reflect.Map:
		s.lines = append(s.lines, fmt.Sprintf("%s=map:%d", path, v.Len()))
	default:
		if numeric(v.Kind()) {
			s.lines = append(s.lines, fmt.Sprintf("%s=%v", path, v))
		}
	}
}

// snapshot returns the deep state of the object behind pointer / interface x
func snapshot(x interface{}) []string {
	s := &snapper{seen: map[uintptr]bool{}}
	s.walk(reflect.ValueOf(x), "", 0)
	return s.lines
}

func diff(a, b []string) string {
	if len(a) != len(b) {
		return fmt.Sprintf("shape changed (%d -> %d entries)", len(a), len(b))
	}
	for i := range a {
		if a[i] != b[i] {
			x, y := a[i], b[i]
			if len(x) > 160 {
				x = x[:160] + "..."
			}
			if len(y) > 160 {
				y = y[:160] + "..."
			}
			return x + "  ->  " + y
		}
	}
	return ""
}

// ---------------------------------------------------------------- per-group checks

const (
	rMarshal = iota
	rString
	rEqual
	rClone
	rData
	rMarshalTo
	rPair
	rScalarMarshal
	rScalarString
	rScalarEqual
	rScalarClone
)

var rname = []string{"MarshalBinary", "String", "Equal", "Clone", "Data", "MarshalTo", "Pair",
	"Scalar.MarshalBinary", "Scalar.String", "Scalar.Equal", "Scalar.Clone"}

type ctx struct {
	rep   *vh.Report
	items []string
	id    int
}

// observe runs f (twice: results must agree), comparing deep snapshots of the shared objects
func (c *ctx) observe(key string, shared []interface{}, f func() string) []bool {
	before := make([][]string, len(shared))
	for i, o := range shared {
		before[i] = snapshot(o)
	}
	var r1, r2 string
	pan, msg := vh.Try(func() { r1 = f(); r2 = f() })
	changed := make([]bool, len(shared))
	if pan {
		c.rep.Fail(key+"/panic", msg, nil)
		return changed
	}
	if r1 != r2 {
		c.rep.Fail(key+"/result-not-repeatable", "two identical read-only calls returned different results",
			map[string]interface{}{"first": vh.Hex([]byte(r1)), "second": vh.Hex([]byte(r2))})
	}
	for i, o := range shared {
		after := snapshot(o)
		if d := diff(before[i], after); d != "" {
			changed[i] = true
			c.rep.Fail(fmt.Sprintf("%s/writes-shared-object[%d]", key, i),
				"a read-only call changed the memory of a shared object", map[string]interface{}{"call": key, "object": i, "first_difference": d})
		}
	}
	c.rep.Count(key, true)
	c.rep.Dist(key[bytes.IndexByte([]byte(key), ':')+1:])
	return changed
}

func boolList(b []bool) string {
	var s []string
	for _, x := range b {
		s = append(s, vh.CoqBool(x))
	}
	return vh.CoqList(s)
}

func (c *ctx) emit(kind string, a, b int, changed []bool, desc string) {
	c.id++
	c.items = append(c.items, fmt.Sprintf("(%s %d %d %d %s)", kind, c.id, a, b, boolList(changed)))
	c.rep.Index(c.id, desc)
}

// nonNormal returns a point in a non-normalised internal representation (result of additions)
func nonNormal(im *hg.Impl, rng *vh.Rng) kyber.Point {
	a := im.G.Point().Mul(im.NewScalar(rng.BigBelow(im.Q)), im.Gen())
	b := im.G.Point().Mul(im.NewScalar(rng.BigBelow(im.Q)), im.Gen())
	p := im.G.Point().Add(a, b)
	return im.G.Point().Add(p, a)
}

func groupChecks(c *ctx, im *hg.Impl, rng *vh.Rng, draws int) {
	for d := 0; d < draws; d++ {
		p, q := nonNormal(im, rng), nonNormal(im, rng)
		if d == 1 {
			q = im.G.Point().Sub(p, p) // identity, non-normalised
		}
		s, t := im.NewScalar(rng.BigBelow(im.Q)), im.NewScalar(rng.EdgeScalar(im.Q))
		pre := im.Name + ":"
		ro := func(rm int, shared []interface{}, f func() string) {
			ch := c.observe(pre+rname[rm], shared, f)
			impl := im.PImpl
			if rm >= rScalarMarshal {
				impl = im.SImpl
			}
			c.emit("CRead", impl, rm, ch, pre+rname[rm])
		}
		ro(rMarshal, []interface{}{p}, func() string { b, _ := p.MarshalBinary(); return string(b) })
		p = nonNormal(im, rng) // every call gets an input whose lazy normalisation has not happened yet
		ro(rString, []interface{}{p}, func() string { return p.String() })
		p = nonNormal(im, rng)
		ro(rEqual, []interface{}{p, q}, func() string { return fmt.Sprint(p.Equal(q), q.Equal(p), p.Equal(p)) })
		p, q = nonNormal(im, rng), nonNormal(im, rng)
		ro(rClone, []interface{}{p}, func() string { return hg.Enc(p.Clone()) })
		if im.HasEmbed {
			e := im.G.Point().Embed([]byte("data"), vh.NewSeqStream(rng.Bytes(8)))
			z := nonNormal(im, rng)
			e2 := im.G.Point().Sub(im.G.Point().Add(e, z), z) // the embedding in a non-normalised representation
			ro(rData, []interface{}{e2}, func() string { b, err := e2.Data(); return string(b) + fmt.Sprint(err) })
		}
		p = nonNormal(im, rng)
		ro(rMarshalTo, []interface{}{p}, func() string { var w bytes.Buffer; _, _ = p.MarshalTo(&w); return w.String() })
		p = nonNormal(im, rng)
		ro(rScalarMarshal, []interface{}{s}, func() string { b, _ := s.MarshalBinary(); return string(b) })
		ro(rScalarString, []interface{}{s}, func() string { return s.String() })
		ro(rScalarEqual, []interface{}{s, t}, func() string { return fmt.Sprint(s.Equal(t), t.Equal(s)) })
		ro(rScalarClone, []interface{}{s}, func() string { return hg.ScalarVal(s.Clone()).String() })

		// operands of operations that write a private receiver
		op := func(m int, name string, shared []interface{}, f func() string) {
			ch := c.observe(pre+"operand-of-"+name, shared, f)
			impl := im.PImpl
			if m >= 20 {
				impl = im.SImpl
			}
			c.emit("COperand", impl, m, append([]bool{false}, ch...), pre+"operand-of-"+name)
		}
		op(0, "Add", []interface{}{p, q}, func() string { return hg.Enc(im.G.Point().Add(p, q)) })
		op(1, "Sub", []interface{}{p, q}, func() string { return hg.Enc(im.G.Point().Sub(p, q)) })
		op(2, "Neg", []interface{}{p}, func() string { return hg.Enc(im.G.Point().Neg(p)) })
		op(3, "Mul", []interface{}{s, p}, func() string { return hg.Enc(im.G.Point().Mul(s, p)) })
		op(7, "Set", []interface{}{p}, func() string { return hg.Enc(im.G.Point().Set(p)) })
		op(20, "Scalar.Add", []interface{}{s, t}, func() string { return hg.ScalarVal(im.G.Scalar().Add(s, t)).String() })
		op(21, "Scalar.Sub", []interface{}{s, t}, func() string { return hg.ScalarVal(im.G.Scalar().Sub(s, t)).String() })
		op(22, "Scalar.Neg", []interface{}{s}, func() string { return hg.ScalarVal(im.G.Scalar().Neg(s)).String() })
		op(23, "Scalar.Mul", []interface{}{s, t}, func() string { return hg.ScalarVal(im.G.Scalar().Mul(s, t)).String() })
		if hg.ScalarVal(t).Sign() != 0 {
			op(24, "Scalar.Div", []interface{}{s, t}, func() string { return hg.ScalarVal(im.G.Scalar().Div(s, t)).String() })
			op(25, "Scalar.Inv", []interface{}{t}, func() string { return hg.ScalarVal(im.G.Scalar().Inv(t)).String() })
		}
		op(31, "Scalar.Set", []interface{}{s}, func() string { return hg.ScalarVal(im.G.Scalar().Set(s)).String() })
	}
}

func pairingChecks(c *ctx, name string, s pairing.Suite, g1, g2 *hg.Impl, rng *vh.Rng, draws int) {
	for d := 0; d < draws; d++ {
		p1, p2 := nonNormal(g1, rng), nonNormal(g2, rng)
		k := g1.NewScalar(rng.BigBelow(g1.Q))
		p3 := g1.G.Point().Mul(k, p1)
		kinv := g1.G.Scalar().Inv(k)
		p4 := g2.G.Point().Mul(kinv, p2)
		ch := c.observe(name+":Suite.Pair", []interface{}{p1, p2}, func() string { return hg.Enc(s.Pair(p1, p2)) })
		c.emit("CRead", g1.PImpl, rPair, ch, name+":Suite.Pair")
		ch = c.observe(name+":Suite.ValidatePairing", []interface{}{p1, p2, p3, p4}, func() string {
			return fmt.Sprint(s.ValidatePairing(p1, p2, p3, p4), s.ValidatePairing(p1, p2, p1, p2), s.ValidatePairing(p1, p2, p3, p2))
		})
		c.emit("CRead", g1.PImpl, rPair, ch[:2], name+":Suite.ValidatePairing(1,2)")
		c.emit("CRead", g1.PImpl, rPair, ch[2:], name+":Suite.ValidatePairing(3,4)")
		// suite used for hashing / random stream / scheme verification with shared keys
		obj := func(kind int, what string, shared []interface{}, f func() string) {
			chs := c.observe(name+":"+what, shared, f)
			any := false
			for _, x := range chs {
				any = any || x
			}
			c.id++
			c.items = append(c.items, fmt.Sprintf("(CObj %d %d %s)", c.id, kind, vh.CoqBool(any)))
			c.rep.Index(c.id, name+":"+what)
		}
		obj(0, "Suite.RandomStream", []interface{}{s}, func() string {
			b := make([]byte, 16)
			s.RandomStream().XORKeyStream(b, b)
			return ""
		})
		obj(1, "Suite.Hash/XOF", []interface{}{s}, func() string {
			h := s.Hash()
			h.Write([]byte("x"))
			x := s.XOF([]byte("seed"))
			o := make([]byte, 8)
			x.Read(o)
			return string(h.Sum(nil)) + string(o)
		})
		sch := bls.NewSchemeOnG1(s)
		priv, pub := sch.NewKeyPair(vh.NewSeqStream(rng.Bytes(8)))
		msg := []byte("message")
		sig, err := sch.Sign(priv, msg)
		if err == nil {
			obj(2, "bls.Verify(shared key)", []interface{}{pub, s}, func() string {
				return fmt.Sprint(sch.Verify(pub, msg, sig), sch.Verify(pub, []byte("other"), sig) != nil)
			})
		}
		// bdn mask clone
		var pubs []kyber.Point
		for i := 0; i < 4; i++ {
			_, pk := bdn.NewSchemeOnG1(s).NewKeyPair(vh.NewSeqStream(rng.Bytes(8)))
			pubs = append(pubs, pk)
		}
		if m, err := bdn.NewMask(s.G2(), pubs, nil); err == nil {
			_ = m.SetBit(1, true)
			obj(3, "bdn.Mask.Clone", []interface{}{m}, func() string {
				cl := m.Clone()
				_ = cl.SetBit(2, true)
				return string(m.Mask())
			})
		}
	}
}

func schemeChecks(c *ctx, im *hg.Impl, rng *vh.Rng) {
	name := im.Name
	obj := func(kind int, what string, shared []interface{}, f func() string) {
		chs := c.observe(name+":"+what, shared, f)
		any := false
		for _, x := range chs {
			any = any || x
		}
		c.id++
		c.items = append(c.items, fmt.Sprintf("(CObj %d %d %s)", c.id, kind, vh.CoqBool(any)))
		c.rep.Index(c.id, name+":"+what)
	}
	// public polynomial shared for evaluation
	secret := im.NewScalar(rng.BigBelow(im.Q))
	pri := share.NewPriPoly(im.G, 3, secret, vh.NewSeqStream(rng.Bytes(8)))
	pub := pri.Commit(nonNormal(im, rng))
	obj(4, "share.PubPoly.Eval/Commit", []interface{}{pub}, func() string {
		return hg.Enc(pub.Eval(2).V) + hg.Enc(pub.Commit())
	})
}

type schnorrSuite interface {
	kyber.Group
	kyber.Random
}

// ---------------------------------------------------------------- failing-schedule search

func stress(c *ctx, im *hg.Impl, rng *vh.Rng) {
	p, q := nonNormal(im, rng), nonNormal(im, rng)
	s := im.NewScalar(rng.BigBelow(im.Q))
	calls := map[string]func() string{
		"MarshalBinary":  func() string { b, _ := p.MarshalBinary(); return string(b) },
		"String":         func() string { return p.String() },
		"Equal":          func() string { return fmt.Sprint(p.Equal(q)) },
		"Clone":          func() string { return hg.Enc(p.Clone()) },
		"operand-of-Add": func() string { return hg.Enc(im.G.Point().Add(p, q)) },
		"operand-of-Mul": func() string { return hg.Enc(im.G.Point().Mul(s, p)) },
	}
	var names []string
	for k := range calls {
		names = append(names, k)
	}
	sort.Strings(names)
	// sequential reference on an identical, separately built object graph is not available without
	// Clone (under test); the reference is the value on the same objects before the concurrent phase
	want := map[string]string{}
	for _, k := range names {
		want[k] = calls[k]()
	}
	// rebuild non-normalised inputs: the reference run may have normalised them
	p2, q2 := nonNormal(im, rng), nonNormal(im, rng)
	wantP2 := hg.Enc(im.FreshPoint(hg.Enc(im.G.Point().Add(p2, q2))))
	var wg sync.WaitGroup
	var mu sync.Mutex
	bad := map[string]string{}
	for g := 0; g < 8; g++ {
		wg.Add(1)
		go func(g int) {
			defer wg.Done()
			for it := 0; it < 30; it++ {
				for _, k := range names {
					if pan, _ := vh.Try(func() {
						if got := calls[k](); got != want[k] {
							mu.Lock()
							bad[k] = vh.Hex([]byte(got))
							mu.Unlock()
						}
					}); pan {
						mu.Lock()
						bad[k] = "panic"
						mu.Unlock()
					}
				}
				var got string
				switch g % 3 {
				case 0:
					b, _ := p2.MarshalBinary()
					_ = b
					got = hg.Enc(im.G.Point().Add(p2, q2))
				case 1:
					_ = p2.String()
					_ = q2.Equal(p2)
					got = hg.Enc(im.G.Point().Add(p2, q2))
				default:
					got = hg.Enc(im.G.Point().Add(p2, q2))
				}
				if got != wantP2 {
					mu.Lock()
					bad["mixed-readers"] = vh.Hex([]byte(got))
					mu.Unlock()
				}
			}
		}(g)
	}
	wg.Wait()
	for k, v := range bad {
		c.rep.Fail(im.Name+":"+k+"/concurrent-result-differs", "a read-only call on a shared value returned a different result under concurrency",
			map[string]interface{}{"impl": im.Name, "call": k, "got": v})
	}
	c.rep.Count(im.Name+":stress", true)
}

// raceSearch (search mode only): builds this harness with the race detector, runs its goroutine
// stress and turns every reported data race whose stacks touch kyber code into a failure with
// the race report as replay.  The claim of the check does not rest on this.
func raceSearch(o vh.Opts, rep *vh.Report) {
	if os.Getenv("C20_RACE_CHILD") != "" || os.Getenv("VERIF_NO_RACE") != "" {
		return
	}
	bin := filepath.Join(o.Out, "c20race")
	args := []string{"build", "-race", "-tags", "verif", "-o", bin}
	if alt := os.Getenv("VERIF_REPO"); alt != "" {
		if mf, err := filepath.Abs("../build/alt/C20.mod"); err == nil {
			if _, err := os.Stat(mf); err == nil {
				args = append(args, "-modfile="+mf)
			}
		}
	}
	args = append(args, "./cmd/c20")
	if out, err := exec.Command("go", args...).CombinedOutput(); err != nil {
		rep.Note("race-detector build not available: " + string(out))
		return
	}
	defer os.Remove(bin)
	cmd := exec.Command(bin, "-search", "-seed", fmt.Sprint(o.Seed), "-out", filepath.Join(o.Out, "race"))
	cmd.Env = append(os.Environ(), "C20_RACE_CHILD=1", "GORACE=halt_on_error=0")
	out, _ := cmd.CombinedOutput()
	fn := regexp.MustCompile(`go\.dedis\.ch/kyber/v4/([^\s(]+(?:\(\*?\w+\))?[.\w]*)\(\)`)
	for _, blk := range strings.Split(string(out), "WARNING: DATA RACE")[1:] {
		if i := strings.Index(blk, "=================="); i >= 0 {
			blk = blk[:i]
		}
		m := fn.FindStringSubmatch(blk)
		if m == nil {
			continue
		}
		if len(blk) > 3000 {
			blk = blk[:3000]
		}
		rep.Fail("race:"+m[1], "the race detector reported a data race between read-only uses of a shared value",
			map[string]interface{}{"race_report": blk})
	}
	rep.Note("race detector run: " + fmt.Sprint(strings.Count(string(out), "WARNING: DATA RACE")) + " reports")
}

func main() {
	o := vh.ParseFlags()
	rep := vh.NewReport("C20", o.Seed, o.Tier)
	rep.Rule = "per implementation and draw of non-normalised points / scalars: deep byte-level snapshot of every shared object before and after each read-only call (MarshalBinary String Equal Clone Data MarshalTo, operand of Add Sub Neg Mul Set and of the scalar operations, Suite.Pair, ValidatePairing, RandomStream, Hash/XOF, bls.Verify with a shared key, bdn.Mask.Clone, PubPoly.Eval/Commit); repeated calls must return the same result; -search: 8 goroutines x 30 rounds on shared objects compared with the sequential results"
	rng := vh.NewRng(o.Seed)
	c := &ctx{rep: rep}
	draws := 3
	if o.Thorough {
		draws = 12
	}
	impls := hg.All()
	byName := map[string]*hg.Impl{}
	for _, im := range impls {
		byName[im.Name] = im
		r := rng.Fork()
		groupChecks(c, im, r, draws)
		if !im.Slow || o.Thorough {
			schemeChecks(c, im, r)
		}
		if im.Name == "edwards25519" || im.Name == "p256" {
			// schnorr verification with a shared public key
			if ss, ok := im.G.(schnorrSuite); ok {
				priv := im.NewScalar(r.BigBelow(im.Q))
				pub := im.G.Point().Add(im.G.Point().Mul(priv, nil), im.G.Point().Null())
				msg := []byte("m")
				if sig, err := schnorr.Sign(ss, priv, msg); err == nil {
					ch := c.observe(im.Name+":schnorr.Verify(shared key)", []interface{}{pub}, func() string {
						return fmt.Sprint(schnorr.Verify(im.G, pub, msg, sig), schnorr.Verify(im.G, pub, []byte("x"), sig) != nil)
					})
					c.id++
					c.items = append(c.items, fmt.Sprintf("(CObj %d 5 %s)", c.id, vh.CoqBool(ch[0])))
					rep.Index(c.id, im.Name+":schnorr.Verify")
				}
			}
		}
		if o.Search {
			stress(c, im, r)
		}
	}
	for _, nm := range []string{"bn256", "bn254", "bls12381.kilic", "bls12381.circl", "bls12381.gnark"} {
		g1, g2 := byName[nm+".G1"], byName[nm+".G2"]
		pd := 1
		if o.Thorough {
			pd = 3
		}
		pairingChecks(c, nm, g1.Suite, g1, g2, rng.Fork(), pd)
	}
	_ = big.NewInt
	if o.Search {
		raceSearch(o, rep)
	}
	if !o.Search {
		vh.WriteShards(o.Out, "c20", &vh.CaseFile{Header: "From Kyber Require Import Heap.FootRun.", Type: "case",
			Runner: "mismatches", Items: c.items}, 200, rep)
	}
	rep.Write(o.Out)
}
