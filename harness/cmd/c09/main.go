// Correspondence + oracle harness for property C09 (BLS, threshold BLS, BDN
// and CoSi multi-signatures verify iff honestly formed).
//
// Two kinds of runs:
//   - over the transparent dlog pairing suite (dlogsuite.go) and vh.DlogGroup
//     kyber's generic bls/tbls/bdn/cosi code is executed with every value known
//     exactly; the cases carry the exact discrete logarithms and the Coq model
//     (MSig/MSigSM.v, run by MSig/MSigRun.v) must reproduce every observation;
//   - over the 8 real (suite, signature group) combinations the same scenarios
//     are executed; points get harness-assigned logarithms (known multiples of
//     a random generator per message), and verdicts / equalities are compared
//     with the model.
//
// Oracles evaluate the property text directly on the implementation.
package main

import (
	"bytes"
	"crypto/cipher"
	"crypto/sha256"
	"fmt"
	"math/big"
	"os"
	"strings"

	"go.dedis.ch/kyber/v4"
	"go.dedis.ch/kyber/v4/group/edwards25519"
	"go.dedis.ch/kyber/v4/pairing"
	circl "go.dedis.ch/kyber/v4/pairing/bls12381/circl"
	gnark "go.dedis.ch/kyber/v4/pairing/bls12381/gnark"
	kilic "go.dedis.ch/kyber/v4/pairing/bls12381/kilic"
	"go.dedis.ch/kyber/v4/pairing/bn254"
	"go.dedis.ch/kyber/v4/pairing/bn256"
	"go.dedis.ch/kyber/v4/share"
	"go.dedis.ch/kyber/v4/sign"
	"go.dedis.ch/kyber/v4/sign/bdn"
	"go.dedis.ch/kyber/v4/sign/bls"
	"go.dedis.ch/kyber/v4/sign/cosi"
	"go.dedis.ch/kyber/v4/sign/tbls"

	"kyverif/vh"
)

var Q = vh.Q61

// ---------------------------------------------------------------- environments

type env struct {
	name       string
	suite      pairing.Suite
	g1         bool // signatures in G1 (keys in G2)
	dlog       bool
	sigG, keyG kyber.Group
	bls        sign.Scheme
	tbls       sign.ThresholdScheme
	bdn        *bdn.Scheme
	hAssigned  map[string]*big.Int
}

func mkEnv(name string, s pairing.Suite, g1, dlog bool) *env {
	e := &env{name: name, suite: s, g1: g1, dlog: dlog, hAssigned: map[string]*big.Int{}}
	if g1 {
		e.name += "/G1"
		e.sigG, e.keyG = s.G1(), s.G2()
		e.bls, e.tbls, e.bdn = bls.NewSchemeOnG1(s), tbls.NewThresholdSchemeOnG1(s), bdn.NewSchemeOnG1(s)
	} else {
		e.name += "/G2"
		e.sigG, e.keyG = s.G2(), s.G1()
		e.bls, e.tbls, e.bdn = bls.NewSchemeOnG2(s), tbls.NewThresholdSchemeOnG2(s), bdn.NewSchemeOnG2(s)
	}
	return e
}

func dlogEnvs() []*env {
	return []*env{mkEnv("dlog", newDSuite(), true, true), mkEnv("dlog", newDSuite(), false, true)}
}

// the 8 supported (suite, signature group) combinations: bn256 and bn254 hash
// to G1 only.
func realEnvs() []*env {
	return []*env{
		mkEnv("bn256", bn256.NewSuite(), true, false),
		mkEnv("bn254", bn254.NewSuite(), true, false),
		mkEnv("kilic", kilic.NewBLS12381Suite(), true, false),
		mkEnv("kilic", kilic.NewBLS12381Suite(), false, false),
		mkEnv("circl", circl.NewSuite(), true, false),
		mkEnv("circl", circl.NewSuite(), false, false),
		mkEnv("gnark", gnark.NewSuite(), true, false),
		mkEnv("gnark", gnark.NewSuite(), false, false),
	}
}

type rngStream struct{ r *vh.Rng }

func (s rngStream) XORKeyStream(dst, src []byte) {
	ks := s.r.Bytes(len(src))
	for i := range src {
		dst[i] = src[i] ^ ks[i]
	}
}
func stream(r *vh.Rng) cipher.Stream { return rngStream{r.Fork()} }

func modq(v *big.Int) *big.Int    { return new(big.Int).Mod(v, Q) }
func mulq(a, b *big.Int) *big.Int { return modq(new(big.Int).Mul(a, b)) }
func addq(a, b *big.Int) *big.Int { return modq(new(big.Int).Add(a, b)) }
func rand60(r *vh.Rng) *big.Int   { return new(big.Int).SetUint64(1 + r.U64()>>4) }
func bigOf(v int64) *big.Int      { return big.NewInt(v) }
func cz(v *big.Int) string        { return vh.CoqZ(v) }
func cb(b bool) string            { return vh.CoqBool(b) }
func copt(v *big.Int) string {
	if v == nil {
		return "None"
	}
	return "(Some " + cz(v) + ")"
}
func czl(vs []*big.Int) string { return vh.CoqList(mapS(vs, cz)) }
func ci(v int) string          { return vh.CoqInt(v) }
func mapS[T any](xs []T, f func(T) string) []string {
	out := make([]string, len(xs))
	for i, x := range xs {
		out[i] = f(x)
	}
	return out
}

func scalarFromBig(g kyber.Group, v *big.Int) kyber.Scalar {
	s := g.Scalar()
	b := v.Bytes()
	if len(b) == 0 {
		return s.Zero()
	}
	if s.ByteOrder() == kyber.LittleEndian {
		for i, j := 0, len(b)-1; i < j; i, j = i+1, j-1 {
			b[i], b[j] = b[j], b[i]
		}
	}
	return s.SetBytes(b)
}

// dlog of H(msg) in the signature group: the real one (dlog suite) or an
// assigned random one (an independent generator per message)
func (e *env) hdl(r *vh.Rng, msg []byte) *big.Int {
	if e.dlog {
		return dl(e.hashPt(msg))
	}
	k := string(msg)
	if v, ok := e.hAssigned[k]; ok {
		return v
	}
	v := rand60(r)
	e.hAssigned[k] = v
	return v
}
func (e *env) hashPt(msg []byte) kyber.Point {
	return e.sigG.Point().(kyber.HashablePoint).Hash(msg)
}

// key pair whose secret is known as an integer valid in both fields
func (e *env) newKey(r *vh.Rng) (kyber.Scalar, kyber.Point, *big.Int) {
	if e.dlog {
		x, X := e.bls.NewKeyPair(stream(r))
		return x, X, vh.ScalarVal(x)
	}
	v := rand60(r)
	x := scalarFromBig(e.keyG, v)
	return x, e.keyG.Point().Mul(x, nil), v
}

// k*H(msg) marshalled
func (e *env) sigOf(k *big.Int, msg []byte) []byte {
	h := e.hashPt(msg)
	b, err := h.Mul(scalarFromBig(e.sigG, k), h).MarshalBinary()
	if err != nil {
		panic(err)
	}
	return b
}

// decode a signature-group point (dlog suite only)
func (e *env) decode(b []byte) *big.Int {
	p := e.sigG.Point()
	if err := p.UnmarshalBinary(b); err != nil {
		return nil
	}
	return dl(p)
}

// fingerprint of values an operation receives and must leave unchanged:
// points, scalars, byte strings and slices of them
func fp(objs ...interface{}) string {
	var sb strings.Builder
	var one func(o interface{})
	one = func(o interface{}) {
		switch v := o.(type) {
		case nil:
			sb.WriteString("nil;")
		case []byte:
			sb.WriteString(vh.Hex(v) + ";")
		case [][]byte:
			for _, x := range v {
				one(x)
			}
			sb.WriteString("|")
		case kyber.Point:
			if v == nil {
				sb.WriteString("nil;")
				return
			}
			b, err := v.MarshalBinary()
			sb.WriteString(vh.Hex(b) + fmt.Sprint(err != nil) + ";")
		case kyber.Scalar:
			if v == nil {
				sb.WriteString("nil;")
				return
			}
			b, err := v.MarshalBinary()
			sb.WriteString(vh.Hex(b) + fmt.Sprint(err != nil) + ";")
		case []kyber.Point:
			for _, x := range v {
				one(x)
			}
			sb.WriteString("|")
		case []kyber.Scalar:
			for _, x := range v {
				one(x)
			}
			sb.WriteString("|")
		default:
			sb.WriteString(fmt.Sprint(v) + ";")
		}
	}
	for _, o := range objs {
		one(o)
	}
	return sb.String()
}

// scribble overwrites a caller-owned buffer after a call returned: whatever the
// callee kept or returned must not depend on it any more
func (c *ctx) scribble(what string, bufs ...[]byte) {
	for _, b := range bufs {
		for i := range b {
			b[i] ^= 0xa5
		}
	}
	c.rep.Dist("reuse:buffer-overwritten-after-call:" + what)
}

// unchanged runs f and reports key if the fingerprint of objs() differs afterwards
func (c *ctx) unchanged(key, what string, replay interface{}, objs func() string, f func()) {
	before := objs()
	f()
	if objs() != before {
		c.rep.Fail(key, what+" changes a value it only reads (keys, coefficients, commitments, signatures or message passed in)", replay)
	}
}

type ctx struct {
	rep    *vh.Report
	cf     *vh.CaseFile
	id     int
	search bool
}

func (c *ctx) emit(term string, desc interface{}, canon string, nontrivial bool) {
	if c.search {
		c.rep.Count(canon, nontrivial)
		return
	}
	c.cf.Items = append(c.cf.Items, term)
	c.rep.Index(c.id, desc)
	c.rep.Count(canon, nontrivial)
	c.id++
}

// ---------------------------------------------------------------- BLS

type sigItem struct {
	b      []byte
	d      *big.Int // model logarithm, nil = does not decode
	kind   string
	ki, mi int // signer / message for honest ones
}

func blsCase(c *ctx, e *env, r *vh.Rng) {
	nk, nm := 2+r.Intn(2), 2+r.Intn(2)
	type kp struct {
		x  kyber.Scalar
		X  kyber.Point
		xd *big.Int
	}
	var keys []kp
	for i := 0; i < nk; i++ {
		x, X, xd := e.newKey(r)
		keys = append(keys, kp{x, X, xd})
	}
	var msgs [][]byte
	var hs []*big.Int
	for j := 0; j < nm; j++ {
		m := r.Bytes(r.Pick([]int{0, 1, 5, 32, 100}))
		m = append(m, byte(j)) // distinct
		msgs = append(msgs, m)
		hs = append(hs, e.hdl(r, m))
	}
	var pool []sigItem
	var signs []string
	for i, k := range keys {
		for j, m := range msgs {
			mbuf := append([]byte{}, m...)
			sb, err := e.bls.Sign(k.x, mbuf)
			if err != nil {
				c.rep.Fail("bls.Sign/error", err.Error(), map[string]interface{}{"env": e.name})
				continue
			}
			// the same key object and message once more, then the caller's message buffer is overwritten
			keep := append([]byte{}, sb...)
			sb2, _ := e.bls.Sign(k.x, mbuf)
			c.rep.Dist("reuse:bls.Sign/twice-same-objects")
			c.scribble("bls.Sign message", mbuf)
			if !bytes.Equal(sb2, keep) || !bytes.Equal(sb, keep) {
				c.rep.Fail("bls.Sign/not-repeatable", "signing the same message twice with the same key object gives two signatures, or the signature follows the caller's message buffer",
					map[string]interface{}{"env": e.name, "msg": vh.Hex(m), "x": k.xd.String()})
			}
			d := mulq(k.xd, hs[j])
			if e.dlog {
				d = e.decode(sb)
				if d == nil {
					c.rep.Fail("bls.Sign/undecodable", "Sign output does not decode", map[string]interface{}{"env": e.name})
					continue
				}
				signs = append(signs, fmt.Sprintf("(%s, %s, %s)", cz(k.xd), cz(hs[j]), cz(d)))
			}
			if !bytes.Equal(sb, e.sigOf(k.xd, m)) {
				c.rep.Fail("bls.Sign/not-x-times-H(m)", "Sign(x,m) differs from the encoding of x*H(m)",
					map[string]interface{}{"env": e.name, "msg": vh.Hex(m), "x": k.xd.String()})
			}
			pool = append(pool, sigItem{sb, d, "honest", i, j})
		}
	}
	// semantically different signatures: other multiples of H(m)
	for t := 0; t < 4; t++ {
		i, j := r.Intn(nk), r.Intn(nm)
		var k *big.Int
		var kind string
		switch t {
		case 0:
			k, kind = addq(keys[i].xd, bigOf(1)), "x+1"
		case 1:
			k, kind = mulq(keys[i].xd, bigOf(2)), "2x"
		case 2:
			k, kind = bigOf(0), "identity"
		default:
			k, kind = rand60(r), "random-multiple"
		}
		if !e.dlog && t == 0 {
			k = new(big.Int).Add(keys[i].xd, bigOf(1)) // no wrap in the real field
		}
		if !e.dlog && t == 1 {
			k = new(big.Int).Mul(keys[i].xd, bigOf(2))
		}
		var sb []byte
		if p, _ := vh.Try(func() { sb = e.sigOf(k, msgs[j]) }); p {
			continue
		}
		d := mulq(modq(k), hs[j])
		if e.dlog {
			d = e.decode(sb)
		}
		pool = append(pool, sigItem{sb, d, "tampered:" + kind, i, j})
	}
	// byte strings that are not signatures
	pl := e.sigG.PointLen()
	hon := pool[0].b
	garb := [][]byte{{}, r.Bytes(pl), hon[:len(hon)-1], r.Bytes(3)}
	for _, g := range garb {
		var d *big.Int
		if e.dlog {
			d = e.decode(g)
		}
		pool = append(pool, sigItem{g, d, "garbage", -1, -1})
	}
	if e.dlog { // a flipped bit: decodes to another point or not at all
		f := append([]byte{}, hon...)
		f[1+r.Intn(len(f)-1)] ^= 1 << uint(r.Intn(8))
		pool = append(pool, sigItem{f, e.decode(f), "tampered:bitflip", 0, 0})
	}
	var qs []string
	nacc := 0
	blsState := func() string {
		var xs []kyber.Scalar
		var Xs []kyber.Point
		var bs [][]byte
		for _, k := range keys {
			xs, Xs = append(xs, k.x), append(Xs, k.X)
		}
		for _, s := range pool {
			bs = append(bs, s.b)
		}
		return fp(xs, Xs, bs, msgs)
	}
	blsBefore := blsState()
	for _, s := range pool {
		for vk := range keys {
			for vm := range msgs {
				if s.kind != "honest" && r.Chance(50) {
					continue
				}
				var err error
				vmsg, vsig := append([]byte{}, msgs[vm]...), append([]byte{}, s.b...)
				p, pm := vh.Try(func() { err = e.bls.Verify(keys[vk].X, vmsg, vsig) })
				c.scribble("bls.Verify message and signature", vmsg, vsig)
				if s.kind == "honest" && vk == s.ki && !p { // the same objects again
					c.rep.Dist("reuse:bls.Verify/twice-same-objects")
					if again := e.bls.Verify(keys[vk].X, msgs[vm], s.b); (again == nil) != (err == nil) {
						c.rep.Fail("bls.Verify/not-repeatable", "verifying the same signature twice under the same key object gives two verdicts",
							map[string]interface{}{"env": e.name, "sig": vh.Hex(s.b), "verify_key": vk, "verify_msg": vm})
					}
				}
				replay := map[string]interface{}{"env": e.name, "sig": vh.Hex(s.b), "kind": s.kind, "signer": s.ki, "signed_msg": s.mi,
					"verify_key": vk, "verify_msg": vm, "msgs": mapS(msgs, vh.Hex), "secrets": mapS(keys, func(k kp) string { return k.xd.String() })}
				if p {
					c.rep.Fail("bls.Verify/panics", pm, replay)
					continue
				}
				acc := err == nil
				if acc {
					nacc++
				}
				qs = append(qs, fmt.Sprintf("(%s, %s, %s, %s)", cz(keys[vk].xd), cz(hs[vm]), copt(s.d), cb(acc)))
				// the property, directly
				switch {
				case s.kind == "honest" && vk == s.ki && vm == s.mi && !acc:
					c.rep.Fail("bls.Verify/honest-rejected", "a signature does not verify under the signer's key", replay)
				case s.kind == "honest" && vk == s.ki && vm != s.mi && acc:
					c.rep.Fail("bls.Verify/other-message-accepted", "a signature verifies for another message", replay)
				case s.kind == "honest" && vk != s.ki && acc:
					c.rep.Fail("bls.Verify/other-key-accepted", "a signature verifies under another key", replay)
				case strings.HasPrefix(s.kind, "tampered") && acc:
					c.rep.Fail("bls.Verify/tampered-accepted", "a semantically different signature verifies", replay)
				case s.kind == "garbage" && acc:
					c.rep.Fail("bls.Verify/garbage-accepted", "a byte string that is no signature verifies", replay)
				}
			}
		}
	}
	if blsState() != blsBefore {
		c.rep.Fail("bls/inputs-mutated", "Sign / Verify change a key, signature or message they only read", map[string]interface{}{"env": e.name})
	}
	c.rep.Dist("bls:" + e.name)
	c.rep.DistN("bls:verify-calls", len(qs))
	c.rep.DistN("bls:accepted", nacc)
	desc := map[string]interface{}{"type": "bls", "env": e.name, "keys": nk, "msgs": nm, "signatures": len(pool), "queries": len(qs)}
	if c.id%40 == 0 {
		c.rep.Sample(desc)
	}
	c.emit(fmt.Sprintf("CBls %d %s %s %s", c.id, cb(e.g1), vh.CoqList(signs), vh.CoqList(qs)), desc,
		fmt.Sprintf("bls %s %v %v", e.name, qs, signs), nacc > 0)
}

// ---------------------------------------------------------------- TBLS

type part struct {
	b     []byte
	idx   int      // -1: unreadable
	d     *big.Int // value logarithm, nil: does not decode
	kind  string
	valid bool // a valid partial by construction
}

func evalq(coefs []*big.Int, x int64) *big.Int {
	acc := big.NewInt(0)
	for j := len(coefs) - 1; j >= 0; j-- {
		acc = addq(mulq(acc, bigOf(x)), coefs[j])
	}
	return acc
}

func (p part) coq() string {
	if p.idx < 0 {
		return "None"
	}
	return fmt.Sprintf("(Some (%d, %s))", p.idx, copt(p.d))
}

// one Recover scenario: the honest partials of the indices in subset (in the
// given order) with junk injected
// a sharing that is reused by several Recover scenarios: the same PriPoly,
// PubPoly and share objects serve all of them
type polyCtx struct {
	poly  *share.PriPoly
	coefD []*big.Int
	pub   *share.PubPoly
}

func newPolyCtx(e *env, r *vh.Rng, t int) *polyCtx {
	pc := &polyCtx{}
	if e.dlog {
		pc.poly = share.NewPriPoly(e.keyG, uint32(t), nil, stream(r))
	} else {
		var cs []kyber.Scalar
		for i := 0; i < t; i++ {
			cs = append(cs, scalarFromBig(e.keyG, rand60(r)))
		}
		pc.poly = share.CoefficientsToPriPoly(e.keyG, cs)
	}
	for _, cf := range pc.poly.Coefficients() {
		pc.coefD = append(pc.coefD, modq(vh.ScalarVal(cf)))
	}
	pc.pub = pc.poly.Commit(e.keyG.Point().Base())
	return pc
}

func (pc *polyCtx) state() string {
	_, commits := pc.pub.Info()
	return fp(commits, pc.poly.Coefficients())
}

func tblsCase(c *ctx, e *env, r *vh.Rng, pc *polyCtx, t, n int, subset []int, junk int, mode int) {
	forceDup, junkFirst := mode == 1, mode == 2
	if pc == nil {
		pc = newPolyCtx(e, r, t)
	}
	poly, coefD, pub := pc.poly, pc.coefD, pc.pub
	polyBefore := pc.state()
	msg := append(r.Bytes(r.Pick([]int{0, 7, 40})), 1)
	msg2 := append(r.Bytes(r.Pick([]int{0, 7, 40})), 2)
	h, h2 := e.hdl(r, msg), e.hdl(r, msg2)
	pl := e.sigG.PointLen()

	honest := func(i int, m []byte, hh *big.Int) part {
		b, err := e.tbls.Sign(poly.Eval(uint32(i)), m)
		if err != nil {
			panic(err)
		}
		return part{b: b, idx: i, d: mulq(evalq(coefD, int64(i+1)), hh)}
	}
	var parts []part
	for _, i := range subset {
		p := honest(i, msg, h)
		p.kind, p.valid = "honest", true
		parts = append(parts, p)
	}
	hasDup := false
	if forceDup && len(parts) > 0 { // [p1, p1, p2, ...]
		p := parts[0]
		p.kind = "dup:honest"
		parts = append([]part{parts[0], p}, parts[1:]...)
		hasDup = true
	}
	for k := 0; k < junk; k++ {
		var p part
		switch r.Intn(10) {
		case 0, 1: // duplicate of something already in the list
			if len(parts) == 0 {
				continue
			}
			p = parts[r.Intn(len(parts))]
			if p.valid {
				hasDup = true
			}
			p.kind = "dup:" + p.kind
		case 2: // valid partial for another message
			p = honest(r.Intn(n), msg2, h2)
			p.kind = "other-message"
		case 3: // value of share i under index j
			i := r.Intn(n)
			j := (i + 1 + r.Intn(n-1)) % n
			p = honest(i, msg, h)
			p.b = append([]byte{byte(j >> 8), byte(j)}, p.b[2:]...)
			p.idx, p.kind = j, "wrong-index"
		case 4: // too short for an index
			p = part{b: r.Bytes(r.Intn(2)), idx: -1, kind: "short"}
		case 5: // random value bytes
			i := r.Intn(n + 2)
			p = part{b: append([]byte{0, byte(i)}, r.Bytes(pl)...), idx: i, kind: "garbage-value"}
		case 6: // truncated value
			p = honest(r.Intn(n), msg, h)
			p.b = p.b[:2+r.Intn(pl)]
			p.d, p.kind = nil, "truncated"
		case 7: // a correct evaluation at an index beyond n
			i := n + r.Intn(3)
			p = honest(i, msg, h)
			p.kind, p.valid = "honest-beyond-n", true
		case 8: // scaled value
			i := r.Intn(n)
			k := new(big.Int).Mul(evalq(coefD, int64(i+1)), bigOf(2))
			if !e.dlog {
				k = new(big.Int).Mul(vh.ScalarVal(poly.Eval(uint32(i)).V), bigOf(2))
			}
			p = part{b: append([]byte{0, byte(i)}, e.sigOf(k, msg)...), idx: i, d: mulq(mulq(evalq(coefD, int64(i+1)), bigOf(2)), h), kind: "scaled"}
		default: // identity
			i := r.Intn(n)
			var sb []byte
			if pn, _ := vh.Try(func() { sb = e.sigOf(bigOf(0), msg) }); pn {
				continue
			}
			p = part{b: append([]byte{0, byte(i)}, sb...), idx: i, d: bigOf(0), kind: "identity"}
		}
		pos := r.Intn(len(parts) + 1)
		if junkFirst { // everything that is not an honest partial of the subset comes first
			pos = 0
		}
		parts = append(parts[:pos], append([]part{p}, parts[pos:]...)...)
	}
	if e.dlog { // exact: decode what is really in the bytes
		for k := range parts {
			b := parts[k].b
			if len(b) < 2 {
				parts[k].idx, parts[k].d = -1, nil
				continue
			}
			parts[k].idx = int(b[0])<<8 | int(b[1])
			parts[k].d = e.decode(b[2:])
		}
	}
	distinct := map[int]bool{}
	for _, p := range parts {
		if p.valid {
			distinct[p.idx] = true
		}
	}
	var sigs [][]byte
	var vp []string
	var kinds []string
	for _, p := range parts {
		sigs = append(sigs, p.b)
		kinds = append(kinds, fmt.Sprintf("%s@%d", p.kind, p.idx))
		var err error
		pn, pm := vh.Try(func() { err = e.tbls.VerifyPartial(pub, msg, p.b) })
		replay := map[string]interface{}{"env": e.name, "t": t, "n": n, "partial": vh.Hex(p.b), "kind": p.kind, "coefficients": mapS(coefD, (*big.Int).String), "msg": vh.Hex(msg)}
		if pn {
			if len(p.b) < 2 { // SigShare.Value slices [2:] of a shorter string: Index() fails first, no panic expected
				c.rep.Fail("tbls.VerifyPartial/panics", pm, replay)
			} else {
				c.rep.Fail("tbls.VerifyPartial/panics", pm, replay)
			}
			err = fmt.Errorf("panic")
		}
		vp = append(vp, cb(err == nil))
		if p.valid && err != nil {
			c.rep.Fail("tbls.VerifyPartial/honest-rejected", "an honest partial signature is rejected", replay)
		}
		if !p.valid && !strings.HasPrefix(p.kind, "dup:") && err == nil {
			c.rep.Fail("tbls.VerifyPartial/invalid-accepted", "an invalid partial signature ("+p.kind+") is accepted", replay)
		}
		if ix, err2 := e.tbls.IndexOf(p.b); err2 == nil && p.idx >= 0 && ix != p.idx {
			c.rep.Fail("tbls.IndexOf/wrong", "IndexOf differs from the encoded index", replay)
		}
	}
	direct, err := e.bls.Sign(poly.Secret(), msg)
	if err != nil {
		panic(err)
	}
	var rec []byte
	var rerr error
	replay := map[string]interface{}{"env": e.name, "t": t, "n": n, "partials": mapS(sigs, vh.Hex), "kinds": kinds,
		"distinct_valid": len(distinct), "coefficients": mapS(coefD, (*big.Int).String), "msg": vh.Hex(msg)}
	if junkFirst {
		c.rep.Dist("order:tbls.Recover/more-entries-than-n-junk-first")
	}
	// a prefix of the caller's slice first (the partials received so far), then the whole slice
	{
		k := r.Intn(len(sigs) + 1)
		dv := map[int]bool{}
		dup0 := false
		for _, p := range parts[:k] {
			if p.valid {
				if dv[p.idx] {
					dup0 = true
				}
				dv[p.idx] = true
			}
		}
		var rec0 []byte
		var err0 error
		var pn0 bool
		c.unchanged("tbls.Recover/inputs-mutated", "Recover", replay, func() string { return fp(sigs, msg) + pc.state() }, func() {
			pn0, _ = vh.Try(func() { rec0, err0 = e.tbls.Recover(pub, msg, sigs[:k], uint32(t), uint32(n)) })
		})
		c.rep.Dist("reuse:tbls.Recover/prefix-then-full-on-one-slice")
		replay["prefix"] = k
		switch {
		case pn0:
			c.rep.Fail("tbls.Recover/panics", "Recover panics on a prefix of the list", replay)
		case len(dv) >= t && (err0 != nil || !bytes.Equal(rec0, direct)):
			key := "tbls.Recover/valid-subset-refused"
			if dup0 {
				key = "tbls.Recover/duplicate-before-t"
			}
			c.rep.Fail(key, fmt.Sprintf("the first %d entries hold %d distinct valid partials (t=%d) but Recover on them fails or returns another signature: %v", k, len(dv), t, err0), replay)
		case len(dv) < t && err0 == nil:
			c.rep.Fail("tbls.Recover/below-threshold-accepted", fmt.Sprintf("the first %d entries hold only %d distinct valid partials (t=%d) but Recover on them succeeds", k, len(dv), t), replay)
		}
		delete(replay, "prefix")
	}
	var pn bool
	var pm string
	msgCopy := append([]byte{}, msg...)
	c.unchanged("tbls.Recover/inputs-mutated", "Recover", replay, func() string { return fp(sigs, msg, msgCopy) + pc.state() }, func() {
		pn, pm = vh.Try(func() { rec, rerr = e.tbls.Recover(pub, msg, sigs, uint32(t), uint32(n)) })
	})
	if pc.state() != polyBefore {
		c.rep.Fail("tbls/sharing-mutated", "Sign / VerifyPartial / Recover change the sharing polynomial or its commitments", replay)
	}
	// the same objects again, partials in another order: same outcome (the
	// property holds for every order, and for every use of the same PubPoly)
	{
		perm := shuffle(r, subsets(len(sigs), len(sigs))[0])
		var sigs2 [][]byte
		for _, k := range perm {
			sigs2 = append(sigs2, sigs[k])
		}
		var rec2 []byte
		var rerr2 error
		pn2, _ := vh.Try(func() { rec2, rerr2 = e.tbls.Recover(pub, msg, sigs2, uint32(t), uint32(n)) })
		if pn2 != pn || (rerr2 == nil) != (rerr == nil) || !bytes.Equal(rec, rec2) {
			replay["second_order"] = perm
			c.rep.Fail("tbls.Recover/depends-on-order-or-earlier-calls", "a second Recover over the same partials in another order gives another result", replay)
		}
	}
	status, value, vrec := 0, bigOf(-1), false
	enough := len(distinct) >= t
	switch {
	case pn:
		c.rep.Fail("tbls.Recover/panics", pm, replay)
		status = 3
	case rerr != nil:
		if enough {
			if hasDup {
				c.rep.Fail("tbls.Recover/duplicate-before-t", fmt.Sprintf("%d distinct valid partials are present (t=%d) but Recover fails: %v", len(distinct), t, rerr), replay)
			} else {
				c.rep.Fail("tbls.Recover/valid-subset-refused", fmt.Sprintf("%d distinct valid partials are present (t=%d) but Recover fails: %v", len(distinct), t, rerr), replay)
			}
		}
	default:
		status = 2
		if bytes.Equal(rec, direct) {
			status = 1
		}
		if e.dlog {
			if d := e.decode(rec); d != nil {
				value = d
			}
		}
		vrec = e.tbls.VerifyRecovered(pub.Commit(), msg, rec) == nil
		if !enough {
			c.rep.Fail("tbls.Recover/below-threshold-accepted", fmt.Sprintf("only %d distinct valid partials (t=%d) but Recover succeeds", len(distinct), t), replay)
		} else {
			if status != 1 {
				key := "tbls.Recover/wrong-signature"
				if hasDup {
					key = "tbls.Recover/duplicate-before-t"
				}
				c.rep.Fail(key, "the recovered signature differs from the signature of the group secret", replay)
			}
			if !vrec {
				c.rep.Fail("tbls.VerifyRecovered/rejected", "the recovered signature does not verify under the group key", replay)
			}
		}
	}
	if rec != nil && rerr == nil && !pn { // the caller's buffers move on; the result must not follow them
		keep := append([]byte{}, rec...)
		vBefore := e.tbls.VerifyRecovered(pub.Commit(), msgCopy, rec) == nil
		c.scribble("tbls.Recover partials and message", append(append([][]byte{}, sigs...), msg)...)
		if !bytes.Equal(keep, rec) || (e.tbls.VerifyRecovered(pub.Commit(), msgCopy, rec) == nil) != vBefore {
			c.rep.Fail("tbls.Recover/result-shares-input-buffer", "the recovered signature changes when the caller overwrites the partial signatures or the message", replay)
		}
	}
	c.rep.Dist(fmt.Sprintf("tbls:t=%d,n=%d", t, n))
	c.rep.Dist(fmt.Sprintf("tbls:recover-status=%d", status))
	c.rep.Dist("tbls:" + e.name)
	desc := replay
	desc["type"] = "tbls"
	if c.id%50 == 0 {
		c.rep.Sample(map[string]interface{}{"type": "tbls", "env": e.name, "t": t, "n": n, "kinds": kinds, "status": status})
	}
	c.emit(fmt.Sprintf("CTbls %d %s %s %s %s %d %s %s %d %s %s", c.id, cb(e.g1), cb(e.dlog), czl(coefD), cz(h), t,
		vh.CoqList(mapS(parts, part.coq)), vh.CoqList(vp), status, cz(value), cb(vrec)), desc,
		fmt.Sprintf("tbls %s %d %d %v", e.name, t, n, kinds), len(parts) > 0)
}

func subsets(n, t int) [][]int {
	var out [][]int
	var rec func(start int, cur []int)
	rec = func(start int, cur []int) {
		if len(cur) == t {
			out = append(out, append([]int{}, cur...))
			return
		}
		for i := start; i < n; i++ {
			rec(i+1, append(cur, i))
		}
	}
	rec(0, nil)
	return out
}

func shuffle(r *vh.Rng, xs []int) []int {
	out := append([]int{}, xs...)
	for i := len(out) - 1; i > 0; i-- {
		j := r.Intn(i + 1)
		out[i], out[j] = out[j], out[i]
	}
	return out
}

func tblsAll(c *ctx, e *env, r *vh.Rng, maxN, allSubsetsUpTo int, extra int) {
	for n := 2; n <= maxN; n++ {
		for t := 2; t <= n; t++ {
			pc := newPolyCtx(e, r.Fork(), t) // one sharing serves all scenarios of this (t,n)
			if n <= allSubsetsUpTo {
				for _, s := range subsets(n, t) {
					tblsCase(c, e, r.Fork(), pc, t, n, shuffle(r, s), r.Intn(4), 0)
				}
			}
			for k := 0; k < extra; k++ {
				// any number of honest partials (below, at, above t), random order, junk
				s := shuffle(r, subsets(n, n)[0])[:r.Intn(n+1)]
				tblsCase(c, e, r.Fork(), pc, t, n, s, r.Intn(6), 0)
			}
		}
	}
	// the two hand-made shapes of the defect class: duplicates before the t-th distinct partial
	tblsDup(c, e, r.Fork())
}

func tblsDup(c *ctx, e *env, r *vh.Rng) {
	// [p1,p1,p2,p3], t=3: built through tblsCase's machinery by forcing a duplicate
	for k := 0; k < 3; k++ {
		n := 3 + r.Intn(3)
		t := 2 + r.Intn(n-1)
		s := shuffle(r, subsets(n, n)[0])[:t]
		tblsCase(c, e, r.Fork(), nil, t, n, s, 0, 1)
		// more entries than signers, all the junk and duplicates before the valid partials
		tblsCase(c, e, r.Fork(), nil, t, n, shuffle(r, subsets(n, n)[0])[:t+r.Intn(n-t+1)], n+1+r.Intn(4), 2)
	}
}

// ---------------------------------------------------------------- BDN

type bop struct {
	kind  int // 0 SetBit, 1 SetMask, 2 Merge, 3 Clone
	i     int
	b     bool
	bytes []byte
}

func (o bop) coq() string {
	switch o.kind {
	case 0:
		return fmt.Sprintf("WSetBit %s %s", ci(o.i), cb(o.b))
	case 1:
		return "WSetMask " + vh.CoqBytes(o.bytes)
	case 2:
		return "WMerge " + vh.CoqBytes(o.bytes)
	}
	return "WClone"
}
func (o bop) String() string {
	switch o.kind {
	case 0:
		return fmt.Sprintf("SetBit(%d,%v)", o.i, o.b)
	case 1:
		return "SetMask(" + vh.Hex(o.bytes) + ")"
	case 2:
		return "Merge(" + vh.Hex(o.bytes) + ")"
	}
	return "Clone"
}

func randBop(r *vh.Rng, kind, n int) bop {
	ln := (n + 7) / 8
	switch kind {
	case 0:
		i := r.Intn(n)
		if r.Chance(15) {
			i = r.Pick([]int{-1, n, n + 5, 8 * ln})
		}
		return bop{kind: 0, i: i, b: r.Chance(70)}
	case 1, 2:
		l := ln
		if r.Chance(15) {
			l = r.Pick([]int{0, ln + 1, ln - 1 + 2*r.Intn(2)})
			if l < 0 {
				l = 0
			}
		}
		bs := r.Bytes(l)
		if r.Chance(40) && l > 0 && n%8 != 0 { // only real cosigners
			bs[l-1] &= byte(1<<uint(n%8)) - 1
		}
		return bop{kind: kind, bytes: bs}
	}
	return bop{kind: 3}
}

func bdnCase(c *ctx, e *env, r *vh.Rng, n int, ownMode int, kinds []int) {
	type kp struct {
		x  kyber.Scalar
		X  kyber.Point
		xd *big.Int
	}
	var keys []kp
	var pubs []kyber.Point
	var pubD []*big.Int
	for i := 0; i < n; i++ {
		x, X, xd := e.newKey(r)
		if i > 0 && r.Chance(5) { // two cosigners with the same key
			x, X, xd = keys[0].x, keys[0].X.Clone(), keys[0].xd
		}
		keys = append(keys, kp{x, X, xd})
		pubs = append(pubs, X)
		pubD = append(pubD, xd)
	}
	coefS, err := bdn.VerifHashPointToR(e.keyG, pubs)
	if err != nil {
		panic(err)
	}
	var coefD []*big.Int
	for _, s := range coefS {
		coefD = append(coefD, vh.ScalarVal(s))
	}
	var own kyber.Point
	var ownD *big.Int
	ownIdx := -1
	switch ownMode {
	case 1:
		ownIdx = r.Intn(n)
		own, ownD = pubs[ownIdx].Clone(), pubD[ownIdx]
	case 2:
		_, own, ownD = e.newKey(r)
	}
	msg := append(r.Bytes(r.Pick([]int{0, 9, 33})), 1)
	msg2 := append(r.Bytes(r.Pick([]int{0, 9, 33})), 2)
	h, h2 := e.hdl(r, msg), e.hdl(r, msg2)
	var ops []bop
	for _, k := range kinds {
		ops = append(ops, randBop(r, k, n))
	}
	replay := map[string]interface{}{"env": e.name, "n": n, "own_key_index": ownIdx, "own_mode": ownMode, "secrets": mapS(pubD, (*big.Int).String), "msg": vh.Hex(msg)}
	mask, err := bdn.NewMask(e.keyG, pubs, own)
	if err != nil {
		if ownMode != 2 {
			c.rep.Fail("bdn.NewMask/error", err.Error(), replay)
		}
		c.emit(fmt.Sprintf("CBdn %d %s %s %s %s %s [] [] %s %s (@nil Z) [1]", c.id, cb(e.g1), cb(e.dlog), czl(pubD), czl(coefD), copt(ownD), cz(h), cz(h2)),
			replay, fmt.Sprintf("bdn %s n=%d foreign", e.name, n), false)
		return
	}
	if ownMode == 2 {
		c.rep.Fail("bdn.NewMask/foreign-key-accepted", "NewMask accepts a key that is not in the list", replay)
	}
	obs := []string{"0"}
	run := func(o bop) {
		var err error
		switch o.kind {
		case 0:
			err = mask.SetBit(o.i, o.b)
		case 1:
			err = mask.SetMask(append([]byte{}, o.bytes...))
		case 2:
			err = mask.Merge(append([]byte{}, o.bytes...))
		case 3:
			old := mask
			mask = mask.Clone()
			if r.Chance(50) { // the original keeps changing: the clone must not follow
				before := mask.Mask()
				k := r.Intn(n)
				cur, _ := old.GetBit(k)
				old.SetBit(k, !cur)
				if !bytes.Equal(before, mask.Mask()) {
					c.rep.Fail("bdn.Mask.Clone/shares-bits-with-original", "changing the original mask after Clone changes the clone", replay)
				}
			}
		}
		obs = append(obs, cb01(err != nil))
	}
	for _, o := range ops {
		run(o)
	}
	if !e.dlog && mask.CountEnabled() == 0 { // keep identity points out of the real encodings
		o := bop{kind: 0, i: r.Intn(n), b: true}
		ops = append(ops, o)
		run(o)
	}
	replay["ops"] = mapS(ops, bop.String)
	final := mask.Mask()
	replay["mask"] = vh.Hex(final)
	enabled := func(mb []byte, i int) bool { return mb[i/8]&(1<<uint(i%8)) != 0 }
	cnt := 0
	for i := 0; i < n; i++ {
		if enabled(final, i) {
			cnt++
		}
	}
	for _, b := range final {
		obs = append(obs, ci(int(b)))
	}
	obs = append(obs, ci(mask.CountEnabled()))
	if mask.CountEnabled() != cnt {
		c.rep.Fail("bdn.Mask.CountEnabled/padding-or-miscount", fmt.Sprintf("CountEnabled=%d but %d of the %d cosigners are enabled", mask.CountEnabled(), cnt, n), replay)
	}
	th := r.Intn(n + 2)
	if sign.NewThresholdPolicy(th).Check(mask) != (cnt >= th) || (sign.CompletePolicy{}).Check(mask) != (cnt == n) {
		c.rep.Fail("sign.Policy/not-a-function-of-participants", "policy verdict differs from the count of enabled cosigners", replay)
	}
	// the signatures handed to AggregateSignatures
	var sigs [][]byte
	var sigD []*big.Int
	for i := 0; i < n; i++ {
		if enabled(final, i) {
			sb, err := e.bls.Sign(keys[i].x, msg)
			if err != nil {
				panic(err)
			}
			sigs = append(sigs, sb)
			sigD = append(sigD, mulq(keys[i].xd, h))
		}
	}
	variant := 0
	if r.Chance(20) {
		variant = 1 + r.Intn(3)
		switch {
		case variant == 1 && len(sigs) > 0: // one missing
			sigs, sigD = sigs[:len(sigs)-1], sigD[:len(sigD)-1]
		case variant == 2: // one too many
			sigs, sigD = append(sigs, e.sigOf(rand60(r), msg)), append(sigD, bigOf(7))
		case variant == 3 && len(sigs) > 0: // one undecodable
			k := r.Intn(len(sigs))
			sigs[k], sigD[k] = sigs[k][:len(sigs[k])-1], nil
		default:
			variant = 0
		}
	}
	if e.dlog {
		for k := range sigs {
			sigD[k] = e.decode(sigs[k])
		}
	}
	replay["sig_variant"] = variant
	var aggPub, aggSig kyber.Point
	var errP, errS error
	pP, mP := vh.Try(func() { aggPub, errP = e.bdn.AggregatePublicKeys(mask) })
	pS, mS := vh.Try(func() { aggSig, errS = e.bdn.AggregateSignatures(sigs, mask) })
	code := func(p bool, err error) int {
		if p {
			return 2
		}
		if err != nil {
			return 1
		}
		return 0
	}
	cP, cS := code(pP, errP), code(pS, errS)
	if pP || pS {
		key := "bdn.Aggregate/panics"
		if ownMode == 1 {
			key = "bdn.NewMask/own-key-mask-cannot-aggregate"
		}
		c.rep.Fail(key, "aggregation over a mask built by NewMask/"+fmt.Sprint(mapS(ops, bop.String))+" panics: "+mP+mS, replay)
	}
	if variant == 0 && (cP == 1 || cS == 1) {
		c.rep.Fail("bdn.Aggregate/honest-error", fmt.Sprintf("aggregation of the honest signatures fails: %v %v", errP, errS), replay)
	}
	if variant != 0 && cS == 0 {
		c.rep.Fail("bdn.AggregateSignatures/wrong-signature-list-accepted", "a signature list that does not match the mask is aggregated", replay)
	}
	exd := func(p kyber.Point) string {
		if e.dlog {
			return cz(dl(p))
		}
		return "(-1)"
	}
	other := r.Bytes(len(final))
	if r.Chance(50) { // differs from the mask in one cosigner
		other = append([]byte{}, final...)
		i := r.Intn(n)
		other[i/8] ^= 1 << uint(i%8)
	} else if r.Chance(30) { // same cosigners, different padding
		other = append([]byte{}, final...)
		if n%8 != 0 {
			other[len(other)-1] ^= 0x80
		}
	}
	replay["other_mask"] = vh.Hex(other)
	if cP == 0 && cS == 0 {
		sb, err := aggSig.MarshalBinary()
		if err != nil {
			panic(err)
		}
		vSame := e.bdn.Verify(aggPub, msg, sb) == nil
		m2, _ := bdn.NewMask(e.keyG, pubs, nil)
		if err := m2.SetMask(append([]byte{}, other...)); err != nil {
			panic(err)
		}
		aggPub2, err := e.bdn.AggregatePublicKeys(m2)
		if err != nil {
			panic(err)
		}
		vOther := e.bdn.Verify(aggPub2, msg, sb) == nil
		vMsg := e.bdn.Verify(aggPub, msg2, sb) == nil
		obs = append(obs, "0", exd(aggPub), "0", exd(aggSig), cb01(vSame), cb01(vOther), cb01(vMsg))
		sameSet := true
		for i := 0; i < n; i++ {
			if enabled(final, i) != enabled(other, i) {
				sameSet = false
			}
		}
		if variant == 0 {
			if !vSame {
				c.rep.Fail("bdn.Verify/same-mask-rejected", "the aggregate signature does not verify under the aggregate key of its own mask", replay)
			}
			if vOther != sameSet && cnt > 0 {
				if vOther {
					c.rep.Fail("bdn.Verify/other-mask-accepted", "the aggregate signature verifies under the aggregate key of another mask", replay)
				} else {
					c.rep.Fail("bdn.Verify/same-participants-rejected", "a mask with the same participants (other padding bits) gives another aggregate key", replay)
				}
			}
			if vMsg && cnt > 0 {
				c.rep.Fail("bdn.Verify/other-message-accepted", "the aggregate signature verifies for another message", replay)
			}
		}
		// terms and coefficients the mask holds
		if e.dlog {
			tm := bdn.VerifTerms(mask)
			for i := range tm {
				want := mulq(addq(modq(coefD[i]), bigOf(1)), pubD[i])
				if dl(tm[i]).Cmp(want) != 0 {
					c.rep.Fail("bdn.NewMask/term-not-(c+1)X", "publicTerms[i] is not (c_i+1)*X_i", replay)
				}
			}
		}
	} else {
		vP, vS := "(-1)", "(-1)"
		if cP == 0 {
			vP = exd(aggPub)
		}
		if cS == 0 {
			vS = exd(aggSig)
		}
		obs = append(obs, ci(cP), vP, ci(cS), vS, "(-1)", "(-1)", "(-1)")
	}
	c.rep.Dist("bdn:" + e.name)
	c.rep.Dist(fmt.Sprintf("bdn:own=%d", ownMode))
	c.rep.Dist(fmt.Sprintf("bdn:n=%d", n))
	c.rep.Dist(fmt.Sprintf("bdn:aggregate-status=%d/%d", cP, cS))
	if c.id%100 == 0 {
		c.rep.Sample(replay)
	}
	c.emit(fmt.Sprintf("CBdn %d %s %s %s %s %s %s %s %s %s %s %s", c.id, cb(e.g1), cb(e.dlog), czl(pubD), czl(coefD), copt(ownD),
		vh.CoqList(mapS(ops, bop.coq)), vh.CoqList(mapS(sigD, copt)), cz(h), cz(h2), vh.CoqBytes(other), vh.CoqList(obs)),
		replay, fmt.Sprintf("bdn %s n=%d own=%d %v", e.name, n, ownMode, mapS(ops, bop.String)), len(ops) > 0)
}

// A BDN session: mask objects that share what NewMask precomputed (a base
// mask and its clones, as the NewMask documentation recommends, or several
// NewMask results over the same key slice) are used for many interleaved
// SetBit / SetMask / Merge / Clone / AggregatePublicKeys / AggregateSignatures
// / Verify calls; every call is observed and compared with the model, in which
// aggregation is a function of the mask value and changes nothing.
func bdnSession(c *ctx, e *env, r *vh.Rng, n, nsteps int) {
	type kp struct {
		x  kyber.Scalar
		X  kyber.Point
		xd *big.Int
	}
	var keys []kp
	var pubs []kyber.Point
	var pubD []*big.Int
	for i := 0; i < n; i++ {
		x, X, xd := e.newKey(r)
		keys = append(keys, kp{x, X, xd})
		pubs = append(pubs, X)
		pubD = append(pubD, xd)
	}
	coefS, err := bdn.VerifHashPointToR(e.keyG, pubs)
	if err != nil {
		panic(err)
	}
	var coefD []*big.Int
	for _, s := range coefS {
		coefD = append(coefD, vh.ScalarVal(s))
	}
	msg := append(r.Bytes(r.Pick([]int{0, 9, 33})), 1)
	h := e.hdl(r, msg)
	// every signer signs once; the same byte slices are handed to every aggregation
	signed := make([][]byte, n)
	signedD := make([]*big.Int, n)
	for i := range keys {
		sb, err := e.bls.Sign(keys[i].x, msg)
		if err != nil {
			panic(err)
		}
		signed[i], signedD[i] = sb, mulq(keys[i].xd, h)
		if e.dlog {
			signedD[i] = e.decode(sb)
		}
	}
	var objs []*bdn.Mask
	var steps, obs, hist []string
	replay := map[string]interface{}{"type": "bdn-session", "env": e.name, "n": n, "secrets": mapS(pubD, (*big.Int).String), "msg": vh.Hex(msg)}
	state := func() string {
		var sb strings.Builder
		for _, m := range objs {
			sb.WriteString(fp(bdn.VerifCoefs(m), bdn.VerifTerms(m), m.Publics()))
		}
		sb.WriteString(fp(pubs, signed, msg))
		return sb.String()
	}
	newMask := func(mode int) {
		var own kyber.Point
		var ownD *big.Int
		switch mode {
		case 1:
			k := r.Intn(n)
			own, ownD = pubs[k].Clone(), pubD[k]
		case 2:
			_, own, ownD = e.newKey(r)
		}
		steps = append(steps, "SNew "+copt(ownD))
		hist = append(hist, fmt.Sprintf("NewMask(own mode %d)", mode))
		var m *bdn.Mask
		var err error
		c.unchanged("bdn.NewMask/inputs-mutated", "NewMask", replay, state, func() { m, err = bdn.NewMask(e.keyG, pubs, own) })
		if err != nil {
			obs = append(obs, "[1]")
			if mode != 2 {
				c.rep.Fail("bdn.NewMask/error", err.Error(), replay)
			}
			return
		}
		obs = append(obs, "[0]")
		objs = append(objs, m)
	}
	setOp := func(k int, o bop) {
		steps = append(steps, fmt.Sprintf("SMask %d (%s)", k, o.coq()))
		hist = append(hist, fmt.Sprintf("#%d.%s", k, o.String()))
		var err error
		switch o.kind {
		case 0:
			err = objs[k].SetBit(o.i, o.b)
		case 1:
			err = objs[k].SetMask(append([]byte{}, o.bytes...))
		case 2:
			buf := append([]byte{}, o.bytes...)
			c.unchanged("bdn.Mask.Merge/inputs-mutated", "Merge", replay, func() string { return fp(buf) }, func() { err = objs[k].Merge(buf) })
			c.scribble("bdn.Mask.Merge", buf)
		}
		obs = append(obs, "["+cb01(err != nil)+"]")
	}
	naggs := 0
	agg := func(k int) {
		m := objs[k]
		if !e.dlog && m.CountEnabled() == 0 { // keep identity points out of the real encodings
			setOp(k, bop{kind: 0, i: r.Intn(n), b: true})
		}
		final := m.Mask()
		var sigs [][]byte
		var sigD []*big.Int
		for i := 0; i < n; i++ {
			if final[i/8]&(1<<uint(i%8)) != 0 {
				sigs, sigD = append(sigs, signed[i]), append(sigD, signedD[i])
			}
		}
		variant := 0
		if r.Chance(12) {
			switch r.Intn(2) {
			case 0:
				if len(sigs) > 0 {
					variant = 1
					sigs, sigD = sigs[:len(sigs)-1], sigD[:len(sigD)-1]
				}
			case 1:
				variant = 2
				sigs, sigD = append(sigs, signed[r.Intn(n)]), append(sigD, bigOf(7))
				if e.dlog {
					sigD[len(sigD)-1] = e.decode(sigs[len(sigs)-1])
				}
			}
		}
		steps = append(steps, fmt.Sprintf("SAgg %d %s", k, vh.CoqList(mapS(sigD, copt))))
		hist = append(hist, fmt.Sprintf("#%d.Aggregate(mask %s, sigs variant %d)", k, vh.Hex(final), variant))
		replay["history"] = hist
		var aggPub, aggSig kyber.Point
		var errP, errS error
		var pP, pS bool
		var mP, mS string
		// half of the time the signatures are handed over in buffers that are overwritten afterwards
		passed := sigs
		ownBufs := r.Bool()
		if ownBufs {
			passed = nil
			for _, sg := range sigs {
				passed = append(passed, append([]byte{}, sg...))
			}
		}
		c.rep.Dist("reuse:bdn.Aggregate/same-mask-keys-and-signature-objects-again")
		c.unchanged("bdn.Aggregate/inputs-mutated", "AggregatePublicKeys / AggregateSignatures", replay, func() string { return state() + fp(passed) }, func() {
			doP := func() { pP, mP = vh.Try(func() { aggPub, errP = e.bdn.AggregatePublicKeys(m) }) }
			doS := func() { pS, mS = vh.Try(func() { aggSig, errS = e.bdn.AggregateSignatures(passed, m) }) }
			if r.Bool() {
				doP()
				doS()
			} else {
				doS()
				doP()
			}
		})
		code := func(p bool, err error) int {
			if p {
				return 2
			}
			if err != nil {
				return 1
			}
			return 0
		}
		cP, cS := code(pP, errP), code(pS, errS)
		exd := func(p kyber.Point, cd int) string {
			if cd == 0 && e.dlog {
				return cz(dl(p))
			}
			return "(-1)"
		}
		verdict := "(-1)"
		if pP || pS {
			c.rep.Fail("bdn.Aggregate/panics", "aggregation over a reused mask panics: "+mP+mS, replay)
		}
		if variant == 0 && (cP == 1 || cS == 1) {
			c.rep.Fail("bdn.Aggregate/honest-error", fmt.Sprintf("aggregation of the honest signatures fails: %v %v", errP, errS), replay)
		}
		if variant != 0 && cS == 0 {
			c.rep.Fail("bdn.AggregateSignatures/wrong-signature-list-accepted", "a signature list that does not match the mask is aggregated", replay)
		}
		if cP == 0 && cS == 0 {
			sb, err := aggSig.MarshalBinary()
			if err != nil {
				panic(err)
			}
			if ownBufs {
				c.scribble("bdn.AggregateSignatures signatures", passed...)
				if sb2, _ := aggSig.MarshalBinary(); !bytes.Equal(sb, sb2) {
					c.rep.Fail("bdn.AggregateSignatures/result-shares-input-buffer", "the aggregate signature changes when the caller overwrites the signatures it passed in", replay)
				}
			}
			vmsg, vsig := append([]byte{}, msg...), append([]byte{}, sb...)
			ok := e.bdn.Verify(aggPub, vmsg, vsig) == nil
			c.scribble("bdn.Verify message and signature", vmsg, vsig)
			verdict = cb01(ok)
			naggs++
			if variant == 0 && !ok {
				c.rep.Fail("bdn.Verify/same-mask-rejected", fmt.Sprintf("aggregation no. %d of a session over mask objects sharing one NewMask: the aggregate signature does not verify under the aggregate key of its own mask", naggs), replay)
			}
		}
		o := []string{ci(cP), exd(aggPub, cP), ci(cS), exd(aggSig, cS), verdict}
		for _, b := range m.Mask() {
			o = append(o, ci(int(b)))
		}
		o = append(o, ci(m.CountEnabled()))
		obs = append(obs, vh.CoqList(o))
	}
	newMask(r.Intn(2))
	if len(objs) == 0 {
		return
	}
	for len(steps) < nsteps {
		k := r.Intn(len(objs))
		switch x := r.Intn(100); {
		case x < 6:
			newMask(r.Intn(3))
		case x < 40:
			setOp(k, randBop(r, r.Intn(3), n))
		case x < 55:
			steps = append(steps, fmt.Sprintf("SClone %d", k))
			hist = append(hist, fmt.Sprintf("#%d.Clone -> #%d", k, len(objs)))
			objs = append(objs, objs[k].Clone())
			obs = append(obs, "[0]")
		default:
			agg(k)
		}
	}
	replay["history"] = hist
	c.rep.Dist("bdn-session:" + e.name)
	c.rep.DistN("bdn-session:aggregations-verified", naggs)
	if c.id%25 == 0 {
		c.rep.Sample(replay)
	}
	c.emit(fmt.Sprintf("CBdnS %d %s %s %s %s %s %s %s", c.id, cb(e.g1), cb(e.dlog), czl(pubD), czl(coefD), cz(h),
		vh.CoqList(mapS(steps, func(s string) string { return "(" + s + ")" })), vh.CoqList(obs)),
		replay, fmt.Sprintf("bdn-session %s n=%d %v", e.name, n, hist), naggs > 1)
}

// In-place buffer sessions: ONE message buffer (same backing array, offset and
// - mostly - length), ONE signature buffer and ONE key point object are refilled
// with new content before each call, and every scheme object (bls, the bls
// inside tbls, the bls inside bdn) must answer for the CURRENT content: Sign
// equals x*H(current message) computed without the scheme object, a signature
// on the previous content is rejected, a genuine one on the new content is
// accepted, Recover returns the signature on the current message.
func inplaceSession(c *ctx, e *env, r *vh.Rng) {
	arr := make([]byte, 96)
	off, L := r.Intn(8), 2+r.Intn(40)
	sarr := make([]byte, e.sigG.PointLen())
	Xobj := e.keyG.Point()
	type kp struct {
		x  kyber.Scalar
		X  kyber.Point
		xd *big.Int
	}
	var keys []kp
	var pubs []kyber.Point
	for i := 0; i < 3; i++ {
		x, X, xd := e.newKey(r)
		keys = append(keys, kp{x, X, xd})
		pubs = append(pubs, X)
	}
	t, n := 2, 3
	pc := newPolyCtx(e, r, t)
	shares := pc.poly.Shares(uint32(n))
	shareK := func(i int) *big.Int { // the share as an integer of the real field
		if e.dlog {
			return evalq(pc.coefD, int64(i+1))
		}
		return vh.ScalarVal(shares[i].V)
	}
	secretK := vh.ScalarVal(pc.poly.Secret())
	mask, err := bdn.NewMask(e.keyG, pubs, nil)
	if err != nil {
		panic(err)
	}
	for i := range pubs {
		mask.SetBit(i, true)
	}
	aggPub, err := e.bdn.AggregatePublicKeys(mask)
	if err != nil {
		panic(err)
	}
	var qs, signs, hist []string
	replay := map[string]interface{}{"type": "in-place-buffers", "env": e.name}
	fail := func(key, what string) {
		replay["history"] = append([]string{}, hist...)
		c.rep.Fail(key, what+" (the message / signature / key object is the same one as in the previous call, refilled in place)", replay)
	}
	var prev struct {
		m        []byte
		h        *big.Int
		sig, agg []byte
		parts    [][]byte
	}
	nacc := 0
	steps := 4 + r.Intn(3)
	for k := 0; k < steps; k++ {
		l := L
		if k > 0 && r.Chance(25) { // the same array resliced shorter / longer
			l = L - 1 + r.Intn(3)
			c.rep.Dist("reuse:message-buffer-refilled-in-place/resliced")
		} else {
			c.rep.Dist("reuse:message-buffer-refilled-in-place/same-offset-and-length")
		}
		mk := r.Bytes(l)
		mk[0] = byte(k) // differs from the previous content
		buf := arr[off : off+l]
		copy(buf, mk)
		h := e.hdl(r, mk)
		hist = append(hist, fmt.Sprintf("message %d: %s", k, vh.Hex(mk)))
		want := e.sigOf(keys[0].xd, mk)
		wantD := mulq(keys[0].xd, h)
		var wantParts [][]byte
		for i := 0; i < n; i++ {
			wantParts = append(wantParts, append([]byte{0, byte(i)}, e.sigOf(shareK(i), mk)...))
		}
		wantRec := e.sigOf(secretK, mk)
		verify := func(who string, f func(X kyber.Point, m, sg []byte) error, X kyber.Point, xd *big.Int, sg []byte, sgD *big.Int, expect bool, key string) {
			Xobj.Set(X)
			copy(sarr, sg)
			ok := f(Xobj, buf, sarr[:len(sg)]) == nil
			if ok {
				nacc++
			}
			qs = append(qs, fmt.Sprintf("(%s, %s, %s, %s)", cz(xd), cz(h), copt(sgD), cb(ok)))
			c.rep.Dist("reuse:verify-after-in-place-refill/" + who)
			if ok != expect {
				if ok {
					fail(key, who+" accepts, for the current content of the buffer, a signature that is not a signature on it")
				} else {
					fail(key, who+" rejects a genuine signature on the current content of the buffer")
				}
			}
		}
		acts := shuffle(r, []int{0, 1, 2, 3, 4, 5})
		for _, a := range acts {
			switch a {
			case 0: // bls Sign
				sb, err := e.bls.Sign(keys[0].x, buf)
				c.rep.Dist("reuse:sign-after-in-place-refill/bls")
				if err != nil || !bytes.Equal(sb, want) {
					fail("bls.Sign/message-buffer-refilled-in-place", "bls Sign does not sign the current content of the message buffer")
				}
				if e.dlog && err == nil {
					if d := e.decode(sb); d != nil {
						signs = append(signs, fmt.Sprintf("(%s, %s, %s)", cz(keys[0].xd), cz(h), cz(d)))
					}
				}
			case 1: // bls Verify: old signature, new signature, other key object content
				if prev.sig != nil {
					verify("bls.Verify", e.bls.Verify, keys[0].X, keys[0].xd, prev.sig, mulq(keys[0].xd, prev.h), false, "bls.Verify/message-buffer-refilled-in-place")
				}
				verify("bls.Verify", e.bls.Verify, keys[0].X, keys[0].xd, want, wantD, true, "bls.Verify/message-buffer-refilled-in-place")
				verify("bls.Verify", e.bls.Verify, keys[1].X, keys[1].xd, want, wantD, false, "bls.Verify/key-object-refilled-in-place")
				verify("bls.Verify", e.bls.Verify, keys[0].X, keys[0].xd, want, wantD, true, "bls.Verify/key-object-refilled-in-place")
			case 2: // tbls Sign / VerifyPartial
				for i := 0; i < n; i++ {
					pb, err := e.tbls.Sign(shares[i], buf)
					c.rep.Dist("reuse:sign-after-in-place-refill/tbls")
					if err != nil || !bytes.Equal(pb, wantParts[i]) {
						fail("tbls.Sign/message-buffer-refilled-in-place", "tbls Sign does not sign the current content of the message buffer")
					}
				}
				vp := func(pb []byte, sd *big.Int, i int, expect bool) {
					ok := e.tbls.VerifyPartial(pc.pub, buf, pb) == nil
					if ok {
						nacc++
					}
					qs = append(qs, fmt.Sprintf("(%s, %s, %s, %s)", cz(evalq(pc.coefD, int64(i+1))), cz(h), copt(sd), cb(ok)))
					c.rep.Dist("reuse:verify-after-in-place-refill/tbls.VerifyPartial")
					if ok != expect {
						fail("tbls.VerifyPartial/message-buffer-refilled-in-place", fmt.Sprintf("VerifyPartial verdict %v for the current content of the buffer, expected %v", ok, expect))
					}
				}
				if prev.parts != nil {
					vp(prev.parts[0], mulq(evalq(pc.coefD, 1), prev.h), 0, false)
				}
				vp(wantParts[1], mulq(evalq(pc.coefD, 2), h), 1, true)
			case 3: // tbls Recover
				rec, err := e.tbls.Recover(pc.pub, buf, [][]byte{wantParts[2], wantParts[0]}, uint32(t), uint32(n))
				c.rep.Dist("reuse:recover-after-in-place-refill")
				if err != nil || !bytes.Equal(rec, wantRec) {
					fail("tbls.Recover/message-buffer-refilled-in-place", fmt.Sprintf("Recover over valid partials on the current content of the buffer fails or returns another signature (%v)", err))
				} else if e.tbls.VerifyRecovered(pc.pub.Commit(), buf, rec) != nil {
					fail("tbls.VerifyRecovered/message-buffer-refilled-in-place", "the recovered signature on the current content of the buffer is rejected")
				}
				if prev.parts != nil {
					if rec, err := e.tbls.Recover(pc.pub, buf, prev.parts, uint32(t), uint32(n)); err == nil {
						replay["recovered"] = vh.Hex(rec)
						fail("tbls.Recover/message-buffer-refilled-in-place", "Recover accepts the partial signatures on the previous content of the buffer for the current one")
					}
				}
			case 4: // bdn Sign / Verify
				sb, err := e.bdn.Sign(keys[0].x, buf)
				c.rep.Dist("reuse:sign-after-in-place-refill/bdn")
				if err != nil || !bytes.Equal(sb, want) {
					fail("bdn.Sign/message-buffer-refilled-in-place", "bdn Sign does not sign the current content of the message buffer")
				}
				if prev.sig != nil {
					verify("bdn.Verify", e.bdn.Verify, keys[0].X, keys[0].xd, prev.sig, mulq(keys[0].xd, prev.h), false, "bdn.Verify/message-buffer-refilled-in-place")
				}
				verify("bdn.Verify", e.bdn.Verify, keys[0].X, keys[0].xd, want, wantD, true, "bdn.Verify/message-buffer-refilled-in-place")
			case 5: // bdn aggregate over the three keys
				var sigs [][]byte
				for i := range keys {
					sigs = append(sigs, e.sigOf(keys[i].xd, mk))
				}
				aggSig, err := e.bdn.AggregateSignatures(sigs, mask)
				if err != nil {
					fail("bdn.Aggregate/honest-error", err.Error())
					continue
				}
				ab, _ := aggSig.MarshalBinary()
				c.rep.Dist("reuse:verify-after-in-place-refill/bdn-aggregate")
				if prev.agg != nil && e.bdn.Verify(aggPub, buf, prev.agg) == nil {
					fail("bdn.Verify/message-buffer-refilled-in-place", "the aggregate signature on the previous content of the buffer verifies for the current one")
				}
				if e.bdn.Verify(aggPub, buf, ab) != nil {
					fail("bdn.Verify/message-buffer-refilled-in-place", "the aggregate signature on the current content of the buffer is rejected")
				}
				prev.agg = ab
			}
		}
		if !bytes.Equal(buf, mk) {
			fail("bls/inputs-mutated", "a call changed the message buffer")
		}
		prev.m, prev.h, prev.sig, prev.parts = mk, h, want, wantParts
	}
	c.rep.Dist("inplace:" + e.name)
	replay["history"] = hist
	c.emit(fmt.Sprintf("CBls %d %s %s %s", c.id, cb(e.g1), vh.CoqList(signs), vh.CoqList(qs)), replay,
		fmt.Sprintf("inplace %s %v", e.name, hist), nacc > 0)
}

// the same for cosi.Verify: one message buffer and one signature buffer refilled in place
func cosiInplace(c *ctx, r *vh.Rng, real bool) {
	var suite cosi.Suite
	var g *vh.DlogGroup
	if real {
		suite = &edSuite{edwards25519.NewBlakeSHA256Ed25519(), stream(r)}
	} else {
		g = vh.NewDlogGroup(Q, stream(r))
		suite = g
	}
	n := 2 + r.Intn(5)
	var pubs []kyber.Point
	var privs []kyber.Scalar
	var pubD []*big.Int
	bits := make([]bool, n)
	for i := 0; i < n; i++ {
		x := suite.Scalar().Pick(stream(r))
		privs, pubs = append(privs, x), append(pubs, suite.Point().Mul(x, nil))
		if !real {
			pubD = append(pubD, vh.ScalarVal(x))
		}
		bits[i] = true
	}
	L := 1 + r.Intn(40)
	var msgs, sigs [][]byte
	for k := 0; k < 3; k++ {
		m := r.Bytes(L)
		m[0] = byte(k)
		sg, err := cosiSign(suite, pubs, privs, bits, m)
		if err != nil {
			c.rep.Fail("cosi.Sign/protocol-error", err.Error(), map[string]interface{}{"n": n})
			return
		}
		msgs, sigs = append(msgs, m), append(sigs, sg)
	}
	mbuf, sbuf := make([]byte, L), make([]byte, len(sigs[0]))
	pol := cosiPolicySpec{kind: 1}
	for step := 0; step < 6; step++ {
		mi, si := r.Intn(3), r.Intn(3)
		if step%2 == 0 {
			si = mi
		}
		copy(mbuf, msgs[mi])
		copy(sbuf, sigs[si])
		ok := cosi.Verify(suite, pubs, mbuf, sbuf, pol.mk()) == nil
		replay := map[string]interface{}{"type": "cosi-in-place-buffers", "real": real, "n": n, "msg": vh.Hex(mbuf), "sig": vh.Hex(sbuf), "signature_is_for_message": si, "message": mi}
		c.rep.Dist("reuse:verify-after-in-place-refill/cosi.Verify")
		if ok != (mi == si) {
			c.rep.Fail("cosi.Verify/buffer-refilled-in-place", fmt.Sprintf("verdict %v for the current content of the message and signature buffers, expected %v", ok, mi == si), replay)
		}
		if !real {
			emitCosiV(c, g, pubs, pubD, append([]byte{}, sbuf...), append([]byte{}, mbuf...), pol, ok, replay, fmt.Sprintf("cosi-inplace %x %x", mbuf, sbuf))
		}
	}
}

func cb01(b bool) string {
	if b {
		return "1"
	}
	return "0"
}

func kindSeqs(maxLen int) [][]int {
	out := [][]int{{}}
	prev := [][]int{{}}
	for l := 1; l <= maxLen; l++ {
		var cur [][]int
		for _, p := range prev {
			for k := 0; k < 4; k++ {
				cur = append(cur, append(append([]int{}, p...), k))
			}
		}
		out = append(out, cur...)
		prev = cur
	}
	return out
}

// ---------------------------------------------------------------- CoSi

type cop struct {
	kind  int // 0 SetBit, 1 SetMask, 2 Merge (SetMask(AggregateMasks(Mask(), b)))
	i     int
	b     bool
	bytes []byte
}

func (o cop) coq() string {
	switch o.kind {
	case 0:
		return fmt.Sprintf("VSetBit %s %s", ci(o.i), cb(o.b))
	case 1:
		return "VSetMask " + vh.CoqBytes(o.bytes)
	}
	return "VMerge " + vh.CoqBytes(o.bytes)
}
func (o cop) String() string {
	switch o.kind {
	case 0:
		return fmt.Sprintf("SetBit(%d,%v)", o.i, o.b)
	case 1:
		return "SetMask(" + vh.Hex(o.bytes) + ")"
	}
	return "Merge(" + vh.Hex(o.bytes) + ")"
}

func cosiState(m *cosi.Mask, dlogOf func(kyber.Point) *big.Int) []string {
	out := []string{"0", cz(dlogOf(m.AggregatePublic)), ci(m.CountEnabled())}
	for _, b := range m.Mask() {
		out = append(out, ci(int(b)))
	}
	return out
}

// sum of the enabled keys, computed without the Mask type
func sumEnabled(g kyber.Group, pubs []kyber.Point, mb []byte) kyber.Point {
	a := g.Point().Null()
	for i, p := range pubs {
		if i/8 < len(mb) && mb[i/8]&(1<<uint(i%8)) != 0 {
			a = g.Point().Add(a, p)
		}
	}
	return a
}

func cosiMaskCase(c *ctx, r *vh.Rng, nops int) {
	g := vh.NewDlogGroup(Q, stream(r))
	n := 1 + r.Intn(20)
	var pubs []kyber.Point
	var pubD []*big.Int
	for i := 0; i < n; i++ {
		v := r.BigBelow(Q)
		if i > 0 && r.Chance(5) {
			v = pubD[0]
		}
		pubD = append(pubD, v)
		pubs = append(pubs, g.PointOf(v))
	}
	var own kyber.Point
	var ownD *big.Int
	switch r.Intn(4) {
	case 0:
		k := r.Intn(n)
		own, ownD = pubs[k].Clone(), pubD[k]
	case 1:
		ownD = r.BigBelow(Q)
		own = g.PointOf(ownD)
	}
	replay := map[string]interface{}{"type": "cosi-mask", "n": n, "publics": mapS(pubD, (*big.Int).String)}
	if ownD != nil {
		replay["own"] = ownD.String()
	}
	var obs []string
	m, err := cosi.NewMask(g, pubs, own)
	if err != nil {
		c.emit(fmt.Sprintf("CCosiMask %d %s %s [] [[1]]", c.id, czl(pubD), copt(ownD)), replay, "cosi-mask foreign", false)
		return
	}
	obs = append(obs, vh.CoqList(cosiState(m, vh.Dlog)))
	ln := (n + 7) / 8
	var ops []cop
	check := func(step string) {
		want := sumEnabled(g, pubs, m.Mask())
		if !want.Equal(m.AggregatePublic) {
			replay["ops"] = mapS(ops, cop.String)
			c.rep.Fail("cosi.Mask/aggregate-out-of-step", "AggregatePublic is not the sum of the enabled keys after "+step, replay)
		}
		cnt := 0
		mb := m.Mask()
		for i := 0; i < n; i++ {
			if mb[i/8]&(1<<uint(i%8)) != 0 {
				cnt++
			}
		}
		if cnt != m.CountEnabled() {
			replay["ops"] = mapS(ops, cop.String)
			c.rep.Fail("cosi.Mask.CountEnabled/miscount", "CountEnabled differs from the number of enabled cosigners", replay)
		}
	}
	check("NewMask")
	for k := 0; k < nops; k++ {
		var o cop
		switch r.Intn(5) {
		case 0, 1, 2:
			i := r.Intn(n)
			if r.Chance(12) {
				i = r.Pick([]int{-1, -9, n, n + 3, 8 * ln})
			}
			o = cop{kind: 0, i: i, b: r.Chance(65)}
		default:
			l := ln
			if r.Chance(12) {
				l = r.Pick([]int{0, ln + 1, ln - 1})
				if l < 0 {
					l = 0
				}
			}
			o = cop{kind: 1 + r.Intn(2), bytes: r.Bytes(l)}
			if r.Chance(30) {
				for j := range o.bytes {
					o.bytes[j] &= byte(r.U64())
				}
			}
		}
		ops = append(ops, o)
		var err error
		pn, _ := vh.Try(func() {
			switch o.kind {
			case 0:
				err = m.SetBit(o.i, o.b)
			case 1:
				buf := append([]byte{}, o.bytes...)
				c.unchanged("cosi.Mask.SetMask/inputs-mutated", "SetMask", replay, func() string { return fp(buf, pubs) }, func() { err = m.SetMask(buf) })
				c.scribble("cosi.Mask.SetMask", buf)
			case 2:
				var u []byte
				cur, other := m.Mask(), append([]byte{}, o.bytes...)
				c.unchanged("cosi.AggregateMasks/inputs-mutated", "AggregateMasks", replay, func() string { return fp(cur, other) }, func() { u, err = cosi.AggregateMasks(cur, other) })
				if err == nil {
					keep := append([]byte{}, u...)
					c.scribble("cosi.AggregateMasks", cur, other)
					if !bytes.Equal(keep, u) {
						c.rep.Fail("cosi.AggregateMasks/result-shares-input-buffer", "the aggregate mask changes when the caller overwrites the masks it passed in", replay)
					}
					err = m.SetMask(u)
					c.scribble("cosi.Mask.SetMask", u)
				}
			}
		})
		st := cosiState(m, vh.Dlog)
		switch {
		case pn:
			st = append([]string{"2"}, st...)
		case err != nil:
			st = append([]string{"1"}, st...)
		}
		obs = append(obs, vh.CoqList(st))
		check(o.String())
	}
	replay["ops"] = mapS(ops, cop.String)
	c.rep.Dist(fmt.Sprintf("cosi-mask:n=%d", n))
	if c.id%30 == 0 {
		c.rep.Sample(replay)
	}
	c.emit(fmt.Sprintf("CCosiMask %d %s %s %s %s", c.id, czl(pubD), copt(ownD), vh.CoqList(mapS(ops, cop.coq)), vh.CoqList(obs)),
		replay, fmt.Sprintf("cosi-mask %d %v", n, mapS(ops, cop.String)), len(ops) > 0)
}

type cosiPolicySpec struct {
	kind int // 0 nil, 1 complete, 2 threshold
	th   int
}

func (p cosiPolicySpec) mk() cosi.Policy {
	switch p.kind {
	case 0:
		return nil
	case 1:
		return cosi.CompletePolicy{}
	}
	return cosi.NewThresholdPolicy(p.th)
}
func (p cosiPolicySpec) coq() string {
	if p.kind == 2 {
		return fmt.Sprintf("(WThreshold %s)", ci(p.th))
	}
	return "WComplete"
}
func (p cosiPolicySpec) ok(cnt, n int) bool {
	if p.kind == 2 {
		return cnt >= p.th
	}
	return cnt == n
}

// runs the CoSi protocol among the cosigners enabled in bits; returns the signature
func cosiSign(suite cosi.Suite, pubs []kyber.Point, privs []kyber.Scalar, bits []bool, msg []byte) ([]byte, error) {
	n := len(pubs)
	var masks []*cosi.Mask
	var vs []kyber.Scalar
	var Vs []kyber.Point
	var bm [][]byte
	var idx []int
	for i := 0; i < n; i++ {
		if !bits[i] {
			continue
		}
		m, err := cosi.NewMask(suite, pubs, pubs[i])
		if err != nil {
			return nil, err
		}
		v, V := cosi.Commit(suite)
		masks, vs, Vs, bm, idx = append(masks, m), append(vs, v), append(Vs, V), append(bm, m.Mask()), append(idx, i)
	}
	aggV, aggMask, err := cosi.AggregateCommitments(suite, Vs, bm)
	if err != nil {
		return nil, err
	}
	lead := masks[0]
	if err := lead.SetMask(aggMask); err != nil {
		return nil, err
	}
	var rs []kyber.Scalar
	for k, i := range idx {
		ch, err := cosi.Challenge(suite, aggV, lead.AggregatePublic, msg)
		if err != nil {
			return nil, err
		}
		ri, err := cosi.Response(suite, privs[i], vs[k], ch)
		if err != nil {
			return nil, err
		}
		rs = append(rs, ri)
	}
	aggR, err := cosi.AggregateResponses(suite, rs)
	if err != nil {
		return nil, err
	}
	return cosi.Sign(suite, aggV, aggR, lead)
}

func cosiVerifyCase(c *ctx, r *vh.Rng, real bool) {
	var suite cosi.Suite
	var g *vh.DlogGroup
	if real {
		suite = &edSuite{edwards25519.NewBlakeSHA256Ed25519(), stream(r)}
	} else {
		g = vh.NewDlogGroup(Q, stream(r))
		suite = g
	}
	n := 1 + r.Intn(12)
	var pubs []kyber.Point
	var privs []kyber.Scalar
	var pubD []*big.Int
	for i := 0; i < n; i++ {
		x := suite.Scalar().Pick(stream(r))
		privs = append(privs, x)
		pubs = append(pubs, suite.Point().Mul(x, nil))
		if !real {
			pubD = append(pubD, vh.ScalarVal(x))
		}
	}
	bits := make([]bool, n)
	cnt := 0
	for i := range bits {
		if r.Chance(70) {
			bits[i] = true
			cnt++
		}
	}
	if cnt == 0 {
		bits[r.Intn(n)] = true
		cnt = 1
	}
	msg := append(r.Bytes(r.Pick([]int{0, 5, 64})), 1)
	replay := map[string]interface{}{"type": "cosi-verify", "real": real, "n": n, "participants": fmt.Sprint(bits), "msg": vh.Hex(msg)}
	sig, err := cosiSign(suite, pubs, privs, bits, msg)
	if err != nil {
		c.rep.Fail("cosi.Sign/protocol-error", err.Error(), replay)
		return
	}
	lenV, lenR := suite.PointLen(), suite.ScalarLen()
	pol := cosiPolicySpec{kind: r.Intn(3)}
	if pol.kind == 2 {
		pol.th = cnt - 1 + r.Intn(3)
	}
	tamper := r.Intn(12)
	vmsg := msg
	tsig := append([]byte{}, sig...)
	kind := "none"
	semantic := false // a change of commitment, response, participants or message
	switch tamper {
	case 0:
		tsig[lenV+r.Intn(lenR)] ^= 1 << uint(r.Intn(8))
		kind, semantic = "response-bit", true
	case 1:
		V2, _ := suite.Point().Mul(suite.Scalar().Pick(stream(r)), nil).MarshalBinary()
		copy(tsig, V2)
		kind, semantic = "other-commitment", true
	case 2:
		i := r.Intn(n)
		tsig[lenV+lenR+i/8] ^= 1 << uint(i%8)
		kind, semantic = "mask-bit", true
	case 3:
		if n%8 != 0 {
			tsig[len(tsig)-1] ^= 0x80
			kind = "padding-bit"
		}
	case 4:
		tsig = tsig[:len(tsig)-1]
		kind, semantic = "mask-truncated", true
	case 5:
		tsig = append(tsig, 0)
		kind, semantic = "mask-extended", true
	case 6:
		copy(tsig, r.Bytes(lenV))
		kind, semantic = "garbage-commitment", true
	case 7:
		tsig = tsig[:r.Intn(lenV+lenR)]
		kind, semantic = "short", true
	case 8:
		vmsg = append(append([]byte{}, msg...), 7)
		kind, semantic = "other-message", true
	}
	replay["tamper"] = kind
	replay["sig"] = vh.Hex(tsig)
	replay["policy"] = fmt.Sprintf("%+v", pol)
	var verr error
	var pn bool
	var pm string
	c.unchanged("cosi.Verify/inputs-mutated", "cosi.Verify", replay, func() string { return fp(pubs, tsig, vmsg) }, func() {
		pn, pm = vh.Try(func() { verr = cosi.Verify(suite, pubs, vmsg, tsig, pol.mk()) })
	})
	if pn {
		c.rep.Fail("cosi.Verify/panics", pm, replay)
		return
	}
	acc := verr == nil
	if again := cosi.Verify(suite, pubs, vmsg, tsig, pol.mk()); (again == nil) != acc {
		c.rep.Fail("cosi.Verify/not-repeatable", "verifying the same collective signature twice gives two verdicts", replay)
	}
	switch {
	case !semantic && pol.ok(cnt, n) && !acc:
		c.rep.Fail("cosi.Verify/honest-rejected", "an honestly formed collective signature meeting the policy is rejected: "+verr.Error(), replay)
	case !semantic && !pol.ok(cnt, n) && acc:
		c.rep.Fail("cosi.Verify/policy-ignored", "a collective signature is accepted although the policy is not met", replay)
	case semantic && acc:
		c.rep.Fail("cosi.Verify/tampered-accepted", "a collective signature with a changed "+kind+" is accepted", replay)
	}
	c.rep.Dist("cosi-verify:tamper=" + kind)
	c.rep.Dist(fmt.Sprintf("cosi-verify:accepted=%v", acc))
	if real {
		c.rep.Count(fmt.Sprintf("cosi-verify-ed25519 %x %s", tsig, kind), true)
		return
	}
	emitCosiV(c, g, pubs, pubD, tsig, vmsg, pol, acc, replay, fmt.Sprintf("cosi-verify %x %s %+v", tsig, kind, pol))
}

// the Coq case of one cosi.Verify call over vh.DlogGroup: the parsed signature
// and the challenge-hash table
func emitCosiV(c *ctx, g *vh.DlogGroup, pubs []kyber.Point, pubD []*big.Int, tsig, vmsg []byte, pol cosiPolicySpec, acc bool, replay map[string]interface{}, canon string) {
	lenV, lenR := g.PointLen(), g.ScalarLen()
	sigTerm := "None"
	var tbl []string
	if len(tsig) >= lenV+lenR {
		V := g.Point()
		var vd *big.Int
		if V.UnmarshalBinary(tsig[:lenV]) == nil {
			vd = vh.Dlog(V)
		}
		rd := vh.ScalarVal(g.Scalar().SetBytes(tsig[lenV : lenV+lenR]))
		mb := tsig[lenV+lenR:]
		sigTerm = fmt.Sprintf("(Some (%s, %s, %s))", copt(vd), cz(rd), vh.CoqBytes(mb))
		if vd != nil {
			A := sumEnabled(g, pubs, mb)
			ab, _ := A.MarshalBinary()
			hh := sha256.New()
			hh.Write(tsig[:lenV])
			hh.Write(ab)
			hh.Write(vmsg)
			k := vh.ScalarVal(g.Scalar().SetBytes(hh.Sum(nil)))
			tbl = append(tbl, fmt.Sprintf("(%s, %s, %s)", cz(vd), cz(vh.Dlog(A)), cz(k)))
			ch, err := cosi.Challenge(g, V, A, vmsg)
			if err != nil || vh.ScalarVal(ch).Cmp(k) != 0 {
				c.rep.Fail("cosi.Challenge/not-H(V||A||M)", "Challenge differs from SHA-256(V||A||M) reduced", replay)
			}
		}
	}
	if c.id%40 == 0 {
		c.rep.Sample(replay)
	}
	c.emit(fmt.Sprintf("CCosiV %d %s %s %s %s %s", c.id, czl(pubD), vh.CoqList(tbl), sigTerm, pol.coq(), cb(acc)),
		replay, canon, true)
}

// A CoSi session: one leader keeps its key list, mask object, commitment and
// response objects and runs several signing rounds over them with changing
// participant sets (cosigners enabled, disabled, re-enabled).  Every
// aggregation function is called on overlapping sub-slices of the same
// caller-owned slices (a prefix first - a sub-leader's partial sum, or the
// answers received so far - then everything, then everything again), the
// inputs of every call are fingerprinted before and after, every aggregate is
// compared with the sum of the values the objects were created with, buffers
// handed in are overwritten afterwards, and the signatures of all rounds are
// verified again at the end.
func cosiSession(c *ctx, r *vh.Rng, real bool) {
	var suite cosi.Suite
	var g *vh.DlogGroup
	var order *big.Int
	if real {
		es := &edSuite{edwards25519.NewBlakeSHA256Ed25519(), stream(r)}
		suite = es
		order, _ = new(big.Int).SetString("7237005577332262213973186563042994240857116359379907606001950938285454250989", 10)
	} else {
		g = vh.NewDlogGroup(Q, stream(r))
		suite, order = g, Q
	}
	n := 2 + r.Intn(9)
	var pubs []kyber.Point
	var privs []kyber.Scalar
	var pubD []*big.Int
	for i := 0; i < n; i++ {
		x := suite.Scalar().Pick(stream(r))
		privs = append(privs, x)
		pubs = append(pubs, suite.Point().Mul(x, nil))
		if !real {
			pubD = append(pubD, vh.ScalarVal(x))
		}
	}
	replay := map[string]interface{}{"type": "cosi-session", "real": real, "n": n}
	var hist []string
	lead, err := cosi.NewMask(suite, pubs, nil)
	if err != nil {
		c.rep.Fail("cosi.NewMask/error", err.Error(), replay)
		return
	}
	ownMask := make([][]byte, n)
	for i := range pubs {
		m, err := cosi.NewMask(suite, pubs, pubs[i])
		if err != nil {
			c.rep.Fail("cosi.NewMask/error", err.Error(), replay)
			return
		}
		ownMask[i] = m.Mask()
	}
	sumS := func(vals []*big.Int) *big.Int {
		a := big.NewInt(0)
		for _, v := range vals {
			a.Add(a, v)
		}
		return a.Mod(a, order)
	}
	type done struct {
		sig, keep, msg []byte
		pol            cosiPolicySpec
	}
	var signed []done
	rounds := 2 + r.Intn(3)
	for rd := 0; rd < rounds; rd++ {
		bits := make([]bool, n)
		var idx []int
		for i := range bits {
			if r.Chance(65) {
				bits[i] = true
				idx = append(idx, i)
			}
		}
		if len(idx) == 0 {
			k := r.Intn(n)
			bits[k], idx = true, []int{k}
		}
		cnt := len(idx)
		msg := append(r.Bytes(r.Pick([]int{0, 5, 64})), byte(rd))
		hist = append(hist, fmt.Sprintf("round %d participants %v", rd, idx))
		replay["history"] = hist
		// commitments: the leader's slices of objects
		var vs []kyber.Scalar
		var Vs []kyber.Point
		var ms [][]byte
		for _, i := range idx {
			v, V := cosi.Commit(suite)
			vs, Vs, ms = append(vs, v), append(Vs, V), append(ms, append([]byte{}, ownMask[i]...))
		}
		wantV := func(k int) kyber.Point {
			a := suite.Point().Null()
			for _, v := range vs[:k] {
				a = suite.Point().Add(a, suite.Point().Mul(v, nil))
			}
			return a
		}
		var aggV kyber.Point
		var aggM []byte
		for _, k := range []int{1 + r.Intn(cnt), cnt, cnt} {
			var err error
			c.unchanged("cosi.AggregateCommitments/inputs-mutated", "AggregateCommitments", replay, func() string { return fp(Vs, ms) }, func() {
				aggV, aggM, err = cosi.AggregateCommitments(suite, Vs[:k], ms[:k])
			})
			c.rep.Dist("reuse:cosi.AggregateCommitments/overlapping-sub-slices")
			if err != nil || !aggV.Equal(wantV(k)) {
				c.rep.Fail("cosi.AggregateCommitments/wrong-sum", fmt.Sprintf("the aggregate of the first %d commitments of the round is not their sum (%v)", k, err), replay)
				return
			}
		}
		// the long-lived leader mask is brought to this round's participants
		buf := append([]byte{}, aggM...)
		if err := lead.SetMask(buf); err != nil {
			c.rep.Fail("cosi.Mask.SetMask/error", err.Error(), replay)
			return
		}
		c.scribble("cosi.Mask.SetMask", buf)
		c.rep.Dist("reuse:cosi.Mask/rounds-on-one-mask")
		if !lead.AggregatePublic.Equal(sumEnabled(suite, pubs, lead.Mask())) || lead.CountEnabled() != cnt || !bytes.Equal(lead.Mask(), aggM) {
			c.rep.Fail("cosi.Mask/aggregate-out-of-step", "the leader's mask, reused over several rounds, is out of step with the participants", replay)
			return
		}
		var ch kyber.Scalar
		mbuf := append([]byte{}, msg...)
		c.unchanged("cosi.Challenge/inputs-mutated", "Challenge", replay, func() string { return fp(aggV, lead.AggregatePublic, mbuf) }, func() {
			ch, err = cosi.Challenge(suite, aggV, lead.AggregatePublic, mbuf)
		})
		if err != nil {
			c.rep.Fail("cosi.Challenge/error", err.Error(), replay)
			return
		}
		chKeep := vh.ScalarVal(ch)
		c.scribble("cosi.Challenge message", mbuf)
		if vh.ScalarVal(ch).Cmp(chKeep) != 0 {
			c.rep.Fail("cosi.Challenge/result-shares-input-buffer", "the challenge changes when the caller overwrites the message buffer", replay)
		}
		// responses: objects the leader keeps; their values at creation are recorded
		var resp []kyber.Scalar
		var respD []*big.Int
		for k, i := range idx {
			var ri kyber.Scalar
			c.unchanged("cosi.Response/inputs-mutated", "Response", replay, func() string { return fp(privs[i], vs[k], ch) }, func() {
				ri, err = cosi.Response(suite, privs[i], vs[k], ch)
			})
			if err != nil {
				c.rep.Fail("cosi.Response/error", err.Error(), replay)
				return
			}
			want := new(big.Int).Mul(vh.ScalarVal(privs[i]), vh.ScalarVal(ch))
			want.Add(want, vh.ScalarVal(vs[k])).Mod(want, order)
			if vh.ScalarVal(ri).Cmp(want) != 0 {
				c.rep.Fail("cosi.Response/not-v+c*a", "Response differs from v + c*a", replay)
			}
			resp, respD = append(resp, ri), append(respD, vh.ScalarVal(ri))
		}
		// answers received so far, then all of them, then once more
		var aggR kyber.Scalar
		for _, k := range []int{1 + r.Intn(cnt), cnt, cnt} {
			c.unchanged("cosi.AggregateResponses/inputs-mutated", "AggregateResponses", replay, func() string { return fp(resp) }, func() {
				aggR, err = cosi.AggregateResponses(suite, resp[:k])
			})
			c.rep.Dist("reuse:cosi.AggregateResponses/overlapping-sub-slices")
			if err != nil || vh.ScalarVal(aggR).Cmp(sumS(respD[:k])) != 0 {
				c.rep.Fail("cosi.AggregateResponses/wrong-sum", fmt.Sprintf("the aggregate of the first %d responses of the round is not the sum of the responses the signers sent (%v)", k, err), replay)
			}
		}
		var sig []byte
		c.unchanged("cosi.Sign/inputs-mutated", "cosi.Sign", replay, func() string { return fp(aggV, aggR, lead.Mask(), lead.AggregatePublic) }, func() {
			sig, err = cosi.Sign(suite, aggV, aggR, lead)
		})
		if err != nil {
			c.rep.Fail("cosi.Sign/error", err.Error(), replay)
			return
		}
		pol := cosiPolicySpec{kind: 2, th: cnt - r.Intn(2)}
		if cnt == n && r.Bool() {
			pol = cosiPolicySpec{kind: r.Intn(2)}
		}
		vbuf, sbuf := append([]byte{}, msg...), append([]byte{}, sig...)
		var verr error
		c.unchanged("cosi.Verify/inputs-mutated", "cosi.Verify", replay, func() string { return fp(pubs, sbuf, vbuf) }, func() {
			verr = cosi.Verify(suite, pubs, vbuf, sbuf, pol.mk())
		})
		c.scribble("cosi.Verify message and signature", vbuf, sbuf)
		replay["sig"] = vh.Hex(sig)
		if verr != nil {
			c.rep.Fail("cosi.Verify/honest-rejected", fmt.Sprintf("round %d of a session reusing the leader's objects: an honestly formed collective signature meeting the policy is rejected: %v", rd, verr), replay)
		}
		signed = append(signed, done{sig, append([]byte{}, sig...), msg, pol})
		if !real {
			emitCosiV(c, g, pubs, pubD, sig, msg, pol, verr == nil, replay, fmt.Sprintf("cosi-session %x", sig))
		} else {
			c.rep.Count(fmt.Sprintf("cosi-session-ed25519 %x", sig), true)
		}
	}
	// earlier results after the mask and the buffers moved on
	for k, d := range signed {
		if !bytes.Equal(d.sig, d.keep) {
			c.rep.Fail("cosi.Sign/result-shares-mask-buffer", fmt.Sprintf("the signature of round %d changed when the leader's mask was reused", k), replay)
		} else if cosi.Verify(suite, pubs, d.msg, d.sig, d.pol.mk()) != nil {
			c.rep.Fail("cosi.Verify/not-repeatable", fmt.Sprintf("the signature of round %d no longer verifies at the end of the session", k), replay)
		}
		c.rep.Dist("reuse:cosi.Verify/earlier-results-rechecked")
	}
	c.rep.Dist(fmt.Sprintf("cosi-session:real=%v", real))
}

type edSuite struct {
	*edwards25519.SuiteEd25519
	rnd cipher.Stream
}

func (s *edSuite) RandomStream() cipher.Stream { return s.rnd }

// ---------------------------------------------------------------- main

func main() {
	o := vh.ParseFlags()
	rep := vh.NewReport("C09", o.Seed, o.Tier)
	rep.Rule = "scenarios over the transparent dlog pairing suite (exact values) and the 8 real (suite, signature group) combinations (verdicts, byte equalities): BLS sign/verify matrices over keys x messages x honest/tampered/garbage signatures; threshold BLS for all (t,n), 2<=t<=n<=6, every t-subset for n<=5 in random order with injected duplicates / other-message / wrong-index / garbage / truncated / beyond-n / scaled / identity partials; BDN masks over 1..10 cosigners built by NewMask with and without own key followed by every SetBit/SetMask/Merge/Clone kind sequence of length <=4, aggregation, verification under the same mask, another mask and another message; BDN sessions in which several mask objects sharing one NewMask (base mask, clones, further NewMask results over the same key slice) are reused for 6..20 interleaved SetBit/SetMask/Merge/Clone/AggregatePublicKeys/AggregateSignatures/Verify calls with every call observed; one sharing polynomial / PubPoly reused by all Recover scenarios of a (t,n), each Recover repeated in another order; every aggregation / recovery function (cosi.AggregateCommitments, AggregateResponses, AggregateMasks, bdn.AggregateSignatures, AggregatePublicKeys, tbls.Recover) is called several times on the same caller-owned objects and on overlapping sub-slices (prefix, whole, whole again) inside sessions that keep masks, key lists, commitments and responses alive over several rounds; buffers handed in (messages, signatures, mask bytes, partial signatures) are overwritten after the call and earlier results re-checked; one message buffer (same backing array, offset and length, or resliced), one signature buffer and one key point object refilled IN PLACE with new content before each call to bls / tbls / bdn / cosi Sign, Verify, VerifyPartial, Recover, with the verdicts and values required for the current content (signature on the previous content rejected, genuine one accepted, Sign equal to x*H(current message) computed without the scheme object); lists longer than n with all junk and duplicates before the valid partials; after every call the values it only reads (keys, coefficients, terms, commitments, signatures, messages) are compared with their fingerprint before it; CoSi mask operation sequences and signed/tampered collective signatures under nil/Complete/Threshold policies. distinct = distinct scenario text; non-trivial = at least one accepted verification / one partial / one mask operation"
	cf := &vh.CaseFile{Header: "From Kyber Require Import MSig.MSigSM MSig.MSigRun.", Type: "case", Runner: "mismatches"}
	c := &ctx{rep: rep, cf: cf, search: o.Search}
	r := vh.NewRng(o.Seed)
	scale := 1
	if o.Thorough {
		scale = 4
	}
	if o.Search {
		scale *= 3
	}
	des := dlogEnvs()
	res := realEnvs()

	// BLS
	for _, e := range des {
		for k := 0; k < 12*scale; k++ {
			blsCase(c, e, r.Fork())
		}
	}
	for _, e := range res {
		for k := 0; k < 2*scale; k++ {
			blsCase(c, e, r.Fork())
		}
	}
	// threshold BLS
	maxN := 6
	if o.Thorough {
		maxN = 8
	}
	for _, e := range des {
		tblsAll(c, e, r.Fork(), maxN, 5, 3*scale)
	}
	for _, e := range res {
		all := 4
		if o.Thorough || o.Search {
			all = 5
		}
		tblsAll(c, e, r.Fork(), maxN, all, scale)
	}
	// BDN: every kind sequence of length <= 4 over the dlog suite, with and without own key
	for gi, e := range des {
		for _, ks := range kindSeqs(4) {
			for own := 0; own < 2; own++ {
				if (len(ks) == 4) && (own+gi)%2 == 1 && !o.Thorough { // halve the longest class in the quick tier
					continue
				}
				bdnCase(c, e, r.Fork(), 1+r.Intn(10), own, ks)
			}
		}
		for k := 0; k < 6*scale; k++ {
			bdnCase(c, e, r.Fork(), 1+r.Intn(10), 2, nil)
		}
	}
	seqs := kindSeqs(4)
	for _, e := range res {
		for k := 0; k < 8*scale; k++ {
			own := k % 2
			if k == 7 {
				own = 2
			}
			bdnCase(c, e, r.Fork(), 1+r.Intn(10), own, seqs[r.Intn(len(seqs))])
		}
	}
	// BDN sessions: masks sharing one NewMask, reused for many aggregations
	for _, e := range des {
		for k := 0; k < 40*scale; k++ {
			bdnSession(c, e, r.Fork(), 1+r.Intn(10), 6+r.Intn(14))
		}
	}
	for _, e := range res {
		for k := 0; k < 2*scale; k++ {
			bdnSession(c, e, r.Fork(), 1+r.Intn(10), 6+r.Intn(8))
		}
	}
	// one message / signature buffer and key object refilled in place before every call
	for _, e := range des {
		for k := 0; k < 6*scale; k++ {
			inplaceSession(c, e, r.Fork())
		}
	}
	for _, e := range res {
		for k := 0; k < scale; k++ {
			inplaceSession(c, e, r.Fork())
		}
	}
	for k := 0; k < 8*scale; k++ {
		cosiInplace(c, r.Fork(), k%4 == 3)
	}
	// CoSi
	for k := 0; k < 60*scale; k++ {
		cosiMaskCase(c, r.Fork(), r.Intn(31))
	}
	for k := 0; k < 150*scale; k++ {
		cosiVerifyCase(c, r.Fork(), false)
	}
	for k := 0; k < 40*scale; k++ {
		cosiVerifyCase(c, r.Fork(), true)
	}
	for k := 0; k < 25*scale; k++ {
		cosiSession(c, r.Fork(), false)
	}
	for k := 0; k < 10*scale; k++ {
		cosiSession(c, r.Fork(), true)
	}

	if !o.Search {
		vh.WriteShards(o.Out, "c09", cf, 120, rep)
	}
	rep.Write(o.Out)
	if len(rep.Failures) > 0 {
		fmt.Fprintf(os.Stderr, "c09: %d oracle failures\n", len(rep.Failures))
	}
}
