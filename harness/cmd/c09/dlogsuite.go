package main

// A transparent pairing suite: points of G1, G2 and GT are represented by their
// discrete logarithms modulo Q61 (kyber's own mod.Int), the pairing multiplies
// the logarithms, Hash maps a message to a logarithm derived with SHA-256.
// It exists to drive kyber's *generic* bls / tbls / bdn code so that every
// value is known exactly and can be compared with the Coq model, which models
// groups in exactly this way (Algebra/Grp.v).  It is of course not secure.

import (
	"crypto/cipher"
	"crypto/sha256"
	"errors"
	"fmt"
	"hash"
	"io"
	"math/big"
	"reflect"

	"go.dedis.ch/fixbuf"
	"go.dedis.ch/kyber/v4"
	"go.dedis.ch/kyber/v4/compatible"
	"go.dedis.ch/kyber/v4/compatible/compatiblemod"
	"go.dedis.ch/kyber/v4/group/mod"
	"go.dedis.ch/kyber/v4/util/random"
	"go.dedis.ch/kyber/v4/xof/blake2xb"

	"kyverif/vh"
)

type dGroup struct {
	name string
	tag  byte
	q    *big.Int
	m    *compatiblemod.Mod
}

func newDGroup(name string, tag byte) *dGroup {
	return &dGroup{name: name, tag: tag, q: vh.Q61, m: compatiblemod.FromBigInt(vh.Q61)}
}

func (g *dGroup) String() string       { return "dlog." + g.name }
func (g *dGroup) ScalarLen() int       { return (g.q.BitLen() + 7) / 8 }
func (g *dGroup) Scalar() kyber.Scalar { return mod.NewInt64(0, g.m) }
func (g *dGroup) PointLen() int        { return (g.q.BitLen()+7)/8 + 1 }
func (g *dGroup) Point() kyber.Point   { return &dPoint{v: mod.NewInt64(0, g.m), g: g} }
func (g *dGroup) mk(v *big.Int) *mod.Int {
	return mod.NewInt(compatible.FromBigInt(new(big.Int).Mod(v, g.q), g.m), g.m)
}
func (g *dGroup) pointOf(v *big.Int) kyber.Point { return &dPoint{v: g.mk(v), g: g} }

type dPoint struct {
	v *mod.Int
	g *dGroup
}

func dl(p kyber.Point) *big.Int { return vh.ScalarVal(p.(*dPoint).v) }

func (p *dPoint) String() string           { return fmt.Sprintf("%s:%s", p.g.name, p.v.String()) }
func (p *dPoint) Equal(q kyber.Point) bool { return p.v.Equal(q.(*dPoint).v) }
func (p *dPoint) Null() kyber.Point        { p.v.Zero(); return p }
func (p *dPoint) Base() kyber.Point        { p.v.One(); return p }
func (p *dPoint) Pick(rand cipher.Stream) kyber.Point {
	p.v.Pick(rand)
	return p
}
func (p *dPoint) Set(q kyber.Point) kyber.Point { p.v.Set(q.(*dPoint).v); return p }
func (p *dPoint) Clone() kyber.Point            { return &dPoint{v: p.v.Clone().(*mod.Int), g: p.g} }
func (p *dPoint) EmbedLen() int                 { return 0 }
func (p *dPoint) Embed(data []byte, r cipher.Stream) kyber.Point {
	return p.Pick(r)
}
func (p *dPoint) Data() ([]byte, error) { return nil, errors.New("no data") }
func (p *dPoint) Add(a, b kyber.Point) kyber.Point {
	p.v.Add(a.(*dPoint).v, b.(*dPoint).v)
	return p
}
func (p *dPoint) Sub(a, b kyber.Point) kyber.Point {
	p.v.Sub(a.(*dPoint).v, b.(*dPoint).v)
	return p
}
func (p *dPoint) Neg(a kyber.Point) kyber.Point { p.v.Neg(a.(*dPoint).v); return p }
func (p *dPoint) Mul(s kyber.Scalar, a kyber.Point) kyber.Point {
	sv := p.g.mk(vh.ScalarVal(s))
	if a == nil {
		p.v.Set(sv)
		return p
	}
	p.v.Mul(sv, a.(*dPoint).v)
	return p
}

// Hash implements kyber.HashablePoint: a logarithm derived from the message.
func (p *dPoint) Hash(msg []byte) kyber.Point {
	h := sha256.New()
	h.Write([]byte("dlog-hash-to-group"))
	h.Write([]byte{p.g.tag})
	h.Write(msg)
	p.v.Set(p.g.mk(new(big.Int).SetBytes(h.Sum(nil))))
	return p
}

func (p *dPoint) MarshalSize() int { return p.g.PointLen() }
func (p *dPoint) MarshalBinary() ([]byte, error) {
	b, err := p.v.MarshalBinary()
	if err != nil {
		return nil, err
	}
	return append([]byte{p.g.tag}, b...), nil
}
func (p *dPoint) UnmarshalBinary(b []byte) error {
	if len(b) != p.MarshalSize() || b[0] != p.g.tag {
		return errors.New("dlog point: invalid encoding")
	}
	return p.v.UnmarshalBinary(b[1:])
}
func (p *dPoint) MarshalTo(w io.Writer) (int, error) {
	b, _ := p.MarshalBinary()
	return w.Write(b)
}
func (p *dPoint) UnmarshalFrom(r io.Reader) (int, error) {
	buf := make([]byte, p.MarshalSize())
	n, err := io.ReadFull(r, buf)
	if err != nil {
		return n, err
	}
	return n, p.UnmarshalBinary(buf)
}

type dSuite struct {
	g1, g2, gt *dGroup
}

func newDSuite() *dSuite {
	return &dSuite{g1: newDGroup("G1", 0x11), g2: newDGroup("G2", 0x12), gt: newDGroup("GT", 0x13)}
}

func (s *dSuite) G1() kyber.Group { return s.g1 }
func (s *dSuite) G2() kyber.Group { return s.g2 }
func (s *dSuite) GT() kyber.Group { return s.gt }
func (s *dSuite) Pair(p1, p2 kyber.Point) kyber.Point {
	r := s.gt.Point().(*dPoint)
	r.v.Mul(p1.(*dPoint).v, p2.(*dPoint).v)
	return r
}
func (s *dSuite) ValidatePairing(p1, p2, inv1, inv2 kyber.Point) bool {
	return s.Pair(p1, p2).Equal(s.Pair(inv1, inv2))
}
func (s *dSuite) Hash() hash.Hash                      { return sha256.New() }
func (s *dSuite) XOF(key []byte) kyber.XOF             { return blake2xb.New(key) }
func (s *dSuite) Read(r io.Reader, objs ...any) error  { return fixbuf.Read(r, s, objs...) }
func (s *dSuite) Write(w io.Writer, objs ...any) error { return fixbuf.Write(w, objs...) }
func (s *dSuite) New(t reflect.Type) any               { return nil }
func (s *dSuite) RandomStream() cipher.Stream          { return random.New() }
