//go:build !constantTime

package main

import (
	"fmt"

	"go.dedis.ch/kyber/v4"
	"go.dedis.ch/kyber/v4/group/edwards25519vartime"
	"go.dedis.ch/kyber/v4/group/p256"
	"go.dedis.ch/kyber/v4/pairing"
	"go.dedis.ch/kyber/v4/pairing/bls12381/gnark"
	"go.dedis.ch/kyber/v4/pairing/bls12381/kilic"
	"go.dedis.ch/kyber/v4/pairing/bn254"
	"go.dedis.ch/kyber/v4/pairing/bn256"
	"go.dedis.ch/kyber/v4/sign/bls"
)

func extra(seed uint64, n int) {
	groupProgram("extra/p256", p256.NewBlakeSHA256P256(), seed, n)
	groupProgram("extra/qr512", p256.NewBlakeSHA256QR512(), seed, n/4+1)
	groupProgram("extra/ed25519vartime", edwards25519vartime.NewBlakeSHA256Ed25519(false), seed, n)
	historyProgram("extra/history/p256", p256.NewBlakeSHA256P256(), seed, 40)
	historyProgram("extra/history/qr512", p256.NewBlakeSHA256QR512(), seed, 16)
	historyProgram("extra/history/ed25519vartime", edwards25519vartime.NewBlakeSHA256Ed25519(false), seed, 40)
	for _, ps := range []struct {
		name string
		s    pairing.Suite
	}{{"bn256", bn256.NewSuite()}, {"bn254", bn254.NewSuite()}, {"kilic", kilic.NewBLS12381Suite()}, {"gnark", gnark.NewSuiteBLS12381()}} {
		groupProgram("extra/"+ps.name+".G1", ps.s.G1(), seed, n/2+1)
		groupProgram("extra/"+ps.name+".G2", ps.s.G2(), seed, n/4+1)
		historyProgram("extra/history/"+ps.name+".G1", ps.s.G1(), seed, 30)
		historyProgram("extra/history/"+ps.name+".G2", ps.s.G2(), seed, 16)
		for i := 0; i < n/4+1; i++ {
			msg := []byte(fmt.Sprintf("message %d/%d", i, seed))
			a := mkScalar(ps.s.G1(), edge(5+8*i, order(ps.s.G1()), seed))
			P := ps.s.G1().Point().Mul(a, nil)
			Q := ps.s.G2().Point().Mul(a, nil)
			emit(fmt.Sprintf("extra/%s/pair/%d", ps.name, i), enc(ps.s.Pair(P, Q)))
			if h, ok := ps.s.G1().Point().(interface{ Hash([]byte) kyber.Point }); ok {
				emit(fmt.Sprintf("extra/%s/hashG1/%d", ps.name, i), enc(h.Hash(msg)))
			}
			sg, err := bls.NewSchemeOnG1(ps.s).Sign(a, msg)
			emit(fmt.Sprintf("extra/%s/blsG1/%d/%v", ps.name, i, err != nil), sg)
		}
	}
}
