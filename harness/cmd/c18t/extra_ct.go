//go:build constantTime

package main

func extra(seed uint64, n int) {}
