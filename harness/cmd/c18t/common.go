// c18t prints a deterministic transcript of group / scalar / signature
// computations, one "label: hex" line each. It is built under several build-tag
// sets (default, generic, constantTime); the transcripts must be identical
// (lines starting with "common/" exist in every variant).
package main

import (
	"crypto/sha256"
	"fmt"
	"math/big"
	"os"
	"sort"

	"go.dedis.ch/kyber/v4"
	"go.dedis.ch/kyber/v4/group/edwards25519"
	"go.dedis.ch/kyber/v4/pairing/bls12381/circl"
	"go.dedis.ch/kyber/v4/share"
	"go.dedis.ch/kyber/v4/sign/bls"
	"go.dedis.ch/kyber/v4/sign/eddsa"
	"go.dedis.ch/kyber/v4/sign/schnorr"
	"go.dedis.ch/kyber/v4/xof/blake2xb"
)

var lines []string

func emit(label string, b []byte) { lines = append(lines, fmt.Sprintf("%s: %x", label, b)) }

// tryEmit records the encoding produced by f, or the fact that the operation is unsupported.
func tryEmit(label string, f func() []byte) {
	defer func() {
		if e := recover(); e != nil {
			lines = append(lines, fmt.Sprintf("%s: PANIC %v", label, e))
		}
	}()
	emit(label, f())
}

func enc(m interface{ MarshalBinary() ([]byte, error) }) []byte {
	b, err := m.MarshalBinary()
	if err != nil {
		return []byte("ERR:" + err.Error())
	}
	return b
}

type seeded struct{ x kyber.XOF }

func (s *seeded) XORKeyStream(dst, src []byte) { s.x.XORKeyStream(dst, src) }
func stream(label string, seed uint64) *seeded {
	h := sha256.Sum256([]byte(fmt.Sprintf("%s/%d", label, seed)))
	return &seeded{blake2xb.New(h[:])}
}

func edge(i int, q *big.Int, seed uint64) *big.Int {
	one := big.NewInt(1)
	switch i % 8 {
	case 0:
		return big.NewInt(int64(i / 8 % 3))
	case 1:
		return new(big.Int).Sub(q, big.NewInt(int64(1+i/8%2)))
	case 2:
		v := new(big.Int).Lsh(one, uint(i*7%q.BitLen()))
		return v.Mod(v, q)
	case 3:
		v := new(big.Int).Lsh(one, uint(i*11%q.BitLen()))
		v.Sub(v, one)
		return v.Mod(v, q)
	}
	h := sha256.Sum256([]byte(fmt.Sprintf("edge/%d/%d", i, seed)))
	h2 := sha256.Sum256(h[:])
	v := new(big.Int).SetBytes(append(h[:], h2[:]...))
	return v.Mod(v, q)
}

func order(g kyber.Group) *big.Int {
	m1 := g.Scalar().Neg(g.Scalar().One())
	b, _ := m1.MarshalBinary()
	if m1.ByteOrder() == kyber.LittleEndian {
		for i, j := 0, len(b)-1; i < j; i, j = i+1, j-1 {
			b[i], b[j] = b[j], b[i]
		}
	}
	return new(big.Int).Add(new(big.Int).SetBytes(b), big.NewInt(1))
}

func mkScalar(g kyber.Group, v *big.Int) kyber.Scalar {
	s := g.Scalar()
	b := v.Bytes()
	if s.ByteOrder() == kyber.LittleEndian {
		for i, j := 0, len(b)-1; i < j; i, j = i+1, j-1 {
			b[i], b[j] = b[j], b[i]
		}
	}
	if len(b) == 0 {
		return s.Zero()
	}
	return s.SetBytes(b)
}

// groupProgram: a fixed straight-line computation over one group.
func groupProgram(prefix string, g kyber.Group, seed uint64, n int) {
	q := order(g)
	acc := g.Point().Null()
	sacc := g.Scalar().One()
	for i := 0; i < n; i++ {
		k := edge(i, q, seed)
		s := mkScalar(g, k)
		emit(fmt.Sprintf("%s/scalar/%d", prefix, i), enc(s))
		p := g.Point().Mul(s, nil)
		emit(fmt.Sprintf("%s/mulbase/%d", prefix, i), enc(p))
		acc = g.Point().Add(acc, p)
		emit(fmt.Sprintf("%s/acc/%d", prefix, i), enc(acc))
		r := g.Point().Mul(s, acc)
		emit(fmt.Sprintf("%s/mul/%d", prefix, i), enc(r))
		emit(fmt.Sprintf("%s/sub/%d", prefix, i), enc(g.Point().Sub(r, p)))
		emit(fmt.Sprintf("%s/neg/%d", prefix, i), enc(g.Point().Neg(r)))
		sacc = g.Scalar().Add(g.Scalar().Mul(sacc, s), g.Scalar().One())
		emit(fmt.Sprintf("%s/sacc/%d", prefix, i), enc(sacc))
		if k.Sign() != 0 {
			emit(fmt.Sprintf("%s/sinv/%d", prefix, i), enc(g.Scalar().Inv(s)))
			emit(fmt.Sprintf("%s/sdiv/%d", prefix, i), enc(g.Scalar().Div(sacc, s)))
		}
		emit(fmt.Sprintf("%s/sneg/%d", prefix, i), enc(g.Scalar().Neg(sacc)))
		emit(fmt.Sprintf("%s/pick/%d", prefix, i), enc(g.Scalar().Pick(stream(prefix+"/pick", seed+uint64(i)))))
		tryEmit(fmt.Sprintf("%s/ppick/%d", prefix, i), func() []byte { return enc(g.Point().Pick(stream(prefix+"/ppick", seed+uint64(i)))) })
		data := []byte(fmt.Sprintf("d%d", i))
		tryEmit(fmt.Sprintf("%s/embed/%d", prefix, i), func() []byte { return enc(g.Point().Embed(data, stream(prefix+"/embed", seed+uint64(i)))) })
	}
}

// rawStream delivers the given bytes, then the filler 0x01.
type rawStream struct {
	buf []byte
	pos int
}

func (s *rawStream) XORKeyStream(dst, src []byte) {
	for i := range src {
		b := byte(0x01)
		if s.pos < len(s.buf) {
			b = s.buf[s.pos]
		}
		s.pos++
		dst[i] = src[i] ^ b
	}
}

// historyProgram: a pseudo-random straight-line program in which receivers are
// existing objects (values overwritten in place, re-decoded in place, set on
// used receivers), operands alias receivers, and payload/byte lengths sit at
// boundaries. Every object is printed at the end.
func historyProgram(prefix string, g kyber.Group, seed uint64, n int) {
	st := seed*0x9E3779B97F4A7C15 + 0xabcdef
	for _, c := range []byte(prefix) {
		st = st*31 + uint64(c)
	}
	rnd := func(m int) int {
		st += 0x9E3779B97F4A7C15
		z := st
		z = (z ^ (z >> 30)) * 0xBF58476D1CE4E5B9
		z = (z ^ (z >> 27)) * 0x94D049BB133111EB
		z ^= z >> 31
		return int(z % uint64(m))
	}
	q := order(g)
	var sc []kyber.Scalar
	var pt []kyber.Point
	for i := 0; i < 4; i++ {
		sc = append(sc, mkScalar(g, edge(rnd(64), q, seed)))
		pt = append(pt, g.Point().Mul(sc[i], nil))
	}
	for i := 0; i < n; i++ {
		a, b, d := rnd(len(sc)), rnd(len(sc)), rnd(len(sc))
		pa, pb, pd := rnd(len(pt)), rnd(len(pt)), rnd(len(pt))
		label := fmt.Sprintf("%s/step/%03d", prefix, i)
		func() {
			defer func() {
				if r := recover(); r != nil {
					emit(label+"/panic", []byte(fmt.Sprint(r)))
				}
			}()
			switch rnd(16) {
			case 0:
				sc[d].Add(sc[a], sc[b])
			case 1:
				sc[d].Sub(sc[a], sc[b])
			case 2:
				sc[d].Mul(sc[a], sc[b])
			case 3:
				sc[d].Neg(sc[a])
			case 4:
				if !sc[b].Equal(g.Scalar().Zero()) {
					sc[d].Div(sc[a], sc[b])
				}
			case 5:
				if !sc[a].Equal(g.Scalar().Zero()) {
					sc[d].Inv(sc[a])
				}
			case 6:
				sc[d].SetInt64(int64(rnd(5)) - 2)
			case 7:
				bb, _ := sc[a].MarshalBinary()
				_ = sc[d].UnmarshalBinary(bb)
			case 8:
				if rnd(3) == 0 {
					// inputs longer than the modulus, up to and beyond 64 bytes
					long := make([]byte, []int{33, 63, 64, 65, 66 + rnd(40)}[rnd(5)])
					for j := range long {
						long[j] = byte(rnd(256))
					}
					sc[d].SetBytes(long)
				} else {
					sc[d].SetBytes(edge(rnd(64), q, seed).Bytes())
				}
			case 9:
				pt[pd].Add(pt[pa], pt[pb])
			case 10:
				pt[pd].Sub(pt[pa], pt[pb])
			case 11:
				pt[pd].Neg(pt[pa])
			case 12:
				pt[pd].Mul(sc[a], pt[pa])
			case 13:
				pt[pd].Mul(sc[a], nil)
			case 14:
				bb, _ := pt[pa].MarshalBinary()
				_ = pt[pd].UnmarshalBinary(bb)
			default:
				l := pt[pd].EmbedLen()
				ln := []int{0, 1, l, l - 1, rnd(l + 1)}[rnd(5)]
				data := make([]byte, ln, ln+1)
				for j := range data {
					data[j] = byte(rnd(256))
				}
				pt[pd].Embed(data, stream(label, seed))
				dd, err := pt[pd].Data()
				emit(label+fmt.Sprintf("/data/%v", err != nil), dd)
			}
		}()
	}
	// Pick at the rejection boundary: the stream delivers exactly q-1, q, q+1 (then filler)
	for d := int64(-1); d <= 1; d++ {
		v := new(big.Int).Add(q, big.NewInt(d))
		raw := v.FillBytes(make([]byte, (q.BitLen()+7)/8))
		func() {
			defer func() {
				if r := recover(); r != nil {
					emit(fmt.Sprintf("%s/pick-boundary/%d/panic", prefix, d), []byte(fmt.Sprint(r)))
				}
			}()
			emit(fmt.Sprintf("%s/pick-boundary/%d", prefix, d), enc(g.Scalar().Pick(&rawStream{buf: raw})))
		}()
	}
	for i, s := range sc {
		emit(fmt.Sprintf("%s/final/s%d", prefix, i), enc(s))
	}
	for i, p := range pt {
		emit(fmt.Sprintf("%s/final/P%d", prefix, i), enc(p))
	}
}

func common(seed uint64, n int) {
	ed := edwards25519.NewBlakeSHA256Ed25519()
	groupProgram("common/ed25519", ed, seed, n)
	for k := 0; k < n/2+1; k++ {
		historyProgram(fmt.Sprintf("common/history/ed25519/%d", k), ed, seed+uint64(k), 40)
	}
	cs := circl.NewSuiteBLS12381()
	historyProgram("common/history/circl.G1", cs.G1(), seed, 30)
	historyProgram("common/history/circl.G2", cs.G2(), seed, 20)
	groupProgram("common/circl.G1", cs.G1(), seed, n/2+1)
	groupProgram("common/circl.G2", cs.G2(), seed, n/4+1)
	for i := 0; i < n/4+1; i++ {
		msg := []byte(fmt.Sprintf("message %d/%d", i, seed))
		a := mkScalar(cs.G1(), edge(5+8*i, order(cs.G1()), seed))
		P := cs.G1().Point().Mul(a, nil)
		Q := cs.G2().Point().Mul(a, nil)
		emit(fmt.Sprintf("common/circl/pair/%d", i), enc(cs.Pair(P, Q)))
		if h, ok := cs.G1().Point().(interface{ Hash([]byte) kyber.Point }); ok {
			emit(fmt.Sprintf("common/circl/hashG1/%d", i), enc(h.Hash(msg)))
		}
		if h, ok := cs.G2().Point().(interface{ Hash([]byte) kyber.Point }); ok {
			emit(fmt.Sprintf("common/circl/hashG2/%d", i), enc(h.Hash(msg)))
		}
		sg, err := bls.NewSchemeOnG1(cs).Sign(a, msg)
		emit(fmt.Sprintf("common/circl/blsG1/%d/%v", i, err != nil), sg)
		sg, err = bls.NewSchemeOnG2(cs).Sign(a, msg)
		emit(fmt.Sprintf("common/circl/blsG2/%d/%v", i, err != nil), sg)
		// Schnorr with a deterministic nonce stream, EdDSA, Shamir sharing
		suite := edwards25519.NewBlakeSHA256Ed25519WithRand(stream("schnorr", seed+uint64(i)))
		x := mkScalar(suite, edge(4+8*i, order(suite), seed))
		sig, err := schnorr.Sign(suite, x, msg)
		emit(fmt.Sprintf("common/schnorr/%d/%v", i, err != nil), sig)
		e := eddsa.NewEdDSA(stream("eddsa", seed+uint64(i)))
		emit(fmt.Sprintf("common/eddsa/pub/%d", i), enc(e.Public))
		es, err := e.Sign(msg)
		emit(fmt.Sprintf("common/eddsa/sig/%d/%v", i, err != nil), es)
		poly := share.NewPriPoly(suite, 3, x, stream("poly", seed+uint64(i)))
		for _, sh := range poly.Shares(5) {
			emit(fmt.Sprintf("common/share/%d/%d", i, sh.I), enc(sh.V))
		}
		sec, err := share.RecoverSecret(suite, poly.Shares(5)[1:4], 3, 5)
		if err == nil {
			emit(fmt.Sprintf("common/recover/%d", i), enc(sec))
		}
	}
}

func main() {
	seed, n := uint64(1), 12
	if len(os.Args) > 1 {
		fmt.Sscan(os.Args[1], &seed)
	}
	if len(os.Args) > 2 {
		fmt.Sscan(os.Args[2], &n)
	}
	common(seed, n)
	extra(seed, n)
	sort.Strings(lines)
	for _, l := range lines {
		fmt.Println(l)
	}
}
