// Correspondence + oracle harness for property C14 (package proof: Sigma
// protocols over And / Or-of-And of representation statements, Fiat-Shamir
// and deniable contexts).
//
// Correspondence: kyber's generic proof code is driven over vh.DlogGroup
// (points = discrete logarithms mod 2^61-1) with a recording random stream; the
// Coq model (Sigma/SigmaSM.v) is given the predicate, the assignment, the
// scalars the prover drew and a challenge table computed HERE from the
// specification of proof/hash.go (XOF(name); Reseed; Write(all prover bytes so
// far)), and must reproduce the exact proof bytes and every verdict class.
// Oracles: the property is evaluated directly over the dlog group, Ed25519,
// P-256 and BN256-G1.
package main

import (
	"bytes"
	"crypto/cipher"
	"fmt"
	"math/big"
	"strings"
	"time"

	"go.dedis.ch/kyber/v4"
	"go.dedis.ch/kyber/v4/group/edwards25519"
	"go.dedis.ch/kyber/v4/group/p256"
	"go.dedis.ch/kyber/v4/pairing/bn256"
	"go.dedis.ch/kyber/v4/proof"
	"go.dedis.ch/kyber/v4/util/random"
	"golang.org/x/crypto/blake2b"

	"kyverif/vh"
)

// ---------------------------------------------------------------- suites

type suiteT struct {
	name string
	s    proof.Suite
	dlog bool
}

func (S *suiteT) withStream(st cipher.Stream) proof.Suite {
	if S.dlog {
		return vh.NewDlogGroup(vh.Q61, st)
	}
	return S.s
}

// ---------------------------------------------------------------- predicate trees

const (
	kRep = iota
	kAnd
	kOr
)

type node struct {
	kind int
	P    int      // Rep: public point id
	T    [][2]int // Rep: (scalar id, base point id)
	subs []*node
	id   int // Or identity
	pred proof.Predicate
}

func pname(i int) string { return fmt.Sprintf("P%d", i) }
func sname(i int) string { return fmt.Sprintf("x%d", i) }

func (n *node) clone() *node {
	m := &node{kind: n.kind, P: n.P, id: n.id}
	for _, t := range n.T {
		m.T = append(m.T, t)
	}
	for _, s := range n.subs {
		m.subs = append(m.subs, s.clone())
	}
	return m
}

// build creates fresh kyber Predicate objects for the tree (stored in n.pred).
func (n *node) build() proof.Predicate {
	switch n.kind {
	case kRep:
		var sb []string
		for _, t := range n.T {
			sb = append(sb, sname(t[0]), pname(t[1]))
		}
		n.pred = proof.Rep(pname(n.P), sb...)
	case kAnd:
		var ps []proof.Predicate
		for _, s := range n.subs {
			ps = append(ps, s.build())
		}
		n.pred = proof.And(ps...)
	default:
		var ps []proof.Predicate
		for _, s := range n.subs {
			ps = append(ps, s.build())
		}
		n.pred = proof.Or(ps...)
	}
	return n.pred
}

func (n *node) coq() string {
	switch n.kind {
	case kRep:
		var ts []string
		for _, t := range n.T {
			ts = append(ts, fmt.Sprintf("(%d,%d)", t[0], t[1]))
		}
		return fmt.Sprintf("Rep %d %s", n.P, vh.CoqList(ts))
	case kAnd:
		var ss []string
		for _, s := range n.subs {
			ss = append(ss, "("+s.coq()+")")
		}
		return "And " + vh.CoqList(ss)
	}
	var ss []string
	for _, s := range n.subs {
		ss = append(ss, "("+s.coq()+")")
	}
	return fmt.Sprintf("Or %d %s", n.id, vh.CoqList(ss))
}

func (n *node) walk(f func(*node)) {
	f(n)
	for _, s := range n.subs {
		s.walk(f)
	}
}
func (n *node) reps() []*node {
	var r []*node
	n.walk(func(m *node) {
		if m.kind == kRep {
			r = append(r, m)
		}
	})
	return r
}
func (n *node) ors() []*node {
	var r []*node
	n.walk(func(m *node) {
		if m.kind == kOr {
			r = append(r, m)
		}
	})
	return r
}

// scope variables (not descending into Or)
func (n *node) scopeVars(seen map[int]bool) {
	switch n.kind {
	case kRep:
		for _, t := range n.T {
			seen[t[0]] = true
		}
	case kAnd:
		for _, s := range n.subs {
			s.scopeVars(seen)
		}
	}
}

// layout of the scalar part of a proof, in transmission order (well-formed trees)
func (n *node) layout(out *[]string) {
	if n.kind == kOr {
		if len(n.subs) > 1 {
			for range n.subs {
				*out = append(*out, "subchallenge")
			}
		}
		for _, s := range n.subs {
			s.layout(out)
		}
		return
	}
	seen := map[int]bool{}
	n.scopeVars(seen)
	for range seen {
		*out = append(*out, "response")
	}
}

func (n *node) shapeKey() string {
	switch n.kind {
	case kRep:
		return fmt.Sprintf("R%d", len(n.T))
	case kAnd:
		var s []string
		for _, x := range n.subs {
			s = append(s, x.shapeKey())
		}
		return "A(" + strings.Join(s, "") + ")"
	}
	var s []string
	for _, x := range n.subs {
		s = append(s, x.shapeKey())
	}
	return "O(" + strings.Join(s, "") + ")"
}

// ---------------------------------------------------------------- instances

type inst struct {
	S      *suiteT
	root   *node
	ptv    map[int]kyber.Point
	scv    map[int]kyber.Scalar
	choice map[int]int // Or id -> branch
	bases  []int
	nsec   int
	nextPt int
	nextOr int
	oblRep []*node // Rep nodes on the proof-obligated path
	oblOr  []*node
	allTru bool // every Rep of the tree is true
}

func (in *inst) randScalar(r *vh.Rng) kyber.Scalar {
	return in.S.s.Scalar().Pick(&rngStream{r})
}
func (in *inst) nonzeroScalar(r *vh.Rng) kyber.Scalar {
	z := in.S.s.Scalar().Zero()
	for {
		x := in.randScalar(r)
		if !x.Equal(z) {
			return x
		}
	}
}

type rngStream struct{ r *vh.Rng }

func (s *rngStream) XORKeyStream(dst, src []byte) {
	k := s.r.Bytes(len(src))
	for i := range src {
		dst[i] = src[i] ^ k[i]
	}
}

func (in *inst) degenerate() bool {
	null := in.S.s.Point().Null()
	for _, rp := range in.root.reps() {
		if in.ptv[rp.P].Equal(null) {
			return true
		}
	}
	return false
}

func (in *inst) repValue(n *node) kyber.Point {
	g := in.S.s
	acc := g.Point().Null()
	for _, t := range n.T {
		acc.Add(acc, g.Point().Mul(in.scv[t[0]], in.ptv[t[1]]))
	}
	return acc
}

func (in *inst) genRep(r *vh.Rng, truthful bool, obl bool) *node {
	n := &node{kind: kRep}
	nt := 1 + r.Intn(3)
	for i := 0; i < nt; i++ {
		n.T = append(n.T, [2]int{1 + r.Intn(in.nsec), in.bases[r.Intn(len(in.bases))]})
	}
	n.P = in.nextPt
	in.nextPt++
	v := in.repValue(n)
	if !truthful {
		g := in.S.s
		v.Add(v, g.Point().Mul(in.nonzeroScalar(r), nil))
		in.allTru = false
	}
	in.ptv[n.P] = v
	if obl {
		in.oblRep = append(in.oblRep, n)
	}
	return n
}

// truth: 0 = every Rep true, 1 = each Rep true with probability 1/2
func (in *inst) genScope(r *vh.Rng, depth int, truth int, obl bool) *node {
	if r.Chance(35) {
		return in.genRep(r, truth == 0 || r.Bool(), obl)
	}
	n := &node{kind: kAnd}
	k := 1 + r.Intn(4)
	for i := 0; i < k; i++ {
		if depth < 2 && r.Chance(15) {
			n.subs = append(n.subs, in.genScope(r, depth+1, truth, obl))
		} else {
			n.subs = append(n.subs, in.genRep(r, truth == 0 || r.Bool(), obl))
		}
	}
	return n
}

func (in *inst) genOr(r *vh.Rng, depth int, obl bool, forceTrue bool) *node {
	n := &node{kind: kOr, id: in.nextOr}
	in.nextOr++
	k := 1 + r.Intn(4)
	ch := r.Intn(k)
	if obl || r.Chance(30) {
		in.choice[n.id] = ch
	}
	if obl {
		in.oblOr = append(in.oblOr, n)
	}
	for i := 0; i < k; i++ {
		o := obl && i == ch
		if depth < 1 && r.Chance(12) {
			n.subs = append(n.subs, in.genOr(r, depth+1, o, forceTrue))
		} else {
			truth := 1
			if o || forceTrue || r.Chance(35) {
				truth = 0
			}
			n.subs = append(n.subs, in.genScope(r, 0, truth, o))
		}
	}
	return n
}

func newInst(S *suiteT, r *vh.Rng) *inst {
	in := &inst{S: S, ptv: map[int]kyber.Point{}, scv: map[int]kyber.Scalar{}, choice: map[int]int{}, allTru: true}
	in.nsec = 1 + r.Intn(5)
	for i := 1; i <= in.nsec; i++ {
		if r.Chance(8) {
			in.scv[i] = S.s.Scalar().SetInt64(int64(r.Intn(2)))
		} else {
			in.scv[i] = in.randScalar(r)
		}
	}
	nb := 1 + r.Intn(3)
	for i := 0; i < nb; i++ {
		id := 100 + i
		if i == 0 {
			in.ptv[id] = S.s.Point().Base()
		} else {
			in.ptv[id] = S.s.Point().Mul(in.nonzeroScalar(r), nil)
		}
		in.bases = append(in.bases, id)
	}
	in.nextPt = 1
	in.nextOr = 1
	return in
}

func genInst(S *suiteT, r *vh.Rng) *inst {
	in := newInst(S, r)
	switch x := r.Intn(100); {
	case x < 12:
		in.root = in.genRep(r, true, true)
	case x < 30:
		in.root = in.genScope(r, 0, 0, true)
	default:
		in.root = in.genOr(r, 0, true, r.Chance(20))
	}
	return in
}

func (in *inst) points(root *node) map[string]kyber.Point {
	m := map[string]kyber.Point{}
	for id, p := range in.ptv {
		m[pname(id)] = p
	}
	return m
}
func (in *inst) secrets() map[string]kyber.Scalar {
	m := map[string]kyber.Scalar{}
	for id, s := range in.scv {
		m[sname(id)] = s
	}
	return m
}
func choiceMap(root *node, ch map[int]int) map[proof.Predicate]int {
	m := map[proof.Predicate]int{}
	for _, o := range root.ors() {
		if c, ok := ch[o.id]; ok {
			m[o.pred] = c
		}
	}
	return m
}

// ---------------------------------------------------------------- running kyber

func classify(err error) int {
	if err == nil {
		return 0
	}
	s := err.Error()
	switch {
	case strings.Contains(s, "commit mismatch"):
		return 1
	case strings.Contains(s, "bad sub-challenges"):
		return 2
	case strings.Contains(s, "can't have OR"), strings.Contains(s, "can't be nested"), strings.Contains(s, "can't be in anything"):
		return 4
	case strings.Contains(s, "no choice of proof branch"):
		return 5
	}
	return 3
}

// prove runs HashProve on fresh Predicate objects; returns proof, class, and
// (dlog only) the scalars drawn from the private random stream.
func prove(S *suiteT, root *node, pts map[string]kyber.Point, secs map[string]kyber.Scalar,
	ch map[int]int, name string, seed []byte) (pf []byte, code int, rnd []*big.Int) {
	var st *vh.SeqStream
	var su proof.Suite
	if S.dlog {
		st = vh.NewSeqStream(seed)
		su = S.withStream(st)
	} else {
		su = S.s
	}
	pred := root.build()
	var err error
	pan, _ := vh.Try(func() {
		prv := pred.Prover(su, secs, pts, choiceMap(root, ch))
		pf, err = proof.HashProve(su, name, prv)
	})
	if pan {
		code = 6
	} else {
		code = classify(err)
	}
	if S.dlog {
		// replay the stream to learn the scalars that were picked
		st2 := vh.NewSeqStream(seed)
		g := vh.NewDlogGroup(vh.Q61, nil)
		for len(st2.Log) < len(st.Log) {
			rnd = append(rnd, vh.ScalarVal(g.Scalar().Pick(st2)))
		}
		if len(st2.Log) != len(st.Log) {
			panic("random stream replay out of step")
		}
	}
	return
}

func verify(S *suiteT, root *node, pts map[string]kyber.Point, name string, pf []byte) int {
	pred := root.build()
	var err error
	pan, _ := vh.Try(func() {
		err = proof.HashVerify(S.s, name, pred.Verifier(S.s, pts), pf)
	})
	if pan {
		return 6
	}
	return classify(err)
}

// the Fiat-Shamir challenge as specified by hash.go, computed independently
func challenge(S *suiteT, name string, consumed []byte) kyber.Scalar {
	x := newRefXOF([]byte(name))
	if len(consumed) > 0 {
		key := make([]byte, 128)
		x.x.Read(key)
		x = newRefXOF(key) // Reseed
		x.x.Write(consumed)
	}
	return S.s.Scalar().Pick(x)
}

// refXOF: BLAKE2Xb keyed with the first 64 bytes of the seed, the rest absorbed,
// built on golang.org/x/crypto directly (specification of xof/blake2xb.New).
type refXOF struct{ x blake2b.XOF }

func newRefXOF(seed []byte) *refXOF {
	key, rest := seed, []byte(nil)
	if len(seed) > 64 {
		key, rest = seed[:64], seed[64:]
	}
	x, err := blake2b.NewXOF(blake2b.OutputLengthUnknown, key)
	if err != nil {
		panic(err)
	}
	x.Write(rest)
	return &refXOF{x}
}
func (x *refXOF) XORKeyStream(dst, src []byte) {
	k := make([]byte, len(src))
	x.x.Read(k)
	for i := range src {
		dst[i] = src[i] ^ k[i]
	}
}

var nameLens = []int{0, 1, 5, 31, 32, 33, 63, 64, 65, 73, 127, 128, 129, 200}

// genName: protocol names with length-boundary-biased lengths (XOF key size 64, Reseed key 128)
func genName(r *vh.Rng) string {
	n := nameLens[r.Intn(len(nameLens))]
	b := make([]byte, n)
	for i := range b {
		b[i] = byte(33 + r.Intn(90))
	}
	return string(b)
}

// ---------------------------------------------------------------- Coq printing

func coqPts(m map[int]kyber.Point) string {
	var it []string
	for id := 0; id < 400; id++ {
		if p, ok := m[id]; ok {
			it = append(it, fmt.Sprintf("(%d,%s)", id, vh.CoqZ(vh.Dlog(p))))
		}
	}
	return vh.CoqList(it)
}
func coqSecs(m map[int]kyber.Scalar) string {
	var it []string
	for id := 0; id < 50; id++ {
		if s, ok := m[id]; ok {
			it = append(it, fmt.Sprintf("(%d,%s)", id, vh.CoqZ(vh.ScalarVal(s))))
		}
	}
	return vh.CoqList(it)
}
func coqChoice(m map[int]int) string {
	var it []string
	for id := 0; id < 200; id++ {
		if c, ok := m[id]; ok {
			it = append(it, fmt.Sprintf("(%d,%s)", id, vh.CoqInt(c)))
		}
	}
	return vh.CoqList(it)
}
func coqZs(v []*big.Int) string {
	var it []string
	for _, x := range v {
		it = append(it, vh.CoqZ(x))
	}
	return vh.CoqList(it)
}

type tab struct {
	S     *suiteT
	seen  map[string]bool
	items []string
}

func (t *tab) need(name string, root *node, pf []byte) {
	n := len(root.reps()) * t.S.s.PointLen()
	if len(pf) < n {
		return
	}
	k := name + "|" + vh.Hex(pf[:n])
	if t.seen[k] {
		return
	}
	t.seen[k] = true
	c := challenge(t.S, name, pf[:n])
	t.items = append(t.items, fmt.Sprintf("(%s, %s, %s)", vh.CoqBytes([]byte(name)), vh.CoqBytes(pf[:n]), vh.CoqZ(vh.ScalarVal(c))))
}

// ---------------------------------------------------------------- variants

type variant struct {
	kind   string
	root   *node // nil = same
	pts    map[int]kyber.Point
	name   string
	pf     []byte
	reject bool   // the property demands rejection
	key    string // oracle failure key if accepted although reject
}

func cp(b []byte) []byte { return append([]byte{}, b...) }

func copyPts(m map[int]kyber.Point) map[int]kyber.Point {
	c := map[int]kyber.Point{}
	for k, v := range m {
		c[k] = v
	}
	return c
}

func ptsOf(m map[int]kyber.Point) map[string]kyber.Point {
	r := map[string]kyber.Point{}
	for id, p := range m {
		r[pname(id)] = p
	}
	return r
}

// usedPoints: ids of points the predicate refers to
func usedPoints(root *node) []int {
	seen := map[int]bool{}
	var ids []int
	add := func(i int) {
		if !seen[i] {
			seen[i] = true
			ids = append(ids, i)
		}
	}
	for _, rp := range root.reps() {
		add(rp.P)
		for _, t := range rp.T {
			add(t[1])
		}
	}
	return ids
}

func marshalPt(p kyber.Point) []byte   { b, _ := p.MarshalBinary(); return b }
func marshalSc(s kyber.Scalar) []byte { b, _ := s.MarshalBinary(); return b }

// makeVariants: every way the property says a valid proof must be rejected.
// full = all fields, otherwise a sample.
func makeVariants(in *inst, name string, pf []byte, r *vh.Rng, full bool) []variant {
	S := in.S
	g := S.s
	plen, slen := g.PointLen(), g.ScalarLen()
	nrep := len(in.root.reps())
	var lay []string
	in.root.layout(&lay)
	var vs []variant
	vs = append(vs, variant{kind: "honest", name: name, pf: pf})
	vs = append(vs, variant{kind: "trailing-bytes", name: name, pf: append(cp(pf), r.Bytes(1+r.Intn(40))...)})
	if len(pf) != nrep*plen+len(lay)*slen {
		// layout disagreement is itself a finding of the correspondence; no field mutations then
		return vs
	}
	type field struct {
		off, n int
		kind   string
	}
	var fields []field
	for i := 0; i < nrep; i++ {
		fields = append(fields, field{i * plen, plen, "commitment"})
	}
	for i, k := range lay {
		fields = append(fields, field{nrep*plen + i*slen, slen, k})
	}
	pick := func(n int) []int {
		idx := make([]int, len(fields))
		for i := range idx {
			idx[i] = i
		}
		if full || len(idx) <= n {
			return idx
		}
		for i := 0; i < n; i++ {
			j := i + r.Intn(len(idx)-i)
			idx[i], idx[j] = idx[j], idx[i]
		}
		return idx[:n]
	}
	// replace a field by the encoding of a different valid value
	for _, fi := range pick(6) {
		f := fields[fi]
		m := cp(pf)
		old := pf[f.off : f.off+f.n]
		var nb []byte
		for {
			if f.kind == "commitment" {
				nb = marshalPt(g.Point().Mul(in.randScalar(r), nil))
			} else if r.Chance(30) {
				s := g.Scalar()
				if err := s.UnmarshalBinary(old); err != nil {
					panic(err)
				}
				nb = marshalSc(s.Add(s, g.Scalar().One()))
			} else {
				nb = marshalSc(in.randScalar(r))
			}
			if !bytes.Equal(nb, old) {
				break
			}
		}
		copy(m[f.off:], nb)
		vs = append(vs, variant{kind: "replace-" + f.kind, name: name, pf: m, reject: true,
			key: "proof.HashVerify/altered-" + f.kind + "-accepted"})
	}
	// flip one bit in a field
	for _, fi := range pick(4) {
		f := fields[fi]
		m := cp(pf)
		m[f.off+r.Intn(f.n)] ^= 1 << uint(r.Intn(8))
		vs = append(vs, variant{kind: "bitflip-" + f.kind, name: name, pf: m, reject: true,
			key: "proof.HashVerify/bitflip-" + f.kind + "-accepted"})
	}
	// swap two different fields of the same kind
	if len(fields) >= 2 {
		for try := 0; try < 6; try++ {
			a, b := fields[r.Intn(len(fields))], fields[r.Intn(len(fields))]
			if a.n != b.n || a.off == b.off || bytes.Equal(pf[a.off:a.off+a.n], pf[b.off:b.off+b.n]) {
				continue
			}
			m := cp(pf)
			copy(m[a.off:], pf[b.off:b.off+b.n])
			copy(m[b.off:], pf[a.off:a.off+a.n])
			// two responses of a Rep like P = x*B + y*B may be exchanged (the statement is
			// symmetric): rejection is demanded for commitments and sub-challenges only
			vs = append(vs, variant{kind: "swap-" + a.kind, name: name, pf: m, reject: a.kind == b.kind && a.kind != "response",
				key: "proof.HashVerify/swapped-" + a.kind + "-accepted"})
			break
		}
	}
	// truncation: at field boundaries, inside a field, empty
	cuts := map[int]bool{0: true, len(pf) - 1: true}
	for _, fi := range pick(3) {
		cuts[fields[fi].off] = true
		cuts[fields[fi].off+1+r.Intn(fields[fi].n-1)] = true
	}
	if full {
		for _, f := range fields {
			cuts[f.off] = true
		}
	}
	for c := range cuts {
		if c >= 0 && c < len(pf) {
			vs = append(vs, variant{kind: "truncate", name: name, pf: cp(pf[:c]), reject: true,
				key: "proof.HashVerify/truncated-accepted"})
		}
	}
	// different public points
	used := usedPoints(in.root)
	for k := 0; k < 2 || (full && k < len(used)); k++ {
		id := used[r.Intn(len(used))]
		if full && k < len(used) {
			id = used[k]
		}
		np := copyPts(in.ptv)
		np[id] = g.Point().Add(in.ptv[id], g.Point().Mul(in.nonzeroScalar(r), nil))
		vs = append(vs, variant{kind: "wrong-point", name: name, pf: pf, pts: np, reject: true,
			key: "proof.HashVerify/different-points-accepted"})
	}
	// different predicate (same shape, so that the proof still parses)
	for k := 0; k < 3; k++ {
		root := in.root.clone()
		reps := root.reps()
		rp := reps[r.Intn(len(reps))]
		ok := false
		switch r.Intn(3) {
		case 0: // another public point in place of P
			for _, id := range used {
				if id != rp.P && !in.ptv[id].Equal(in.ptv[rp.P]) {
					rp.P = id
					ok = true
					break
				}
			}
		case 1: // another base in one term
			ti := r.Intn(len(rp.T))
			for _, id := range used {
				if !in.ptv[id].Equal(in.ptv[rp.T[ti][1]]) {
					rp.T[ti][1] = id
					ok = true
					break
				}
			}
		default: // two Rep nodes exchange their public points
			o := reps[r.Intn(len(reps))]
			if !in.ptv[o.P].Equal(in.ptv[rp.P]) {
				rp.P, o.P = o.P, rp.P
				ok = true
			}
		}
		if ok {
			vs = append(vs, variant{kind: "wrong-predicate", name: name, pf: pf, root: root, reject: true,
				key: "proof.HashVerify/different-predicate-accepted"})
		}
	}
	// different shape: one Rep more (the proof is too short or mis-aligned)
	{
		root := &node{kind: kAnd, subs: []*node{in.root.clone(), in.root.reps()[0].clone()}}
		if in.root.kind == kOr {
			root = in.root.clone()
			root.subs = append(root.subs, in.root.reps()[0].clone())
		}
		vs = append(vs, variant{kind: "wrong-shape", name: name, pf: pf, root: root, reject: true,
			key: "proof.HashVerify/different-predicate-accepted"})
	}
	// different protocol name: appended byte, dropped last byte, last byte altered, a byte beyond
	// index 64 altered (the XOF key is 64 bytes; the rest of the name is absorbed), first / random byte altered
	addName := func(kind, other string) {
		if other != name {
			vs = append(vs, variant{kind: "wrong-name-" + kind, name: other, pf: pf, reject: true,
				key: "proof.HashVerify/different-protocol-name-accepted"})
		}
	}
	flipAt := func(i int) string {
		b := []byte(name)
		b[i] ^= byte(1 + r.Intn(255))
		return string(b)
	}
	addName("appended", name+string([]byte{byte(33 + r.Intn(90))}))
	if len(name) > 0 {
		addName("dropped-last", name[:len(name)-1])
		addName("last-byte", flipAt(len(name)-1))
		if r.Bool() {
			addName("first-byte", flipAt(0))
		} else {
			addName("random-byte", flipAt(r.Intn(len(name))))
		}
	} else {
		addName("other", "proto2")
	}
	if len(name) > 64 {
		addName("byte-beyond-64", flipAt(64+r.Intn(len(name)-64)))
	}
	if len(name) > 128 {
		addName("byte-beyond-128", flipAt(128+r.Intn(len(name)-128)))
	}
	return vs
}

// ---------------------------------------------------------------- one tree

type ctx struct {
	rep   *vh.Report
	cf    *vh.CaseFile
	id    int
	coqOn bool
}

func (c *ctx) nextID() int { c.id++; return c.id }

// runTree: honest proof + variants (+ Coq case when S is the dlog group)
func runTree(c *ctx, in *inst, r *vh.Rng, full bool, what string) {
	S := in.S
	rep := c.rep
	name := genName(r)
	rep.Dist(fmt.Sprintf("len:name=%d", len(name)))
	seed := r.Bytes(16)
	secs := in.secrets()
	pts := ptsOf(in.ptv)
	pf, code, rnd := prove(S, in.root, pts, secs, in.choice, name, seed)
	tid := c.nextID()
	replay := map[string]interface{}{"suite": S.name, "pred": in.root.coq(), "case": what, "name": name, "shape": in.root.shapeKey(), "seed": vh.Hex(seed)}
	rep.Count(S.name+what+in.root.coq()+coqChoice(in.choice), true)
	rep.Dist("suite:" + S.name)
	rep.Dist("case:" + what)
	rep.Dist(fmt.Sprintf("top:%d", in.root.kind))
	rep.Dist(fmt.Sprintf("reps:%d", len(in.root.reps())))
	if what == "honest" && code != 0 {
		rep.Fail("proof.HashProve/honest-prover-error", fmt.Sprintf("%s: prover failed (class %d) although the chosen branches are satisfied", S.name, code), replay)
	}
	var vlist []variant
	if code == 0 {
		switch what {
		case "honest":
			vlist = makeVariants(in, name, pf, r, full)
		case "false-secret", "false-statement":
			vlist = []variant{{kind: "falsified", name: name, pf: pf, reject: true, key: "proof.HashProve/" + what + "-accepted"}}
		default:
			vlist = []variant{{kind: "edge", name: name, pf: pf}}
		}
		if in.degenerate() {
			// a Rep with P = O is satisfied by every challenge: rejection of altered
			// challenges / names is not demanded; correspondence only
			for i := range vlist {
				vlist[i].reject = false
			}
		}
	}
	t := &tab{S: S, seen: map[string]bool{}}
	if code == 0 {
		t.need(name, in.root, pf)
	}
	var vitems []string
	for _, v := range vlist {
		root := in.root
		if v.root != nil {
			root = v.root
		}
		p := pts
		if v.pts != nil {
			p = ptsOf(v.pts)
		}
		verdict := verify(S, root, p, v.name, v.pf)
		rep.Count(fmt.Sprint(tid, v.kind, vh.Hex(v.pf), v.name), true)
		rep.Dist("variant:" + v.kind)
		rep.Dist(fmt.Sprintf("verdict:%d", verdict))
		if v.kind == "honest" && verdict != 0 {
			rep.Fail("proof.HashVerify/honest-proof-rejected", fmt.Sprintf("%s: honest proof rejected (class %d)", S.name, verdict), replay)
		}
		if v.reject && verdict == 0 {
			rp := map[string]interface{}{"variant": v.kind, "proof": vh.Hex(v.pf), "name": v.name}
			for k, x := range replay {
				rp[k] = x
			}
			if v.root != nil {
				rp["verifier_pred"] = v.root.coq()
			}
			rep.Fail(v.key, fmt.Sprintf("%s: %s accepted", S.name, v.kind), rp)
		}
		if verdict == 6 {
			rep.Fail("proof.HashVerify/panic", fmt.Sprintf("%s: verifier panicked on variant %s", S.name, v.kind), replay)
		}
		if S.dlog && c.coqOn {
			vid := c.nextID()
			t.need(v.name, root, v.pf)
			po, pp, pn := "None", "None", "None"
			if v.root != nil {
				po = "(Some (" + v.root.coq() + "))"
			}
			if v.pts != nil {
				pp = "(Some " + coqPts(v.pts) + ")"
			}
			if v.name != name {
				pn = "(Some " + vh.CoqBytes([]byte(v.name)) + ")"
			}
			vitems = append(vitems, fmt.Sprintf("VV %d %s %s %s %s %d", vid, po, pp, pn, vh.CoqBytes(v.pf), verdict))
			rep.Index(vid, map[string]interface{}{"tree": tid, "variant": v.kind, "pred": root.coq(), "verdict": verdict})
		}
	}
	if S.dlog && c.coqOn {
		item := fmt.Sprintf("CTree %d (%s) %s %s %s %s %s %s %d %s %s", tid, in.root.coq(), coqPts(in.ptv), coqSecs(in.scv),
			coqChoice(in.choice), coqZs(rnd), vh.CoqBytes([]byte(name)), vh.CoqList(t.items), code, vh.CoqBytes(pf), vh.CoqList(vitems))
		c.cf.Items = append(c.cf.Items, item)
		rep.Index(tid, replay)
		rep.Sample(replay)
	}
}

// falsifications of an instance whose honest proof verifies
func falsify(c *ctx, in *inst, r *vh.Rng) {
	g := in.S.s
	if len(in.oblRep) == 0 {
		return
	}
	// (1) one secret used on the obligated path is changed
	{
		rp := in.oblRep[r.Intn(len(in.oblRep))]
		sid := rp.T[r.Intn(len(rp.T))][0]
		// coefficient of the variable in that Rep must be non-zero
		coef := g.Point().Null()
		for _, t := range rp.T {
			if t[0] == sid {
				coef.Add(coef, in.ptv[t[1]])
			}
		}
		if !coef.Equal(g.Point().Null()) {
			old := in.scv[sid]
			in.scv[sid] = g.Scalar().Add(old, in.nonzeroScalar(r))
			runTree(c, in, r, false, "false-secret")
			in.scv[sid] = old
		}
	}
	// (2) the public point of an obligated Rep is moved
	{
		rp := in.oblRep[r.Intn(len(in.oblRep))]
		old := in.ptv[rp.P]
		in.ptv[rp.P] = g.Point().Add(old, g.Point().Mul(in.nonzeroScalar(r), nil))
		runTree(c, in, r, false, "false-statement")
		in.ptv[rp.P] = old
	}
}

// every satisfied branch of a top-level Or is chosen in turn
func allChoices(c *ctx, in *inst, r *vh.Rng) {
	if in.root.kind != kOr || !in.allTru {
		return
	}
	o := in.root
	old := in.choice[o.id]
	for ch := range o.subs {
		if ch == old {
			continue
		}
		in.choice[o.id] = ch
		// nested Ors of the newly chosen branch need a choice too
		for _, m := range o.subs[ch].ors() {
			if _, ok := in.choice[m.id]; !ok {
				in.choice[m.id] = r.Intn(len(m.subs))
			}
			for _, mm := range m.subs[in.choice[m.id]].ors() {
				_ = mm
			}
		}
		okc := true
		// choice must exist along the whole obligated path
		var chk func(n *node)
		chk = func(n *node) {
			if n.kind == kOr {
				cc, ok := in.choice[n.id]
				if !ok {
					okc = false
					return
				}
				chk(n.subs[cc])
			}
		}
		chk(o)
		if okc {
			runTree(c, in, r, false, "honest")
		}
	}
	in.choice[o.id] = old
}

// ill-formed / edge predicates: correspondence of the error classes
func edgeCases(c *ctx, S *suiteT, r *vh.Rng) {
	mk := func() (*inst, *node, *node) {
		in := newInst(S, r)
		return in, in.genRep(r, true, false), in.genRep(r, true, false)
	}
	run := func(in *inst, what string) {
		runTree(c, in, r, false, what)
	}
	// Or inside And
	in, a, b := mk()
	in.root = &node{kind: kAnd, subs: []*node{a, {kind: kOr, id: 1, subs: []*node{b}}}}
	in.choice[1] = 0
	run(in, "edge-or-in-and")
	// missing choice
	in, a, b = mk()
	in.root = &node{kind: kOr, id: 1, subs: []*node{a, b}}
	run(in, "edge-no-choice")
	// out-of-range choices
	for _, ch := range []int{-1, 2, 7} {
		in, a, b = mk()
		in.root = &node{kind: kOr, id: 1, subs: []*node{a, b}}
		in.choice[1] = ch
		run(in, "edge-bad-choice")
	}
	// empty Or (Go panics)
	in, a, b = mk()
	in.root = &node{kind: kOr, id: 1}
	in.choice[1] = 0
	run(in, "edge-empty-or")
	in, a, b = mk()
	in.root = &node{kind: kOr, id: 1, subs: []*node{a, {kind: kOr, id: 2}}}
	in.choice[1] = 0
	run(in, "edge-empty-or")
	// empty And
	in, a, b = mk()
	in.root = &node{kind: kAnd}
	run(in, "edge-empty-and")
	in, a, b = mk()
	in.root = &node{kind: kOr, id: 1, subs: []*node{{kind: kAnd}, a}}
	in.choice[1] = r.Intn(2)
	run(in, "edge-empty-and")
	// zero bases / zero secrets / P = O
	in, a, b = mk()
	in.ptv[in.bases[0]] = S.s.Point().Null()
	for _, rp := range []*node{a, b} {
		in.ptv[rp.P] = in.repValue(rp)
	}
	in.root = &node{kind: kAnd, subs: []*node{a, b}}
	run(in, "edge-zero-base")
	// verifying a proof against an ill-formed predicate
	in, a, b = mk()
	in.root = &node{kind: kAnd, subs: []*node{a, b}}
	name := "n"
	pf, code, rnd0 := prove(S, in.root, ptsOf(in.ptv), in.secrets(), in.choice, name, r.Bytes(8))
	if code == 0 && S.dlog && c.coqOn {
		bad := &node{kind: kAnd, subs: []*node{a.clone(), {kind: kOr, id: 9, subs: []*node{b.clone()}}}}
		bad2 := &node{kind: kAnd, subs: []*node{{kind: kOr, id: 9, subs: []*node{a.clone()}}, b.clone()}}
		emptyOr := &node{kind: kOr, id: 9}
		t := &tab{S: S, seen: map[string]bool{}}
		var vit []string
		for _, root := range []*node{bad, bad2, emptyOr} {
			for _, p := range [][]byte{pf, pf[:len(pf)-1], append(cp(pf), 1, 2, 3)} {
				verdict := verify(S, root, ptsOf(in.ptv), name, p)
				vid := c.nextID()
				t.need(name, root, p)
				vit = append(vit, fmt.Sprintf("VV %d (Some (%s)) None None %s %d", vid, root.coq(), vh.CoqBytes(p), verdict))
				c.rep.Index(vid, map[string]interface{}{"variant": "ill-formed-verifier-pred", "pred": root.coq(), "verdict": verdict})
				c.rep.Count(fmt.Sprint(vid, root.coq()), true)
				c.rep.Dist("variant:ill-formed-verifier-pred")
			}
		}
		t.need(name, in.root, pf)
		tid := c.nextID()
		c.cf.Items = append(c.cf.Items, fmt.Sprintf("CTree %d (%s) %s %s %s %s %s %s %d %s %s", tid, in.root.coq(), coqPts(in.ptv), coqSecs(in.scv),
			coqChoice(in.choice), coqZs(rnd0), vh.CoqBytes([]byte(name)), vh.CoqList(t.items), 0, vh.CoqBytes(pf), vh.CoqList(vit)))
		c.rep.Index(tid, map[string]interface{}{"case": "ill-formed-verifier-pred", "pred": in.root.coq()})
		_ = tid
	}
}

// ---------------------------------------------------------------- forgery oracles

// A proof assembled without any witness for a false statement, under the guess
// that the challenge does not depend on the commitment / on the protocol name:
// must be rejected.
func forgery(c *ctx, S *suiteT, r *vh.Rng) {
	g := S.s
	in := newInst(S, r)
	rp := in.genRep(r, false, false)
	in.root = rp
	name := "forge"
	pts := ptsOf(in.ptv)
	for _, guess := range []string{"challenge-ignores-commitment", "challenge-ignores-name-and-commitment", "challenge-ignores-name"} {
		var cg kyber.Scalar
		build := func(cc kyber.Scalar) []byte {
			// V = c*P + sum r_s*B_s with random responses
			resp := map[int]kyber.Scalar{}
			var order []int
			V := g.Point().Mul(cc, in.ptv[rp.P])
			for _, t := range rp.T {
				if _, ok := resp[t[0]]; !ok {
					resp[t[0]] = in.randScalar(r)
					order = append(order, t[0])
				}
				V.Add(V, g.Point().Mul(resp[t[0]], in.ptv[t[1]]))
			}
			pf := marshalPt(V)
			for _, s := range order {
				pf = append(pf, marshalSc(resp[s])...)
			}
			return pf
		}
		switch guess {
		case "challenge-ignores-commitment":
			cg = challenge(S, name, nil)
		case "challenge-ignores-name-and-commitment":
			cg = challenge(S, "", nil)
		default:
			// fixpoint attempt: commitment for a first guess, then the challenge of that commitment under the empty name
			first := build(challenge(S, "", nil))
			cg = challenge(S, "", first[:g.PointLen()])
		}
		pf := build(cg)
		verdict := verify(S, in.root, pts, name, pf)
		c.rep.Count("forgery"+guess+vh.Hex(pf), true)
		c.rep.Dist("forgery:" + guess)
		if verdict == 0 {
			c.rep.Fail("proof.HashVerify/forged-proof-accepted", fmt.Sprintf("%s: witness-free transcript for a false statement accepted (%s)", S.name, guess),
				map[string]interface{}{"suite": S.name, "pred": in.root.coq(), "guess": guess, "proof": vh.Hex(pf)})
		}
	}
}

// Or of two false statements, both branches simulated with freely chosen
// sub-challenges (which then do not add up to the hash challenge): must be rejected.
func forgeryOr(c *ctx, S *suiteT, r *vh.Rng) {
	g := S.s
	in := newInst(S, r)
	a, b := in.genRep(r, false, false), in.genRep(r, false, false)
	in.root = &node{kind: kOr, id: 1, subs: []*node{a, b}}
	var commits, chals, resps []byte
	for _, rp := range []*node{a, b} {
		ci := in.randScalar(r)
		resp := map[int]kyber.Scalar{}
		var order []int
		V := g.Point().Mul(ci, in.ptv[rp.P])
		for _, t := range rp.T {
			if _, ok := resp[t[0]]; !ok {
				resp[t[0]] = in.randScalar(r)
				order = append(order, t[0])
			}
			V.Add(V, g.Point().Mul(resp[t[0]], in.ptv[t[1]]))
		}
		commits = append(commits, marshalPt(V)...)
		chals = append(chals, marshalSc(ci)...)
		// responses are sent in variable-index order = order of first occurrence in the whole predicate
		_ = order
		idx := map[int]int{}
		k := 0
		for _, q := range []*node{a, b} {
			for _, t := range q.T {
				if _, ok := idx[t[0]]; !ok {
					idx[t[0]] = k
					k++
				}
			}
		}
		for i := 0; i < k; i++ {
			for s, j := range idx {
				if j == i {
					if x, ok := resp[s]; ok {
						resps = append(resps, marshalSc(x)...)
					}
				}
			}
		}
	}
	pf := append(append(commits, chals...), resps...)
	verdict := verify(S, in.root, ptsOf(in.ptv), "forge", pf)
	c.rep.Count("forgery-or"+vh.Hex(pf), true)
	c.rep.Dist("forgery:or-free-subchallenges")
	if verdict == 0 {
		c.rep.Fail("proof.HashVerify/forged-proof-accepted", fmt.Sprintf("%s: Or of two false statements, both branches simulated with sub-challenges that do not add up to the challenge, accepted", S.name),
			map[string]interface{}{"suite": S.name, "pred": in.root.coq(), "guess": "or-free-subchallenges", "proof": vh.Hex(pf)})
	}
	if verdict != 2 && verdict != 0 {
		c.rep.Dist(fmt.Sprintf("forgery-or-verdict:%d", verdict))
	}
}

// ---------------------------------------------------------------- deniable prover over a clique

type cnode struct {
	i      int
	done   bool
	out    chan []byte
	in     chan [][]byte
	rand   kyber.XOF
	errs   []error
	panicd bool
}

func (n *cnode) Step(msg []byte) ([][]byte, error) {
	n.out <- msg
	return <-n.in, nil
}
func (n *cnode) Random() kyber.XOF { return n.rand }

// runClique runs the protocols in lock-step; tamper(step, from, to, msg) may alter what `to` receives from `from`.
func runClique(protos []proof.Protocol, rands []kyber.XOF, tamper func(step, from, to int, m []byte) []byte, patience time.Duration) ([]*cnode, [][][]byte, bool) {
	n := len(protos)
	nodes := make([]*cnode, n)
	for i := range protos {
		nd := &cnode{i: i, out: make(chan []byte), in: make(chan [][]byte), rand: rands[i]}
		nodes[i] = nd
		go func(nd *cnode, p proof.Protocol) {
			pan, _ := vh.Try(func() { nd.errs = (func(proof.Context) []error)(p)(nd) })
			nd.panicd = pan
			nd.done = true
			nd.out <- nil
		}(nd, protos[i])
	}
	active := make([]bool, n)
	for i := range active {
		active[i] = true
	}
	var steps [][][]byte
	for step := 0; step < 50; step++ {
		msgs := make([][]byte, n)
		any := false
		for i, nd := range nodes {
			if !active[i] {
				continue
			}
			select {
			case msgs[i] = <-nd.out:
			case <-time.After(patience):
				// a participant is blocked inside kyber (not in Step): give up on this run
				return nodes, steps, true
			}
			if nd.done {
				active[i] = false
				msgs[i] = nil
			} else {
				any = true
			}
		}
		if !any {
			break
		}
		steps = append(steps, msgs)
		for i, nd := range nodes {
			if !active[i] {
				continue
			}
			view := make([][]byte, n)
			for j := range msgs {
				view[j] = msgs[j]
				if tamper != nil && j != i && msgs[j] != nil {
					view[j] = tamper(step, j, i, cp(msgs[j]))
				}
			}
			nd.in <- view
		}
	}
	return nodes, steps, false
}

const keySize = 128

func deniable(c *ctx, S *suiteT, r *vh.Rng, mode string) {
	n := 2 + r.Intn(2)
	g := S.s
	insts := make([]*inst, n)
	seeds := make([][]byte, n)
	rands := make([]kyber.XOF, n)
	protos := make([]proof.Protocol, n)
	falseOne := -1
	if mode == "false-statement" {
		falseOne = r.Intn(n)
	}
	// verifier statements: vst[i][j] = (root, pts) node i uses to check node j
	for i := 0; i < n; i++ {
		for {
			insts[i] = genInst(S, r.Fork())
			if len(insts[i].root.reps()) <= 8 {
				break
			}
		}
		if i == falseOne {
			in := insts[i]
			rp := in.oblRep[r.Intn(len(in.oblRep))]
			in.ptv[rp.P] = g.Point().Add(in.ptv[rp.P], g.Point().Mul(in.nonzeroScalar(r), nil))
		}
		seeds[i] = r.Bytes(16)
		rands[i] = g.XOF(seeds[i])
	}
	for i := 0; i < n; i++ {
		in := insts[i]
		pred := in.root.build()
		prv := pred.Prover(g, in.secrets(), ptsOf(in.ptv), choiceMap(in.root, in.choice))
		vrfs := make([]proof.Verifier, n)
		for j := 0; j < n; j++ {
			if j != i {
				vrfs[j] = insts[j].root.clone().build().Verifier(g, ptsOf(insts[j].ptv))
			}
		}
		protos[i] = proof.DeniableProver(g, i, prv, vrfs)
	}
	var tamper func(step, from, to int, m []byte) []byte
	victim := r.Intn(n)
	switch mode {
	case "tampered-key":
		tamper = func(step, from, to int, m []byte) []byte {
			if step == 1 && from == victim && len(m) > 0 {
				m[r.Intn(len(m))] ^= 0x10
			}
			return m
		}
	case "tampered-response":
		tamper = func(step, from, to int, m []byte) []byte {
			if step == 2 && from == victim && len(m) > keySize {
				m[keySize+r.Intn(len(m)-keySize)] ^= 0x04
			}
			return m
		}
	case "tampered-commitment":
		tamper = func(step, from, to int, m []byte) []byte {
			if step == 0 && from == victim && len(m) > keySize {
				m[keySize+r.Intn(len(m)-keySize)] ^= 0x04
			}
			return m
		}
	}
	patience := 60 * time.Second
	if mode == "tampered-key" {
		patience = 1500 * time.Millisecond // blocking is the expected outcome here (see below)
	}
	nodes, steps, hung := runClique(protos, rands, tamper, patience)
	if hung {
		c.rep.Dist("deniable-hung:" + mode)
		if mode == "tampered-key" {
			// After challengeStep fails ("wrong key for commit") deniableProver.run goes on to
			// proofStep while its verifiers still wait for the challenge: the participant blocks
			// for ever instead of returning its error. Nothing is accepted; recorded as a note.
			c.rep.Note("deniable prover blocks (no result) after detecting a revealed key that does not match its commitment")
			return
		}
		c.rep.Fail("proof.DeniableProver/blocked", fmt.Sprintf("%s: a participant never returned (mode %s)", S.name, mode), map[string]interface{}{"suite": S.name, "mode": mode, "n": n})
		return
	}
	replay := map[string]interface{}{"suite": S.name, "mode": mode, "n": n, "victim": victim}
	for i := range insts {
		replay[fmt.Sprintf("pred%d", i)] = insts[i].root.coq()
	}
	c.rep.Count(fmt.Sprint("deniable", mode, replay), true)
	c.rep.Dist("deniable:" + mode)
	c.rep.Dist("suite:" + S.name)
	for i, nd := range nodes {
		if nd.panicd || len(nd.errs) != n {
			c.rep.Fail("proof.DeniableProver/panic-or-short-result", fmt.Sprintf("%s: node %d", S.name, i), replay)
			return
		}
	}
	for i, nd := range nodes {
		for j := 0; j < n; j++ {
			e := nd.errs[j]
			switch mode {
			case "honest":
				if e != nil {
					c.rep.Fail("proof.DeniableProver/honest-run-rejected", fmt.Sprintf("%s: node %d reports for %d: %v", S.name, i, j, e), replay)
				}
			case "false-statement":
				if j == falseOne && j != i && e == nil {
					c.rep.Fail("proof.DeniableProver/false-statement-accepted", fmt.Sprintf("%s: node %d accepted the proof of %d", S.name, i, j), replay)
				}
				if j != falseOne && e != nil {
					c.rep.Fail("proof.DeniableProver/honest-run-rejected", fmt.Sprintf("%s: node %d reports for %d: %v", S.name, i, j, e), replay)
				}
			case "tampered-key":
				// whoever received the altered key must notice (its own run fails)
				if i != victim && j == i && e == nil {
					c.rep.Fail("proof.DeniableProver/altered-revealed-key-accepted", fmt.Sprintf("%s: node %d did not notice that the key revealed by %d does not match its commitment", S.name, i, victim), replay)
				}
			case "tampered-response", "tampered-commitment":
				if i != victim && j == victim && e == nil {
					c.rep.Fail("proof.DeniableProver/"+mode+"-accepted", fmt.Sprintf("%s: node %d accepted the altered proof of %d", S.name, i, victim), replay)
				}
			}
		}
	}
	if !(S.dlog && c.coqOn) || mode == "tampered-key" || len(steps) < 3 {
		return
	}
	// model comparison: keys, mix, challenge computed from the specification
	keys := make([][]byte, n)
	rnds := make([][]*big.Int, n)
	mix := make([]byte, keySize)
	for i := 0; i < n; i++ {
		x := g.XOF(seeds[i])
		keys[i] = make([]byte, keySize)
		x.Read(keys[i])
		for k := 0; k < 90; k++ {
			rnds[i] = append(rnds[i], vh.ScalarVal(g.Scalar().Pick(x)))
		}
		for j := range mix {
			mix[j] ^= keys[i][j]
		}
	}
	cval := g.Scalar().Pick(newRefXOF(mix))
	body := func(step, i int) []byte {
		m := steps[step][i]
		if len(m) < keySize {
			return nil
		}
		return m[keySize:]
	}
	var parts, vfs []string
	for i, in := range insts {
		parts = append(parts, fmt.Sprintf("(%s, %s, %s, %s, %s, %s, %s)", in.root.coq(), coqPts(in.ptv), coqSecs(in.scv), coqChoice(in.choice),
			coqZs(rnds[i]), vh.CoqBytes(body(0, i)), vh.CoqBytes(body(2, i))))
	}
	id := c.nextID()
	if tamper == nil {
		for i, nd := range nodes {
			for j := 0; j < n; j++ {
				if j != i {
					vfs = append(vfs, fmt.Sprintf("(%d, %d, %s, %s, %d)", id, j, insts[j].root.coq(), coqPts(insts[j].ptv), classify(nd.errs[j])))
				}
			}
		}
	}
	c.cf.Items = append(c.cf.Items, fmt.Sprintf("CDen %d %s %s %s %s", id, vh.CoqBytes(mix), vh.CoqZ(vh.ScalarVal(cval)), vh.CoqList(parts), vh.CoqList(vfs)))
	c.rep.Index(id, replay)
}

// ---------------------------------------------------------------- deniable prover: colluding clique members

// collusion: the honest node 0 follows member 1 only (nil verifier slot for member 2, as in the
// library's own TestDeniable). Member 2 publishes a junk randomness commitment and reveals, after
// having seen the other keys, key2 = target ^ key0 ^ key1 (which does not open its commitment);
// member 1 has pre-simulated its transcript V = c*X + r*B for c = scalar(XOF(target)) and a point
// X whose logarithm nobody uses. The honest node must refuse the opening (every revealed key is
// checked against its commitment) and must not accept member 1's statement.
// With bad == false member 2 opens honestly (control: the simulated transcript is then rejected).
func collusion(c *ctx, S *suiteT, r *vh.Rng, bad bool) {
	g := S.s
	rep := c.rep
	// honest statement
	in0 := newInst(S, r)
	in0.root = in0.genRep(r, true, true)
	pred0 := in0.root.build()
	prv0 := pred0.Prover(g, in0.secrets(), ptsOf(in0.ptv), nil)
	// member 1's statement: X = random point, claimed Rep X = x*B
	X := g.Point().Mul(in0.nonzeroScalar(r), nil)
	B := g.Point().Base()
	pred1 := proof.Rep("X", "x", "B")
	vrf1 := pred1.Verifier(g, map[string]kyber.Point{"X": X, "B": B})
	nd := &cnode{i: 0, out: make(chan []byte), in: make(chan [][]byte), rand: g.XOF(r.Bytes(16))}
	proto := proof.DeniableProver(g, 0, prv0, []proof.Verifier{nil, vrf1, nil})
	go func() {
		pan, _ := vh.Try(func() { nd.errs = (func(proof.Context) []error)(proto)(nd) })
		nd.panicd = pan
		nd.done = true
		nd.out <- nil
	}()
	recv := func(d time.Duration) ([]byte, bool) {
		select {
		case m := <-nd.out:
			return m, true
		case <-time.After(d):
			return nil, false
		}
	}
	mode := "control"
	if bad {
		mode = "bad-opening"
	}
	rep.Count(fmt.Sprint("collusion", S.name, mode, r.U64()), true)
	rep.Dist("deniable-collusion:" + mode)
	rep.Dist("suite:" + S.name)
	replay := map[string]interface{}{"suite": S.name, "scenario": "honest node follows member 1 only; member 2 reveals last a key that does not open its commitment; member 1 simulated its transcript for the steered challenge", "bad_opening": bad}
	target := r.Bytes(keySize)
	cc := g.Scalar().Pick(g.XOF(target))
	rr := in0.randScalar(r)
	V := g.Point().Add(g.Point().Mul(cc, X), g.Point().Mul(rr, B))
	key1 := r.Bytes(keySize)
	com1 := make([]byte, keySize)
	g.XOF(key1).Read(com1)
	key2h := r.Bytes(keySize) // member 2's honest key (control run)
	com2 := r.Bytes(keySize)  // junk commitment
	if !bad {
		g.XOF(key2h).Read(com2)
	}
	long := 60 * time.Second
	m0, ok := recv(long)
	if !ok || nd.done {
		return
	}
	nd.in <- [][]byte{m0, append(cp(com1), marshalPt(V)...), cp(com2)}
	k0, ok := recv(long)
	if !ok || nd.done || len(k0) != keySize {
		return
	}
	key2 := make([]byte, keySize)
	if bad {
		for j := range key2 {
			key2[j] = target[j] ^ k0[j] ^ key1[j]
		}
	} else {
		copy(key2, key2h)
	}
	nd.in <- [][]byte{k0, cp(key1), key2}
	// from here on the clean tree aborts (returns or blocks after "wrong key for commit")
	short := 2 * time.Second
	finished := false
	for step := 0; step < 6; step++ {
		m, ok := recv(short)
		if !ok {
			break
		}
		if nd.done {
			finished = true
			break
		}
		com := make([]byte, keySize)
		g.XOF(r.Bytes(keySize)).Read(com)
		select {
		case nd.in <- [][]byte{m, append(com, marshalSc(rr)...), r.Bytes(keySize)}:
		case <-time.After(short):
		}
	}
	if !finished {
		rep.Dist("deniable-collusion-blocked:" + mode)
		if !bad {
			// control run with honest openings must terminate
			rep.Fail("proof.DeniableProver/blocked", fmt.Sprintf("%s: honest node never returned in the control run", S.name), replay)
		}
		return
	}
	if nd.panicd || len(nd.errs) != 3 {
		return
	}
	if bad && nd.errs[0] == nil {
		rep.Fail("proof.DeniableProver/unchecked-opening-of-unfollowed-member", fmt.Sprintf("%s: a member whose proof the node does not follow revealed a key that does not match its randomness commitment; the node completed without error", S.name), replay)
	}
	if nd.errs[1] == nil {
		rep.Fail("proof.DeniableProver/witness-free-statement-accepted", fmt.Sprintf("%s: the verifier accepted a simulated transcript for a statement whose secret nobody holds (challenge steered: %v)", S.name, bad), replay)
	}
}

// ---------------------------------------------------------------- object history: reuse

// reuseCases: ONE Predicate, ONE Prover value, ONE Verifier value, ONE secrets map and ONE points
// map are used for several proofs (different protocol names, hash and deniable contexts). Every
// run must be complete, and the caller's maps and objects must be unchanged afterwards.
func reuseCases(c *ctx, in *inst, r *vh.Rng) {
	S := in.S
	rep := c.rep
	var su proof.Suite = S.s
	if S.dlog {
		su = S.withStream(vh.NewSeqStream(r.Bytes(16)))
	}
	pred := in.root.build()
	secs := in.secrets()
	pts := ptsOf(in.ptv)
	var prv proof.Prover
	var vrf proof.Verifier
	if pan, _ := vh.Try(func() {
		prv = pred.Prover(su, secs, pts, choiceMap(in.root, in.choice))
		vrf = pred.Verifier(S.s, pts)
	}); pan {
		return
	}
	replay := map[string]interface{}{"suite": S.name, "pred": in.root.coq(), "shape": in.root.shapeKey(), "case": "reuse"}
	// snapshot in a deterministic order
	snap := func() string {
		var sb strings.Builder
		for id := 0; id < 400; id++ {
			if x, ok := secs[sname(id)]; ok {
				sb.WriteString(vh.Hex(marshalSc(x)))
			}
			if p, ok := pts[pname(id)]; ok {
				sb.WriteString(vh.Hex(marshalPt(p)))
			}
		}
		return sb.String()
	}
	before := snap()
	checkSnap := func(after string) {
		if snap() != before {
			rep.Fail("proof.Prover/caller-secrets-or-points-modified", fmt.Sprintf("%s: the caller's secrets/points changed %s", S.name, after), replay)
		}
	}
	fresh := func(name string, pf []byte) int { return verify(S, in.root, pts, name, pf) }
	nrun := 2 + r.Intn(2)
	for k := 0; k < nrun; k++ {
		name := genName(r)
		var pf []byte
		var err error
		pan, _ := vh.Try(func() { pf, err = proof.HashProve(su, name, prv) })
		rep.Count(fmt.Sprint("reuse", S.name, in.root.coq(), k, name), true)
		rep.Dist(fmt.Sprintf("reuse:prover-hash-run-%d", k+1))
		rep.Dist("suite:" + S.name)
		if pan || err != nil {
			rep.Fail("proof.Prover/reused-prover-fails", fmt.Sprintf("%s: run %d of the same Prover value failed (%v)", S.name, k+1, err), replay)
			return
		}
		checkSnap(fmt.Sprintf("after HashProve run %d", k+1))
		var verr error
		pan, _ = vh.Try(func() { verr = proof.HashVerify(S.s, name, vrf, pf) })
		rep.Dist(fmt.Sprintf("reuse:verifier-run-%d", k+1))
		vf := fresh(name, pf)
		if pan || verr != nil {
			if vf == 0 {
				rep.Fail("proof.Verifier/reused-verifier-rejects", fmt.Sprintf("%s: use %d of the same Verifier value rejects a proof that a fresh Verifier accepts (%v)", S.name, k+1, verr), replay)
			} else {
				rep.Fail("proof.Prover/reused-prover-proof-rejected", fmt.Sprintf("%s: the proof of run %d of the same Prover value (true statement) is rejected: %v", S.name, k+1, verr), replay)
			}
			return
		}
		if vf != 0 {
			rep.Fail("proof.Verifier/reused-verifier-accepts-what-fresh-rejects", fmt.Sprintf("%s: use %d", S.name, k+1), replay)
			return
		}
		checkSnap(fmt.Sprintf("after HashVerify use %d", k+1))
		// the reused verifier still rejects an altered proof
		m := cp(pf)
		m[len(m)-1] ^= 1
		var merr error
		pan, _ = vh.Try(func() { merr = proof.HashVerify(S.s, name, vrf, m) })
		if !pan && merr == nil && !in.degenerate() {
			rep.Fail("proof.Verifier/reused-verifier-accepts-altered", fmt.Sprintf("%s: use %d", S.name, k+1), replay)
		}
	}
	// the same Prover and Verifier values in the deniable context, after the hash context
	if r.Chance(50) {
		g := S.s
		other := genInst(S, r.Fork())
		for len(other.root.reps()) > 6 {
			other = genInst(S, r.Fork())
		}
		op := other.root.build()
		oprv := op.Prover(g, other.secrets(), ptsOf(other.ptv), choiceMap(other.root, other.choice))
		overf := op.Verifier(g, ptsOf(other.ptv))
		protos := []proof.Protocol{
			proof.DeniableProver(g, 0, prv, []proof.Verifier{nil, overf}),
			proof.DeniableProver(g, 1, oprv, []proof.Verifier{vrf, nil}),
		}
		rands := []kyber.XOF{g.XOF(r.Bytes(16)), g.XOF(r.Bytes(16))}
		nodes, _, hung := runClique(protos, rands, nil, 60*time.Second)
		rep.Count(fmt.Sprint("reuse-deniable", S.name, in.root.coq()), true)
		rep.Dist("reuse:prover-hash-then-deniable")
		if hung {
			rep.Fail("proof.DeniableProver/blocked", fmt.Sprintf("%s: reuse run never returned", S.name), replay)
			return
		}
		for i, nd := range nodes {
			if nd.panicd || len(nd.errs) != 2 || nd.errs[0] != nil || nd.errs[1] != nil {
				rep.Fail("proof.Prover/reused-prover-proof-rejected", fmt.Sprintf("%s: deniable run with a Prover/Verifier already used for hash proofs: node %d reports %v", S.name, i, nd.errs), replay)
				return
			}
		}
		checkSnap("after the deniable run")
	}
}

// ---------------------------------------------------------------- main

func main() {
	o := vh.ParseFlags()
	rng := vh.NewRng(o.Seed)
	rep := vh.NewReport("C14", o.Seed, o.Tier)
	rep.Rule = "random predicate trees: top = Rep | And | Or (<= 4 branches, each Rep | And of <= 4 (nested And allowed) | nested Or), <= 3 terms per Rep over 1..5 shared secrets and 1..3 bases, obligated branch uniformly at every position, other branches all-true or each Rep true w.p. 1/2; per tree: honest proof, trailing bytes, field replacement by another valid value / bit flips / field swaps / truncations, changed public points, same-shape and different-shape predicates; protocol names of length-boundary-biased lengths (0,1,5,31..33,63..65,73,127..129,200) and other names differing by an appended / dropped / last / first / random byte and by a byte beyond index 64 / 128; object history: one Predicate, Prover value, Verifier value, secrets map and points map reused for 2..3 hash proofs under different names and then a deniable run, caller's maps compared before/after; single-variable and single-point falsifications; every satisfied branch chosen in turn; edge predicates (Or in And, missing/out-of-range choice, empty Or/And, zero base); forged transcripts; deniable prover over a 2..3-party clique (honest, false statement, altered key/commitment/response). distinct = distinct (tree, variant, proof bytes); all counted cases non-trivial"
	cf := &vh.CaseFile{Header: "From Kyber Require Import Algebra.Zq Sigma.SigmaSM Sigma.SigmaRun.", Type: "case", Runner: "mismatches"}
	c := &ctx{rep: rep, cf: cf, coqOn: !o.Search}

	dl := &suiteT{name: "dlog61", s: vh.NewDlogGroup(vh.Q61, nil), dlog: true}
	ed := &suiteT{name: "ed25519", s: edwards25519.NewBlakeSHA256Ed25519WithRand(random.New())}
	p2 := &suiteT{name: "p256", s: p256.NewBlakeSHA256P256()}
	bn := &suiteT{name: "bn256.G1", s: bn256.NewSuiteG1()}

	nDlog, nEd, nP, nBn, nDen := 110, 25, 8, 6, 12
	if o.Thorough {
		nDlog, nEd, nP, nBn, nDen = 900, 200, 60, 40, 40
	}
	if o.Search {
		nDlog, nEd, nP, nBn, nDen = 1500, 150, 30, 20, 30
	}
	type plan struct {
		S *suiteT
		n int
	}
	for _, pl := range []plan{{dl, nDlog}, {ed, nEd}, {p2, nP}, {bn, nBn}} {
		for i := 0; i < pl.n; i++ {
			r := rng.Fork()
			in := genInst(pl.S, r)
			full := o.Search || (o.Thorough && i%4 == 0) || (!pl.S.dlog && i%3 == 0)
			runTree(c, in, r, full, "honest")
			if i%2 == 0 {
				falsify(c, in, r)
			}
			if i%3 == 0 {
				allChoices(c, in, r)
			}
			if i%3 == 1 || !pl.S.dlog {
				reuseCases(c, in, r)
			}
		}
		r := rng.Fork()
		edgeCases(c, pl.S, r)
		for i := 0; i < 3; i++ {
			forgery(c, pl.S, r)
			forgeryOr(c, pl.S, r)
		}
	}
	modes := []string{"honest", "honest", "false-statement", "tampered-key", "tampered-response", "tampered-commitment"}
	for i := 0; i < nDen; i++ {
		deniable(c, dl, rng.Fork(), modes[i%len(modes)])
	}
	for i := 0; i < nDen/2; i++ {
		deniable(c, ed, rng.Fork(), modes[i%len(modes)])
	}
	for i := 0; i < 1+nDen/24; i++ {
		for _, S := range []*suiteT{dl, ed} {
			collusion(c, S, rng.Fork(), true)
			collusion(c, S, rng.Fork(), false)
		}
	}
	per := 12
	vh.WriteShards(o.Out, "c14", cf, per, rep)
	rep.Write(o.Out)
}
