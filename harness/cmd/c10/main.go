// Harness for property C10 (VSS: certified deals are recoverable; inconsistent
// deals are never approved).
//
// One scenario generator plays a dealer (honest, or misbehaving per verifier)
// and n verifiers of share/vss/pedersen and share/vss/rabin through the real
// code, including the real encryption path, and then feeds every participant
// an arbitrary history of responses (genuine, duplicated, forged),
// justifications (correct, incorrect) and time-outs.
//   - over the transparent dlog group every call, its result class, and
//     DealCertified()/badDealer after it are written as cases for the Coq model
//     (VSS/VssRun.v);
//   - over the dlog group and Ed25519 the property's oracles are evaluated
//     against ground truth the harness keeps itself (who signed what, which
//     deals are consistent with which commitments).
package main

import (
	"bytes"
	"fmt"
	"math/big"
	"strings"

	"go.dedis.ch/kyber/v4"
	"go.dedis.ch/kyber/v4/group/edwards25519"
	"go.dedis.ch/kyber/v4/share"
	"go.dedis.ch/kyber/v4/sign/schnorr"
	"kyverif/vh"
)

type world struct {
	P    Proto
	s    suiteT
	dl   *vh.DlogGroup // nil over a real group
	rng  *vh.Rng
	rep  *vh.Report
	name string
	id   int

	n    int
	t    uint32
	dsec kyber.Scalar
	dpub kyber.Point
	vsec []kyber.Scalar
	vpub []kyber.Point
	H    kyber.Point
	D    Dlr

	sidNames    map[string]string
	junk        int
	items       *[]string
	desc        []string
	ovr         []string
	parts       []*participant
	mainCommits []kyber.Point
}

func (w *world) logf(f string, a ...any) { w.desc = append(w.desc, fmt.Sprintf(f, a...)) }

func (w *world) pick() kyber.Scalar { return w.s.Scalar().Pick(w.s.RandomStream()) }

// ------------------------------------------------------------------ Coq printing (dlog world)

func (w *world) zp(p kyber.Point) string  { return vh.CoqZ(vh.Dlog(p)) }
func (w *world) zs(s kyber.Scalar) string { return vh.CoqZ(vh.ScalarVal(s)) }
func (w *world) zps(ps []kyber.Point) string {
	var l []string
	for _, p := range ps {
		l = append(l, w.zp(p))
	}
	return vh.CoqList(l)
}

func (w *world) regSid(dealer kyber.Point, vs, commits []kyber.Point, t uint32) []byte {
	b := w.P.SessionID(w.s, dealer, vs, commits, t)
	if w.dl != nil {
		l := []string{"1", w.zp(dealer), vh.CoqInt(len(vs))}
		for _, p := range vs {
			l = append(l, w.zp(p))
		}
		l = append(l, vh.CoqInt(len(commits)))
		for _, p := range commits {
			l = append(l, w.zp(p))
		}
		l = append(l, vh.CoqZ(new(big.Int).SetUint64(uint64(t))))
		w.sidNames[string(b)] = vh.CoqList(l)
	}
	return b
}

func (w *world) junkSid() []byte {
	w.junk++
	b := w.rng.Bytes(32)
	w.sidNames[string(b)] = fmt.Sprintf("[0; %d]", w.junk)
	return b
}

func (w *world) sid(b []byte) string {
	if s, ok := w.sidNames[string(b)]; ok {
		return s
	}
	return "[9; 9; 9]" // a session id the harness never produced: will show as a mismatch
}

func u32(x uint32) string { return vh.CoqZ(new(big.Int).SetUint64(uint64(x))) }

func (w *world) cDeal(d *NDeal) string {
	rv := "0"
	if d.RV != nil {
		rv = w.zs(d.RV)
	}
	return fmt.Sprintf("(wdeal %s %s %s %s %s %s %s)", w.sid(d.Sid), u32(d.I), w.zs(d.V), u32(d.RI), rv, u32(d.T), w.zps(d.Commits))
}
func (w *world) cODeal(d *NDeal) string {
	if d == nil {
		return "None"
	}
	return "(Some " + w.cDeal(d) + ")"
}
func (w *world) cResp(r *NResp) string {
	sig := "wjunk"
	if !r.Meta.Junk {
		sig = fmt.Sprintf("(wsig %s %s %s %s)", w.zp(r.Meta.Key), w.sid(r.Meta.Sid), u32(r.Meta.Idx), vh.CoqBool(r.Meta.Appr))
	}
	return fmt.Sprintf("(wresp %s %s %s %s)", w.sid(r.Sid), u32(r.Idx), vh.CoqBool(r.Appr), sig)
}
func (w *world) cEnc(e *NEnc) string {
	m := e.Meta
	signer := "None"
	if m.Signer != nil {
		signer = "(Some " + w.zp(m.Signer) + ")"
	}
	return fmt.Sprintf("(wenc %s %s %s %s %s %s)", signer, w.zp(m.Rcpt), w.zp(m.CDealer), w.zps(m.CVs), vh.CoqBool(m.Intact), w.cODeal(m.Deal))
}
func cObs(out string, cert, bad bool) string {
	return fmt.Sprintf("(%s, %s, %s)", out, vh.CoqBool(cert), vh.CoqBool(bad))
}

// ------------------------------------------------------------------ ground truth

func pointsEq(a, b []kyber.Point) bool {
	if len(a) != len(b) {
		return false
	}
	for i := range a {
		if !a[i].Equal(b[i]) {
			return false
		}
	}
	return true
}

func (w *world) validT(t uint32) bool { return t >= 2 && int(t) <= w.n }

// shareOn: the share of d lies on the polynomial committed to by d.Commits
// (evaluated independently of the vss packages: sum_k (I+1)^k C_k).
func (w *world) shareOn(d *NDeal) bool {
	x := w.s.Scalar().SetInt64(int64(d.I) + 1)
	acc := w.s.Point().Null()
	xp := w.s.Scalar().One()
	for _, c := range d.Commits {
		acc = w.s.Point().Add(acc, w.s.Point().Mul(xp, c))
		xp = w.s.Scalar().Mul(xp, x)
	}
	lhs := w.s.Point().Mul(d.V, nil)
	if w.P.Var() == 1 {
		lhs = w.s.Point().Add(lhs, w.s.Point().Mul(d.RV, w.H))
	}
	return lhs.Equal(acc)
}

// consistent: what the property demands of a deal verifier i may approve
func (w *world) consistent(e *NEnc, i int) bool {
	m := e.Meta
	if m.Signer == nil || !m.Signer.Equal(w.dpub) || !m.Rcpt.Equal(w.vpub[i]) || !m.Intact {
		return false
	}
	if !m.CDealer.Equal(w.dpub) || !pointsEq(m.CVs, w.vpub) || m.Deal == nil {
		return false
	}
	return w.dealConsistent(m.Deal, i)
}

func (w *world) dealConsistent(d *NDeal, i int) bool {
	if d == nil || int(d.I) != i || !w.validT(d.T) {
		return false
	}
	if w.P.Var() == 1 && d.RI != d.I {
		return false
	}
	if !bytes.Equal(d.Sid, w.P.SessionID(w.s, w.dpub, w.vpub, d.Commits, d.T)) {
		return false
	}
	return w.shareOn(d)
}

// the view a participant holds: commitments, threshold and the session id they hash to
type view struct {
	commits []kyber.Point
	t       uint32
	sid     []byte
}

func (w *world) viewOf(d *NDeal) *view {
	return &view{d.Commits, d.T, w.P.SessionID(w.s, w.dpub, w.vpub, d.Commits, d.T)}
}

// ------------------------------------------------------------------ building messages

func (w *world) seal(d *NDeal, rcpt int, class string) *NEnc {
	w.regSid(w.dpub, w.vpub, d.Commits, d.T)
	e, err := w.P.Seal(w.s, w.pick(), w.dsec, w.vpub[rcpt], w.dpub, w.vpub, d)
	if err != nil {
		panic(err)
	}
	e.Meta = encMeta{Signer: w.dpub, Rcpt: w.vpub[rcpt], CDealer: w.dpub, CVs: w.vpub, Intact: true, Deal: d, Class: class}
	return e
}

func (w *world) signResp(r *NResp, key kyber.Scalar) {
	sig, err := schnorr.Sign(w.s, key, w.P.RespHash(w.s, r))
	if err != nil {
		panic(err)
	}
	r.Sig = sig
	r.Meta = sigMeta{Key: w.s.Point().Mul(key, nil), Sid: r.Sid, Idx: r.Idx, Appr: r.Appr}
}

// a second, unrelated sharing by the same dealer for the same verifiers
func (w *world) otherPoly(t uint32) (f, g *share.PriPoly, commits []kyber.Point) {
	f = share.NewPriPoly(w.s, t, nil, w.s.RandomStream())
	F := f.Commit(w.s.Point().Base())
	_, commits = F.Info()
	if w.P.Var() == 1 {
		g = share.NewPriPoly(w.s, t, nil, w.s.RandomStream())
		C, _ := F.Add(g.Commit(w.H))
		_, commits = C.Info()
	}
	return
}

func (w *world) dealFrom(f, g *share.PriPoly, commits []kyber.Point, t uint32, i int) *NDeal {
	d := &NDeal{I: uint32(i), RI: uint32(i), V: f.Eval(uint32(i)).V, T: t, Commits: commits}
	if g != nil {
		d.RV = g.Eval(uint32(i)).V
	}
	d.Sid = w.regSid(w.dpub, w.vpub, commits, t)
	return d
}

// ------------------------------------------------------------------ scenario

var dealClasses = []string{"honest", "honest", "honest", "badshare", "badshare", "badcommits-stale", "badcommits-resid",
	"otherpoly", "wrongindex", "badT-stale", "badT-resid", "otherT", "wrongrecipient", "forgedsig-key", "forgedsig-bytes",
	"wrongctx-verifiers", "wrongctx-dealer", "tampered", "replay", "sid-junk", "sid-swapped", "badrnd", "rndindex", "none",
	"xsession-deal", "forgedsig-transplant", "dhkey-transplant", "equivocate-last", "equivocate-last", "none",
	"mixed-indices", "mixed-indices", "mixed-indices", "extra-commitments", "extra-commitments", "extra-commitments", "missing-commitments"}

type participant struct {
	ver      Ver
	steps    []string // Coq (op, obs)
	view     *view    // the deal it holds (first authentic, well-addressed, session-bound deal)
	ownAppr  bool
	resp     *NResp
	holdsBad bool // received an incorrect justification against a standing complaint
	standing map[uint32]bool
	okJust   map[uint32]bool
	signedOK map[uint32]bool // approvals for this participant's session id, signed by verifier idx, delivered
}

func (w *world) fail(key, desc string, extra map[string]any) {
	r := map[string]any{"world": w.name, "proto": w.P.Name(), "n": w.n, "t": w.t, "history": w.desc}
	for k, v := range extra {
		r[k] = v
	}
	w.rep.Fail(w.P.Name()+"."+key, desc, r)
}

func scenario(w *world, honest bool) {
	rng := w.rng
	P := w.P
	w.n = 3 + rng.Intn(3)
	if rng.Chance(10) {
		w.n = 6
	}
	w.t = uint32(2 + rng.Intn(w.n-1))
	w.sidNames = map[string]string{}
	w.desc = nil
	w.ovr = nil
	w.dsec = w.pick()
	w.dpub = w.s.Point().Mul(w.dsec, nil)
	w.vsec, w.vpub = nil, nil
	for i := 0; i < w.n; i++ {
		k := w.pick()
		w.vsec = append(w.vsec, k)
		w.vpub = append(w.vpub, w.s.Point().Mul(k, nil))
	}
	w.H = P.H(w.s, w.vpub)
	secret := w.pick()
	w.logf("n=%d t=%d honest=%v", w.n, w.t, honest)

	// out-of-range thresholds are refused by NewDealer
	for _, bt := range []uint32{0, 1, uint32(w.n + 1)} {
		if d, err := P.NewDealer(w.s, w.dsec, secret, w.vpub, bt); err == nil || d != nil {
			w.fail("NewDealer/out-of-range-threshold-accepted", fmt.Sprintf("NewDealer accepted t=%d for n=%d", bt, w.n), nil)
		}
	}

	// the dealer; over the dlog group its polynomials are re-derived from the recorded stream
	var fco, gco []kyber.Scalar
	var seedD []byte
	if w.dl != nil {
		seedD = rng.Bytes(16)
		w.dl.Rnd = vh.NewSeqStream(seedD)
	}
	D, err := P.NewDealer(w.s, w.dsec, secret, w.vpub, w.t)
	if err != nil {
		w.fail("NewDealer/valid-threshold-refused", err.Error(), nil)
		return
	}
	w.D = D
	if w.dl != nil {
		w.dl.Rnd = vh.NewSeqStream(seedD)
		fco = share.NewPriPoly(w.s, w.t, secret, w.s.RandomStream()).Coefficients()
		if P.Var() == 1 {
			gco = share.NewPriPoly(w.s, w.t, nil, w.s.RandomStream()).Coefficients()
		}
		w.dl.Rnd = vh.NewSeqStream(rng.Bytes(16))
	}
	honestDeals := make([]*NDeal, w.n)
	for i := range honestDeals {
		honestDeals[i] = D.Plain(i).clone()
	}
	mainView := w.viewOf(honestDeals[0])
	w.regSid(w.dpub, w.vpub, mainView.commits, mainView.t)
	w.sidBinding(mainView, rng)
	w.mainCommits = mainView.commits
	if !bytes.Equal(D.Sid(), mainView.sid) {
		w.fail("NewDealer/session-id", "dealer session id is not the hash of its commitments", nil)
	}
	var dealerPre string
	if w.dl != nil {
		var ds []string
		for _, d := range honestDeals {
			ds = append(ds, w.cDeal(d))
		}
		var fz, gz []string
		for _, c := range fco {
			fz = append(fz, w.zs(c))
		}
		for _, c := range gco {
			gz = append(gz, w.zs(c))
		}
		dealerPre = fmt.Sprintf("%s %s %s %s", vh.CoqList(fz), vh.CoqList(gz), w.zps(honestDeals[0].Commits), vh.CoqList(ds))
	}

	// a second sharing, for equivocation
	of, og, ocommits := w.otherPoly(w.t)

	// a second, complete SESSION of the same dealer key with the same verifier keys (another secret, possibly
	// another threshold), run through the real code: its encrypted deals, its signed responses and its
	// signed justifications are later transplanted into the session under test
	var s2encs []*NEnc
	var s2resps []*NResp
	var s2justs []*NJust
	var s2sid []byte
	if !honest {
		t2 := uint32(2 + rng.Intn(w.n-1))
		D2, err := P.NewDealer(w.s, w.dsec, w.pick(), w.vpub, t2)
		if err != nil {
			panic(err)
		}
		d20 := D2.Plain(0)
		s2sid = w.regSid(w.dpub, w.vpub, d20.Commits, d20.T)
		for i := 0; i < w.n; i++ {
			e2, err := D2.EncDeal(i)
			if err != nil {
				panic(err)
			}
			e2.Meta = encMeta{Signer: w.dpub, Rcpt: w.vpub[i], CDealer: w.dpub, CVs: w.vpub, Intact: true, Deal: D2.Plain(i).clone(), Class: "xsession-deal"}
			s2encs = append(s2encs, e2)
			v2, err := P.NewVerifier(w.s, w.vsec[i], w.dpub, w.vpub)
			if err != nil {
				panic(err)
			}
			r2, err := v2.Enc(e2)
			if err != nil || r2 == nil || !r2.Appr {
				w.fail("honest-run/verifier-did-not-approve", "second session: an honest verifier did not approve an honest deal", map[string]any{"verifier": i})
				continue
			}
			r2.Tag = "xsession"
			s2resps = append(s2resps, r2)
		}
		// real, signed justifications of the second session (answers to signed complaints)
		for i := 0; i < w.n; i++ {
			c := &NResp{Sid: s2sid, Idx: uint32(i), Appr: false}
			w.signResp(c, w.vsec[i])
			if j2, err := D2.Resp(c); err == nil && j2 != nil {
				j2.Tag = "xsession-just"
				j2.Deal = j2.Deal.clone()
				s2justs = append(s2justs, j2)
			}
		}
	}

	// ---- deals
	parts := make([]*participant, w.n)
	w.parts = parts
	pool := []*NResp{}
	classes := make([]string, w.n)
	for i := 0; i < w.n; i++ {
		v, err := P.NewVerifier(w.s, w.vsec[i], w.dpub, w.vpub)
		if err != nil {
			panic(err)
		}
		p := &participant{ver: v, standing: map[uint32]bool{}, okJust: map[uint32]bool{}, signedOK: map[uint32]bool{}}
		parts[i] = p
		class := "honest"
		if !honest {
			class = dealClasses[rng.Intn(len(dealClasses))]
		}
		if P.Var() == 0 && class == "mixed-indices" {
			class = "extra-commitments"
		}
		if class == "missing-commitments" && w.t < 3 {
			class = "extra-commitments"
		}
		if P.Var() == 0 && (class == "badrnd" || class == "rndindex") {
			class = "badshare"
		}
		classes[i] = class
		j := (i + 1 + rng.Intn(w.n-1)) % w.n // another verifier
		base := honestDeals[i].clone()
		var encs []*NEnc
		switch class {
		case "honest":
			e, err := D.EncDeal(i)
			if err != nil {
				panic(err)
			}
			e.Meta = encMeta{Signer: w.dpub, Rcpt: w.vpub[i], CDealer: w.dpub, CVs: w.vpub, Intact: true, Deal: honestDeals[i], Class: class, ViaDeal: true}
			encs = append(encs, e)
		case "badshare":
			if rng.Bool() {
				base.V = w.s.Scalar().Add(base.V, w.s.Scalar().One())
			} else {
				base.V = w.pick()
			}
			D.SetDeal(i, base) // the dealer will later "justify" with this very deal
			if w.dl != nil {
				w.ovr = append(w.ovr, fmt.Sprintf("(%d, %s)", i, w.cDeal(base)))
			}
			e, err := D.EncDeal(i)
			if err != nil {
				panic(err)
			}
			e.Meta = encMeta{Signer: w.dpub, Rcpt: w.vpub[i], CDealer: w.dpub, CVs: w.vpub, Intact: true, Deal: base, Class: class, ViaDeal: true}
			encs = append(encs, e)
		case "badrnd":
			base.RV = w.s.Scalar().Add(base.RV, w.s.Scalar().One())
			encs = append(encs, w.seal(base, i, class))
		case "rndindex":
			base.RI = uint32(j)
			encs = append(encs, w.seal(base, i, class))
		case "badcommits-stale", "badcommits-resid":
			k := rng.Intn(len(base.Commits))
			base.Commits[k] = w.s.Point().Add(base.Commits[k], w.s.Point().Mul(w.pick(), nil))
			if class == "badcommits-resid" {
				base.Sid = w.regSid(w.dpub, w.vpub, base.Commits, base.T)
			}
			encs = append(encs, w.seal(base, i, class))
		case "otherpoly":
			encs = append(encs, w.seal(w.dealFrom(of, og, ocommits, w.t, i), i, class))
		case "wrongindex":
			encs = append(encs, w.seal(honestDeals[j].clone(), i, class))
		case "badT-stale", "badT-resid":
			base.T = w.edgeT(rng)
			if class == "badT-resid" {
				base.Sid = w.regSid(w.dpub, w.vpub, base.Commits, base.T)
			}
			encs = append(encs, w.seal(base, i, class))
		case "otherT":
			base.T = uint32(2 + rng.Intn(w.n-1))
			base.Sid = w.regSid(w.dpub, w.vpub, base.Commits, base.T)
			encs = append(encs, w.seal(base, i, class))
		case "wrongrecipient":
			e := w.seal(honestDeals[i].clone(), j, class) // sealed for j, index i inside, handed to i
			encs = append(encs, e)
		case "forgedsig-key":
			w.regSid(w.dpub, w.vpub, base.Commits, base.T)
			other := w.pick()
			e, err := P.Seal(w.s, w.pick(), other, w.vpub[i], w.dpub, w.vpub, base)
			if err != nil {
				panic(err)
			}
			e.Meta = encMeta{Signer: w.s.Point().Mul(other, nil), Rcpt: w.vpub[i], CDealer: w.dpub, CVs: w.vpub, Intact: true, Deal: base, Class: class}
			encs = append(encs, e)
		case "forgedsig-bytes":
			e := P.Tamper(w.seal(base, i, class), "sig")
			e.Meta.Signer = nil
			encs = append(encs, e)
		case "wrongctx-verifiers", "wrongctx-dealer":
			w.regSid(w.dpub, w.vpub, base.Commits, base.T)
			cvs := append([]kyber.Point(nil), w.vpub...)
			cd := w.dpub
			if class == "wrongctx-verifiers" {
				cvs[i], cvs[j] = cvs[j], cvs[i]
			} else {
				cd = w.vpub[j]
			}
			e, err := P.Seal(w.s, w.pick(), w.dsec, w.vpub[i], cd, cvs, base)
			if err != nil {
				panic(err)
			}
			e.Meta = encMeta{Signer: w.dpub, Rcpt: w.vpub[i], CDealer: cd, CVs: cvs, Intact: true, Deal: base, Class: class}
			encs = append(encs, e)
		case "tampered":
			e := P.Tamper(w.seal(base, i, class), "cipher")
			e.Meta.Intact = false
			encs = append(encs, e)
		case "equivocate-last":
			// another polynomial that differs in ONE coefficient commitment (the last, or a random one), with the
			// matching share and the session id re-hashed: consistent for this verifier, but a different sharing
			k := len(base.Commits) - 1
			if rng.Chance(30) {
				k = rng.Intn(len(base.Commits))
			}
			delta := w.pick()
			xk := w.s.Scalar().One()
			x := w.s.Scalar().SetInt64(int64(i) + 1)
			for e := 0; e < k; e++ {
				xk = w.s.Scalar().Mul(xk, x)
			}
			base.Commits[k] = w.s.Point().Add(base.Commits[k], w.s.Point().Mul(delta, nil))
			base.V = w.s.Scalar().Add(base.V, w.s.Scalar().Mul(delta, xk))
			base.Sid = w.regSid(w.dpub, w.vpub, base.Commits, base.T)
			encs = append(encs, w.seal(base, i, class))
		case "mixed-indices":
			// Rabin: the two shares of the deal carry different indices and / or the values of ANOTHER verifier's
			// honest deal (SecShare.I must stay i, or the deal is refused outright as misaddressed)
			base = w.mixedDeal(honestDeals, i, j, rng.Intn(5))
			encs = append(encs, w.seal(base, i, class))
		case "extra-commitments":
			// one or two EXTRA trailing commitments (index >= t) with the share moved onto the longer polynomial,
			// same claimed T, session id re-hashed: a different sharing of higher degree
			base = w.extendDeal(base, 1+rng.Intn(2))
			encs = append(encs, w.seal(base, i, class))
		case "missing-commitments":
			// a sharing with one commitment FEWER than the claimed T
			sf, sg, scommits := w.otherPoly(w.t - 1)
			encs = append(encs, w.seal(w.dealFrom(sf, sg, scommits, w.t, i), i, class))
		case "xsession-deal":
			// the encrypted deal of the other session, replayed here: a consistent deal of the same dealer
			encs = append(encs, s2encs[i])
			if rng.Bool() {
				encs = append(encs, w.seal(honestDeals[i].clone(), i, "honest-after-xsession"))
			}
		case "forgedsig-transplant":
			// a valid dealer signature, but made over the DH key of another encrypted deal
			e := P.Splice(w.seal(base, i, class), s2encs[i], "sig")
			e.Meta.Signer = nil
			encs = append(encs, e)
		case "dhkey-transplant":
			// the signed DH key of another encrypted deal in front of this ciphertext
			e := P.Splice(w.seal(base, i, class), s2encs[i], "dh")
			e.Meta.Intact = false
			encs = append(encs, e)
		case "replay":
			e := w.seal(base, i, class)
			encs = append(encs, e, e)
			if rng.Bool() {
				encs = append(encs, w.seal(w.dealFrom(of, og, ocommits, w.t, i), i, "replay-other"))
			}
		case "sid-junk":
			base.Sid = w.junkSid()
			encs = append(encs, w.seal(base, i, class))
			if rng.Bool() {
				encs = append(encs, w.seal(honestDeals[i].clone(), i, "honest-after-junk"))
			}
		case "sid-swapped":
			// commitments of the other sharing, labelled with the main session id
			d := w.dealFrom(of, og, ocommits, w.t, i)
			d.Sid = mainView.sid
			encs = append(encs, w.seal(d, i, class))
		case "none":
		}
		w.logf("verifier %d: %s", i, class)
		for k, e := range encs {
			w.deliverEnc(p, i, e, k)
		}
		if p.resp != nil {
			pool = append(pool, p.resp)
		}
	}

	// ---- forged / duplicated responses
	nReal := len(pool)
	if !honest {
		sids := [][]byte{mainView.sid, w.regSid(w.dpub, w.vpub, ocommits, w.t), w.junkSid()}
		for k := 0; k < 2+rng.Intn(2*w.n); k++ {
			idx := uint32(rng.Intn(w.n))
			var r *NResp
			if nReal > 0 && rng.Chance(50) {
				c := *pool[rng.Intn(nReal)]
				r = &c
			} else {
				r = &NResp{Sid: sids[rng.Intn(2)], Idx: idx, Appr: rng.Chance(70)}
				w.signResp(r, w.vsec[idx])
				r.Tag = "verifier-signed"
			}
			switch rng.Intn(11) {
			case 8, 9: // signed by the verifier for ANOTHER session id, SessionID field then rewritten to this session
				r.Sid = [][]byte{sids[1], sids[2], s2sid}[rng.Intn(3)]
				w.signResp(r, w.vsec[r.Idx])
				r.Sid = mainView.sid
				r.Tag = "sid-rewritten"
			case 10: // signed by verifier i over ANOTHER index, Index field then rewritten to i
				i := r.Idx
				r.Idx = uint32((int(i) + 1 + rng.Intn(w.n-1)) % w.n)
				w.signResp(r, w.vsec[i])
				r.Idx = i
				r.Tag = "index-rewritten"
			case 0: // approval bit flipped after signing
				r.Appr = !r.Appr
				r.Tag = "flipped"
			case 1: // signed by somebody else
				other := w.vsec[(int(r.Idx)+1)%w.n]
				if rng.Bool() {
					other = w.pick()
				}
				w.signResp(r, other)
				r.Tag = "wrong-key"
			case 2: // other session id, properly signed by the verifier
				r.Sid = sids[rng.Intn(3)]
				w.signResp(r, w.vsec[r.Idx])
				r.Tag = "other-sid"
			case 3: // index out of range
				r.Idx = uint32(w.n + rng.Intn(3))
				w.signResp(r, w.vsec[rng.Intn(w.n)])
				r.Tag = "index-out-of-range"
			case 4: // junk signature
				r.Sig = rng.Bytes(len(r.Sig))
				r.Meta = sigMeta{Junk: true}
				r.Tag = "junk-sig"
			case 5: // index changed after signing
				r.Idx = uint32((int(r.Idx) + 1) % w.n)
				r.Tag = "index-moved"
			default: // a verifier changing its mind / approving although it complained: properly signed
				r.Appr = !r.Appr
				w.signResp(r, w.vsec[r.Idx])
				r.Tag = "equivocation"
			}
			pool = append(pool, r)
		}
		// cross-session replay: the genuine responses of the second session, unchanged and with the
		// (unsigned) SessionID field rewritten to this session
		for _, r2 := range s2resps {
			if rng.Chance(50) {
				c := *r2
				pool = append(pool, &c)
			}
			c := *r2
			c.Sid = mainView.sid
			c.Tag = "xsession-sid-rewritten"
			pool = append(pool, &c)
		}
	}

	// ---- justifications the dealer may broadcast
	mkJusts := func(idx int) []*NJust {
		l := []*NJust{{Idx: uint32(idx), Deal: honestDeals[idx].clone(), Tag: "good"}}
		if honest {
			return l
		}
		bs := honestDeals[idx].clone()
		bs.V = w.s.Scalar().Add(bs.V, w.s.Scalar().One())
		j := (idx + 1) % w.n
		oc := w.dealFrom(of, og, ocommits, w.t, idx)
		ocStale := oc.clone()
		ocStale.Sid = mainView.sid
		bt := honestDeals[idx].clone()
		bt.T = uint32(w.n + 1)
		l = append(l,
			&NJust{Idx: uint32(idx), Deal: bs, Tag: "bad-share"},
			&NJust{Idx: uint32(idx), Deal: honestDeals[j].clone(), Tag: "other-index"},
			&NJust{Idx: uint32(idx), Deal: oc, Tag: "other-commitments"},
			&NJust{Idx: uint32(idx), Deal: ocStale, Tag: "other-commitments-main-sid"},
			&NJust{Idx: uint32(idx), Deal: bt, Tag: "bad-T"},
			&NJust{Idx: uint32(idx), Deal: nil, Tag: "nil-deal"},
			&NJust{Idx: uint32(w.n + rng.Intn(2)), Deal: honestDeals[idx].clone(), Tag: "index-out-of-range"},
			&NJust{Idx: uint32(idx), Deal: D.Plain(idx).clone(), Tag: "dealer-current"},
			&NJust{Idx: uint32(idx), Deal: w.extendDeal(honestDeals[idx].clone(), 1), Tag: "extra-commitments"})
		if P.Var() == 1 {
			for k := 0; k < 5; k++ {
				l = append(l, &NJust{Idx: uint32(idx), Deal: w.mixedDeal(honestDeals, idx, j, k), Tag: "mixed-indices"})
			}
		}
		// cross-session: the signed justification of the second session, as is, with the deal's session id
		// rewritten, and with this session's good deal put under the other session's signature
		for _, j2 := range s2justs {
			if int(j2.Idx) != idx {
				continue
			}
			a := *j2
			b := *j2
			b.Deal = j2.Deal.clone()
			b.Deal.Sid = mainView.sid
			b.Sid = mainView.sid
			b.Tag = "xsession-just-sid-rewritten"
			l = append(l, &a, &b)
		}
		return l
	}

	// ---- histories at every verifier
	for i, p := range parts {
		nops := w.n + rng.Intn(2*w.n+3)
		if honest {
			nops = 0
		}
		order := rng.Fork()
		if honest {
			// everybody's response, in a random order, with an occasional duplicate
			perm := permute(order, len(pool))
			for _, k := range perm {
				if int(pool[k].Idx) != i || order.Chance(20) {
					w.deliverResp(p, i, pool[k])
				}
			}
			if order.Chance(30) {
				w.deliverResp(p, i, pool[order.Intn(len(pool))])
			}
		}
		for k := 0; k < nops; k++ {
			switch c := order.Intn(100); {
			case c < 55 && len(pool) > 0:
				w.deliverResp(p, i, pool[order.Intn(len(pool))])
			case c < 85:
				js := mkJusts(order.Intn(w.n))
				j := js[0]
				if order.Chance(60) {
					j = js[order.Intn(len(js))]
				}
				w.deliverJust(p, i, j)
			case c < 93:
				w.deliverTimeout(p, i)
			default:
				e := w.seal(honestDeals[i].clone(), i, "late-deal")
				if len(s2encs) == w.n && order.Chance(30) {
					e = s2encs[i]
				}
				w.deliverEnc(p, i, e, 99)
			}
		}
		if honest && order.Chance(30) {
			w.deliverTimeout(p, i)
		}
		if w.dl != nil {
			w.id++
			*w.items = append(*w.items, fmt.Sprintf("(CVer %d %d %s %s %s %d %s %s)", w.id, P.Var(), w.hz(), w.zp(w.dpub), w.zps(w.vpub), i, w.zp(w.vpub[i]), vh.CoqList(p.steps)))
			w.rep.Index(w.id, map[string]any{"kind": "verifier", "proto": P.Name(), "n": w.n, "t": w.t, "index": i, "class": classes[i], "history": w.desc})
			w.rep.Count(strings.Join(p.steps, ";"), len(p.steps) > 1)
		}
	}

	// ---- threshold probes: fresh verifiers, each handed one otherwise perfect deal whose threshold is out of
	// range (every boundary of the uint32 / int32 / n ranges), with the session id re-hashed for that threshold
	if !honest {
		for k := 0; k < 4; k++ {
			i := rng.Intn(w.n)
			v, err := P.NewVerifier(w.s, w.vsec[i], w.dpub, w.vpub)
			if err != nil {
				panic(err)
			}
			p := &participant{ver: v, standing: map[uint32]bool{}, okJust: map[uint32]bool{}, signedOK: map[uint32]bool{}}
			d := honestDeals[i].clone()
			d.T = w.edgeT(rng)
			class := "probeT-resid"
			if rng.Chance(75) {
				d.Sid = w.regSid(w.dpub, w.vpub, d.Commits, d.T)
			} else {
				class = "probeT-stale"
			}
			w.logf("threshold probe: verifier %d T=%d %s", i, d.T, class)
			w.deliverEnc(p, i, w.seal(d, i, class), 0)
			w.deliverTimeout(p, i)
			if w.dl != nil {
				w.id++
				*w.items = append(*w.items, fmt.Sprintf("(CVer %d %d %s %s %s %d %s %s)", w.id, P.Var(), w.hz(), w.zp(w.dpub), w.zps(w.vpub), i, w.zp(w.vpub[i]), vh.CoqList(p.steps)))
				w.rep.Index(w.id, map[string]any{"kind": "threshold-probe", "proto": P.Name(), "n": w.n, "T": d.T, "index": i, "class": class})
				w.rep.Count(strings.Join(p.steps, ";"), true)
			}
		}
	}

	// ---- justification probe: a fresh verifier with an honest deal, two signed complaints, then incorrect and
	// correct justifications in every order, the remaining approvals and a time-out: an incorrect justification
	// must stick whatever follows
	if !honest && w.n >= 3 {
		i := rng.Intn(w.n)
		v, err := P.NewVerifier(w.s, w.vsec[i], w.dpub, w.vpub)
		if err != nil {
			panic(err)
		}
		p := &participant{ver: v, standing: map[uint32]bool{}, okJust: map[uint32]bool{}, signedOK: map[uint32]bool{}}
		w.logf("justification probe at verifier %d", i)
		w.deliverEnc(p, i, w.seal(honestDeals[i].clone(), i, "probe-honest"), 0)
		c1, c2 := (i+1)%w.n, (i+2)%w.n
		for j := 0; j < w.n; j++ {
			if j == i {
				continue
			}
			r := &NResp{Sid: mainView.sid, Idx: uint32(j), Appr: j != c1 && j != c2}
			w.signResp(r, w.vsec[j])
			r.Tag = "verifier-signed"
			w.deliverResp(p, i, r)
		}
		bad := honestDeals[c1].clone()
		bad.V = w.s.Scalar().Add(bad.V, w.s.Scalar().One())
		js := []*NJust{{Idx: uint32(c1), Deal: bad, Tag: "bad-share"}, {Idx: uint32(c1), Deal: honestDeals[c1].clone(), Tag: "good"},
			{Idx: uint32(c2), Deal: honestDeals[c2].clone(), Tag: "good"}}
		if rng.Chance(30) {
			js[0] = &NJust{Idx: uint32(c1), Deal: honestDeals[c2].clone(), Tag: "other-index"}
		}
		for _, k := range permute(rng, len(js)) {
			w.deliverJust(p, i, js[k])
		}
		if rng.Bool() {
			w.deliverJust(p, i, js[1])
		}
		w.deliverTimeout(p, i)
		if w.dl != nil {
			w.id++
			*w.items = append(*w.items, fmt.Sprintf("(CVer %d %d %s %s %s %d %s %s)", w.id, P.Var(), w.hz(), w.zp(w.dpub), w.zps(w.vpub), i, w.zp(w.vpub[i]), vh.CoqList(p.steps)))
			w.rep.Index(w.id, map[string]any{"kind": "justification-probe", "proto": P.Name(), "n": w.n, "t": w.t, "index": i, "history": w.desc[len(w.desc)-min(len(w.desc), 12):]})
			w.rep.Count(strings.Join(p.steps, ";"), true)
		}
	}

	// ---- the dealer's own history
	w.dealerHistory(pool, honest, dealerPre, secret, classes)

	// ---- honest run: certification and recovery
	if honest {
		w.honestOracles(parts, secret, honestDeals)
	}
	w.rep.Dist(P.Name() + "/" + map[bool]string{true: "honest", false: "adversarial"}[honest] + "/" + w.name)
}

// sidBinding: the session id must change with every single input it is meant to bind
func (w *world) sidBinding(mv *view, rng *vh.Rng) {
	diff := func(field string, dealer kyber.Point, vs, cs []kyber.Point, t uint32) {
		if bytes.Equal(w.P.SessionID(w.s, dealer, vs, cs, t), mv.sid) {
			w.fail("sessionID/does-not-bind:"+field, "the session id does not change when "+field+" changes", nil)
		}
	}
	other := w.s.Point().Mul(w.pick(), nil)
	diff("dealer", other, w.vpub, mv.commits, mv.t)
	diff("threshold", w.dpub, w.vpub, mv.commits, mv.t+1)
	for k := range w.vpub {
		vs := append([]kyber.Point(nil), w.vpub...)
		vs[k] = other
		diff(fmt.Sprintf("verifier[%d of %d]", k, len(vs)), w.dpub, vs, mv.commits, mv.t)
	}
	for k := range mv.commits {
		cs := append([]kyber.Point(nil), mv.commits...)
		cs[k] = w.s.Point().Add(cs[k], w.s.Point().Base())
		pos := "middle"
		if k == 0 {
			pos = "first"
		} else if k == len(cs)-1 {
			pos = "last"
		}
		diff("commitment["+pos+"]", w.dpub, w.vpub, cs, mv.t)
	}
	if len(w.vpub) > 1 && !w.vpub[0].Equal(w.vpub[1]) {
		vs := append([]kyber.Point(nil), w.vpub...)
		vs[0], vs[1] = vs[1], vs[0]
		diff("verifier order", w.dpub, vs, mv.commits, mv.t)
	}
	diff("commitments truncated", w.dpub, w.vpub, mv.commits[:len(mv.commits)-1], mv.t)
	ext := append(append([]kyber.Point(nil), mv.commits...), other)
	diff("commitments extended", w.dpub, w.vpub, ext, mv.t)
	diff("commitments extended by the identity", w.dpub, w.vpub, append(append([]kyber.Point(nil), mv.commits...), w.s.Point().Null()), mv.t)
	diff("commitments extended twice", w.dpub, w.vpub, append(ext, w.s.Point().Base()), mv.t)
}

// mixedDeal (Rabin): a deal for verifier i whose two shares disagree in index and / or carry verifier k's values
func (w *world) mixedDeal(honestDeals []*NDeal, i, k, kind int) *NDeal {
	d := honestDeals[i].clone()
	o := honestDeals[k]
	switch kind {
	case 0: // sec value and rnd share of k, rnd index k
		d.V, d.RV, d.RI = o.V.Clone(), o.RV.Clone(), o.RI
	case 1: // both values of k, both indices i
		d.V, d.RV = o.V.Clone(), o.RV.Clone()
	case 2: // own sec share, rnd share of k as is
		d.RV, d.RI = o.RV.Clone(), o.RI
	case 3: // sec value of k, own rnd share, rnd index k
		d.V, d.RI = o.V.Clone(), o.RI
	default: // own values, only the rnd index moved
		d.RI = o.RI
	}
	return d
}

// extendDeal: extra trailing commitments r*G at indices >= len, the share moved onto the longer polynomial
func (w *world) extendDeal(d *NDeal, extra int) *NDeal {
	x := w.s.Scalar().SetInt64(int64(d.I) + 1)
	for e := 0; e < extra; e++ {
		r := w.pick()
		xp := w.s.Scalar().One()
		for k := 0; k < len(d.Commits); k++ {
			xp = w.s.Scalar().Mul(xp, x)
		}
		d.Commits = append(d.Commits, w.s.Point().Mul(r, nil))
		d.V = w.s.Scalar().Add(d.V, w.s.Scalar().Mul(r, xp))
	}
	d.Sid = w.regSid(w.dpub, w.vpub, d.Commits, d.T)
	return d
}

// edgeT: an out-of-range threshold, from every boundary a range check could get wrong
func (w *world) edgeT(rng *vh.Rng) uint32 {
	n := uint32(w.n)
	c := []uint32{0, 1, n + 1, n + 2, n + 7, 255, 256 + n, 65535, 65536 + 2, 1<<31 - 1, 1 << 31, 1<<31 + 2, 1<<31 + n, 1<<31 + n + 1,
		0xC0000002, 1<<32 - 1 - n, 1<<32 - 2, 1<<32 - 1}
	return c[rng.Intn(len(c))]
}

func (w *world) hz() string {
	if w.H == nil {
		return "0"
	}
	return w.zp(w.H)
}

func permute(r *vh.Rng, n int) []int {
	p := make([]int, n)
	for i := range p {
		p[i] = i
	}
	for i := n - 1; i > 0; i-- {
		j := r.Intn(i + 1)
		p[i], p[j] = p[j], p[i]
	}
	return p
}

func errClass(err error, panicked bool) string {
	if panicked {
		return "XPanic"
	}
	if err != nil {
		return "XErr"
	}
	return "XOk"
}

// ------------------------------------------------------------------ deliveries (with oracles)

func (w *world) deliverEnc(p *participant, i int, e *NEnc, k int) {
	var r *NResp
	var err error
	panicked, msg := vh.Try(func() { r, err = p.ver.Enc(e) })
	class := e.Meta.Class
	w.logf("  v%d <- deal[%s] -> resp=%v err=%v", i, class, r != nil && r.Appr, err != nil)
	w.rep.Dist("deal:" + class)
	cons := w.consistent(e, i)
	first := p.view == nil
	// the deal a verifier holds: the first authentic, well-addressed, session-bound one
	m := e.Meta
	authentic := m.Signer != nil && m.Signer.Equal(w.dpub) && m.Rcpt.Equal(w.vpub[i]) && m.Intact &&
		m.CDealer.Equal(w.dpub) && pointsEq(m.CVs, w.vpub) && m.Deal != nil && int(m.Deal.I) == i
	if first && authentic && bytes.Equal(m.Deal.Sid, w.P.SessionID(w.s, w.dpub, w.vpub, m.Deal.Commits, m.Deal.T)) {
		p.view = w.viewOf(m.Deal)
	}
	switch {
	case panicked:
		w.fail("ProcessEncryptedDeal/panic:"+class, "panic: "+msg, nil)
	case r != nil && r.Appr && !cons:
		w.fail("ProcessEncryptedDeal/approved-inconsistent-deal:"+class, "a verifier approved a deal that is not consistent / not authentic", map[string]any{"verifier": i})
	case r != nil && r.Appr && !first:
		w.fail("ProcessEncryptedDeal/approved-second-deal:"+class, "a verifier approved a second deal", map[string]any{"verifier": i})
	case cons && first && p.resp == nil && (r == nil || !r.Appr):
		w.fail("ProcessEncryptedDeal/rejected-consistent-deal:"+class, fmt.Sprintf("a consistent first deal was not approved (err=%v)", err), map[string]any{"verifier": i})
	case r == nil && err == nil:
		w.fail("ProcessEncryptedDeal/no-response-no-error:"+class, "neither a response nor an error", nil)
	}
	out := errClass(err, panicked)
	if r != nil {
		sv := schnorr.Verify(w.s, w.vpub[i], w.P.RespHash(w.s, r), r.Sig) == nil
		if !sv || int(r.Idx) != i {
			w.fail("ProcessEncryptedDeal/response-not-authentic", "the response does not verify under the verifier's key or carries another index", nil)
		}
		if m.Deal != nil && !bytes.Equal(r.Sid, w.P.SessionID(w.s, w.dpub, w.vpub, m.Deal.Commits, m.Deal.T)) {
			w.fail("ProcessEncryptedDeal/response-session-id", "the response's session id is not the hash of the deal's commitments", nil)
		}
		if w.dl != nil {
			out = fmt.Sprintf("(XResp %s %s %s %s)", w.sid(r.Sid), u32(r.Idx), vh.CoqBool(r.Appr), vh.CoqBool(sv))
		}
		if m.Deal != nil {
			r.About, r.AboutCommits, r.AboutT = true, m.Deal.Commits, m.Deal.T
		}
		if p.resp == nil {
			p.resp = r
			if r.Appr {
				p.ownAppr = true
			} else {
				p.standing[uint32(i)] = true
			}
		}
	}
	w.after(p, i, fmt.Sprintf("VEnc %s", w.cEncIf(e)), out)
}

func (w *world) cEncIf(e *NEnc) string {
	if w.dl == nil {
		return ""
	}
	return w.cEnc(e)
}

func (w *world) deliverResp(p *participant, i int, r *NResp) {
	var err error
	panicked, _ := vh.Try(func() { err = p.ver.Resp(r) })
	w.logf("  v%d <- resp[%s idx=%d appr=%v] err=%v panic=%v", i, r.Tag, r.Idx, r.Appr, err != nil, panicked)
	w.rep.Dist("resp:" + r.Tag)
	if err == nil && !panicked {
		w.noteAccepted(p, r)
	}
	op := ""
	if w.dl != nil {
		op = "VResp " + w.cResp(r)
	}
	w.after(p, i, op, errClass(err, panicked))
}

// noteAccepted: ground truth about a response the participant took without error
func (w *world) noteAccepted(p *participant, r *NResp) {
	if r.Meta.Junk || int(r.Idx) >= w.n {
		w.fail("verifyResponse/accepted-unsigned-response:"+r.Tag, "a response without a valid signature of verifier Index was accepted", nil)
		return
	}
	genuine := r.Meta.Key.Equal(w.vpub[r.Idx]) && bytes.Equal(r.Meta.Sid, r.Sid) && r.Meta.Idx == r.Idx && r.Meta.Appr == r.Appr
	if !genuine {
		w.fail("verifyResponse/accepted-forged-response:"+r.Tag, "a response not signed by verifier Index over exactly its content was accepted", nil)
		return
	}
	if p.view != nil && !bytes.Equal(r.Sid, p.view.sid) {
		w.fail("verifyResponse/accepted-other-session:"+r.Tag, "a response for another session id was accepted", nil)
		return
	}
	if r.Tag == "real" && r.About && p.view != nil && (!pointsEq(r.AboutCommits, p.view.commits) || r.AboutT != p.view.t) {
		w.fail("verifyResponse/accepted-response-about-other-commitments", "the response of a verifier holding other commitments / another threshold was counted for this deal", nil)
		return
	}
	if r.Appr {
		p.signedOK[r.Idx] = true
	} else if !p.signedOK[r.Idx] && !p.okJust[r.Idx] {
		p.standing[r.Idx] = true
	}
}

func (w *world) correctJust(p *participant, j *NJust) bool {
	if j.Deal == nil || int(j.Idx) >= w.n || j.Deal.I != j.Idx {
		return false
	}
	d := j.Deal
	if p.view == nil {
		// a verifier without a deal (its own was refused) takes the revealed one as reference
		return w.dealConsistent(d, int(j.Idx))
	}
	return w.dealConsistent(d, int(j.Idx)) && pointsEq(d.Commits, p.view.commits) && d.T == p.view.t && bytes.Equal(d.Sid, p.view.sid)
}

func (w *world) deliverJust(p *participant, i int, j *NJust) {
	var err error
	panicked, msg := vh.Try(func() { err = p.ver.Just(j) })
	w.logf("  v%d <- just[%s idx=%d] err=%v panic=%v", i, j.Tag, j.Idx, err != nil, panicked)
	w.rep.Dist("just:" + j.Tag)
	correct := w.correctJust(p, j)
	standing := p.standing[j.Idx]
	if panicked && p.view != nil {
		w.fail("verifyJustification/panic:"+j.Tag, "panic: "+msg, nil)
	}
	if standing && !panicked {
		switch {
		case correct && err != nil && !p.holdsBad:
			w.fail("verifyJustification/correct-justification-refused:"+j.Tag, "a correct justification of a standing complaint was refused: "+err.Error(), nil)
		case !correct && err == nil:
			w.fail("verifyJustification/incorrect-justification-accepted:"+j.Tag, "an incorrect justification cleared a complaint", nil)
		case !correct && !p.ver.Bad():
			w.fail("verifyJustification/incorrect-justification-not-flagged:"+j.Tag, "an incorrect justification did not mark the dealer bad", nil)
		}
		if correct && err == nil {
			p.okJust[j.Idx] = true
			delete(p.standing, j.Idx)
			if p.view == nil {
				p.view = w.viewOf(j.Deal)
			}
		}
		if !correct {
			p.holdsBad = true
		}
	} else if err == nil && !panicked && !correct {
		w.fail("verifyJustification/incorrect-justification-accepted:"+j.Tag, "an incorrect justification was accepted", nil)
	} else if err == nil && !panicked && correct {
		// accepted although the harness saw no standing complaint: count it anyway
		p.okJust[j.Idx] = true
	}
	op := ""
	if w.dl != nil {
		op = fmt.Sprintf("VJust (wjust %s %s)", u32(j.Idx), w.cODeal(j.Deal))
	}
	w.after(p, i, op, errClass(err, panicked))
}

func (w *world) deliverTimeout(p *participant, i int) {
	panicked, _ := vh.Try(func() { p.ver.Timeout() })
	w.logf("  v%d <- timeout panic=%v", i, panicked)
	w.rep.Dist("timeout")
	w.after(p, i, "VTimeout", errClass(nil, panicked))
}

// after every call: observe DealCertified / badDealer, evaluate the certification oracle
func (w *world) after(p *participant, i int, op, out string) {
	var cert, bad bool
	panicked, msg := vh.Try(func() { cert = p.ver.Certified(); bad = p.ver.Bad() })
	if panicked {
		w.fail("DealCertified/panic", msg, nil)
	}
	if w.dl != nil {
		p.steps = append(p.steps, fmt.Sprintf("(%s, %s)", op, cObs(out, cert, bad)))
	}
	if p.holdsBad && !bad {
		w.fail("badDealer/not-forever", "the dealer was marked bad by an incorrect justification and is not any more", map[string]any{"verifier": i})
	}
	if cert {
		w.rep.Dist("certified-observations")
		if p.view == nil {
			w.fail("DealCertified/certified-without-deal", "a verifier that holds no deal reports it certified", map[string]any{"verifier": i})
			return
		}
		cnt := 0
		for k := 0; k < w.n; k++ {
			if p.signedOK[uint32(k)] || p.okJust[uint32(k)] || (k == i && p.ownAppr) {
				cnt++
			}
		}
		if cnt < int(p.view.t) || !w.validT(p.view.t) {
			w.fail("DealCertified/certified-with-fewer-than-t-approvals",
				fmt.Sprintf("certified with %d verifiers having approved or been correctly justified, t=%d", cnt, p.view.t), map[string]any{"verifier": i})
		}
		if p.holdsBad {
			w.fail("DealCertified/certified-after-invalid-justification", "certified although the dealer produced an invalid justification", map[string]any{"verifier": i})
		}
	}
}

// ------------------------------------------------------------------ dealer

func (w *world) dealerHistory(pool []*NResp, honest bool, pre string, secret kyber.Scalar, classes []string) {
	rng := w.rng.Fork()
	D := w.D
	var steps []string
	signedOK := map[uint32]bool{}
	obs := func(op, out string) {
		cert, bad := D.Certified(), D.Bad()
		if w.dl != nil {
			steps = append(steps, fmt.Sprintf("(%s, %s)", op, cObs(out, cert, bad)))
		}
		sc := D.SecretCommit()
		if cert {
			if len(signedOK) < int(w.t) {
				w.fail("Dealer.DealCertified/certified-with-fewer-than-t-approvals", fmt.Sprintf("dealer certified with %d signed approvals, t=%d", len(signedOK), w.t), nil)
			}
			if sc == nil || !sc.Equal(w.s.Point().Mul(secret, nil)) {
				w.fail("Dealer.SecretCommit/wrong", "certified but SecretCommit is not secret*G", nil)
			}
		} else if sc != nil {
			w.fail("Dealer.SecretCommit/uncertified", "SecretCommit returned a value for an uncertified deal", nil)
		}
	}
	deliver := func(r *NResp) {
		var j *NJust
		var err error
		panicked, msg := vh.Try(func() { j, err = D.Resp(r) })
		if panicked {
			w.fail("Dealer.ProcessResponse/panic:"+r.Tag, msg, nil)
		}
		w.logf("  dealer <- resp[%s idx=%d appr=%v] err=%v just=%v", r.Tag, r.Idx, r.Appr, err != nil, j != nil)
		out := errClass(err, panicked)
		if err == nil && !panicked {
			genuine := !r.Meta.Junk && int(r.Idx) < w.n && r.Meta.Key.Equal(w.vpub[r.Idx]) && bytes.Equal(r.Meta.Sid, r.Sid) && r.Meta.Idx == r.Idx && r.Meta.Appr == r.Appr
			if !genuine || !bytes.Equal(r.Sid, D.Sid()) {
				w.fail("Dealer.ProcessResponse/accepted-forged-response:"+r.Tag, "the dealer accepted a forged response or one for another session", nil)
			} else if r.Tag == "real" && r.About && (!pointsEq(r.AboutCommits, w.mainCommits) || r.AboutT != w.t) {
				w.fail("Dealer.ProcessResponse/accepted-response-about-other-commitments", "the dealer counted the response of a verifier holding other commitments / another threshold", nil)
			} else if r.Appr {
				signedOK[r.Idx] = true
			}
			if (j != nil) != !r.Appr {
				w.fail("Dealer.ProcessResponse/justification", "a justification is returned exactly for complaints", nil)
			}
		}
		if j != nil && w.dl != nil {
			out = fmt.Sprintf("(XJust %s %s)", u32(j.Idx), w.cODeal(j.Deal))
		}
		op := ""
		if w.dl != nil {
			op = "DResp " + w.cResp(r)
		}
		obs(op, out)
	}
	if honest {
		for _, k := range permute(rng, len(pool)) {
			deliver(pool[k])
		}
		if rng.Chance(30) {
			deliver(pool[rng.Intn(len(pool))])
		}
		if !D.Certified() {
			w.fail("Dealer.DealCertified/honest-run-not-certified", "all verifiers approved an honest dealer's deals but the dealer's deal is not certified", nil)
		}
	} else {
		nops := w.n + rng.Intn(2*w.n)
		for k := 0; k < nops; k++ {
			if rng.Chance(88) && len(pool) > 0 {
				deliver(pool[rng.Intn(len(pool))])
			} else {
				D.Timeout()
				w.logf("  dealer <- timeout")
				obs("DTimeout", "XOk")
			}
		}
	}
	if w.dl != nil {
		sc := "None"
		if p := D.SecretCommit(); p != nil {
			sc = "(Some " + w.zp(p) + ")"
		}
		w.id++
		// note: deals replaced through VerifSetDeal are not part of the dealer model's state; justifications
		// for them are compared only when the dealer is unmodified
		*w.items = append(*w.items, fmt.Sprintf("(CDeal %d %d %s %s %s %s %s %s %s %s)", w.id, w.P.Var(), w.hz(), w.zp(w.dpub), w.zps(w.vpub), u32(w.t), pre, vh.CoqList(w.ovr), vh.CoqList(steps), sc))
		w.rep.Index(w.id, map[string]any{"kind": "dealer", "proto": w.P.Name(), "n": w.n, "t": w.t, "classes": classes, "history": w.desc})
		w.rep.Count(strings.Join(steps, ";"), len(steps) > 1)
	}
}

// ------------------------------------------------------------------ honest run

func (w *world) honestOracles(parts []*participant, secret kyber.Scalar, honestDeals []*NDeal) {
	var deals []*NDeal
	for i, p := range parts {
		if !p.ownAppr {
			w.fail("honest-run/verifier-did-not-approve", "an honest verifier did not approve an honest deal", map[string]any{"verifier": i})
		}
		if !p.ver.Certified() {
			w.fail("honest-run/not-certified", "after all approvals an honest verifier does not see the deal certified", map[string]any{"verifier": i})
			return
		}
		d := p.ver.Deal()
		if d == nil {
			w.fail("honest-run/no-deal", "Deal() is nil although certified", map[string]any{"verifier": i})
			return
		}
		if !pointsEq(d.Commits, honestDeals[0].Commits) {
			w.fail("honest-run/commitments", "a verifier's commitments differ from the dealer's", nil)
		}
		deals = append(deals, d)
	}
	// the published commitment is the commitment of the recovered secret
	sG := w.s.Point().Mul(secret, nil)
	c0 := honestDeals[0].Commits[0]
	if w.P.Var() == 0 && !c0.Equal(sG) {
		w.fail("honest-run/secret-commitment", "commitment 0 is not secret*G", nil)
	}
	// every subset of exactly t deals (and a few bigger ones, in arbitrary order) recovers the secret
	n := w.n
	for mask := 1; mask < 1<<n; mask++ {
		var sub []*NDeal
		for i := 0; i < n; i++ {
			if mask>>i&1 == 1 {
				sub = append(sub, deals[i])
			}
		}
		if len(sub) != int(w.t) && !(len(sub) > int(w.t) && w.rng.Chance(15)) && !(len(sub) == int(w.t)-1 && w.rng.Chance(10)) {
			continue
		}
		ord := permute(w.rng, len(sub))
		var l []*NDeal
		for _, k := range ord {
			l = append(l, sub[k])
		}
		var got kyber.Scalar
		var err error
		panicked, msg := vh.Try(func() { got, err = w.P.Recover(w.s, l, uint32(n), w.t) })
		if panicked {
			w.fail("RecoverSecret/panic", msg, nil)
			continue
		}
		if len(sub) >= int(w.t) {
			if err != nil || !got.Equal(secret) {
				w.fail("RecoverSecret/wrong-secret", fmt.Sprintf("%d of %d certified deals (t=%d) do not recover the dealer's secret (err=%v)", len(sub), n, w.t, err), map[string]any{"mask": mask})
			}
		} else if err == nil {
			w.fail("RecoverSecret/fewer-than-t", "fewer than t deals recovered something", nil)
		}
		w.rep.Dist("recover")
		if w.dl != nil && w.rng.Chance(40) {
			var ds []string
			for _, d := range l {
				ds = append(ds, w.cDeal(d))
			}
			obsv := "None"
			if err == nil {
				obsv = "(Some " + w.zs(got) + ")"
			}
			w.id++
			*w.items = append(*w.items, fmt.Sprintf("(CRec %d %s %s %s)", w.id, u32(w.t), vh.CoqList(ds), obsv))
			w.rep.Index(w.id, map[string]any{"kind": "recover", "proto": w.P.Name(), "n": n, "t": w.t, "mask": mask})
			w.rep.Count(strings.Join(ds, ";"), true)
		}
	}
}

// ------------------------------------------------------------------ main

func main() {
	o := vh.ParseFlags()
	rep := vh.NewReport("C10", o.Seed, o.Tier)
	rep.Rule = "per scenario: n in 3..6, every valid t, Pedersen and Rabin; per verifier one deal class out of " +
		"{honest, corrupted share/random share, corrupted commitments (stale or re-hashed session id), other polynomial, wrong index, T out of range, other T, " +
		"wrong recipient, forged dealer signature, wrong context, tampered ciphertext, replay, junk / swapped session id, none}; " +
		"histories of genuine, duplicated and forged responses, correct and incorrect justifications, late deals and time-outs at every participant"
	root := vh.NewRng(o.Seed)
	var items []string
	nd, ne := 60, 14
	if o.Thorough {
		nd, ne = 400, 80
	}
	if o.Search {
		nd, ne = 500, 60
	}
	id := 0
	for _, P := range []Proto{pedProto{}, rabProto{}} {
		// transparent group: model cases + oracles
		r := root.Fork()
		for k := 0; k < nd; k++ {
			dl := vh.NewDlogGroup(vh.Q61, vh.NewSeqStream(r.Bytes(16)))
			w := &world{P: P, s: dl, dl: dl, rng: r.Fork(), rep: rep, name: "dlog", items: &items, id: id}
			scenario(w, k%4 == 0)
			id = w.id
		}
		// Ed25519: oracles only
		r = root.Fork()
		for k := 0; k < ne; k++ {
			s := edwards25519.NewBlakeSHA256Ed25519WithRand(vh.NewSeqStream(r.Bytes(16)))
			var sink []string
			w := &world{P: P, s: s, rng: r.Fork(), rep: rep, name: "ed25519", items: &sink}
			scenario(w, k%3 == 0)
			rep.Evaluations++
		}
	}
	if o.Search {
		items = nil
	}
	vh.WriteShards(o.Out, "c10", &vh.CaseFile{Header: "From Kyber Require Import VSS.VssSM VSS.VssRun.", Type: "case", Runner: "mismatches", Items: items}, 60, rep)
	rep.Write(o.Out)
	fmt.Printf("c10: %d cases, %d oracle failures\n", len(items), len(rep.Failures))
}
