package main

// Neutral message types and adapters that let one scenario generator drive both
// share/vss/pedersen and share/vss/rabin.

import (
	"go.dedis.ch/kyber/v4"
	"go.dedis.ch/kyber/v4/share"
	pvss "go.dedis.ch/kyber/v4/share/vss/pedersen"
	rvss "go.dedis.ch/kyber/v4/share/vss/rabin"
	"kyverif/vh"
)

type suiteT interface {
	pvss.Suite
}

type NDeal struct {
	Sid     []byte
	I       uint32
	V       kyber.Scalar
	RI      uint32
	RV      kyber.Scalar // nil for pedersen
	T       uint32
	Commits []kyber.Point
}

func (d *NDeal) clone() *NDeal {
	c := *d
	c.Sid = append([]byte(nil), d.Sid...)
	c.V = d.V.Clone()
	if d.RV != nil {
		c.RV = d.RV.Clone()
	}
	c.Commits = nil
	for _, p := range d.Commits {
		c.Commits = append(c.Commits, p.Clone())
	}
	return &c
}

// who signed what (ground truth kept by the harness for every signature it makes)
type sigMeta struct {
	Junk bool
	Key  kyber.Point
	Sid  []byte
	Idx  uint32
	Appr bool
}

type NResp struct {
	Sid  []byte
	Idx  uint32
	Appr bool
	Sig  []byte
	Meta sigMeta
	Tag  string
	// for a verifier's own response: commitments and threshold of the deal it answers
	AboutCommits []kyber.Point
	AboutT       uint32
	About        bool
}

type NJust struct {
	Idx  uint32
	Deal *NDeal
	Sid  []byte
	Sig  []byte
	Tag  string
}

type encMeta struct {
	Signer  kyber.Point // nil: no valid signature on the DH key
	Rcpt    kyber.Point
	CDealer kyber.Point
	CVs     []kyber.Point
	Intact  bool
	Deal    *NDeal
	Class   string
	ViaDeal bool // produced by the real Dealer.EncryptedDeal
}

type NEnc struct {
	ped  *pvss.EncryptedDeal
	rab  *rvss.EncryptedDeal
	Meta encMeta
}

type Ver interface {
	Enc(e *NEnc) (*NResp, error)
	Resp(r *NResp) error
	Just(j *NJust) error
	Timeout()
	Certified() bool
	Bad() bool
	Deal() *NDeal
}

type Dlr interface {
	Resp(r *NResp) (*NJust, error)
	Timeout()
	Certified() bool
	Bad() bool
	SecretCommit() kyber.Point
	Plain(i int) *NDeal
	SetDeal(i int, d *NDeal)
	EncDeal(i int) (*NEnc, error)
	Sid() []byte
}

type Proto interface {
	Name() string
	Var() int
	NewDealer(s suiteT, long, secret kyber.Scalar, vs []kyber.Point, t uint32) (Dlr, error)
	NewVerifier(s suiteT, long kyber.Scalar, dealer kyber.Point, vs []kyber.Point) (Ver, error)
	Seal(s suiteT, dh, signKey kyber.Scalar, rcpt, cdealer kyber.Point, cvs []kyber.Point, d *NDeal) (*NEnc, error)
	SessionID(s suiteT, dealer kyber.Point, vs, commits []kyber.Point, t uint32) []byte
	H(s suiteT, vs []kyber.Point) kyber.Point
	RespHash(s suiteT, r *NResp) []byte
	Recover(s suiteT, ds []*NDeal, n, t uint32) (kyber.Scalar, error)
	Tamper(e *NEnc, what string) *NEnc
	// Splice: a with the signature of b ("sig"), or the ciphertext of a under the signed DH key of b ("dh")
	Splice(a, b *NEnc, what string) *NEnc
}

// ------------------------------------------------------------------ pedersen

type pedProto struct{}

func (pedProto) Name() string { return "pedersen" }
func (pedProto) Var() int     { return 0 }

func toPed(d *NDeal) *pvss.Deal {
	if d == nil {
		return nil
	}
	return &pvss.Deal{SessionID: d.Sid, SecShare: &share.PriShare{I: d.I, V: d.V}, T: d.T, Commitments: d.Commits}
}
func fromPed(d *pvss.Deal) *NDeal {
	if d == nil {
		return nil
	}
	return &NDeal{Sid: d.SessionID, I: d.SecShare.I, V: d.SecShare.V, RI: d.SecShare.I, T: d.T, Commits: d.Commitments}
}

type pedVer struct {
	v   *pvss.Verifier
	pub kyber.Point
}

func (p pedVer) Enc(e *NEnc) (*NResp, error) {
	r, err := p.v.ProcessEncryptedDeal(e.ped)
	if r == nil {
		return nil, err
	}
	return &NResp{Sid: r.SessionID, Idx: r.Index, Appr: r.StatusApproved, Sig: r.Signature,
		Meta: sigMeta{Key: p.pub, Sid: r.SessionID, Idx: r.Index, Appr: r.StatusApproved}, Tag: "real"}, err
}
func pedResp(r *NResp) *pvss.Response {
	return &pvss.Response{SessionID: r.Sid, Index: r.Idx, StatusApproved: r.Appr, Signature: r.Sig}
}
func (p pedVer) Resp(r *NResp) error { return p.v.ProcessResponse(pedResp(r)) }
func (p pedVer) Just(j *NJust) error {
	return p.v.ProcessJustification(&pvss.Justification{SessionID: j.Sid, Index: j.Idx, Deal: toPed(j.Deal), Signature: j.Sig})
}
func (p pedVer) Timeout()        { p.v.SetTimeout() }
func (p pedVer) Certified() bool { return p.v.DealCertified() }
func (p pedVer) Bad() bool       { return p.v.VerifBadDealer() }
func (p pedVer) Deal() *NDeal    { return fromPed(p.v.Deal()) }

type pedDlr struct{ d *pvss.Dealer }

func (p pedDlr) Resp(r *NResp) (*NJust, error) {
	j, err := p.d.ProcessResponse(pedResp(r))
	if j == nil {
		return nil, err
	}
	return &NJust{Idx: j.Index, Deal: fromPed(j.Deal), Sid: j.SessionID, Sig: j.Signature, Tag: "real"}, err
}
func (p pedDlr) Timeout()                  { p.d.SetTimeout() }
func (p pedDlr) Certified() bool           { return p.d.DealCertified() }
func (p pedDlr) Bad() bool                 { return p.d.VerifBadDealer() }
func (p pedDlr) SecretCommit() kyber.Point { return p.d.SecretCommit() }
func (p pedDlr) Plain(i int) *NDeal {
	d, _ := p.d.PlaintextDeal(i)
	return fromPed(d)
}
func (p pedDlr) SetDeal(i int, d *NDeal) { p.d.VerifSetDeal(i, toPed(d)) }
func (p pedDlr) EncDeal(i int) (*NEnc, error) {
	e, err := p.d.EncryptedDeal(i)
	return &NEnc{ped: e}, err
}
func (p pedDlr) Sid() []byte { return p.d.SessionID() }

func (pedProto) NewDealer(s suiteT, long, secret kyber.Scalar, vs []kyber.Point, t uint32) (Dlr, error) {
	d, err := pvss.NewDealer(s, long, secret, vs, t)
	if err != nil {
		return nil, err
	}
	return pedDlr{d}, nil
}
func (pedProto) NewVerifier(s suiteT, long kyber.Scalar, dealer kyber.Point, vs []kyber.Point) (Ver, error) {
	v, err := pvss.NewVerifier(s, long, dealer, vs)
	if err != nil {
		return nil, err
	}
	return pedVer{v, s.Point().Mul(long, nil)}, nil
}
func (pedProto) Seal(s suiteT, dh, signKey kyber.Scalar, rcpt, cdealer kyber.Point, cvs []kyber.Point, d *NDeal) (*NEnc, error) {
	e, err := pvss.VerifSeal(s, dh, signKey, rcpt, cdealer, cvs, toPed(d))
	return &NEnc{ped: e}, err
}
func (pedProto) SessionID(s suiteT, dealer kyber.Point, vs, commits []kyber.Point, t uint32) []byte {
	b, err := pvss.VerifSessionID(s, dealer, vs, commits, t)
	if err != nil {
		panic(err)
	}
	return b
}
func (pedProto) H(s suiteT, vs []kyber.Point) kyber.Point { return nil }
func (pedProto) RespHash(s suiteT, r *NResp) []byte       { return pedResp(r).Hash(s) }
func (pedProto) Recover(s suiteT, ds []*NDeal, n, t uint32) (kyber.Scalar, error) {
	var l []*pvss.Deal
	for _, d := range ds {
		l = append(l, toPed(d))
	}
	return pvss.RecoverSecret(s, l, n, t)
}
func (pedProto) Tamper(e *NEnc, what string) *NEnc {
	c := *e.ped
	c.Signature = append([]byte(nil), c.Signature...)
	c.Cipher = append([]byte(nil), c.Cipher...)
	switch what {
	case "sig":
		c.Signature[len(c.Signature)/2] ^= 0x40
	case "cipher":
		c.Cipher[len(c.Cipher)/2] ^= 0x01
	}
	return &NEnc{ped: &c, Meta: e.Meta}
}

func (pedProto) Splice(a, b *NEnc, what string) *NEnc {
	c := *a.ped
	switch what {
	case "sig":
		c.Signature = append([]byte(nil), b.ped.Signature...)
	case "dh":
		c.DHKey = append([]byte(nil), b.ped.DHKey...)
		c.Signature = append([]byte(nil), b.ped.Signature...)
	}
	return &NEnc{ped: &c, Meta: a.Meta}
}

// ------------------------------------------------------------------ rabin

type rabProto struct{}

func (rabProto) Name() string { return "rabin" }
func (rabProto) Var() int     { return 1 }

func toRab(d *NDeal) *rvss.Deal {
	if d == nil {
		return nil
	}
	return &rvss.Deal{SessionID: d.Sid, SecShare: &share.PriShare{I: d.I, V: d.V},
		RndShare: &share.PriShare{I: d.RI, V: d.RV}, T: d.T, Commitments: d.Commits}
}
func fromRab(d *rvss.Deal) *NDeal {
	if d == nil {
		return nil
	}
	return &NDeal{Sid: d.SessionID, I: d.SecShare.I, V: d.SecShare.V, RI: d.RndShare.I, RV: d.RndShare.V, T: d.T, Commits: d.Commitments}
}

type rabVer struct {
	v   *rvss.Verifier
	pub kyber.Point
}

func (p rabVer) Enc(e *NEnc) (*NResp, error) {
	r, err := p.v.ProcessEncryptedDeal(e.rab)
	if r == nil {
		return nil, err
	}
	return &NResp{Sid: r.SessionID, Idx: r.Index, Appr: r.Approved, Sig: r.Signature,
		Meta: sigMeta{Key: p.pub, Sid: r.SessionID, Idx: r.Index, Appr: r.Approved}, Tag: "real"}, err
}
func rabResp(r *NResp) *rvss.Response {
	return &rvss.Response{SessionID: r.Sid, Index: r.Idx, Approved: r.Appr, Signature: r.Sig}
}
func (p rabVer) Resp(r *NResp) error { return p.v.ProcessResponse(rabResp(r)) }
func (p rabVer) Just(j *NJust) error {
	return p.v.ProcessJustification(&rvss.Justification{SessionID: j.Sid, Index: j.Idx, Deal: toRab(j.Deal), Signature: j.Sig})
}
func (p rabVer) Timeout()        { p.v.SetTimeout() }
func (p rabVer) Certified() bool { return p.v.DealCertified() }
func (p rabVer) Bad() bool       { return p.v.VerifBadDealer() }
func (p rabVer) Deal() *NDeal {
	if !p.v.VerifHasAggregator() {
		return nil
	}
	return fromRab(p.v.Deal())
}

type rabDlr struct{ d *rvss.Dealer }

func (p rabDlr) Resp(r *NResp) (*NJust, error) {
	j, err := p.d.ProcessResponse(rabResp(r))
	if j == nil {
		return nil, err
	}
	return &NJust{Idx: j.Index, Deal: fromRab(j.Deal), Sid: j.SessionID, Sig: j.Signature, Tag: "real"}, err
}
func (p rabDlr) Timeout()                  { p.d.SetTimeout() }
func (p rabDlr) Certified() bool           { return p.d.DealCertified() }
func (p rabDlr) Bad() bool                 { return p.d.VerifBadDealer() }
func (p rabDlr) SecretCommit() kyber.Point { return p.d.SecretCommit() }
func (p rabDlr) Plain(i int) *NDeal {
	d, _ := p.d.PlaintextDeal(i)
	return fromRab(d)
}
func (p rabDlr) SetDeal(i int, d *NDeal) { p.d.VerifSetDeal(i, toRab(d)) }
func (p rabDlr) EncDeal(i int) (*NEnc, error) {
	e, err := p.d.EncryptedDeal(i)
	return &NEnc{rab: e}, err
}
func (p rabDlr) Sid() []byte { return p.d.SessionID() }

func (rabProto) NewDealer(s suiteT, long, secret kyber.Scalar, vs []kyber.Point, t uint32) (Dlr, error) {
	d, err := rvss.NewDealer(s, long, secret, vs, t)
	if err != nil {
		return nil, err
	}
	return rabDlr{d}, nil
}
func (rabProto) NewVerifier(s suiteT, long kyber.Scalar, dealer kyber.Point, vs []kyber.Point) (Ver, error) {
	v, err := rvss.NewVerifier(s, long, dealer, vs)
	if err != nil {
		return nil, err
	}
	return rabVer{v, s.Point().Mul(long, nil)}, nil
}
func (rabProto) Seal(s suiteT, dh, signKey kyber.Scalar, rcpt, cdealer kyber.Point, cvs []kyber.Point, d *NDeal) (*NEnc, error) {
	e, err := rvss.VerifSeal(s, dh, signKey, rcpt, cdealer, cvs, toRab(d))
	return &NEnc{rab: e}, err
}
func (rabProto) SessionID(s suiteT, dealer kyber.Point, vs, commits []kyber.Point, t uint32) []byte {
	b, err := rvss.VerifSessionID(s, dealer, vs, commits, t)
	if err != nil {
		panic(err)
	}
	return b
}
func (rabProto) H(s suiteT, vs []kyber.Point) kyber.Point { return rvss.VerifDeriveH(s, vs) }
func (rabProto) RespHash(s suiteT, r *NResp) []byte       { return rabResp(r).Hash(s) }
func (rabProto) Recover(s suiteT, ds []*NDeal, n, t uint32) (kyber.Scalar, error) {
	var l []*rvss.Deal
	for _, d := range ds {
		l = append(l, toRab(d))
	}
	return rvss.RecoverSecret(s, l, n, t)
}
func (rabProto) Tamper(e *NEnc, what string) *NEnc {
	c := *e.rab
	c.Signature = append([]byte(nil), c.Signature...)
	c.Cipher = append([]byte(nil), c.Cipher...)
	switch what {
	case "sig":
		c.Signature[len(c.Signature)/2] ^= 0x40
	case "cipher":
		c.Cipher[len(c.Cipher)/2] ^= 0x01
	}
	return &NEnc{rab: &c, Meta: e.Meta}
}

func (rabProto) Splice(a, b *NEnc, what string) *NEnc {
	c := *a.rab
	switch what {
	case "sig":
		c.Signature = append([]byte(nil), b.rab.Signature...)
	case "dh":
		c.DHKey = b.rab.DHKey.Clone()
		c.Signature = append([]byte(nil), b.rab.Signature...)
	}
	return &NEnc{rab: &c, Meta: a.Meta}
}

var _ = vh.Hex
