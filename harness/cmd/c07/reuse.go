// Object history, ownership of returned / passed values, order and multiplicity
// (property C07): sessions that keep using ONE PriPoly / PubPoly object while
// the values its methods returned are overwritten in place by the caller, the
// inputs of Recover* / Add / Mul / Check are snapshotted around the calls, and
// Recover* is run on values that are not shares of one polynomial (resharing),
// where the choice of the interpolated subset becomes visible.
//
// Ownership convention of share/poly.go that the sessions rely on (observed on
// the unchanged tree and kept as the baseline): values returned by Eval,
// Shares, PubPoly.Commit, PriPoly.Commit (the commitments), Add, Mul and the
// four Recover functions are caller-owned (fresh); PriPoly.Secret,
// Coefficients and PubPoly.Info hand out internal state and the constructors
// (NewPriPoly's secret, CoefficientsToPriPoly, NewPubPoly, the base of Commit)
// keep the passed objects - these are only read here, never written.
package main

import (
	"fmt"
	"strings"

	"go.dedis.ch/kyber/v4"
	"go.dedis.ch/kyber/v4/share"

	"kyverif/vh"
)

// ---------------------------------------------------------------- snapshots

func sbytes(s kyber.Scalar) string {
	if s == nil {
		return "vnil"
	}
	b, _ := s.MarshalBinary()
	return vh.Hex(b)
}
func pbytes(p kyber.Point) string {
	if p == nil {
		return "vnil"
	}
	b, _ := p.MarshalBinary()
	return vh.Hex(b)
}

type sliceSnap struct {
	ps []*share.PriShare
	qs []*share.PubShare
	pv []string
	qv []string
}

func snapShares(ps []*share.PriShare, qs []*share.PubShare) sliceSnap {
	s := sliceSnap{ps: append([]*share.PriShare{}, ps...), qs: append([]*share.PubShare{}, qs...)}
	for _, p := range ps {
		if p == nil {
			s.pv = append(s.pv, "nil")
		} else {
			s.pv = append(s.pv, fmt.Sprintf("%d:%s", p.I, sbytes(p.V)))
		}
	}
	for _, q := range qs {
		if q == nil {
			s.qv = append(s.qv, "nil")
		} else {
			s.qv = append(s.qv, fmt.Sprintf("%d:%s", q.I, pbytes(q.V)))
		}
	}
	return s
}

// diff: "" when the slices still hold the same objects in the same order with the same contents
func (s sliceSnap) diff(ps []*share.PriShare, qs []*share.PubShare) string {
	if len(ps) != len(s.ps) || len(qs) != len(s.qs) {
		return "slice length changed"
	}
	for k := range ps {
		if ps[k] != s.ps[k] {
			return fmt.Sprintf("private slice reordered / entry %d replaced", k)
		}
		if ps[k] != nil && fmt.Sprintf("%d:%s", ps[k].I, sbytes(ps[k].V)) != s.pv[k] {
			return fmt.Sprintf("private share at position %d changed from %s", k, s.pv[k])
		}
	}
	for k := range qs {
		if qs[k] != s.qs[k] {
			return fmt.Sprintf("public slice reordered / entry %d replaced", k)
		}
		if qs[k] != nil && fmt.Sprintf("%d:%s", qs[k].I, pbytes(qs[k].V)) != s.qv[k] {
			return fmt.Sprintf("public share at position %d changed from %s", k, s.qv[k])
		}
	}
	return ""
}

func priCoeffStr(p *share.PriPoly) string {
	if p == nil {
		return "nil"
	}
	var it []string
	for _, c := range p.Coefficients() {
		it = append(it, sbytes(c))
	}
	return strings.Join(it, ",")
}
func pubCommitStr(p *share.PubPoly) string {
	if p == nil {
		return "nil"
	}
	var it []string
	for _, c := range infoCommits(p) {
		it = append(it, pbytes(c))
	}
	return strings.Join(it, ",")
}

// recDiff: "" when two observations of the four Recover functions agree
func recDiff(a, b recObs) string {
	var d []string
	if a.secErr != b.secErr || (!a.secErr && sbytes(a.sec) != sbytes(b.sec)) {
		d = append(d, "RecoverSecret")
	}
	if a.comErr != b.comErr || (!a.comErr && pbytes(a.com) != pbytes(b.com)) {
		d = append(d, "RecoverCommit")
	}
	if a.priErr != b.priErr || (!a.priErr && priCoeffStr(a.pri) != priCoeffStr(b.pri)) {
		d = append(d, "RecoverPriPoly")
	}
	if a.pubErr != b.pubErr || (!a.pubErr && pubCommitStr(a.pub) != pubCommitStr(b.pub)) {
		d = append(d, "RecoverPubPoly")
	}
	return strings.Join(d, ",")
}

// ---------------------------------------------------------------- in-place overwriting by the caller

func (G *grp) scrambleScalar(r *vh.Rng, v kyber.Scalar) {
	if v == nil {
		return
	}
	switch r.Intn(5) {
	case 0:
		v.Add(v, G.g.Scalar().One())
	case 1:
		v.Neg(v)
		v.Sub(v, G.g.Scalar().One())
	case 2:
		v.Mul(v, G.g.Scalar().SetInt64(int64(2+r.Intn(100))))
		v.Add(v, G.g.Scalar().One())
	case 3:
		v.Zero()
		v.Add(v, G.g.Scalar().SetInt64(int64(7+r.Intn(100))))
	default:
		v.Set(G.randScalar())
	}
}

func (G *grp) scramblePoint(r *vh.Rng, p kyber.Point) {
	if p == nil {
		return
	}
	switch r.Intn(5) {
	case 0:
		p.Add(p, G.g.Point().Base())
	case 1:
		p.Neg(p)
		p.Sub(p, G.g.Point().Base())
	case 2:
		p.Mul(G.g.Scalar().SetInt64(int64(2+r.Intn(100))), p)
		p.Add(p, G.g.Point().Base())
	case 3:
		p.Null()
	default:
		p.Mul(G.randScalar(), nil)
	}
}

// ---------------------------------------------------------------- sessions on one object

type session struct {
	c     *polyCtx
	ref   []kyber.Scalar // independent copies of the coefficients, taken at construction
	refB  kyber.Point    // independent copy of the base point
	dealt []string       // snapshot of the dealt private / public shares
	hist  []string
}

func newSession(G *grp, r *vh.Rng, t, n int) *session {
	c := newPolyCtx(G, r, t, n, r.Intn(30))
	s := &session{c: c}
	for _, co := range c.pri.Coefficients() {
		s.ref = append(s.ref, co.Clone())
	}
	if c.base == nil {
		s.refB = G.g.Point().Base()
	} else {
		s.refB = c.base.Clone()
	}
	// from now on the reference values, not the (possibly aliased) constructor arguments
	c.coeffs = s.ref
	for k := range c.sh {
		s.dealt = append(s.dealt, fmt.Sprintf("%d:%s|%d:%s", c.sh[k].I, sbytes(c.sh[k].V), c.psh[k].I, pbytes(c.psh[k].V)))
	}
	return s
}

// verify re-checks the whole object against the reference; op = the operation that preceded
func (s *session) verify(rep *vh.Report, r *vh.Rng, op string) bool {
	c := s.c
	g := c.G.g
	fail := func(what, desc string) bool {
		rep.Fail("share.reuse/"+op+"/"+what,
			fmt.Sprintf("%s after %s on the same object (group %s, t=%d n=%d)", desc, op, c.G.name, c.t, c.n),
			c.replay(nil, map[string]interface{}{"history": append([]string{}, s.hist...)}))
		return false
	}
	cs := c.pri.Coefficients()
	if len(cs) != len(s.ref) || int(c.pri.Threshold()) != len(s.ref) || int(c.pub.Threshold()) != len(s.ref) {
		return fail("threshold-changed", "the polynomial has another number of coefficients")
	}
	for k := range cs {
		if !cs[k].Equal(s.ref[k]) {
			return fail("pri-coefficients-changed", fmt.Sprintf("private coefficient %d changed", k))
		}
	}
	if !c.pri.Secret().Equal(s.ref[0]) {
		return fail("pri-coefficients-changed", "Secret() changed")
	}
	cm := infoCommits(c.pub)
	for k := range cm {
		if !cm[k].Equal(mulBase(g, s.ref[k], s.refB)) {
			return fail("pub-commitments-changed", fmt.Sprintf("commitment %d of the public polynomial changed", k))
		}
	}
	if !c.pub.Commit().Equal(mulBase(g, s.ref[0], s.refB)) {
		return fail("pub-commitments-changed", "Commit() is no longer secret*base")
	}
	idx := []uint32{}
	for i := 0; i < c.n; i++ {
		idx = append(idx, uint32(i))
	}
	idx = append(idx, uint32(c.n+r.Intn(1000)))
	for _, i := range idx {
		want := naiveEval(g, s.ref, int64(i)+1)
		if !c.pri.Eval(i).V.Equal(want) {
			return fail("pri-eval-changed", fmt.Sprintf("PriPoly.Eval(%d) is no longer p(%d)", i, i+1))
		}
		if !c.pub.Eval(i).V.Equal(mulBase(g, want, s.refB)) {
			return fail("pub-eval-changed", fmt.Sprintf("PubPoly.Eval(%d) is no longer the commitment of share %d", i, i))
		}
		if !c.pub.Check(&share.PriShare{I: i, V: want.Clone()}) {
			return fail("check-rejects-valid-share", fmt.Sprintf("Check rejects the valid share %d", i))
		}
		if c.pub.Check(&share.PriShare{I: i, V: g.Scalar().Add(want, g.Scalar().One())}) {
			return fail("check-accepts-invalid-share", fmt.Sprintf("Check accepts an off-polynomial share at %d", i))
		}
	}
	for k := range c.sh {
		now := fmt.Sprintf("%d:%s|%d:%s", c.sh[k].I, sbytes(c.sh[k].V), c.psh[k].I, pbytes(c.psh[k].V))
		if now != s.dealt[k] {
			return fail("dealt-share-changed", fmt.Sprintf("the share dealt earlier at position %d changed", k))
		}
		if !c.pub.Check(c.sh[k]) {
			return fail("check-rejects-valid-share", fmt.Sprintf("Check rejects the share dealt earlier at %d", k))
		}
	}
	if sec, err := share.RecoverSecret(g, c.sh, uint32(c.t), uint32(c.n)); err != nil || !sec.Equal(s.ref[0]) {
		return fail("recover-wrong", "RecoverSecret from the dealt shares no longer gives the secret")
	}
	if com, err := share.RecoverCommit(g, c.psh, uint32(c.t), uint32(c.n)); err != nil || !com.Equal(mulBase(g, s.ref[0], s.refB)) {
		return fail("recover-wrong", "RecoverCommit from the dealt public shares no longer gives secret*base")
	}
	return true
}

// a second polynomial with reference copies
func (s *session) other(r *vh.Rng, t int) (*share.PriPoly, []kyber.Scalar) {
	G := s.c.G
	cs := make([]kyber.Scalar, t)
	ref := make([]kyber.Scalar, t)
	for i := range cs {
		cs[i] = G.edgeScalar(r)
		if t == 1 && (cs[i].Equal(G.g.Scalar().Zero()) || cs[i].Equal(G.g.Scalar().One())) {
			cs[i] = G.g.Scalar().SetInt64(int64(3 + r.Intn(50)))
		}
		ref[i] = cs[i].Clone()
	}
	return share.CoefficientsToPriPoly(G.g, cs), ref
}

func sameScalars(a, b []kyber.Scalar) bool {
	if len(a) != len(b) {
		return false
	}
	for i := range a {
		if !a[i].Equal(b[i]) {
			return false
		}
	}
	return true
}

const nSessionOps = 13

// one operation on the object; the values it returned are overwritten in place
func (s *session) step(rep *vh.Report, r *vh.Rng, k int) string {
	c := s.c
	G := c.G
	g := G.g
	fail := func(op, what, desc string) {
		rep.Fail("share.reuse/"+op+"/"+what, fmt.Sprintf("%s (group %s, t=%d n=%d)", desc, G.name, c.t, c.n),
			c.replay(nil, map[string]interface{}{"history": append([]string{}, s.hist...)}))
	}
	i := uint32(r.Intn(c.n + 1))
	switch k % nSessionOps {
	case 0:
		p := c.pub.Commit()
		G.scramblePoint(r, p)
		return "PubPoly.Commit"
	case 1:
		sh := c.pub.Eval(i)
		G.scramblePoint(r, sh.V)
		sh.I += 7
		return "PubPoly.Eval"
	case 2:
		shs := c.pub.Shares(uint32(c.n))
		for j := range shs {
			G.scramblePoint(r, shs[j].V)
			if r.Bool() {
				shs[j] = nil
			}
		}
		return "PubPoly.Shares"
	case 3:
		sh := c.pri.Eval(i)
		G.scrambleScalar(r, sh.V)
		sh.I += 7
		return "PriPoly.Eval"
	case 4:
		shs := c.pri.Shares(uint32(c.n))
		for j := range shs {
			G.scrambleScalar(r, shs[j].V)
			if r.Bool() {
				shs[j] = nil
			}
		}
		return "PriPoly.Shares"
	case 5:
		// a second commitment of the same polynomial (own base object): overwrite its commitments
		q := c.pri.Commit(s.refB.Clone())
		cm := infoCommits(q)
		for j := range cm {
			G.scramblePoint(r, cm[j])
		}
		return "PriPoly.Commit"
	case 6:
		o, oref := s.other(r, c.t)
		var sum *share.PriPoly
		var err error
		op := "PriPoly.Add"
		if r.Bool() {
			sum, err = c.pri.Add(o)
		} else {
			sum, err = o.Add(c.pri)
			op = "PriPoly.Add(reversed)"
		}
		if err != nil {
			fail(op, "error", "Add of two polynomials of the same threshold failed")
			return op
		}
		for j, co := range sum.Coefficients() {
			if !co.Equal(g.Scalar().Add(s.ref[j], oref[j])) {
				fail(op, "wrong-sum", fmt.Sprintf("coefficient %d of the sum is not the sum of the coefficients", j))
				break
			}
		}
		for _, co := range sum.Coefficients() {
			G.scrambleScalar(r, co)
		}
		if !sameScalars(o.Coefficients(), oref) {
			fail(op, "operand-changed", "the other operand of Add changed (by the call or by overwriting the result)")
		}
		return op
	case 7:
		o, oref := s.other(r, 1+r.Intn(3))
		var prod *share.PriPoly
		op := "PriPoly.Mul"
		if r.Bool() {
			prod = c.pri.Mul(o)
		} else {
			prod = o.Mul(c.pri)
			op = "PriPoly.Mul(reversed)"
		}
		for _, x := range []uint32{0, uint32(1 + r.Intn(20))} {
			want := g.Scalar().Mul(naiveEval(g, s.ref, int64(x)+1), naiveEval(g, oref, int64(x)+1))
			if !prod.Eval(x).V.Equal(want) {
				fail(op, "wrong-product", fmt.Sprintf("(p*q)(%d) is not p(%d)*q(%d)", x, x, x))
				break
			}
		}
		for _, co := range prod.Coefficients() {
			G.scrambleScalar(r, co)
		}
		if !sameScalars(o.Coefficients(), oref) {
			fail(op, "operand-changed", "the other operand of Mul changed (by the call or by overwriting the result)")
		}
		return op
	case 8:
		o, oref := s.other(r, c.t)
		// the same base, sometimes held in another object of equal value
		ob := c.base
		if ob != nil && r.Bool() {
			ob = c.base.Clone()
		}
		oc := o.Commit(ob)
		var sum *share.PubPoly
		var err error
		op := "PubPoly.Add"
		if r.Bool() {
			sum, err = c.pub.Add(oc)
		} else {
			sum, err = oc.Add(c.pub)
			op = "PubPoly.Add(reversed)"
		}
		if err != nil {
			fail(op, "error", "Add of two public polynomials of the same threshold failed")
			return op
		}
		cm := infoCommits(sum)
		for j := range cm {
			if !cm[j].Equal(mulBase(g, g.Scalar().Add(s.ref[j], oref[j]), s.refB)) {
				fail(op, "wrong-sum", fmt.Sprintf("commitment %d of the sum is not the sum of the commitments", j))
				break
			}
		}
		if sb, _ := sum.Info(); (sb == nil && !s.refB.Equal(g.Point().Base())) || (sb != nil && !sb.Equal(s.refB)) {
			fail(op, "wrong-base", "the sum of two commitments over the same base point does not carry that base")
		}
		// the sum commits to p+q under the same base: it accepts the summed share
		x := uint32(r.Intn(c.n + 1))
		sv := g.Scalar().Add(naiveEval(g, s.ref, int64(x)+1), naiveEval(g, oref, int64(x)+1))
		if !sum.Check(&share.PriShare{I: x, V: sv}) {
			fail(op, "check-rejects-sum-share", "Check of the summed commitment rejects the sum of the shares")
		}
		for j := range cm {
			G.scramblePoint(r, cm[j])
		}
		ocm := infoCommits(oc)
		for j := range ocm {
			if !ocm[j].Equal(mulBase(g, oref[j], s.refB)) {
				fail(op, "operand-changed", "the other operand of PubPoly.Add changed (by the call or by overwriting the result)")
				break
			}
		}
		return op
	case 9:
		sub := randomSubset(r, c.n, c.t+r.Intn(c.n-c.t+1))
		es := arrange(r, sub, c.n, r.Bool())
		c.twice = true
		ob := c.recover(es)
		c.twice = false
		c.oracleRecover(rep, es, len(sub), ob)
		// the results belong to the caller
		G.scrambleScalar(r, ob.sec)
		G.scramblePoint(r, ob.com)
		if ob.pri != nil {
			for _, co := range ob.pri.Coefficients() {
				G.scrambleScalar(r, co)
			}
		}
		if ob.pub != nil {
			for _, p := range infoCommits(ob.pub) {
				G.scramblePoint(r, p)
			}
		}
		return "Recover"
	case 10:
		sh := c.sh[r.Intn(c.n)]
		if !c.pub.Check(sh) {
			fail("PubPoly.Check", "rejects-dealt-share", "Check rejects a share dealt earlier")
		}
		forged := &share.PriShare{I: sh.I, V: g.Scalar().Add(sh.V, g.Scalar().One())}
		before := sbytes(forged.V)
		if c.pub.Check(forged) {
			fail("PubPoly.Check", "accepts-forged-share", "Check accepts an off-polynomial share")
		}
		if sbytes(forged.V) != before {
			fail("PubPoly.Check", "inputs-mutated", "Check changed the share it was given")
		}
		return "PubPoly.Check"
	case 11:
		o, _ := s.other(r, c.t)
		cp := share.CoefficientsToPriPoly(g, append([]kyber.Scalar{}, s.ref...))
		if c.pri.Equal(o) && !sameScalars(o.Coefficients(), s.ref) {
			fail("PriPoly.Equal", "true-on-different", "Equal is true for different polynomials")
		}
		if !c.pri.Equal(cp) || !cp.Equal(c.pri) {
			fail("PriPoly.Equal", "false-on-equal", "Equal is false for a copy")
		}
		if !c.pub.Equal(cp.Commit(s.refB.Clone())) {
			fail("PubPoly.Equal", "false-on-equal", "Equal is false for a commitment of a copy")
		}
		return "Equal"
	default:
		// accessors that hand out internal state: read only
		_ = c.pri.Secret().String()
		_ = c.pri.String()
		for _, co := range c.pri.Coefficients() {
			_ = sbytes(co)
		}
		b, cm := c.pub.Info()
		_ = pbytes(b)
		for _, p := range cm {
			_ = pbytes(p)
		}
		return "read-accessors"
	}
}

// runSession: a random history on one object; returns the context for a final exact comparison
func runSession(G *grp, rep *vh.Report, r *vh.Rng, t, n, steps int) *polyCtx {
	s := newSession(G, r, t, n)
	if !s.verify(rep, r, "construction") {
		return s.c
	}
	order := make([]int, nSessionOps)
	for i := range order {
		order[i] = i
	}
	for k := 0; k < steps; k++ {
		// every operation kind occurs once per nSessionOps steps, in random order
		if k%nSessionOps == 0 {
			for i := len(order) - 1; i > 0; i-- {
				j := r.Intn(i + 1)
				order[i], order[j] = order[j], order[i]
			}
		}
		op := s.step(rep, r, order[k%nSessionOps])
		s.hist = append(s.hist, op)
		rep.Dist("reuse:" + op)
		if !s.verify(rep, r, op) {
			break
		}
	}
	return s.c
}

// ---------------------------------------------------------------- unrelated values (resharing)

// values that are not shares of one polynomial, at arbitrary distinct indices
func unrelatedCtx(G *grp, r *vh.Rng, t int, idx []uint32) *polyCtx {
	c := &polyCtx{G: G, t: t, n: len(idx)}
	for _, i := range idx {
		v := G.edgeScalar(r)
		c.sh = append(c.sh, &share.PriShare{I: i, V: v})
		c.psh = append(c.psh, &share.PubShare{I: i, V: G.g.Point().Mul(v, nil)})
	}
	c.indexShares()
	return c
}

func gappedIndices(r *vh.Rng, n int) []uint32 {
	seen := map[uint32]bool{}
	var out []uint32
	for len(out) < n {
		var i uint32
		switch r.Intn(4) {
		case 0:
			i = uint32(r.Intn(8))
		case 1:
			i = uint32(r.Intn(64))
		case 2:
			i = uint32(0x7ffffff0 + r.Intn(32))
		default:
			i = uint32(r.U64() % 0xfffffffe)
		}
		if !seen[i] {
			seen[i] = true
			out = append(out, i)
		}
	}
	return out
}

// Lagrange interpolation at 0 over the t lowest distinct valued indices, written
// independently of share/poly.go
func lowestLagrange0(g kyber.Group, es []ent, val map[uint32]*share.PriShare, t int) kyber.Scalar {
	have := map[uint32]bool{}
	var idx []uint32
	for _, e := range es {
		if e.Kind == 1 && !have[e.I] {
			have[e.I] = true
			idx = append(idx, e.I)
		}
	}
	for a := 1; a < len(idx); a++ {
		for b := a; b > 0 && idx[b] < idx[b-1]; b-- {
			idx[b], idx[b-1] = idx[b-1], idx[b]
		}
	}
	if len(idx) < t {
		return nil
	}
	idx = idx[:t]
	acc := g.Scalar().Zero()
	for _, i := range idx {
		xi := g.Scalar().SetInt64(int64(i) + 1)
		term := val[i].V.Clone()
		for _, j := range idx {
			if j == i {
				continue
			}
			xj := g.Scalar().SetInt64(int64(j) + 1)
			term = g.Scalar().Mul(term, g.Scalar().Div(xj, g.Scalar().Sub(xj, xi)))
		}
		acc = g.Scalar().Add(acc, term)
	}
	return acc
}

// Recover* on unrelated values: refusal boundary, the interpolated subset, private
// and public side on the same subset, independence of the slice order
func (c *polyCtx) oracleUnrelated(rep *vh.Report, r *vh.Rng, es []ent, distinct int, o recObs) {
	g := c.G.g
	fail := func(fn, what, desc string) {
		rep.Fail("share."+fn+"/"+what, fmt.Sprintf("%s (%s on values that are not shares of one polynomial, group %s, t=%d, %d entries)", desc, fn, c.G.name, c.t, len(es)),
			c.replay(es, map[string]interface{}{"distinct_valued_indices": distinct, "panics": o.panics}))
	}
	if o.panics != "" {
		fail("Recover", "panic", "panic: "+o.panics)
		return
	}
	if o.inputs != "" {
		fail("Recover", "inputs-mutated", "the caller's share slice was changed by Recover*: "+o.inputs)
	}
	if o.unstable != "" {
		fail("Recover", "second-call-differs", "a second call on the same slice gave another result: "+o.unstable)
	}
	enough := distinct >= c.t
	for _, x := range []struct {
		fn  string
		err bool
	}{{"RecoverSecret", o.secErr}, {"RecoverCommit", o.comErr}, {"RecoverPriPoly", o.priErr}, {"RecoverPubPoly", o.pubErr}} {
		if enough && x.err {
			fail(x.fn, "refused-with-t-distinct-shares", "refused although >= t distinct valued indices are present")
		}
		if !enough && !x.err {
			fail(x.fn, "accepted-below-t", "returned a value from fewer than t distinct valued indices")
		}
	}
	if !enough || o.secErr || o.comErr || o.priErr || o.pubErr || o.pri == nil || o.pub == nil {
		return
	}
	// which subset: the t lowest distinct indices
	if want := lowestLagrange0(g, es, c.shm, c.t); want != nil && !o.sec.Equal(want) {
		fail("RecoverSecret", "not-the-t-lowest-indices", "the result is not the interpolation over the t lowest distinct indices")
	}
	// all four on the same subset
	pc := o.pri.Coefficients()
	if len(pc) != c.t || !pc[0].Equal(o.sec) {
		fail("Recover", "secret-and-polynomial-disagree", "RecoverSecret is not the constant term of RecoverPriPoly on the same slice")
	}
	if !o.com.Equal(mulBase(g, o.sec, nil)) {
		fail("Recover", "private-and-public-disagree", "RecoverCommit is not RecoverSecret*B on the corresponding public values")
	}
	qc := infoCommits(o.pub)
	same := len(qc) == len(pc)
	for k := 0; same && k < len(qc); k++ {
		same = qc[k].Equal(mulBase(g, pc[k], nil))
	}
	if !same {
		fail("Recover", "private-and-public-disagree", "RecoverPubPoly is not the commitment of RecoverPriPoly on the corresponding public values")
	}
	// a permutation of the slice (and more nil holes) changes nothing
	es2 := append([]ent{}, es...)
	if r.Bool() {
		es2 = append(es2, ent{0, 0})
	}
	for i := len(es2) - 1; i > 0; i-- {
		j := r.Intn(i + 1)
		es2[i], es2[j] = es2[j], es2[i]
	}
	o2 := c.recover(es2)
	if d := recDiff(o, o2); d != "" {
		fail("Recover", "order-dependent-on-unrelated-values", "a permutation of the slice changes the result of "+d)
	}
}
