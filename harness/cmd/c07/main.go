// Correspondence + oracle harness for property C07 (Shamir sharing: any t valid
// shares reconstruct; commitments bind shares), anchored in share/poly.go.
//
// Correspondence: share/poly.go is driven over the transparent discrete-log
// group vh.DlogGroup(Q61); every scalar, coefficient and point logarithm the
// implementation produced is written into the case files and recomputed by the
// Coq model (Share/ShamirRun.v).
// Oracles: the clauses of the property are evaluated directly on the
// implementation, over the dlog group and over Ed25519, P-256, BN256 G1,
// BLS12-381 (kilic) G1 and the 512-bit quadratic-residue group.
package main

import (
	"fmt"
	"math/big"
	"sort"
	"strings"

	"go.dedis.ch/kyber/v4"
	"go.dedis.ch/kyber/v4/group/edwards25519"
	"go.dedis.ch/kyber/v4/group/p256"
	bls "go.dedis.ch/kyber/v4/pairing/bls12381/kilic"
	"go.dedis.ch/kyber/v4/pairing/bn256"
	"go.dedis.ch/kyber/v4/share"

	"kyverif/vh"
)

// ---------------------------------------------------------------- groups

type grp struct {
	name string
	g    kyber.Group
	dlog *vh.DlogGroup // non-nil for the transparent group
	st   *vh.SeqStream
}

func (G *grp) randScalar() kyber.Scalar { return G.g.Scalar().Pick(G.st) }

// edge-biased scalar: 0, 1, -1, small, random
func (G *grp) edgeScalar(r *vh.Rng) kyber.Scalar {
	switch r.Intn(10) {
	case 0:
		return G.g.Scalar().Zero()
	case 1:
		return G.g.Scalar().One()
	case 2:
		return G.g.Scalar().Neg(G.g.Scalar().One())
	case 3:
		return G.g.Scalar().SetInt64(int64(r.Intn(1000)))
	}
	return G.randScalar()
}

// base points: nil (standard base), a multiple of the base, a picked point
func (G *grp) basePoint(r *vh.Rng, kind int) kyber.Point {
	switch kind % 3 {
	case 0:
		return nil
	case 1:
		s := G.randScalar()
		if s.Equal(G.g.Scalar().Zero()) {
			s = G.g.Scalar().One()
		}
		return G.g.Point().Mul(s, nil)
	}
	for {
		p := G.g.Point().Pick(G.st)
		if !p.Equal(G.g.Point().Null()) {
			return p
		}
	}
}

func groups(seed uint64, search bool) []*grp {
	mk := func(name string, g kyber.Group) *grp {
		return &grp{name: name, g: g, st: vh.NewSeqStream([]byte(fmt.Sprintf("c07/%s/%d", name, seed)))}
	}
	d := vh.NewDlogGroup(vh.Q61, nil)
	gd := mk("dlog61", d)
	gd.dlog = d
	return []*grp{
		gd,
		mk("ed25519", edwards25519.NewBlakeSHA256Ed25519()),
		mk("p256", p256.NewBlakeSHA256P256()),
		mk("bn256.G1", bn256.NewSuiteG1()),
		mk("bls12381.kilic.G1", bls.NewGroupG1()),
		mk("qr512", p256.NewBlakeSHA256QR512()),
	}
}

// ---------------------------------------------------------------- printing

func sstr(s kyber.Scalar) string {
	if s == nil {
		return "nil"
	}
	return vh.ScalarVal(s).String()
}
func pstr(p kyber.Point) string {
	if p == nil {
		return "nil"
	}
	if dp, ok := p.(*vh.DlogPoint); ok {
		return "dlog:" + vh.Dlog(dp).String()
	}
	b, _ := p.MarshalBinary()
	return vh.Hex(b)
}
func sstrs(ss []kyber.Scalar) []string {
	out := make([]string, len(ss))
	for i, s := range ss {
		out[i] = sstr(s)
	}
	return out
}

// ---------------------------------------------------------------- independent reference

// naive evaluation sum_k c_k x^k (independent of the Horner loop of the implementation)
func naiveEval(g kyber.Group, coeffs []kyber.Scalar, x int64) kyber.Scalar {
	xs := g.Scalar().SetInt64(x)
	pow := g.Scalar().One()
	acc := g.Scalar().Zero()
	for _, c := range coeffs {
		acc = g.Scalar().Add(acc, g.Scalar().Mul(c, pow))
		pow = g.Scalar().Mul(pow, xs)
	}
	return acc
}

func mulBase(g kyber.Group, s kyber.Scalar, b kyber.Point) kyber.Point {
	return g.Point().Mul(s, b)
}

// ---------------------------------------------------------------- arrangements of a share slice

// one entry of a share slice
type ent struct {
	Kind int    `json:"kind"` // 0 nil pointer, 1 valid share, 2 share with V == nil
	I    uint32 `json:"i"`
}

// arrangement of the shares with indices in subset: natural (slice of length n,
// nil where missing) or shuffled with duplicates, nil holes and V=nil shares
func arrange(r *vh.Rng, subset []int, n int, natural bool) []ent {
	var es []ent
	if natural {
		in := map[int]bool{}
		for _, i := range subset {
			in[i] = true
		}
		for i := 0; i < n; i++ {
			if in[i] {
				es = append(es, ent{1, uint32(i)})
			} else {
				es = append(es, ent{0, 0})
			}
		}
		return es
	}
	for _, i := range subset {
		es = append(es, ent{1, uint32(i)})
	}
	if len(subset) > 0 && r.Chance(50) {
		for k := r.Intn(4); k > 0; k-- { // duplicates of present shares
			es = append(es, ent{1, uint32(subset[r.Intn(len(subset))])})
		}
	}
	if r.Chance(40) { // shares whose value is nil: never count, whatever their index
		for k := 1 + r.Intn(2); k > 0; k-- {
			es = append(es, ent{2, uint32(r.Intn(n + 2))})
		}
	}
	if r.Chance(50) {
		for k := 1 + r.Intn(3); k > 0; k-- {
			es = append(es, ent{0, 0})
		}
	}
	for i := len(es) - 1; i > 0; i-- {
		j := r.Intn(i + 1)
		es[i], es[j] = es[j], es[i]
	}
	return es
}

func arrClass(es []ent, subset []int, t int) string {
	dup, vnil, holes := false, false, false
	seen := map[uint32]bool{}
	for _, e := range es {
		switch e.Kind {
		case 0:
			holes = true
		case 2:
			vnil = true
		case 1:
			if seen[e.I] {
				dup = true
			}
			seen[e.I] = true
		}
	}
	c := "exact-t"
	if len(subset) > t {
		c = "surplus"
	} else if len(subset) < t {
		c = "below-t"
	}
	if dup {
		c += "+dup"
	}
	if vnil {
		c += "+vnil"
	}
	if holes {
		c += "+holes"
	}
	return c
}

// ---------------------------------------------------------------- recovery on one arrangement

type recObs struct {
	sec    kyber.Scalar
	secErr bool
	com    kyber.Point
	comErr bool
	pri    *share.PriPoly
	priErr bool
	pub    *share.PubPoly
	pubErr bool
	panics string
	inputs   string // non-empty: the caller's share slices were changed by the calls
	unstable string // non-empty: a second call on the same slices gave another result
}

type polyCtx struct {
	G      *grp
	t, n   int
	coeffs []kyber.Scalar
	base   kyber.Point // nil = standard
	pri    *share.PriPoly
	pub    *share.PubPoly
	sh     []*share.PriShare
	psh    []*share.PubShare
	idx    []uint32 // the share indices (position -> index); 0..n-1 for Shares(n)
	shm    map[uint32]*share.PriShare
	pshm   map[uint32]*share.PubShare
	twice  bool // call every Recover* twice on the same slices
}

func (c *polyCtx) indexShares() {
	c.idx = nil
	c.shm = map[uint32]*share.PriShare{}
	c.pshm = map[uint32]*share.PubShare{}
	for k, s := range c.sh {
		c.idx = append(c.idx, s.I)
		c.shm[s.I] = s
		c.pshm[s.I] = c.psh[k]
	}
}

// shares at arbitrary (sparse, large) uint32 indices, made with Eval
func newSparseCtx(G *grp, r *vh.Rng, t int, idx []uint32, style int) *polyCtx {
	c := newPolyCtx(G, r, t, 0, style)
	c.n = len(idx)
	c.sh, c.psh = nil, nil
	for _, i := range idx {
		c.sh = append(c.sh, c.pri.Eval(i))
		c.psh = append(c.psh, c.pub.Eval(i))
	}
	c.indexShares()
	return c
}

// arrange works on positions 0..n-1; map them to the context's share indices
func (c *polyCtx) reindex(es []ent) []ent {
	out := make([]ent, len(es))
	for k, e := range es {
		out[k] = e
		if e.Kind != 0 && int(e.I) < len(c.idx) {
			out[k].I = c.idx[e.I]
		}
	}
	return out
}

func newPolyCtx(G *grp, r *vh.Rng, t, n, style int) *polyCtx {
	c := &polyCtx{G: G, t: t, n: n}
	var secret kyber.Scalar
	switch style % 5 {
	case 0:
		secret = G.g.Scalar().Zero()
	case 1:
		secret = G.g.Scalar().Neg(G.g.Scalar().One())
	case 2:
		secret = G.g.Scalar().One()
	}
	if style%2 == 0 {
		// the library's own constructor (random coefficients from the stream)
		c.pri = share.NewPriPoly(G.g, uint32(t), secret, G.st)
		c.coeffs = c.pri.Coefficients()
	} else {
		cs := make([]kyber.Scalar, t)
		for i := range cs {
			cs[i] = G.edgeScalar(r)
		}
		if secret != nil {
			cs[0] = secret
		}
		c.coeffs = cs
		c.pri = share.CoefficientsToPriPoly(G.g, cs)
	}
	c.base = G.basePoint(r, style/2)
	c.pub = c.pri.Commit(c.base)
	c.sh = c.pri.Shares(uint32(n))
	c.psh = c.pub.Shares(uint32(n))
	c.indexShares()
	return c
}

func (c *polyCtx) build(es []ent) ([]*share.PriShare, []*share.PubShare) {
	ps := make([]*share.PriShare, len(es))
	qs := make([]*share.PubShare, len(es))
	for k, e := range es {
		switch e.Kind {
		case 1:
			if k%2 == 0 { // the dealer's object itself, or a copy
				ps[k] = c.shm[e.I]
				qs[k] = c.pshm[e.I]
			} else {
				ps[k] = &share.PriShare{I: e.I, V: c.shm[e.I].V.Clone()}
				qs[k] = &share.PubShare{I: e.I, V: c.pshm[e.I].V.Clone()}
			}
		case 2:
			ps[k] = &share.PriShare{I: e.I, V: nil}
			qs[k] = &share.PubShare{I: e.I, V: nil}
		}
	}
	return ps, qs
}

func (c *polyCtx) recover(es []ent) recObs {
	var o recObs
	ps, qs := c.build(es)
	g := c.G.g
	t, n := uint32(c.t), uint32(c.n)
	var ps2 []string
	snap := snapShares(ps, qs)
	if p, m := vh.Try(func() {
		s, err := share.RecoverSecret(g, ps, t, n)
		o.sec, o.secErr = s, err != nil
	}); p {
		ps2 = append(ps2, "RecoverSecret: "+m)
		o.secErr = true
	}
	if p, m := vh.Try(func() {
		s, err := share.RecoverCommit(g, qs, t, n)
		o.com, o.comErr = s, err != nil
	}); p {
		ps2 = append(ps2, "RecoverCommit: "+m)
		o.comErr = true
	}
	if p, m := vh.Try(func() {
		s, err := share.RecoverPriPoly(g, ps, t, n)
		o.pri, o.priErr = s, err != nil
	}); p {
		ps2 = append(ps2, "RecoverPriPoly: "+m)
		o.priErr = true
	}
	if p, m := vh.Try(func() {
		s, err := share.RecoverPubPoly(g, qs, t, n)
		o.pub, o.pubErr = s, err != nil
	}); p {
		ps2 = append(ps2, "RecoverPubPoly: "+m)
		o.pubErr = true
	}
	o.panics = strings.Join(ps2, "; ")
	o.inputs = snap.diff(ps, qs)
	if c.twice || len(es)%4 == 0 {
		// the same slices again: same results, slices still intact
		var o2 recObs
		vh.Try(func() {
			s, err := share.RecoverSecret(g, ps, t, n)
			o2.sec, o2.secErr = s, err != nil
			q, err := share.RecoverCommit(g, qs, t, n)
			o2.com, o2.comErr = q, err != nil
			pp, err := share.RecoverPriPoly(g, ps, t, n)
			o2.pri, o2.priErr = pp, err != nil
			qq, err := share.RecoverPubPoly(g, qs, t, n)
			o2.pub, o2.pubErr = qq, err != nil
		})
		if o.panics == "" {
			o.unstable = recDiff(o, o2)
		}
		if d := snap.diff(ps, qs); d != "" && o.inputs == "" {
			o.inputs = d
		}
	}
	return o
}

func (c *polyCtx) replay(es []ent, extra map[string]interface{}) map[string]interface{} {
	m := map[string]interface{}{
		"group": c.G.name, "t": c.t, "n": c.n, "coefficients": sstrs(c.coeffs), "base": pstr(c.base),
		"share_slice": es, "share_indices": c.idx,
	}
	for k, v := range extra {
		m[k] = v
	}
	return m
}

// the recovery clauses of the property on one arrangement
func (c *polyCtx) oracleRecover(rep *vh.Report, es []ent, distinct int, o recObs) {
	g := c.G.g
	cls := arrClass(es, make([]int, distinct), c.t)
	fail := func(fn, what, desc string) {
		rep.Fail("share."+fn+"/"+what, fmt.Sprintf("%s (%s, group %s, t=%d n=%d, slice class %s)", desc, fn, c.G.name, c.t, c.n, cls),
			c.replay(es, map[string]interface{}{"distinct_valid_shares": distinct, "panics": o.panics}))
	}
	if o.panics != "" {
		fail("Recover", "panic", "panic: "+o.panics)
	}
	if o.inputs != "" {
		fail("Recover", "inputs-mutated", "the caller's share slice was changed by Recover*: "+o.inputs)
	}
	if o.unstable != "" {
		fail("Recover", "second-call-differs", "a second call on the same slice gave another result: "+o.unstable)
	}
	enough := distinct >= c.t
	secretCommit := mulBase(g, c.coeffs[0], c.base)
	if enough {
		if o.secErr {
			fail("RecoverSecret", "refused-with-t-distinct-shares", "refused although >= t distinct valid shares are present")
		} else if !o.sec.Equal(c.coeffs[0]) {
			fail("RecoverSecret", "wrong-secret", "recovered "+sstr(o.sec)+" instead of the shared secret")
		}
		if o.comErr {
			fail("RecoverCommit", "refused-with-t-distinct-shares", "refused although >= t distinct valid public shares are present")
		} else if !o.com.Equal(secretCommit) {
			fail("RecoverCommit", "wrong-commitment", "recovered commitment differs from secret*base")
		}
		if o.priErr || o.pri == nil {
			fail("RecoverPriPoly", "refused-with-t-distinct-shares", "refused although >= t distinct valid shares are present")
		} else {
			rc := o.pri.Coefficients()
			same := len(rc) == len(c.coeffs)
			for i := 0; same && i < len(rc); i++ {
				same = rc[i].Equal(c.coeffs[i])
			}
			if !same {
				fail("RecoverPriPoly", "wrong-polynomial", "recovered coefficients "+strings.Join(sstrs(rc), ",")+" differ from the dealer's")
			} else if !o.pri.Equal(c.pri) || !c.pri.Equal(o.pri) {
				fail("PriPoly.Equal", "false-on-equal", "Equal is false on the recovered polynomial although all coefficients are equal")
			}
		}
		if o.pubErr || o.pub == nil {
			fail("RecoverPubPoly", "refused-with-t-distinct-shares", "refused although >= t distinct valid public shares are present")
		} else {
			_, rc := o.pub.Info()
			_, dc := c.pub.Info()
			same := len(rc) == len(dc)
			for i := 0; same && i < len(rc); i++ {
				same = rc[i].Equal(dc[i])
			}
			if !same {
				fail("RecoverPubPoly", "wrong-polynomial", "recovered commitments differ from the dealer's")
			} else if !o.pub.Equal(c.pub) || !c.pub.Equal(o.pub) {
				fail("PubPoly.Equal", "false-on-equal", "Equal is false on the recovered public polynomial although all commitments are equal")
			}
		}
	} else {
		if !o.secErr {
			fail("RecoverSecret", "accepted-below-t", "returned a value from fewer than t distinct valid shares")
		}
		if !o.comErr {
			fail("RecoverCommit", "accepted-below-t", "returned a value from fewer than t distinct valid public shares")
		}
		if !o.priErr {
			fail("RecoverPriPoly", "accepted-below-t", "returned a polynomial from fewer than t distinct valid shares")
		}
		if !o.pubErr {
			fail("RecoverPubPoly", "accepted-below-t", "returned a polynomial from fewer than t distinct valid public shares")
		}
	}
}

// ---------------------------------------------------------------- evaluation / commitment / Check oracles

func (c *polyCtx) oracleEval(rep *vh.Report, r *vh.Rng) {
	g := c.G.g
	fail := func(key, desc string, extra map[string]interface{}) {
		rep.Fail(key, fmt.Sprintf("%s (group %s, t=%d n=%d)", desc, c.G.name, c.t, c.n), c.replay(nil, extra))
	}
	if int(c.pri.Threshold()) != c.t || int(c.pub.Threshold()) != c.t {
		fail("share.Threshold/wrong", "Threshold differs from the number of coefficients", nil)
	}
	if !c.pri.Secret().Equal(c.coeffs[0]) || !c.pub.Commit().Equal(mulBase(g, c.coeffs[0], c.base)) {
		fail("share.Secret/wrong", "Secret()/Commit() is not the constant term", nil)
	}
	if len(c.sh) != c.n || len(c.psh) != c.n {
		fail("share.Shares/length", "Shares(n) does not return n shares", nil)
		return
	}
	idx := append([]uint32{}, c.idx...)
	idx = append(idx, uint32(c.n+r.Intn(50)), uint32(r.U64()), 0xffffffff, 0x7fffffff, 0x80000000)
	for k, i := range idx {
		var s *share.PriShare
		var p *share.PubShare
		if k < c.n {
			s, p = c.sh[k], c.psh[k]
		} else {
			s, p = c.pri.Eval(i), c.pub.Eval(i)
		}
		ex := map[string]interface{}{"index": i, "private": sstr(s.V), "public": pstr(p.V)}
		if s.I != i || p.I != i {
			fail("share.Eval/wrong-index", "share carries a wrong index", ex)
		}
		want := naiveEval(g, c.coeffs, int64(i)+1)
		if !s.V.Equal(want) {
			fail("share.PriPoly.Eval/not-p(i+1)", "private share is not p(i+1) = "+sstr(want), ex)
		}
		// the commitment polynomial evaluates at i to the commitment of private share i
		if !p.V.Equal(mulBase(g, want, c.base)) {
			fail("share.PubPoly.Eval/not-commitment-of-share", "public share is not p(i+1)*base", ex)
		}
		// Check accepts exactly the shares on the polynomial
		if !c.pub.Check(s) {
			fail("share.PubPoly.Check/rejects-honest-share", "Check rejects the dealer's share", ex)
		}
		var delta kyber.Scalar
		if r.Chance(50) {
			delta = g.Scalar().One()
		} else {
			delta = c.G.randScalar()
		}
		if delta.Equal(g.Scalar().Zero()) {
			delta = g.Scalar().One()
		}
		bad := &share.PriShare{I: i, V: g.Scalar().Add(s.V, delta)}
		if c.pub.Check(bad) {
			ex["forged"] = sstr(bad.V)
			fail("share.PubPoly.Check/accepts-off-polynomial-share", "Check accepts a share that is not on the committed polynomial", ex)
		}
		// right value, other index: accepted iff it happens to be p(j+1)
		j := uint32(r.Intn(c.n + 1))
		moved := &share.PriShare{I: j, V: s.V}
		on := naiveEval(g, c.coeffs, int64(j)+1).Equal(s.V)
		if c.pub.Check(moved) != on {
			ex["moved_to_index"] = j
			fail("share.PubPoly.Check/index-not-bound", fmt.Sprintf("Check = %v for a share value moved to index %d (on polynomial: %v)", !on, j, on), ex)
		}
	}
	// Check against a commitment under another base must refuse (the base is part of the commitment)
	if c.t >= 1 {
		ob := c.G.basePoint(r, 1)
		if (c.base == nil && !ob.Equal(g.Point().Base())) || (c.base != nil && !ob.Equal(c.base)) {
			other := share.NewPubPoly(g, ob, infoCommits(c.pub))
			s := c.sh[r.Intn(c.n)]
			if !s.V.Equal(g.Scalar().Zero()) && other.Check(s) {
				fail("share.PubPoly.Check/wrong-base-accepted", "Check accepts a share against commitments made with another base", map[string]interface{}{"other_base": pstr(ob), "index": s.I})
			}
		}
	}
}

func infoCommits(p *share.PubPoly) []kyber.Point { _, c := p.Info(); return c }

// Add / Mul commute with evaluation and commitment
func oracleArith(G *grp, rep *vh.Rng, r *vh.Report, t1, t2 int) {
	g := G.g
	mk := func(t int) []kyber.Scalar {
		cs := make([]kyber.Scalar, t)
		for i := range cs {
			cs[i] = G.edgeScalar(rep)
		}
		return cs
	}
	c1, c2 := mk(t1), mk(t2)
	p1, p2 := share.CoefficientsToPriPoly(g, c1), share.CoefficientsToPriPoly(g, c2)
	base := G.basePoint(rep, rep.Intn(3))
	replay := map[string]interface{}{"group": G.name, "p": sstrs(c1), "q": sstrs(c2), "base": pstr(base)}
	fail := func(key, desc string) {
		r.Fail(key, fmt.Sprintf("%s (group %s, thresholds %d,%d)", desc, G.name, t1, t2), replay)
	}
	idx := []uint32{0, 1, uint32(rep.Intn(30)), uint32(rep.U64())}
	// Mul
	var prod *share.PriPoly
	if p, m := vh.Try(func() { prod = p1.Mul(p2) }); p {
		fail("share.PriPoly.Mul/panic", "panic: "+m)
	} else {
		if int(prod.Threshold()) != t1+t2-1 {
			fail("share.PriPoly.Mul/wrong-degree", fmt.Sprintf("product has %d coefficients", prod.Threshold()))
		}
		pc := prod.Commit(base)
		for _, i := range idx {
			want := g.Scalar().Mul(p1.Eval(i).V, p2.Eval(i).V)
			if !prod.Eval(i).V.Equal(want) {
				fail("share.PriPoly.Mul/eval-not-product", fmt.Sprintf("(p*q)(%d) != p(%d)*q(%d)", i, i, i))
			}
			if !pc.Eval(i).V.Equal(mulBase(g, want, base)) {
				fail("share.PriPoly.Mul/commit-eval-not-product", fmt.Sprintf("Commit(p*q) evaluated at %d is not p*q*base", i))
			}
		}
	}
	// Add
	sum, err := p1.Add(p2)
	if t1 != t2 {
		if err == nil {
			fail("share.PriPoly.Add/different-thresholds-accepted", "Add of polynomials with different thresholds did not fail")
		}
		if _, err := p1.Commit(base).Add(p2.Commit(base)); err == nil {
			fail("share.PubPoly.Add/different-thresholds-accepted", "Add of public polynomials with different thresholds did not fail")
		}
		return
	}
	if err != nil {
		fail("share.PriPoly.Add/error", "Add failed: "+err.Error())
		return
	}
	ps, err := p1.Commit(base).Add(p2.Commit(base))
	if err != nil {
		fail("share.PubPoly.Add/error", "Add failed: "+err.Error())
		return
	}
	sc := sum.Commit(base)
	if !sc.Equal(ps) || !ps.Equal(sc) {
		fail("share.PubPoly.Add/not-commit-of-sum", "Commit(p)+Commit(q) != Commit(p+q)")
	}
	cs, cps := infoCommits(sc), infoCommits(ps)
	for i := range cs {
		if i >= len(cps) || !cs[i].Equal(cps[i]) {
			fail("share.PubPoly.Add/not-commit-of-sum", "Commit(p)+Commit(q) != Commit(p+q) (commitment "+fmt.Sprint(i)+")")
		}
	}
	for _, i := range idx {
		want := g.Scalar().Add(p1.Eval(i).V, p2.Eval(i).V)
		if !sum.Eval(i).V.Equal(want) {
			fail("share.PriPoly.Add/eval-not-sum", fmt.Sprintf("(p+q)(%d) != p(%d)+q(%d)", i, i, i))
		}
		if !ps.Eval(i).V.Equal(mulBase(g, want, base)) {
			fail("share.PubPoly.Add/eval-not-sum", fmt.Sprintf("(P+Q)(%d) != (p(%d)+q(%d))*base", i, i, i))
		}
		if !ps.Check(&share.PriShare{I: i, V: want}) {
			fail("share.PubPoly.Add/check-rejects-sum-share", "Check of the summed commitment rejects the sum of the shares")
		}
	}
	// Equal is decided by the coefficients
	if !p1.Equal(share.CoefficientsToPriPoly(g, append([]kyber.Scalar{}, c1...))) {
		fail("share.PriPoly.Equal/false-on-equal", "Equal false on a copy")
	}
	if t1 > 0 {
		c3 := append([]kyber.Scalar{}, c1...)
		k := rep.Intn(t1)
		c3[k] = g.Scalar().Add(c3[k], g.Scalar().One())
		if p1.Equal(share.CoefficientsToPriPoly(g, c3)) {
			fail("share.PriPoly.Equal/true-on-different", "Equal true although a coefficient differs")
		}
		if p1.Commit(base).Equal(share.CoefficientsToPriPoly(g, c3).Commit(base)) {
			fail("share.PubPoly.Equal/true-on-different", "Equal true although a commitment differs")
		}
	}
}

// ---------------------------------------------------------------- Coq literals (dlog group only)

func zS(s kyber.Scalar) string { return vh.CoqZ(vh.ScalarVal(s)) }
func zP(p kyber.Point) string {
	if p == nil {
		return "1"
	}
	return vh.CoqZ(vh.Dlog(p))
}
func zSs(ss []kyber.Scalar) string {
	it := make([]string, len(ss))
	for i, s := range ss {
		it[i] = zS(s)
	}
	return vh.CoqList(it)
}
func zPs(ps []kyber.Point) string {
	it := make([]string, len(ps))
	for i, p := range ps {
		it[i] = zP(p)
	}
	return vh.CoqList(it)
}
func zU(i uint32) string { return vh.CoqZ(new(big.Int).SetUint64(uint64(i))) }

func (c *polyCtx) coqPoly(id int, r *vh.Rng) string {
	g := c.G.g
	var sh, psh, evals, checks []string
	for i := 0; i < c.n; i++ {
		sh = append(sh, fmt.Sprintf("(%s, %s)", zU(c.sh[i].I), zS(c.sh[i].V)))
		psh = append(psh, fmt.Sprintf("(%s, %s)", zU(c.psh[i].I), zP(c.psh[i].V)))
	}
	for _, i := range []uint32{uint32(c.n + r.Intn(40)), uint32(r.U64()), 0xffffffff} {
		evals = append(evals, fmt.Sprintf("(%s, (%s, %s))", zU(i), zS(c.pri.Eval(i).V), zP(c.pub.Eval(i).V)))
	}
	for k := 0; k < 4; k++ {
		i := uint32(r.Intn(c.n + 2))
		v := c.pri.Eval(i).V
		switch k {
		case 1:
			v = g.Scalar().Add(v, g.Scalar().One())
		case 2:
			v = c.G.randScalar()
		case 3:
			v = c.pri.Eval(uint32(r.Intn(c.n + 2))).V
		}
		verdict := c.pub.Check(&share.PriShare{I: i, V: v})
		checks = append(checks, fmt.Sprintf("(%s, (%s, %s))", zU(i), zS(v), vh.CoqBool(verdict)))
	}
	return fmt.Sprintf("CPoly %d %s %s %s %d %s %s %s %s %s", id, vh.CoqZ(c.G.dlog.Q), zSs(c.coeffs), zP(c.base), c.n,
		vh.CoqList(sh), zPs(infoCommits(c.pub)), vh.CoqList(psh), vh.CoqList(evals), vh.CoqList(checks))
}

func (c *polyCtx) coqRecS(id int, es []ent, o recObs) string {
	sh, psh := c.coqSlices(es)
	sec, com := "None", "None"
	if !o.secErr {
		sec = "(Some " + zS(o.sec) + ")"
	}
	if !o.comErr {
		com = "(Some " + zP(o.com) + ")"
	}
	return fmt.Sprintf("CRecS %d %s %d %s %s %s %s", id, vh.CoqZ(c.G.dlog.Q), c.t, sh, psh, sec, com)
}

func (c *polyCtx) coqSlices(es []ent) (string, string) {
	var sh, psh []string
	for _, e := range es {
		switch e.Kind {
		case 0:
			sh = append(sh, "None")
			psh = append(psh, "None")
		case 1:
			sh = append(sh, fmt.Sprintf("Some (%s, Some %s)", zU(e.I), zS(c.shm[e.I].V)))
			psh = append(psh, fmt.Sprintf("Some (%s, Some %s)", zU(e.I), zP(c.pshm[e.I].V)))
		case 2:
			sh = append(sh, fmt.Sprintf("Some (%s, None)", zU(e.I)))
			psh = append(psh, fmt.Sprintf("Some (%s, None)", zU(e.I)))
		}
	}
	return vh.CoqList(sh), vh.CoqList(psh)
}

func (c *polyCtx) coqRec(id int, es []ent, o recObs) string {
	var sh, psh []string
	for _, e := range es {
		switch e.Kind {
		case 0:
			sh = append(sh, "None")
			psh = append(psh, "None")
		case 1:
			sh = append(sh, fmt.Sprintf("Some (%s, Some %s)", zU(e.I), zS(c.shm[e.I].V)))
			psh = append(psh, fmt.Sprintf("Some (%s, Some %s)", zU(e.I), zP(c.pshm[e.I].V)))
		case 2:
			sh = append(sh, fmt.Sprintf("Some (%s, None)", zU(e.I)))
			psh = append(psh, fmt.Sprintf("Some (%s, None)", zU(e.I)))
		}
	}
	sec, com, pri, pub := "None", "None", "None", "None"
	if !o.secErr {
		sec = "(Some " + zS(o.sec) + ")"
	}
	if !o.comErr {
		com = "(Some " + zP(o.com) + ")"
	}
	if !o.priErr {
		if o.pri == nil {
			pri = "(Some [])"
		} else {
			pri = "(Some " + zSs(o.pri.Coefficients()) + ")"
		}
	}
	if !o.pubErr && o.pub != nil {
		b, cs := o.pub.Info()
		pub = fmt.Sprintf("(Some (%s, %s))", zP(b), zPs(cs))
	}
	return fmt.Sprintf("CRec %d %s %d %s %s %s %s %s %s", id, vh.CoqZ(c.G.dlog.Q), c.t, vh.CoqList(sh), vh.CoqList(psh), sec, com, pri, pub)
}

func coqArith(G *grp, r *vh.Rng, id, t1, t2 int) (string, string) {
	g := G.g
	mk := func(t int) []kyber.Scalar {
		cs := make([]kyber.Scalar, t)
		for i := range cs {
			cs[i] = G.edgeScalar(r)
		}
		return cs
	}
	c1 := mk(t1)
	c2 := mk(t2)
	if t1 == t2 && r.Chance(25) { // equal or nearly equal polynomials, for Equal
		c2 = append([]kyber.Scalar{}, c1...)
		if t1 > 0 && r.Bool() {
			k := r.Intn(t1)
			c2[k] = g.Scalar().Add(c2[k], g.Scalar().One())
		}
	}
	p1, p2 := share.CoefficientsToPriPoly(g, c1), share.CoefficientsToPriPoly(g, c2)
	base := G.basePoint(r, r.Intn(3))
	sum, prod, pubsum := "None", "None", "None"
	if s, err := p1.Add(p2); err == nil {
		sum = "(Some " + zSs(s.Coefficients()) + ")"
	}
	vh.Try(func() {
		m := p1.Mul(p2)
		prod = "(Some " + zSs(m.Coefficients()) + ")"
	})
	q1, q2 := p1.Commit(base), p2.Commit(base)
	if s, err := q1.Add(q2); err == nil {
		pubsum = "(Some " + zPs(infoCommits(s)) + ")"
	}
	txt := fmt.Sprintf("%s %s %s %s %s %s %s %s", zSs(c1), zSs(c2), zP(base), sum, prod, pubsum,
		vh.CoqBool(p1.Equal(p2)), vh.CoqBool(q1.Equal(q2)))
	return fmt.Sprintf("CArith %d %s %s", id, vh.CoqZ(G.dlog.Q), txt), txt
}

// ---------------------------------------------------------------- subsets

func subsetsOf(n, minSize int) [][]int {
	var out [][]int
	for m := 0; m < 1<<uint(n); m++ {
		var s []int
		for i := 0; i < n; i++ {
			if m>>uint(i)&1 == 1 {
				s = append(s, i)
			}
		}
		if len(s) >= minSize {
			out = append(out, s)
		}
	}
	return out
}

func randomSubset(r *vh.Rng, n, size int) []int {
	p := make([]int, n)
	for i := range p {
		p[i] = i
	}
	for i := n - 1; i > 0; i-- {
		j := r.Intn(i + 1)
		p[i], p[j] = p[j], p[i]
	}
	s := append([]int{}, p[:size]...)
	sort.Ints(s)
	return s
}

// ---------------------------------------------------------------- size boundaries

// thresholds at and near the upper end of the property's quantifier (n <= 24):
// products of t-1 x-coordinates / of their differences pass 2^31, 2^32, 2^63
// and 2^64 here (13! > 2^32, 21! > 2^63), which smaller sharings never reach
var bigTN = [][2]int{{21, 24}, {24, 24}, {16, 24}, {18, 24}, {20, 24}, {22, 24}, {23, 24}, {13, 16}, {17, 17}, {22, 22}, {13, 13}}

// share indices around the int32 / uint32 boundaries (legal: x = i+1 < 2^32)
var sparseIdx = []uint32{0, 1, 2, 0x7ffffffe, 0x7fffffff, 0x80000000, 0xfffffffd, 0xfffffffe}

// lowest t indices, highest t indices, random exact-t, random surplus, t-1 (refusal)
func boundarySubsets(r *vh.Rng, t, n int) [][]int {
	var low, high []int
	for i := 0; i < t; i++ {
		low = append(low, i)
		high = append(high, n-t+i)
	}
	return [][]int{low, high, randomSubset(r, n, t), randomSubset(r, n, t+r.Intn(n-t+1)), randomSubset(r, n, t-1)}
}

// ---------------------------------------------------------------- main

func main() {
	o := vh.ParseFlags()
	rng := vh.NewRng(o.Seed)
	rep := vh.NewReport("C07", o.Seed, o.Tier)
	rep.Rule = "dlog group (order 2^61-1), model correspondence: every (t,n) with 1<=t<=n<=8 (thorough 12), secrets 0/1/-1/random, bases nil/multiple/picked; for n<=6 (thorough 7) every subset of size >= t-1 as a natural slice (nil where missing) and as shuffled slices with duplicates, nil holes and V=nil shares, random subsets above; Shares/Commit/Eval/Check (honest, off-by-one, random, moved index); Add/Mul/Equal on thresholds 0..6. Size boundaries in every run: thresholds 13..24 with n up to 24 (lowest / highest / random / surplus / t-1 subsets; RecoverSecret+RecoverCommit exact for all, full interpolation exact for three), Shares/Commit/Check and Add/Mul at thresholds up to 24, sharings at indices around 2^31 and 2^32; the same as oracles on every group. Object history (every run, every group): sessions on ONE PriPoly/PubPoly object in which the values returned by Eval, Shares, PubPoly.Commit, PriPoly.Commit, Add, Mul, PubPoly.Add and the four Recover functions are overwritten in place by the caller and the whole object (coefficients, commitments, Eval, Check, dealt shares, recovery) is re-verified against independent copies after every step, operands and share slices are snapshotted around the calls (inputs intact, order intact, second call equal), and the aged object is compared with the model once more; Recover* on values that are not shares of one polynomial (gapped / large indices, surplus, holes, duplicates): exact model comparison, t-lowest-indices subset, private = public subset, permutation independence. Oracles on Ed25519, P-256, BN256 G1, BLS12-381 G1 (kilic), QR-512 and the dlog group: (t,n) up to 12 (thorough 24) with exhaustive subsets for small n and random subsets otherwise. distinct = distinct canonical case text; non-trivial = recovery with t >= 2 from a slice that is not the natural full one, polynomial cases with t >= 2, arithmetic cases with both thresholds >= 2"
	cf := &vh.CaseFile{Header: "From Kyber Require Import Share.ShamirSM Share.ShamirRun.", Type: "case", Runner: "mismatches"}
	G := groups(o.Seed, o.Search)
	dl := G[0]
	id := 0

	// ---------------- correspondence + oracles over the dlog group
	maxN, exhN, orders := 8, 6, 2
	if o.Thorough {
		maxN, exhN, orders = 12, 7, 3
	}
	if !o.Search {
		for n := 1; n <= maxN; n++ {
			for t := 1; t <= n; t++ {
				r := rng.Fork()
				nPoly := 2
				for k := 0; k < nPoly; k++ {
					c := newPolyCtx(dl, r, t, n, r.Intn(30))
					c.oracleEval(rep, r)
					term := c.coqPoly(id, r)
					cf.Items = append(cf.Items, term)
					rep.Count(term, t >= 2)
					rep.Dist("poly")
					rep.Index(id, c.replay(nil, map[string]interface{}{"what": "Shares/Commit/Eval/Check"}))
					id++
				}
				var subs [][]int
				lo := t - 1
				if n <= exhN {
					subs = subsetsOf(n, lo)
				} else {
					nr := 10
					if o.Thorough {
						nr = 20
					}
					subs = append(subs, randomSubset(r, n, t), randomSubset(r, n, lo))
					for k := 0; k < nr; k++ {
						subs = append(subs, randomSubset(r, n, lo+r.Intn(n-lo+1)))
					}
				}
				c := newPolyCtx(dl, r, t, n, r.Intn(30))
				for si, sub := range subs {
					if si%16 == 15 {
						c = newPolyCtx(dl, r, t, n, r.Intn(30))
					}
					for k := 0; k < orders; k++ {
						es := arrange(r, sub, n, k == 0)
						ob := c.recover(es)
						c.oracleRecover(rep, es, len(sub), ob)
						term := c.coqRec(id, es, ob)
						cf.Items = append(cf.Items, term)
						rep.Count(term, t >= 2 && !(k == 0 && len(sub) == n))
						rep.Dist("recover:" + arrClass(es, sub, t))
						rep.Index(id, c.replay(es, map[string]interface{}{"what": "Recover*", "subset": sub}))
						if id%97 == 0 {
							rep.Sample(c.replay(es, map[string]interface{}{"secret": sstr(ob.sec)}))
						}
						id++
					}
				}
			}
		}
		for t1 := 0; t1 <= 6; t1++ {
			for t2 := 0; t2 <= 6; t2++ {
				reps := 1
				if t1 == t2 {
					reps = 4
				}
				for k := 0; k < reps; k++ {
					r := rng.Fork()
					term, txt := coqArith(dl, r, id, t1, t2)
					cf.Items = append(cf.Items, term)
					rep.Count(txt, t1 >= 2 && t2 >= 2)
					rep.Dist("arith")
					rep.Index(id, map[string]interface{}{"what": "Add/Mul/Equal", "case": txt})
					id++
				}
			}
		}
	}

	// ---------------- size boundaries over the dlog group (exact correspondence)
	cfBig := &vh.CaseFile{Header: cf.Header, Type: "case", Runner: "mismatches"}
	cfFull := &vh.CaseFile{Header: cf.Header, Type: "case", Runner: "mismatches"}
	if !o.Search {
		for bi, tn := range bigTN {
			t, n := tn[0], tn[1]
			r := rng.Fork()
			c := newPolyCtx(dl, r, t, n, r.Intn(30))
			subs := boundarySubsets(r, t, n)
			if bi >= 3 && !o.Thorough {
				subs = [][]int{subs[0], subs[1], subs[4]}
			}
			for si, sub := range subs {
				es := arrange(r, sub, n, si%2 == 0)
				ob := c.recover(es)
				c.oracleRecover(rep, es, len(sub), ob)
				// the full interpolation is recomputed by the model for three of them
				var term string
				if (bi == 0 && si == 0) || (bi == 1 && si == 2) || (bi == 2 && si == 1) {
					term = c.coqRec(id, es, ob)
					cfFull.Items = append(cfFull.Items, term)
					rep.Dist("recover-large-t-full")
				} else {
					term = c.coqRecS(id, es, ob)
					cfBig.Items = append(cfBig.Items, term)
					rep.Dist("recover-large-t")
				}
				rep.Count(term, true)
				rep.Index(id, c.replay(es, map[string]interface{}{"what": "Recover* at a large threshold", "subset": sub}))
				id++
			}
		}
		for _, tn := range [][2]int{{24, 24}, {13, 24}, {21, 22}} {
			r := rng.Fork()
			c := newPolyCtx(dl, r, tn[0], tn[1], r.Intn(30))
			c.oracleEval(rep, r)
			term := c.coqPoly(id, r)
			cfBig.Items = append(cfBig.Items, term)
			rep.Count(term, true)
			rep.Dist("poly-large-t")
			rep.Index(id, c.replay(nil, map[string]interface{}{"what": "Shares/Commit/Eval/Check at a large threshold"}))
			id++
		}
		for _, tt := range [][2]int{{24, 24}, {12, 24}, {24, 1}, {13, 13}} {
			r := rng.Fork()
			term, txt := coqArith(dl, r, id, tt[0], tt[1])
			cfBig.Items = append(cfBig.Items, term)
			rep.Count(txt, true)
			rep.Dist("arith-large-t")
			rep.Index(id, map[string]interface{}{"what": "Add/Mul/Equal at large thresholds", "case": txt})
			id++
		}
		// shares at sparse indices around 2^31 and 2^32
		for _, t := range []int{2, 3, 4, 6, 8} {
			r := rng.Fork()
			c := newSparseCtx(dl, r, t, sparseIdx, r.Intn(30))
			c.oracleEval(rep, r)
			n := len(sparseIdx)
			subs := [][]int{randomSubset(r, n, t), randomSubset(r, n, t-1), randomSubset(r, n, n)}
			for k := 0; k < 3; k++ {
				subs = append(subs, randomSubset(r, n, t+r.Intn(n-t+1)))
			}
			for k, sub := range subs {
				es := c.reindex(arrange(r, sub, n, k%3 == 0))
				ob := c.recover(es)
				c.oracleRecover(rep, es, len(sub), ob)
				term := c.coqRec(id, es, ob)
				cfBig.Items = append(cfBig.Items, term)
				rep.Count(term, true)
				rep.Dist("recover-large-index")
				rep.Index(id, c.replay(es, map[string]interface{}{"what": "Recover* on shares at indices around 2^31 / 2^32", "subset": sub}))
				id++
			}
		}
	}

	// ---------------- object history and unrelated values over the dlog group (exact correspondence)
	if !o.Search {
		for _, tn := range [][2]int{{1, 1}, {1, 3}, {2, 2}, {2, 4}, {3, 4}, {3, 5}, {4, 6}, {5, 5}} {
			for k := 0; k < 4; k++ {
				r := rng.Fork()
				c := runSession(dl, rep, r, tn[0], tn[1], nSessionOps+r.Intn(6))
				// the aged object against the model
				term := c.coqPoly(id, r)
				cf.Items = append(cf.Items, term)
				rep.Count(term, true)
				rep.Dist("reuse:final-model-comparison")
				rep.Index(id, c.replay(nil, map[string]interface{}{"what": "Shares/Commit/Eval/Check of an object after a history of operations whose results were overwritten"}))
				id++
				sub := randomSubset(r, c.n, c.t+r.Intn(c.n-c.t+1))
				es := arrange(r, sub, c.n, false)
				ob := c.recover(es)
				c.oracleRecover(rep, es, len(sub), ob)
				term = c.coqRec(id, es, ob)
				cf.Items = append(cf.Items, term)
				rep.Count(term, true)
				rep.Index(id, c.replay(es, map[string]interface{}{"what": "Recover* from the shares dealt before the history"}))
				id++
			}
		}
		for t := 1; t <= 5; t++ {
			for k := 0; k < 24; k++ {
				r := rng.Fork()
				n := t - 1 + r.Intn(7)
				var idx []uint32
				if k%3 == 0 {
					for i := 0; i < n; i++ {
						idx = append(idx, uint32(i))
					}
				} else {
					idx = gappedIndices(r, n)
				}
				c := unrelatedCtx(dl, r, t, idx)
				lo := t - 1
				if lo > n {
					lo = n
				}
				sub := randomSubset(r, n, lo+r.Intn(n-lo+1))
				es := c.reindex(arrange(r, sub, n, k%4 == 0))
				c.twice = k%2 == 0
				ob := c.recover(es)
				c.oracleUnrelated(rep, r, es, len(sub), ob)
				term := c.coqRec(id, es, ob)
				cf.Items = append(cf.Items, term)
				rep.Count(term, t >= 2)
				rep.Dist("reuse:unrelated-values")
				rep.Index(id, c.replay(es, map[string]interface{}{"what": "Recover* on values that are not shares of one polynomial", "subset": sub}))
				id++
			}
		}
	}

	// ---------------- object history and unrelated values over all groups (oracles)
	for gi, g := range G {
		ns, nu := 12, 40
		if gi >= 2 {
			ns, nu = 3, 8
		}
		if o.Thorough || o.Search {
			ns, nu = 3*ns, 3*nu
		}
		for k := 0; k < ns; k++ {
			r := rng.Fork()
			t := 1 + r.Intn(4)
			n := t + r.Intn(3)
			runSession(g, rep, r, t, n, nSessionOps)
			rep.Dist("reuse:session:" + g.name)
		}
		for k := 0; k < nu; k++ {
			r := rng.Fork()
			t := 1 + r.Intn(5)
			n := t - 1 + r.Intn(7)
			c := unrelatedCtx(g, r, t, gappedIndices(r, n))
			lo := t - 1
			if lo > n {
				lo = n
			}
			sub := randomSubset(r, n, lo+r.Intn(n-lo+1))
			es := c.reindex(arrange(r, sub, n, k%4 == 0))
			c.twice = k%2 == 0
			ob := c.recover(es)
			c.oracleUnrelated(rep, r, es, len(sub), ob)
			rep.Dist("reuse:unrelated-values:" + g.name)
		}
	}

	// ---------------- size boundaries over all groups (oracles)
	for gi, g := range G {
		list := bigTN
		if gi >= 2 && !o.Thorough && !o.Search {
			list = bigTN[:3]
		}
		for bi, tn := range list {
			t, n := tn[0], tn[1]
			r := rng.Fork()
			c := newPolyCtx(g, r, t, n, r.Intn(30))
			if bi == 1 || o.Thorough {
				c.oracleEval(rep, r)
			}
			subs := boundarySubsets(r, t, n)
			if gi >= 2 && !o.Thorough && !o.Search {
				subs = [][]int{subs[0], subs[1], subs[4]}
			}
			for si, sub := range subs {
				es := arrange(r, sub, n, si%2 == 0)
				ob := c.recover(es)
				c.oracleRecover(rep, es, len(sub), ob)
				rep.Dist("oracle-recover-large-t:" + g.name)
				if o.Search {
					rep.Count(fmt.Sprint(g.name, t, n, es), true)
				}
			}
		}
		for _, t := range []int{2, 3, 5, 8} {
			r := rng.Fork()
			c := newSparseCtx(g, r, t, sparseIdx, r.Intn(30))
			c.oracleEval(rep, r)
			n := len(sparseIdx)
			for k, sub := range [][]int{randomSubset(r, n, t), randomSubset(r, n, t-1), randomSubset(r, n, t+r.Intn(n-t+1))} {
				es := c.reindex(arrange(r, sub, n, k == 2))
				ob := c.recover(es)
				c.oracleRecover(rep, es, len(sub), ob)
				rep.Dist("oracle-recover-large-index:" + g.name)
			}
		}
		for _, tt := range [][2]int{{24, 24}, {13, 20}} {
			oracleArith(g, rng.Fork(), rep, tt[0], tt[1])
			rep.Dist("oracle-arith-large-t:" + g.name)
		}
	}

	// ---------------- oracles over all groups
	oN, oExh, oRand, oArith := 12, 5, 6, 12
	if o.Thorough {
		oN, oExh, oRand, oArith = 24, 7, 20, 60
	}
	if o.Search {
		oN, oExh, oRand, oArith = 12, 6, 12, 40
		if o.Thorough {
			oN = 24
		}
	}
	for gi, g := range G {
		exh := oExh
		if gi >= 2 && !o.Thorough { // the slower groups: exhaustive only for n <= 4
			exh = 4
		}
		for n := 1; n <= oN; n++ {
			for t := 1; t <= n; t++ {
				if n > 8 && !o.Thorough && !o.Search && gi >= 2 && (t+n+gi)%3 != 0 {
					continue
				}
				r := rng.Fork()
				c := newPolyCtx(g, r, t, n, r.Intn(30))
				c.oracleEval(rep, r)
				rep.Dist("oracle-poly:" + g.name)
				var subs [][]int
				if n <= exh {
					subs = subsetsOf(n, 0)
				} else {
					subs = append(subs, randomSubset(r, n, t), randomSubset(r, n, t-1), randomSubset(r, n, n))
					for k := 0; k < oRand; k++ {
						subs = append(subs, randomSubset(r, n, r.Intn(n+1)))
					}
				}
				for si, sub := range subs {
					es := arrange(r, sub, n, si%3 == 0)
					ob := c.recover(es)
					c.oracleRecover(rep, es, len(sub), ob)
					rep.Dist("oracle-recover:" + g.name)
					if o.Search {
						rep.Count(fmt.Sprint(g.name, t, n, es), t >= 2)
					}
				}
			}
		}
		for k := 0; k < oArith; k++ {
			r := rng.Fork()
			t1 := 1 + r.Intn(6)
			t2 := t1
			if r.Chance(40) {
				t2 = 1 + r.Intn(6)
			}
			oracleArith(g, r, rep, t1, t2)
			rep.Dist("oracle-arith:" + g.name)
		}
	}

	if !o.Search {
		vh.WriteShards(o.Out, "c07", cf, 50, rep)
		vh.WriteShards(o.Out, "c07big", cfBig, 4, rep)
		vh.WriteShards(o.Out, "c07full", cfFull, 1, rep)
	}
	rep.Write(o.Out)
}
