// Correspondence + oracle harness for property C13 (PVSS and DLEQ: only correct
// shares verify; any t verified shares recover), anchored in
// share/pvss/pvss.go, proof/dleq/dleq.go and share/poly.go.
//
// Correspondence: pvss and dleq are driven over the transparent discrete-log
// group vh.DlogGroup(Q61) with a recording random stream; the prover's picked
// scalars are replayed from a second copy of the stream, every scalar and point
// logarithm the implementation produced is written into the case files and
// recomputed by the Coq model (PVSS/PvssRun.v).  The hash-to-scalar oracle of
// the model is a table this harness computes on its own (SHA-256 of the
// marshalled points, Pick from the XOF), over the lists the *specification*
// says are hashed (computed with independent big.Int arithmetic).
// Oracles: the clauses of the property are evaluated directly on the
// implementation over the dlog group, Ed25519 and P-256.
package main

import (
	"crypto/cipher"
	"errors"
	"fmt"
	"math/big"
	"strings"

	"go.dedis.ch/kyber/v4"
	"go.dedis.ch/kyber/v4/group/edwards25519"
	"go.dedis.ch/kyber/v4/group/p256"
	"go.dedis.ch/kyber/v4/proof/dleq"
	"go.dedis.ch/kyber/v4/share"
	"go.dedis.ch/kyber/v4/share/pvss"

	"kyverif/vh"
)

// ---------------------------------------------------------------- suites

// detSuite replaces the random stream of a real suite by a deterministic one.
type detSuite struct {
	pvss.Suite
	st cipher.Stream
}

func (d *detSuite) RandomStream() cipher.Stream { return d.st }

type env struct {
	name  string
	suite pvss.Suite
	dlog  *vh.DlogGroup // non-nil for the transparent group
	st    *vh.SeqStream // stream handed to the implementation
	clone *vh.SeqStream // same seed: replays the implementation's picks (dlog only)
	rep   *vh.Report
	cf    *vh.CaseFile
	id    *int
	emit  bool // write correspondence cases (dlog, not in search mode)
}

func newEnv(kind int, seed string, rep *vh.Report, cf *vh.CaseFile, id *int, emit bool) *env {
	st := vh.NewSeqStream([]byte(seed))
	e := &env{st: st, rep: rep, cf: cf, id: id}
	switch kind {
	case 0:
		d := vh.NewDlogGroup(vh.Q61, st)
		e.name, e.suite, e.dlog = "dlog61", d, d
		e.clone = vh.NewSeqStream([]byte(seed))
		e.emit = emit
	case 1:
		e.name, e.suite = "ed25519", &detSuite{edwards25519.NewBlakeSHA256Ed25519(), st}
	default:
		e.name, e.suite = "p256", &detSuite{p256.NewBlakeSHA256P256(), st}
	}
	return e
}

func (e *env) base() kyber.Point  { return e.suite.Point().Base() }
func (e *env) null() kyber.Point  { return e.suite.Point().Null() }
func (e *env) zero() kyber.Scalar { return e.suite.Scalar().Zero() }

// scalar drawn from the harness PRNG (not from the implementation's stream)
func (e *env) scalar(r *vh.Rng, edge bool) kyber.Scalar {
	if e.dlog != nil {
		if edge {
			return e.dlog.ScalarOf(r.EdgeScalar(e.dlog.Q))
		}
		return e.dlog.ScalarOf(r.BigBelow(e.dlog.Q))
	}
	if edge {
		switch r.Intn(8) {
		case 0:
			return e.suite.Scalar().Zero()
		case 1:
			return e.suite.Scalar().One()
		case 2:
			return e.suite.Scalar().Neg(e.suite.Scalar().One())
		case 3:
			return e.suite.Scalar().SetInt64(int64(r.Intn(1000)))
		}
	}
	return e.suite.Scalar().Pick(vh.NewSeqStream(r.Bytes(16)))
}

func (e *env) nonzero(r *vh.Rng, edge bool) kyber.Scalar {
	for {
		s := e.scalar(r, edge)
		if !s.Equal(e.zero()) {
			return s
		}
	}
}

// the hash-to-scalar of the specification, computed without pvss.go / dleq.go
func (e *env) hashPoints(pts []kyber.Point) kyber.Scalar {
	h := e.suite.Hash()
	for _, p := range pts {
		b, err := p.MarshalBinary()
		if err != nil {
			panic(err)
		}
		h.Write(b)
	}
	return e.suite.Scalar().Pick(e.suite.XOF(h.Sum(nil)))
}

// ---------------------------------------------------------------- printing (dlog group)

func dl(p kyber.Point) *big.Int  { return vh.Dlog(p) }
func sv(s kyber.Scalar) *big.Int { return vh.ScalarVal(s) }
func zP(p kyber.Point) string    { return vh.CoqZ(dl(p)) }
func zS(s kyber.Scalar) string   { return vh.CoqZ(sv(s)) }
func zPs(ps []kyber.Point) string {
	out := make([]string, len(ps))
	for i, p := range ps {
		out[i] = zP(p)
	}
	return vh.CoqList(out)
}
func zSs(ss []kyber.Scalar) string {
	out := make([]string, len(ss))
	for i, s := range ss {
		out[i] = zS(s)
	}
	return vh.CoqList(out)
}
func zBs(bs []*big.Int) string {
	out := make([]string, len(bs))
	for i, b := range bs {
		out[i] = vh.CoqZ(b)
	}
	return vh.CoqList(out)
}
func wproof(p *dleq.Proof) string {
	return fmt.Sprintf("(%s, %s, %s, %s)", zS(p.C), zS(p.R), zP(p.VG), zP(p.VH))
}
func wshare(s *pvss.PubVerShare) string {
	return fmt.Sprintf("(%s, %s, %s)", vh.CoqZ(new(big.Int).SetUint64(uint64(s.S.I))), zP(s.S.V), wproof(&s.P))
}
func wshares(ss []*pvss.PubVerShare) string {
	out := make([]string, len(ss))
	for i, s := range ss {
		out[i] = wshare(s)
	}
	return vh.CoqList(out)
}

// human-readable (replays, any group)
func pstr(p kyber.Point) string {
	if p == nil {
		return "nil"
	}
	if dp, ok := p.(*vh.DlogPoint); ok {
		return "dlog:" + vh.Dlog(dp).String()
	}
	b, _ := p.MarshalBinary()
	return vh.Hex(b)
}
func sstr(s kyber.Scalar) string {
	if s == nil {
		return "nil"
	}
	return vh.ScalarVal(s).String()
}
func shareStr(s *pvss.PubVerShare) map[string]interface{} {
	return map[string]interface{}{"I": s.S.I, "V": pstr(s.S.V), "C": sstr(s.P.C), "R": sstr(s.P.R), "VG": pstr(s.P.VG), "VH": pstr(s.P.VH)}
}

// oracle table over the dlog group
type table struct {
	e    *env
	rows []string
	seen map[string]bool
}

func (e *env) newTable() *table { return &table{e: e, seen: map[string]bool{}} }
func (t *table) add(key []*big.Int) {
	ks := zBs(key)
	if t.seen[ks] {
		return
	}
	t.seen[ks] = true
	pts := make([]kyber.Point, len(key))
	for i, k := range key {
		pts[i] = t.e.dlog.PointOf(k)
	}
	t.rows = append(t.rows, fmt.Sprintf("(%s, %s)", ks, zS(t.e.hashPoints(pts))))
}
func (t *table) String() string { return vh.CoqList(t.rows) }

func (e *env) addCase(term string, nontrivial bool, dist string, desc interface{}) {
	if !e.emit {
		return
	}
	e.cf.Items = append(e.cf.Items, term)
	e.rep.Count(term, nontrivial)
	e.rep.Dist(dist)
	e.rep.Index(*e.id, desc)
	*e.id++
}

// ---------------------------------------------------------------- error classes

func encCode(err error) int {
	switch {
	case err == nil:
		return 0
	case errors.Is(err, pvss.ErrGlobalChallengeVerification):
		return 1
	case errors.Is(err, pvss.ErrEncVerification):
		return 2
	}
	return 99
}
func decCode(err error) int {
	switch {
	case err == nil:
		return 0
	case errors.Is(err, pvss.ErrDecShareChallengeVerification):
		return 1
	case errors.Is(err, pvss.ErrDecVerification):
		return 2
	case errors.Is(err, pvss.ErrDecShareIndex):
		return 3
	}
	return 99
}
func recCode(err error) int {
	switch {
	case errors.Is(err, pvss.ErrDifferentLengths):
		return 1
	case errors.Is(err, pvss.ErrTooFewShares):
		return 2
	case err != nil && strings.Contains(err.Error(), "not enough good public shares"):
		return 3
	}
	return 99
}

// ---------------------------------------------------------------- big.Int arithmetic of the specification

func (e *env) mod(v *big.Int) *big.Int { return v.Mod(v, e.dlog.Q) }
func (e *env) mul(a, b *big.Int) *big.Int {
	return e.mod(new(big.Int).Mul(a, b))
}

// sum_j c_j x^j
func (e *env) polyAt(c []*big.Int, x int64) *big.Int {
	acc := new(big.Int)
	pow := big.NewInt(1)
	xs := big.NewInt(x)
	for _, cj := range c {
		acc = e.mod(acc.Add(acc, e.mul(cj, pow)))
		pow = e.mul(pow, xs)
	}
	return acc
}

// ---------------------------------------------------------------- a PVSS world

type world struct {
	e       *env
	n, t    int
	H       kyber.Point
	x       []kyber.Scalar
	X       []kyber.Point
	secret  kyber.Scalar
	want    kyber.Point // secret * G
	enc     []*pvss.PubVerShare
	pub     *share.PubPoly
	commits []kyber.Point
	sH      []kyber.Point
	gc      kyber.Scalar
	dec     []*pvss.PubVerShare
	// replayed randomness (dlog only)
	coeffs []kyber.Scalar
	vs     []kyber.Scalar
	dvs    []kyber.Scalar
	tag    string
}

func cloneProof(p *dleq.Proof) dleq.Proof {
	return dleq.Proof{C: p.C.Clone(), R: p.R.Clone(), VG: p.VG.Clone(), VH: p.VH.Clone()}
}
func cloneShare(s *pvss.PubVerShare) *pvss.PubVerShare {
	return &pvss.PubVerShare{S: share.PubShare{I: s.S.I, V: s.S.V.Clone()}, P: cloneProof(&s.P)}
}
func cloneShares(ss []*pvss.PubVerShare) []*pvss.PubVerShare {
	out := make([]*pvss.PubVerShare, len(ss))
	for i, s := range ss {
		out[i] = cloneShare(s)
	}
	return out
}
func clonePoints(ps []kyber.Point) []kyber.Point {
	out := make([]kyber.Point, len(ps))
	for i, p := range ps {
		out[i] = p.Clone()
	}
	return out
}

func (w *world) replay(extra map[string]interface{}) map[string]interface{} {
	m := map[string]interface{}{"group": w.e.name, "n": w.n, "t": w.t, "tag": w.tag,
		"H": pstr(w.H), "secret": sstr(w.secret)}
	xs := make([]string, len(w.x))
	for i := range w.x {
		xs[i] = sstr(w.x[i])
	}
	m["trustee_keys"] = xs
	if w.coeffs != nil {
		cs := make([]string, len(w.coeffs))
		for i := range cs {
			cs[i] = sstr(w.coeffs[i])
		}
		m["coeffs"] = cs
	}
	for k, v := range extra {
		m[k] = v
	}
	return m
}

func (w *world) sHFor(pub *share.PubPoly, enc []*pvss.PubVerShare) []kyber.Point {
	out := make([]kyber.Point, len(enc))
	for i, s := range enc {
		out[i] = pub.Eval(s.S.I).V
	}
	return out
}

// key list of the global challenge according to the specification
func (w *world) gcKey(commits []kyber.Point, n int, enc []*pvss.PubVerShare) []*big.Int {
	e := w.e
	cs := make([]*big.Int, len(commits))
	for i, c := range commits {
		cs[i] = dl(c)
	}
	var key []*big.Int
	for i := 0; i < n; i++ {
		key = append(key, e.polyAt(cs, int64(i)+1))
	}
	for _, s := range enc {
		key = append(key, dl(s.S.V))
	}
	for _, s := range enc {
		key = append(key, dl(s.P.VG))
	}
	for _, s := range enc {
		key = append(key, dl(s.P.VH))
	}
	return key
}

// key list of the share-decryption challenge: X, encrypted share, decrypted share V, VG, VH
func decKey(X kyber.Point, enc, dec *pvss.PubVerShare) []*big.Int {
	return []*big.Int{dl(X), dl(enc.S.V), dl(dec.S.V), dl(dec.P.VG), dl(dec.P.VH)}
}

// newWorld runs the honest protocol and checks the honest clauses
// value relations between the inputs of a PVSS run
var worldRels = []string{"independent", "H = Base", "H = X_0 (trustee key equal to the base point H)", "X_1 = X_0 (two trustees with the same key)",
	"secret 0", "secret 1 (t = 1: every decrypted share is the generator)", "H = -Base and X_0 = Base (key 1)"}

func newWorld(e *env, r *vh.Rng, n, t, secretKind int, tag string) *world {
	return newWorldRel(e, r, n, t, secretKind, 0, tag)
}

func newWorldRel(e *env, r *vh.Rng, n, t, secretKind, rel int, tag string) *world {
	rel = rel % len(worldRels)
	if rel != 0 {
		tag = tag + " / " + worldRels[rel]
	}
	w := &world{e: e, n: n, t: t, tag: tag}
	rep := e.rep
	w.H = e.suite.Point().Mul(e.nonzero(r, true), nil)
	if e.dlog == nil && r.Bool() {
		w.H = e.suite.Point().Pick(vh.NewSeqStream(r.Bytes(16)))
	}
	for i := 0; i < n; i++ {
		xi := e.nonzero(r, i == 0 && r.Chance(30))
		if rel == 3 && i == 1 {
			xi = w.x[0].Clone()
		}
		if rel == 6 && i == 0 {
			xi = e.suite.Scalar().One()
		}
		w.x = append(w.x, xi)
		w.X = append(w.X, e.suite.Point().Mul(xi, nil))
	}
	switch rel {
	case 1:
		w.H = e.base()
	case 2:
		w.H = w.X[0].Clone()
	case 4:
		secretKind = 1
	case 5:
		secretKind = 2
	case 6:
		w.H = e.suite.Point().Neg(e.base())
	}
	switch secretKind % 4 {
	case 0:
		w.secret = e.scalar(r, false)
	case 1:
		w.secret = e.suite.Scalar().Zero()
	case 2:
		w.secret = e.suite.Scalar().One()
	default:
		w.secret = e.suite.Scalar().Neg(e.suite.Scalar().One())
	}
	w.want = e.suite.Point().Mul(w.secret, nil)

	// replay of the picks: t-1 coefficients, then n commitment scalars
	if e.dlog != nil {
		w.coeffs = []kyber.Scalar{w.secret.Clone()}
		for i := 1; i < t; i++ {
			w.coeffs = append(w.coeffs, e.suite.Scalar().Pick(e.clone))
		}
		for i := 0; i < n; i++ {
			w.vs = append(w.vs, e.suite.Scalar().Pick(e.clone))
		}
	}
	var err error
	w.enc, w.pub, err = pvss.EncShares(e.suite, w.H, w.X, w.secret, uint32(t))
	if err != nil {
		rep.Fail("pvss.EncShares/error-on-honest-input", err.Error(), w.replay(nil))
		return nil
	}
	_, w.commits = w.pub.Info()
	w.sH = w.sHFor(w.pub, w.enc)
	w.gc, err = pvss.VerifComputeGlobalChallenge(e.suite, uint32(n), w.pub, w.enc)
	if err != nil {
		rep.Fail("pvss.computeGlobalChallenge/error-on-honest-input", err.Error(), w.replay(nil))
		return nil
	}
	// the global challenge is the hash of (commitments, shares, VG, VH) and is the C of every proof
	var pts []kyber.Point
	for i := 0; i < n; i++ {
		pts = append(pts, w.pub.Eval(uint32(i)).V)
	}
	for _, s := range w.enc {
		pts = append(pts, s.S.V)
	}
	for _, s := range w.enc {
		pts = append(pts, s.P.VG)
	}
	for _, s := range w.enc {
		pts = append(pts, s.P.VH)
	}
	if !e.hashPoints(pts).Equal(w.gc) {
		rep.Fail("pvss.computeGlobalChallenge/not-hash-of-commitments-and-shares", "global challenge differs from H(sH_i, sX_i, VG_i, VH_i)", w.replay(nil))
	}
	if w.pub.Threshold() != int64(t) || !w.commits[0].Equal(e.suite.Point().Mul(w.secret, w.H)) {
		rep.Fail("pvss.EncShares/commitment-polynomial", "commitment polynomial has wrong threshold or constant term != secret*H", w.replay(nil))
	}
	for i, s := range w.enc {
		if s.S.I != uint32(i) {
			rep.Fail("pvss.EncShares/share-index", fmt.Sprintf("share %d has index %d", i, s.S.I), w.replay(nil))
		}
		if !s.P.C.Equal(w.gc) {
			rep.Fail("pvss.EncShares/proof-challenge-not-global", fmt.Sprintf("proof %d does not carry the global challenge", i), w.replay(nil))
		}
		if err := pvss.VerifyEncShare(e.suite, w.H, w.X[i], w.sH[i], w.gc, s); err != nil {
			rep.Fail("pvss.VerifyEncShare/honest-share-rejected", fmt.Sprintf("share %d: %v", i, err), w.replay(nil))
		}
	}
	K, E, err := pvss.VerifyEncShareBatch(e.suite, w.H, w.X, w.sH, w.pub, w.enc)
	if err != nil || len(K) != n || len(E) != n {
		rep.Fail("pvss.VerifyEncShareBatch/honest-shares-dropped", fmt.Sprintf("kept %d of %d, err=%v", len(E), n, err), w.replay(nil))
	}
	for i := 0; i < n; i++ {
		var dv kyber.Scalar
		if e.dlog != nil {
			dv = e.suite.Scalar().Pick(e.clone)
		}
		d, err := pvss.DecShare(e.suite, w.H, w.X[i], w.sH[i], w.x[i], w.gc, w.enc[i])
		if err != nil {
			rep.Fail("pvss.DecShare/honest-share-rejected", fmt.Sprintf("share %d: %v", i, err), w.replay(nil))
			return nil
		}
		w.dec = append(w.dec, d)
		w.dvs = append(w.dvs, dv)
		if err := pvss.VerifyDecShare(e.suite, e.base(), w.X[i], w.enc[i], d); err != nil {
			rep.Fail("pvss.VerifyDecShare/honest-share-rejected", fmt.Sprintf("share %d: %v", i, err), w.replay(nil))
		}
		// the decrypted share is p(i) G: it matches the commitment polynomial in basis G
		if d.S.I != w.enc[i].S.I {
			rep.Fail("pvss.DecShare/index-changed", fmt.Sprintf("share %d", i), w.replay(nil))
		}
		if !e.suite.Point().Mul(w.x[i], d.S.V).Equal(w.enc[i].S.V) {
			rep.Fail("pvss.DecShare/not-inverse-of-encryption", fmt.Sprintf("share %d: x*V != S", i), w.replay(nil))
		}
	}
	// DecShareBatch: trustee 0 is handed the share of trustee 1, its own share, and its own share under a wrong challenge
	{
		wrongGc := e.suite.Scalar().Add(w.gc, e.suite.Scalar().One())
		Kb, Eb, Db, err, _ := w.decShareBatch([]kyber.Point{w.X[0], w.X[0], w.X[0]}, []kyber.Point{w.sH[1], w.sH[0], w.sH[0]}, w.x[0],
			[]kyber.Scalar{w.gc, w.gc, wrongGc}, []*pvss.PubVerShare{w.enc[1], w.enc[0], w.enc[0]}, "own share between two invalid ones")
		okb := err == nil && len(Kb) == 1 && len(Eb) == 1 && len(Db) == 1 && Eb[0] == w.enc[0] &&
			pvss.VerifyDecShare(e.suite, e.base(), w.X[0], w.enc[0], Db[0]) == nil && Db[0].S.V.Equal(w.dec[0].S.V)
		if w.X[0].Equal(w.X[1]) {
			okb = true
		}
		if !okb {
			rep.Fail("pvss.DecShareBatch/not-filter-of-valid-shares", fmt.Sprintf("kept %d of 3 (expected exactly the own share), err=%v", len(Db), err), w.replay(nil))
		}
		if e.emit {
			// unequal lengths; too few expected challenges (index out of range)
			w.decShareBatch([]kyber.Point{w.X[0]}, []kyber.Point{w.sH[0], w.sH[0]}, w.x[0], []kyber.Scalar{w.gc, w.gc}, []*pvss.PubVerShare{w.enc[0], w.enc[0]}, "unequal lengths")
			w.decShareBatch([]kyber.Point{w.X[0], w.X[0]}, []kyber.Point{w.sH[1], w.sH[0]}, w.x[0], []kyber.Scalar{w.gc}, []*pvss.PubVerShare{w.enc[1], w.enc[0]}, "one challenge for two shares")
		}
	}
	D, err := pvss.VerifyDecShareBatch(e.suite, e.base(), w.X, w.enc, w.dec)
	if err != nil || len(D) != n {
		rep.Fail("pvss.VerifyDecShareBatch/honest-shares-dropped", fmt.Sprintf("kept %d of %d, err=%v", len(D), n, err), w.replay(nil))
	}
	return w
}

// ---------------------------------------------------------------- correspondence cases of the honest run

func (w *world) emitHonest() {
	e := w.e
	if !e.emit {
		return
	}
	q := vh.CoqZ(e.dlog.Q)
	n, t := w.n, w.t
	desc := func(what string) interface{} { return w.replay(map[string]interface{}{"what": what}) }
	// EncShares: model query = (p(i)H, p(i)X_i, v_i H, v_i X_i), all from the coefficients
	cs := make([]*big.Int, len(w.coeffs))
	for i, c := range w.coeffs {
		cs[i] = sv(c)
	}
	var k1, k2, k3, k4 []*big.Int
	for i := 0; i < n; i++ {
		pi := e.polyAt(cs, int64(i)+1)
		k1 = append(k1, e.mul(pi, dl(w.H)))
		k2 = append(k2, e.mul(pi, dl(w.X[i])))
		k3 = append(k3, e.mul(sv(w.vs[i]), dl(w.H)))
		k4 = append(k4, e.mul(sv(w.vs[i]), dl(w.X[i])))
	}
	tb := e.newTable()
	tb.add(append(append(append(k1, k2...), k3...), k4...))
	e.addCase(fmt.Sprintf("(CEnc %d %s %s %s %s %s %s (inr (%s, %s)))", *e.id, q, tb, zP(w.H), zPs(w.X), zSs(w.coeffs), zSs(w.vs),
		wshares(w.enc), zPs(w.commits)), t >= 2, "enc_shares", desc("EncShares"))
	// computeCommitments / computeGlobalChallenge
	coms := pvss.VerifComputeCommitments(e.suite, uint32(n), w.commits)
	tb = e.newTable()
	tb.add(w.gcKey(w.commits, n, w.enc))
	e.addCase(fmt.Sprintf("(CGc %d %s %s %d %s %s (Some %s) (Some %s))", *e.id, q, tb, n, zPs(w.commits), wshares(w.enc), zPs(coms), zS(w.gc)),
		t >= 2, "global_challenge", desc("computeCommitments/computeGlobalChallenge"))
	// DecShare / VerifyDecShare per trustee
	for i := 0; i < n; i++ {
		inv := new(big.Int).ModInverse(sv(w.x[i]), e.dlog.Q)
		V := e.mul(inv, dl(w.enc[i].S.V))
		tb = e.newTable()
		tb.add([]*big.Int{dl(w.X[i]), dl(w.enc[i].S.V), V, sv(w.dvs[i]), e.mul(sv(w.dvs[i]), V)})
		e.addCase(fmt.Sprintf("(CDec %d %s %s %s %s %s %s %s %s %s (inr %s))", *e.id, q, tb, zP(w.H), zP(w.X[i]), zP(w.sH[i]), zS(w.x[i]), zS(w.gc),
			wshare(w.enc[i]), zS(w.dvs[i]), wshare(w.dec[i])), true, "dec_share", desc(fmt.Sprintf("DecShare trustee %d", i)))
	}
}

// ---------------------------------------------------------------- calls with correspondence + results

func (w *world) verEnc(X, sH kyber.Point, gc kyber.Scalar, s *pvss.PubVerShare, what string) int {
	e := w.e
	code := encCode(pvss.VerifyEncShare(e.suite, w.H, X, sH, gc, s))
	if e.emit {
		e.addCase(fmt.Sprintf("(CVerEnc %d %s %s %s %s %s %s %d)", *e.id, vh.CoqZ(e.dlog.Q), zP(w.H), zP(X), zP(sH), zS(gc), wshare(s), code),
			code != 0, fmt.Sprintf("verify_enc:%d", code), w.replay(map[string]interface{}{"what": "VerifyEncShare " + what, "share": shareStr(s)}))
	}
	return code
}

// batch verification as a verifier does it: sH from the shares' own indices
func (w *world) encBatch(X []kyber.Point, pub *share.PubPoly, enc []*pvss.PubVerShare, what string) ([]kyber.Point, []*pvss.PubVerShare, int) {
	e := w.e
	sH := w.sHFor(pub, enc)
	K, E, err := pvss.VerifyEncShareBatch(e.suite, w.H, X, sH, pub, enc)
	code := 0
	if err != nil {
		code = recCode(err)
	}
	if e.emit {
		_, commits := pub.Info()
		tb := e.newTable()
		tb.add(w.gcKey(commits, len(X), enc))
		out := fmt.Sprintf("(inr (%s, %s))", zPs(K), wshares(E))
		if err != nil {
			out = fmt.Sprintf("(inl %d)", code)
		}
		e.addCase(fmt.Sprintf("(CEncBatch %d %s %s %s %s %s %s %s %s)", *e.id, vh.CoqZ(e.dlog.Q), tb, zP(w.H), zPs(X), zPs(sH), zPs(commits), wshares(enc), out),
			len(E) != len(enc), fmt.Sprintf("enc_batch:kept%d/%d", len(E), len(enc)), w.replay(map[string]interface{}{"what": "VerifyEncShareBatch " + what}))
	}
	return K, E, code
}

// DecShareBatch with replay of the scalars picked for the successful positions
func (w *world) decShareBatch(X, sH []kyber.Point, x kyber.Scalar, gcs []kyber.Scalar, enc []*pvss.PubVerShare, what string) ([]kyber.Point, []*pvss.PubVerShare, []*pvss.PubVerShare, error, bool) {
	e := w.e
	var K []kyber.Point
	var E, D []*pvss.PubVerShare
	var err error
	before := len(e.st.Log)
	panicked, _ := vh.Try(func() { K, E, D, err = pvss.DecShareBatch(e.suite, w.H, X, sH, x, gcs, enc) })
	if e.dlog == nil {
		return K, E, D, err, panicked
	}
	// replay exactly the bytes the implementation consumed (also on a panic half way)
	var vs []kyber.Scalar
	for len(e.clone.Log) < len(e.st.Log) {
		vs = append(vs, e.suite.Scalar().Pick(e.clone))
	}
	_ = before
	if e.emit {
		tb := e.newTable()
		inv := new(big.Int).ModInverse(sv(x), e.dlog.Q)
		k := 0
		for i := range enc {
			if i < len(X) && i < len(sH) && i < len(gcs) && k < len(vs) &&
				pvss.VerifyEncShare(e.suite, w.H, X[i], sH[i], gcs[i], enc[i]) == nil {
				V := e.mul(inv, dl(enc[i].S.V))
				tb.add([]*big.Int{dl(X[i]), dl(enc[i].S.V), V, sv(vs[k]), e.mul(sv(vs[k]), V)})
				k++
			}
		}
		out := fmt.Sprintf("(inr (%s, %s, %s))", zPs(K), wshares(E), wshares(D))
		switch {
		case panicked:
			out = "(inl (-1))"
		case err != nil:
			out = fmt.Sprintf("(inl %d)", recCode(err))
		}
		if panicked {
			vs = nil // the model does not describe how far a panicking call got
		}
		e.addCase(fmt.Sprintf("(CDecShareBatch %d %s %s %s %s %s %s %s %s %s %s)", *e.id, vh.CoqZ(e.dlog.Q), tb, zP(w.H), zPs(X), zPs(sH), zS(x), zSs(gcs), wshares(enc), zSs(vs), out),
			true, "dec_share_batch", w.replay(map[string]interface{}{"what": "DecShareBatch " + what}))
	}
	return K, E, D, err, panicked
}

func (w *world) verDec(X kyber.Point, enc, dec *pvss.PubVerShare, what string) int {
	e := w.e
	code := decCode(pvss.VerifyDecShare(e.suite, e.base(), X, enc, dec))
	if e.emit {
		tb := e.newTable()
		tb.add(decKey(X, enc, dec))
		e.addCase(fmt.Sprintf("(CVerDec %d %s %s 1 %s %s %s %d)", *e.id, vh.CoqZ(e.dlog.Q), tb, zP(X), wshare(enc), wshare(dec), code),
			code != 0, fmt.Sprintf("verify_dec:%d", code), w.replay(map[string]interface{}{"what": "VerifyDecShare " + what, "enc": shareStr(enc), "dec": shareStr(dec)}))
	}
	return code
}

func (w *world) decTable(X []kyber.Point, enc, dec []*pvss.PubVerShare) *table {
	tb := w.e.newTable()
	for i := range X {
		if i < len(enc) && i < len(dec) {
			tb.add(decKey(X[i], enc[i], dec[i]))
		}
	}
	return tb
}

func (w *world) decBatch(X []kyber.Point, enc, dec []*pvss.PubVerShare, what string) ([]*pvss.PubVerShare, error) {
	e := w.e
	D, err := pvss.VerifyDecShareBatch(e.suite, e.base(), X, enc, dec)
	if e.emit {
		out := "None"
		if err == nil {
			out = fmt.Sprintf("(Some %s)", wshares(D))
		}
		e.addCase(fmt.Sprintf("(CDecBatch %d %s %s 1 %s %s %s %s)", *e.id, vh.CoqZ(e.dlog.Q), w.decTable(X, enc, dec), zPs(X), wshares(enc), wshares(dec), out),
			len(D) != len(dec), fmt.Sprintf("dec_batch:kept%d/%d", len(D), len(dec)), w.replay(map[string]interface{}{"what": "VerifyDecShareBatch " + what}))
	}
	return D, err
}

// RecoverSecret; returns the point or nil and the error class
func (w *world) recover(X []kyber.Point, enc, dec []*pvss.PubVerShare, t int, what string, nontrivial bool) (kyber.Point, int) {
	e := w.e
	var p kyber.Point
	var err error
	panicked, msg := vh.Try(func() { p, err = pvss.RecoverSecret(e.suite, e.base(), X, enc, dec, uint32(t), uint32(w.n)) })
	if panicked {
		e.rep.Fail("pvss.RecoverSecret/panic", msg, w.replay(map[string]interface{}{"what": what}))
		return nil, -1
	}
	code := 0
	if err != nil {
		code = recCode(err)
		p = nil
	}
	if e.emit {
		out := fmt.Sprintf("(inl %d)", code)
		if err == nil {
			out = fmt.Sprintf("(inr %s)", zP(p))
		}
		e.addCase(fmt.Sprintf("(CRecover %d %s %s 1 %s %s %s %d %s)", *e.id, vh.CoqZ(e.dlog.Q), w.decTable(X, enc, dec), zPs(X), wshares(enc), wshares(dec), t, out),
			nontrivial, fmt.Sprintf("recover:%d", code), w.replay(map[string]interface{}{"what": "RecoverSecret " + what, "t": t}))
	}
	return p, code
}

// ---------------------------------------------------------------- subsets and orders

func pick(idx []int, X []kyber.Point, enc, dec []*pvss.PubVerShare) ([]kyber.Point, []*pvss.PubVerShare, []*pvss.PubVerShare) {
	var x []kyber.Point
	var en, de []*pvss.PubVerShare
	for _, i := range idx {
		x = append(x, X[i])
		en = append(en, enc[i])
		de = append(de, dec[i])
	}
	return x, en, de
}

func permutations(a []int) [][]int {
	if len(a) <= 1 {
		return [][]int{append([]int{}, a...)}
	}
	var out [][]int
	for i := range a {
		rest := append(append([]int{}, a[:i]...), a[i+1:]...)
		for _, p := range permutations(rest) {
			out = append(out, append([]int{a[i]}, p...))
		}
	}
	return out
}

func subsets(n int) [][]int {
	var out [][]int
	for m := 0; m < 1<<uint(n); m++ {
		var s []int
		for i := 0; i < n; i++ {
			if m>>uint(i)&1 == 1 {
				s = append(s, i)
			}
		}
		out = append(out, s)
	}
	return out
}

func shuffle(r *vh.Rng, a []int) []int {
	b := append([]int{}, a...)
	for i := len(b) - 1; i > 0; i-- {
		j := r.Intn(i + 1)
		b[i], b[j] = b[j], b[i]
	}
	return b
}

// any t verified decrypted shares, in any order, recover secret*G; fewer are refused
func (w *world) oracleSubsets(r *vh.Rng, allOrdersUpTo, randomOrders int, maxSubsets int) {
	subs := subsets(w.n)
	if maxSubsets > 0 && len(subs) > maxSubsets {
		// keep the empty set, the full set and a random selection
		sel := [][]int{subs[0], subs[len(subs)-1]}
		for len(sel) < maxSubsets {
			sel = append(sel, subs[r.Intn(len(subs))])
		}
		subs = sel
	}
	for _, s := range subs {
		var orders [][]int
		if w.n <= allOrdersUpTo {
			orders = permutations(s)
		} else {
			orders = [][]int{s}
			for k := 0; k < randomOrders && len(s) > 1; k++ {
				orders = append(orders, shuffle(r, s))
			}
		}
		for _, o := range orders {
			X, en, de := pick(o, w.X, w.enc, w.dec)
			p, code := w.recover(X, en, de, w.t, fmt.Sprintf("honest subset %v", o), w.t >= 2 && len(o) != w.n)
			rp := map[string]interface{}{"positions": o}
			if len(o) >= w.t {
				if p == nil {
					w.e.rep.Fail("pvss.RecoverSecret/t-valid-shares-refused", fmt.Sprintf("%d verified shares, t=%d, error class %d", len(o), w.t, code), w.replay(rp))
				} else if !p.Equal(w.want) {
					w.e.rep.Fail("pvss.RecoverSecret/wrong-point-from-valid-shares", "recovered point != secret*G", w.replay(rp))
				}
			} else if p != nil || code != 2 {
				w.e.rep.Fail("pvss.RecoverSecret/below-t-not-refused", fmt.Sprintf("%d shares, t=%d: result %v, error class %d", len(o), w.t, p != nil, code), w.replay(rp))
			}
		}
	}
}

// ---------------------------------------------------------------- mutations

func (e *env) mutScalar(r *vh.Rng, s kyber.Scalar, kind int) kyber.Scalar {
	var out kyber.Scalar
	switch kind % 3 {
	case 0:
		out = e.suite.Scalar().Add(s, e.suite.Scalar().One())
	case 1:
		out = e.suite.Scalar().Zero()
	default:
		out = e.scalar(r, false)
	}
	if out.Equal(s) {
		out = e.suite.Scalar().Add(s, e.suite.Scalar().One())
	}
	return out
}

func (e *env) mutPoint(r *vh.Rng, p kyber.Point, kind int) kyber.Point {
	var out kyber.Point
	switch kind % 3 {
	case 0:
		out = e.suite.Point().Add(p, e.base())
	case 1:
		out = e.null()
	default:
		out = e.suite.Point().Mul(e.scalar(r, false), nil)
	}
	if out.Equal(p) {
		out = e.suite.Point().Add(p, e.base())
	}
	return out
}

var shareFields = []string{"I", "V", "C", "R", "VG", "VH"}

// mutate one field of s (a fresh copy is returned); other = the share of another trustee (swap source)
func (w *world) mutShare(r *vh.Rng, s, other *pvss.PubVerShare, field string, kind int) (*pvss.PubVerShare, bool) {
	e := w.e
	m := cloneShare(s)
	swap := kind == 3
	switch field {
	case "I":
		switch {
		case swap:
			m.S.I = other.S.I
		case kind%3 == 0:
			m.S.I = s.S.I + uint32(w.n)
		case kind%3 == 1:
			m.S.I = 4294967295
		default:
			m.S.I = s.S.I + 1
		}
		return m, m.S.I != s.S.I
	case "V":
		if swap {
			m.S.V = other.S.V.Clone()
		} else {
			m.S.V = e.mutPoint(r, s.S.V, kind)
		}
		return m, !m.S.V.Equal(s.S.V)
	case "C":
		if swap {
			// all honest enc proofs share C: take the other's R as a foreign scalar instead
			m.P.C = other.P.R.Clone()
		} else {
			m.P.C = e.mutScalar(r, s.P.C, kind)
		}
		return m, !m.P.C.Equal(s.P.C)
	case "R":
		if swap {
			m.P.R = other.P.R.Clone()
		} else {
			m.P.R = e.mutScalar(r, s.P.R, kind)
		}
		return m, !m.P.R.Equal(s.P.R)
	case "VG":
		if swap {
			m.P.VG = other.P.VG.Clone()
		} else {
			m.P.VG = e.mutPoint(r, s.P.VG, kind)
		}
		return m, !m.P.VG.Equal(s.P.VG)
	case "VH":
		if swap {
			m.P.VH = other.P.VH.Clone()
		} else {
			m.P.VH = e.mutPoint(r, s.P.VH, kind)
		}
		return m, !m.P.VH.Equal(s.P.VH)
	case "P": // whole proof of the other trustee
		m.P = cloneProof(&other.P)
		return m, true
	case "S": // whole share (value + proof) of the other trustee, own index kept
		m.S.V = other.S.V.Clone()
		m.P = cloneProof(&other.P)
		return m, true
	}
	panic("field")
}

func contains(list []*pvss.PubVerShare, s *pvss.PubVerShare) bool {
	for _, x := range list {
		if x == s {
			return true
		}
	}
	return false
}

// every single-field mutation / cross-trustee swap on the encrypted side
func (w *world) oracleEncMutations(r *vh.Rng, positions []int, kinds []int) {
	e := w.e
	rep := e.rep
	n := w.n
	fail := func(key, desc string, extra map[string]interface{}) { rep.Fail(key, desc, w.replay(extra)) }
	for _, k := range positions {
		o := (k + 1 + r.Intn(n-1)) % n // another trustee
		for _, field := range append(append([]string{}, shareFields...), "P", "S") {
			for _, kind := range kinds {
				if (field == "P" || field == "S") && kind != 3 {
					continue
				}
				m, changed := w.mutShare(r, w.enc[k], w.enc[o], field, kind)
				if !changed {
					continue
				}
				what := fmt.Sprintf("enc[%d].%s kind %d (other %d)", k, field, kind, o)
				extra := map[string]interface{}{"mutation": what, "mutated": shareStr(m)}
				sHm := w.pub.Eval(m.S.I).V
				// degenerate: relabelling between indices with the same commitment (t = 1) changes nothing that is verified
				degenerate := field == "I" && sHm.Equal(w.sH[k])
				code := w.verEnc(w.X[k], sHm, w.gc, m, what)
				if code == 0 && !degenerate {
					fail("pvss.VerifyEncShare/accepts-mutated-"+field, what, extra)
				}
				enc := append([]*pvss.PubVerShare{}, w.enc...)
				enc[k] = m
				_, E, _ := w.encBatch(w.X, w.pub, enc, what)
				if contains(E, m) && !degenerate {
					fail("pvss.VerifyEncShareBatch/keeps-mutated-"+field, what, extra)
				}
				// DecShare refuses it as well
				if _, err := pvss.DecShare(e.suite, w.H, w.X[k], sHm, w.x[k], w.gc, m); err == nil {
					if e.clone != nil {
						e.suite.Scalar().Pick(e.clone) // keep the replay stream in step
					}
					if !degenerate {
						fail("pvss.DecShare/decrypts-mutated-"+field, what, extra)
					}
				}
			}
		}
		// whole encrypted shares of trustees k and o exchanged (positions swapped)
		enc := append([]*pvss.PubVerShare{}, w.enc...)
		enc[k], enc[o] = enc[o], enc[k]
		what := fmt.Sprintf("enc[%d] <-> enc[%d]", k, o)
		code := w.verEnc(w.X[k], w.pub.Eval(enc[k].S.I).V, w.gc, enc[k], what)
		if code == 0 && !w.X[k].Equal(w.X[o]) {
			fail("pvss.VerifyEncShare/accepts-other-trustees-share", what, map[string]interface{}{"mutation": what})
		}
		_, E, _ := w.encBatch(w.X, w.pub, enc, what)
		if (contains(E, enc[k]) || contains(E, enc[o])) && !w.X[k].Equal(w.X[o]) {
			fail("pvss.VerifyEncShareBatch/keeps-swapped-shares", what, map[string]interface{}{"mutation": what})
		}
		// trustee key altered / replaced by another trustee's key
		for _, kind := range kinds {
			X := clonePoints(w.X)
			if kind == 3 {
				X[k] = w.X[o].Clone()
			} else {
				X[k] = e.mutPoint(r, w.X[k], kind)
			}
			if X[k].Equal(w.X[k]) {
				continue
			}
			what := fmt.Sprintf("X[%d] kind %d (other %d)", k, kind, o)
			if w.verEnc(X[k], w.sH[k], w.gc, w.enc[k], what) == 0 {
				fail("pvss.VerifyEncShare/accepts-altered-key", what, map[string]interface{}{"mutation": what})
			}
			_, E, _ := w.encBatch(X, w.pub, w.enc, what)
			if contains(E, w.enc[k]) {
				fail("pvss.VerifyEncShareBatch/keeps-share-under-altered-key", what, map[string]interface{}{"mutation": what})
			}
		}
	}
	// expected challenge altered
	for _, kind := range kinds {
		if kind == 3 {
			continue
		}
		gc := e.mutScalar(r, w.gc, kind)
		k := positions[0]
		what := fmt.Sprintf("global challenge kind %d", kind)
		if w.verEnc(w.X[k], w.sH[k], gc, w.enc[k], what) == 0 {
			fail("pvss.VerifyEncShare/accepts-altered-challenge", what, map[string]interface{}{"mutation": what})
		}
	}
	// one coefficient commitment altered: every share is checked against a changed sH and a changed challenge
	for j := 0; j < w.t; j++ {
		commits := clonePoints(w.commits)
		commits[j] = e.mutPoint(r, commits[j], j)
		pub := share.NewPubPoly(e.suite, w.H, commits)
		what := fmt.Sprintf("commitment %d altered", j)
		_, E, _ := w.encBatch(w.X, pub, w.enc, what)
		if len(E) != 0 {
			fail("pvss.VerifyEncShareBatch/keeps-shares-under-altered-commitment", what, map[string]interface{}{"mutation": what, "kept": len(E)})
		}
		k := positions[0]
		if w.verEnc(w.X[k], pub.Eval(w.enc[k].S.I).V, w.gc, w.enc[k], what) == 0 {
			fail("pvss.VerifyEncShare/accepts-altered-commitment", what, map[string]interface{}{"mutation": what})
		}
	}
}

// every single-field mutation / cross-trustee swap on the decrypted side
func (w *world) oracleDecMutations(r *vh.Rng, positions []int, kinds []int) {
	e := w.e
	rep := e.rep
	n := w.n
	fail := func(key, desc string, extra map[string]interface{}) { rep.Fail(key, desc, w.replay(extra)) }
	// recovery from exactly t positions containing the target, and from all n
	recoverWith := func(k int, X []kyber.Point, enc, dec []*pvss.PubVerShare, mutated *pvss.PubVerShare, what string, extra map[string]interface{}, key string) {
		sel := []int{k}
		for _, i := range shuffle(r, seq(n)) {
			if i != k && len(sel) < w.t {
				sel = append(sel, i)
			}
		}
		sel = shuffle(r, sel)
		for _, idx := range [][]int{sel, seq(n)} {
			x, en, de := pick(idx, X, enc, dec)
			if w.e.rep.Tier == "thorough" || (len(idx) == n && r.Chance(35)) {
				D, _ := w.decBatch(x, en, de, what)
				if mutated != nil && contains(D, mutated) {
					fail("pvss.VerifyDecShareBatch/keeps-"+key, what, extra)
				}
			}
			p, code := w.recover(x, en, de, w.t, what, true)
			if p != nil && !p.Equal(w.want) {
				fail("pvss.RecoverSecret/wrong-point-after-"+key, what+fmt.Sprintf(" positions %v", idx), extra)
			}
			if p == nil && len(idx) == n && n-1 >= w.t && code != 1 {
				// n-1 untouched valid shares remain
				fail("pvss.RecoverSecret/refuses-although-t-valid-remain-after-"+key, what+fmt.Sprintf(" error class %d", code), extra)
			}
			if p != nil && len(idx) == w.t && mutated != nil {
				// only t-1 valid shares: must have been refused
				fail("pvss.RecoverSecret/recovers-from-t-1-valid-after-"+key, what, extra)
			}
		}
	}
	for _, k := range positions {
		o := (k + 1 + r.Intn(n-1)) % n
		for _, field := range append(append([]string{}, shareFields...), "P", "S") {
			for _, kind := range kinds {
				if (field == "P" || field == "S") && kind != 3 {
					continue
				}
				m, changed := w.mutShare(r, w.dec[k], w.dec[o], field, kind)
				if field == "C" && kind == 3 {
					m.P.C = w.dec[o].P.C.Clone()
					changed = !m.P.C.Equal(w.dec[k].P.C)
				}
				if !changed {
					continue
				}
				what := fmt.Sprintf("dec[%d].%s kind %d (other %d)", k, field, kind, o)
				extra := map[string]interface{}{"mutation": what, "mutated": shareStr(m)}
				if w.verDec(w.X[k], w.enc[k], m, what) == 0 {
					fail("pvss.VerifyDecShare/accepts-mutated-"+field, what, extra)
				}
				dec := append([]*pvss.PubVerShare{}, w.dec...)
				dec[k] = m
				recoverWith(k, w.X, w.enc, dec, m, what, extra, "mutated-"+field)
			}
		}
		// the encrypted share the decryption is checked against: index / value altered
		for _, field := range []string{"I", "V"} {
			for _, kind := range kinds {
				m, changed := w.mutShare(r, w.enc[k], w.enc[o], field, kind)
				if !changed {
					continue
				}
				what := fmt.Sprintf("enc[%d].%s kind %d (other %d) under VerifyDecShare", k, field, kind, o)
				extra := map[string]interface{}{"mutation": what, "mutated": shareStr(m)}
				if w.verDec(w.X[k], m, w.dec[k], what) == 0 {
					fail("pvss.VerifyDecShare/accepts-mutated-enc-"+field, what, extra)
				}
				enc := append([]*pvss.PubVerShare{}, w.enc...)
				enc[k] = m
				recoverWith(k, w.X, enc, w.dec, w.dec[k], what, extra, "mutated-enc-"+field)
			}
		}
		// key altered / other trustee's key
		for _, kind := range kinds {
			X := clonePoints(w.X)
			if kind == 3 {
				X[k] = w.X[o].Clone()
			} else {
				X[k] = e.mutPoint(r, w.X[k], kind)
			}
			if X[k].Equal(w.X[k]) {
				continue
			}
			what := fmt.Sprintf("X[%d] kind %d (other %d) under VerifyDecShare", k, kind, o)
			extra := map[string]interface{}{"mutation": what}
			if w.verDec(X[k], w.enc[k], w.dec[k], what) == 0 {
				fail("pvss.VerifyDecShare/accepts-altered-key", what, extra)
			}
			recoverWith(k, X, w.enc, w.dec, w.dec[k], what, extra, "altered-key")
		}
		// decrypted shares of trustees k and o exchanged
		if !w.X[k].Equal(w.X[o]) {
			dec := append([]*pvss.PubVerShare{}, w.dec...)
			dec[k], dec[o] = dec[o], dec[k]
			what := fmt.Sprintf("dec[%d] <-> dec[%d]", k, o)
			extra := map[string]interface{}{"mutation": what}
			if w.verDec(w.X[k], w.enc[k], dec[k], what) == 0 {
				fail("pvss.VerifyDecShare/accepts-other-trustees-share", what, extra)
			}
			x, en, de := pick(seq(n), w.X, w.enc, dec)
			D, _ := w.decBatch(x, en, de, what)
			if contains(D, dec[k]) || contains(D, dec[o]) {
				fail("pvss.VerifyDecShareBatch/keeps-swapped-shares", what, extra)
			}
			p, _ := w.recover(x, en, de, w.t, what, true)
			if p != nil && !p.Equal(w.want) {
				fail("pvss.RecoverSecret/wrong-point-after-swap", what, extra)
			}
			if p == nil && n-2 >= w.t {
				fail("pvss.RecoverSecret/refuses-although-t-valid-remain-after-swap", what, extra)
			}
		}
	}
	// duplicates of one position do not count twice towards t
	if w.t >= 2 {
		k := positions[0]
		idx := []int{}
		for i := 0; i < w.t; i++ {
			idx = append(idx, k)
		}
		x, en, de := pick(idx, w.X, w.enc, w.dec)
		p, _ := w.recover(x, en, de, w.t, "one share repeated t times", true)
		if p != nil {
			fail("pvss.RecoverSecret/recovers-from-repeated-share", fmt.Sprintf("share %d repeated %d times", k, w.t), map[string]interface{}{"positions": idx})
		}
	}
	// lists of different lengths
	if n >= 2 {
		p, code := w.recover(w.X[:n-1], w.enc, w.dec, w.t, "X shorter", false)
		if p != nil || code != 1 {
			fail("pvss.RecoverSecret/different-lengths-not-refused", "len(X) = n-1", nil)
		}
		p, code = w.recover(w.X, w.enc, w.dec[:n-1], w.t, "dec shorter", false)
		if p != nil || code != 1 {
			fail("pvss.RecoverSecret/different-lengths-not-refused", "len(dec) = n-1", nil)
		}
		_, _, c := w.encBatch(w.X[:n-1], w.pub, w.enc, "X shorter")
		if c != 1 {
			fail("pvss.VerifyEncShareBatch/different-lengths-not-refused", "len(X) = n-1", nil)
		}
	}
}

// simulated proofs (challenge chosen first, commitments computed from the
// verification equations) for WRONG share values: only the recomputation of
// the hash challenge by the verifier rejects them
func (w *world) oracleForgery(r *vh.Rng, k int) {
	e := w.e
	G := e.base()
	P := func() kyber.Point { return e.suite.Point() }
	fail := func(key, desc string) {
		e.rep.Fail(key, desc, w.replay(map[string]interface{}{"position": k}))
	}
	// decrypted side: V' = V + G
	c, rr := e.nonzero(r, false), e.scalar(r, false)
	Vp := P().Add(w.dec[k].S.V, G)
	fake := &pvss.PubVerShare{S: share.PubShare{I: w.enc[k].S.I, V: Vp}, P: dleq.Proof{C: c, R: rr,
		VG: P().Add(P().Mul(rr, G), P().Mul(c, w.X[k])),
		VH: P().Add(P().Mul(rr, Vp), P().Mul(c, w.enc[k].S.V))}}
	what := fmt.Sprintf("simulated proof for wrong decrypted share at %d", k)
	if w.verDec(w.X[k], w.enc[k], fake, what) == 0 {
		fail("pvss.VerifyDecShare/accepts-simulated-proof-for-wrong-share", what)
	}
	dec := append([]*pvss.PubVerShare{}, w.dec...)
	dec[k] = fake
	sel := []int{k}
	for _, i := range shuffle(r, seq(w.n)) {
		if i != k && len(sel) < w.t {
			sel = append(sel, i)
		}
	}
	for _, idx := range [][]int{seq(w.n), shuffle(r, sel)} {
		x, en, de := pick(idx, w.X, w.enc, dec)
		if p, _ := w.recover(x, en, de, w.t, what, true); p != nil && !p.Equal(w.want) {
			fail("pvss.RecoverSecret/wrong-point-after-simulated-proof", what)
		}
	}
	// encrypted side: sX' = sX + G, challenge copied from the honest proofs
	r2 := e.scalar(r, false)
	sXp := P().Add(w.enc[k].S.V, G)
	fakeE := &pvss.PubVerShare{S: share.PubShare{I: w.enc[k].S.I, V: sXp}, P: dleq.Proof{C: w.gc.Clone(), R: r2,
		VG: P().Add(P().Mul(r2, w.H), P().Mul(w.gc, w.sH[k])),
		VH: P().Add(P().Mul(r2, w.X[k]), P().Mul(w.gc, sXp))}}
	enc := append([]*pvss.PubVerShare{}, w.enc...)
	enc[k] = fakeE
	what = fmt.Sprintf("simulated proof for wrong encrypted share at %d", k)
	// the verifier hashes what it received
	var pts []kyber.Point
	for i := 0; i < w.n; i++ {
		pts = append(pts, w.pub.Eval(uint32(i)).V)
	}
	for _, s := range enc {
		pts = append(pts, s.S.V)
	}
	for _, s := range enc {
		pts = append(pts, s.P.VG)
	}
	for _, s := range enc {
		pts = append(pts, s.P.VH)
	}
	gc2 := e.hashPoints(pts)
	if w.verEnc(w.X[k], w.sH[k], gc2, fakeE, what) == 0 {
		fail("pvss.VerifyEncShare/accepts-simulated-proof-for-wrong-share", what)
	}
	if _, E, _ := w.encBatch(w.X, w.pub, enc, what); contains(E, fakeE) {
		fail("pvss.VerifyEncShareBatch/keeps-simulated-proof-for-wrong-share", what)
	}
	// a repeated position next to t distinct valid ones does not hurt
	idx := []int{0}
	for i := 0; i < w.t; i++ {
		idx = append(idx, i)
	}
	idx = shuffle(r, idx)
	x, en, de := pick(idx, w.X, w.enc, w.dec)
	p, code := w.recover(x, en, de, w.t, "t distinct valid shares, one of them twice", true)
	if p == nil {
		e.rep.Fail("pvss.RecoverSecret/refuses-t-distinct-valid-shares-with-duplicate", fmt.Sprintf("positions %v, t=%d, error class %d", idx, w.t, code), w.replay(map[string]interface{}{"positions": idx}))
	} else if !p.Equal(w.want) {
		e.rep.Fail("pvss.RecoverSecret/wrong-point-with-duplicate", fmt.Sprintf("positions %v", idx), w.replay(map[string]interface{}{"positions": idx}))
	}
}

// Joint forgeries: the prover fixes the commitments first, computes the
// challenge and then solves a verification equation for a statement element
// it is free to choose.  This works exactly when that element is not an input
// of the challenge hash.  Statement elements per proof:
//   share decryption  DLEQ(G, V; X, xS): G fixed, X and xS given to the prover,
//     V chosen by the prover (trustee)           -> must be hashed
//   share encryption  DLEQ(H, X_i; sH_i, sX_i): H, X_i fixed public values,
//     sH_i (through the commitments) and sX_i chosen by the prover (dealer) -> must be hashed
func (w *world) oracleJointForgery(r *vh.Rng, k int) {
	e := w.e
	G := e.base()
	P := func() kyber.Point { return e.suite.Point() }
	S := func() kyber.Scalar { return e.suite.Scalar() }
	fail := func(key, desc string) {
		e.rep.Fail(key, desc, w.replay(map[string]interface{}{"position": k, "strategy": desc}))
	}
	// ---- cheating trustee k: wrong decrypted share V'
	xS := w.enc[k].S.V
	for variant := 0; variant < 3; variant++ {
		v := e.nonzero(r, false)
		W := P().Mul(e.nonzero(r, false), nil)
		VG := P().Mul(v, G)
		var c kyber.Scalar
		solve := func(c kyber.Scalar) (kyber.Scalar, kyber.Point) {
			rr := S().Sub(v, S().Mul(c, w.x[k]))
			if rr.Equal(e.zero()) {
				return nil, nil
			}
			return rr, P().Mul(S().Inv(rr), P().Sub(W, P().Mul(c, xS)))
		}
		name := ""
		switch variant {
		case 0: // challenge over (X, xS, VG, VH): the input list before the repair
			name = "challenge over (X,xS,VG,VH), V solved afterwards"
			c = e.hashPoints([]kyber.Point{w.X[k], xS, VG, W})
		case 1: // challenge over the full list with the honest V as a stand-in
			name = "challenge over (X,xS,V_honest,VG,VH), V solved afterwards"
			c = e.hashPoints([]kyber.Point{w.X[k], xS, w.dec[k].S.V, VG, W})
		default: // one round of fixed-point iteration on V
			name = "challenge over (X,xS,V_0,VG,VH) with V_0 a first solution, V solved again"
			c0 := e.hashPoints([]kyber.Point{w.X[k], xS, w.dec[k].S.V, VG, W})
			_, V0 := solve(c0)
			if V0 == nil {
				continue
			}
			c = e.hashPoints([]kyber.Point{w.X[k], xS, V0, VG, W})
		}
		rr, Vp := solve(c)
		if rr == nil || Vp.Equal(w.dec[k].S.V) {
			continue
		}
		fake := &pvss.PubVerShare{S: share.PubShare{I: w.enc[k].S.I, V: Vp}, P: dleq.Proof{C: c, R: rr, VG: VG, VH: W}}
		what := fmt.Sprintf("joint forgery of decrypted share %d: %s", k, name)
		if w.verDec(w.X[k], w.enc[k], fake, what) == 0 {
			fail("pvss.VerifyDecShare/forged-share-accepted", what)
		}
		dec := append([]*pvss.PubVerShare{}, w.dec...)
		dec[k] = fake
		sel := []int{k}
		for _, i := range shuffle(r, seq(w.n)) {
			if i != k && len(sel) < w.t {
				sel = append(sel, i)
			}
		}
		for _, idx := range [][]int{shuffle(r, sel), seq(w.n)} {
			x, en, de := pick(idx, w.X, w.enc, dec)
			if p, _ := w.recover(x, en, de, w.t, what, true); p != nil && !p.Equal(w.want) {
				fail("pvss.RecoverSecret/wrong-secret-from-verified-shares", what+fmt.Sprintf(" positions %v", idx))
			}
		}
	}
	// ---- cheating dealer: wrong encrypted share sX' for trustee k, all proofs under one jointly computed challenge
	pri := share.NewPriPoly(e.suite, uint32(w.t), w.secret, vh.NewSeqStream(r.Bytes(16)))
	pub := pri.Commit(w.H)
	ps := pri.Shares(uint32(w.n))
	vs := make([]kyber.Scalar, w.n)
	enc := make([]*pvss.PubVerShare, w.n)
	var sHs, sXs, VGs, VHs []kyber.Point
	W := P().Mul(e.nonzero(r, false), nil)
	for i := 0; i < w.n; i++ {
		vs[i] = e.nonzero(r, false)
		sHs = append(sHs, P().Mul(ps[i].V, w.H))
		sXs = append(sXs, P().Mul(ps[i].V, w.X[i]))
		VGs = append(VGs, P().Mul(vs[i], w.H))
		if i == k {
			VHs = append(VHs, W)
		} else {
			VHs = append(VHs, P().Mul(vs[i], w.X[i]))
		}
	}
	all := append(append(append(append([]kyber.Point{}, sHs...), sXs...), VGs...), VHs...)
	c := e.hashPoints(all)
	if c.Equal(e.zero()) {
		return
	}
	for i := 0; i < w.n; i++ {
		ri := S().Sub(vs[i], S().Mul(c, ps[i].V))
		sX := sXs[i]
		if i == k {
			// solve VH = r X_k + c sX' for sX'
			sX = P().Mul(S().Inv(c), P().Sub(W, P().Mul(ri, w.X[k])))
		}
		enc[i] = &pvss.PubVerShare{S: share.PubShare{I: uint32(i), V: sX}, P: dleq.Proof{C: c.Clone(), R: ri, VG: VGs[i], VH: VHs[i]}}
	}
	if enc[k].S.V.Equal(sXs[k]) {
		return
	}
	what := fmt.Sprintf("joint forgery of encrypted share %d: commitments first, challenge over the stand-in share, sX solved afterwards", k)
	_, E, _ := w.encBatch(w.X, pub, enc, what)
	if contains(E, enc[k]) {
		fail("pvss.VerifyEncShareBatch/forged-share-accepted", what)
	}
	// the verifier's own challenge over what it received
	var pts []kyber.Point
	pts = append(pts, sHs...)
	for _, s := range enc {
		pts = append(pts, s.S.V)
	}
	pts = append(append(pts, VGs...), VHs...)
	if w.verEnc(w.X[k], pub.Eval(uint32(k)).V, e.hashPoints(pts), enc[k], what) == 0 {
		fail("pvss.VerifyEncShare/forged-share-accepted", what)
	}
}

func seq(n int) []int {
	out := make([]int, n)
	for i := range out {
		out[i] = i
	}
	return out
}

// ---------------------------------------------------------------- DLEQ

// value relations between the inputs of a DLEQ statement
var dleqRels = []string{"independent", "H is G (same object)", "H equal clone of G", "G = H = Base", "H = k*G small k", "H = -G",
	"x = 0 (both images neutral)", "H = G and x = 1", "H = G and x = 0", "H = G random x (xG == xH)"}

func (e *env) dleqRound(r *vh.Rng, edge bool, rel int, tag string) {
	rep := e.rep
	pt := func() kyber.Point {
		if edge && r.Chance(15) {
			return e.null()
		}
		return e.suite.Point().Mul(e.nonzero(r, edge), nil)
	}
	G, H := pt(), pt()
	x := e.scalar(r, edge)
	rel = rel % len(dleqRels)
	tag = tag + " / " + dleqRels[rel]
	if rel != 0 && G.Equal(e.null()) {
		G = e.suite.Point().Mul(e.nonzero(r, false), nil)
	}
	switch rel {
	case 1, 9:
		H = G
	case 2:
		H = G.Clone()
	case 3:
		G, H = e.base(), e.base()
	case 4:
		H = e.suite.Point().Mul(e.suite.Scalar().SetInt64(int64(2+r.Intn(3))), G)
	case 5:
		H = e.suite.Point().Neg(G)
	case 6:
		x = e.suite.Scalar().Zero()
	case 7:
		H, x = G.Clone(), e.suite.Scalar().One()
	case 8:
		H, x = G, e.suite.Scalar().Zero()
	}
	if rel == 9 {
		x = e.nonzero(r, false)
	}
	rp := func(extra map[string]interface{}) map[string]interface{} {
		m := map[string]interface{}{"group": e.name, "tag": tag, "G": pstr(G), "H": pstr(H), "x": sstr(x)}
		for k, v := range extra {
			m[k] = v
		}
		return m
	}
	var v kyber.Scalar
	if e.dlog != nil {
		v = e.suite.Scalar().Pick(e.clone)
	}
	p, xG, xH, err := dleq.NewDLEQProof(e.suite, G, H, x)
	if err != nil {
		rep.Fail("dleq.NewDLEQProof/error", err.Error(), rp(nil))
		return
	}
	if e.emit {
		tb := e.newTable()
		tb.add([]*big.Int{e.mul(sv(x), dl(G)), e.mul(sv(x), dl(H)), e.mul(sv(v), dl(G)), e.mul(sv(v), dl(H))})
		e.addCase(fmt.Sprintf("(CDleq %d %s %s %s %s %s %s %s %s %s)", *e.id, vh.CoqZ(e.dlog.Q), tb, zP(G), zP(H), zS(x), zS(v), wproof(p), zP(xG), zP(xH)),
			true, "dleq_prove", rp(map[string]interface{}{"what": "NewDLEQProof"}))
	}
	if !xG.Equal(e.suite.Point().Mul(x, G)) || !xH.Equal(e.suite.Point().Mul(x, H)) {
		rep.Fail("dleq.NewDLEQProof/wrong-encrypted-base-points", "xG or xH", rp(nil))
	}
	if !p.C.Equal(e.hashPoints([]kyber.Point{xG, xH, p.VG, p.VH})) {
		rep.Fail("dleq.NewDLEQProof/challenge-not-hash", "C != H(xG,xH,vG,vH)", rp(nil))
	}
	verify := func(q *dleq.Proof, g, h, a, b kyber.Point, what string) bool {
		ok := q.Verify(e.suite, g, h, a, b) == nil
		if e.emit {
			e.addCase(fmt.Sprintf("(CDleqVerify %d %s %s %s %s %s %s %s)", *e.id, vh.CoqZ(e.dlog.Q), wproof(q), zP(g), zP(h), zP(a), zP(b), vh.CoqBool(ok)),
				!ok, fmt.Sprintf("dleq_verify:%v", ok), rp(map[string]interface{}{"what": "Proof.Verify " + what}))
		}
		return ok
	}
	if !verify(p, G, H, xG, xH, "honest") {
		rep.Fail("dleq.Verify/honest-proof-rejected", "proof for x does not verify for (xG, xH)", rp(nil))
	}
	isNull := func(a kyber.Point) bool { return a.Equal(e.null()) }
	isZero := func(a kyber.Scalar) bool { return a.Equal(e.zero()) }
	for kind := 0; kind < 3; kind++ {
		type mc struct {
			name string
			q    dleq.Proof
			g, h kyber.Point
			a, b kyber.Point
			must bool // rejection demanded (the side condition of the theorem holds)
		}
		cp := func() dleq.Proof { return cloneProof(p) }
		var ms []mc
		q := cp()
		q.C = e.mutScalar(r, p.C, kind)
		ms = append(ms, mc{"C", q, G, H, xG, xH, !isNull(xG) || !isNull(xH)})
		q = cp()
		q.R = e.mutScalar(r, p.R, kind)
		ms = append(ms, mc{"R", q, G, H, xG, xH, !isNull(G) || !isNull(H)})
		q = cp()
		q.VG = e.mutPoint(r, p.VG, kind)
		ms = append(ms, mc{"VG", q, G, H, xG, xH, true})
		q = cp()
		q.VH = e.mutPoint(r, p.VH, kind)
		ms = append(ms, mc{"VH", q, G, H, xG, xH, true})
		ms = append(ms, mc{"xG", cp(), G, H, e.mutPoint(r, xG, kind), xH, !isZero(p.C)})
		ms = append(ms, mc{"xH", cp(), G, H, xG, e.mutPoint(r, xH, kind), !isZero(p.C)})
		ms = append(ms, mc{"G", cp(), e.mutPoint(r, G, kind), H, xG, xH, !isZero(p.R)})
		ms = append(ms, mc{"H", cp(), G, e.mutPoint(r, H, kind), xG, xH, !isZero(p.R)})
		for _, m := range ms {
			m := m
			ok := verify(&m.q, m.g, m.h, m.a, m.b, "mutated "+m.name)
			if ok && m.must {
				rep.Fail("dleq.Verify/accepts-mutated-"+m.name, fmt.Sprintf("kind %d", kind), rp(map[string]interface{}{"mutated": m.name, "kind": kind}))
			}
		}
	}
	// proof for x presented for the pair of another secret
	y := e.suite.Scalar().Add(x, e.nonzero(r, false))
	yG, yH := e.suite.Point().Mul(y, G), e.suite.Point().Mul(y, H)
	if verify(p, G, H, yG, yH, "other secret") && !isZero(p.C) && !(isNull(G) && isNull(H)) {
		rep.Fail("dleq.Verify/accepts-proof-for-other-secret", "", rp(map[string]interface{}{"y": sstr(y)}))
	}
	// unequal logarithms (x G, y H)
	if verify(p, G, H, xG, yH, "unequal logs") && !isZero(p.C) && !isNull(H) {
		rep.Fail("dleq.Verify/accepts-unequal-logarithms", "", rp(map[string]interface{}{"y": sstr(y)}))
	}
}

func (e *env) dleqBatchRound(r *vh.Rng, n int, lens [3]int, tag string) {
	rep := e.rep
	var Gs, Hs []kyber.Point
	var xs, vs []kyber.Scalar
	for i := 0; i < lens[0]; i++ {
		Gs = append(Gs, e.suite.Point().Mul(e.nonzero(r, true), nil))
	}
	for i := 0; i < lens[1]; i++ {
		Hs = append(Hs, e.suite.Point().Mul(e.nonzero(r, true), nil))
	}
	for i := 0; i < lens[2]; i++ {
		xs = append(xs, e.scalar(r, true))
	}
	rp := map[string]interface{}{"group": e.name, "tag": tag, "lens": lens}
	same := lens[0] == lens[1] && lens[1] == lens[2]
	if e.dlog != nil && same {
		for range xs {
			vs = append(vs, e.suite.Scalar().Pick(e.clone))
		}
	}
	ps, xG, xH, err := dleq.NewDLEQProofBatch(e.suite, Gs, Hs, xs)
	if (err != nil) == same {
		rep.Fail("dleq.NewDLEQProofBatch/length-check", fmt.Sprintf("err=%v", err), rp)
		return
	}
	if e.emit {
		out := "None"
		tb := e.newTable()
		if err == nil {
			var k1, k2, k3, k4 []*big.Int
			for i := range xs {
				k1 = append(k1, e.mul(sv(xs[i]), dl(Gs[i])))
				k2 = append(k2, e.mul(sv(xs[i]), dl(Hs[i])))
				k3 = append(k3, e.mul(sv(vs[i]), dl(Gs[i])))
				k4 = append(k4, e.mul(sv(vs[i]), dl(Hs[i])))
			}
			tb.add(append(append(append(k1, k2...), k3...), k4...))
			pw := make([]string, len(ps))
			for i, p := range ps {
				pw[i] = wproof(p)
			}
			out = fmt.Sprintf("(Some (%s, %s, %s))", vh.CoqList(pw), zPs(xG), zPs(xH))
		}
		e.addCase(fmt.Sprintf("(CDleqBatch %d %s %s %s %s %s %s %s)", *e.id, vh.CoqZ(e.dlog.Q), tb, zPs(Gs), zPs(Hs), zSs(xs), zSs(vs), out),
			err == nil && len(xs) >= 2, "dleq_batch", rp)
	}
	if err != nil {
		return
	}
	var pts []kyber.Point
	pts = append(pts, xG...)
	pts = append(pts, xH...)
	for _, p := range ps {
		pts = append(pts, p.VG)
	}
	for _, p := range ps {
		pts = append(pts, p.VH)
	}
	c := e.hashPoints(pts)
	for i, p := range ps {
		if !p.C.Equal(c) {
			rep.Fail("dleq.NewDLEQProofBatch/challenge-not-hash-of-all", fmt.Sprintf("proof %d", i), rp)
		}
		if p.Verify(e.suite, Gs[i], Hs[i], xG[i], xH[i]) != nil {
			rep.Fail("dleq.NewDLEQProofBatch/honest-proof-rejected", fmt.Sprintf("proof %d", i), rp)
		}
		j := (i + 1) % len(ps)
		if j != i && ps[j].Verify(e.suite, Gs[i], Hs[i], xG[i], xH[i]) == nil && !xs[i].Equal(xs[j]) {
			// the proof of another entry (different secret) must not verify here, unless the bases coincide degenerately
			if !Gs[i].Equal(Gs[j]) || !Hs[i].Equal(Hs[j]) {
				rep.Fail("dleq.Verify/accepts-proof-of-other-batch-entry", fmt.Sprintf("proof %d at %d", j, i), rp)
			}
		}
	}
}

// ---------------------------------------------------------------- panics of the commitment evaluation

func (e *env) emptyCommitCase() {
	if !e.emit {
		return
	}
	pub := share.NewPubPoly(e.suite, e.base(), nil)
	panicked, _ := vh.Try(func() { _, _ = pvss.VerifComputeGlobalChallenge(e.suite, 2, pub, nil) })
	out := "None"
	if !panicked {
		out = "(Some 0)"
	}
	e.addCase(fmt.Sprintf("(CGc %d %s [] 2 [] [] None %s)", *e.id, vh.CoqZ(e.dlog.Q), out), false, "global_challenge:panic",
		map[string]interface{}{"what": "computeGlobalChallenge on an empty commitment polynomial panics"})
	// n = 0: nothing is evaluated, nothing hashed but the empty string
	gc, err := pvss.VerifComputeGlobalChallenge(e.suite, 0, pub, nil)
	if err == nil {
		tb := e.newTable()
		tb.add(nil)
		e.addCase(fmt.Sprintf("(CGc %d %s %s 0 [] [] (Some []) (Some %s))", *e.id, vh.CoqZ(e.dlog.Q), tb, zS(gc)), false, "global_challenge:n0",
			map[string]interface{}{"what": "computeGlobalChallenge with n = 0"})
	}
}

// a PVSS run under a value relation, with the full single-field mutation matrix
func relWorld(e *env, r *vh.Rng, n, t, rel int, kinds []int) {
	w := newWorldRel(e, r, n, t, r.Intn(4), rel, "rel")
	if w == nil {
		return
	}
	e.rep.Dist("relation_world:" + worldRels[rel%len(worldRels)])
	w.emitHonest()
	w.oracleSubsets(r, 0, 1, 4)
	pos := []int{r.Intn(n)}
	switch rel % len(worldRels) {
	case 2, 6:
		pos = []int{0}
	case 3:
		// identical keys: a swap between the two trustees is not a change the verifier can see
		pos = []int{1}
		kinds = []int{0, 1, 2}
	}
	w.oracleEncMutations(r, pos, kinds)
	w.oracleDecMutations(r, pos, kinds)
	w.oracleForgery(r, pos[0])
	w.oracleJointForgery(r, pos[0])
}

// ---------------------------------------------------------------- main

func main() {
	o := vh.ParseFlags()
	rng := vh.NewRng(o.Seed)
	rep := vh.NewReport("C13", o.Seed, o.Tier)
	rep.Rule = "dlog group (order 2^61-1), model correspondence: every (n,t) with 2<=n<=6 (thorough 7), 1<=t<=n, secrets random/0/1/-1, exact EncShares output (shares, proofs, commitments) from replayed randomness, computeCommitments, global challenge, DecShare, VerifyEncShare/VerifyDecShare verdict classes, batch results and RecoverSecret result for: all ordered subsets of decrypted shares for n<=4 (all subsets + random orders above), simulated and joint forgeries (commitments first, challenge, then a statement element solved from the verification equation: decrypted share V by a cheating trustee, encrypted share sX by a cheating dealer), every single-field mutation (I,V,C,R,VG,VH; +1/zero-or-max/random/other trustee's value) and cross-trustee swap (proof, share, whole position, key) of encrypted and decrypted shares at up to 3 positions, altered keys, challenge and coefficient commitments, repeated shares, unequal lengths; NewDLEQProof/Batch/Verify on edge and random inputs with every single-field mutation. Value relations between inputs (H = Base, H = X_0, X_1 = X_0, secret 0/1, H = -Base; for DLEQ: H same object / equal / Base / k*G / -G, x = 0, 1, xG == xH) each with the full mutation matrix. The hash oracle of the model is a table computed by the harness independently. Oracles: the same clauses evaluated on the implementation over the dlog group, Ed25519 and P-256 (n up to 10). distinct = distinct canonical case text; non-trivial = rejected inputs, recoveries with t>=2 from proper subsets or mutated lists, proofs"
	cf := &vh.CaseFile{Header: "From Kyber Require Import PVSS.PvssSM PVSS.PvssRun.", Type: "case", Runner: "mismatches"}
	id := 0
	kindsAll := []int{0, 1, 2, 3}

	// ---------------- correspondence + oracles over the dlog group
	if !o.Search {
		maxN := 6
		if o.Thorough {
			maxN = 7
		}
		first := true
		for n := 2; n <= maxN; n++ {
			for t := 1; t <= n; t++ {
				r := rng.Fork()
				e := newEnv(0, fmt.Sprintf("c13/dlog/%d/%d/%d", o.Seed, n, t), rep, cf, &id, true)
				if first {
					e.emptyCommitCase()
					first = false
				}
				w := newWorld(e, r, n, t, n+t+int(o.Seed), "corr")
				if w == nil {
					continue
				}
				w.emitHonest()
				rep.Sample(w.replay(map[string]interface{}{"enc": shareStr(w.enc[0]), "dec": shareStr(w.dec[0])}))
				switch {
				case o.Thorough && n <= 4:
					w.oracleSubsets(r, 4, 0, 0)
				case o.Thorough:
					w.oracleSubsets(r, 5, 3, 0)
				case n <= 3:
					w.oracleSubsets(r, 3, 0, 0)
				case n == 4:
					w.oracleSubsets(r, 0, 1, 0)
				default:
					w.oracleSubsets(r, 0, 1, 14)
				}
				npos := 1
				if o.Thorough {
					npos = 3
				} else if n <= 3 {
					npos = 2
				}
				pos := shuffle(r, seq(n))
				if len(pos) > npos {
					pos = pos[:npos]
				}
				kinds := kindsAll
				if !o.Thorough && n >= 4 {
					kinds = []int{r.Intn(3), 3}
				}
				w.oracleEncMutations(r, pos, kinds)
				w.oracleDecMutations(r, pos, kinds)
				w.oracleForgery(r, pos[0])
				w.oracleJointForgery(r, pos[0])
				// a second world with other secret kind, honest cases only
				w2 := newWorld(e, r, n, t, n+t+int(o.Seed)+1+r.Intn(3), "corr2")
				if w2 != nil {
					w2.emitHonest()
					w2.oracleSubsets(r, 0, 1, 4)
					w2.oracleJointForgery(r, r.Intn(n))
				}
			}
		}
		// value relations between the inputs: full mutation matrix in each configuration
		for _, nt := range [][2]int{{2, 1}, {3, 2}, {4, 3}} {
			for rel := 1; rel < len(worldRels); rel++ {
				if !o.Thorough && (nt[0] == 4 || (nt[0] == 2 && rel != 2 && rel != 5 && rel != 6)) {
					continue
				}
				r := rng.Fork()
				e := newEnv(0, fmt.Sprintf("c13/dlog/rel/%d/%d/%d", o.Seed, nt[0], rel), rep, cf, &id, true)
				relWorld(e, r, nt[0], nt[1], rel, kindsAll)
			}
		}
		// DLEQ
		e := newEnv(0, fmt.Sprintf("c13/dlog/dleq/%d", o.Seed), rep, cf, &id, true)
		r := rng.Fork()
		nd := 16
		if o.Thorough {
			nd = 200
		}
		for k := 0; k < nd; k++ {
			e.dleqRound(r, k%2 == 0, 0, fmt.Sprintf("dleq %d", k))
		}
		for k := 1; k < 2*len(dleqRels); k++ {
			e.dleqRound(r, false, k, fmt.Sprintf("dleq rel %d", k))
		}
		for n := 0; n <= 5; n++ {
			e.dleqBatchRound(r, n, [3]int{n, n, n}, "batch")
		}
		e.dleqBatchRound(r, 3, [3]int{2, 3, 3}, "batch lens")
		e.dleqBatchRound(r, 3, [3]int{3, 3, 2}, "batch lens")
		e.dleqBatchRound(r, 3, [3]int{3, 2, 3}, "batch lens")
	}

	// ---------------- oracles over real groups (and the dlog group in search mode)
	groups := []int{1, 2}
	rounds, maxN := 1, 10
	if o.Thorough {
		rounds = 2
	}
	if o.Search {
		groups = []int{0, 1, 2}
		rounds = 2
	}
	for _, gk := range groups {
		for round := 0; round < rounds; round++ {
			if o.Search && len(rep.Failures) > 0 {
				break // a concrete failing input has been found
			}
			for n := 2; n <= maxN; n++ {
				ts := []int{1, (n + 1) / 2, n}
				if o.Thorough || (o.Search && gk != 2) || n <= 4 {
					ts = seq(n + 1)[1:]
				}
				seenT := map[int]bool{}
				for _, t := range ts {
					if seenT[t] {
						continue
					}
					seenT[t] = true
					r := rng.Fork()
					e := newEnv(gk, fmt.Sprintf("c13/or/%d/%d/%d/%d/%d", o.Seed, gk, round, n, t), rep, cf, &id, false)
					w := newWorld(e, r, n, t, r.Intn(8), "oracle")
					if w == nil {
						continue
					}
					rep.Dist("oracle_world:" + e.name)
					rep.Evaluations++
					if n <= 3 {
						w.oracleSubsets(r, 3, 0, 0)
					} else {
						w.oracleSubsets(r, 0, 1, 8)
					}
					pos := shuffle(r, seq(n))[:1]
					kinds := []int{r.Intn(3), 3}
					if (o.Search && gk != 2) || o.Thorough {
						kinds = kindsAll
					}
					w.oracleEncMutations(r, pos, kinds)
					w.oracleDecMutations(r, pos, kinds)
					w.oracleForgery(r, pos[0])
					ks := shuffle(r, seq(n))
					if n > 4 && !o.Thorough {
						ks = ks[:2]
					}
					for _, k := range ks {
						w.oracleJointForgery(r, k)
					}
				}
			}
			for _, nt := range [][2]int{{2, 1}, {3, 2}} {
				for rel := 1; rel < len(worldRels); rel++ {
					r := rng.Fork()
					e := newEnv(gk, fmt.Sprintf("c13/or/rel/%d/%d/%d/%d/%d", o.Seed, gk, round, nt[0], rel), rep, cf, &id, false)
					relWorld(e, r, nt[0], nt[1], rel, kindsAll)
					rep.Evaluations++
				}
			}
			e := newEnv(gk, fmt.Sprintf("c13/or/dleq/%d/%d/%d", o.Seed, gk, round), rep, cf, &id, false)
			r := rng.Fork()
			for k := 0; k < 12; k++ {
				e.dleqRound(r, k%2 == 0, 0, fmt.Sprintf("oracle dleq %d", k))
				rep.Evaluations++
			}
			for k := 1; k < len(dleqRels); k++ {
				e.dleqRound(r, false, k, fmt.Sprintf("oracle dleq rel %d", k))
				rep.Evaluations++
			}
			e.dleqBatchRound(r, 4, [3]int{4, 4, 4}, "oracle batch")
			e.dleqBatchRound(r, 3, [3]int{3, 2, 3}, "oracle batch lens")
		}
	}

	if !o.Search {
		vh.WriteShards(o.Out, "c13", cf, 150, rep)
	}
	rep.Write(o.Out)
}
